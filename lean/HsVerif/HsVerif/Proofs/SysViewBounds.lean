import HsVerif.Proofs.ReplicaLog
import HsVerif.Proofs.ReplicaHighQC
import HsVerif.Proofs.SysInv
/-!
View bounds of one replica (task S14), through every handler, and their lift to `Reach`.

`VB s`: the committed block is OLDER than the current view (`s.committed.view < s.view`), the replica has
not voted or timed out beyond its view (`s.lastVoted ≤ s.view`), genesis is stored.

Why it holds: the view only grows (`advanceView`: to the certified view + 1, at least `view + 1`); `committed` is moved by `tryCommit c b` only,
to the tail `b3` of a chain below the block `p` stored under `b.qc.hash` (`CommitChain`, `tryCommit_tl`);
`tryCommit c b` runs only after `voterVerify … b …` answered `.ok` — so `b.qc` verifies (the stored block
`p` has the certificate's view) and `b.qc.view < b.view` — and `b.view ≤ view` (`onPropose` buffers
proposals of later views, `createAndPropose` proposes for the current view).

The high QC and the high TC: with the old `advanceView` (`view + 1`) they were NOT bounded by the view (a replica
that lagged behind learnt a certificate of a later view and moved on by ONE view); since `EnterViewAfter` (task
S15) the replica enters the view after the certificate — see Props/C05Pre.lean for the kernel-evaluated run.
-/
open Std.Do
set_option mvcgen.warning false
set_option linter.unusedSimpArgs false
set_option linter.unusedVariables false
namespace HsVerif.Model
open HsVerif.Proofs

/-- current view, committed block, last voted view -/
@[reducible] def VCL (s : RState) : Nat × Block × Nat := (s.view, s.committed, s.lastVoted)

section VCLFrames
theorem emit_vcl (o : Out) (x) :
    ⦃fun s => ⌜VCL s = x⌝⦄ emit o ⦃⇓ _ s => ⌜VCL s = x⌝⦄ := by
  mvcgen [emit] <;> simp_all +zetaDelta [VCL]
attribute [local spec] emit_vcl

theorem addEvent_vcl (e : Ev) (x) :
    ⦃fun s => ⌜VCL s = x⌝⦄ addEvent e ⦃⇓ _ s => ⌜VCL s = x⌝⦄ := by
  mvcgen [addEvent] <;> simp_all +zetaDelta [VCL]
attribute [local spec] addEvent_vcl

theorem getBlock_vcl (h : Hash) (x) :
    ⦃fun s => ⌜VCL s = x⌝⦄ getBlock h ⦃⇓ _ s => ⌜VCL s = x⌝⦄ := by
  mvcgen [getBlock] <;> simp_all +zetaDelta [VCL]
attribute [local spec] getBlock_vcl

theorem fetchFor_vcl (h : Hash) (x) :
    ⦃fun s => ⌜VCL s = x⌝⦄ fetchFor h ⦃⇓ _ s => ⌜VCL s = x⌝⦄ := by
  mvcgen [fetchFor] <;> simp_all +zetaDelta [VCL]
attribute [local spec] fetchFor_vcl

theorem signMsg_vcl (c : RCfg) (m : Msg) (x) :
    ⦃fun s => ⌜VCL s = x⌝⦄ signMsg c m ⦃⇓ _ s => ⌜VCL s = x⌝⦄ := by
  mvcgen [signMsg] <;> simp_all +zetaDelta [VCL]
attribute [local spec] signMsg_vcl

theorem verifyQCM_vcl (k : Keys) (c : RCfg) (q : QC) (x) :
    ⦃fun s => ⌜VCL s = x⌝⦄ verifyQCM k c q ⦃⇓ _ s => ⌜VCL s = x⌝⦄ := by
  mvcgen [verifyQCM] <;> simp_all +zetaDelta [VCL]
attribute [local spec] verifyQCM_vcl

theorem verifyTCM_vcl (k : Keys) (c : RCfg) (t : TC) (x) :
    ⦃fun s => ⌜VCL s = x⌝⦄ verifyTCM k c t ⦃⇓ _ s => ⌜VCL s = x⌝⦄ := by
  mvcgen [verifyTCM] <;> simp_all +zetaDelta [VCL]
attribute [local spec] verifyTCM_vcl

theorem qcRef_vcl (q : QC) (x) :
    ⦃fun s => ⌜VCL s = x⌝⦄ qcRef q ⦃⇓ _ s => ⌜VCL s = x⌝⦄ := by
  mvcgen [qcRef] <;> simp_all +zetaDelta [VCL]
attribute [local spec] qcRef_vcl

theorem extendsM_vcl (b t : Block) (x) :
    ⦃fun s => ⌜VCL s = x⌝⦄ extendsM b t ⦃⇓ _ s => ⌜VCL s = x⌝⦄ := by
  mvcgen [extendsM] <;> simp_all +zetaDelta [VCL]
attribute [local spec] extendsM_vcl

theorem voteRule_vcl (c : RCfg) (v : Nat) (b : Block) (agg : Option AggQC) (x) :
    ⦃fun s => ⌜VCL s = x⌝⦄ voteRule c v b agg ⦃⇓ _ s => ⌜VCL s = x⌝⦄ := by
  mvcgen [voteRule] <;> simp_all +zetaDelta [VCL]
attribute [local spec] voteRule_vcl

theorem commitRule_vcl (c : RCfg) (b : Block) (x) :
    ⦃fun s => ⌜VCL s = x⌝⦄ commitRule c b ⦃⇓ _ s => ⌜VCL s = x⌝⦄ := by
  mvcgen [commitRule] <;> simp_all +zetaDelta [VCL]
attribute [local spec] commitRule_vcl

theorem votesCleanup_vcl  (x) :
    ⦃fun s => ⌜VCL s = x⌝⦄ votesCleanup ⦃⇓ _ s => ⌜VCL s = x⌝⦄ := by
  mvcgen [votesCleanup] <;> simp_all +zetaDelta [VCL]
attribute [local spec] votesCleanup_vcl

theorem collectVote_vcl (k : Keys) (c : RCfg) (id : Nat) (sig : Option Sig) (h : Hash) (d : Bool) (x) :
    ⦃fun s => ⌜VCL s = x⌝⦄ collectVote k c id sig h d ⦃⇓ _ s => ⌜VCL s = x⌝⦄ := by
  mvcgen [collectVote] <;> simp_all +zetaDelta [VCL]
attribute [local spec] collectVote_vcl

theorem aggregateVote_vcl (k : Keys) (c : RCfg) (b : Block) (sg : Sig) (x) :
    ⦃fun s => ⌜VCL s = x⌝⦄ aggregateVote k c b sg ⦃⇓ _ s => ⌜VCL s = x⌝⦄ := by
  mvcgen [aggregateVote] <;> simp_all +zetaDelta [VCL]
attribute [local spec] aggregateVote_vcl

theorem markProposed_vcl (fuel : Nat) (b : Block) (x) :
    ⦃fun s => ⌜VCL s = x⌝⦄ markProposed fuel b ⦃⇓ _ s => ⌜VCL s = x⌝⦄ := by
  induction fuel generalizing b with
  | zero => mvcgen [markProposed] <;> simp_all +zetaDelta [VCL]
  | succ n ih => mvcgen [markProposed, ih] <;> simp_all +zetaDelta [VCL]
attribute [local spec] markProposed_vcl

theorem verifyAggM_go_vcl (k : Keys) (c : RCfg) (l : List QC) (x) :
    ⦃fun s => ⌜VCL s = x⌝⦄ verifyAggM.go k c l ⦃⇓ _ s => ⌜VCL s = x⌝⦄ := by
  induction l with
  | nil => mvcgen [verifyAggM.go] <;> simp_all +zetaDelta [VCL]
  | cons q rest ih => mvcgen [verifyAggM.go, ih] <;> simp_all +zetaDelta [VCL]
attribute [local spec] verifyAggM_go_vcl

theorem verifyAggM_vcl (k : Keys) (c : RCfg) (a : AggQC) (x) :
    ⦃fun s => ⌜VCL s = x⌝⦄ verifyAggM k c a ⦃⇓ _ s => ⌜VCL s = x⌝⦄ := by
  mvcgen [verifyAggM] <;> simp_all +zetaDelta [VCL]
attribute [local spec] verifyAggM_vcl

theorem verifyAnyM_vcl (k : Keys) (c : RCfg) (q : QC) (agg : Option AggQC) (x) :
    ⦃fun s => ⌜VCL s = x⌝⦄ verifyAnyM k c q agg ⦃⇓ _ s => ⌜VCL s = x⌝⦄ := by
  mvcgen [verifyAnyM] <;> simp_all +zetaDelta [VCL]
attribute [local spec] verifyAnyM_vcl

theorem voterVerify_vcl (k : Keys) (c : RCfg) (id : Nat) (b : Block) (agg : Option AggQC) (x) :
    ⦃fun s => ⌜VCL s = x⌝⦄ voterVerify k c id b agg ⦃⇓ _ s => ⌜VCL s = x⌝⦄ := by
  mvcgen [voterVerify] <;> simp_all +zetaDelta [VCL]
attribute [local spec] voterVerify_vcl

theorem verifySyncInfo_vcl (k : Keys) (c : RCfg) (si : SyncInfo) (x) :
    ⦃fun s => ⌜VCL s = x⌝⦄ verifySyncInfo k c si ⦃⇓ _ s => ⌜VCL s = x⌝⦄ := by
  mvcgen [verifySyncInfo] <;> simp_all +zetaDelta [VCL]
attribute [local spec] verifySyncInfo_vcl
end VCLFrames

/-- **the view bounds**, with a lower bound `v` on the view carried along (`v = 0`: the invariant itself) -/
structure VBL (v : Nat) (s : RState) : Prop where
  committed : s.committed.view < s.view
  voted : s.lastVoted ≤ s.view
  gen : Grows G0 s
  low : v ≤ s.view

/-- the block certified by the certificate of `b` is stored and older than `b` -/
def PV (b : Block) (s : RState) : Prop := ∃ p, s.chain.blocks.lookup b.qc.hash = some p ∧ p.view < b.view

theorem PV.grows {b : Block} {s s' : RState} (hg : Grows s.chain.blocks s') (h : PV b s) : PV b s' := by
  obtain ⟨p, hp, hv⟩ := h
  exact ⟨p, hg _ _ hp, hv⟩

theorem VBL.mono {v w : Nat} {s : RState} (h : VBL v s) (hw : w ≤ s.view) : VBL w s := ⟨h.1, h.2, h.3, hw⟩

theorem vcl_run {α} (f : M α) (h : ∀ x, ⦃fun s => ⌜VCL s = x⌝⦄ f ⦃⇓ _ s => ⌜VCL s = x⌝⦄) (s : RState) :
    (f.run s).2.view = s.view ∧ (f.run s).2.committed = s.committed ∧ (f.run s).2.lastVoted = s.lastVoted := by
  have := run_res_of_triple f (fun s' => VCL s' = VCL s) (fun _ s' => VCL s' = VCL s) (h (VCL s)) s rfl
  simp only [VCL, Prod.mk.injEq] at this
  exact this

/-- leaf frame: what keeps view, committed block and last voted view and lets the store grow keeps `VBL`
(and `PV`) -/
theorem vbl_frame {α} (f : M α) (v : Nat)
    (hvw : ∀ x, ⦃fun s => ⌜VCL s = x⌝⦄ f ⦃⇓ _ s => ⌜VCL s = x⌝⦄)
    (hgr : ∀ x, ⦃fun s => ⌜Grows x s⌝⦄ f ⦃⇓ _ s => ⌜Grows x s⌝⦄) :
    ⦃fun s => ⌜VBL v s⌝⦄ f ⦃⇓ _ s => ⌜VBL v s⌝⦄ := by
  apply triple_of_run
  intro s h
  obtain ⟨h1, h2, h3⟩ := vcl_run f hvw s
  have g := run_res_of_triple f (fun s' => Grows G0 s') (fun _ s' => Grows G0 s') (hgr G0) s h.gen
  exact ⟨by rw [h1, h2]; exact h.1, by rw [h1, h3]; exact h.2, g, by rw [h1]; exact h.4⟩

theorem vblp_frame {α} (f : M α) (v : Nat) (b : Block)
    (hvw : ∀ x, ⦃fun s => ⌜VCL s = x⌝⦄ f ⦃⇓ _ s => ⌜VCL s = x⌝⦄)
    (hgr : ∀ x, ⦃fun s => ⌜Grows x s⌝⦄ f ⦃⇓ _ s => ⌜Grows x s⌝⦄) :
    ⦃fun s => ⌜VBL v s ∧ PV b s⌝⦄ f ⦃⇓ _ s => ⌜VBL v s ∧ PV b s⌝⦄ := by
  apply triple_of_run
  intro s ⟨h, hp⟩
  exact ⟨run_res_of_triple _ _ _ (vbl_frame f v hvw hgr) s h, hp.grows (grows_run f hgr s)⟩

/-- a certificate that verifies names a stored block of its view (genesis is stored) -/
theorem pv_of_verify (k : Keys) (c : RCfg) (s : RState) (b : Block) (hg : Grows G0 s)
    (hv : verifyQC (env k c s) b.qc = true) (hlt : b.qc.view < b.view) : PV b s := by
  rcases verifyQC_blockView k c s b.qc hv with ⟨h1, h2⟩ | ⟨p, hp, hpv⟩
  · refine ⟨genesisBlock, ?_, ?_⟩
    · rw [h1]; exact hg genesisHash genesisBlock (by simp [G0])
    · show 0 < b.view; omega
  · exact ⟨p, hp, by omega⟩

section VBChain
variable (k : Keys) (c : RCfg)

/-- what `verifyAnyM` answers `.ok` to verifies in the state it leaves behind -/
theorem verifyAnyM_res (q : QC) (agg : Option AggQC) :
    ⦃fun _ => ⌜True⌝⦄ verifyAnyM k c q agg ⦃⇓ r s => ⌜r = .ok () → verifyQC (env k c s) q = true⌝⦄ := by
  have h1 := verifyQCM_res k c q
  have h2 : ∀ a, ⦃fun _ => ⌜True⌝⦄ verifyAggM k c a ⦃⇓ _ _ => ⌜True⌝⦄ :=
    fun a => triple_of_run _ _ _ (fun _ _ => trivial)
  mvcgen [verifyAnyM, h1, h2]
  all_goals simp_all

/-- an accepted proposal: its certificate verifies now and is older than the block -/
theorem voterVerify_res (id : Nat) (b : Block) (agg : Option AggQC) :
    ⦃fun _ => ⌜True⌝⦄ voterVerify k c id b agg
    ⦃⇓ r s => ⌜r = .ok () → verifyQC (env k c s) b.qc = true ∧ b.qc.view < b.view⌝⦄ := by
  have h1 := verifyAnyM_res k c b.qc agg
  have h2 : ∀ v, ⦃fun _ => ⌜True⌝⦄ voteRule c v b agg ⦃⇓ _ _ => ⌜True⌝⦄ :=
    fun v => triple_of_run _ _ _ (fun _ _ => trivial)
  mvcgen [voterVerify, h1, h2]
  all_goals simp_all
  all_goals omega

theorem voterVerify_vbl (v : Nat) (id : Nat) (b : Block) (agg : Option AggQC) :
    ⦃fun s => ⌜VBL v s⌝⦄ voterVerify k c id b agg ⦃⇓ r s => ⌜VBL v s ∧ (r = .ok () → PV b s)⌝⦄ := by
  apply triple_of_run
  intro s h
  have h1 := run_res_of_triple _ _ _ (vbl_frame _ v (voterVerify_vcl k c id b agg) (voterVerify_gr k c id b agg)) s h
  have h2 := run_res_of_triple _ (fun _ => True) _ (voterVerify_res k c id b agg) s trivial
  exact ⟨h1, fun hr => pv_of_verify k c _ b h1.gen (h2 hr).1 (h2 hr).2⟩


theorem vbl_congr (v : Nat) (s s' : RState) (h : VBL v s) (hv : s'.view = s.view) (hc : s'.committed = s.committed)
    (hl : s'.lastVoted = s.lastVoted) (hb : s'.chain.blocks = s.chain.blocks) : VBL v s' :=
  ⟨by rw [hv, hc]; exact h.1, by rw [hv, hl]; exact h.2,
    fun x b hx => by show s'.chain.blocks.lookup x = some b; rw [hb]; exact h.3 x b hx, by rw [hv]; exact h.4⟩

theorem vbl_iff (v : Nat) (s : RState) : VBL v s ↔
    (s.committed.view < s.view ∧ s.lastVoted ≤ s.view ∧ ChainGrows G0 s.chain ∧ v ≤ s.view) :=
  ⟨fun h => ⟨h.1, h.2, h.3, h.4⟩, fun h => ⟨h.1, h.2.1, h.2.2.1, h.2.2.2⟩⟩

/-- closes the verification conditions of the `VBL` chain -/
macro "vb_finish" : tactic => `(tactic| (
  (try intros)
  (try simp only [and_true, true_and, and_self, implies_true] at *)
  (first
    | done
    | assumption
    | (simp_all; done)
    | (have := ‹VBL _ _›; exact vbl_congr _ _ _ this rfl rfl rfl rfl)
    | (simp_all +zetaDelta [vbl_iff]; done)
    | (simp_all +zetaDelta [vbl_iff]; omega)
    | (simp_all +zetaDelta [vbl_iff]; split <;> omega)
    | (simp_all +zetaDelta; done)
    | skip)))

theorem emit_vbl (v : Nat) (o : Out) : ⦃fun s => ⌜VBL v s⌝⦄ emit o ⦃⇓ _ s => ⌜VBL v s⌝⦄ :=
  vbl_frame _ v (emit_vcl o) (emit_gr o)
theorem addEvent_vbl (v : Nat) (e : Ev) : ⦃fun s => ⌜VBL v s⌝⦄ addEvent e ⦃⇓ _ s => ⌜VBL v s⌝⦄ :=
  vbl_frame _ v (addEvent_vcl e) (addEvent_gr e)
theorem getBlock_vbl (v : Nat) (h : Hash) : ⦃fun s => ⌜VBL v s⌝⦄ getBlock h ⦃⇓ _ s => ⌜VBL v s⌝⦄ :=
  vbl_frame _ v (getBlock_vcl h) (getBlock_gr h)
theorem signMsg_vbl (v : Nat) (m : Msg) : ⦃fun s => ⌜VBL v s⌝⦄ signMsg c m ⦃⇓ _ s => ⌜VBL v s⌝⦄ :=
  vbl_frame _ v (signMsg_vcl c m) (signMsg_gr c m)
theorem signMsg_vblp (v : Nat) (b : Block) (m : Msg) :
    ⦃fun s => ⌜VBL v s ∧ PV b s⌝⦄ signMsg c m ⦃⇓ _ s => ⌜VBL v s ∧ PV b s⌝⦄ :=
  vblp_frame _ v b (signMsg_vcl c m) (signMsg_gr c m)
theorem markProposed_vbl (v : Nat) (fuel : Nat) (b : Block) :
    ⦃fun s => ⌜VBL v s⌝⦄ markProposed fuel b ⦃⇓ _ s => ⌜VBL v s⌝⦄ :=
  vbl_frame _ v (markProposed_vcl fuel b) (markProposed_gr fuel b)
theorem collectVote_vbl (v : Nat) (id : Nat) (sig : Option Sig) (h : Hash) (d : Bool) :
    ⦃fun s => ⌜VBL v s⌝⦄ collectVote k c id sig h d ⦃⇓ _ s => ⌜VBL v s⌝⦄ :=
  vbl_frame _ v (collectVote_vcl k c id sig h d) (collectVote_gr k c id sig h d)
theorem aggregateVote_vbl (v : Nat) (b : Block) (sg : Sig) :
    ⦃fun s => ⌜VBL v s⌝⦄ aggregateVote k c b sg ⦃⇓ _ s => ⌜VBL v s⌝⦄ :=
  vbl_frame _ v (aggregateVote_vcl k c b sg) (aggregateVote_gr k c b sg)
theorem verifySyncInfo_vbl (v : Nat) (si : SyncInfo) :
    ⦃fun s => ⌜VBL v s⌝⦄ verifySyncInfo k c si ⦃⇓ _ s => ⌜VBL v s⌝⦄ :=
  vbl_frame _ v (verifySyncInfo_vcl k c si) (verifySyncInfo_gr k c si)

/-- a vote for a block that is not newer than the view keeps the bounds -/
theorem voteFor_vblp (v : Nat) (b : Block) (id : Nat) :
    ⦃fun s => ⌜(VBL v s ∧ PV b s) ∧ b.view ≤ v⌝⦄ voteFor c b id ⦃⇓ _ s => ⌜(VBL v s ∧ PV b s) ∧ b.view ≤ v⌝⦄ := by
  have h1 := signMsg_vblp c v b
  mvcgen [voteFor, h1]
  all_goals clear h1
  all_goals (try intros)
  all_goals (first
    | (rename_i _ h0 _ _ h _; exact ⟨⟨⟨h.1.1, Nat.le_trans h0.2 h.1.4, h.1.3, h.1.4⟩, h.2⟩, h0.2⟩)
    | (simp_all; done)
    | skip)

/-- **the committer keeps the bound**: `tryCommit c b` for a block `b` that is not newer than the view and whose
certified block is stored and older than `b` leaves a committed block that is older than the view -/
theorem tryCommit_vblp (v : Nat) (b : Block) :
    ⦃fun s => ⌜(VBL v s ∧ PV b s) ∧ b.view ≤ v⌝⦄ tryCommit c b ⦃⇓ _ s => ⌜(VBL v s ∧ PV b s) ∧ b.view ≤ v⌝⦄ := by
  apply triple_of_run
  intro s ⟨⟨h, hp⟩, hb⟩
  have htl := tryCommit_tl c b s
  have hap := run_res_of_triple _ (fun s' => AP s' = AP s) (fun _ s' => AP s' = AP s) (tryCommit_ap c b (AP s)) s rfl
  have hvs := run_res_of_triple _ (fun s' => VS s' = VS s) (fun _ s' => VS s' = VS s) (tryCommit_frame c b (VS s)) s rfl
  have hg0 := run_res_of_triple _ (fun s' => Grows G0 s') (fun _ s' => Grows G0 s') (tryCommit_gr c b G0) s h.gen
  generalize ((tryCommit c b).run s).2 = s1 at htl hap hvs hg0
  have hview : s1.view = s.view := by
    have := congrArg (fun x => x.2.1) hap
    simpa [AP] using this
  have hlv : s1.lastVoted = s.lastVoted := by
    have := congrArg (fun x => x.2) hvs
    simpa [VS] using this
  have hp1 : PV b s1 := hp.grows htl.store
  refine ⟨⟨⟨?_, by rw [hview, hlv]; exact h.2, hg0, by rw [hview]; exact h.4⟩, hp1⟩, hb⟩
  rw [hview]
  rcases htl.seg with ⟨_, hc⟩ | ⟨a, seg, _, _, _, _, _, hcc⟩
  · rw [hc]; exact h.1
  · obtain ⟨p, hpl, hpv⟩ := hp1
    have hbv : b.view ≤ s.view := Nat.le_trans hb h.4
    unfold CommitChain at hcc
    split at hcc
    · obtain ⟨b1, b2, _, e1, _, _, _, _, _, e2, _, e3⟩ := hcc
      have : b1 = p := by
        have : some b1 = some p := by rw [← e1, ← hpl]; rfl
        cases this; rfl
      subst this
      omega
    · obtain ⟨p', gp, e1, _, _, e2, _⟩ := hcc
      have : p' = p := by
        have : some p' = some p := by rw [← e1, ← hpl]; rfl
        cases this; rfl
      subst this
      omega
    · obtain ⟨p', _, _, _, _, _, e1, _, e2⟩ := hcc
      omega

theorem onValidPropose_vbl (v : Nat) (id : Nat) (b : Block) :
    ⦃fun s => ⌜(VBL v s ∧ PV b s) ∧ b.view ≤ v⌝⦄ onValidPropose k c id b ⦃⇓ _ s => ⌜VBL v s⌝⦄ := by
  have h1 := tryCommit_vblp c v b
  have h2 := voteFor_vblp c v b id
  have h3 := aggregateVote_vbl k c v b
  mvcgen [onValidPropose, h1, h2, h3]
  all_goals clear h1 h2 h3
  all_goals vb_finish

/-- the leader's own proposal is for the current view -/
theorem createAndPropose_vbl0 (v : Nat) (si : SyncInfo) :
    ⦃fun s => ⌜VBL v s ∧ s.view = v⌝⦄ createAndPropose k c si ⦃⇓ _ s => ⌜VBL v s⌝⦄ := by
  have h1 := getBlock_vbl v
  have h2 := markProposed_vbl v
  have h3 := fun b agg => voterVerify_vbl k c v c.id b agg
  have h4 := fun b => voteFor_vblp c v b c.id
  have h5 := tryCommit_vblp c v
  have h6 := emit_vbl v
  have h7 := aggregateVote_vbl k c v
  mvcgen [createAndPropose, h1, h2, h3, h4, h5, h6, h7]
  all_goals clear h1 h2 h3 h4 h5 h6 h7
  all_goals vb_finish


/-- `createAndPropose` with any lower bound: the view it proposes for is the view it starts in -/
theorem createAndPropose_vbl (v : Nat) (si : SyncInfo) :
    ⦃fun s => ⌜VBL v s⌝⦄ createAndPropose k c si ⦃⇓ _ s => ⌜VBL v s⌝⦄ := by
  apply triple_of_run
  intro s h
  have := run_res_of_triple _ _ _ (createAndPropose_vbl0 k c s.view si) s ⟨h.mono (Nat.le_refl _), rfl⟩
  exact this.mono (Nat.le_trans h.4 this.4)

theorem advanceView_vbl (v : Nat) (si : SyncInfo) :
    ⦃fun s => ⌜VBL v s⌝⦄ advanceView k c si ⦃⇓ _ s => ⌜VBL v s⌝⦄ := by
  have h1 := verifySyncInfo_vbl k c v
  have h2 := getBlock_vbl v
  have h3 := addEvent_vbl v
  have h4 := createAndPropose_vbl k c v
  have h5 := emit_vbl v
  mvcgen [advanceView, h1, h2, h3, h4, h5]
  all_goals clear h1 h2 h3 h4 h5
  all_goals vb_finish

theorem onRemoteTimeout_vbl (v : Nat) (t : TimeoutMsg) :
    ⦃fun s => ⌜VBL v s⌝⦄ onRemoteTimeout k c t ⦃⇓ _ s => ⌜VBL v s⌝⦄ := by
  have h1 := advanceView_vbl k c v
  mvcgen [onRemoteTimeout, h1]
  all_goals clear h1
  all_goals vb_finish

theorem onLocalTimeout_vbl0 (v : Nat) :
    ⦃fun s => ⌜VBL v s ∧ s.view = v⌝⦄ onLocalTimeout k c ⦃⇓ _ s => ⌜VBL v s⌝⦄ := by
  have h1 := onRemoteTimeout_vbl k c v
  have h2 := signMsg_vbl c v
  have h3 := emit_vbl v
  mvcgen [onLocalTimeout, h1, h2, h3]
  all_goals clear h1 h2 h3
  all_goals vb_finish

theorem onLocalTimeout_vbl (v : Nat) :
    ⦃fun s => ⌜VBL v s⌝⦄ onLocalTimeout k c ⦃⇓ _ s => ⌜VBL v s⌝⦄ := by
  apply triple_of_run
  intro s h
  have := run_res_of_triple _ _ _ (onLocalTimeout_vbl0 k c s.view) s ⟨h.mono (Nat.le_refl _), rfl⟩
  exact this.mono (Nat.le_trans h.4 this.4)

/-- `onPropose`: a proposal for a later view is buffered, so what reaches the voter is not newer than the view -/
theorem onPropose_vbl (id : Nat) (b : Block) (agg : Option AggQC) :
    ⦃fun s => ⌜VBL 0 s⌝⦄ onPropose k c id b agg ⦃⇓ _ s => ⌜VBL 0 s⌝⦄ := by
  have h1 := advanceView_vbl k c 0
  have h2 := voterVerify_vbl k c b.view id b agg
  have h3 := onValidPropose_vbl k c b.view id b
  have h4 := emit_vbl b.view
  mvcgen [onPropose, h1, h2, h3, h4]
  all_goals clear h1 h2 h3 h4
  all_goals vb_finish

theorem tick_vbl :
    ⦃fun s => ⌜VBL 0 s⌝⦄ tick k c ⦃⇓ _ s => ⌜VBL 0 s⌝⦄ := by
  have h1 := onPropose_vbl k c
  have h2 := onRemoteTimeout_vbl k c 0
  have h3 := onLocalTimeout_vbl k c 0
  have h4 := advanceView_vbl k c 0
  have h5 := collectVote_vbl k c 0
  have h6 := emit_vbl 0
  mvcgen [tick, h1, h2, h3, h4, h5, h6]
  all_goals clear h1 h2 h3 h4 h5 h6
  all_goals vb_finish

theorem runLoop_vbl (fuel : Nat) :
    ⦃fun s => ⌜VBL 0 s⌝⦄ runLoop k c fuel ⦃⇓ _ s => ⌜VBL 0 s⌝⦄ := by
  induction fuel with
  | zero => mvcgen [runLoop]
  | succ n ih =>
    have h1 := tick_vbl k c
    mvcgen [runLoop, h1, ih]

end VBChain

/-- **the view bounds of one replica**: the committed block is older than the current view, the replica has
not voted (or timed out) beyond its view, genesis is stored -/
def VB (s : RState) : Prop := VBL 0 s

theorem vb_init : VB {} :=
  ⟨by decide, by decide, fun h b hx => hx, Nat.zero_le _⟩

theorem step_vb (k : Keys) (c : RCfg) (s : RState) (e : Ev) (h : VB s) : VB (step k c s e).1 := by
  unfold step
  have h0 : VBL 0 { s with out := [], queue := s.queue ++ [e] } := vbl_congr 0 s _ h rfl rfl rfl rfl
  exact vbl_congr 0 _ _ (run_res_of_triple _ _ _ (runLoop_vbl k c 100000) _ h0) rfl rfl rfl rfl

theorem start_vb (k : Keys) (c : RCfg) (s : RState) (h : VB s) : VB (start k c s).1 := by
  unfold start
  have h0 : VBL 0 { s with out := [] } := vbl_congr 0 s _ h rfl rfl rfl rfl
  have hsp : ⦃fun s' => ⌜VBL 0 s'⌝⦄ (do
      let s ← get
      if s.view == 1 && c.leader 1 == c.id then
        createAndPropose k c { qc := some s.highQC, tc := some s.highTC }
      runLoop k c 100000 : M Unit) ⦃⇓ _ s' => ⌜VBL 0 s'⌝⦄ := by
    have h1 := createAndPropose_vbl k c 0
    have h2 := runLoop_vbl k c
    mvcgen [h1, h2]
  exact vbl_congr 0 _ _ (run_res_of_triple _ _ _ hsp _ h0) rfl rfl rfl rfl

theorem runEvents_vb (k : Keys) (c : RCfg) (es : List Ev) (s : RState) (h : VB s) : VB (HsVerif.Props.C03.runEvents k c s es) := by
  induction es generalizing s with
  | nil => exact h
  | cons e es ih => exact ih _ (step_vb k c s e h)

/-! ## system level -/

/-- every replica of the system state satisfies `VB` -/
def SysVB (σ : SysState) : Prop := ∀ i s, σ.reps.lookup i = some s → VB s

theorem sysInit_vb (k : Keys) (C : SysCfg) : SysVB (sysInit k C) := by
  intro i s h
  simp only [sysInit, lookup_init] at h
  split at h
  · cases h; exact vb_init
  · cases h

theorem sys_set_vb (σ : SysState) (i : Nat) (s' : RState) (t' : List (Nat × Atom)) (nb : Nat)
    (h : SysVB σ) (hs : VB s') : SysVB { reps := setKV i s' σ.reps, truth := t', nextBytes := nb } := by
  intro j sj hj
  by_cases hji : j = i
  · subst hji
    simp only [lookup_setKV_self] at hj
    cases hj; exact hs
  · simp only [lookup_setKV_ne _ _ _ _ hji] at hj
    exact h j sj hj

theorem sys_run_vb (σ : SysState) (i : Nat) (f : RState → RState × List Out)
    (hf : ∀ s, VB s → VB (f s).1) (h : SysVB σ) : SysVB (σ.run i f) := by
  unfold SysState.run
  split
  · exact h
  · rename_i s hl
    exact sys_set_vb σ i _ _ _ h (hf _ (vbl_congr 0 s _ (h i s hl) rfl rfl rfl rfl))

theorem sysStep_vb (k : Keys) (C : SysCfg) (σ : SysState) (a : SysAct) (h : SysVB σ) : SysVB (sysStep k C σ a) := by
  cases a with
  | start i => exact sys_run_vb σ i _ (fun s => start_vb k _ s) h
  | deliver i e => exact sys_run_vb σ i _ (fun s => step_vb k _ s e) h
  | fetchable i l =>
    simp only [sysStep]
    split
    · exact h
    · rename_i s hl
      exact sys_set_vb σ i _ σ.truth σ.nextBytes h (vbl_congr 0 s _ (h i s hl) rfl rfl rfl rfl)
  | forge a =>
    simp only [sysStep]
    split
    · exact h
    · exact h

/-- **in every reachable state of the system (any rule set, any timeout rule, any scheme, any number of Byzantine
replicas), every replica satisfies the view bounds** -/
theorem reach_vb (k : Keys) (C : SysCfg) (σ : SysState) (h : Reach k C σ) : SysVB σ := by
  induction h with
  | init => exact sysInit_vb k C
  | step σ a _ ih => exact sysStep_vb k C σ a ih

end HsVerif.Model
