import HsVerif.Proofs.ReplicaLock
/-!
The certificate of every block voted for verifies in the replica's CURRENT state (C03, strengthened).

* `verifyQC` is monotone in the truth table and in the block store (`verifyQC_mono`).
* The truth table only gains entries, never changes a lookup (`TGrows`), because signing draws fresh
  byte names: every key of the table is below `nextBytes` (`Fresh`).  Frames `_tf` for every handler,
  GENERATED from the AP frames (Proofs/ReplicaViewFrames.lean) by substitution, as in ReplicaStore.
* `Cur`: freshness, and for every ghost record `.vote b id` the certificate `b.qc` verifies against
  the truth table and block store of this very state; preserved by every handler (`_cur`).
* `Stored`: every block voted for is in the block store under its hash, at handler boundaries (`_st`).
-/
open Std.Do
set_option mvcgen.warning false
set_option linter.unusedSimpArgs false
namespace HsVerif.Model

/-- every lookup of truth table `T` is preserved in `T'` -/
def TruthLe (T T' : Truth) : Prop := ∀ b a, T b = some a → T' b = some a
/-- every lookup of store `st` is preserved in `st'` -/
def StoreLe (st st' : Store) : Prop := ∀ h b, st.lookup h = some b → st'.lookup h = some b

theorem verifySingle_mono (T T' : Truth) (cfg : Cfg) (e : Entry) (m : Msg) (hT : TruthLe T T')
    (h : verifySingle T cfg e m = true) : verifySingle T' cfg e m = true := by
  simp only [verifySingle, Bool.and_eq_true, beq_iff_eq] at h ⊢
  exact ⟨h.1, hT _ _ h.2⟩

theorem verify_mono (T T' : Truth) (cfg : Cfg) (sg : Sig) (m : Msg) (hT : TruthLe T T')
    (h : verify T cfg sg m = true) : verify T' cfg sg m = true := by
  cases sg with
  | multi k es =>
    simp only [verify, Bool.and_eq_true, List.all_eq_true] at h ⊢
    exact ⟨h.1, fun e he => verifySingle_mono T T' cfg e m hT (h.2 e he)⟩
  | bls atoms junk bits => exact h

theorem verifyQC_mono (T T' : Truth) (cfg : Cfg) (st st' : Store) (tmo : Nat → Nat → QC → Msg) (q : QC)
    (hT : TruthLe T T') (hS : StoreLe st st')
    (h : verifyQC ⟨T, cfg, st, tmo⟩ q = true) : verifyQC ⟨T', cfg, st', tmo⟩ q = true := by
  unfold verifyQC at h ⊢
  by_cases hg : (q.hash == genesisHash) = true
  · rw [if_pos hg] at h ⊢; exact h
  · rw [if_neg hg] at h ⊢
    cases hsg : q.sig with
    | none => rw [hsg] at h; simp at h
    | some sg =>
      rw [hsg] at h
      simp only at h ⊢
      by_cases hl : sg.len < cfg.quorum
      · rw [if_pos hl] at h; simp at h
      · rw [if_neg hl] at h ⊢
        simp only [CertEnv.get] at h ⊢
        cases hb : st.lookup q.hash with
        | none => rw [hb] at h; simp at h
        | some b =>
          rw [hb] at h
          rw [hS _ _ hb]
          simp only at h ⊢
          by_cases hv : (q.view != b.view) = true
          · rw [if_pos hv] at h; simp at h
          · rw [if_neg hv] at h ⊢
            exact verify_mono T T' cfg sg _ hT h

def Fresh (s : RState) : Prop := ∀ p ∈ s.truth, p.1 < s.nextBytes
def TGrows (x : List (Nat × Atom)) (s : RState) : Prop :=
  ∀ b a, x.lookup b = some a → s.truth.lookup b = some a
def TF (x : List (Nat × Atom)) (s : RState) : Prop := Fresh s ∧ TGrows x s

theorem lookup_none_of_fresh (l : List (Nat × Atom)) (n : Nat) (h : ∀ p ∈ l, p.1 < n) : l.lookup n = none := by
  induction l with
  | nil => rfl
  | cons p rest ih =>
    obtain ⟨k, v⟩ := p
    have hk : k < n := h (k, v) (by simp)
    rw [List.lookup_cons]
    have : (n == k) = false := by simp; omega
    rw [this]
    exact ih (fun p hp => h p (by simp [hp]))

theorem tf_sign (x) (s : RState) (a : Atom) (h : TF x s) :
    TF x { s with truth := (s.nextBytes, a) :: s.truth, nextBytes := s.nextBytes + 1 } := by
  obtain ⟨hf, hg⟩ := h
  refine ⟨?_, ?_⟩
  · intro p hp
    simp only [List.mem_cons] at hp
    rcases hp with rfl | hp
    · simp
    · have := hf p hp; simp only at this ⊢; omega
  · intro b a' hx
    have h1 := hg b a' hx
    have h2 := lookup_none_of_fresh s.truth s.nextBytes hf
    show ((s.nextBytes, a) :: s.truth).lookup b = some a'
    rw [List.lookup_cons]
    split
    · rename_i heq
      have : b = s.nextBytes := by simpa using heq
      rw [this, h2] at h1; cases h1
    · exact h1

macro "tf_finish" : tactic => `(tactic| (
  (try simp_all +zetaDelta)
  all_goals (first
    | done
    | assumption
    | exact tf_sign _ _ _ (by assumption)
    | skip)))


section TFFrames
theorem emit_tf (o : Out) (x) :
    ⦃fun s => ⌜TF x s⌝⦄ emit o ⦃⇓ _ s => ⌜TF x s⌝⦄ := by
  mvcgen [emit] <;> tf_finish
attribute [local spec] emit_tf

theorem addEvent_tf (e : Ev) (x) :
    ⦃fun s => ⌜TF x s⌝⦄ addEvent e ⦃⇓ _ s => ⌜TF x s⌝⦄ := by
  mvcgen [addEvent] <;> tf_finish
attribute [local spec] addEvent_tf

theorem getBlock_tf (h : Hash) (x) :
    ⦃fun s => ⌜TF x s⌝⦄ getBlock h ⦃⇓ _ s => ⌜TF x s⌝⦄ := by
  mvcgen [getBlock] <;> tf_finish
attribute [local spec] getBlock_tf

theorem fetchFor_tf (h : Hash) (x) :
    ⦃fun s => ⌜TF x s⌝⦄ fetchFor h ⦃⇓ _ s => ⌜TF x s⌝⦄ := by
  mvcgen [fetchFor] <;> tf_finish
attribute [local spec] fetchFor_tf

theorem signMsg_tf (c : RCfg) (m : Msg) (x) :
    ⦃fun s => ⌜TF x s⌝⦄ signMsg c m ⦃⇓ _ s => ⌜TF x s⌝⦄ := by
  mvcgen [signMsg] <;> tf_finish
attribute [local spec] signMsg_tf

theorem verifyQCM_tf (k : Keys) (c : RCfg) (q : QC) (x) :
    ⦃fun s => ⌜TF x s⌝⦄ verifyQCM k c q ⦃⇓ _ s => ⌜TF x s⌝⦄ := by
  mvcgen [verifyQCM] <;> tf_finish
attribute [local spec] verifyQCM_tf

theorem verifyTCM_tf (k : Keys) (c : RCfg) (t : TC) (x) :
    ⦃fun s => ⌜TF x s⌝⦄ verifyTCM k c t ⦃⇓ _ s => ⌜TF x s⌝⦄ := by
  mvcgen [verifyTCM] <;> tf_finish
attribute [local spec] verifyTCM_tf

theorem qcRef_tf (q : QC) (x) :
    ⦃fun s => ⌜TF x s⌝⦄ qcRef q ⦃⇓ _ s => ⌜TF x s⌝⦄ := by
  mvcgen [qcRef] <;> tf_finish
attribute [local spec] qcRef_tf

theorem extendsM_tf (b t : Block) (x) :
    ⦃fun s => ⌜TF x s⌝⦄ extendsM b t ⦃⇓ _ s => ⌜TF x s⌝⦄ := by
  mvcgen [extendsM] <;> tf_finish
attribute [local spec] extendsM_tf

theorem voteRule_tf (c : RCfg) (v : Nat) (b : Block) (agg : Option AggQC) (x) :
    ⦃fun s => ⌜TF x s⌝⦄ voteRule c v b agg ⦃⇓ _ s => ⌜TF x s⌝⦄ := by
  mvcgen [voteRule] <;> tf_finish
attribute [local spec] voteRule_tf

theorem commitRule_tf (c : RCfg) (b : Block) (x) :
    ⦃fun s => ⌜TF x s⌝⦄ commitRule c b ⦃⇓ _ s => ⌜TF x s⌝⦄ := by
  mvcgen [commitRule] <;> tf_finish
attribute [local spec] commitRule_tf

theorem commitInner_tf (fuel : Nat) (b : Block) (x) :
    ⦃fun s => ⌜TF x s⌝⦄ commitInner fuel b ⦃⇓ _ s => ⌜TF x s⌝⦄ := by
  induction fuel generalizing b with
  | zero => mvcgen [commitInner] <;> tf_finish
  | succ n ih => mvcgen [commitInner, ih] <;> tf_finish
attribute [local spec] commitInner_tf

theorem tryCommit_tf (c : RCfg) (b : Block) (x) :
    ⦃fun s => ⌜TF x s⌝⦄ tryCommit c b ⦃⇓ _ s => ⌜TF x s⌝⦄ := by
  mvcgen [tryCommit]
  case inv1 => exact ⇓ _ s => ⌜TF x s⌝
  all_goals tf_finish
attribute [local spec] tryCommit_tf

theorem votesCleanup_tf  (x) :
    ⦃fun s => ⌜TF x s⌝⦄ votesCleanup ⦃⇓ _ s => ⌜TF x s⌝⦄ := by
  mvcgen [votesCleanup] <;> tf_finish
attribute [local spec] votesCleanup_tf

theorem collectVote_tf (k : Keys) (c : RCfg) (id : Nat) (sig : Option Sig) (h : Hash) (d : Bool) (x) :
    ⦃fun s => ⌜TF x s⌝⦄ collectVote k c id sig h d ⦃⇓ _ s => ⌜TF x s⌝⦄ := by
  mvcgen [collectVote] <;> tf_finish
attribute [local spec] collectVote_tf

theorem aggregateVote_tf (k : Keys) (c : RCfg) (b : Block) (sg : Sig) (x) :
    ⦃fun s => ⌜TF x s⌝⦄ aggregateVote k c b sg ⦃⇓ _ s => ⌜TF x s⌝⦄ := by
  mvcgen [aggregateVote] <;> tf_finish
attribute [local spec] aggregateVote_tf

theorem markProposed_tf (fuel : Nat) (b : Block) (x) :
    ⦃fun s => ⌜TF x s⌝⦄ markProposed fuel b ⦃⇓ _ s => ⌜TF x s⌝⦄ := by
  induction fuel generalizing b with
  | zero => mvcgen [markProposed] <;> tf_finish
  | succ n ih => mvcgen [markProposed, ih] <;> tf_finish
attribute [local spec] markProposed_tf

theorem verifyAggM_go_tf (k : Keys) (c : RCfg) (l : List QC) (x) :
    ⦃fun s => ⌜TF x s⌝⦄ verifyAggM.go k c l ⦃⇓ _ s => ⌜TF x s⌝⦄ := by
  induction l with
  | nil => mvcgen [verifyAggM.go] <;> tf_finish
  | cons q rest ih => mvcgen [verifyAggM.go, ih] <;> tf_finish
attribute [local spec] verifyAggM_go_tf

theorem verifyAggM_tf (k : Keys) (c : RCfg) (a : AggQC) (x) :
    ⦃fun s => ⌜TF x s⌝⦄ verifyAggM k c a ⦃⇓ _ s => ⌜TF x s⌝⦄ := by
  mvcgen [verifyAggM] <;> tf_finish
attribute [local spec] verifyAggM_tf

theorem verifyAnyM_tf (k : Keys) (c : RCfg) (q : QC) (agg : Option AggQC) (x) :
    ⦃fun s => ⌜TF x s⌝⦄ verifyAnyM k c q agg ⦃⇓ _ s => ⌜TF x s⌝⦄ := by
  mvcgen [verifyAnyM] <;> tf_finish
attribute [local spec] verifyAnyM_tf

theorem voterVerify_tf (k : Keys) (c : RCfg) (id : Nat) (b : Block) (agg : Option AggQC) (x) :
    ⦃fun s => ⌜TF x s⌝⦄ voterVerify k c id b agg ⦃⇓ _ s => ⌜TF x s⌝⦄ := by
  mvcgen [voterVerify] <;> tf_finish
attribute [local spec] voterVerify_tf

theorem voteFor_tf (c : RCfg) (b : Block) (id : Nat) (x) :
    ⦃fun s => ⌜TF x s⌝⦄ voteFor c b id ⦃⇓ _ s => ⌜TF x s⌝⦄ := by
  mvcgen [voteFor] <;> tf_finish
attribute [local spec] voteFor_tf

theorem onValidPropose_tf (k : Keys) (c : RCfg) (id : Nat) (b : Block) (x) :
    ⦃fun s => ⌜TF x s⌝⦄ onValidPropose k c id b ⦃⇓ _ s => ⌜TF x s⌝⦄ := by
  mvcgen [onValidPropose] <;> tf_finish
attribute [local spec] onValidPropose_tf

theorem createAndPropose_tf (k : Keys) (c : RCfg) (si : SyncInfo) (x) :
    ⦃fun s => ⌜TF x s⌝⦄ createAndPropose k c si ⦃⇓ _ s => ⌜TF x s⌝⦄ := by
  mvcgen [createAndPropose] <;> tf_finish
attribute [local spec] createAndPropose_tf

theorem verifySyncInfo_tf (k : Keys) (c : RCfg) (si : SyncInfo) (x) :
    ⦃fun s => ⌜TF x s⌝⦄ verifySyncInfo k c si ⦃⇓ _ s => ⌜TF x s⌝⦄ := by
  mvcgen [verifySyncInfo] <;> tf_finish
attribute [local spec] verifySyncInfo_tf


theorem advanceView_tf (k : Keys) (c : RCfg) (si : SyncInfo) (x) :
    ⦃fun s => ⌜TF x s⌝⦄ advanceView k c si ⦃⇓ _ s => ⌜TF x s⌝⦄ := by
  mvcgen [advanceView] <;> tf_finish

theorem onRemoteTimeout_tf (k : Keys) (c : RCfg) (t : TimeoutMsg) (x) :
    ⦃fun s => ⌜TF x s⌝⦄ onRemoteTimeout k c t ⦃⇓ _ s => ⌜TF x s⌝⦄ := by
  mvcgen [onRemoteTimeout, advanceView_tf] <;> tf_finish

theorem onLocalTimeout_tf (k : Keys) (c : RCfg) (x) :
    ⦃fun s => ⌜TF x s⌝⦄ onLocalTimeout k c ⦃⇓ _ s => ⌜TF x s⌝⦄ := by
  mvcgen [onLocalTimeout, onRemoteTimeout_tf] <;> tf_finish

theorem onPropose_tf (k : Keys) (c : RCfg) (id : Nat) (b : Block) (agg : Option AggQC) (x) :
    ⦃fun s => ⌜TF x s⌝⦄ onPropose k c id b agg ⦃⇓ _ s => ⌜TF x s⌝⦄ := by
  mvcgen [onPropose, advanceView_tf] <;> tf_finish

theorem tick_tf (k : Keys) (c : RCfg) (x) :
    ⦃fun s => ⌜TF x s⌝⦄ tick k c ⦃⇓ _ s => ⌜TF x s⌝⦄ := by
  mvcgen [tick, onPropose_tf, onRemoteTimeout_tf, onLocalTimeout_tf, advanceView_tf] <;> tf_finish

theorem runLoop_tf (k : Keys) (c : RCfg) (fuel : Nat) (x) :
    ⦃fun s => ⌜TF x s⌝⦄ runLoop k c fuel ⦃⇓ _ s => ⌜TF x s⌝⦄ := by
  induction fuel with
  | zero => mvcgen [runLoop] <;> tf_finish
  | succ n ih => mvcgen [runLoop, tick_tf, ih] <;> tf_finish

end TFFrames

/-! The store-growth frames of ReplicaStore.lean, continued up the handler chain. -/
section GrowsUpper
theorem advanceView_gr (k : Keys) (c : RCfg) (si : SyncInfo) (x) :
    ⦃fun s => ⌜Grows x s⌝⦄ advanceView k c si ⦃⇓ _ s => ⌜Grows x s⌝⦄ := by
  mvcgen [advanceView, verifySyncInfo_gr, getBlock_gr, addEvent_gr, createAndPropose_gr, emit_gr] <;> grows_finish

theorem onRemoteTimeout_gr (k : Keys) (c : RCfg) (t : TimeoutMsg) (x) :
    ⦃fun s => ⌜Grows x s⌝⦄ onRemoteTimeout k c t ⦃⇓ _ s => ⌜Grows x s⌝⦄ := by
  mvcgen [onRemoteTimeout, advanceView_gr] <;> grows_finish

theorem onLocalTimeout_gr (k : Keys) (c : RCfg) (x) :
    ⦃fun s => ⌜Grows x s⌝⦄ onLocalTimeout k c ⦃⇓ _ s => ⌜Grows x s⌝⦄ := by
  mvcgen [onLocalTimeout, onRemoteTimeout_gr, signMsg_gr, emit_gr] <;> grows_finish

theorem onPropose_gr (k : Keys) (c : RCfg) (id : Nat) (b : Block) (agg : Option AggQC) (x) :
    ⦃fun s => ⌜Grows x s⌝⦄ onPropose k c id b agg ⦃⇓ _ s => ⌜Grows x s⌝⦄ := by
  mvcgen [onPropose, advanceView_gr, voterVerify_gr, onValidPropose_gr, emit_gr] <;> grows_finish

theorem tick_gr (k : Keys) (c : RCfg) (x) :
    ⦃fun s => ⌜Grows x s⌝⦄ tick k c ⦃⇓ _ s => ⌜Grows x s⌝⦄ := by
  mvcgen [tick, onPropose_gr, onRemoteTimeout_gr, onLocalTimeout_gr, advanceView_gr, collectVote_gr, emit_gr] <;> grows_finish

theorem runLoop_gr (k : Keys) (c : RCfg) (fuel : Nat) (x) :
    ⦃fun s => ⌜Grows x s⌝⦄ runLoop k c fuel ⦃⇓ _ s => ⌜Grows x s⌝⦄ := by
  induction fuel with
  | zero => mvcgen [runLoop] <;> grows_finish
  | succ n ih => mvcgen [runLoop, tick_gr, ih] <;> grows_finish
end GrowsUpper
end HsVerif.Model

namespace HsVerif.Model
open HsVerif.Proofs

/-- how a later state `s'` relates to an earlier one `s`: still fresh, and every lookup of the block
store and of the truth table of `s` is preserved -/
structure Ext (s s' : RState) : Prop where
  fresh : Fresh s'
  store : Grows s.chain.blocks s'
  truth : TGrows s.truth s'

theorem Ext.refl (s : RState) (h : Fresh s) : Ext s s := ⟨h, fun _ _ h => h, fun _ _ h => h⟩

theorem Ext.trans {s1 s2 s3 : RState} (h12 : Ext s1 s2) (h23 : Ext s2 s3) : Ext s1 s3 :=
  ⟨h23.fresh, fun h b hx => h23.store h b (h12.store h b hx), fun n a hx => h23.truth n a (h12.truth n a hx)⟩

/-- run form of the two growth frames -/
theorem ext_of_frames {α} (f : M α)
    (hgr : ∀ x, ⦃fun s => ⌜Grows x s⌝⦄ f ⦃⇓ _ s => ⌜Grows x s⌝⦄)
    (htf : ∀ x, ⦃fun s => ⌜TF x s⌝⦄ f ⦃⇓ _ s => ⌜TF x s⌝⦄)
    (s : RState) (hf : Fresh s) : Ext s (f.run s).2 := by
  have g := run_res_of_triple f (fun s' => Grows s.chain.blocks s') (fun _ s' => Grows s.chain.blocks s')
    (hgr s.chain.blocks) s (fun _ _ h => h)
  have t := run_res_of_triple f (fun s' => TF s.truth s') (fun _ s' => TF s.truth s')
    (htf s.truth) s ⟨hf, fun _ _ h => h⟩
  exact ⟨t.1, g, t.2⟩

theorem verifyQC_ext (k : Keys) (c : RCfg) (s s' : RState) (q : QC) (h : Ext s s')
    (hv : verifyQC (env k c s) q = true) : verifyQC (env k c s') q = true :=
  verifyQC_mono (fun b => s.truth.lookup b) (fun b => s'.truth.lookup b) c.cfg s.chain.blocks s'.chain.blocks _ q
    (fun b a hb => h.truth b a hb) (fun x b hb => h.store x b hb) hv

/-- the certificate of every block voted for verifies in this very state -/
def VotesVerify (k : Keys) (c : RCfg) (s : RState) : Prop :=
  ∀ b id, GRec.vote b id ∈ s.ghost → verifyQC (env k c s) b.qc = true

/-- the strengthened invariant: freshness of the truth table, and every voted block's certificate
verifies against the CURRENT truth table and block store -/
def Cur (k : Keys) (c : RCfg) (s : RState) : Prop := Fresh s ∧ VotesVerify k c s

theorem cur_ext (k : Keys) (c : RCfg) (s s' : RState) (h : Ext s s') (hg : s'.ghost = s.ghost)
    (hc : Cur k c s) : Cur k c s' :=
  ⟨h.fresh, fun b id hm => verifyQC_ext k c s s' b.qc h (hc.2 b id (hg ▸ hm))⟩

theorem ghost_of_vs {α} (f : M α) (hvs : ∀ x, ⦃fun s => ⌜VS s = x⌝⦄ f ⦃⇓ _ s => ⌜VS s = x⌝⦄) (s : RState) :
    (f.run s).2.ghost = s.ghost := by
  have := run_res_of_triple f (fun s' => VS s' = VS s) (fun _ s' => VS s' = VS s) (hvs (VS s)) s rfl
  have := congrArg (fun x => x.1) this
  simpa [VS] using this

/-- anything that leaves the ghost history alone and lets store and truth table grow preserves
the invariant, together with the fact that some further certificate verifies now -/
theorem curq_frame {α} (k : Keys) (c : RCfg) (f : M α) (q : QC)
    (hvs : ∀ x, ⦃fun s => ⌜VS s = x⌝⦄ f ⦃⇓ _ s => ⌜VS s = x⌝⦄)
    (hgr : ∀ x, ⦃fun s => ⌜Grows x s⌝⦄ f ⦃⇓ _ s => ⌜Grows x s⌝⦄)
    (htf : ∀ x, ⦃fun s => ⌜TF x s⌝⦄ f ⦃⇓ _ s => ⌜TF x s⌝⦄) :
    ⦃fun s => ⌜Cur k c s ∧ verifyQC (env k c s) q = true⌝⦄ f ⦃⇓ _ s => ⌜Cur k c s ∧ verifyQC (env k c s) q = true⌝⦄ := by
  apply triple_of_run
  intro s ⟨hc, hq⟩
  have he := ext_of_frames f hgr htf s hc.1
  exact ⟨cur_ext k c s _ he (ghost_of_vs f hvs s) hc, verifyQC_ext k c s _ q he hq⟩

theorem cur_frame {α} (k : Keys) (c : RCfg) (f : M α)
    (hvs : ∀ x, ⦃fun s => ⌜VS s = x⌝⦄ f ⦃⇓ _ s => ⌜VS s = x⌝⦄)
    (hgr : ∀ x, ⦃fun s => ⌜Grows x s⌝⦄ f ⦃⇓ _ s => ⌜Grows x s⌝⦄)
    (htf : ∀ x, ⦃fun s => ⌜TF x s⌝⦄ f ⦃⇓ _ s => ⌜TF x s⌝⦄) :
    ⦃fun s => ⌜Cur k c s⌝⦄ f ⦃⇓ _ s => ⌜Cur k c s⌝⦄ := by
  apply triple_of_run
  intro s hc
  exact cur_ext k c s _ (ext_of_frames f hgr htf s hc.1) (ghost_of_vs f hvs s) hc

/-- appending a record that is not a vote -/
theorem votesVerify_append (k : Keys) (c : RCfg) (s s' : RState) (r : GRec) (hr : ∀ b id, r ≠ .vote b id)
    (hg : s'.ghost = s.ghost ++ [r]) (he : env k c s' = env k c s) (h : VotesVerify k c s) : VotesVerify k c s' := by
  intro b id hm
  rw [hg] at hm
  simp only [List.mem_append, List.mem_singleton] at hm
  rw [he]
  rcases hm with hm | hm
  · exact h b id hm
  · exact absurd hm.symm (hr b id)

end HsVerif.Model

namespace HsVerif.Model
open HsVerif.Proofs

theorem cur_vote (k : Keys) (c : RCfg) (s s' : RState) (b : Block) (id : Nat)
    (hg : s'.ghost = s.ghost ++ [.vote b id]) (he : env k c s' = env k c s) (hf : Fresh s → Fresh s')
    (h : Cur k c s ∧ verifyQC (env k c s) b.qc = true) : Cur k c s' := by
  refine ⟨hf h.1.1, ?_⟩
  intro b' id' hm
  rw [hg] at hm
  simp only [List.mem_append, List.mem_singleton] at hm
  rw [he]
  rcases hm with hm | hm
  · exact h.1.2 b' id' hm
  · cases hm; exact h.2

theorem cur_append (k : Keys) (c : RCfg) (s s' : RState) (r : GRec) (hr : ∀ b id, r ≠ .vote b id)
    (hg : s'.ghost = s.ghost ++ [r]) (he : env k c s' = env k c s) (hf : Fresh s → Fresh s')
    (h : Cur k c s) : Cur k c s' :=
  ⟨hf h.1, votesVerify_append k c s s' r hr hg he h.2⟩

section CurChain
variable (k : Keys) (c : RCfg)

theorem emit_cur (o : Out) : ⦃fun s => ⌜Cur k c s⌝⦄ emit o ⦃⇓ _ s => ⌜Cur k c s⌝⦄ :=
  cur_frame k c _ (emit_frame o) (emit_gr o) (emit_tf o)
theorem addEvent_cur (e : Ev) : ⦃fun s => ⌜Cur k c s⌝⦄ addEvent e ⦃⇓ _ s => ⌜Cur k c s⌝⦄ :=
  cur_frame k c _ (addEvent_frame e) (addEvent_gr e) (addEvent_tf e)
theorem getBlock_cur (h : Hash) : ⦃fun s => ⌜Cur k c s⌝⦄ getBlock h ⦃⇓ _ s => ⌜Cur k c s⌝⦄ :=
  cur_frame k c _ (getBlock_frame h) (getBlock_gr h) (getBlock_tf h)
theorem signMsg_cur (m : Msg) : ⦃fun s => ⌜Cur k c s⌝⦄ signMsg c m ⦃⇓ _ s => ⌜Cur k c s⌝⦄ :=
  cur_frame k c _ (signMsg_frame c m) (signMsg_gr c m) (signMsg_tf c m)
theorem signMsg_curq (m : Msg) (q : QC) :
    ⦃fun s => ⌜Cur k c s ∧ verifyQC (env k c s) q = true⌝⦄ signMsg c m ⦃⇓ _ s => ⌜Cur k c s ∧ verifyQC (env k c s) q = true⌝⦄ :=
  curq_frame k c _ q (signMsg_frame c m) (signMsg_gr c m) (signMsg_tf c m)
theorem verifySyncInfo_cur (si : SyncInfo) : ⦃fun s => ⌜Cur k c s⌝⦄ verifySyncInfo k c si ⦃⇓ _ s => ⌜Cur k c s⌝⦄ :=
  cur_frame k c _ (verifySyncInfo_frame k c si) (verifySyncInfo_gr k c si) (verifySyncInfo_tf k c si)
theorem tryCommit_cur (b : Block) : ⦃fun s => ⌜Cur k c s⌝⦄ tryCommit c b ⦃⇓ _ s => ⌜Cur k c s⌝⦄ :=
  cur_frame k c _ (tryCommit_frame c b) (tryCommit_gr c b) (tryCommit_tf c b)
theorem tryCommit_curq (b : Block) (q : QC) :
    ⦃fun s => ⌜Cur k c s ∧ verifyQC (env k c s) q = true⌝⦄ tryCommit c b ⦃⇓ _ s => ⌜Cur k c s ∧ verifyQC (env k c s) q = true⌝⦄ :=
  curq_frame k c _ q (tryCommit_frame c b) (tryCommit_gr c b) (tryCommit_tf c b)
theorem collectVote_cur (id : Nat) (sig : Option Sig) (h : Hash) (d : Bool) :
    ⦃fun s => ⌜Cur k c s⌝⦄ collectVote k c id sig h d ⦃⇓ _ s => ⌜Cur k c s⌝⦄ :=
  cur_frame k c _ (collectVote_frame k c id sig h d) (collectVote_gr k c id sig h d) (collectVote_tf k c id sig h d)
theorem aggregateVote_cur (b : Block) (sg : Sig) :
    ⦃fun s => ⌜Cur k c s⌝⦄ aggregateVote k c b sg ⦃⇓ _ s => ⌜Cur k c s⌝⦄ :=
  cur_frame k c _ (aggregateVote_frame k c b sg) (aggregateVote_gr k c b sg) (aggregateVote_tf k c b sg)
theorem markProposed_cur (fuel : Nat) (b : Block) :
    ⦃fun s => ⌜Cur k c s⌝⦄ markProposed fuel b ⦃⇓ _ s => ⌜Cur k c s⌝⦄ :=
  cur_frame k c _ (markProposed_frame fuel b) (markProposed_gr fuel b) (markProposed_tf fuel b)
theorem voteRule_cur (v : Nat) (b : Block) (agg : Option AggQC) :
    ⦃fun s => ⌜Cur k c s⌝⦄ voteRule c v b agg ⦃⇓ _ s => ⌜Cur k c s⌝⦄ :=
  cur_frame k c _ (voteRule_frame c v b agg) (voteRule_gr c v b agg) (voteRule_tf c v b agg)
theorem verifyAggM_cur (a : AggQC) : ⦃fun s => ⌜Cur k c s⌝⦄ verifyAggM k c a ⦃⇓ _ s => ⌜Cur k c s⌝⦄ :=
  cur_frame k c _ (verifyAggM_frame k c a) (verifyAggM_gr k c a) (verifyAggM_tf k c a)

/-- what `verifyQCM` answers is `verifyQC` in the state it leaves behind -/
theorem verifyQCM_res (q : QC) :
    ⦃fun _ => ⌜True⌝⦄ verifyQCM k c q ⦃⇓ r s => ⌜r = true → verifyQC (env k c s) q = true⌝⦄ := by
  mvcgen [verifyQCM, fetchFor, getBlock]
  all_goals simp_all

theorem verifyQCM_cur (q : QC) :
    ⦃fun s => ⌜Cur k c s⌝⦄ verifyQCM k c q ⦃⇓ r s => ⌜Cur k c s ∧ (r = true → verifyQC (env k c s) q = true)⌝⦄ := by
  apply triple_of_run
  intro s hc
  exact ⟨run_res_of_triple _ _ _ (cur_frame k c _ (verifyQCM_frame k c q) (verifyQCM_gr k c q) (verifyQCM_tf k c q)) s hc,
    run_res_of_triple _ (fun _ => True) _ (verifyQCM_res k c q) s trivial⟩

theorem verifyAnyM_cur (q : QC) (agg : Option AggQC) :
    ⦃fun s => ⌜Cur k c s⌝⦄ verifyAnyM k c q agg
    ⦃⇓ r s => ⌜Cur k c s ∧ (r = .ok () → verifyQC (env k c s) q = true)⌝⦄ := by
  mvcgen [verifyAnyM, verifyQCM_cur, verifyAggM_cur]
  all_goals simp_all

theorem voterVerify_cur (id : Nat) (b : Block) (agg : Option AggQC) :
    ⦃fun s => ⌜Cur k c s⌝⦄ voterVerify k c id b agg
    ⦃⇓ r s => ⌜Cur k c s ∧ (r = .ok () → verifyQC (env k c s) b.qc = true)⌝⦄ := by
  mvcgen [voterVerify, voteRule_cur, verifyAnyM_cur]
  all_goals simp_all

theorem voteFor_cur (b : Block) (id : Nat) :
    ⦃fun s => ⌜Cur k c s ∧ verifyQC (env k c s) b.qc = true⌝⦄ voteFor c b id ⦃⇓ _ s => ⌜Cur k c s⌝⦄ := by
  mvcgen [voteFor, signMsg_curq]
  all_goals (try intros)
  all_goals (first
    | exact cur_vote k c _ _ b id rfl rfl (fun h => h) (by assumption)
    | skip)

end CurChain
end HsVerif.Model

namespace HsVerif.Model
open HsVerif.Proofs

/-- closes the verification conditions of the `Cur` chain: the state differs from one satisfying
`Cur` only in fields `Cur` does not read, or by a non-vote ghost record -/
macro "cur_finish" : tactic => `(tactic| (
  (try intros)
  (try simp only [and_true, true_and, and_self, implies_true] at *)
  (first
    | done
    | assumption
    | (exact cur_append _ _ _ _ _ (by intro _ _ h; cases h) rfl rfl (fun h => h) (by assumption))
    | (simp_all; done)
    | skip)))

section CurHandlers
variable (k : Keys) (c : RCfg)

theorem onValidPropose_cur (id : Nat) (b : Block) :
    ⦃fun s => ⌜Cur k c s ∧ verifyQC (env k c s) b.qc = true⌝⦄ onValidPropose k c id b ⦃⇓ _ s => ⌜Cur k c s⌝⦄ := by
  mvcgen [onValidPropose, tryCommit_curq, voteFor_cur, aggregateVote_cur]

theorem createAndPropose_cur (si : SyncInfo) :
    ⦃fun s => ⌜Cur k c s⌝⦄ createAndPropose k c si ⦃⇓ _ s => ⌜Cur k c s⌝⦄ := by
  mvcgen [createAndPropose, getBlock_cur, markProposed_cur, voterVerify_cur, voteFor_cur, tryCommit_cur, emit_cur,
    aggregateVote_cur]
  all_goals cur_finish

theorem advanceView_cur (si : SyncInfo) :
    ⦃fun s => ⌜Cur k c s⌝⦄ advanceView k c si ⦃⇓ _ s => ⌜Cur k c s⌝⦄ := by
  mvcgen [advanceView, verifySyncInfo_cur, getBlock_cur, addEvent_cur, createAndPropose_cur, emit_cur]
  all_goals cur_finish

theorem onRemoteTimeout_cur (t : TimeoutMsg) :
    ⦃fun s => ⌜Cur k c s⌝⦄ onRemoteTimeout k c t ⦃⇓ _ s => ⌜Cur k c s⌝⦄ := by
  mvcgen [onRemoteTimeout, advanceView_cur]
  all_goals cur_finish

theorem onLocalTimeout_cur :
    ⦃fun s => ⌜Cur k c s⌝⦄ onLocalTimeout k c ⦃⇓ _ s => ⌜Cur k c s⌝⦄ := by
  mvcgen [onLocalTimeout, onRemoteTimeout_cur, signMsg_cur, emit_cur]
  all_goals cur_finish

theorem onPropose_cur (id : Nat) (b : Block) (agg : Option AggQC) :
    ⦃fun s => ⌜Cur k c s⌝⦄ onPropose k c id b agg ⦃⇓ _ s => ⌜Cur k c s⌝⦄ := by
  mvcgen [onPropose, advanceView_cur, voterVerify_cur, onValidPropose_cur, emit_cur]
  all_goals cur_finish

theorem tick_cur :
    ⦃fun s => ⌜Cur k c s⌝⦄ tick k c ⦃⇓ _ s => ⌜Cur k c s⌝⦄ := by
  mvcgen [tick, onPropose_cur, onRemoteTimeout_cur, onLocalTimeout_cur, advanceView_cur, collectVote_cur, emit_cur]
  all_goals cur_finish

theorem runLoop_cur (fuel : Nat) :
    ⦃fun s => ⌜Cur k c s⌝⦄ runLoop k c fuel ⦃⇓ _ s => ⌜Cur k c s⌝⦄ := by
  induction fuel with
  | zero => mvcgen [runLoop]
  | succ n ih => mvcgen [runLoop, tick_cur, ih]

end CurHandlers
end HsVerif.Model

namespace HsVerif.Model
open HsVerif.Proofs

/-- delivering an event only extends the block store and the truth table -/
theorem step_ext (k : Keys) (c : RCfg) (s : RState) (e : Ev) (hf : Fresh s) : Ext s (step k c s e).1 := by
  unfold step
  have := ext_of_frames (runLoop k c 100000) (runLoop_gr k c 100000) (runLoop_tf k c 100000)
    { s with out := [], queue := s.queue ++ [e] } hf
  exact ⟨this.fresh, this.store, this.truth⟩

theorem start_ext (k : Keys) (c : RCfg) (s : RState) (hf : Fresh s) : Ext s (start k c s).1 := by
  unfold start
  have hgr : ∀ x, ⦃fun s' => ⌜Grows x s'⌝⦄ (do
      let s ← get
      if s.view == 1 && c.leader 1 == c.id then
        createAndPropose k c { qc := some s.highQC, tc := some s.highTC }
      runLoop k c 100000 : M Unit) ⦃⇓ _ s' => ⌜Grows x s'⌝⦄ := by
    intro x; mvcgen [createAndPropose_gr, runLoop_gr]
  have htf : ∀ x, ⦃fun s' => ⌜TF x s'⌝⦄ (do
      let s ← get
      if s.view == 1 && c.leader 1 == c.id then
        createAndPropose k c { qc := some s.highQC, tc := some s.highTC }
      runLoop k c 100000 : M Unit) ⦃⇓ _ s' => ⌜TF x s'⌝⦄ := by
    intro x; mvcgen [createAndPropose_tf, runLoop_tf]
  have := ext_of_frames _ hgr htf { s with out := [] } hf
  exact ⟨this.fresh, this.store, this.truth⟩

end HsVerif.Model

/-! Every block voted for is in the block store once the handler that voted for it has finished
(`onValidPropose` stores before voting, `createAndPropose` votes and then stores). -/
namespace HsVerif.Model
open HsVerif.Proofs

/-- some block is stored under hash `h` -/
def Has (h : Hash) (s : RState) : Prop := (s.chain.blocks.lookup h).isSome = true

/-- every block voted for is in the block store (under its hash) -/
def Stored (s : RState) : Prop := ∀ b id, GRec.vote b id ∈ s.ghost → Has b.hash s

/-- ... except possibly blocks of hash `h` (between `voteFor` and `tryCommit` in `createAndPropose`) -/
def StoredBut (h : Hash) (s : RState) : Prop := ∀ b id, GRec.vote b id ∈ s.ghost → b.hash = h ∨ Has b.hash s

theorem has_of_grows (h : Hash) (s s' : RState) (hg : Grows s.chain.blocks s') (hh : Has h s) : Has h s' := by
  unfold Has at *
  cases hb : s.chain.blocks.lookup h with
  | none => rw [hb] at hh; cases hh
  | some b => rw [hg h b hb]; rfl

theorem grows_run {α} (f : M α) (hgr : ∀ x, ⦃fun s => ⌜Grows x s⌝⦄ f ⦃⇓ _ s => ⌜Grows x s⌝⦄) (s : RState) :
    Grows s.chain.blocks (f.run s).2 :=
  run_res_of_triple f (fun s' => Grows s.chain.blocks s') (fun _ s' => Grows s.chain.blocks s')
    (hgr s.chain.blocks) s (fun _ _ h => h)

theorem has_frame {α} (f : M α) (hgr : ∀ x, ⦃fun s => ⌜Grows x s⌝⦄ f ⦃⇓ _ s => ⌜Grows x s⌝⦄) (h : Hash) :
    ⦃fun s => ⌜Has h s⌝⦄ f ⦃⇓ _ s => ⌜Has h s⌝⦄ := by
  apply triple_of_run
  intro s hh
  exact has_of_grows h s _ (grows_run f hgr s) hh

theorem has_store (c : RChain) (b : Block) : ((c.store b).blocks.lookup b.hash).isSome = true := by
  unfold RChain.store
  split
  · rename_i x hx; rw [hx]; rfl
  · simp [List.lookup_cons]

theorem pruneToHeight_blocks (c : RChain) (cm : Block) (h : Nat) : (c.pruneToHeight cm h).1.blocks = c.blocks := by
  unfold RChain.pruneToHeight
  simp only
  rw [pruneAux_blocks]

/-- `tryCommit` begins by storing the block -/
theorem tryCommit_has (c : RCfg) (b : Block) :
    ⦃fun _ => ⌜True⌝⦄ tryCommit c b ⦃⇓ _ s => ⌜Has b.hash s⌝⦄ := by
  have h1 : ∀ b', ⦃fun s => ⌜Has b.hash s⌝⦄ commitRule c b' ⦃⇓ _ s => ⌜Has b.hash s⌝⦄ :=
    fun b' => has_frame _ (commitRule_gr c b') b.hash
  have h2 : ∀ n b', ⦃fun s => ⌜Has b.hash s⌝⦄ commitInner n b' ⦃⇓ _ s => ⌜Has b.hash s⌝⦄ :=
    fun n b' => has_frame _ (commitInner_gr n b') b.hash
  have h3 : ∀ e, ⦃fun s => ⌜Has b.hash s⌝⦄ addEvent e ⦃⇓ _ s => ⌜Has b.hash s⌝⦄ :=
    fun e => has_frame _ (addEvent_gr e) b.hash
  mvcgen [tryCommit, h1, h2, h3]
  case inv1 => exact ⇓ _ s => ⌜Has b.hash s⌝
  all_goals (try intros)
  all_goals (first
    | assumption
    | exact has_store _ _
    | (show ((RChain.pruneToHeight _ _ _).1.blocks.lookup _).isSome = true
       rw [pruneToHeight_blocks]; assumption)
    | skip)

theorem voterVerify_vs (k : Keys) (c : RCfg) (id : Nat) (b : Block) (agg : Option AggQC) (x) :
    ⦃fun s => ⌜VS s = x⌝⦄ voterVerify k c id b agg ⦃⇓ _ s => ⌜VS s = x⌝⦄ := by
  apply triple_of_run
  intro s hs
  have := run_res_of_triple _ _ _ (voterVerify_spec k c id b agg x.1 x.2) s hs
  exact this.1

/-- anything that leaves the ghost history alone and lets the store grow keeps the voted blocks stored -/
theorem stored_frame {α} (f : M α)
    (hvs : ∀ x, ⦃fun s => ⌜VS s = x⌝⦄ f ⦃⇓ _ s => ⌜VS s = x⌝⦄)
    (hgr : ∀ x, ⦃fun s => ⌜Grows x s⌝⦄ f ⦃⇓ _ s => ⌜Grows x s⌝⦄) :
    ⦃fun s => ⌜Stored s⌝⦄ f ⦃⇓ _ s => ⌜Stored s⌝⦄ := by
  apply triple_of_run
  intro s hs b id hm
  rw [ghost_of_vs f hvs s] at hm
  exact has_of_grows _ s _ (grows_run f hgr s) (hs b id hm)

theorem stored_append (s s' : RState) (r : GRec) (hr : ∀ b id, r ≠ .vote b id)
    (hg : s'.ghost = s.ghost ++ [r]) (hc : s'.chain = s.chain) (h : Stored s) : Stored s' := by
  intro b id hm
  rw [hg] at hm
  simp only [List.mem_append, List.mem_singleton] at hm
  unfold Has; rw [hc]
  rcases hm with hm | hm
  · exact h b id hm
  · exact absurd hm.symm (hr b id)

theorem stored_vote (s s' : RState) (b : Block) (id : Nat)
    (hg : s'.ghost = s.ghost ++ [.vote b id]) (hc : s'.chain = s.chain) (h : Stored s ∧ Has b.hash s) : Stored s' := by
  intro b' id' hm
  rw [hg] at hm
  simp only [List.mem_append, List.mem_singleton] at hm
  unfold Has; rw [hc]
  rcases hm with hm | hm
  · exact h.1 b' id' hm
  · cases hm; exact h.2

theorem storedBut_vote (s s' : RState) (b : Block) (id : Nat)
    (hg : s'.ghost = s.ghost ++ [.vote b id]) (hc : s'.chain = s.chain) (h : Stored s) : StoredBut b.hash s' := by
  intro b' id' hm
  rw [hg] at hm
  simp only [List.mem_append, List.mem_singleton] at hm
  unfold Has; rw [hc]
  rcases hm with hm | hm
  · exact Or.inr (h b' id' hm)
  · cases hm; exact Or.inl rfl

section StoredChain
variable (k : Keys) (c : RCfg)

theorem emit_st (o : Out) : ⦃fun s => ⌜Stored s⌝⦄ emit o ⦃⇓ _ s => ⌜Stored s⌝⦄ :=
  stored_frame _ (emit_frame o) (emit_gr o)
theorem addEvent_st (e : Ev) : ⦃fun s => ⌜Stored s⌝⦄ addEvent e ⦃⇓ _ s => ⌜Stored s⌝⦄ :=
  stored_frame _ (addEvent_frame e) (addEvent_gr e)
theorem getBlock_st (h : Hash) : ⦃fun s => ⌜Stored s⌝⦄ getBlock h ⦃⇓ _ s => ⌜Stored s⌝⦄ :=
  stored_frame _ (getBlock_frame h) (getBlock_gr h)
theorem signMsg_st (m : Msg) : ⦃fun s => ⌜Stored s⌝⦄ signMsg c m ⦃⇓ _ s => ⌜Stored s⌝⦄ :=
  stored_frame _ (signMsg_frame c m) (signMsg_gr c m)
theorem verifySyncInfo_st (si : SyncInfo) : ⦃fun s => ⌜Stored s⌝⦄ verifySyncInfo k c si ⦃⇓ _ s => ⌜Stored s⌝⦄ :=
  stored_frame _ (verifySyncInfo_frame k c si) (verifySyncInfo_gr k c si)
theorem collectVote_st (id : Nat) (sig : Option Sig) (h : Hash) (d : Bool) :
    ⦃fun s => ⌜Stored s⌝⦄ collectVote k c id sig h d ⦃⇓ _ s => ⌜Stored s⌝⦄ :=
  stored_frame _ (collectVote_frame k c id sig h d) (collectVote_gr k c id sig h d)
theorem aggregateVote_st (b : Block) (sg : Sig) :
    ⦃fun s => ⌜Stored s⌝⦄ aggregateVote k c b sg ⦃⇓ _ s => ⌜Stored s⌝⦄ :=
  stored_frame _ (aggregateVote_frame k c b sg) (aggregateVote_gr k c b sg)
theorem markProposed_st (fuel : Nat) (b : Block) :
    ⦃fun s => ⌜Stored s⌝⦄ markProposed fuel b ⦃⇓ _ s => ⌜Stored s⌝⦄ :=
  stored_frame _ (markProposed_frame fuel b) (markProposed_gr fuel b)
theorem voterVerify_st (id : Nat) (b : Block) (agg : Option AggQC) :
    ⦃fun s => ⌜Stored s⌝⦄ voterVerify k c id b agg ⦃⇓ _ s => ⌜Stored s⌝⦄ :=
  stored_frame _ (voterVerify_vs k c id b agg) (voterVerify_gr k c id b agg)

/-- `tryCommit c b` stores `b`: it repairs the exception for `b.hash` -/
theorem tryCommit_st (b : Block) :
    ⦃fun s => ⌜StoredBut b.hash s⌝⦄ tryCommit c b ⦃⇓ _ s => ⌜Stored s ∧ Has b.hash s⌝⦄ := by
  apply triple_of_run
  intro s hs
  have hh := run_res_of_triple _ (fun _ => True) _ (tryCommit_has c b) s trivial
  refine ⟨?_, hh⟩
  intro b' id hm
  rw [ghost_of_vs _ (tryCommit_frame c b) s] at hm
  rcases hs b' id hm with h | h
  · rw [h]; exact hh
  · exact has_of_grows _ s _ (grows_run _ (tryCommit_gr c b) s) h

theorem tryCommit_st' (b : Block) :
    ⦃fun s => ⌜Stored s⌝⦄ tryCommit c b ⦃⇓ _ s => ⌜Stored s ∧ Has b.hash s⌝⦄ := by
  apply triple_of_run
  intro s hs
  exact run_res_of_triple _ _ _ (tryCommit_st c b) s (fun b' id hm => Or.inr (hs b' id hm))

theorem signMsg_sth (m : Msg) (h : Hash) :
    ⦃fun s => ⌜Stored s ∧ Has h s⌝⦄ signMsg c m ⦃⇓ _ s => ⌜Stored s ∧ Has h s⌝⦄ :=
  triple_and _ _ _ _ _ (signMsg_st c m) (has_frame _ (signMsg_gr c m) h)

theorem voteFor_st (b : Block) (id : Nat) :
    ⦃fun s => ⌜Stored s ∧ Has b.hash s⌝⦄ voteFor c b id ⦃⇓ _ s => ⌜Stored s⌝⦄ := by
  mvcgen [voteFor, signMsg_sth]
  all_goals (try intros)
  all_goals (first
    | exact stored_vote _ _ b id rfl rfl (by assumption)
    | skip)

theorem voteFor_stb (b : Block) (id : Nat) :
    ⦃fun s => ⌜Stored s⌝⦄ voteFor c b id ⦃⇓ _ s => ⌜StoredBut b.hash s⌝⦄ := by
  mvcgen [voteFor, signMsg_st]
  all_goals (try intros)
  all_goals (first
    | exact storedBut_vote _ _ b id rfl rfl (by assumption)
    | skip)

macro "st_finish" : tactic => `(tactic| (
  (try intros)
  (try simp only [and_true, true_and, and_self, implies_true] at *)
  (first
    | done
    | assumption
    | (exact stored_append _ _ _ (by intro _ _ h; cases h) rfl rfl (by assumption))
    | (simp_all; done)
    | skip)))

theorem onValidPropose_st (id : Nat) (b : Block) :
    ⦃fun s => ⌜Stored s⌝⦄ onValidPropose k c id b ⦃⇓ _ s => ⌜Stored s⌝⦄ := by
  mvcgen [onValidPropose, tryCommit_st', voteFor_st, aggregateVote_st]

theorem createAndPropose_st (si : SyncInfo) :
    ⦃fun s => ⌜Stored s⌝⦄ createAndPropose k c si ⦃⇓ _ s => ⌜Stored s⌝⦄ := by
  mvcgen [createAndPropose, getBlock_st, markProposed_st, voterVerify_st, voteFor_stb, tryCommit_st, emit_st,
    aggregateVote_st]
  all_goals st_finish

theorem advanceView_st (si : SyncInfo) :
    ⦃fun s => ⌜Stored s⌝⦄ advanceView k c si ⦃⇓ _ s => ⌜Stored s⌝⦄ := by
  mvcgen [advanceView, verifySyncInfo_st, getBlock_st, addEvent_st, createAndPropose_st, emit_st]
  all_goals st_finish

theorem onRemoteTimeout_st (t : TimeoutMsg) :
    ⦃fun s => ⌜Stored s⌝⦄ onRemoteTimeout k c t ⦃⇓ _ s => ⌜Stored s⌝⦄ := by
  mvcgen [onRemoteTimeout, advanceView_st]
  all_goals st_finish

theorem onLocalTimeout_st :
    ⦃fun s => ⌜Stored s⌝⦄ onLocalTimeout k c ⦃⇓ _ s => ⌜Stored s⌝⦄ := by
  mvcgen [onLocalTimeout, onRemoteTimeout_st, signMsg_st, emit_st]
  all_goals st_finish

theorem onPropose_st (id : Nat) (b : Block) (agg : Option AggQC) :
    ⦃fun s => ⌜Stored s⌝⦄ onPropose k c id b agg ⦃⇓ _ s => ⌜Stored s⌝⦄ := by
  mvcgen [onPropose, advanceView_st, voterVerify_st, onValidPropose_st, emit_st]
  all_goals st_finish

theorem tick_st :
    ⦃fun s => ⌜Stored s⌝⦄ tick k c ⦃⇓ _ s => ⌜Stored s⌝⦄ := by
  mvcgen [tick, onPropose_st, onRemoteTimeout_st, onLocalTimeout_st, advanceView_st, collectVote_st, emit_st]
  all_goals st_finish

theorem runLoop_st (fuel : Nat) :
    ⦃fun s => ⌜Stored s⌝⦄ runLoop k c fuel ⦃⇓ _ s => ⌜Stored s⌝⦄ := by
  induction fuel with
  | zero => mvcgen [runLoop]
  | succ n ih => mvcgen [runLoop, tick_st, ih]

end StoredChain
end HsVerif.Model
