import HsVerif.Model.Queue
/-! Helper lemmas for C14 (queue): the ring buffer refines the bounded deque. -/
namespace HsVerif.Model.Queue
variable {α : Type}

/-- `head + k` wrapped once into a buffer of length `c` -/
def w (c : Nat) (i : Int) : Int := if i < (c : Int) then i else i - c

theorem getI_setI (l : List (Option α)) (i j : Int) (x : Option α)
    (hi : 0 ≤ i) (hj : 0 ≤ j) (hil : i < l.length) :
    getI (setI l i x) j = if j = i then x else getI l j := by
  unfold getI setI
  rw [List.getD_eq_getElem?_getD, List.getElem?_set]
  split
  · rename_i h
    have : j = i := by omega
    have h2 : i.toNat < l.length := by omega
    simp [this, h2]
  · rename_i h
    have : ¬ j = i := by omega
    simp [this, List.getD_eq_getElem?_getD]

theorem setI_length (l : List (Option α)) (i : Int) (x : Option α) : (setI l i x).length = l.length := by
  simp [setI]

/-- Simulation relation between the ring buffer and the ideal deque content (oldest first). -/
structure Rel (c : Nat) (q : Queue α) (l : List α) : Prop where
  hlen : q.entries.length = c
  hle : l.length ≤ c
  hempty : l = [] → q.head = -1 ∧ q.tail = -1
  hne : l ≠ [] → 0 ≤ q.head ∧ q.head < c ∧ q.tail = w c (q.head + l.length - 1) ∧
        ∀ k (h : k < l.length), getI q.entries (w c (q.head + k)) = some l[k]

theorem rel_new (c : Nat) : Rel c (Queue.new c : Queue α) [] :=
  ⟨by simp [Queue.new], by simp, fun _ => ⟨rfl, rfl⟩, fun h => absurd rfl h⟩

theorem filterMap_range'_eq (l : List α) (f : Nat → Option α) (s : Nat)
    (h : ∀ k (hk : k < l.length), f (s + k) = some l[k]) :
    (List.range' s l.length).filterMap f = l := by
  induction l generalizing s with
  | nil => simp
  | cons a t ih =>
    have h0 := h 0 (by simp)
    simp at h0
    rw [List.length_cons, List.range'_succ, List.filterMap_cons, h0]
    show a :: _ = a :: t
    congr 1
    apply ih
    intro k hk
    have := h (k + 1) (by simp; omega)
    simp at this
    rw [← this]; congr 1; omega

theorem rel_len {c : Nat} {q : Queue α} {l : List α} (r : Rel c q l) : q.len = l.length := by
  unfold Queue.len
  by_cases hl : l = []
  · obtain ⟨h1, _⟩ := r.hempty hl
    simp [h1, hl]
  · obtain ⟨h0, hc, ht, _⟩ := r.hne hl
    have hpos : 0 < l.length := List.length_pos_iff.mpr hl
    have hle := r.hle
    have hcap : q.cap = c := by simp [Queue.cap, r.hlen]
    have : ¬ q.head = -1 := by omega
    simp only [this, ↓reduceIte, hcap]
    unfold w at ht
    split at ht <;> split <;> omega

theorem rel_abs {c : Nat} {q : Queue α} {l : List α} (r : Rel c q l) : q.abs = l := by
  unfold Queue.abs
  rw [rel_len r]
  simp only [Int.toNat_natCast]
  apply filterMap_range'_eq
  intro k hk
  have hl : l ≠ [] := by intro h; simp [h] at hk
  obtain ⟨h0, hc, ht, hget⟩ := r.hne hl
  have := hget k hk
  have hcap : q.cap = c := by simp [Queue.cap, r.hlen]
  simp only [Queue.wrapIdx, hcap, Nat.zero_add]
  simpa [w] using this

theorem rel_pop {c : Nat} {q : Queue α} {l : List α} (r : Rel c q l) :
    Rel c q.pop.1 (Deque.pop l).1 ∧ q.pop.2 = (Deque.pop l).2 := by
  unfold Queue.pop Deque.pop
  by_cases hl : l = []
  · obtain ⟨h1, h2⟩ := r.hempty hl
    subst hl
    simp [h1, r]
  · obtain ⟨h0, hc, ht, hget⟩ := r.hne hl
    have hpos : 0 < l.length := List.length_pos_iff.mpr hl
    have hle := r.hle
    have hcap : q.cap = c := by simp [Queue.cap, r.hlen]
    have hne1 : ¬ q.head = -1 := by omega
    have hhead : getI q.entries q.head = l.head? := by
      have := hget 0 hpos
      simp only [Int.natCast_zero, Int.add_zero] at this
      have hw : w c q.head = q.head := by simp [w, hc]
      rw [hw] at this
      rw [this]
      cases l with
      | nil => exact absurd rfl hl
      | cons a t => simp
    simp only [hne1, ↓reduceIte]
    by_cases hht : q.head = q.tail
    · -- single element
      simp only [hht, ↓reduceIte]
      have hlen1 : l.length = 1 := by
        unfold w at ht
        split at ht <;> omega
      have htl : l.tail = [] := by
        cases l with
        | nil => exact absurd rfl hl
        | cons a t => simp at hlen1; simp [hlen1]
      rw [← hht, hhead]
      refine ⟨⟨r.hlen, by simp [htl], fun _ => ⟨rfl, rfl⟩, fun h => absurd htl h⟩, rfl⟩
    · simp only [hht, ↓reduceIte, hcap]
      have hlen2 : 2 ≤ l.length := by
        false_or_by_contra
        have : l.length = 1 := by omega
        unfold w at ht
        rw [this] at ht
        split at ht <;> omega
      refine ⟨⟨r.hlen, by simp; omega, ?_, ?_⟩, hhead⟩
      · intro h
        have : l.tail.length = l.length - 1 := by simp
        rw [h] at this
        simp at this
        omega
      · intro _
        have hw1 : (if q.head + 1 = (c : Int) then 0 else q.head + 1) = w c (q.head + 1) := by
          unfold w; split <;> split <;> omega
        simp only [hw1]
        refine ⟨by unfold w; split <;> omega, by unfold w; split <;> omega, ?_, ?_⟩
        · simp only [List.length_tail]
          rw [ht]
          unfold w
          have : ((l.length - 1 : Nat) : Int) = (l.length : Int) - 1 := by omega
          rw [this]
          split <;> split <;> split <;> omega
        · intro k hk
          simp only [List.length_tail] at hk
          have := hget (k + 1) (by omega)
          simp only [List.getElem_tail]
          rw [← this]
          congr 1
          unfold w
          push_cast
          split <;> split <;> split <;> omega

theorem rel_push {c : Nat} (hc1 : 1 ≤ c) {q : Queue α} {l : List α} (r : Rel c q l) (x : α) :
    Rel c (q.push x).1 (Deque.push c l x).1 ∧ (q.push x).2 = (Deque.push c l x).2 := by
  have hcap : q.cap = c := by simp [Queue.cap, r.hlen]
  have hle := r.hle
  have hel := r.hlen
  by_cases hl : l = []
  · -- empty queue
    obtain ⟨h1, h2⟩ := r.hempty hl
    subst hl
    have hc0 : ¬ ((0 : Int) = (c : Int)) := by omega
    have hlt : ¬ c < 1 := by omega
    simp only [Queue.push, Deque.push, h1, h2, hcap, List.nil_append, List.length_cons, List.length_nil,
      Nat.zero_add, hlt, ↓reduceIte, Int.reduceNeg, Int.add_left_neg, hc0, Int.reduceEq]
    refine ⟨⟨by simp [setI_length, hel], by simp; omega, by simp, ?_⟩, by simp⟩
    intro _
    refine ⟨by simp, by simp; omega, by simp [w]; omega, ?_⟩
    intro k hk
    simp at hk
    subst hk
    simp only [Int.natCast_zero, Int.add_zero, List.getElem_cons_zero]
    have hw : w c 0 = 0 := by simp [w]
    rw [hw, getI_setI _ _ _ _ (by omega) (by omega) (by omega)]
    simp
  · obtain ⟨h0, hc, ht, hget⟩ := r.hne hl
    have hpos : 0 < l.length := List.length_pos_iff.mpr hl
    have hpos' : (if q.tail + 1 = (c : Int) then 0 else q.tail + 1) = w c (q.head + l.length) := by
      rw [ht]; unfold w; split <;> split <;> split <;> omega
    by_cases hfull : l.length = c
    · -- full: drop the oldest
      have hposh : w c (q.head + l.length) = q.head := by unfold w; split <;> omega
      have hlt : c < (l ++ [x]).length := by simp; omega
      have hd : getI q.entries q.head = some l[0] := by
        have := hget 0 hpos
        simp only [Int.natCast_zero, Int.add_zero] at this
        have hw : w c q.head = q.head := by simp [w, hc]
        rwa [hw] at this
      have hhead? : (l ++ [x]).head? = some l[0] := by
        cases l with
        | nil => exact absurd rfl hl
        | cons a t => simp
      have hw1 : (if q.head + 1 = (c : Int) then 0 else q.head + 1) = w c (q.head + 1) := by
        unfold w; split <;> split <;> omega
      have hne1 : ¬ w c (q.head + 1) = -1 := by unfold w; split <;> omega
      simp only [Queue.push, Deque.push, hcap, hpos', hposh, hlt, ↓reduceIte, hw1, hne1, hd, hhead?]
      refine ⟨⟨by simp [setI_length, hel], by simp; omega, ?_, ?_⟩, trivial⟩
      · intro h
        have h' := congrArg List.length h
        simp only [List.length_tail, List.length_append, List.length_cons, List.length_nil] at h'
        omega
      · intro _
        have hlt' : (l ++ [x]).tail.length = l.length := by simp
        dsimp only
        refine ⟨by unfold w; split <;> omega, by unfold w; split <;> omega, ?_, ?_⟩
        · rw [hlt']; unfold w; split <;> split <;> omega
        · intro k hk
          rw [hlt'] at hk
          rw [getI_setI _ _ _ _ (by omega) (by unfold w; split <;> split <;> omega) (by omega)]
          simp only [List.getElem_tail]
          by_cases hk1 : k + 1 < l.length
          · have hneq : ¬ w c (w c (q.head + 1) + k) = q.head := by
              unfold w; split <;> split <;> omega
            simp only [hneq, ↓reduceIte]
            rw [List.getElem_append_left (by omega)]
            rw [← hget (k + 1) hk1]
            congr 1
            unfold w; push_cast
            split <;> split <;> split <;> omega
          · have hk2 : k + 1 = l.length := by omega
            have heq : w c (w c (q.head + 1) + k) = q.head := by
              unfold w; split <;> split <;> omega
            simp only [heq, ↓reduceIte]
            rw [List.getElem_append_right (by omega)]
            simp [hk2]
    · -- room left
      have hlt : l.length < c := by omega
      have hposn : ¬ w c (q.head + l.length) = q.head := by unfold w; split <;> omega
      have hnl : ¬ c < (l ++ [x]).length := by simp; omega
      have hne1 : ¬ q.head = -1 := by omega
      simp only [Queue.push, Deque.push, hcap, hpos', hposn, hnl, ↓reduceIte, hne1]
      refine ⟨⟨by simp [setI_length, hel], by simp; omega, by simp, ?_⟩, trivial⟩
      intro _
      dsimp only
      refine ⟨h0, hc, ?_, ?_⟩
      · simp only [List.length_append, List.length_cons, List.length_nil]
        congr 1; push_cast; omega
      · intro k hk
        simp only [List.length_append, List.length_cons, List.length_nil] at hk
        rw [getI_setI _ _ _ _ (by unfold w; split <;> omega) (by unfold w; split <;> omega)
          (by unfold w; split <;> omega)]
        by_cases hk1 : k < l.length
        · have hneq : ¬ w c (q.head + k) = w c (q.head + l.length) := by
            unfold w; split <;> split <;> omega
          simp only [hneq, ↓reduceIte]
          rw [List.getElem_append_left hk1]
          exact hget k hk1
        · have hk2 : k = l.length := by omega
          subst hk2
          simp

theorem step_refines {c : Nat} (hc : 1 ≤ c) {q : Queue α} {l : List α} (r : Rel c q l) (o : QOp α) :
    (q.step o).2 = (Deque.step c l o).2 ∧ Rel c (q.step o).1 (Deque.step c l o).1 := by
  cases o with
  | push x => obtain ⟨h1, h2⟩ := rel_push hc r x; exact ⟨by simp [Queue.step, Deque.step, h2], h1⟩
  | pop => obtain ⟨h1, h2⟩ := rel_pop r; exact ⟨by simp [Queue.step, Deque.step, h2], h1⟩
  | len => exact ⟨by simp [Queue.step, Deque.step, rel_len r], r⟩

theorem run_refines {c : Nat} (hc : 1 ≤ c) (w : List (QOp α)) :
    ∀ {q : Queue α} {l : List α}, Rel c q l →
      (q.run w).2 = (Deque.run c l w).2 ∧ Rel c (q.run w).1 (Deque.run c l w).1 := by
  induction w with
  | nil => intro q l r; exact ⟨rfl, r⟩
  | cons o os ih =>
    intro q l r
    obtain ⟨h1, h2⟩ := step_refines hc r o
    obtain ⟨i1, i2⟩ := ih h2
    exact ⟨by simp [Queue.run, Deque.run, h1, i1], i2⟩

end HsVerif.Model.Queue
