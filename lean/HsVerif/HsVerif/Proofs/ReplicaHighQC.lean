import HsVerif.Proofs.ReplicaStore
/-!
The view of the high QC never decreases (C07), for every handler of the replica model and hence
along every event sequence.  Needs the store invariant "genesis is stored" (block maps only grow).
-/
open Std.Do
set_option mvcgen.warning false
set_option linter.unusedSimpArgs false
namespace HsVerif.Model
open HsVerif.Proofs

def G0 : List (Hash × Block) := [(genesisHash, genesisBlock)]

/-- high QC at least `hv`, genesis stored -/
def HQ (hv : Nat) (s : RState) : Prop := hv ≤ s.highQC.view ∧ Grows G0 s

theorem triple_and {α} (f : M α) (P P' : RState → Prop) (Q Q' : α → RState → Prop)
    (h : ⦃fun s => ⌜P s⌝⦄ f ⦃⇓ r s => ⌜Q r s⌝⦄) (h' : ⦃fun s => ⌜P' s⌝⦄ f ⦃⇓ r s => ⌜Q' r s⌝⦄) :
    ⦃fun s => ⌜P s ∧ P' s⌝⦄ f ⦃⇓ r s => ⌜Q r s ∧ Q' r s⌝⦄ := by
  apply triple_of_run
  intro s ⟨hp, hp'⟩
  exact ⟨run_res_of_triple f P Q h s hp, run_res_of_triple f P' Q' h' s hp'⟩

/-- leaf frame: anything that preserves `AP` and lets the store grow preserves `HQ` -/
theorem hq_frame {α} (f : M α) (hv : Nat)
    (hap : ∀ x, ⦃fun s => ⌜AP s = x⌝⦄ f ⦃⇓ _ s => ⌜AP s = x⌝⦄)
    (hgr : ∀ x, ⦃fun s => ⌜Grows x s⌝⦄ f ⦃⇓ _ s => ⌜Grows x s⌝⦄) :
    ⦃fun s => ⌜HQ hv s⌝⦄ f ⦃⇓ _ s => ⌜HQ hv s⌝⦄ := by
  apply triple_of_run
  intro s ⟨h1, h2⟩
  have a := run_res_of_triple f (fun s' => AP s' = AP s) (fun _ s' => AP s' = AP s) (hap (AP s)) s rfl
  have g := run_res_of_triple f (fun s' => Grows G0 s') (fun _ s' => Grows G0 s') (hgr G0) s h2
  refine ⟨?_, g⟩
  have : (f.run s).2.highQC = s.highQC := by
    have := congrArg (fun x => x.2.2) a
    simpa [AP] using this
  rw [this]; exact h1

/-- `getBlock` on the hash of a QC that names a stored block of its view returns a block of that view -/
theorem getBlock_hq (hv : Nat) (q : QC) :
    ⦃fun s => ⌜HQ hv s ∧ QCBlockView q s⌝⦄ getBlock q.hash
    ⦃⇓ r s => ⌜HQ hv s ∧ (∀ nb, r = some nb → nb.view = q.view)⌝⦄ := by
  apply triple_of_run
  intro s ⟨⟨h1, h2⟩, hq⟩
  have hl : ∃ b, s.chain.blocks.lookup q.hash = some b ∧ b.view = q.view := by
    rcases hq with ⟨hg, hz⟩ | h
    · refine ⟨genesisBlock, ?_, ?_⟩
      · rw [hg]; exact h2 genesisHash genesisBlock (by simp [G0])
      · rw [hz]; rfl
    · exact h
  obtain ⟨b, hb, hbv⟩ := hl
  have hrun : (getBlock q.hash).run s = (some b, s) := by
    simp [getBlock, RChain.get, hb, StateT.run, Id.run, bind, StateT.bind, get, getThe, MonadStateOf.get, StateT.get, set, StateT.set, pure, StateT.pure]
  rw [hrun]
  exact ⟨⟨h1, h2⟩, by intro nb hnb; cases hnb; exact hbv⟩

end HsVerif.Model

namespace HsVerif.Model
open HsVerif.Proofs

/-- leaf frame in projection form: `AP` is kept exactly, genesis stays stored -/
theorem apg_frame {α} (f : M α)
    (hap : ∀ x, ⦃fun s => ⌜AP s = x⌝⦄ f ⦃⇓ _ s => ⌜AP s = x⌝⦄)
    (hgr : ∀ x, ⦃fun s => ⌜Grows x s⌝⦄ f ⦃⇓ _ s => ⌜Grows x s⌝⦄) (x) :
    ⦃fun s => ⌜AP s = x ∧ Grows G0 s⌝⦄ f ⦃⇓ _ s => ⌜AP s = x ∧ Grows G0 s⌝⦄ :=
  triple_and f _ _ _ _ (hap x) (hgr G0)

/-- closes the verification conditions of a "high QC does not go down" specification -/
macro "hv_finish" : tactic => `(tactic| (
  (try intros)
  (try simp +zetaDelta [Grows] at *)
  (first
    | done
    | omega
    | (refine ⟨?_, ?_⟩ <;> first | omega | assumption | (simp_all [Grows]; done))
    | (simp_all [Grows]; done)
    | skip)))

section HQChain
variable (k : Keys) (c : RCfg)

theorem emit_apg (o : Out) (x) : ⦃fun s => ⌜AP s = x ∧ Grows G0 s⌝⦄ emit o ⦃⇓ _ s => ⌜AP s = x ∧ Grows G0 s⌝⦄ := apg_frame _ (emit_ap o) (emit_gr o) x
theorem addEvent_apg (e : Ev) (x) : ⦃fun s => ⌜AP s = x ∧ Grows G0 s⌝⦄ addEvent e ⦃⇓ _ s => ⌜AP s = x ∧ Grows G0 s⌝⦄ := apg_frame _ (addEvent_ap e) (addEvent_gr e) x
theorem createAndPropose_apg (si : SyncInfo) (x) :
    ⦃fun s => ⌜AP s = x ∧ Grows G0 s⌝⦄ createAndPropose k c si ⦃⇓ _ s => ⌜AP s = x ∧ Grows G0 s⌝⦄ := apg_frame _ (createAndPropose_ap k c si) (createAndPropose_gr k c si) x

theorem verifySyncInfo_apg (si : SyncInfo) (x) :
    ⦃fun s => ⌜AP s = x ∧ Grows G0 s⌝⦄ verifySyncInfo k c si
    ⦃⇓ r s => ⌜(AP s = x ∧ (∀ q view t, r = .ok (some q, view, t) → QCBlockView q s)) ∧ Grows G0 s⌝⦄ :=
  triple_and _ _ _ _ _ (verifySyncInfo_bv k c si x) (verifySyncInfo_gr k c si G0)

/-- `getBlock` on the hash of a QC naming a stored block of its view returns a block of that view -/
theorem getBlock_apg (q : QC) (x) :
    ⦃fun s => ⌜(AP s = x ∧ Grows G0 s) ∧ QCBlockView q s⌝⦄ getBlock q.hash
    ⦃⇓ r s => ⌜(AP s = x ∧ Grows G0 s) ∧ (∀ nb, r = some nb → nb.view = q.view)⌝⦄ := by
  apply triple_of_run
  intro s ⟨⟨h1, h2⟩, hq⟩
  have := run_res_of_triple (getBlock q.hash) (fun s => HQ 0 s ∧ QCBlockView q s)
    (fun r s => HQ 0 s ∧ (∀ nb, r = some nb → nb.view = q.view)) (getBlock_hq 0 q) s ⟨⟨by omega, h2⟩, hq⟩
  have a := run_res_of_triple (getBlock q.hash) (fun s' => AP s' = x) (fun _ s' => AP s' = x) (getBlock_ap q.hash x) s h1
  exact ⟨⟨a, this.1.2⟩, this.2⟩

theorem mono_eq (x : List GRec × Nat × QC) (s : RState) (h : AP s = x) : x.2.2.view ≤ s.highQC.view := by
  subst h; simp [AP]

theorem mono_if (x : List GRec × Nat × QC) (s : RState) (q : QC) (h : AP s = x) :
    x.2.2.view ≤ (if q.view ≤ s.highQC.view then s.highQC else q).view := by
  subst h; simp only [AP]; split <;> omega

/-- `advanceView` never lowers the view of the high QC (and keeps genesis stored) -/
theorem advanceView_mono (si : SyncInfo) (x) :
    ⦃fun s => ⌜AP s = x ∧ Grows G0 s⌝⦄ advanceView k c si ⦃⇓ _ s => ⌜x.2.2.view ≤ s.highQC.view ∧ Grows G0 s⌝⦄ := by
  mvcgen [advanceView, verifySyncInfo_apg, getBlock_apg, addEvent_apg, createAndPropose_apg, emit_apg]
  all_goals simp_all +zetaDelta [Grows, QCBlockView]
  all_goals (try intros)
  all_goals (first
    | exact mono_eq _ _ (by simp_all [AP])
    | exact mono_if _ _ _ (by simp_all [AP])
    | skip)

/-- projection form on the number itself: `v` is found by `rfl`, everything else is arithmetic -/
theorem hv_of_ap {α} (f : M α)
    (hap : ∀ x, ⦃fun s => ⌜AP s = x⌝⦄ f ⦃⇓ _ s => ⌜AP s = x⌝⦄)
    (hgr : ∀ x, ⦃fun s => ⌜Grows x s⌝⦄ f ⦃⇓ _ s => ⌜Grows x s⌝⦄) (v : Nat) :
    ⦃fun s => ⌜s.highQC.view = v ∧ Grows G0 s⌝⦄ f ⦃⇓ _ s => ⌜s.highQC.view = v ∧ Grows G0 s⌝⦄ := by
  apply triple_of_run
  intro s ⟨h1, h2⟩
  have a := run_res_of_triple f (fun s' => AP s' = AP s ∧ Grows G0 s') (fun _ s' => AP s' = AP s ∧ Grows G0 s')
    (apg_frame f hap hgr (AP s)) s ⟨rfl, h2⟩
  refine ⟨?_, a.2⟩
  have : (f.run s).2.highQC = s.highQC := by
    have := congrArg (fun x => x.2.2) a.1
    simpa [AP] using this
  rw [this]; exact h1

theorem hv_of_mono {α} (f : M α)
    (h : ∀ x, ⦃fun s => ⌜AP s = x ∧ Grows G0 s⌝⦄ f ⦃⇓ _ s => ⌜x.2.2.view ≤ s.highQC.view ∧ Grows G0 s⌝⦄) (v : Nat) :
    ⦃fun s => ⌜s.highQC.view = v ∧ Grows G0 s⌝⦄ f ⦃⇓ _ s => ⌜v ≤ s.highQC.view ∧ Grows G0 s⌝⦄ := by
  apply triple_of_run
  intro s ⟨h1, h2⟩
  have a := run_res_of_triple f (fun s' => AP s' = AP s ∧ Grows G0 s') (fun _ s' => (AP s).2.2.view ≤ s'.highQC.view ∧ Grows G0 s')
    (h (AP s)) s ⟨rfl, h2⟩
  refine ⟨?_, a.2⟩
  have := a.1
  simp only [AP] at this
  omega

theorem emit_hv (o : Out) (v) : ⦃fun s => ⌜s.highQC.view = v ∧ Grows G0 s⌝⦄ emit o ⦃⇓ _ s => ⌜s.highQC.view = v ∧ Grows G0 s⌝⦄ := hv_of_ap _ (emit_ap o) (emit_gr o) v
theorem signMsg_hv (m : Msg) (v) : ⦃fun s => ⌜s.highQC.view = v ∧ Grows G0 s⌝⦄ signMsg c m ⦃⇓ _ s => ⌜s.highQC.view = v ∧ Grows G0 s⌝⦄ := hv_of_ap _ (signMsg_ap c m) (signMsg_gr c m) v
theorem collectVote_hv (id : Nat) (sig : Option Sig) (h : Hash) (d : Bool) (v) :
    ⦃fun s => ⌜s.highQC.view = v ∧ Grows G0 s⌝⦄ collectVote k c id sig h d ⦃⇓ _ s => ⌜s.highQC.view = v ∧ Grows G0 s⌝⦄ := hv_of_ap _ (collectVote_ap k c id sig h d) (collectVote_gr k c id sig h d) v
theorem voterVerify_hv (id : Nat) (b : Block) (agg : Option AggQC) (v) :
    ⦃fun s => ⌜s.highQC.view = v ∧ Grows G0 s⌝⦄ voterVerify k c id b agg ⦃⇓ _ s => ⌜s.highQC.view = v ∧ Grows G0 s⌝⦄ := hv_of_ap _ (voterVerify_ap k c id b agg) (voterVerify_gr k c id b agg) v
theorem onValidPropose_hv (id : Nat) (b : Block) (v) :
    ⦃fun s => ⌜s.highQC.view = v ∧ Grows G0 s⌝⦄ onValidPropose k c id b ⦃⇓ _ s => ⌜s.highQC.view = v ∧ Grows G0 s⌝⦄ := hv_of_ap _ (onValidPropose_ap k c id b) (onValidPropose_gr k c id b) v
theorem createAndPropose_hv (si : SyncInfo) (v) :
    ⦃fun s => ⌜s.highQC.view = v ∧ Grows G0 s⌝⦄ createAndPropose k c si ⦃⇓ _ s => ⌜s.highQC.view = v ∧ Grows G0 s⌝⦄ := hv_of_ap _ (createAndPropose_ap k c si) (createAndPropose_gr k c si) v

theorem advanceView_hv (si : SyncInfo) (v) :
    ⦃fun s => ⌜s.highQC.view = v ∧ Grows G0 s⌝⦄ advanceView k c si ⦃⇓ _ s => ⌜v ≤ s.highQC.view ∧ Grows G0 s⌝⦄ :=
  hv_of_mono _ (advanceView_mono k c si) v

theorem onRemoteTimeout_hv (t : TimeoutMsg) (v) :
    ⦃fun s => ⌜s.highQC.view = v ∧ Grows G0 s⌝⦄ onRemoteTimeout k c t ⦃⇓ _ s => ⌜v ≤ s.highQC.view ∧ Grows G0 s⌝⦄ := by
  mvcgen [onRemoteTimeout, advanceView_hv]
  all_goals hv_finish

theorem onLocalTimeout_hv (v) :
    ⦃fun s => ⌜s.highQC.view = v ∧ Grows G0 s⌝⦄ onLocalTimeout k c ⦃⇓ _ s => ⌜v ≤ s.highQC.view ∧ Grows G0 s⌝⦄ := by
  mvcgen [onLocalTimeout, onRemoteTimeout_hv, emit_hv, signMsg_hv]
  all_goals hv_finish

theorem onPropose_hv (id : Nat) (b : Block) (agg : Option AggQC) (v) :
    ⦃fun s => ⌜s.highQC.view = v ∧ Grows G0 s⌝⦄ onPropose k c id b agg ⦃⇓ _ s => ⌜v ≤ s.highQC.view ∧ Grows G0 s⌝⦄ := by
  mvcgen [onPropose, advanceView_hv, voterVerify_hv, onValidPropose_hv, emit_hv]
  all_goals hv_finish

theorem tick_hv (v) :
    ⦃fun s => ⌜s.highQC.view = v ∧ Grows G0 s⌝⦄ tick k c ⦃⇓ _ s => ⌜v ≤ s.highQC.view ∧ Grows G0 s⌝⦄ := by
  mvcgen [tick, onPropose_hv, onRemoteTimeout_hv, onLocalTimeout_hv, advanceView_hv, collectVote_hv, emit_hv]
  all_goals hv_finish

theorem runLoop_hv (fuel : Nat) (v) :
    ⦃fun s => ⌜s.highQC.view = v ∧ Grows G0 s⌝⦄ runLoop k c fuel ⦃⇓ _ s => ⌜v ≤ s.highQC.view ∧ Grows G0 s⌝⦄ := by
  induction fuel generalizing v with
  | zero => mvcgen [runLoop] <;> hv_finish
  | succ n ih =>
    -- one tick, then the rest of the loop from wherever the high QC is by then
    apply triple_of_run
    intro s hs
    have h1 := run_res_of_triple (tick k c) _ _ (tick_hv k c v) s hs
    unfold runLoop
    simp only [StateT.run, bind, StateT.bind, Id.run] at *
    generalize htk : tick k c s = r at *
    obtain ⟨b, s1⟩ := r
    simp only at h1 ⊢
    cases b with
    | false => simpa [pure, StateT.pure] using h1
    | true =>
      have h2 := run_res_of_triple (runLoop k c n) _ _ (ih s1.highQC.view) s1 ⟨rfl, h1.2⟩
      simp only [StateT.run, Id.run] at h2
      simp only [ite_true]
      exact ⟨Nat.le_trans h1.1 h2.1, h2.2⟩

end HQChain
end HsVerif.Model
