import HsVerif.Proofs.SysSafety
import HsVerif.Proofs.SysLedger
import HsVerif.Props.C01FastLock
/-!
C01, Fast-HotStuff, system layer (task F3): THE SYSTEM OF REPLICA MODELS IS SAFE UNDER FAST-HOTSTUFF.
Helpers; the property theorems are in Props/C01FastSys.lean.

1. Namespace `HsVerif.Safety` — the UNTIMED abstract argument over `Safety.Sys`.  `FastDiscipline S`: the
   first five fields of `Discipline S` (`FastDiscipline.base : VoteDiscipline S`) and, instead of the lock
   rule, `lockjust`: an honest replica that voted for `x` and, in a higher view, for `w` has
   `view (par x) ≤ view (par w)` (the QC views of its votes never go down).  `TwoChain b0 b1` (the commit
   condition of Fast-HotStuff for `b0`), `fast_certified_extends`, `fast_committed_on_one_branch`,
   `fast_gc_ext_gen`, `fast_ext_le`.  The lemmas `cert_voter` … `common_voter` of Proofs/Safety.lean are
   restated under `VoteDiscipline` (namespace `VoteDiscipline`; they use only the five common fields).
2. Namespace `HsVerif.Model` — `CommittedBy` (Proofs/SysSafety.lean) lifted to every replica of every
   reachable system state for ANY ruleset (`reach_committedBy`); `ghost_before`: in a history satisfying
   `Inv3` a vote of lower view stands before a vote of higher view.
3. Namespace `HsVerif.FastSys` — the standing hypotheses `FCtx k C σ blk` (`rules = .fast`, content
   addressing `CA` — the conjunct of `CA'` about the empty hash is NOT needed: Fast-HotStuff has no lock, and
   `CommitChain` for `.fast` carries its own `≠ ""` clauses, which are not even used), what is known of a
   voted block (`FVoted`, with `qcv`: the view of the abstract parent is the QC view), `lockjust`,
   `discipline`, commit chains are two-chains (`commit_chain`), `committed`, `commits_agree`.
4. Ledgers (namespace `HsVerif.FastSys`): the Fast-HotStuff copies of the `Ctx` lemmas of
   Proofs/SysLedger.lean (`FTip`, `tip_ext`, `stored_par`, `path_chain`, `path_anchor`, `segs_chain`,
   `rep_ledger`), `ca_back`, `ca_back_run`, `run_ledger`, `sysStepL_inv`, `sysRunL_inv_fast`.
-/
set_option linter.unusedVariables false
namespace HsVerif.Safety

/-- the part of `Discipline` that does not mention the lock -/
structure VoteDiscipline (S : Sys) : Prop where
  gen_view : S.view S.gen = 0
  par_gen : S.par S.gen = S.gen
  inter : ∀ Q1 Q2, S.Quorum Q1 → S.Quorum Q2 → ∃ r, Q1 r ∧ Q2 r ∧ S.honest r
  one_per_view : ∀ r x y, S.honest r → S.voted r x → S.voted r y → S.view x = S.view y → x = y
  wf : ∀ r w, S.honest r → S.voted r w → GC S (S.par w) ∧ S.view (S.par w) < S.view w

theorem Discipline.base {S : Sys} (D : Discipline S) : VoteDiscipline S :=
  ⟨D.gen_view, D.par_gen, D.inter, D.one_per_view, D.wf⟩

/-- the discipline of honest Fast-HotStuff replicas and the quorum system: as `Discipline`, with the lock
rule replaced by `lockjust` — the parent (= QC block) views of the blocks an honest replica votes for never
go down (votes of one honest replica have pairwise different views, so "`x` was voted before `w`" is
"`view x < view w`") -/
structure FastDiscipline (S : Sys) : Prop where
  gen_view : S.view S.gen = 0
  par_gen : S.par S.gen = S.gen
  inter : ∀ Q1 Q2, S.Quorum Q1 → S.Quorum Q2 → ∃ r, Q1 r ∧ Q2 r ∧ S.honest r
  one_per_view : ∀ r x y, S.honest r → S.voted r x → S.voted r y → S.view x = S.view y → x = y
  wf : ∀ r w, S.honest r → S.voted r w → GC S (S.par w) ∧ S.view (S.par w) < S.view w
  lockjust : ∀ r x w, S.honest r → S.voted r x → S.voted r w → S.view x < S.view w →
    S.view (S.par x) ≤ S.view (S.par w)

theorem FastDiscipline.base {S : Sys} (D : FastDiscipline S) : VoteDiscipline S :=
  ⟨D.gen_view, D.par_gen, D.inter, D.one_per_view, D.wf⟩

variable {S : Sys}

namespace VoteDiscipline
variable (D : VoteDiscipline S)
include D

theorem cert_voter {b : S.Blk} (h : Certified S b) : ∃ r, S.honest r ∧ S.voted r b := by
  obtain ⟨Q, hQ, hv⟩ := h
  obtain ⟨r, hr, _, hh⟩ := D.inter Q Q hQ hQ
  exact ⟨r, hh, hv r hr hh⟩

theorem cert_par {b : S.Blk} (h : Certified S b) : GC S (S.par b) ∧ S.view (S.par b) < S.view b := by
  obtain ⟨r, hh, hv⟩ := cert_voter D h
  exact D.wf r b hh hv

theorem cert_pos {b : S.Blk} (h : Certified S b) : 1 ≤ S.view b := by
  have := (cert_par D h).2
  omega

theorem cert_unique {a b : S.Blk} (ha : Certified S a) (hb : Certified S b) (hv : S.view a = S.view b) : a = b := by
  obtain ⟨Qa, hQa, hva⟩ := ha
  obtain ⟨Qb, hQb, hvb⟩ := hb
  obtain ⟨r, hra, hrb, hh⟩ := D.inter Qa Qb hQa hQb
  exact D.one_per_view r a b hh (hva r hra hh) (hvb r hrb hh) hv

theorem gc_view_zero {b : S.Blk} (h : GC S b) (hz : S.view b = 0) : b = S.gen := by
  rcases h with h | h
  · exact h
  · have := cert_pos D h; omega

theorem gc_unique {a b : S.Blk} (ha : GC S a) (hb : GC S b) (hv : S.view a = S.view b) : a = b := by
  rcases ha with rfl | ha
  · exact (gc_view_zero D hb (by rw [← hv]; exact D.gen_view)).symm
  · rcases hb with rfl | hb
    · exact gc_view_zero D (Or.inr ha) (by rw [hv]; exact D.gen_view)
    · exact cert_unique D ha hb hv

theorem common_voter {a b : S.Blk} (ha : Certified S a) (hb : Certified S b) :
    ∃ r, S.honest r ∧ S.voted r a ∧ S.voted r b := by
  obtain ⟨Qa, hQa, hva⟩ := ha
  obtain ⟨Qb, hQb, hvb⟩ := hb
  obtain ⟨r, hra, hrb, hh⟩ := D.inter Qa Qb hQa hQb
  exact ⟨r, hh, hva r hra hh, hvb r hrb hh⟩

/-- the parent of a GC block is GC and not above it -/
theorem gc_par {b : S.Blk} (h : GC S b) : GC S (S.par b) ∧ S.view (S.par b) ≤ S.view b := by
  rcases h with rfl | hc
  · rw [D.par_gen]; exact ⟨Or.inl rfl, Nat.le_refl _⟩
  · exact ⟨(cert_par D hc).1, Nat.le_of_lt (cert_par D hc).2⟩

/-- everything a GC block extends is GC and not above it -/
theorem ext_le : ∀ (n : Nat) (a c : S.Blk), GC S a → up S n a = c → GC S c ∧ S.view c ≤ S.view a := by
  intro n
  induction n with
  | zero => intro a c ha h; cases h; exact ⟨ha, Nat.le_refl _⟩
  | succ n ih =>
    intro a c ha h
    obtain ⟨h1, h2⟩ := gc_par D ha
    obtain ⟨h3, h4⟩ := ih _ c h1 h
    exact ⟨h3, Nat.le_trans h4 h2⟩

/-- every GC block extends genesis -/
theorem gc_ext_gen : ∀ (n : Nat) (b : S.Blk), S.view b = n → GC S b → Ext S b S.gen := by
  intro n
  induction n using Nat.strongRecOn with
  | _ n ih =>
    intro b hn hb
    rcases hb with rfl | hc
    · exact Ext.refl _
    · obtain ⟨h1, h2⟩ := cert_par D hc
      exact Ext.step (ih _ (by rw [← hn]; exact h2) _ rfl h1)

end VoteDiscipline

/-- The commit condition of Fast-HotStuff for `b0`: `b0 ← b1` directly linked, consecutive views, `b1`
certified. -/
structure TwoChain (b0 b1 : S.Blk) : Prop where
  p1 : S.par b1 = b0
  v1 : S.view b1 = S.view b0 + 1
  cert : Certified S b1

section
variable (D : FastDiscipline S)
include D

/-- the tail of a two-chain is genesis or certified -/
theorem TwoChain.gc {b0 b1 : S.Blk} (T : TwoChain (S := S) b0 b1) : GC S b0 := by
  have := (D.base.cert_par T.cert).1
  rwa [T.p1] at this

/-- **Core of the safety argument (Fast-HotStuff)**: every certified block at or above a two-chain's tail
extends it. -/
theorem fast_certified_extends {b0 b1 : S.Blk} (T : TwoChain (S := S) b0 b1) :
    ∀ n (w : S.Blk), S.view w = n → Certified S w → S.view b0 ≤ S.view w → Ext S w b0 := by
  have hbgc : GC S b0 := T.gc D
  intro n
  induction n using Nat.strongRecOn with
  | _ n ih =>
    intro w hn hw hge
    by_cases h0 : S.view w = S.view b0
    · rw [D.base.gc_unique (Or.inr hw) hbgc h0]; exact Ext.refl b0
    by_cases h1 : S.view w = S.view b0 + 1
    · have : w = b1 := D.base.cert_unique hw T.cert (by rw [T.v1]; exact h1)
      rw [this]; exact Ext.step (by rw [T.p1]; exact Ext.refl b0)
    -- above the chain: a common honest voter of b1 and w
    obtain ⟨r, hh, hvb, hvw⟩ := D.base.common_voter T.cert hw
    have hlt : S.view b1 < S.view w := by rw [T.v1]; omega
    have hlj := D.lockjust r b1 w hh hvb hvw hlt
    rw [T.p1] at hlj
    obtain ⟨hpgc, hplt⟩ := D.wf r w hh hvw
    rcases hpgc with hg | hc
    · -- the parent is genesis: so is b0
      have hbz : S.view b0 = 0 := by rw [hg, D.gen_view] at hlj; omega
      have : b0 = S.gen := D.base.gc_view_zero hbgc hbz
      exact Ext.step (by rw [hg, this]; exact Ext.refl _)
    · exact Ext.step (ih (S.view (S.par w)) (by omega) (S.par w) rfl hc hlj)

/-- **Safety (Fast-HotStuff)**: two blocks that satisfy the two-chain commit condition are on one branch. -/
theorem fast_committed_on_one_branch {b0 b1 c0 c1 : S.Blk}
    (Tb : TwoChain (S := S) b0 b1) (Tc : TwoChain (S := S) c0 c1) : Ext S b0 c0 ∨ Ext S c0 b0 := by
  have key : ∀ {x0 x1 y0 y1 : S.Blk}, TwoChain (S := S) x0 x1 → TwoChain (S := S) y0 y1 →
      S.view x0 ≤ S.view y0 → Ext S y0 x0 := by
    intro x0 x1 y0 y1 Tx Ty hle
    rcases Ty.gc D with hg | hc
    · have hz : S.view x0 = 0 := by rw [hg, D.gen_view] at hle; omega
      rw [hg, D.base.gc_view_zero (Tx.gc D) hz]; exact Ext.refl _
    · exact fast_certified_extends D Tx _ y0 rfl hc hle
  rcases Nat.le_total (S.view b0) (S.view c0) with h | h
  · exact Or.inr (key Tb Tc h)
  · exact Or.inl (key Tc Tb h)

end
end HsVerif.Safety

namespace HsVerif.Model
open HsVerif.Props HsVerif.Props.C01Sys HsVerif.SysLedger HsVerif.SysSignal

/-- `CommittedBy` reads block map, ghost history and committed block only -/
theorem committedBy_congr (c : RCfg) (s s' : RState) (hb : s'.chain.blocks = s.chain.blocks)
    (hg : s'.ghost = s.ghost) (hcm : s'.committed = s.committed) (h : CommittedBy c s) : CommittedBy c s' := by
  rcases h with hc | ⟨x, id, hm, hcc⟩
  · exact Or.inl (by rw [hcm]; exact hc)
  · exact Or.inr ⟨x, id, hg ▸ hm, by rw [hcm]; exact commitChain_grows c s s' x _ (grows_of_blocks_eq s s' hb) hcc⟩

theorem step_committedBy (k : Keys) (c : RCfg) (s : RState) (e : Ev) (h : CommittedBy c s) :
    CommittedBy c (step k c s e).1 := by
  obtain ⟨new, hnew⟩ := C01Rule.ghost_appends_step k c s e
  exact committedBy_of_vr c s _ new (step_grows k c s e) hnew (C01Rule.committed_only_by_rule k c s e new hnew) h

theorem start_committedBy (k : Keys) (c : RCfg) (s : RState) (h : CommittedBy c s) :
    CommittedBy c (start k c s).1 := by
  obtain ⟨new, hnew⟩ := C01Rule.ghost_appends_start k c s
  exact committedBy_of_vr c s _ new (start_grows k c s) hnew (C01Rule.committed_only_by_rule_start k c s new hnew) h

/-- **The commit invariant, for every ruleset**: in every reachable system state the block a replica has
committed is genesis or the block the commit rule returned for a block the replica voted for. -/
theorem reach_committedBy (k : Keys) (C : SysCfg) (σ : SysState) (hr : Reach k C σ) :
    ∀ i s, σ.reps.lookup i = some s → CommittedBy (C.rcfg i) s := by
  induction hr with
  | init =>
    intro i s h
    simp only [sysInit, lookup_init] at h
    split at h
    · cases h; exact Or.inl rfl
    · cases h
  | step σ a _ ih =>
    intro i s' hs'
    obtain ⟨s, hs, _⟩ := sysStep_rep_view k C σ a i s' hs'
    exact sysStep_rep_rel k C σ a (fun i s s' => CommittedBy (C.rcfg i) s → CommittedBy (C.rcfg i) s')
      (fun _ _ h => h)
      (fun i s t nb h => start_committedBy k _ _ (committedBy_congr _ s _ rfl rfl rfl h))
      (fun i s t nb e h => step_committedBy k _ _ e (committedBy_congr _ s _ rfl rfl rfl h))
      (fun i s l h => committedBy_congr _ s _ rfl rfl rfl h) i s s' hs hs' (ih i s hs)

/-- in a history satisfying C03's invariant, a vote of lower view stands before a vote of higher view -/
theorem ghost_before (k : Keys) (c : RCfg) (s : RState) (hi : Inv3 k c s) (pre post : List GRec) (x w : Block)
    (idx id : Nat) (he : s.ghost = pre ++ GRec.vote w id :: post) (hx : GRec.vote x idx ∈ s.ghost)
    (hlt : x.view < w.view) : GRec.vote x idx ∈ pre := by
  have hord := ghost_order k c s hi pre post w id he
  rw [he] at hx
  rcases List.mem_append.mp hx with h | h
  · exact h
  · rcases List.mem_cons.mp h with h | h
    · cases h; exact absurd hlt (Nat.lt_irrefl _)
    · have := hord.2 x idx h; omega

end HsVerif.Model

namespace HsVerif.FastSys
open HsVerif.Model HsVerif.Props HsVerif.Props.C01Sys HsVerif.Props.C01SysWF HsVerif.Safety

/-- the standing hypotheses, Fast-HotStuff -/
structure FCtx (k : Keys) (C : SysCfg) (σ : SysState) (blk : Hash → Block) : Prop where
  hk : KeysOK k
  hr : Reach k C σ
  hn : 1 ≤ C.n
  hf : FewFaulty C
  hsch : C.scheme ≠ .bls12
  hrl : C.rules = .fast
  hca : CA σ blk

/-- what is known of a block an honest replica voted for, or of a certified block -/
structure FVoted (C : SysCfg) (σ : SysState) (blk : Hash → Block) (w : Block) : Prop where
  ne_gen : w ≠ genesisBlock
  known : w = blk w.hash
  pos : 0 < w.view
  par : (SysAbs C σ blk).par w = blk w.qc.hash
  gc : GC (SysAbs C σ blk) ((SysAbs C σ blk).par w)
  lt : Block.view ((SysAbs C σ blk).par w) < w.view
  qcv : Block.view ((SysAbs C σ blk).par w) = w.qc.view

section
variable {k : Keys} {C : SysCfg} {σ : SysState} {blk : Hash → Block} (X : FCtx k C σ blk)
include X

theorem FCtx.stored {i : Nat} {s : RState} {h : Hash} {b : Block} (hs : σ.reps.lookup i = some s)
    (hb : sget s h = some b) : b = blk h ∧ b.hash = h :=
  (X.hca.2 i s hs).1 h b hb

theorem FCtx.stored_known {i : Nat} {s : RState} {h : Hash} {b : Block} (hs : σ.reps.lookup i = some s)
    (hb : sget s h = some b) : b = blk b.hash := by
  obtain ⟨h1, h2⟩ := X.stored hs hb
  rw [h2]; exact h1

theorem FCtx.honest_of {i : Nat} {s : RState} (hs : σ.reps.lookup i = some s) : i ∈ C.honest :=
  (reach_inv k C X.hk σ X.hr).dom' i s hs

theorem FCtx.voted {i : Nat} {s : RState} {w : Block} {id : Nat} (hs : σ.reps.lookup i = some s)
    (hm : GRec.vote w id ∈ s.ghost) : FVoted C σ blk w := by
  have hv : (SysAbs C σ blk).voted i w := ⟨s, id, hs, hm⟩
  have hne := voted_ne_genesis k C X.hk σ X.hr blk i w hv
  obtain ⟨_, _, h3⟩ := honest_vote_discipline k C X.hk σ X.hr i s hs
  obtain ⟨_, hpar, hlt, _⟩ := h3 w id hm
  obtain ⟨hgc, hvl⟩ := sys_wf k C X.hk σ X.hr X.hsch blk X.hca i w (X.honest_of hs) hv
  have hp : (SysAbs C σ blk).par w = blk w.qc.hash := by rw [sysAbs_par, if_neg hne, hpar]
  refine ⟨hne, (X.hca.2 i s hs).2 w id hm, by omega, hp, hgc, hvl, ?_⟩
  obtain ⟨hcur, _, _⟩ := sys_extended_invariant k C σ X.hr i s hs
  have hver : verifyQC (env k (C.rcfg i) s) w.qc = true := hcur.2 w id hm
  rw [hp]
  rcases verifyQC_blockView k _ s w.qc hver with ⟨hg, hz⟩ | ⟨b, hb, hbv⟩
  · rw [hg, X.hca.1, hz]; rfl
  · rw [← (X.stored hs hb).1]; exact hbv

theorem FCtx.cert_voter {b : Block} (h : Certified (SysAbs C σ blk) b) :
    ∃ i s id, σ.reps.lookup i = some s ∧ GRec.vote b id ∈ s.ghost := by
  obtain ⟨Q, hQ, hv⟩ := h
  obtain ⟨r, hr, _, hh⟩ := sys_inter C σ blk X.hn X.hf Q Q hQ hQ
  obtain ⟨s, id, hs, hm⟩ := hv r hr hh
  exact ⟨r, s, id, hs, hm⟩

theorem FCtx.cert {b : Block} (h : Certified (SysAbs C σ blk) b) : FVoted C σ blk b := by
  obtain ⟨i, s, id, hs, hm⟩ := X.cert_voter h
  exact X.voted hs hm

/-- **`lockjust`**: the QC views of the votes of an honest Fast-HotStuff replica never go down, in the
vocabulary of the abstract system -/
theorem FCtx.lockjust : ∀ r x w, (SysAbs C σ blk).honest r → (SysAbs C σ blk).voted r x → (SysAbs C σ blk).voted r w →
    (SysAbs C σ blk).view x < (SysAbs C σ blk).view w →
    (SysAbs C σ blk).view ((SysAbs C σ blk).par x) ≤ (SysAbs C σ blk).view ((SysAbs C σ blk).par w) := by
  intro r x w _ ⟨s, idx, hs, hx⟩ ⟨s', id, hs', hw⟩ hlt
  have : s' = s := by
    have : some s' = some s := by rw [← hs, ← hs']
    cases this; rfl
  subst this
  obtain ⟨pre, post, he⟩ := List.append_of_mem hw
  obtain ⟨h3, hq⟩ := C01FastLock.sys_qcmono k C σ X.hr r s' hs
  have hxpre := ghost_before k _ s' h3 pre post x w idx id he hx hlt
  have hord : QCOrd s'.ghost := hq X.hrl
  unfold QCOrd at hord
  rw [he, List.pairwise_append] at hord
  have hle : x.qc.view ≤ w.qc.view := hord.2.2 _ hxpre (GRec.vote w id) (by simp) x.qc.view w.qc.view rfl rfl
  show Block.view ((SysAbs C σ blk).par x) ≤ Block.view ((SysAbs C σ blk).par w)
  rw [(X.voted hs hx).qcv, (X.voted hs hw).qcv]; exact hle

/-- **the system of Fast-HotStuff replica models keeps the discipline of the abstract argument** -/
theorem FCtx.discipline : FastDiscipline (SysAbs C σ blk) :=
  { gen_view := (sys_gen C σ blk).1, par_gen := (sys_gen C σ blk).2,
    inter := sys_inter C σ blk X.hn X.hf,
    one_per_view := sys_one_per_view k C X.hk σ X.hr blk,
    wf := sys_wf k C X.hk σ X.hr X.hsch blk X.hca,
    lockjust := X.lockjust }

/-- two certificate links down from a voted block, through stored blocks, direct parents with consecutive
views, are a two-chain of the abstract system: the block stored under the voted block's QC hash is certified
(the voted block carries its QC), and its stored parent is its abstract parent -/
theorem FCtx.two {i : Nat} {s : RState} {x p g : Block} {id : Nat} (hs : σ.reps.lookup i = some s)
    (hm : GRec.vote x id ∈ s.ghost) (h1 : sget s x.qc.hash = some p) (h2 : sget s p.qc.hash = some g)
    (hp : p.parent = g.hash) (v : p.view = g.view + 1) : TwoChain (S := SysAbs C σ blk) g p := by
  have V := X.voted hs hm
  have e1 : p = (SysAbs C σ blk).par x := by rw [V.par]; exact (X.stored hs h1).1
  have hne : p ≠ genesisBlock := by
    intro e; rw [e] at v; exact absurd v (by show (0 : Nat) ≠ _; omega)
  have hc : Certified (SysAbs C σ blk) p := by
    rcases (e1 ▸ V.gc : GC (SysAbs C σ blk) p) with h | h
    · exact absurd h hne
    · exact h
  refine ⟨?_, v, hc⟩
  rw [sysAbs_par, if_neg hne, hp]
  exact (X.stored_known hs h2).symm

theorem FCtx.commit_chain {i : Nat} {s : RState} {x g : Block} {id : Nat} (hs : σ.reps.lookup i = some s)
    (hm : GRec.vote x id ∈ s.ghost) (h : CommitChain (C.rcfg i) s x g) :
    ∃ p, TwoChain (S := SysAbs C σ blk) g p := by
  have hr : (C.rcfg i).rules = .fast := X.hrl
  simp only [CommitChain, hr] at h
  obtain ⟨p, _, l1, _, l2, _, _, hp, v⟩ := h
  exact ⟨p, X.two hs hm l1 l2 hp v⟩

/-- the committed block of a replica is genesis or the tail of a two-chain -/
theorem FCtx.committed {i : Nat} {s : RState} (hs : σ.reps.lookup i = some s) :
    s.committed = genesisBlock ∨ ∃ p, TwoChain (S := SysAbs C σ blk) s.committed p := by
  rcases reach_committedBy k C σ X.hr i s hs with h | ⟨x, id, hm, hcc⟩
  · exact Or.inl h
  · exact Or.inr (X.commit_chain hs hm hcc)

theorem FCtx.commits_agree {i j : Nat} {si sj : RState} (hi : σ.reps.lookup i = some si) (hj : σ.reps.lookup j = some sj) :
    Ext (SysAbs C σ blk) si.committed sj.committed ∨ Ext (SysAbs C σ blk) sj.committed si.committed := by
  have D := X.discipline
  rcases X.committed hi with hci | ⟨b1, Ti⟩
  · rcases X.committed hj with hcj | ⟨c1, Tj⟩
    · left; rw [hci, hcj]; exact Ext.refl _
    · right; rw [hci]; exact D.base.gc_ext_gen _ _ rfl (Tj.gc D)
  · rcases X.committed hj with hcj | ⟨c1, Tj⟩
    · left; rw [hcj]; exact D.base.gc_ext_gen _ _ rfl (Ti.gc D)
    · exact fast_committed_on_one_branch D Ti Tj

end
end HsVerif.FastSys

/-! ### ledgers (Fast-HotStuff copies of the `Ctx` lemmas of Proofs/SysLedger.lean) -/

namespace HsVerif.FastSys
open HsVerif.Model HsVerif.Props HsVerif.Props.C01Sys HsVerif.Props.C01SysWF HsVerif.Safety HsVerif.SysLedger

/-- genesis, or the tail of a two-chain of the abstract system: what a committed block is under
Fast-HotStuff -/
def FTip (C : SysCfg) (σ : SysState) (blk : Hash → Block) (x : Block) : Prop :=
  x = genesisBlock ∨ ∃ b1, TwoChain (S := SysAbs C σ blk) x b1

section
variable {k : Keys} {C : SysCfg} {σ : SysState} {blk : Hash → Block} (X : FCtx k C σ blk)
include X

theorem FCtx.tip_gc {x : Block} (h : FTip C σ blk x) : GC (SysAbs C σ blk) x := by
  rcases h with h | ⟨b1, T⟩
  · exact Or.inl h
  · exact T.gc X.discipline

/-- a committed block of higher view extends a committed block of lower view -/
theorem FCtx.tip_ext {t c : Block} (ht : FTip C σ blk t) (hc : FTip C σ blk c) (hv : c.view < t.view) :
    Ext (SysAbs C σ blk) t c := by
  have D := X.discipline
  rcases hc with rfl | ⟨c1, Tc⟩
  · exact D.base.gc_ext_gen _ _ rfl (X.tip_gc ht)
  · rcases ht with rfl | ⟨t1, Tt⟩
    · exact absurd hv (Nat.not_lt_zero _)
    · rcases fast_committed_on_one_branch D Tt Tc with h | ⟨n, hn⟩
      · exact h
      · have := (D.base.ext_le n c t (Tc.gc D) hn).2
        have hv' : Block.view c < Block.view t := hv
        exact absurd this (by show ¬ (Block.view t ≤ Block.view c); omega)

/-- a stored parent link out of a GC block of positive view is its abstract parent link -/
theorem FCtx.stored_par {i : Nat} {s : RState} {b p : Block} (hs : σ.reps.lookup i = some s)
    (hb : GC (SysAbs C σ blk) b) (hv : 0 < b.view) (hp : sget s b.parent = some p) :
    (SysAbs C σ blk).par b = p ∧ b = blk b.hash ∧ b.parent = p.hash ∧ p = blk p.hash ∧
      GC (SysAbs C σ blk) p ∧ p.view < b.view := by
  have hne : b ≠ genesisBlock := by
    intro e; rw [e] at hv; exact Nat.lt_irrefl _ hv
  have hc : Certified (SysAbs C σ blk) b := by
    rcases hb with h | h
    · exact absurd h hne
    · exact h
  have V := X.cert hc
  obtain ⟨h1, h2⟩ := X.stored hs hp
  have hpar : (SysAbs C σ blk).par b = p := by rw [sysAbs_par, if_neg hne]; exact h1.symm
  refine ⟨hpar, V.known, h2.symm, X.stored_known hs hp, hpar ▸ V.gc, hpar ▸ V.lt⟩

/-- a stored parent path down from a GC block, all of positive view, is a hash-linked chain above its anchor -/
theorem FCtx.path_chain {i : Nat} {s : RState} {a t : Block} {seg : List Block} (hs : σ.reps.lookup i = some s)
    (h : Path s a seg t) : GC (SysAbs C σ blk) t → (∀ x ∈ seg, 0 < x.view) →
    LChain blk a seg ∧ lastOr a seg = t := by
  induction h with
  | nil => intro _ _; exact ⟨trivial, rfl⟩
  | snoc seg p b _ hp ih =>
    intro hb hv
    obtain ⟨_, h2, h3, _, h5, h6⟩ := X.stored_par hs hb (hv b (by simp)) hp
    obtain ⟨i1, i2⟩ := ih h5 (fun x hx => hv x (List.mem_append_left _ hx))
    refine ⟨(lchain_append blk a seg [b]).mpr ⟨i1, ?_⟩, by rw [lastOr_append]; rfl⟩
    rw [i2]
    exact ⟨h3, h6, h2, trivial⟩

/-- **the anchor of a segment is the block committed before it** -/
theorem FCtx.path_anchor {i : Nat} {s : RState} {a t c1 : Block} {seg : List Block} (hs : σ.reps.lookup i = some s)
    (hc1 : GC (SysAbs C σ blk) c1) (h : Path s a seg t) : GC (SysAbs C σ blk) t → Ext (SysAbs C σ blk) t c1 →
    (∀ x ∈ seg, c1.view < x.view) → a.view ≤ c1.view → a = c1 := by
  have D := X.discipline
  induction h with
  | nil =>
    intro ha ⟨n, hn⟩ _ hv
    have := (D.base.ext_le n a c1 ha hn).2
    exact D.base.gc_unique ha hc1 (by show Block.view a = Block.view c1; exact Nat.le_antisymm hv this)
  | snoc seg p b _ hp ih =>
    intro hb ⟨n, hn⟩ hsv hv
    have hbv := hsv b (by simp)
    obtain ⟨h1, _, _, _, h5, _⟩ := X.stored_par hs hb (by omega) hp
    cases n with
    | zero => cases hn; exact absurd hbv (Nat.lt_irrefl _)
    | succ n =>
      have hn' : up (SysAbs C σ blk) n ((SysAbs C σ blk).par b) = c1 := hn
      rw [h1] at hn'
      exact ih h5 ⟨n, hn'⟩ (fun x hx => hsv x (List.mem_append_left _ hx)) hv

/-- **segments are hash-linked chains that continue the log** (Fast-HotStuff) -/
theorem FCtx.segs_chain {i : Nat} {s : RState} {vs : List GRec} {c0 t : Block} {l : List Block}
    (hs : σ.reps.lookup i = some s) (hsub : ∀ r, r ∈ vs → r ∈ s.ghost) (hc0 : FTip C σ blk c0)
    (h : Segs (C.rcfg i) s vs c0 l t) : LChain blk c0 l ∧ lastOr c0 l = t ∧ FTip C σ blk t := by
  induction h with
  | nil => exact ⟨trivial, rfl, hc0⟩
  | snoc l c1 a seg t _ hne hpath hav hsv hcc ih =>
    obtain ⟨i1, i2, i3⟩ := ih
    obtain ⟨x, id, hm, hch⟩ := hcc
    have ht : FTip C σ blk t := Or.inr (X.commit_chain hs (hsub _ hm) hch)
    have htv := hsv t (hpath.top_mem hne)
    have hext := X.tip_ext ht i3 htv
    have ha : a = c1 := X.path_anchor hs (X.tip_gc i3) hpath (X.tip_gc ht) hext hsv hav
    subst ha
    obtain ⟨p1, p2⟩ := X.path_chain hs hpath (X.tip_gc ht) (fun x hx => by have := hsv x hx; omega)
    refine ⟨(lchain_append blk c0 l seg).mpr ⟨i1, by rw [i2]; exact p1⟩, by rw [lastOr_append, i2]; exact p2, ht⟩

/-- one step of one replica keeps the ledger invariant -/
theorem FCtx.rep_ledger {i : Nat} {s s' : RState} {outs : List Out} {l : List Block} (hs' : σ.reps.lookup i = some s')
    (hlog : LogStep (C.rcfg i) s (queuedCommits s) s' outs) (hg : Grows s.chain.blocks s')
    (hcb : CommittedBy (C.rcfg i) s) (hout : s'.out = []) (hl : RepLedger blk l s) :
    RepLedger blk (l ++ commitsOf outs) s' := by
  obtain ⟨new, seg, hgh, hw, hq, hsegs⟩ := hlog
  have htip : FTip C σ blk s.committed := by
    rcases hcb with h | ⟨x, id, hm, hcc⟩
    · exact Or.inl h
    · exact Or.inr (X.commit_chain hs' (by rw [hgh]; exact List.mem_append_left _ hm)
        (commitChain_grows _ s s' x _ hg hcc))
  obtain ⟨c1, c2, _⟩ := X.segs_chain hs' (fun r hr => by rw [hgh]; exact List.mem_append_right _ hr) htip hsegs
  have hp : pending s = queuedCommits s := by simp [pending, outCommits, hl.out]
  have hp' : pending s' = queuedCommits s' := by simp [pending, outCommits, hout]
  have he : l ++ commitsOf outs ++ pending s' = (l ++ pending s) ++ seg := by
    rw [hp', hp, List.append_assoc, hq, List.append_assoc]
  refine ⟨hout, hw, ?_, ?_⟩
  · rw [he]; exact (lchain_append blk _ _ _).mpr ⟨hl.chain, by rw [hl.last]; exact c1⟩
  · rw [he, lastOr_append, hl.last]; exact c2

end

/-- **`CA` is downward closed along a run** -/
theorem ca_back (k : Keys) (C : SysCfg) (σ : SysState) (a : SysAct) (blk : Hash → Block)
    (h : CA (sysStep k C σ a) blk) : CA σ blk := by
  refine ⟨h.1, ?_⟩
  intro i s hs
  obtain ⟨s', hs', hg, new, hnew⟩ := sysStep_rep_grows k C σ a i s hs
  obtain ⟨h1, h2⟩ := h.2 i s' hs'
  exact ⟨fun x b hb => h1 x b (hg x b hb), fun b id hm => h2 b id (by rw [hnew]; exact List.mem_append_left _ hm)⟩

theorem ca_back_run (k : Keys) (C : SysCfg) (blk : Hash → Block) (acts more : List SysAct)
    (h : CA (sysRun k C (acts ++ more)) blk) : CA (sysRun k C acts) blk := by
  revert h
  refine snoc_induction (fun more => CA (sysRun k C (acts ++ more)) blk → CA (sysRun k C acts) blk) ?_ ?_ more
  · intro h; simpa using h
  · intro more a ih h
    apply ih
    rw [← List.append_assoc, sysRun_snoc] at h
    exact ca_back k C _ a blk h

/-- `SysState.run` with a step function that satisfies the log invariant keeps the ledger invariant -/
theorem run_ledger {k : Keys} {C : SysCfg} {σ : SysState} {blk : Hash → Block} (i : Nat)
    (f : RState → RState × List Out) (X : FCtx k C (σ.run i f) blk) (hr : Reach k C σ)
    (hf : ∀ sx : RState, waitCommits sx = [] →
      LogStep (C.rcfg i) sx (queuedCommits sx) (f sx).1 (f sx).2 ∧ Grows sx.chain.blocks (f sx).1 ∧ (f sx).1.out = [])
    (L : Nat → List Block) (h : LedgerInv blk σ L) :
    LedgerInv blk (σ.run i f)
      (match (σ.reps.lookup i).map (fun s => (i, (f { s with truth := σ.truth, nextBytes := σ.nextBytes }).2)) with
        | some (i, outs) => fun j => if j = i then L j ++ commitsOf outs else L j
        | none => L) := by
  cases hl : σ.reps.lookup i with
  | none =>
    have : σ.run i f = σ := by unfold SysState.run; rw [hl]
    rw [this]; exact h
  | some s =>
    have hrun : σ.run i f = ({ reps := setKV i (f { s with truth := σ.truth, nextBytes := σ.nextBytes }).1 σ.reps
                               truth := (f { s with truth := σ.truth, nextBytes := σ.nextBytes }).1.truth
                               nextBytes := (f { s with truth := σ.truth, nextBytes := σ.nextBytes }).1.nextBytes } : SysState) := by
      unfold SysState.run; rw [hl]
    simp only [Option.map_some]
    intro j sj hj
    by_cases hji : j = i
    · subst hji
      have hlk : (σ.run j f).reps.lookup j = some (f { s with truth := σ.truth, nextBytes := σ.nextBytes }).1 := by
        rw [hrun]; exact lookup_setKV_self _ _ _
      have : sj = (f { s with truth := σ.truth, nextBytes := σ.nextBytes }).1 := by
        have : some sj = some (f { s with truth := σ.truth, nextBytes := σ.nextBytes }).1 := by rw [← hj, ← hlk]
        cases this; rfl
      subst this
      simp only [if_true]
      have hls := repLedger_ext blk _ s σ.truth σ.nextBytes (h j s hl)
      obtain ⟨h1, h2, h3⟩ := hf { s with truth := σ.truth, nextBytes := σ.nextBytes } hls.wait
      have hcb : CommittedBy (C.rcfg j) { s with truth := σ.truth, nextBytes := σ.nextBytes } :=
        committedBy_congr _ s _ rfl rfl rfl (reach_committedBy k C σ hr j s hl)
      exact X.rep_ledger hlk h1 h2 hcb h3 hls
    · simp only [if_neg hji]
      have : σ.reps.lookup j = some sj := by
        rw [hrun] at hj
        simpa only [lookup_setKV_ne _ _ _ _ hji] using hj
      exact h j sj this

/-- **one action keeps the ledger invariant** (Fast-HotStuff), the standing hypotheses being assumed of the
state AFTER the action; the action is not the delivery of a commit event -/
theorem sysStepL_inv {k : Keys} {C : SysCfg} {σ : SysState} {blk : Hash → Block} (a : SysAct)
    (X : FCtx k C (sysStep k C σ a) blk) (hr : Reach k C σ) (ha : a.noCommit = true)
    (L : Nat → List Block) (h : LedgerInv blk σ L) :
    LedgerInv blk (sysStep k C σ a) (sysStepL k C (σ, L) a).2 := by
  cases a with
  | start i =>
    exact run_ledger i (start k (C.rcfg i)) X hr
      (fun sx hw => ⟨start_log k _ sx hw, start_grows k _ sx, start_out_nil k _ sx⟩) L h
  | deliver i e =>
    refine run_ledger i (fun s => step k (C.rcfg i) s e) X hr (fun sx hw => ⟨?_, step_grows k _ sx e, step_out_nil k _ sx e⟩) L h
    have := step_log k (C.rcfg i) sx e hw
    rw [noCommit_deliver i e ha, List.append_nil] at this
    exact this
  | fetchable i l =>
    show LedgerInv blk (sysStep k C σ (.fetchable i l)) L
    simp only [sysStep]
    split
    · exact h
    · rename_i s hl
      intro j sj hj
      by_cases hji : j = i
      · subst hji
        simp only [lookup_setKV_self] at hj
        cases hj
        have := h j s hl
        exact ⟨this.out, this.wait, this.chain, this.last⟩
      · simp only [lookup_setKV_ne _ _ _ _ hji] at hj
        exact h j sj hj
  | forge a =>
    show LedgerInv blk (sysStep k C σ (.forge a)) L
    simp only [sysStep]
    split
    · exact h
    · exact h

/-- **the ledger invariant holds along every Fast-HotStuff run without injected commit events**, `CA` being
assumed of the FINAL state only -/
theorem sysRunL_inv_fast (k : Keys) (C : SysCfg) (hk : KeysOK k) (hn : 1 ≤ C.n) (hf : FewFaulty C)
    (hsch : C.scheme ≠ .bls12) (hrl : C.rules = .fast) (blk : Hash → Block) (acts : List SysAct) :
    (∀ a ∈ acts, a.noCommit = true) → CA (sysRun k C acts) blk →
    LedgerInv blk (sysRun k C acts) (sysRunL k C acts).2 := by
  refine snoc_induction (fun acts => (∀ a ∈ acts, a.noCommit = true) → CA (sysRun k C acts) blk →
    LedgerInv blk (sysRun k C acts) (sysRunL k C acts).2) ?_ ?_ acts
  · intro _ _; exact ledgerInv_init k C blk
  · intro l a ih hacts hca
    have hca' : CA (sysRun k C l) blk := ca_back_run k C blk l [a] hca
    have I := ih (fun x hx => hacts x (List.mem_append_left _ hx)) hca'
    rw [sysRun_snoc] at hca ⊢
    have X : FCtx k C (sysStep k C (sysRun k C l) a) blk :=
      ⟨hk, .step _ a (reach_run k C l), hn, hf, hsch, hrl, hca⟩
    have := sysStepL_inv a X (reach_run k C l) (hacts a (by simp)) _ I
    rw [sysRunL_snoc]
    have e : sysRunL k C l = (sysRun k C l, (sysRunL k C l).2) := by rw [← sysRunL_fst]
    rw [e]; exact this

end HsVerif.FastSys
