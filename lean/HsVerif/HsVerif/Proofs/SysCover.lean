import HsVerif.Proofs.SysSafety
import HsVerif.Proofs.ReplicaInert
import HsVerif.Proofs.SysRecovery
/-!
C05, Stage 3, task S11: THE HIGH QC COVERS THE VOTES, and with it the hypothesis `cover` of the recovery
theorem (`RecSetup.cover`, Proofs/SysRecovery.lean) follows from reachability.  Helpers; the property
theorems are in Props/C05Cover.lean.

Replica level.
* `Dead k c q s`: the certificate `q` is rejected by the pure verifier in `s` and in every state that
  differs from `s` by fetched blocks only (same signature table, grown block map, and a hash that is
  neither stored nor fetchable stays so).  `verifyQCM_dead_new`: that is what `verifyQCM` leaves behind
  when it answers `false` (it has tried to fetch the block); `dead_frame`: kept by everything that only
  fetches (`NC` frames of ReplicaInert, `_gr` of ReplicaStore, `_ab` of ReplicaLockInv; new: `extendsM_ab`,
  `voteRule_ab`); `verifyQCM_dead` / `verifyAnyM_dead` / `voterVerify_dead`: a `Dead` certificate is
  rejected again.  WHY: `onPropose` hands the proposal's certificate to `advanceView` (`UpdateHighQC`) and
  only then runs `voterVerify`, each with its own verification; `advanceView`'s `return` on a rejected
  certificate leaves `advanceView` only, so "the replica voted, hence the certificate had updated the high
  QC" needs: rejected in `advanceView` ⇒ rejected in `voterVerify` (only fetches happen in between).
* `HCov s`: for every vote record `.vote b id` of the ghost history, `b.qc.view ≤ s.highQC.view` — stated
  on the VIEW FIELD of the certificates: `UpdateHighQC` compares the view of the STORED block of the new
  certificate with the view field of the current high QC, and the two agree for a verified certificate
  (`verifyQC_blockView`; genesis must be stored for the genesis certificate: `Grows G0`).  `HC = HCov ∧
  Grows G0`; `HCw w` adds `w ≤ highQC.view` (the parameter that carries "the certificate of the block
  about to be voted for is covered" through the frames).  Chain `_hc` through all handlers:
  `advanceView_hc` (any sync info), `advanceView_only` / `advanceView_prop` (a sync info that carries only
  `q`: afterwards `q.view ≤ highQC.view`, or `q` is `Dead`), `voterVerify_prop`, `onPropose_hc`, …,
  `step_hc`, `start_hc`.
System level.
* `reach_hc`: every replica of every reachable state satisfies `HC` (lifted like `reach_safe`).
* `Ctx.accepted_gc`, `Ctx.lock_cover`, `Ctx.top_ge_lock`, `Ctx.cover` (namespace `HsVerif.SysSafety`): under the standing
  hypotheses `Ctx` and with all `n` replicas honest, the lock of a replica is genesis, or the voters of
  its certified child — a quorum — have high QCs at least as new as the lock; hence (`top_covers`) the
  block of the highest high QC of any quorum has view `≥` the lock's, and if equal it IS the lock
  (`Ctx.gc_unique`); hence `RuleReady` (given that the block under the `Top` block is stored: `hpar`).
Technique: specs with a numeric parameter (`HCw w`) are handed to `mvcgen` INSTANTIATED (`have h := spec k c w`),
otherwise `mvcgen` unifies the parameter with whatever comes first; state-dependent bounds are turned into
the static parameter in run form (`createAndPropose_hc'`, `onValidPropose_hc'`: apply the spec at
`max w q.view`, then weaken); `addEvent` / `emit` are unfolded where the high QC of a later state has to
be related to that of an earlier one; the finisher `hc_finish` keeps `HCw` opaque and reduces a goal about
a record update to `hcw_congr` (ghost votes, high-QC view, block map).
-/
open Std.Do
set_option mvcgen.warning false
set_option linter.unusedSimpArgs false
set_option linter.unusedVariables false
namespace HsVerif.Model
open HsVerif.Proofs

/-! ## a certificate that has been rejected stays rejected for the rest of the handler -/

/-- `q` is rejected in `s` and in every state that differs from `s` by fetched blocks only: same
signature table, a grown block map, and if `q`'s block is neither stored nor fetchable it stays so -/
def Dead (k : Keys) (c : RCfg) (q : QC) (s : RState) : Prop :=
  ∀ s' : RState, s'.truth = s.truth → Grows s.chain.blocks s' → (Absent q.hash s → Absent q.hash s') →
    verifyQC (env k c s') q = false

theorem dead_now (k : Keys) (c : RCfg) (q : QC) (s : RState) (h : Dead k c q s) : verifyQC (env k c s) q = false :=
  h s rfl (fun _ _ h => h) (fun h => h)

theorem dead_mono (k : Keys) (c : RCfg) (q : QC) (s s1 : RState) (ht : s1.truth = s.truth)
    (hg : Grows s.chain.blocks s1) (ha : Absent q.hash s → Absent q.hash s1) (h : Dead k c q s) : Dead k c q s1 := by
  intro s' ht' hg' ha'
  exact h s' (ht'.trans ht) (grows_trans hg hg') (fun h0 => ha' (ha h0))

/-- anything that changes the block store only (by fetching) keeps a rejected certificate rejected -/
theorem dead_frame {α} (k : Keys) (c : RCfg) (q : QC) (f : M α)
    (hnc : ∀ s0, ⦃fun s => ⌜NC s = NC s0⌝⦄ f ⦃⇓ _ s => ⌜NC s = NC s0⌝⦄)
    (hgr : ∀ x, ⦃fun s => ⌜Grows x s⌝⦄ f ⦃⇓ _ s => ⌜Grows x s⌝⦄)
    (hab : ∀ x, ⦃fun s => ⌜Absent x s⌝⦄ f ⦃⇓ _ s => ⌜Absent x s⌝⦄) :
    ⦃fun s => ⌜Dead k c q s⌝⦄ f ⦃⇓ _ s => ⌜Dead k c q s⌝⦄ := by
  apply triple_of_run
  intro s hd
  have h1 := run_res_of_triple f _ _ (hnc s) s rfl
  exact dead_mono k c q s _ (nc_truth h1) (grows_run f hgr s)
    (fun ha => run_res_of_triple f _ _ (hab q.hash) s ha) hd

theorem verifyQC_false_of_lookup_none (k : Keys) (c : RCfg) (q : QC) (s : RState) (hg : q.hash ≠ genesisHash)
    (h : s.chain.blocks.lookup q.hash = none) : verifyQC (env k c s) q = false := by
  unfold verifyQC
  have : (q.hash == genesisHash) = false := by simpa using hg
  rw [this]
  simp only [Bool.false_eq_true, ↓reduceIte]
  split
  · rfl
  · split
    · rfl
    · simp [CertEnv.get, env, h]

/-- the pure verifier depends on the table and on the block stored under the certified hash only -/
theorem verifyQC_congr (k : Keys) (c : RCfg) (q : QC) (s s' : RState) (ht : s'.truth = s.truth)
    (hl : s'.chain.blocks.lookup q.hash = s.chain.blocks.lookup q.hash) :
    verifyQC (env k c s') q = verifyQC (env k c s) q := by
  unfold verifyQC
  simp only [CertEnv.get, env, ht, hl]
  rfl

/-- a certificate rejected in a state in which its block is stored, or is neither stored nor
fetchable, or whose rejection does not depend on the store, is `Dead` -/
theorem dead_of_false (k : Keys) (c : RCfg) (q : QC) (s : RState) (hv : verifyQC (env k c s) q = false)
    (hs : q.hash = genesisHash ∨ (∃ b, s.chain.blocks.lookup q.hash = some b) ∨ Absent q.hash s ∨
      q.sig = none ∨ ∃ sg, q.sig = some sg ∧ sg.len < c.cfg.quorum) : Dead k c q s := by
  intro s' ht hg ha
  rcases hs with h | ⟨b, hb⟩ | h | h | ⟨sg, h1, h2⟩
  · rw [← hv]; unfold verifyQC; simp [h]
  · rw [← hv]; exact verifyQC_congr k c q s s' ht (by rw [hb, hg _ _ hb])
  · by_cases hgen : q.hash = genesisHash
    · rw [← hv]; unfold verifyQC; simp [hgen]
    · exact verifyQC_false_of_lookup_none k c q s' hgen (ha h).1
  · unfold verifyQC at hv ⊢; simp only [h] at hv ⊢; exact hv
  · unfold verifyQC at hv ⊢
    simp only [h1] at hv ⊢
    have : sg.len < (env k c s').cfg.quorum := h2
    have h2' : sg.len < (env k c s).cfg.quorum := h2
    simp only [this, h2', ↓reduceIte] at hv ⊢
    exact hv

theorem get_stored_or_absent (c : RChain) (h : Hash) :
    (∃ b, (c.get h).1.blocks.lookup h = some b) ∨ ChainAbsent h (c.get h).1 := by
  cases hr : (c.get h).2 with
  | some b => exact Or.inl ⟨b, get_snd_some c h b hr⟩
  | none => exact Or.inr (get_snd_none c h hr)

/-- what `verifyQCM` leaves behind when it says no -/
theorem verifyQCM_dead_new (k : Keys) (c : RCfg) (q : QC) :
    ⦃fun _ => ⌜True⌝⦄ verifyQCM k c q ⦃⇓ r s => ⌜r = false → Dead k c q s⌝⦄ := by
  mvcgen [verifyQCM, fetchFor, getBlock]
  all_goals (try intros)
  · rename_i s hv
    refine dead_of_false k c q _ hv (Or.inr ?_)
    rcases get_stored_or_absent s.chain q.hash with h | h
    · exact Or.inl h
    · exact Or.inr (Or.inl h)
  · rename_i sg hsg hlen s hv
    exact dead_of_false k c q _ hv (Or.inr (Or.inr (Or.inr (Or.inr ⟨sg, hsg, by simpa using hlen⟩))))
  · rename_i hsg s hv
    exact dead_of_false k c q _ hv (Or.inr (Or.inr (Or.inr (Or.inl hsg))))
  · rename_i hg s hv
    exact dead_of_false k c q _ hv (Or.inl (by simpa using hg))

theorem extendsM_ab (b t : Block) (x : Hash) :
    ⦃fun s => ⌜Absent x s⌝⦄ extendsM b t ⦃⇓ _ s => ⌜Absent x s⌝⦄ := by
  mvcgen [extendsM]
  all_goals (try intros)
  all_goals (try simp +zetaDelta [Absent] at *)
  all_goals (first | (apply chainAbsent_extends; assumption) | skip)

theorem voteRule_ab (c : RCfg) (v : Nat) (b : Block) (agg : Option AggQC) (x : Hash) :
    ⦃fun s => ⌜Absent x s⌝⦄ voteRule c v b agg ⦃⇓ _ s => ⌜Absent x s⌝⦄ := by
  mvcgen [voteRule, getBlock_ab, extendsM_ab]

theorem verifyQCM_nc' (k : Keys) (c : RCfg) (q : QC) (s0 : RState) :
    ⦃fun s => ⌜NC s = NC s0⌝⦄ verifyQCM k c q ⦃⇓ _ s => ⌜NC s = NC s0⌝⦄ := by
  apply triple_of_run
  intro s hs
  exact (run_res_of_triple _ _ _ (verifyQCM_nc s0 k c q) s hs).1

theorem verifyAggM_nc' (k : Keys) (c : RCfg) (a : AggQC) (s0 : RState) :
    ⦃fun s => ⌜NC s = NC s0⌝⦄ verifyAggM k c a ⦃⇓ _ s => ⌜NC s = NC s0⌝⦄ := by
  apply triple_of_run
  intro s hs
  exact (run_res_of_triple _ _ _ (verifyAggM_nc s0 k c a) s hs).1

section DeadChain
variable (k : Keys) (c : RCfg) (q : QC)

theorem voteRule_dead (v : Nat) (b : Block) (agg : Option AggQC) :
    ⦃fun s => ⌜Dead k c q s⌝⦄ voteRule c v b agg ⦃⇓ _ s => ⌜Dead k c q s⌝⦄ :=
  dead_frame k c q _ (fun s0 => voteRule_nc s0 c v b agg) (voteRule_gr c v b agg) (voteRule_ab c v b agg)

theorem verifyAggM_dead (a : AggQC) :
    ⦃fun s => ⌜Dead k c q s⌝⦄ verifyAggM k c a ⦃⇓ _ s => ⌜Dead k c q s⌝⦄ :=
  dead_frame k c q _ (verifyAggM_nc' k c a) (verifyAggM_gr k c a) (verifyAggM_ab k c a)

/-- a `Dead` certificate is rejected by the monadic verifier -/
theorem verifyQCM_dead :
    ⦃fun s => ⌜Dead k c q s⌝⦄ verifyQCM k c q ⦃⇓ r _ => ⌜r = false⌝⦄ := by
  apply triple_of_run
  intro s hd
  have h1 := run_res_of_triple _ _ _ (dead_frame k c q _ (verifyQCM_nc' k c q) (verifyQCM_gr k c q) (verifyQCM_ab k c q)) s hd
  have h2 := run_res_of_triple _ (fun _ => True) _ (verifyQCM_res k c q) s trivial
  cases hr : ((verifyQCM k c q).run s).1 with
  | false => rfl
  | true => rw [dead_now k c q _ h1] at h2; exact absurd (h2 hr) (by simp)

theorem verifyAnyM_dead (agg : Option AggQC) :
    ⦃fun s => ⌜Dead k c q s⌝⦄ verifyAnyM k c q agg ⦃⇓ r _ => ⌜r ≠ .ok ()⌝⦄ := by
  mvcgen [verifyAnyM, verifyAggM_dead, verifyQCM_dead]
  all_goals simp_all

theorem voterVerify_dead (id : Nat) (b : Block) (agg : Option AggQC) :
    ⦃fun s => ⌜Dead k c b.qc s⌝⦄ voterVerify k c id b agg ⦃⇓ r _ => ⌜r ≠ .ok ()⌝⦄ := by
  mvcgen [voterVerify, voteRule_dead, verifyAnyM_dead]
  all_goals simp_all

end DeadChain



/-- **the high QC covers the votes**: the certificate of every block voted for is not newer than the high QC -/
def HCov (s : RState) : Prop := ∀ b id, GRec.vote b id ∈ s.ghost → b.qc.view ≤ s.highQC.view

/-- `HCov`, genesis is stored, and the high QC has view at least `w` -/
def HCw (w : Nat) (s : RState) : Prop := (HCov s ∧ Grows G0 s) ∧ w ≤ s.highQC.view

theorem hcw_weaken {w w' : Nat} {s : RState} (h : HCw w s) (hw : w' ≤ w) : HCw w' s := ⟨h.1, Nat.le_trans hw h.2⟩

/-- `HCw` reads the vote records, the view of the high QC and the block map only -/
theorem hcw_congr {w : Nat} {s s' : RState} (hg : ∀ b id, GRec.vote b id ∈ s'.ghost → GRec.vote b id ∈ s.ghost)
    (hq : s.highQC.view ≤ s'.highQC.view) (hc : Grows s.chain.blocks s') (h : HCw w s) : HCw w s' :=
  ⟨⟨fun b id hm => Nat.le_trans (h.1.1 b id (hg b id hm)) hq, grows_trans h.1.2 hc⟩, Nat.le_trans h.2 hq⟩

theorem highQC_of_ap {α} (f : M α) (hap : ∀ x, ⦃fun s => ⌜AP s = x⌝⦄ f ⦃⇓ _ s => ⌜AP s = x⌝⦄) (s : RState) :
    (f.run s).2.highQC = s.highQC := by
  have a := run_res_of_triple f (fun s' => AP s' = AP s) (fun _ s' => AP s' = AP s) (hap (AP s)) s rfl
  have := congrArg (fun x => x.2.2) a
  simpa [AP] using this

theorem hcw_frame {α} (f : M α)
    (hvs : ∀ x, ⦃fun s => ⌜VS s = x⌝⦄ f ⦃⇓ _ s => ⌜VS s = x⌝⦄)
    (hap : ∀ x, ⦃fun s => ⌜AP s = x⌝⦄ f ⦃⇓ _ s => ⌜AP s = x⌝⦄)
    (hgr : ∀ x, ⦃fun s => ⌜Grows x s⌝⦄ f ⦃⇓ _ s => ⌜Grows x s⌝⦄) (w : Nat) :
    ⦃fun s => ⌜HCw w s⌝⦄ f ⦃⇓ _ s => ⌜HCw w s⌝⦄ := by
  apply triple_of_run
  intro s h
  refine hcw_congr ?_ ?_ (grows_run f hgr s) h
  · intro b id hm; rw [ghost_of_vs f hvs s] at hm; exact hm
  · rw [highQC_of_ap f hap s]; exact Nat.le_refl _

section HCLeaves
variable (k : Keys) (c : RCfg) (w : Nat)
theorem emit_hc (o : Out) : ⦃fun s => ⌜HCw w s⌝⦄ emit o ⦃⇓ _ s => ⌜HCw w s⌝⦄ :=
  hcw_frame _ (emit_frame o) (emit_ap o) (emit_gr o) w
theorem addEvent_hc (e : Ev) : ⦃fun s => ⌜HCw w s⌝⦄ addEvent e ⦃⇓ _ s => ⌜HCw w s⌝⦄ :=
  hcw_frame _ (addEvent_frame e) (addEvent_ap e) (addEvent_gr e) w
theorem getBlock_hc (h : Hash) : ⦃fun s => ⌜HCw w s⌝⦄ getBlock h ⦃⇓ _ s => ⌜HCw w s⌝⦄ :=
  hcw_frame _ (getBlock_frame h) (getBlock_ap h) (getBlock_gr h) w
theorem signMsg_hc (m : Msg) : ⦃fun s => ⌜HCw w s⌝⦄ signMsg c m ⦃⇓ _ s => ⌜HCw w s⌝⦄ :=
  hcw_frame _ (signMsg_frame c m) (signMsg_ap c m) (signMsg_gr c m) w
theorem tryCommit_hc (b : Block) : ⦃fun s => ⌜HCw w s⌝⦄ tryCommit c b ⦃⇓ _ s => ⌜HCw w s⌝⦄ :=
  hcw_frame _ (tryCommit_frame c b) (tryCommit_ap c b) (tryCommit_gr c b) w
theorem aggregateVote_hc (b : Block) (sg : Sig) : ⦃fun s => ⌜HCw w s⌝⦄ aggregateVote k c b sg ⦃⇓ _ s => ⌜HCw w s⌝⦄ :=
  hcw_frame _ (aggregateVote_frame k c b sg) (aggregateVote_ap k c b sg) (aggregateVote_gr k c b sg) w
theorem markProposed_hc (fuel : Nat) (b : Block) : ⦃fun s => ⌜HCw w s⌝⦄ markProposed fuel b ⦃⇓ _ s => ⌜HCw w s⌝⦄ :=
  hcw_frame _ (markProposed_frame fuel b) (markProposed_ap fuel b) (markProposed_gr fuel b) w
theorem collectVote_hc (id : Nat) (sig : Option Sig) (h : Hash) (d : Bool) :
    ⦃fun s => ⌜HCw w s⌝⦄ collectVote k c id sig h d ⦃⇓ _ s => ⌜HCw w s⌝⦄ :=
  hcw_frame _ (collectVote_frame k c id sig h d) (collectVote_ap k c id sig h d) (collectVote_gr k c id sig h d) w
theorem voterVerify_hc (id : Nat) (b : Block) (agg : Option AggQC) :
    ⦃fun s => ⌜HCw w s⌝⦄ voterVerify k c id b agg ⦃⇓ _ s => ⌜HCw w s⌝⦄ :=
  hcw_frame _ (voterVerify_vs k c id b agg) (voterVerify_ap k c id b agg) (voterVerify_gr k c id b agg) w
theorem verifySyncInfo_hc0 (si : SyncInfo) :
    ⦃fun s => ⌜HCw w s⌝⦄ verifySyncInfo k c si ⦃⇓ _ s => ⌜HCw w s⌝⦄ :=
  hcw_frame _ (verifySyncInfo_frame k c si) (verifySyncInfo_ap k c si) (verifySyncInfo_gr k c si) w

/-- a vote for a block whose certificate is covered keeps the invariant -/
theorem voteFor_hc (b : Block) (id : Nat) :
    ⦃fun s => ⌜HCw w s ∧ b.qc.view ≤ w⌝⦄ voteFor c b id ⦃⇓ _ s => ⌜HCw w s⌝⦄ := by
  apply triple_of_run
  intro s ⟨h, hb⟩
  have hvs := run_res_of_triple _ _ _ (voteFor_vs c b id s.ghost s.lastVoted) s rfl
  have hg : ((voteFor c b id).run s).2.ghost = s.ghost ++ [.vote b id] := by
    have := congrArg (fun x => x.1) hvs
    simpa [VS] using this
  have hq := highQC_of_ap _ (voteFor_ap c b id) s
  have hgr := grows_run _ (voteFor_gr c b id) s
  refine ⟨⟨?_, grows_trans h.1.2 hgr⟩, by rw [hq]; exact h.2⟩
  intro b' id' hm
  rw [hg] at hm
  rw [hq]
  simp only [List.mem_append, List.mem_singleton] at hm
  rcases hm with hm | hm
  · exact h.1.1 b' id' hm
  · cases hm; exact Nat.le_trans hb h.2

theorem onValidPropose_hc (id : Nat) (b : Block) :
    ⦃fun s => ⌜HCw w s ∧ b.qc.view ≤ w⌝⦄ onValidPropose k c id b ⦃⇓ _ s => ⌜HCw w s⌝⦄ := by
  have h1 := tryCommit_hc c w
  have h2 := voteFor_hc c w
  have h3 := aggregateVote_hc k c w
  mvcgen [onValidPropose, h1, h2, h3]
  all_goals simp_all

/-- fields that `HCw` does not read -/
theorem hcw_update (s : RState) (q : QC) (nb : Block) (hnb : nb.view = q.view) (h : HCw w s) :
    HCw w { s with highQC := if nb.view ≤ s.highQC.view then s.highQC else q } := by
  refine hcw_congr (s := s) (fun _ _ hm => hm) ?_ (fun _ _ h => h) h
  show s.highQC.view ≤ (if nb.view ≤ s.highQC.view then s.highQC else q).view
  split <;> omega

theorem hcw_update' (s : RState) (q : QC) (val : Block)
    (h : HCw w s ∧ ∀ nb : Block, some val = some nb → nb.view = q.view) :
    HCw w { s with highQC := if val.view ≤ s.highQC.view then s.highQC else q } :=
  hcw_update w s q val (h.2 val rfl) h.1

macro "hc_side" : tactic => `(tactic| (
  first
    | exact (fun _ _ hm => hm)
    | exact Nat.le_refl _
    | (intro b id hm; simpa +zetaDelta using hm)
    | (simp +zetaDelta; done)))

macro "hc_core" : tactic => `(tactic| (
  first
    | assumption
    | exact And.left (by assumption)
    | (refine hcw_congr ?_ ?_ ?_ (And.left (by assumption)) <;> hc_side)
    | (refine hcw_congr ?_ ?_ ?_ (by assumption) <;> hc_side)
    | exact hcw_update' _ _ _ _ (by assumption)
    | (refine hcw_congr ?_ ?_ ?_ (hcw_update' _ _ _ _ (by assumption)) <;> hc_side)))

/-- closes the verification conditions of the `HCw` chain -/
macro "hc_finish" : tactic => `(tactic| (
  (try intros)
  (first
    | done
    | hc_core
    | (refine ⟨by hc_core, ?_⟩; (try intros); first | (simp_all +zetaDelta [QCBlockView]; done) | skip)
    | (simp_all +zetaDelta; done)
    | skip)))

theorem createAndPropose_hc (si : SyncInfo) (hsi : ∀ qc, si.qc = some qc → qc.view ≤ w) :
    ⦃fun s => ⌜HCw w s⌝⦄ createAndPropose k c si ⦃⇓ _ s => ⌜HCw w s⌝⦄ := by
  have h1 := getBlock_hc w
  have h2 := markProposed_hc w
  have h3 := voterVerify_hc k c w
  have h4 := voteFor_hc c w
  have h5 := tryCommit_hc c w
  have h6 := emit_hc w
  have h7 := aggregateVote_hc k c w
  mvcgen [createAndPropose, h1, h2, h3, h4, h5, h6, h7]
  all_goals clear h1 h2 h3 h4 h5 h6 h7
  all_goals hc_finish

/-- the same with the certificate of the sync info bounded by the high QC of the state -/
theorem createAndPropose_hc' (si : SyncInfo) :
    ⦃fun s => ⌜HCw w s ∧ ∀ qc, si.qc = some qc → qc.view ≤ s.highQC.view⌝⦄ createAndPropose k c si
    ⦃⇓ _ s => ⌜HCw w s⌝⦄ := by
  apply triple_of_run
  intro s ⟨h, hq⟩
  cases hs : si.qc with
  | none =>
    exact run_res_of_triple _ _ _ (createAndPropose_hc k c w si (fun qc e => by rw [hs] at e; cases e)) s h
  | some q0 =>
    have h' : HCw (max w q0.view) s := ⟨h.1, Nat.max_le.mpr ⟨h.2, hq q0 hs⟩⟩
    have := run_res_of_triple _ _ _ (createAndPropose_hc k c (max w q0.view) si
      (fun qc e => by rw [hs] at e; cases e; exact Nat.le_max_right _ _)) s h'
    exact hcw_weaken this (Nat.le_max_left _ _)

theorem onValidPropose_hc' (id : Nat) (b : Block) :
    ⦃fun s => ⌜HCw w s ∧ b.qc.view ≤ s.highQC.view⌝⦄ onValidPropose k c id b ⦃⇓ _ s => ⌜HCw w s⌝⦄ := by
  apply triple_of_run
  intro s ⟨h, hq⟩
  have h' : HCw (max w b.qc.view) s := ⟨h.1, Nat.max_le.mpr ⟨h.2, hq⟩⟩
  have := run_res_of_triple _ _ _ (onValidPropose_hc k c (max w b.qc.view) id b) s ⟨h', Nat.le_max_right _ _⟩
  exact hcw_weaken this (Nat.le_max_left _ _)

/-- what `verifySyncInfo` says about the certificate it hands on -/
theorem verifySyncInfo_qc (si : SyncInfo) :
    ⦃fun _ => ⌜True⌝⦄ verifySyncInfo k c si ⦃⇓ r _ => ⌜∀ v t, r = .ok (none, v, t) → si.qc = none⌝⦄ := by
  have h1 : ∀ t, ⦃fun _ => ⌜True⌝⦄ verifyTCM k c t ⦃⇓ _ _ => ⌜True⌝⦄ := fun t => triple_of_run _ _ _ (fun _ _ => trivial)
  have h2 : ∀ a, ⦃fun _ => ⌜True⌝⦄ verifyAggM k c a ⦃⇓ _ _ => ⌜True⌝⦄ := fun t => triple_of_run _ _ _ (fun _ _ => trivial)
  have h3 : ∀ q, ⦃fun _ => ⌜True⌝⦄ verifyQCM k c q ⦃⇓ _ _ => ⌜True⌝⦄ := fun t => triple_of_run _ _ _ (fun _ _ => trivial)
  mvcgen [verifySyncInfo, h1, h2, h3]
  all_goals clear h1 h2 h3
  all_goals simp_all

/-- `verifySyncInfo` on a sync info that carries only the certificate `q`: rejected — and `q` stays
rejected —, or handed on -/
theorem verifySyncInfo_only (q : QC) :
    ⦃fun _ => ⌜True⌝⦄ verifySyncInfo k c { qc := some q }
    ⦃⇓ r s => ⌜(r = .reject ∧ Dead k c q s) ∨ ∃ v t, r = .ok (some q, v, t)⌝⦄ := by
  have h3 := verifyQCM_dead_new k c
  mvcgen [verifySyncInfo, h3]
  all_goals clear h3
  all_goals simp_all

/-- `getBlock` on the hash of a certificate that names a stored block of its view finds such a block -/
theorem getBlock_found (q : QC) (P : RState → Prop) (hP : ⦃fun s => ⌜P s⌝⦄ getBlock q.hash ⦃⇓ _ s => ⌜P s⌝⦄) :
    ⦃fun s => ⌜(P s ∧ Grows G0 s) ∧ QCBlockView q s⌝⦄ getBlock q.hash
    ⦃⇓ r s => ⌜(P s ∧ Grows G0 s) ∧ ∃ nb, r = some nb ∧ nb.view = q.view⌝⦄ := by
  apply triple_of_run
  intro s ⟨⟨hp, h2⟩, hq⟩
  have hl : ∃ b, s.chain.blocks.lookup q.hash = some b ∧ b.view = q.view := by
    rcases hq with ⟨hg, hz⟩ | h
    · refine ⟨genesisBlock, ?_, ?_⟩
      · rw [hg]; exact h2 genesisHash genesisBlock (by simp [G0])
      · rw [hz]; rfl
    · exact h
  obtain ⟨b, hb, hbv⟩ := hl
  have hrun : (getBlock q.hash).run s = (some b, s) := by
    simp [getBlock, RChain.get, hb, StateT.run, Id.run, bind, StateT.bind, get, getThe, MonadStateOf.get, StateT.get, set, StateT.set, pure, StateT.pure]
  have hp' := run_res_of_triple _ _ _ hP s hp
  rw [hrun] at hp' ⊢
  exact ⟨⟨hp', h2⟩, b, rfl, hbv⟩

theorem verifySyncInfo_hc (si : SyncInfo) :
    ⦃fun s => ⌜HCw w s⌝⦄ verifySyncInfo k c si
    ⦃⇓ r s => ⌜HCw w s ∧ (∀ q v t, r = .ok (some q, v, t) → QCBlockView q s) ∧
      (∀ v t, r = .ok (none, v, t) → si.qc = none)⌝⦄ := by
  apply triple_of_run
  intro s h
  exact ⟨run_res_of_triple _ _ _ (verifySyncInfo_hc0 k c w si) s h,
    (run_res_of_triple _ (fun s' => AP s' = AP s) _ (verifySyncInfo_bv k c si (AP s)) s rfl).2,
    run_res_of_triple _ (fun _ => True) _ (verifySyncInfo_qc k c si) s trivial⟩

/-- **`advanceView` keeps the invariant** (any sync info) -/
theorem advanceView_hc (si : SyncInfo) :
    ⦃fun s => ⌜HCw w s⌝⦄ advanceView k c si ⦃⇓ _ s => ⌜HCw w s⌝⦄ := by
  have h1 := verifySyncInfo_hc k c w
  have h2 : ∀ q : QC, ⦃fun s => ⌜HCw w s ∧ QCBlockView q s⌝⦄ getBlock q.hash
      ⦃⇓ r s => ⌜HCw w s ∧ ∀ nb, r = some nb → nb.view = q.view⌝⦄ := by
    intro q
    apply triple_of_run
    intro s ⟨h, hq⟩
    exact ⟨run_res_of_triple _ _ _ (getBlock_hc w q.hash) s h,
      (run_res_of_triple _ _ _ (getBlock_hq 0 q) s ⟨⟨Nat.zero_le _, h.1.2⟩, hq⟩).2⟩
  have h3 := createAndPropose_hc' k c w
  mvcgen [advanceView, addEvent, emit, h1, h2, h3]
  all_goals clear h1 h2 h3
  all_goals (try intros)
  all_goals hc_finish

theorem verifySyncInfo_only_g (q : QC) :
    ⦃fun s => ⌜Grows G0 s⌝⦄ verifySyncInfo k c { qc := some q }
    ⦃⇓ r s => ⌜Grows G0 s ∧ ((r = .reject ∧ Dead k c q s) ∨ ∃ v t, r = .ok (some q, v, t) ∧ QCBlockView q s)⌝⦄ := by
  apply triple_of_run
  intro s h
  refine ⟨run_res_of_triple _ _ _ (verifySyncInfo_gr k c _ G0) s h, ?_⟩
  have h1 := run_res_of_triple _ (fun _ => True) _ (verifySyncInfo_only k c q) s trivial
  have h2 := (run_res_of_triple _ (fun s' => AP s' = AP s) _ (verifySyncInfo_bv k c { qc := some q } (AP s)) s rfl).2
  rcases h1 with h1 | ⟨v, t, h1⟩
  · exact Or.inl h1
  · exact Or.inr ⟨v, t, h1, h2 q v t h1⟩

/-- `advanceView` on the certificate of a proposal: afterwards the high QC is at least as new as the
certificate, or the certificate was rejected and stays rejected -/
theorem advanceView_only (q : QC) :
    ⦃fun s => ⌜Grows G0 s⌝⦄ advanceView k c { qc := some q }
    ⦃⇓ _ s => ⌜q.view ≤ s.highQC.view ∨ Dead k c q s⌝⦄ := by
  have h1 := verifySyncInfo_only_g k c q
  have h2 : ∀ q : QC, ⦃fun s => ⌜Grows G0 s ∧ QCBlockView q s⌝⦄ getBlock q.hash
      ⦃⇓ r s => ⌜Grows G0 s ∧ ∃ nb, r = some nb ∧ nb.view = q.view⌝⦄ := by
    intro q
    apply triple_of_run
    intro s ⟨h, hq⟩
    have := run_res_of_triple _ _ _ (getBlock_found q (fun _ => True) (triple_of_run _ _ _ (fun _ _ => trivial))) s
      ⟨⟨trivial, h⟩, hq⟩
    exact ⟨this.1.2, this.2⟩
  have h3 : ∀ si, ⦃fun s => ⌜HQ q.view s⌝⦄ createAndPropose k c si ⦃⇓ _ s => ⌜HQ q.view s⌝⦄ :=
    fun si => hq_frame _ q.view (createAndPropose_ap k c si) (createAndPropose_gr k c si)
  mvcgen [advanceView, addEvent, emit, h1, h2, h3]
  all_goals clear h1 h2 h3
  all_goals (try intros)
  all_goals (try (simp_all +zetaDelta [HQ, Grows]; done))
  all_goals (simp_all +zetaDelta [HQ, Grows])
  all_goals (try left)
  all_goals (split <;> omega)

theorem advanceView_prop (q : QC) :
    ⦃fun s => ⌜HCw w s⌝⦄ advanceView k c { qc := some q }
    ⦃⇓ _ s => ⌜HCw w s ∧ (q.view ≤ s.highQC.view ∨ Dead k c q s)⌝⦄ := by
  apply triple_of_run
  intro s h
  exact ⟨run_res_of_triple _ _ _ (advanceView_hc k c w _) s h,
    run_res_of_triple _ _ _ (advanceView_only k c q) s h.1.2⟩

/-- a proposal whose certificate is newer than the high QC is not voted for (it was rejected by
`advanceView` a moment ago) -/
theorem voterVerify_prop (id : Nat) (b : Block) (agg : Option AggQC) :
    ⦃fun s => ⌜HCw w s ∧ (b.qc.view ≤ s.highQC.view ∨ Dead k c b.qc s)⌝⦄ voterVerify k c id b agg
    ⦃⇓ r s => ⌜HCw w s ∧ (r = .ok () → b.qc.view ≤ s.highQC.view)⌝⦄ := by
  apply triple_of_run
  intro s ⟨h, hq⟩
  refine ⟨run_res_of_triple _ _ _ (voterVerify_hc k c w id b agg) s h, fun hr => ?_⟩
  rcases hq with hq | hd
  · rw [highQC_of_ap _ (voterVerify_ap k c id b agg) s]; exact hq
  · exact absurd hr (run_res_of_triple _ _ _ (voterVerify_dead k c id b agg) s hd)

theorem onPropose_hc (id : Nat) (b : Block) (agg : Option AggQC) :
    ⦃fun s => ⌜HCw w s⌝⦄ onPropose k c id b agg ⦃⇓ _ s => ⌜HCw w s⌝⦄ := by
  have h1 := advanceView_prop k c w
  have h2 := voterVerify_prop k c w
  have h3 := onValidPropose_hc' k c w
  mvcgen [onPropose, emit, h1, h2, h3]
  all_goals clear h1 h2 h3
  all_goals hc_finish

theorem onRemoteTimeout_hc (t : TimeoutMsg) :
    ⦃fun s => ⌜HCw w s⌝⦄ onRemoteTimeout k c t ⦃⇓ _ s => ⌜HCw w s⌝⦄ := by
  have h1 := advanceView_hc k c w
  mvcgen [onRemoteTimeout, h1]
  all_goals clear h1
  all_goals hc_finish

theorem onLocalTimeout_hc :
    ⦃fun s => ⌜HCw w s⌝⦄ onLocalTimeout k c ⦃⇓ _ s => ⌜HCw w s⌝⦄ := by
  have h1 := onRemoteTimeout_hc k c w
  have h2 := signMsg_hc c w
  mvcgen [onLocalTimeout, emit, h1, h2]
  all_goals clear h1 h2
  all_goals hc_finish

theorem tick_hc :
    ⦃fun s => ⌜HCw w s⌝⦄ tick k c ⦃⇓ _ s => ⌜HCw w s⌝⦄ := by
  have h1 := onPropose_hc k c w
  have h2 := onRemoteTimeout_hc k c w
  have h3 := onLocalTimeout_hc k c w
  have h4 := advanceView_hc k c w
  have h5 := collectVote_hc k c w
  mvcgen [tick, emit, h1, h2, h3, h4, h5]
  all_goals clear h1 h2 h3 h4 h5
  all_goals hc_finish

theorem runLoop_hc (fuel : Nat) :
    ⦃fun s => ⌜HCw w s⌝⦄ runLoop k c fuel ⦃⇓ _ s => ⌜HCw w s⌝⦄ := by
  induction fuel with
  | zero => mvcgen [runLoop]
  | succ n ih =>
    have h1 := tick_hc k c w
    mvcgen [runLoop, h1, ih]

end HCLeaves

/-- **the invariant**: the certificate of every block voted for is not newer than the high QC, and
genesis is stored -/
def HC (s : RState) : Prop := HCov s ∧ Grows G0 s

theorem hc_init : HC {} :=
  ⟨fun b id hm => (by cases hm), fun h b hx => hx⟩

theorem step_hc (k : Keys) (c : RCfg) (s : RState) (e : Ev) (h : HC s) : HC (step k c s e).1 := by
  unfold step
  have h0 : HCw 0 { s with out := [], queue := s.queue ++ [e] } := ⟨h, Nat.zero_le _⟩
  exact (run_res_of_triple _ _ _ (runLoop_hc k c 0 100000) _ h0).1

theorem start_hc (k : Keys) (c : RCfg) (s : RState) (h : HC s) : HC (start k c s).1 := by
  unfold start
  have h0 : HCw 0 { s with out := [] } := ⟨h, Nat.zero_le _⟩
  have hsp : ⦃fun s' => ⌜HCw 0 s'⌝⦄ (do
      let s ← get
      if s.view == 1 && c.leader 1 == c.id then
        createAndPropose k c { qc := some s.highQC, tc := some s.highTC }
      runLoop k c 100000 : M Unit) ⦃⇓ _ s' => ⌜HCw 0 s'⌝⦄ := by
    have h1 := createAndPropose_hc' k c 0
    have h2 := runLoop_hc k c 0
    mvcgen [h1, h2]
    all_goals clear h1 h2
    all_goals hc_finish
  exact (run_res_of_triple _ _ _ hsp _ h0).1
end HsVerif.Model

/-! ## system level -/
namespace HsVerif.Model
open HsVerif.Proofs HsVerif.Props HsVerif.Props.C01Sys

/-- `HC` reads the ghost history, the high QC and the block map only -/
theorem hc_congr (s s' : RState) (hb : s'.chain.blocks = s.chain.blocks) (hq : s'.highQC = s.highQC)
    (hg : s'.ghost = s.ghost) (h : HC s) : HC s' :=
  ⟨fun b id hm => by rw [hq]; exact h.1 b id (hg ▸ hm), fun x b hx => by
    show s'.chain.blocks.lookup x = some b
    rw [hb]; exact h.2 x b hx⟩

/-- every replica of the system state satisfies `HC` -/
def SysHC (σ : SysState) : Prop := ∀ i s, σ.reps.lookup i = some s → HC s

theorem sysInit_hc (k : Keys) (C : SysCfg) : SysHC (sysInit k C) := by
  intro i s h
  simp only [sysInit, lookup_init] at h
  split at h
  · cases h; exact hc_init
  · cases h

theorem sys_set_hc (σ : SysState) (i : Nat) (s' : RState) (t' : List (Nat × Atom)) (nb : Nat)
    (h : SysHC σ) (hs : HC s') : SysHC { reps := setKV i s' σ.reps, truth := t', nextBytes := nb } := by
  intro j sj hj
  by_cases hji : j = i
  · subst hji
    simp only [lookup_setKV_self] at hj
    cases hj; exact hs
  · simp only [lookup_setKV_ne _ _ _ _ hji] at hj
    exact h j sj hj

theorem sys_run_hc (σ : SysState) (i : Nat) (f : RState → RState × List Out)
    (hf : ∀ s, HC s → HC (f s).1) (h : SysHC σ) : SysHC (σ.run i f) := by
  unfold SysState.run
  split
  · exact h
  · rename_i s hl
    exact sys_set_hc σ i _ _ _ h (hf _ (hc_congr s _ rfl rfl rfl (h i s hl)))

theorem sysStep_hc (k : Keys) (C : SysCfg) (σ : SysState) (a : SysAct) (h : SysHC σ) : SysHC (sysStep k C σ a) := by
  cases a with
  | start i => exact sys_run_hc σ i _ (fun s => start_hc k _ s) h
  | deliver i e => exact sys_run_hc σ i _ (fun s => step_hc k _ s e) h
  | fetchable i l =>
    simp only [sysStep]
    split
    · exact h
    · rename_i s hl
      exact sys_set_hc σ i _ σ.truth σ.nextBytes h (hc_congr s _ rfl rfl rfl (h i s hl))
  | forge a =>
    simp only [sysStep]
    split
    · exact h
    · exact h

/-- **in every reachable state, every replica's high QC covers its votes** -/
theorem reach_hc (k : Keys) (C : SysCfg) (σ : SysState) (h : Reach k C σ) : SysHC σ := by
  induction h with
  | init => exact sysInit_hc k C
  | step σ a _ ih => exact sysStep_hc k C σ a ih

/-- a duplicate-free list of `n` ids in `1 … n` contains all of them -/
theorem all_ids (H : List Nat) (n : Nat) (hnd : H.Nodup) (hr : ∀ i ∈ H, 1 ≤ i ∧ i ≤ n) (hl : H.length = n) :
    ∀ i, 1 ≤ i → i ≤ n → i ∈ H := by
  intro i h1 h2
  apply Classical.byContradiction
  intro hni
  have hn : (i :: H).Nodup := List.nodup_cons.mpr ⟨hni, hnd⟩
  have := nodup_length_le (i :: H) (List.range' 1 n) hn (by
    intro x hx
    rw [List.mem_range'_1]
    simp only [List.mem_cons] at hx
    rcases hx with rfl | hx
    · omega
    · have := hr x hx; omega)
  simp only [List.length_cons, List.length_range'] at this
  omega

theorem count_false (P : Nat → Bool) (n : Nat) (h : ∀ i, i < n → P i = false) : HsVerif.QuorumCount.count P n = 0 := by
  induction n with
  | zero => rfl
  | succ n ih =>
    simp only [HsVerif.QuorumCount.count]
    rw [ih (fun i hi => h i (by omega)), h n (by omega)]
    rfl

theorem fewFaulty_of_all (C : SysCfg) (h : ∀ i, 1 ≤ i → i ≤ C.n → i ∈ C.honest) : FewFaulty C := by
  unfold FewFaulty
  rw [count_false]
  · exact Nat.zero_le _
  · intro i hi
    have := h (i + 1) (by omega) (by omega)
    simp [this]

end HsVerif.Model

namespace HsVerif.SysSafety
open HsVerif.Model HsVerif.Proofs HsVerif.Props HsVerif.Props.C01Sys HsVerif.Props.C01SysWF HsVerif.Safety

section
variable {k : Keys} {C : SysCfg} {σ : SysState} {blk : Hash → Block} (X : Ctx k C σ blk)
include X

/-- a certificate that a replica accepts against the global table certifies a GC block: the block
stored under its hash is genesis or `Certified` -/
theorem Ctx.accepted_gc {j : Nat} {s : RState} {q : QC} {b : Block} (hs : σ.reps.lookup j = some s)
    (hv : verifyQC (env k (C.rcfg j) { s with truth := σ.truth }) q = true)
    (hb : sget s q.hash = some b) : GC (SysAbs C σ blk) b := by
  have hbk := (X.stored hs hb).1
  by_cases hg : q.hash = genesisHash
  · left; rw [hbk, hg]; exact X.hca.1.1
  · right
    rw [hbk]
    apply sys_certified_of_table k C X.hk σ X.hr blk X.hca.1
    have hso : C02.StoreOK (env k (C.rcfg j) { s with truth := σ.truth }) :=
      fun h b hb => ((X.hca.1.2 j s hs).1 h b hb).2
    exact accepted_qc_certified k C σ j _ q X.hsch rfl hso hg hv

/-- **the lock is covered**: the lock of a replica is GC, and it is genesis or a quorum of replicas
— the voters of the lock's certified child — have high QCs at least as new as the lock -/
theorem Ctx.lock_cover {j : Nat} {s : RState} (hs : σ.reps.lookup j = some s)
    (hall : ∀ i, 1 ≤ i → i ≤ C.n → i ∈ C.honest) :
    GC (SysAbs C σ blk) s.lock ∧
    (s.lock = genesisBlock ∨ ∃ S : List Nat, S.Nodup ∧ quorumSize C.n ≤ S.length ∧
      ∀ r ∈ S, r ∈ C.honest ∧ ∃ sr, σ.reps.lookup r = some sr ∧ s.lock.view ≤ sr.highQC.view) := by
  rcases (X.safe hs).linv.2.2 with hg | ⟨x, id, hm, p, hp1, _, hp2⟩
  · exact ⟨Or.inl hg, Or.inl hg⟩
  · have V := X.voted hs hm
    have hpx := X.link_voted hs hm hp1
    have hgc : GC (SysAbs C σ blk) p := hpx ▸ V.gc
    obtain ⟨hc, hL⟩ := X.link_gc hs hgc hp2
    have Cp := X.cert hc
    refine ⟨hL ▸ Cp.gc, Or.inr ?_⟩
    obtain ⟨Q, ⟨S, hnd, hlen, hS⟩, hv⟩ := hc
    refine ⟨S, hnd, hlen, ?_⟩
    intro r hr
    obtain ⟨r1, r2, hQr⟩ := hS r hr
    have hh : r ∈ C.honest := hall r r1 r2
    obtain ⟨sr, idr, hsr, hmr⟩ := hv r hQr hh
    refine ⟨hh, sr, hsr, ?_⟩
    have hcov : p.qc.view ≤ sr.highQC.view := (reach_hc k C σ X.hr r sr hsr).1 p idr hmr
    have hver : verifyQC (env k (C.rcfg r) sr) p.qc = true := (reach_cur k C σ X.hr r sr hsr).cur.2 p idr hmr
    have hlk := (X.stored hs hp2).1
    rcases verifyQC_blockView k _ sr p.qc hver with ⟨hgh, _⟩ | ⟨b, hb, hbv⟩
    · rw [hlk, hgh, X.hca.1.1]; exact Nat.zero_le _
    · have : b = s.lock := by rw [hlk]; exact (X.stored hsr hb).1
      rw [← this, hbv]; exact hcov

/-- **the `Top` block covers every lock**: in a reachable state in which all replicas run the model,
replica `j` is in state `s0 j` with high QC `D.hq j`, and everybody can check everybody's high QC
(`KnowsAll`), the block of the highest high QC of ANY quorum (`Top`) has a view at least that of every
replica's lock, and if the views are equal it IS the lock -/
theorem Ctx.top_ge_lock (D : RecData) (s0 : Nat → RState)
    (hnd : C.honest.Nodup) (hrange : ∀ i ∈ C.honest, 1 ≤ i ∧ i ≤ C.n) (hlen : C.honest.length = C.n)
    (hreps : ∀ j ∈ C.honest, σ.reps.lookup j = some (s0 j))
    (hhq : ∀ j ∈ C.honest, (s0 j).highQC = D.hq j)
    (hknow : ∀ j ∈ C.honest, KnowsAll k C D j { s0 j with truth := σ.truth }) :
    ∀ j ∈ C.honest, ∀ i ∈ C.honest, Top C D i →
      (s0 j).lock.view ≤ (D.hb i).view ∧ ((s0 j).lock.view = (D.hb i).view → D.hb i = (s0 j).lock) := by
  intro j hj i hi ht
  have hall := all_ids C.honest C.n hnd hrange hlen
  have hs := hreps j hj
  obtain ⟨hgcL, hcov⟩ := X.lock_cover hs hall
  obtain ⟨hv, hst, hvw, hlt⟩ := (hknow j hj).qc i hi
  have hgcB : GC (SysAbs C σ blk) (D.hb i) := X.accepted_gc hs hv hst
  refine ⟨?_, fun e => X.gc_unique hgcB hgcL e.symm⟩
  rcases hcov with hg | ⟨S, hSn, hSl, hS⟩
  · rw [hg]; exact Nat.zero_le _
  · have hq : (C.rcfg 0).cfg.quorum = quorumSize C.n := rfl
    have h2 : C.n < 2 * quorumSize C.n := by unfold quorumSize numFaulty; omega
    refine top_covers C D hlen S _ i hSn (fun x hx => (hS x hx).1) (by rw [hq]; omega) ?_ ht
    intro x hx
    obtain ⟨hxh, sr, hsr, hl⟩ := hS x hx
    have : sr = s0 x := by
      have := hreps x hxh
      rw [hsr] at this; exact Option.some.inj this
    subst this
    show _ ≤ (D.hb x).view
    rw [← ((hknow j hj).qc x hxh).2.2.1, ← hhq x hxh]; exact hl

/-- **`cover` from reachability**: … so every replica's vote rule is ready for a proposal on the `Top`
block (above the lock, or the lock itself: the proposal extends the lock), provided the block's own
certified block is known (or has the empty hash) -/
theorem Ctx.cover (D : RecData) (s0 : Nat → RState)
    (hnd : C.honest.Nodup) (hrange : ∀ i ∈ C.honest, 1 ≤ i ∧ i ≤ C.n) (hlen : C.honest.length = C.n)
    (hreps : ∀ j ∈ C.honest, σ.reps.lookup j = some (s0 j))
    (hhq : ∀ j ∈ C.honest, (s0 j).highQC = D.hq j)
    (hknow : ∀ j ∈ C.honest, KnowsAll k C D j { s0 j with truth := σ.truth })
    (hpar : ∀ j ∈ C.honest, ∀ i ∈ C.honest, Top C D i →
      ((D.hb i).qc.hash = "" ∨ ∃ gb, (s0 j).chain.blocks.lookup (D.hb i).qc.hash = some gb)) :
    ∀ j ∈ C.honest, ∀ i ∈ C.honest, Top C D i → RuleReady (C.rcfg j) (s0 j) (D.v + 1) (D.hb i) := by
  intro j hj i hi ht
  obtain ⟨hle, heq⟩ := X.top_ge_lock D s0 hnd hrange hlen hreps hhq hknow j hj i hi ht
  obtain ⟨_, _, hvw, hlt⟩ := (hknow j hj).qc i hi
  refine ⟨hpar j hj i hi ht, ?_⟩
  split
  · by_cases hlt' : (s0 j).lock.view < (D.hb i).view
    · exact Or.inl hlt'
    · have e : (s0 j).lock.view = (D.hb i).view := by omega
      refine Or.inr ⟨by omega, ?_⟩
      rw [heq e]
      have hf : (s0 j).chain.fuel - 1 = ((s0 j).chain.blocks.length + (s0 j).chain.fetchable.length) + 1 := by
        unfold RChain.fuel; omega
      rw [hf]
      unfold extWalk
      simp
  · exact hle
  · rename_i hfast
    exact absurd hfast X.hrl

end
end HsVerif.SysSafety
