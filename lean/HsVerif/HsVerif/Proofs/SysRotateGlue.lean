import HsVerif.Proofs.SysRotateChain
/-!
ROTATING LEADERS, the link from the recovery round to phase A (task S12e), in the silent-minority setting.  The leader `L` of view
`v + 1` proposes `b'` after its timeout quorum and SENDS its vote to `c2 ≠ L`, the leader of view `v + 2`.
* Replica level: `ld_timeout_quorum_send` (the exact quorum step of `L`), `nl_step_cur_rot` (a replica that entered `v + 1` on a timeout
  certificate votes to `c2`), `nl_step_cur_coll` (`c2` itself counts its own vote), `syncM_absorb`.
* `SyncPreRot` (`SyncPre` + `markWalk` from every `Top` block at every participant), `RecXR` (sharpened recovery invariant: exact
  proposals AND the one vote in flight), `rcoll_quorum_quiet`, `recx_step_rot`, `recx_deliver_rot`, `RecDoneRot`,
  `recovery_round_done_rot`, `PAInvR` / `pa_step_rot` / `pa_deliver_rot` (votes in flight tracked by `find?` as in `BAInvR`),
  `recDone_phaseA_rot`, `proposalRoundR`, `recovery_reaches_phaseA_rot`, `commit_after_recovery_rot_core`.
The case `c2 = L` (the same replica leads `v + 1` and `v + 2`) is the fixed-leader development (`…_live`); here `L ≠ c2` is assumed.
The proofs are scripted adaptations of Proofs/SysChainGlue.lean / SysLiveQuorumChain.lean.
-/
open Std.Do
set_option mvcgen.warning false
set_option linter.unusedSimpArgs false
set_option linter.unusedVariables false
namespace HsVerif.Model
open HsVerif.Proofs HsVerif.Props.C08 HsVerif.Props.C01Sys HsVerif.Props.C01SysWF HsVerif.Props.C03 HsVerif.SysSafety
open HsVerif.Props.C05Cover

/-- **the timeout message that completes the quorum at the (fixed) leader**, exactly: it assembles the timeout
certificate, enters view `w + 1`, proposes `b'` on its high QC (certifying the stored block `hb`), runs the committer
and SENDS its own vote to `L2`, the leader of the view after — it is synchronised at `(w + 1, b')`, with an empty collector, and the committer can
walk from `b'` down if it could from `hb`; the proposals are exactly the messages of the step -/
theorem ld_timeout_quorum_send (k : Keys) (c : RCfg) (L2 w N : Nat) (s : RState) (t : TimeoutMsg) (q : QC) (nb hb P : Block) (tc0 : TC)
    (hs : c.scheme ≠ .bls12) (ha : c.agg = false) (hr : c.rules = .chained ∨ c.rules = .simple)
    (hid : c.cfg.has c.id = true) (hld1 : c.leader (s.view + 1) = c.id) (hld2 : c.leader (s.view + 1 + 1) = L2) (hne2 : c.id ≠ L2) (hq2 : 2 ≤ c.cfg.quorum)
    (hf : FreshS s) (hq0 : s.queue = []) (hwvc : s.waitingVC = []) (hwprop : s.waitingProp = [])
    (hfe : s.chain.fetchable = [])
    (hacc : Accepted (fun b => s.truth.lookup b) c.cfg t)
    (hsi : t.si = { qc := some q, tc := some tc0 })
    (htc0 : verifyTC (env k c s) tc0 = true) (hq : verifyQC (env k c s) q = true)
    (hnb : s.chain.blocks.lookup q.hash = some nb) (hv1 : tc0.view < s.view) (hv2 : q.view < s.view)
    (htv : t.view = s.view) (hv0 : s.view ≠ 0) (hview : s.view = w)
    (hall : ∀ x ∈ s.timeouts, x.view = t.view) (hids : ((s.timeouts ++ [t]).map (·.id)).Nodup)
    (hge : c.cfg.quorum ≤ s.timeouts.length + 1) (h2 : 2 ≤ s.timeouts.length + 1)
    (haccs : ∀ x ∈ s.timeouts, Accepted (fun b => s.truth.lookup b) c.cfg x)
    (hhq : verifyQC (env k c s) (absorbS s q nb tc0).highQC = true)
    (hhb : s.chain.blocks.lookup (absorbS s q nb tc0).highQC.hash = some hb)
    (hhv : (absorbS s q nb tc0).highQC.view < s.view) (hhbv : hb.view ≤ (absorbS s q nb tc0).highQC.view)
    (hlv : s.lastVoted ≤ w) (hready : RuleReady c s (w + 1) hb)
    (hmark : markWalk (s.chain.fuel + 1) s.chain.blocks s.lastProposed hb = true)
    (hP : s.chain.blocks.lookup hb.qc.hash = some P) (hPv : P.view ≤ w) (hlock : s.lock.view ≤ w)
    (hcm : s.committed.view ≤ w)
    (hnames : ∀ u, w < u → s.chain.blocks.lookup (pname u) = none ∧ s.votes.lookup (pname u) = none)
    (hsmall : 2 * s.chain.blocks.length + (w + 1) ≤ N) (hN : N + 12 ≤ 99999)
    (hwalk : cmWalk (s.chain.blocks.length + 2) s.chain.blocks s.committed.view hb = true) :
    ∃ (bytes' : Nat) (b' : Block),
      b'.hash = pname (w + 1) ∧ b'.parent = b'.qc.hash ∧ b'.view = w + 1 ∧ b'.qc = (absorbS s q nb tc0).highQC ∧
      b'.proposer = c.id ∧
      SyncM (w + 1) (N + 2) b' hb (step k c s (.timeout t)).1 ∧
      (step k c s (.timeout t)).1.truth.lookup bytes' = some ⟨c.id, blkMsg b'.hash⟩ ∧
      WalkZ b' (step k c s (.timeout t)).1 ∧ (step k c s (.timeout t)).1.timeouts = [] ∧
      FreshS (step k c s (.timeout t)).1 ∧ Ext s (step k c s (.timeout t)).1 ∧
      (∀ C : SysCfg, route C c.id (step k c s (.timeout t)).2 =
        (C.honest.filter (· != c.id)).map (fun x => (x, Ev.propose c.id b' none)) ++
          [(L2, Ev.vote c.id (some (.multi c.scheme [⟨c.id, bytes'⟩])) b'.hash false)]) := by
  subst hview
  let s0 : RState := { s with out := [], queue := s.queue ++ [.timeout t] }
  let sA : RState := { s0 with queue := [] }
  have hnew : ∀ x ∈ s.timeouts, x.id ≠ t.id := by
    intro x hx e
    simp only [List.map_append, List.map_cons, List.map_nil] at hids
    rw [List.nodup_append] at hids
    exact hids.2.2 _ (List.mem_map_of_mem hx) _ (by simp) e
  obtain ⟨sigs, sg, hmap, hcomb, htc⟩ := tc_data k c sA s.timeouts t hall hids hge h2
    (by intro x hx
        simp only [List.mem_append, List.mem_singleton] at hx
        rcases hx with hx | rfl
        · exact haccs x hx
        · exact hacc)
  have hrun := onRemoteTimeout_quorum_run k c sA t q nb hb tc0 [] (s.timeouts ++ [t]) sigs sg ha hacc hsi htc0 hq hnb hv1 hv2
    htv (by rw [htv]; exact hv0) (collector_quorum _ _ _ hall hnew hge) hmap hcomb htc hhq hhb hhv
  let hq' : QC := (absorbS sA q nb tc0).highQC
  let tc : TC := ⟨some sg, t.view⟩
  let m : RState := movedTS { absorbS sA q nb tc0 with timeouts := [] } tc
  have hmview : m.view = s.view + 1 := rfl
  let b' : Block := newBlock c m hq'
  have hb'hash : b'.hash = pname (s.view + 1) := by
    show (mkBlock c m.view m.nextCmd hq').hash = _; rw [mkBlock_hash, hmview]
  have hb'view : b'.view = s.view + 1 := rfl
  have hcp0 := createAndPropose_run k c m hq' hb (some tc) hs (by rcases hr with h | h <;> rw [h] <;> decide) hhb
    (markProposed_walk _ hb m hmark)
    (by show s.lastVoted < s.view + 1; omega)
    (fun s' hc hl => voteRule_ready c s' _ hb _ (ruleReady_congr c s s' _ hb hc hl hready) (by rw [hc]; exact hhb) (Nat.le_refl _) rfl)
    hhq (by show (absorbS s q nb tc0).highQC.view < s.view + 1; omega) hld1.symm
  let v3 := voteS c b' c.id (propS m)
  have hfm : FreshS (propS m) := hf
  obtain ⟨ho3, hl3, hf3, hc3⟩ := voteS_facts c b' c.id (propS m) hfm
  obtain ⟨w1, w2, w3, w4, w5, w6, w7, w8, w9, w10, w11⟩ := voteS_fields c b' c.id (propS m)
  have hv3chain : v3.chain = s.chain := hc3
  have hfe3 : v3.chain.fetchable = [] := by rw [hv3chain]; exact hfe
  have htcl : tcS c b' v3 = tcL c b' v3 := tcS_eq_tcL c (by rcases hr with h | h <;> rw [h] <;> decide) b' v3 hfe3
  have hnewB : v3.chain.blocks.lookup b'.hash = none := by rw [hv3chain, hb'hash]; exact (hnames (s.view + 1) (by omega)).1
  have hhbl : s.chain.blocks.lookup b'.qc.hash = some hb := hhb
  obtain ⟨t1, t2, t3, evs, t4, t5, t6, t7⟩ := tcL_core c hr b' hb P (s.view + 1) N v3 hfe3 hnewB
    (by rw [hv3chain]; exact hhbl) (by omega) (by rw [hv3chain]; exact hP) (by omega)
    (by rw [show v3.lock = (propS m).lock from w5]; show s.lock.view < _; omega) (by rw [hv3chain]; exact hsmall)
  rw [← htcl] at t1 t2 t3 t4
  rw [hv3chain] at t1
  let s6 : RState := { tcS c b' v3 with out := (tcS c b' v3).out ++ [.sendPropose b' none] }
  have hft := tcS_fresh c b' v3 hf3
  have htcp := tcS_tcp c b' v3
  simp only [TCP, Prod.mk.injEq] at htcp
  obtain ⟨p1, p2, p3, p4, p5, p6, p7, p8, p9, p10, p11, p12, p13, p14, p15⟩ := htcp
  have hs6truth : s6.truth = v3.truth := p12
  have hs6hq : s6.highQC = hq' := by
    show (tcS c b' v3).highQC = _; rw [p2]; exact w2
  have hs6votes : s6.votes = s.votes := by
    show (tcS c b' v3).votes = _; rw [p8]; exact w7
  have hs6lk : s6.chain.blocks.lookup b'.hash = some b' := by
    show (tcS c b' v3).chain.blocks.lookup _ = _; rw [t1]; simp
  let F : RState := { s6 with out := s6.out ++ [.sendVote L2 (voteSig c b' (propS m)) b'.hash] }
  have hcp : (createAndPropose k c { qc := some hq', tc := some tc }).run m = pure ((), F) := by
    have hL2 : c.leader (b'.view + 1) = L2 := hld2
    rw [hcp0, aggregateVote_send k c b' _ _ (by rw [hL2]; exact fun e => hne2 e.symm), hL2]
  have hFto : F.timeouts = [] := by
    show (tcS c b' v3).timeouts = _; rw [p6]
    show (voteS c b' c.id (propS m)).timeouts = _
    unfold voteS signState; split <;> rfl
  let s7 : RState := { F with timeouts := F.timeouts.filter (fun x => !(x.view < s.view)) }
  have hrun' : (onRemoteTimeout k c t).run sA = pure ((), s7) := by
    rw [hrun, if_pos (show c.leader (sA.view + 1) = c.id from hld1), run_then_modify]
    exact congrArg (fun r : Id (Unit × RState) =>
      (pure ((), { r.2 with timeouts := r.2.timeouts.filter (fun x => !(x.view < s.view)) }) : Id (Unit × RState))) hcp
  have hs7 : s7 = F := by
    show ({ F with timeouts := F.timeouts.filter _ } : RState) = F
    rw [hFto]; simp only [List.filter_nil]
    rw [← hFto]
  rw [hs7] at hrun'
  have ht1 : (tick k c).run s0 = pure (true, F) := tick_timeout k c s0 F t [] (by show s.queue ++ _ = _; rw [hq0]; rfl) hrun'
  let qq : List Ev := [Ev.viewChange (s.view + 1) true] ++ evs
  have hFq : F.queue = qq := by
    show (tcS c b' v3).queue = _
    rw [t4, show v3.queue = (propS m).queue from w8]
    rfl
  have hquiet : ∀ e ∈ qq, e.quiet = true := by
    intro e he
    simp only [qq, List.mem_append, List.mem_singleton] at he
    rcases he with rfl | he
    · rfl
    · exact quiet_of_passive e (t5 e he)
  have hFwvc : F.waitingVC = [] := by
    show (tcS c b' v3).waitingVC = _; rw [p9, show v3.waitingVC = (propS m).waitingVC from w10]; exact hwvc
  have hrest := runLoop_quiet k c qq 99999 F hquiet hFwvc
    (by simp only [qq, List.length_append, List.length_singleton]; omega)
  have hFF : F = { F with queue := qq } := by rw [← hFq]
  have hstep : step k c s (.timeout t) = ({ F with queue := [], out := [] }, F.out ++ qq.map Ev.toOut) := by
    rw [step_run_eq k c s _ (99999 + 1) rfl, runLoop_succ k c _ s0 F ht1, hFF, hrest]
    rfl
  have hFout : F.out = [.sign (blkMsg b'.hash), .sendPropose b' none, .sendVote L2 (voteSig c b' (propS m)) b'.hash] := by
    show (tcS c b' v3).out ++ _ ++ _ = _
    rw [tcS_out, show v3.out = _ from ho3]; rfl
  have hFblocks : F.chain.blocks = (b'.hash, b') :: s.chain.blocks := t1
  have hnewB' : s.chain.blocks.lookup b'.hash = none := by rw [← hv3chain]; exact hnewB
  have hle : StoreLe s.chain.blocks F.chain.blocks := by
    rw [hFblocks]; exact storeLe_cons _ _ hnewB'
  have hextF : Ext s { F with queue := [], out := [] } := by
    have e1 : Ext s (propS m) := ext_of_eq s _ hf.2 rfl rfl rfl
    have e2 := voteS_ext c b' c.id (propS m) hs hfm.2
    have e3 := tcS_ext c b' v3 hf3.2
    have e4 : Ext (tcS c b' v3) { F with queue := [], out := [] } := ext_of_eq _ _ hft.2 rfl rfl rfl
    exact ((e1.trans e2).trans e3).trans e4
  -- the committed block afterwards
  have hcmv : s.committed.view ≤ (tcS c b' v3).committed.view ∧ (tcS c b' v3).committed.view < s.view + 1 := by
    rw [htcl]
    have hst := (store_new v3.chain b' hnewB).1
    have hl1 : (v3.chain.store b').blocks.lookup b'.qc.hash = some hb := by
      rw [hst]; exact storeLe_cons _ _ hnewB _ _ (by rw [hv3chain]; exact hhbl)
    obtain ⟨_, hcr⟩ := commitRuleL_res c.rules (v3.chain.store b').blocks v3.lock b'
    have hv3cm : v3.committed = s.committed := w6
    unfold tcL
    simp only
    cases hr2 : (commitRuleL c.rules (v3.chain.store b').blocks v3.lock b').2 with
    | none => rw [hv3cm]; exact ⟨Nat.le_refl _, by omega⟩
    | some tt =>
      simp only
      obtain ⟨x1, hx1, htv'⟩ := hcr tt hr2
      rw [hl1] at hx1; cases hx1
      obtain ⟨i1, i2, _, _⟩ := commitInnerL_res ((v3.chain.store b').fuel + 1) (v3.chain.store b').blocks v3.committed tt
      cases hci : (commitInnerL ((v3.chain.store b').fuel + 1) (v3.chain.store b').blocks v3.committed tt).1 with
      | false =>
        simp only [Bool.not_false, if_true]
        rw [i1 hci, hv3cm]; exact ⟨Nat.le_refl _, by omega⟩
      | true =>
        simp only [Bool.not_true, Bool.false_eq_true, if_false]
        rcases i2 hci with ⟨h, _⟩ | ⟨h, hv⟩
        · rw [h, hv3cm]; exact ⟨Nat.le_refl _, by omega⟩
        · rw [h]; rw [hv3cm] at hv; exact ⟨Nat.le_of_lt hv, by omega⟩
  refine ⟨signBytes c (blkMsg b'.hash) (propS m), b', hb'hash, rfl, hb'view, rfl, rfl, ?_, ?_, ?_, ?_, ?_, ?_, ?_⟩
  · rw [hstep]
    refine ⟨⟨?_, ?_, rfl, hFwvc, ?_, t2, hb'hash, hb'view, ?_, ?_, ?_, ?_, ?_, ?_, ?_⟩, ?_, ?_⟩
    · show (tcS c b' v3).view = _; rw [p1, show v3.view = (propS m).view from w1]; exact hmview
    · show (tcS c b' v3).lastVoted = _; rw [p4, show v3.lastVoted = b'.view from w11]; exact hb'view
    · show (tcS c b' v3).waitingProp = _; rw [p10, show v3.waitingProp = (propS m).waitingProp from w9]; exact hwprop
    · show F.chain.blocks.lookup b'.hash = _; rw [hFblocks]; simp
    · show F.chain.blocks.lookup b'.qc.hash = _; exact hle _ _ hhbl
    · have : (absorbS s q nb tc0).highQC.view < s.view := hhv
      omega
    · show s6.highQC.view < _; rw [hs6hq]; show (absorbS s q nb tc0).highQC.view < _; omega
    · show (tcS c b' v3).lock.view < _; exact t3
    · intro u hu
      refine ⟨?_, ?_⟩
      · show F.chain.blocks.lookup (pname u) = none
        rw [hFblocks, List.lookup_cons]
        have : (pname u == b'.hash) = false := by
          rw [beq_eq_false_iff_ne, hb'hash]; intro e; have := pname_inj e; omega
        rw [this]; exact (hnames u (by omega)).1
      · show s6.votes.lookup (pname u) = none
        rw [hs6votes]; exact (hnames u (by omega)).2
    · show 2 * F.chain.blocks.length + (s.view + 1) ≤ N + 2
      rw [hFblocks]; simp only [List.length_cons]; omega
    · show markWalk (F.chain.fuel + 1) F.chain.blocks (tcS c b' v3).lastProposed b' = true
      rw [p5, show v3.lastProposed = (propS m).lastProposed from w3]
      unfold markWalk
      rw [if_neg (by show ¬ b'.view > m.view; rw [hb'view, hmview]; omega)]
    · show hb.view ≤ s6.highQC.view; rw [hs6hq]; exact hhbv
  · rw [hstep]
    show s6.truth.lookup _ = _
    rw [hs6truth]; exact hl3
  · rw [hstep]
    refine ⟨?_, ?_⟩
    · show cmWalk (F.chain.blocks.length + 2) F.chain.blocks (tcS c b' v3).committed.view b' = true
      rw [hFblocks]
      simp only [List.length_cons]
      unfold cmWalk
      rw [if_neg (by rw [hb'view]; omega)]
      have : ((b'.hash, b') :: s.chain.blocks).lookup b'.parent = some hb := storeLe_cons _ _ hnewB' _ _ hhbl
      rw [this]
      exact cmWalk_mono _ _ _ _ _ _ hb (by omega) (storeLe_cons _ _ hnewB') hcmv.1 hwalk
    · show (tcS c b' v3).committed.view < b'.view; rw [hb'view]; exact hcmv.2
  · rw [hstep]; exact hFto
  · rw [hstep]; exact hft
  · rw [hstep]; exact hextF
  · intro C
    rw [hstep]
    show route C c.id (F.out ++ qq.map Ev.toOut) = _
    rw [route_append, hFout, route_silent C c.id (qq.map Ev.toOut) (by
      intro o ho
      obtain ⟨e, he, rfl⟩ := List.mem_map.mp ho
      exact toOut_silent e (hquiet e he))]
    simp [route, voteSig]

/-- **a replica that entered view `w + 1` on a timeout certificate receives the leader's proposal `b'` of that view**,
which carries a certificate `b'.qc` of an older stored block `hb` (the highest high QC of a quorum): with the vote rule
ready (`RuleReady`: what `cover_of_reach` provides) the replica stores `b'`, runs the committer and votes — afterwards
it is synchronised at `(w + 1, b')` (`SyncR`), its vote is the only message it sends, and the committer can walk from
`b'` down to the committed block if it could from `hb`. -/
theorem nl_step_cur_rot (k : Keys) (c : RCfg) (L L2 w N : Nat) (hb P b' : Block) (s : RState)
    (hs : c.scheme ≠ .bls12) (ha : c.agg = false) (hr : c.rules = .chained ∨ c.rules = .simple)
    (hld1 : c.leader (w + 1) = L) (hld2 : c.leader (w + 1 + 1) = L2) (hne2 : c.id ≠ L2) (hqb : b'.qc.view = hb.view)
    (hview : s.view = w + 1) (hlv : s.lastVoted ≤ w) (hq : s.queue = []) (hwvc : s.waitingVC = [])
    (hwprop : s.waitingProp = []) (hfe : s.chain.fetchable = []) (hf : FreshS s) (hN : N + 12 ≤ 99999)
    (hb1 : b'.hash = pname (w + 1)) (hb2 : b'.parent = b'.qc.hash) (hb3 : b'.view = w + 1) (hqv : b'.qc.view < w + 1)
    (hver : verifyQC (env k c s) b'.qc = true) (hhb : s.chain.blocks.lookup b'.qc.hash = some hb) (hhbv : hb.view ≤ w)
    (hP : s.chain.blocks.lookup hb.qc.hash = some P) (hPv : P.view ≤ w)
    (hready : RuleReady c s (w + 1) hb) (hhq : s.highQC.view ≤ w) (hlock : s.lock.view ≤ w) (hcm : s.committed.view ≤ w)
    (hnames : ∀ u, w < u → s.chain.blocks.lookup (pname u) = none ∧ s.votes.lookup (pname u) = none)
    (hsmall : 2 * s.chain.blocks.length + (w + 1) ≤ N)
    (hwalk : cmWalk (s.chain.blocks.length + 2) s.chain.blocks s.committed.view hb = true) :
    SyncR (w + 1) (N + 2) b' hb (step k c s (.propose L b' none)).1 ∧
    WalkZ b' (step k c s (.propose L b' none)).1 ∧
    FreshS (step k c s (.propose L b' none)).1 ∧ Ext s (step k c s (.propose L b' none)).1 ∧
    (step k c s (.propose L b' none)).1.lastProposed = s.lastProposed ∧
    (step k c s (.propose L b' none)).1.chain.blocks = (b'.hash, b') :: s.chain.blocks ∧
    hb.view ≤ (step k c s (.propose L b' none)).1.highQC.view ∧
    (∃ bytes, (step k c s (.propose L b' none)).1.truth.lookup bytes = some ⟨c.id, blkMsg b'.hash⟩ ∧
      ∀ C : SysCfg, route C c.id (step k c s (.propose L b' none)).2 =
        [(L2, Ev.vote c.id (some (.multi c.scheme [⟨c.id, bytes⟩])) b'.hash false)]) := by
  let sA : RState := { s with out := [], queue := [] }
  let s1 : RState := updHighQC sA b'.qc hb
  obtain ⟨hpass, hstep⟩ := step_propose_exact k c s L b' hb hs ha (by rw [hb3, hview]) (by rw [hb3]; omega) (by rw [hb3]; exact hld1.symm) hb2
    (by rw [hb3]; exact hqv) hver hhb
    (fun s' hc hl => voteRule_ready c s' b' hb _ (by rw [hb3]; exact ruleReady_congr c s s' _ hb hc hl hready)
      (by rw [hc]; exact hhb) (Nat.le_refl _) hb2)
    (by rw [hb3, hld2]; exact fun e => hne2 e.symm) hq hwprop
  have hfe1 : s1.chain.fetchable = [] := hfe
  have htc : tcS c b' s1 = tcL c b' s1 := tcS_eq_tcL c (by rcases hr with h | h <;> rw [h] <;> decide) b' s1 hfe1
  have hnewB : s1.chain.blocks.lookup b'.hash = none := by rw [hb1]; exact (hnames (w + 1) (by omega)).1
  obtain ⟨t1, t2, t3, evs, t4, t5, t6, t7⟩ := tcL_core c hr b' hb P (w + 1) N s1 hfe1 hnewB hhb (by omega) hP (by omega)
    (by show s.lock.view < w + 1; omega) hsmall
  rw [← htc] at t1 t2 t3 t4 t7
  let A : RState := votedS c b' L s1
  obtain ⟨hA1, hA2, hA3, hA4, hA5, hA10, _, hA11, _, _, hA12⟩ := votedS_tcp c b' L s1
  obtain ⟨hA6, hA7, hA8, hA9⟩ := votedS_tc c b' L s1
  have hAq : A.queue = evs := by
    show (votedS c b' L s1).queue = _
    rw [hA9, t4]; rfl
  have hdrop : A.queue.drop 99999 = [] := List.drop_of_length_le (by rw [hAq]; omega)
  have htake : A.queue.take 99999 = A.queue := List.take_of_length_le (by rw [hAq]; omega)
  rw [hdrop, htake] at hstep
  have hfA : FreshS s1 := hf
  have hft := tcS_fresh c b' s1 hfA
  obtain ⟨ho3, hl3, hf3, hc3⟩ := voteS_facts c b' L (tcS c b' s1) hft
  have hAout : A.out = [.sign (blkMsg b'.hash), .sendVote L2 (voteSig c b' (tcS c b' s1)) b'.hash] := by
    show (voteS c b' L (tcS c b' s1)).out ++ _ = _
    rw [ho3, tcS_out, hb3, hld2]
    rfl
  have hAchain : A.chain = (tcS c b' s1).chain := hA8
  have hblocks : A.chain.blocks = (b'.hash, b') :: s.chain.blocks := by rw [hAchain]; exact t1
  have hle : StoreLe s.chain.blocks A.chain.blocks := by
    rw [hblocks]; exact storeLe_cons _ _ hnewB
  -- what the committer leaves: the committed block is the old one or a block two views below `hb`
  have hcmv : s.committed.view ≤ A.committed.view ∧ A.committed.view < w + 1 := by
    rw [show A.committed = (tcS c b' s1).committed from hA7, htc]
    have hst := (store_new s1.chain b' hnewB).1
    have hl1 : (s1.chain.store b').blocks.lookup b'.qc.hash = some hb := by
      rw [hst]; exact storeLe_cons _ _ hnewB _ _ hhb
    obtain ⟨_, hcr⟩ := commitRuleL_res c.rules (s1.chain.store b').blocks s1.lock b'
    unfold tcL
    simp only
    cases hr2 : (commitRuleL c.rules (s1.chain.store b').blocks s1.lock b').2 with
    | none => exact ⟨Nat.le_refl _, by show s.committed.view < w + 1; omega⟩
    | some t =>
      simp only
      obtain ⟨x1, hx1, htv⟩ := hcr t hr2
      rw [hl1] at hx1; cases hx1
      obtain ⟨i1, i2, _, _⟩ := commitInnerL_res ((s1.chain.store b').fuel + 1) (s1.chain.store b').blocks s1.committed t
      cases hci : (commitInnerL ((s1.chain.store b').fuel + 1) (s1.chain.store b').blocks s1.committed t).1 with
      | false =>
        simp only [Bool.not_false, if_true]
        rw [i1 hci]; exact ⟨Nat.le_refl _, by show s.committed.view < w + 1; omega⟩
      | true =>
        simp only [Bool.not_true, Bool.false_eq_true, if_false]
        rcases i2 hci with ⟨h, _⟩ | ⟨h, hv⟩
        · rw [h]; exact ⟨Nat.le_refl _, by show s.committed.view < w + 1; omega⟩
        · rw [h]; exact ⟨Nat.le_of_lt hv, by omega⟩
  rw [hstep]
  refine ⟨⟨?_, ?_, rfl, ?_, rfl, ?_, hb1, hb3, ?_, ?_, by omega, ?_, ?_, ?_, ?_⟩, ⟨?_, ?_⟩, hf3, ?_, hA11, hblocks, ?_,
    ⟨signBytes c (blkMsg b'.hash) (tcS c b' s1), hl3, ?_⟩⟩
  · show A.view = _; rw [show A.view = s1.view from hA1]; exact hview
  · show A.lastVoted = _; rw [show A.lastVoted = b'.view from hA5, hb3]
  · show A.waitingVC = _; rw [show A.waitingVC = s1.waitingVC from hA4]; exact hwvc
  · show A.chain.fetchable = _; rw [hAchain]; exact t2
  · show A.chain.blocks.lookup b'.hash = _; rw [hblocks]; simp
  · show A.chain.blocks.lookup b'.qc.hash = _; exact hle _ _ hhb
  · show A.highQC.view < _; rw [show A.highQC = s1.highQC from hA2]
    show (if hb.view ≤ s.highQC.view then s.highQC else b'.qc).view < _
    split <;> omega
  · show A.lock.view < _; rw [show A.lock = (tcS c b' s1).lock from hA6]; exact t3
  · intro u hu
    refine ⟨?_, ?_⟩
    · show A.chain.blocks.lookup (pname u) = none
      rw [hblocks, List.lookup_cons]
      have : (pname u == b'.hash) = false := by
        rw [beq_eq_false_iff_ne, hb1]; intro e; have := pname_inj e; omega
      rw [this]; exact (hnames u (by omega)).1
    · show A.votes.lookup (pname u) = none
      rw [show A.votes = s1.votes from hA10]; exact (hnames u (by omega)).2
  · show 2 * A.chain.blocks.length + (w + 1) ≤ N + 2
    rw [hblocks]; simp only [List.length_cons]; omega
  · -- the walk from `b'`: one step to `hb`, then the old walk
    show cmWalk (A.chain.blocks.length + 2) A.chain.blocks A.committed.view b' = true
    rw [hblocks]
    simp only [List.length_cons]
    unfold cmWalk
    rw [if_neg (by rw [hb3]; omega), hb2]
    have : ((b'.hash, b') :: s.chain.blocks).lookup b'.qc.hash = some hb := storeLe_cons _ _ hnewB _ _ hhb
    rw [this]
    exact cmWalk_mono _ _ _ _ _ _ hb (by omega) (storeLe_cons _ _ hnewB) hcmv.1 hwalk
  · show A.committed.view < b'.view; rw [hb3]; exact hcmv.2
  · have e1 : Ext s s1 := ext_of_eq s s1 hf.2 rfl rfl rfl
    have e2 := tcS_ext c b' s1 hfA.2
    have e3 := voteS_ext c b' L (tcS c b' s1) hs hft.2
    have e4 : Ext (voteS c b' L (tcS c b' s1)) { A with waitingProp := [], queue := [], out := [] } :=
      ext_of_eq _ _ hf3.2 rfl rfl rfl
    exact ((e1.trans e2).trans e3).trans e4
  · show hb.view ≤ A.highQC.view; rw [show A.highQC = s1.highQC from hA2]
    show hb.view ≤ (if hb.view ≤ s.highQC.view then s.highQC else b'.qc).view
    split
    · assumption
    · rw [hqb]; exact Nat.le_refl _
  · intro C
    rw [route_append, hAout]
    rw [route_silent C c.id (A.queue.map Ev.toOut) (by
      intro o ho
      obtain ⟨e, he, rfl⟩ := List.mem_map.mp ho
      exact toOut_silent e (quiet_of_passive e (hpass e he)))]
    simp [route, voteSig]

/-- **a replica that entered view `w + 1` on a timeout certificate receives the leader's proposal `b'` of that view**,
which carries a certificate `b'.qc` of an older stored block `hb` (the highest high QC of a quorum): with the vote rule
ready (`RuleReady`: what `cover_of_reach` provides) the replica stores `b'`, runs the committer and votes — afterwards
it is synchronised at `(w + 1, b')` (`SyncR`), its vote is the only message it sends, and the committer can walk from
`b'` down to the committed block if it could from `hb`. -/
theorem nl_step_cur_coll (k : Keys) (c : RCfg) (L w N : Nat) (hb P b' : Block) (s : RState)
    (hs : c.scheme ≠ .bls12) (ha : c.agg = false) (hr : c.rules = .chained ∨ c.rules = .simple)
    (hld1 : c.leader (w + 1) = L) (hld2 : c.leader (w + 1 + 1) = c.id) (hid : c.cfg.has c.id = true) (hq2 : 2 ≤ c.cfg.quorum) (hqb : b'.qc.view = hb.view)
    (hview : s.view = w + 1) (hlv : s.lastVoted ≤ w) (hq : s.queue = []) (hwvc : s.waitingVC = [])
    (hwprop : s.waitingProp = []) (hfe : s.chain.fetchable = []) (hf : FreshS s) (hN : N + 12 ≤ 99999)
    (hb1 : b'.hash = pname (w + 1)) (hb2 : b'.parent = b'.qc.hash) (hb3 : b'.view = w + 1) (hqv : b'.qc.view < w + 1)
    (hver : verifyQC (env k c s) b'.qc = true) (hhb : s.chain.blocks.lookup b'.qc.hash = some hb) (hhbv : hb.view ≤ w)
    (hP : s.chain.blocks.lookup hb.qc.hash = some P) (hPv : P.view ≤ w)
    (hready : RuleReady c s (w + 1) hb) (hhq : s.highQC.view ≤ w) (hlock : s.lock.view ≤ w) (hcm : s.committed.view ≤ w)
    (hnames : ∀ u, w < u → s.chain.blocks.lookup (pname u) = none ∧ s.votes.lookup (pname u) = none)
    (hsmall : 2 * s.chain.blocks.length + (w + 1) ≤ N)
    (hwalk : cmWalk (s.chain.blocks.length + 2) s.chain.blocks s.committed.view hb = true) :
    SyncR (w + 1) (N + 2) b' hb (step k c s (.propose L b' none)).1 ∧
    WalkZ b' (step k c s (.propose L b' none)).1 ∧
    FreshS (step k c s (.propose L b' none)).1 ∧ Ext s (step k c s (.propose L b' none)).1 ∧
    (step k c s (.propose L b' none)).1.lastProposed = s.lastProposed ∧
    (step k c s (.propose L b' none)).1.chain.blocks = (b'.hash, b') :: s.chain.blocks ∧
    hb.view ≤ (step k c s (.propose L b' none)).1.highQC.view ∧
    (∃ bytes, (step k c s (.propose L b' none)).1.truth.lookup bytes = some ⟨c.id, blkMsg b'.hash⟩ ∧
      (step k c s (.propose L b' none)).1.votes.lookup b'.hash = some [(c.id, .multi c.scheme [⟨c.id, bytes⟩])] ∧
      ∀ C : SysCfg, route C c.id (step k c s (.propose L b' none)).2 = []) := by
  let sA : RState := { s with out := [], queue := [] }
  let s1 : RState := updHighQC sA b'.qc hb
  let s0 : RState := { s with out := [], queue := s.queue ++ [.propose L b' none] }
  have hgen' : (onPropose k c L b' none).run sA =
      (aggregateVote k c b' (voteSig c b' (tcS c b' s1))).run (voteS c b' L (tcS c b' s1)) :=
    onPropose_run_gen k c sA L b' hb hs ha (by rw [hb3]; exact hview.symm) (by rw [hb3]; show s.lastVoted < _; omega)
      (by rw [hb3]; exact hld1.symm) hb2 (by rw [hb3]; exact hqv) hver hhb
      (fun s' hc hl => voteRule_ready c s' b' hb _ (by rw [hb3]; exact ruleReady_congr c s s' _ hb hc hl hready)
        (by rw [hc]; exact hhb) (Nat.le_refl _) hb2)
  have hfe1 : s1.chain.fetchable = [] := hfe
  have htc : tcS c b' s1 = tcL c b' s1 := tcS_eq_tcL c (by rcases hr with h | h <;> rw [h] <;> decide) b' s1 hfe1
  have hnewB : s1.chain.blocks.lookup b'.hash = none := by rw [hb1]; exact (hnames (w + 1) (by omega)).1
  obtain ⟨t1, t2, t3, evs, t4, t5, t6, t7⟩ := tcL_core c hr b' hb P (w + 1) N s1 hfe1 hnewB hhb (by omega) hP (by omega)
    (by show s.lock.view < w + 1; omega) hsmall
  rw [← htc] at t1 t2 t3 t4 t7
  let V : RState := voteS c b' L (tcS c b' s1)
  have hfA : FreshS s1 := hf
  have hft := tcS_fresh c b' s1 hfA
  obtain ⟨ho3, hl3, hf3, hc3⟩ := voteS_facts c b' L (tcS c b' s1) hft
  obtain ⟨w1, w2, w3, w4, w5, w6, w7, w8, w9, w10, w11⟩ := voteS_fields c b' L (tcS c b' s1)
  have htcp := tcS_tcp c b' s1
  simp only [TCP, Prod.mk.injEq] at htcp
  obtain ⟨p1, p2, p3, p4, p5, p6, p7, p8, p9, p10, p11, p12, p13, p14, p15⟩ := htcp
  have hVlk : V.chain.blocks.lookup b'.hash = some b' := by
    show (voteS c b' L (tcS c b' s1)).chain.blocks.lookup _ = _; rw [hc3, t1]; simp
  have hVhq : V.highQC = s1.highQC := by show (voteS c b' L (tcS c b' s1)).highQC = _; rw [w2, p2]
  have hVvotes : V.votes = s.votes := by show (voteS c b' L (tcS c b' s1)).votes = _; rw [w7, p8]; rfl
  have hVvl : (V.votes.lookup b'.hash).getD [] = [] := by
    rw [hVvotes, hb1, (hnames (w + 1) (by omega)).2]; rfl
  have hs1hq : s1.highQC.view < w + 1 := by
    show (if hb.view ≤ s.highQC.view then s.highQC else b'.qc).view < _
    split <;> omega
  have hVlt : V.highQC.view < b'.view := by rw [hVhq, hb3]; exact hs1hq
  have hcv2 := collectVote_add_run k c V c.id c.id (signBytes c (blkMsg b'.hash) (tcS c b' s1)) b'.hash b' false
    hVlk rfl hVlt (verify_single _ c.cfg c.id _ _ hs hid hl3) (by rw [hVvl]; simp) (by rw [hVvl]; simp; omega)
  let A : RState := addVoteS V b'.hash c.id (voteSig c b' (tcS c b' s1))
  have hon : (onPropose k c L b' none).run sA = pure ((), A) := by
    rw [hgen', aggregateVote_self k c b' _ _ (by rw [hb3]; exact hld2)]
    exact hcv2
  obtain ⟨a1, a2⟩ := addVotes_lookup V b'.hash b' ([] ++ [(c.id, voteSig c b' (tcS c b' s1))]) hVlk hVlt
  have hA1 : A.view = s1.view := by show (voteS c b' L (tcS c b' s1)).view = _; rw [w1, p1]
  have hA2 : A.highQC = s1.highQC := hVhq
  have hA3 : A.waitingProp = s1.waitingProp := by show (voteS c b' L (tcS c b' s1)).waitingProp = _; rw [w9, p10]
  have hA4 : A.waitingVC = s1.waitingVC := by show (voteS c b' L (tcS c b' s1)).waitingVC = _; rw [w10, p9]
  have hA5 : A.lastVoted = b'.view := w11
  have hA11 : A.lastProposed = s1.lastProposed := by show (voteS c b' L (tcS c b' s1)).lastProposed = _; rw [w3, p5]
  have hA6 : A.lock = (tcS c b' s1).lock := w5
  have hA7 : A.committed = (tcS c b' s1).committed := w6
  have hA8 : A.chain = (tcS c b' s1).chain := hc3
  have hA9 : A.queue = (tcS c b' s1).queue := w8
  have hAq : A.queue = evs := by rw [hA9, t4]; rfl
  have hAw : A.waitingProp = [] := by rw [hA3]; exact hwprop
  have hquiet : ∀ e ∈ evs, e.quiet = true := fun e he => quiet_of_passive e (t5 e he)
  have htick := tick_propose k c s0 A L b' none [] (by show s.queue ++ _ = _; rw [hq]; rfl) hon
  have hX : ({ A with waitingProp := [], queue := A.queue ++ A.waitingProp } : RState) =
      { ({ A with waitingProp := [] } : RState) with queue := evs } := by
    simp only [hAw, hAq, List.append_nil]
  rw [hX] at htick
  have hrest := runLoop_quiet k c evs 99999 { A with waitingProp := [] } hquiet
    (by show A.waitingVC = []; rw [hA4]; exact hwvc) (by omega)
  have hstep : step k c s (.propose L b' none) =
      ({ A with waitingProp := [], queue := [], out := [] }, A.out ++ evs.map Ev.toOut) := by
    rw [step_run_eq k c s _ (99999 + 1) rfl, runLoop_succ k c _ s0 _ htick, hrest]
    rfl
  have hAout : A.out = [.sign (blkMsg b'.hash)] := by
    show (voteS c b' L (tcS c b' s1)).out = _
    rw [ho3, tcS_out]
    rfl
  have hAchain : A.chain = (tcS c b' s1).chain := hA8
  have hblocks : A.chain.blocks = (b'.hash, b') :: s.chain.blocks := by rw [hAchain]; exact t1
  have hle : StoreLe s.chain.blocks A.chain.blocks := by
    rw [hblocks]; exact storeLe_cons _ _ hnewB
  -- what the committer leaves: the committed block is the old one or a block two views below `hb`
  have hcmv : s.committed.view ≤ A.committed.view ∧ A.committed.view < w + 1 := by
    rw [show A.committed = (tcS c b' s1).committed from hA7, htc]
    have hst := (store_new s1.chain b' hnewB).1
    have hl1 : (s1.chain.store b').blocks.lookup b'.qc.hash = some hb := by
      rw [hst]; exact storeLe_cons _ _ hnewB _ _ hhb
    obtain ⟨_, hcr⟩ := commitRuleL_res c.rules (s1.chain.store b').blocks s1.lock b'
    unfold tcL
    simp only
    cases hr2 : (commitRuleL c.rules (s1.chain.store b').blocks s1.lock b').2 with
    | none => exact ⟨Nat.le_refl _, by show s.committed.view < w + 1; omega⟩
    | some t =>
      simp only
      obtain ⟨x1, hx1, htv⟩ := hcr t hr2
      rw [hl1] at hx1; cases hx1
      obtain ⟨i1, i2, _, _⟩ := commitInnerL_res ((s1.chain.store b').fuel + 1) (s1.chain.store b').blocks s1.committed t
      cases hci : (commitInnerL ((s1.chain.store b').fuel + 1) (s1.chain.store b').blocks s1.committed t).1 with
      | false =>
        simp only [Bool.not_false, if_true]
        rw [i1 hci]; exact ⟨Nat.le_refl _, by show s.committed.view < w + 1; omega⟩
      | true =>
        simp only [Bool.not_true, Bool.false_eq_true, if_false]
        rcases i2 hci with ⟨h, _⟩ | ⟨h, hv⟩
        · rw [h]; exact ⟨Nat.le_refl _, by show s.committed.view < w + 1; omega⟩
        · rw [h]; exact ⟨Nat.le_of_lt hv, by omega⟩
  rw [hstep]
  refine ⟨⟨?_, ?_, rfl, ?_, rfl, ?_, hb1, hb3, ?_, ?_, by omega, ?_, ?_, ?_, ?_⟩, ⟨?_, ?_⟩, hf3, ?_, hA11, hblocks, ?_,
    ⟨signBytes c (blkMsg b'.hash) (tcS c b' s1), hl3, ?_, ?_⟩⟩
  · show A.view = _; rw [show A.view = s1.view from hA1]; exact hview
  · show A.lastVoted = _; rw [show A.lastVoted = b'.view from hA5, hb3]
  · show A.waitingVC = _; rw [show A.waitingVC = s1.waitingVC from hA4]; exact hwvc
  · show A.chain.fetchable = _; rw [hAchain]; exact t2
  · show A.chain.blocks.lookup b'.hash = _; rw [hblocks]; simp
  · show A.chain.blocks.lookup b'.qc.hash = _; exact hle _ _ hhb
  · show A.highQC.view < _; rw [show A.highQC = s1.highQC from hA2]
    show (if hb.view ≤ s.highQC.view then s.highQC else b'.qc).view < _
    split <;> omega
  · show A.lock.view < _; rw [show A.lock = (tcS c b' s1).lock from hA6]; exact t3
  · intro u hu
    refine ⟨?_, ?_⟩
    · show A.chain.blocks.lookup (pname u) = none
      rw [hblocks, List.lookup_cons]
      have : (pname u == b'.hash) = false := by
        rw [beq_eq_false_iff_ne, hb1]; intro e; have := pname_inj e; omega
      rw [this]; exact (hnames u (by omega)).1
    · show (cleanVotes V _).lookup (pname u) = none
      rw [hVvl]
      exact a2 (pname u) (by rw [hb1]; intro e; have := pname_inj e; omega) (by rw [hVvotes]; exact (hnames u (by omega)).2)
  · show 2 * A.chain.blocks.length + (w + 1) ≤ N + 2
    rw [hblocks]; simp only [List.length_cons]; omega
  · -- the walk from `b'`: one step to `hb`, then the old walk
    show cmWalk (A.chain.blocks.length + 2) A.chain.blocks A.committed.view b' = true
    rw [hblocks]
    simp only [List.length_cons]
    unfold cmWalk
    rw [if_neg (by rw [hb3]; omega), hb2]
    have : ((b'.hash, b') :: s.chain.blocks).lookup b'.qc.hash = some hb := storeLe_cons _ _ hnewB _ _ hhb
    rw [this]
    exact cmWalk_mono _ _ _ _ _ _ hb (by omega) (storeLe_cons _ _ hnewB) hcmv.1 hwalk
  · show A.committed.view < b'.view; rw [hb3]; exact hcmv.2
  · have e1 : Ext s s1 := ext_of_eq s s1 hf.2 rfl rfl rfl
    have e2 := tcS_ext c b' s1 hfA.2
    have e3 := voteS_ext c b' L (tcS c b' s1) hs hft.2
    have e4 : Ext (voteS c b' L (tcS c b' s1)) { A with waitingProp := [], queue := [], out := [] } :=
      ext_of_eq _ _ hf3.2 rfl rfl rfl
    exact ((e1.trans e2).trans e3).trans e4
  · show hb.view ≤ A.highQC.view; rw [show A.highQC = s1.highQC from hA2]
    show hb.view ≤ (if hb.view ≤ s.highQC.view then s.highQC else b'.qc).view
    split
    · assumption
    · rw [hqb]; exact Nat.le_refl _
  · show (cleanVotes V _).lookup b'.hash = _
    rw [hVvl]; exact a1
  · intro C
    rw [route_append, hAout]
    rw [route_silent C c.id (evs.map Ev.toOut) (by
      intro o ho
      obtain ⟨e, he, rfl⟩ := List.mem_map.mp ho
      exact toOut_silent e (hquiet e he))]
    simp [route]


/-! ## the recovery round with rotating leaders: the leader `L` of view `v + 1` sends its vote to `c2`, the leader of `v + 2` -/

/-- effects that route to neither a proposal nor a vote -/
def QuietRoute (C : SysCfg) (j : Nat) (outs : List Out) : Prop :=
  ∀ m ∈ route C j outs, isProp m = false ∧ isVoteEv m = false

/-- `SyncM` survives the refresh of the high certificates by a late timeout message -/
theorem syncM_absorb {w N : Nat} {B P : Block} {s : RState}
    (h : SyncM w N B P s) (q : QC) (nb : Block) (tc0 : TC) (hqv : q.view < w) (hqn : q.view = nb.view) :
    SyncM w N B P { absorbS s q nb tc0 with out := [] } := by
  have hc := h.core
  have hhq : (absorbS s q nb tc0).highQC.view < w ∧ P.view ≤ (absorbS s q nb tc0).highQC.view := by
    show (if nb.view ≤ s.highQC.view then s.highQC else q).view < w ∧ P.view ≤ (if nb.view ≤ s.highQC.view then s.highQC else q).view
    have := h.hqge
    have := hc.hq
    split <;> constructor <;> omega
  exact ⟨⟨hc.view, hc.lastVoted, hc.queue, hc.wvc, hc.wprop, hc.fetch, hc.bhash, hc.bview, hc.hasB, hc.hasP, hc.pview,
    hhq.1, hc.lock, hc.names, hc.small⟩, h.mark, hhq.2⟩

/-- `SyncPre` for rotating leaders: in addition the walk that marks ancestors as proposed succeeds from every `Top` block at EVERY
participant (any of them may lead one of the following views); bookkeeping of `createAndPropose`, a fact about stored blocks -/
structure SyncPreRot (C : SysCfg) (D : RecData) (s0 : Nat → RState) (N : Nat) : Prop where
  pre : SyncPre C D s0 N
  mark : ∀ j ∈ C.honest, ∀ i ∈ C.honest, Top C D i →
    markWalk ((s0 j).chain.fuel + 1) (s0 j).chain.blocks (s0 j).lastProposed (D.hb i) = true

/-- the recovery round with rotating leaders, sharpened: before the leader's quorum neither a proposal nor a vote is in flight;
after it the leader is synchronised at `(v + 1, b')`, the proposals in flight are exactly those of `b'`, and the only vote in flight
is the leader's own vote for `b'`, addressed to `c2` -/
structure RecXR (C : SysCfg) (L c2 : Nat) (D : RecData) (s0 : Nat → RState) (N : Nat) (rec : Nat → List Nat)
    (x : SysState × Msgs) : Prop where
  before : (rec L).length + 1 < (C.rcfg 0).cfg.quorum → ∀ m ∈ x.2, isProp m = false ∧ isVoteEv m = false
  after : (C.rcfg 0).cfg.quorum ≤ (rec L).length + 1 → ∃ (i : Nat) (b' : Block) (sL : RState) (bytes' : Nat),
    i ∈ C.honest ∧ Top C D i ∧ b'.hash = pname (D.v + 1) ∧ b'.parent = b'.qc.hash ∧ b'.view = D.v + 1 ∧
    b'.qc = D.hq i ∧ b'.proposer = L ∧ x.1.reps.lookup L = some sL ∧
    SyncM (D.v + 1) (N + 2) b' (D.hb i) sL ∧
    WalkZ b' sL ∧ sL.timeouts = [] ∧ StoreLe (s0 L).chain.blocks sL.chain.blocks ∧
    x.1.truth.lookup bytes' = some ⟨L, blkMsg b'.hash⟩ ∧
    (∀ m ∈ x.2, isProp m = true → ∃ j, m = propMsg L b' j) ∧ (∀ j ∈ C.honest, j ≠ L → propMsg L b' j ∈ x.2) ∧
    (∀ m ∈ x.2, isVoteEv m = true → m = ownVoteMsg C c2 L b'.hash bytes') ∧ ownVoteMsg C c2 L b'.hash bytes' ∈ x.2

/-- `rcoll_quorum` with the effects exposed: a replica that is not the next leader sends no proposal -/
theorem rcoll_quorum_quiet (k : Keys) (C : SysCfg) (D : RecData) (s0 s : RState) (j i : Nat) (frm : List Nat)
    (T : List (Nat × Atom)) (nb : Nat)
    (ha : C.agg = false) (hv0 : D.v ≠ 0) (hq2 : 2 ≤ (C.rcfg j).cfg.quorum)
    (hj : j ∈ C.honest) (hfrm : ∀ x ∈ frm, x ∈ C.honest) (hi : i ∈ C.honest)
    (hnd : (j :: frm).Nodup) (hnew : i ∉ j :: frm) (hw0 : s0.waitingVC = [])
    (hc : RColl C D s0 j frm s) (hk : KnowsAll k C D j { s with truth := T, nextBytes := nb })
    (hge : (C.rcfg j).cfg.quorum ≤ frm.length + 2)
    (hl : (C.rcfg j).leader (D.v + 1) ≠ j) :
    ∀ C' : SysCfg, QuietRoute C' j (step k (C.rcfg j) { s with truth := T, nextBytes := nb } (.timeout (D.tmsg C i))).2 := by
  obtain ⟨q1, q2, q3, q4⟩ := hk.qc i hi
  obtain ⟨t1, t2⟩ := hk.tc i hi
  have hmem' : absI D.bv j (frm ++ [i]) ∈ C.honest := by
    have := absI_mem D.bv (frm ++ [i]) j
    simp only [List.mem_cons, List.mem_append, List.mem_singleton, List.not_mem_nil, or_false] at this
    rcases this with h | h | h
    · rw [h]; exact hj
    · exact hfrm _ h
    · rw [h]; exact hi
  have hmem : absI D.bv j frm ∈ C.honest := by
    have := absI_mem D.bv frm j
    simp only [List.mem_cons] at this
    rcases this with h | h
    · rw [h]; exact hj
    · exact hfrm _ h
  have habs := absorb_hq C D { s with truth := T, nextBytes := nb } j i frm (D.htc i) hc.hqc (hk.qc _ hmem).2.2.1
  obtain ⟨a1, a2, a3, a4⟩ := hk.qc _ hmem'
  have htouts : ({ s with truth := T, nextBytes := nb } : RState).timeouts = D.tmsg C j :: frm.map (D.tmsg C) := hc.touts
  obtain ⟨sg, _, hstep⟩ := step_timeout_quorum_exact k (C.rcfg j) { s with truth := T, nextBytes := nb } (D.tmsg C i) (D.hq i) (D.hb i)
    (D.hb (absI D.bv j (frm ++ [i]))) (D.htc i) ha hc.queue (by show s.waitingVC = []; rw [hc.frame.wvc]; exact hw0)
    (hk.acc i hi) rfl t1 q1 q2 (by show _ < s.view; rw [hc.view]; exact t2) (by show _ < s.view; rw [hc.view]; exact q4)
    (by show D.v = s.view; rw [hc.view]) (by show s.view ≠ 0; rw [hc.view]; exact hv0)
    (by rw [htouts]
        intro x hx
        simp only [List.mem_cons, List.mem_map] at hx
        rcases hx with rfl | ⟨y, _, rfl⟩ <;> rfl)
    (by rw [htouts]
        have : (D.tmsg C j :: frm.map (D.tmsg C) ++ [D.tmsg C i]).map (·.id) = (j :: frm) ++ [i] := by
          have := tmsg_ids C D ((j :: frm) ++ [i])
          simpa using this
        rw [this, List.nodup_append]
        refine ⟨hnd, by simp, ?_⟩
        intro a ha' b hb'
        simp at hb'; subst hb'
        exact fun e => hnew (e ▸ ha'))
    (by rw [htouts]; simp; omega) (by rw [htouts]; simp)
    (by rw [htouts]
        intro x hx
        simp only [List.mem_cons, List.mem_map] at hx
        rcases hx with rfl | ⟨y, hy, rfl⟩
        · exact hk.acc j hj
        · exact hk.acc y (hfrm y hy))
    (by rw [habs]; exact a1) (by rw [habs]; exact a2) (by rw [habs]; show _ < s.view; rw [hc.view]; exact a4)
    (by show (C.rcfg j).leader (s.view + 1) ≠ j; rw [hc.view]; exact hl)
  rw [hstep]
  intro C' m hm
  simp [route] at hm
  subst hm
  exact ⟨rfl, rfl⟩

/-- **one timeout message is delivered** (the sharpened invariant) -/
theorem recx_step_rot (k : Keys) (C : SysCfg) (L c2 N : Nat) (D : RecData) (s0 : Nat → RState) (T0 : List (Nat × Atom))
    (hC : RotCfg C) (hl1 : ldr C (D.v + 1) = L) (hl2 : ldr C (D.v + 1 + 1) = c2) (hne12 : L ≠ c2)
    (hS : RecSetupLive k C D s0 L T0) (hY : SyncPreRot C D s0 N)
    (hlockv : ∀ j ∈ C.honest, ∀ i ∈ C.honest, Top C D i → (s0 j).lock.view ≤ (D.hb i).view)
    (rec : Nat → List Nat) (σ : SysState) (acc : Msgs) (j i : Nat)
    (hinv : RecInv k C D s0 L T0 rec (σ, acc)) (hx : RecXR C L c2 D s0 N rec (σ, acc))
    (hj : j ∈ C.honest) (hi : i ∈ C.honest) (hij : i ≠ j) (hnew : i ∉ rec j) :
    RecXR C L c2 D s0 N (recUpd rec j i) (deliverAll k C (σ, acc) [(j, Ev.timeout (D.tmsg C i))]) := by
  have hq : 2 ≤ (C.rcfg 0).cfg.quorum ∧ (C.rcfg 0).cfg.quorum ≤ C.n := quorum_bounds C.n hS.two
  have hqj : ∀ x, (C.rcfg x).cfg.quorum = (C.rcfg 0).cfg.quorum := fun _ => rfl
  obtain ⟨hrnd, hrmem⟩ := hinv.recs j hj
  have hnew' : i ∉ j :: rec j := by
    simp only [List.mem_cons, not_or]; exact ⟨hij, hnew⟩
  have hknow : ∀ (s : RState), Frame (s0 j) s → KnowsAll k C D j { s with truth := σ.truth, nextBytes := σ.nextBytes } := by
    intro s hf
    exact (hS.init j hj).2.2.2.mono (by show s.chain = (s0 j).chain; exact hf.chain) (fun b a hb => hinv.table b a hb)
  have hLmem := hS.lmem
  by_cases hjl : j = L
  · subst hjl
    by_cases hlt : (rec j).length + 1 < (C.rcfg 0).cfg.quorum
    · obtain ⟨s, hl, hc⟩ := hinv.leaderC hlt
      obtain ⟨σ', hd, r1, r2, r3⟩ := deliver_effect k C σ acc j (Ev.timeout (D.tmsg C i)) s hl
      rw [hd]
      by_cases hlt2 : (rec j).length + 2 < (C.rcfg 0).cfg.quorum
      · -- still collecting
        obtain ⟨s', hstep, hc', ht, hn⟩ := rcoll_add k C D (s0 j) s j i (rec j) σ.truth σ.nextBytes hS.agg hj hrmem hi hnew' hc
          (hknow s hc.frame) (by rw [hqj]; exact hlt2)
        rw [hstep]
        refine ⟨?_, ?_⟩
        · intro _ m hm
          simp only [route, List.append_nil] at hm
          exact hx.before hlt m hm
        · intro hge
          rw [recUpd_same] at hge
          simp only [List.length_append, List.length_singleton] at hge
          omega
      · -- the quorum
        let sT : RState := { s with truth := σ.truth, nextBytes := σ.nextBytes }
        have hk := hknow s hc.frame
        obtain ⟨q1, q2, q3, q4⟩ := hk.qc i hi
        obtain ⟨t1, t2⟩ := hk.tc i hi
        have hmi : absI D.bv j (rec j ++ [i]) ∈ C.honest := by
          have := absI_mem D.bv (rec j ++ [i]) j
          simp only [List.mem_cons, List.mem_append, List.mem_singleton, List.not_mem_nil, or_false] at this
          rcases this with h | h | h
          · rw [h]; exact hj
          · exact hrmem _ h
          · rw [h]; exact hi
        have hmem : absI D.bv j (rec j) ∈ C.honest := by
          have := absI_mem D.bv (rec j) j
          simp only [List.mem_cons] at this
          rcases this with h | h
          · rw [h]; exact hj
          · exact hrmem _ h
        have hnd' : (j :: (rec j ++ [i])).Nodup := by
          rw [List.nodup_cons] at hrnd ⊢
          refine ⟨?_, ?_⟩
          · simp only [List.mem_append, List.mem_singleton, not_or]
            exact ⟨hrnd.1, fun e => hij e.symm⟩
          · rw [List.nodup_append]
            exact ⟨hrnd.2, by simp, by intro a ha b hb; simp at hb; subst hb; exact fun e => hnew (e ▸ ha)⟩
        have htop : Top C D (absI D.bv j (rec j ++ [i])) := by
          refine ⟨j :: (rec j ++ [i]), hnd', ?_, ?_, absI_mem D.bv _ j, ?_⟩
          · intro x hx'
            simp only [List.mem_cons, List.mem_append, List.mem_singleton, List.not_mem_nil, or_false] at hx'
            rcases hx' with rfl | hx' | rfl
            · exact hj
            · exact hrmem x hx'
            · exact hi
          · simp only [List.length_cons, List.length_append, List.length_singleton]; omega
          · intro x hx'
            obtain ⟨h1, h2⟩ := absI_max D.bv (rec j ++ [i]) j
            simp only [List.mem_cons] at hx'
            rcases hx' with rfl | hx'
            · exact h1
            · exact h2 x hx'
        have habs := absorb_hq C D sT j i (rec j) (D.htc i) hc.hqc (hk.qc _ hmem).2.2.1
        obtain ⟨a1, a2, a3, a4⟩ := hk.qc _ hmi
        have htouts : sT.timeouts = D.tmsg C j :: (rec j).map (D.tmsg C) := hc.touts
        obtain ⟨P, hP1, hP2⟩ := hY.pre.par j hj _ hmi htop
        have hch : sT.chain = (s0 j).chain := hc.frame.chain
        obtain ⟨bytes', b', e1, e2, e3, e4, e5, e6, e6t, e7, e8, e9, e10, e11⟩ := ld_timeout_quorum_send k (C.rcfg j) c2 D.v N sT (D.tmsg C i)
          (D.hq i) (D.hb i) (D.hb (absI D.bv j (rec j ++ [i]))) P (D.htc i) hS.scheme hS.agg hC.rules (hC.has j j hj)
          (by show ldr C (s.view + 1) = j; rw [hc.view]; exact hl1) (by show ldr C (s.view + 1 + 1) = c2; rw [hc.view]; exact hl2)
          hne12 (by rw [hqj]; exact hq.1) hinv.fresh hc.queue
          (by show s.waitingVC = []; rw [hc.frame.wvc]; exact (hS.init j hj).2.1)
          (by show s.waitingProp = []; rw [hc.frame.wprop]; exact hY.pre.wprop j hj)
          (by rw [hch]; exact hY.pre.fetch j hj)
          (hk.acc i hi) rfl t1 q1 q2 (by show _ < s.view; rw [hc.view]; exact t2) (by show _ < s.view; rw [hc.view]; exact q4)
          (by show D.v = s.view; rw [hc.view]) (by show s.view ≠ 0; rw [hc.view]; exact hS.v0) hc.view
          (by rw [htouts]
              intro x hx'
              simp only [List.mem_cons, List.mem_map] at hx'
              rcases hx' with rfl | ⟨y, _, rfl⟩ <;> rfl)
          (by rw [htouts]
              have : (D.tmsg C j :: (rec j).map (D.tmsg C) ++ [D.tmsg C i]).map (·.id) = (j :: rec j) ++ [i] := by
                have := tmsg_ids C D ((j :: rec j) ++ [i])
                simpa using this
              rw [this, List.nodup_append]
              refine ⟨hrnd, by simp, ?_⟩
              intro a ha' b hb'
              simp at hb'; subst hb'
              exact fun e => hnew' (e ▸ ha'))
          (by rw [htouts]; simp; rw [hqj]; omega) (by rw [htouts]; simp)
          (by rw [htouts]
              intro x hx'
              simp only [List.mem_cons, List.mem_map] at hx'
              rcases hx' with rfl | ⟨y, hy, rfl⟩
              · exact hk.acc j hj
              · exact hk.acc y (hrmem y hy))
          (by rw [habs]; exact a1) (by rw [habs]; exact a2) (by rw [habs]; show _ < s.view; rw [hc.view]; exact a4)
          (by rw [habs, a3]; exact Nat.le_refl _)
          (by show s.lastVoted ≤ _; rw [hc.frame.lastVoted]; exact (hS.init j hj).2.2.1)
          (ruleReady_congr (C.rcfg j) (s0 j) sT _ _ hc.frame.chain hc.frame.lock (hS.cover j hj _ hmi htop))
          (by show markWalk (s.chain.fuel + 1) s.chain.blocks s.lastProposed _ = true
              rw [hc.frame.chain, hc.frame.lastProposed]; exact hS.mark _ hmi)
          (by rw [hch]; exact hP1) hP2
          (by show s.lock.view ≤ _; rw [hc.frame.lock]
              have := hlockv j hj _ hmi htop
              have h3 : (D.hb (absI D.bv j (rec j ++ [i]))).view < D.v := by rw [← a3]; exact a4
              omega)
          (by show s.committed.view ≤ _; rw [hc.frame.committed]; exact hY.pre.committed j hj)
          (by intro u hu
              show s.chain.blocks.lookup _ = none ∧ s.votes.lookup _ = none
              rw [hc.frame.chain, hc.frame.votes]; exact hY.pre.names j hj u hu)
          (by show 2 * s.chain.blocks.length + _ ≤ N; rw [hc.frame.chain]; exact hY.pre.small j hj)
          (by have := hY.pre.bound; omega)
          (by show cmWalk (s.chain.blocks.length + 2) s.chain.blocks s.committed.view _ = true
              rw [hc.frame.chain, hc.frame.committed]; exact hY.pre.walk j hj _ hmi htop)
        refine ⟨?_, ?_⟩
        · intro hlt'
          rw [recUpd_same] at hlt'
          simp only [List.length_append, List.length_singleton] at hlt'
          omega
        · intro _
          have hroute := e11 C
          rw [rcfg_id] at hroute
          have hbef := hx.before hlt
          refine ⟨absI D.bv j (rec j ++ [i]), b', _, bytes', hmi, htop, e1, e2, e3,
            by rw [e4, habs], e5, by rw [r1]; exact lookup_setKV_same _ _ _, e6, e7, e8, ?_, by rw [r2]; exact e6t, ?_, ?_, ?_, ?_⟩
          · intro h b hb
            exact e10.store h b (by show s.chain.blocks.lookup h = some b; rw [hc.frame.chain]; exact hb)
          · intro m hm hp
            simp only [List.mem_append] at hm
            rcases hm with hm | hm
            · rw [(hbef m hm).1] at hp; cases hp
            · rw [hroute] at hm
              simp only [List.mem_append, List.mem_singleton] at hm
              rcases hm with hm | rfl
              · obtain ⟨x, _, rfl⟩ := List.mem_map.mp hm
                exact ⟨x, rfl⟩
              · simp [isProp] at hp
          · intro x hx' hxl
            apply List.mem_append_right
            rw [hroute]
            exact List.mem_append_left _ (List.mem_map.mpr ⟨x, by simp [hx', hxl], rfl⟩)
          · intro m hm hp
            simp only [List.mem_append] at hm
            rcases hm with hm | hm
            · rw [(hbef m hm).2] at hp; cases hp
            · rw [hroute] at hm
              simp only [List.mem_append, List.mem_singleton] at hm
              rcases hm with hm | rfl
              · obtain ⟨x, _, rfl⟩ := List.mem_map.mp hm
                simp [isVoteEv] at hp
              · rfl
          · apply List.mem_append_right
            rw [hroute]
            exact List.mem_append_right _ (List.mem_singleton.mpr rfl)
    · -- the leader has moved on: the message only refreshes the high certificates
      obtain ⟨i0, b', sL, bytes', f1, f2, f3, f4, f5, f6, f7, f8, f9, f10, f11, f12, f12t, f13, f14, f15, f16⟩ := hx.after (by omega)
      obtain ⟨σ', hd, r1, r2, r3⟩ := deliver_effect k C σ acc j (Ev.timeout (D.tmsg C i)) sL f8
      let sT : RState := { sL with truth := σ.truth, nextBytes := σ.nextBytes }
      have hk0 := (hS.init j hj).2.2.2
      obtain ⟨q1, q2, q3, q4⟩ := hk0.qc i hi
      obtain ⟨t1, t2⟩ := hk0.tc i hi
      have hTle : ∀ b a, ({ s0 j with truth := T0 } : RState).truth.lookup b = some a → sT.truth.lookup b = some a :=
        fun b a hb => hinv.table b a hb
      have hstep := step_timeout_stale k (C.rcfg j) sT (D.tmsg C i) (D.hq i) (D.hb i) (D.htc i) hS.agg (by rw [hqj]; exact hq.1)
        f9.core.queue (accepted_mono _ _ _ _ (fun b a hb => hinv.table b a hb) (hk0.acc i hi)) rfl
        (verifyTC_mono k _ _ sT _ hTle t1)
        (verifyQC_mono (fun b => List.lookup b T0) (fun b => σ.truth.lookup b) (C.rcfg j).cfg (s0 j).chain.blocks sL.chain.blocks _ _
          (fun b a hb => hinv.table b a hb) f12 q1)
        (f12 _ _ q2) (by show _ < sL.view; rw [show sL.view = D.v + 1 from f9.core.view]; omega)
        (by show _ < sL.view; rw [show sL.view = D.v + 1 from f9.core.view]; omega)
        (by show D.v < sL.view; rw [show sL.view = D.v + 1 from f9.core.view]; omega) f11
      rw [hd, hstep]
      rw [hstep] at r1 r2 r3
      dsimp only at r1 r2 r3
      refine ⟨?_, ?_⟩
      · intro hlt'
        rw [recUpd_same] at hlt'
        simp only [List.length_append, List.length_singleton] at hlt'
        omega
      · intro _
        have hST : SyncM (D.v + 1) (N + 2) b' (D.hb i0) sT := ⟨syncR_with_table f9.core _ _, f9.mark, f9.hqge⟩
        have hSL' := syncM_absorb hST (D.hq i) (D.hb i) (D.htc i) (by omega) q3
        refine ⟨i0, b', ({ absorbS sT (D.hq i) (D.hb i) (D.htc i) with out := [] } : RState), bytes', f1, f2, f3, f4, f5, f6, f7,
          by rw [r1]; exact lookup_setKV_same _ _ _, hSL', ⟨f10.walk, f10.below⟩, f11, f12, by rw [r2]; exact f12t, ?_, ?_, ?_, ?_⟩
        · intro m hm hp
          simp only [route, List.append_nil] at hm
          exact f13 m hm hp
        · intro x hx' hxl
          simp only [route, List.append_nil]
          exact f14 x hx' hxl
        · intro m hm hp
          simp only [route, List.append_nil] at hm
          exact f15 m hm hp
        · simp only [route, List.append_nil]
          exact f16
  · -- a replica that is not the leader: it sends no proposal
    obtain ⟨s, hl, hCo, hMo⟩ := hinv.others j hj hjl
    obtain ⟨σ', hd, r1, r2, r3⟩ := deliver_effect k C σ acc j (Ev.timeout (D.tmsg C i)) s hl
    rw [hd]
    have hrp : QuietRoute C j (step k (C.rcfg j) { s with truth := σ.truth, nextBytes := σ.nextBytes } (.timeout (D.tmsg C i))).2 := by
      by_cases hlt : (rec j).length + 1 < (C.rcfg 0).cfg.quorum
      · have hc := hCo hlt
        by_cases hlt2 : (rec j).length + 2 < (C.rcfg 0).cfg.quorum
        · obtain ⟨s', hstep, _⟩ := rcoll_add k C D (s0 j) s j i (rec j) σ.truth σ.nextBytes hS.agg hj hrmem hi hnew' hc
            (hknow s hc.frame) (by rw [hqj]; exact hlt2)
          rw [hstep]; intro m hm; simp [route] at hm
        · exact rcoll_quorum_quiet k C D (s0 j) s j i (rec j) σ.truth σ.nextBytes hS.agg hS.v0
            (by rw [hqj]; exact hq.1) hj hrmem hi hrnd hnew' (hS.init j hj).2.1 hc (hknow s hc.frame) (by rw [hqj]; omega)
            (by rw [hS.leader j hj]; exact fun e => hjl e.symm) C
      · have hc := hMo (by omega)
        obtain ⟨s', hstep, _⟩ := rmoved_add k C D (s0 j) s j i (rec j) σ.truth σ.nextBytes hS.agg (by rw [hqj]; exact hq.1)
          hj hrmem hi hc (hknow s hc.frame)
        rw [hstep]; intro m hm; simp [route] at hm
    have hext := step_ext k (C.rcfg j) { s with truth := σ.truth, nextBytes := σ.nextBytes } (Ev.timeout (D.tmsg C i)) hinv.fresh.2
    have hL : recUpd rec j i L = rec L := recUpd_other _ _ _ _ (fun e => hjl e.symm)
    refine ⟨?_, ?_⟩
    · intro hlt m hm
      rw [hL] at hlt
      simp only [List.mem_append] at hm
      rcases hm with hm | hm
      · exact hx.before hlt m hm
      · exact hrp m hm
    · intro hge
      rw [hL] at hge
      obtain ⟨i0, b', sL, bytes', f1, f2, f3, f4, f5, f6, f7, f8, f9, f10, f11, f12, f12t, f13, f14, f15, f16⟩ := hx.after hge
      refine ⟨i0, b', sL, bytes', f1, f2, f3, f4, f5, f6, f7,
        by rw [r1, lookup_setKV_other _ _ _ _ (fun e => hjl e.symm)]; exact f8, f9, f10, f11, f12,
        by rw [r2]; exact hext.truth _ _ f12t, ?_, ?_, ?_, ?_⟩
      · intro m hm hp
        simp only [List.mem_append] at hm
        rcases hm with hm | hm
        · exact f13 m hm hp
        · rw [(hrp m hm).1] at hp; cases hp
      · intro x hx' hxl
        exact List.mem_append_left _ (f14 x hx' hxl)
      · intro m hm hp
        simp only [List.mem_append] at hm
        rcases hm with hm | hm
        · exact f15 m hm hp
        · rw [(hrp m hm).2] at hp; cases hp
      · exact List.mem_append_left _ f16

/-- **the timeout messages `msgs` are delivered one after the other** (any order): both invariants -/
theorem recx_deliver_rot (k : Keys) (C : SysCfg) (L c2 N : Nat) (D : RecData) (s0 : Nat → RState) (T0 : List (Nat × Atom))
    (hC : RotCfg C) (hl1 : ldr C (D.v + 1) = L) (hl2 : ldr C (D.v + 1 + 1) = c2) (hne12 : L ≠ c2)
    (hS : RecSetupLive k C D s0 L T0) (hY : SyncPreRot C D s0 N)
    (hlockv : ∀ j ∈ C.honest, ∀ i ∈ C.honest, Top C D i → (s0 j).lock.view ≤ (D.hb i).view) :
    ∀ (msgs : List (Nat × Nat)) (rec : Nat → List Nat) (x : SysState × Msgs),
      RecInv k C D s0 L T0 rec x → RecXR C L c2 D s0 N rec x → msgs.Nodup →
      (∀ p ∈ msgs, p.1 ∈ C.honest ∧ p.2 ∈ C.honest ∧ p.2 ≠ p.1 ∧ p.2 ∉ rec p.1) →
      RecInv k C D s0 L T0 (recAll rec msgs) (deliverAll k C x (msgs.map fun p => (p.1, Ev.timeout (D.tmsg C p.2)))) ∧
      RecXR C L c2 D s0 N (recAll rec msgs) (deliverAll k C x (msgs.map fun p => (p.1, Ev.timeout (D.tmsg C p.2)))) := by
  intro msgs
  induction msgs with
  | nil => intro rec x h h' _ _; exact ⟨h, h'⟩
  | cons p rest ih =>
    intro rec x h h' hnd hall
    obtain ⟨j, i⟩ := p
    obtain ⟨σ, acc⟩ := x
    obtain ⟨h1, h2, h3, h4⟩ := hall (j, i) (by simp)
    have hstep := rec_step_lv k C D s0 L T0 hS rec σ acc j i h h1 h2 h3 h4
    have hstep' := recx_step_rot k C L c2 N D s0 T0 hC hl1 hl2 hne12 hS hY hlockv rec σ acc j i h h' h1 h2 h3 h4
    simp only [List.map_cons]
    rw [show ((j, Ev.timeout (D.tmsg C i)) :: rest.map fun p => (p.1, Ev.timeout (D.tmsg C p.2))) =
      [(j, Ev.timeout (D.tmsg C i))] ++ rest.map fun p => (p.1, Ev.timeout (D.tmsg C p.2)) from rfl, deliverAll_append]
    unfold recAll
    apply ih _ _ hstep hstep' (List.nodup_cons.mp hnd).2
    intro p hp
    obtain ⟨q1, q2, q3, q4⟩ := hall p (by simp [hp])
    refine ⟨q1, q2, q3, ?_⟩
    by_cases hpj : p.1 = j
    · rw [hpj, recUpd_same]
      simp only [List.mem_append, List.mem_singleton, not_or]
      refine ⟨by rw [← hpj]; exact q4, ?_⟩
      intro e
      have : p = (j, i) := by
        obtain ⟨a, b⟩ := p
        simp only at hpj e
        rw [hpj, e]
      exact (List.nodup_cons.mp hnd).1 (this ▸ hp)
    · rw [recUpd_other _ _ _ _ hpj]; exact q4


/-- the state after the recovery round with rotating leaders: the leader `L` synchronised at `(v + 1, b')` (its vote for `b'`, bytes
`bytes'`, is on its way to the next leader), everybody else ready to vote for `b'` and able to lead later -/
structure RecDoneRot (k : Keys) (C : SysCfg) (L : Nat) (D : RecData) (N : Nat) (i : Nat) (b' : Block) (bytes' : Nat)
    (σ1 : SysState) : Prop where
  fresh : FreshL σ1.truth σ1.nextBytes
  keys : σ1.reps.map (·.1) = C.honest
  blk : b'.hash = pname (D.v + 1) ∧ b'.parent = b'.qc.hash ∧ b'.view = D.v + 1
  leader : ∃ sL, σ1.reps.lookup L = some sL ∧ SyncM (D.v + 1) (N + 2) b' (D.hb i) sL ∧ WalkZ b' sL
  lbytes : σ1.truth.lookup bytes' = some ⟨L, blkMsg b'.hash⟩
  others : ∀ j ∈ C.honest, j ≠ L → ∃ s, σ1.reps.lookup j = some s ∧
    NLReady k (C.rcfg j) D.v N (D.hb i) b' { s with truth := σ1.truth, nextBytes := σ1.nextBytes } ∧
    markWalk (s.chain.fuel + 1) s.chain.blocks s.lastProposed (D.hb i) = true ∧ b'.qc.view = (D.hb i).view

/-- **the recovery round, exactly**: all timeout messages delivered (any order) — the leader has proposed `b'` on the
highest high QC `D.hq i` of a quorum and is synchronised at `(v + 1, b')`, everybody else has entered view `v + 1` and is
ready to vote for `b'`, and the proposals in flight are exactly those of `b'` -/
theorem recovery_round_done_rot (k : Keys) (C : SysCfg) (L c2 N : Nat) (D : RecData) (s0 : Nat → RState) (T0 : List (Nat × Atom))
    (hC : RotCfg C) (hl1 : ldr C (D.v + 1) = L) (hl2 : ldr C (D.v + 1 + 1) = c2) (hne12 : L ≠ c2)
    (hS : RecSetupLive k C D s0 L T0) (hY : SyncPreRot C D s0 N)
    (hlockv : ∀ j ∈ C.honest, ∀ i ∈ C.honest, Top C D i → (s0 j).lock.view ≤ (D.hb i).view)
    (σ0 : SysState) (h0 : RecStart C s0 T0 σ0) (msgs : List (Nat × Nat)) (hm : FullOrder C msgs) :
    ∃ (i : Nat) (b' : Block) (bytes' : Nat), i ∈ C.honest ∧ Top C D i ∧ b'.view = D.v + 1 ∧ b'.qc = D.hq i ∧ b'.proposer = L ∧
      RecDoneRot k C L D N i b' bytes' (recoveryRound k C D σ0 msgs).1 ∧
      (∀ m ∈ (recoveryRound k C D σ0 msgs).2, isProp m = true → ∃ j, m = propMsg L b' j) ∧
      (∀ j ∈ C.honest, j ≠ L → propMsg L b' j ∈ (recoveryRound k C D σ0 msgs).2) ∧
      (∀ m ∈ (recoveryRound k C D σ0 msgs).2, isVoteEv m = true → m = ownVoteMsg C c2 L b'.hash bytes') ∧
      ownVoteMsg C c2 L b'.hash bytes' ∈ (recoveryRound k C D σ0 msgs).2 := by
  have hq : 2 ≤ (C.rcfg 0).cfg.quorum ∧ (C.rcfg 0).cfg.quorum ≤ C.n := quorum_bounds C.n hS.two
  have hinit : RecInv k C D s0 L T0 (fun _ => []) (σ0, []) := by
    refine ⟨h0.fresh, h0.keys, by intro b a hb; rw [h0.truth]; exact hb, by intro j _; simp, ?_, ?_, ?_⟩
    · intro j hj _
      exact ⟨s0 j, h0.reps j hj, fun _ => (hS.init j hj).1, fun h => by simp at h; omega⟩
    · intro _
      exact ⟨s0 L, h0.reps L hS.lmem, (hS.init L hS.lmem).1⟩
    · intro h; simp at h; omega
  have hinitX : RecXR C L c2 D s0 N (fun _ => []) (σ0, []) := by
    refine ⟨fun _ m hm => by simp at hm, fun h => ?_⟩
    simp at h; omega
  obtain ⟨hfin, hfinX⟩ := recx_deliver_rot k C L c2 N D s0 T0 hC hl1 hl2 hne12 hS hY hlockv msgs (fun _ => []) (σ0, []) hinit hinitX hm.nodup
    (fun p hp => ⟨(hm.valid p hp).1, (hm.valid p hp).2.1, (hm.valid p hp).2.2, by simp⟩)
  have hlen : ∀ j ∈ C.honest, (C.rcfg 0).cfg.quorum ≤ (recAll (fun _ => []) msgs j).length + 1 := by
    intro j hj
    obtain ⟨hnd, hmem⟩ := hfin.recs j hj
    have : C.honest.length ≤ (j :: recAll (fun _ => []) msgs j).length := by
      apply nodup_length_le _ _ hS.nodup
      intro x hx
      by_cases hxj : x = j
      · simp [hxj]
      · exact List.mem_cons_of_mem _ (recAll_mem msgs _ j x (Or.inr (hm.full j hj x hx hxj)))
    simp only [List.length_cons] at this
    have := hS.qh
    omega
  obtain ⟨i, b', sL, bytes', f1, f2, f3, f4, f5, f6, f7, f8, f9, f10, f11, f12, f12t, f13, f14, f15, f16⟩ := hfinX.after (hlen L hS.lmem)
  refine ⟨i, b', bytes', f1, f2, f5, f6, f7, ⟨hfin.fresh, hfin.keys, ⟨f3, f4, f5⟩, ⟨sL, f8, f9, f10⟩, f12t, ?_⟩, f13, f14, f15, f16⟩
  intro j hj hjL
  obtain ⟨s, q1, _, q3⟩ := hfin.others j hj hjL
  have hmv := q3 (hlen j hj)
  refine ⟨s, q1, ?_⟩
  let σ1 := (recoveryRound k C D σ0 msgs).1
  let sT : RState := { s with truth := σ1.truth, nextBytes := σ1.nextBytes }
  have hknow : KnowsAll k C D j sT :=
    (hS.init j hj).2.2.2.mono (by show s.chain = (s0 j).chain; exact hmv.frame.chain) (fun b a hb => hfin.table b a hb)
  obtain ⟨a1, a2, a3, a4⟩ := hknow.qc i f1
  have hidx : absI D.bv j (recAll (fun _ => []) msgs j) ∈ C.honest := by
    have := absI_mem D.bv (recAll (fun _ => []) msgs j) j
    simp only [List.mem_cons] at this
    rcases this with h | h
    · rw [h]; exact hj
    · exact (hfin.recs j hj).2 _ h
  obtain ⟨c1, c2, c3, c4⟩ := hknow.qc _ hidx
  obtain ⟨P, hP1, hP2⟩ := hY.pre.par j hj i f1 f2
  have hlk := hlockv j hj i f1 f2
  refine ⟨?_, by rw [hmv.frame.chain, hmv.frame.lastProposed]; exact hY.mark j hj i f1 f2, by rw [f6]; exact a3⟩
  exact ⟨hmv.view, by show s.lastVoted ≤ _; rw [hmv.frame.lastVoted]; exact (hS.init j hj).2.2.1, hmv.queue,
    by show s.waitingVC = []; rw [hmv.frame.wvc]; exact (hS.init j hj).2.1,
    by show s.waitingProp = []; rw [hmv.frame.wprop]; exact hY.pre.wprop j hj,
    by show s.chain.fetchable = []; rw [hmv.frame.chain]; exact hY.pre.fetch j hj,
    by rw [f6]; exact a1, by rw [f6]; exact a2, by rw [← a3]; exact Nat.le_of_lt a4,
    ⟨P, by show s.chain.blocks.lookup _ = _; rw [hmv.frame.chain]; exact hP1, hP2⟩,
    ruleReady_congr (C.rcfg j) (s0 j) sT _ _ hmv.frame.chain hmv.frame.lock (hS.cover j hj i f1 f2),
    by show s.highQC.view ≤ _; rw [hmv.hqc]; exact Nat.le_of_lt c4,
    by show s.lock.view ≤ _; rw [hmv.frame.lock]; have : (D.hb i).view < D.v := by rw [← a3]; exact a4
       omega,
    by show s.committed.view ≤ _; rw [hmv.frame.committed]; exact hY.pre.committed j hj,
    by intro u hu
       show s.chain.blocks.lookup _ = none ∧ s.votes.lookup _ = none
       rw [hmv.frame.chain, hmv.frame.votes]; exact hY.pre.names j hj u hu,
    by show 2 * s.chain.blocks.length + _ ≤ N; rw [hmv.frame.chain]; exact hY.pre.small j hj,
    by show cmWalk (s.chain.blocks.length + 2) s.chain.blocks s.committed.view _ = true
       rw [hmv.frame.chain, hmv.frame.committed]; exact hY.pre.walk j hj i f1 f2⟩


/-- the proposal round after the recovery, rotating leaders: proposer `L`, next collector `c2` -/
structure PAInvR (C : SysCfg) (L c2 : Nat) (D : RecData) (N i : Nat) (b' : Block) (σ1 : SysState) (bt' : Nat → Nat)
    (done : List Nat) (x : SysState × Msgs) : Prop where
  fresh : FreshL x.1.truth x.1.nextBytes
  keys : x.1.reps.map (·.1) = C.honest
  table : ∀ b a, σ1.truth.lookup b = some a → x.1.truth.lookup b = some a
  leader : x.1.reps.lookup L = σ1.reps.lookup L
  undone : ∀ j, j ≠ L → j ∉ done → x.1.reps.lookup j = σ1.reps.lookup j
  did : ∀ j ∈ done, ∃ s, x.1.reps.lookup j = some s ∧ SyncM (D.v + 1) (N + 2) b' (D.hb i) s ∧ WalkZ b' s ∧
    (j ≠ c2 → x.1.truth.lookup (bt' j) = some ⟨j, blkMsg b'.hash⟩) ∧
    (j = c2 → ∃ sg, s.votes.lookup b'.hash = some [(c2, sg)] ∧
      HonestSig (fun b => x.1.truth.lookup b) (C.rcfg c2).cfg c2 (blkMsg b'.hash) sg)
  btc : x.1.truth.lookup (bt' L) = some ⟨L, blkMsg b'.hash⟩
  flyd : ∀ j, VotedR L c2 done j → x.2.find? (fromVote j) = some (voteMsg C c2 b'.hash bt' j)
  flyn : ∀ j, ¬ VotedR L c2 done j → x.2.find? (fromVote j) = none

theorem pa_step_rot (k : Keys) (C : SysCfg) (L c2 : Nat) (hC : RotCfg C) (D : RecData) (N i : Nat) (b' : Block) (bytes' : Nat)
    (σ1 : SysState) (hl1 : ldr C (D.v + 1) = L) (hl2 : ldr C (D.v + 1 + 1) = c2)
    (hN : N + 12 ≤ 99999) (hR : RecDoneRot k C L D N i b' bytes' σ1)
    (bt' : Nat → Nat) (done : List Nat) (σ : SysState) (acc : Msgs) (j : Nat)
    (hinv : PAInvR C L c2 D N i b' σ1 bt' done (σ, acc)) (hj : j ∈ C.honest) (hjL : j ≠ L) (hnew : j ∉ done) :
    ∃ bt'', PAInvR C L c2 D N i b' σ1 bt'' (done ++ [j]) (deliverAll k C (σ, acc) [propMsg L b' j]) := by
  obtain ⟨s0, hl0, hS0, hmk0, hqb⟩ := hR.others j hj hjL
  have hl : σ.reps.lookup j = some s0 := by rw [hinv.undone j hjL hnew]; exact hl0
  obtain ⟨σ', hd, r1, r2, r3⟩ := deliver_effect k C σ acc j (Ev.propose L b' none) s0 hl
  have hS1 := hS0.table σ.truth σ.nextBytes (fun b a hb => hinv.table b a hb)
  obtain ⟨P, hP1, hP2⟩ := hS1.par
  let sT : RState := { s0 with truth := σ.truth, nextBytes := σ.nextBytes }
  have hqv : b'.qc.view < D.v + 1 := by rw [hqb]; have := hS1.hbv; omega
  have hnewB : sT.chain.blocks.lookup b'.hash = none := by rw [hR.blk.1]; exact (hS1.names (D.v + 1) (by omega)).1
  have hjmem : j ∈ σ.reps.map (·.1) := by rw [hinv.keys]; exact hj
  have hnotV : ¬ VotedR L c2 done j := by
    rintro (⟨e, _⟩ | ⟨e, _⟩)
    · exact hjL e
    · exact hnew e
  show ∃ bt'', PAInvR C L c2 D N i b' σ1 bt'' (done ++ [j]) (deliverAll k C (σ, acc) [(j, Ev.propose L b' none)])
  rw [hd]
  by_cases hjc2 : j = c2
  · subst hjc2
    obtain ⟨n1, n2, n3, n4, n5, n6, n7, ⟨bytes, n8, n9, n10⟩⟩ := nl_step_cur_coll k (C.rcfg j) L D.v N (D.hb i) P b' sT
      hC.scheme hC.agg hC.rules hl1 hl2 (hC.has j j hj) (hC.quorum j).1 hqb
      hS1.view hS1.lastVoted hS1.queue hS1.wvc hS1.wprop hS1.fetch hinv.fresh hN hR.blk.1 hR.blk.2.1 hR.blk.2.2 hqv
      hS1.ver hS1.hasHb hS1.hbv hP1 hP2 hS1.ready hS1.hq hS1.lock hS1.committed hS1.names hS1.small hS1.walk
    have hM : SyncM (D.v + 1) (N + 2) b' (D.hb i) (step k (C.rcfg j) sT (.propose L b' none)).1 :=
      ⟨n1, mark_step sT _ (D.hb i) b' n6 hS1.fetch n1.fetch n5 hnewB hS1.hasHb hmk0, n7⟩
    have hroute := n10 C
    rw [rcfg_id] at hroute
    refine ⟨bt', by rw [r2, r3]; exact n3, by rw [r1, keys_setKV _ _ _ hjmem]; exact hinv.keys, ?_, ?_, ?_, ?_, ?_, ?_, ?_⟩
    · intro b a hb
      rw [r2]; exact n4.truth b a (hinv.table b a hb)
    · rw [r1, lookup_setKV_other _ _ _ _ (fun e => hjL e.symm)]; exact hinv.leader
    · intro x hx hin
      simp only [List.mem_append, List.mem_singleton, not_or] at hin
      rw [r1, lookup_setKV_other _ _ _ _ hin.2]; exact hinv.undone x hx hin.1
    · intro x hx
      simp only [List.mem_append, List.mem_singleton] at hx
      by_cases hxj : x = j
      · subst hxj
        refine ⟨_, by rw [r1]; exact lookup_setKV_same _ _ _, hM, n2, fun h => absurd rfl h, ?_⟩
        intro _
        refine ⟨Sig.multi C.scheme [⟨x, bytes⟩], n9, Or.inl ⟨hC.scheme, bytes, rfl, ?_⟩⟩
        rw [r2]; exact n8
      · rcases hx with hx | hx
        · obtain ⟨t, d2, d3, d4, d5, d6⟩ := hinv.did x hx
          refine ⟨t, by rw [r1, lookup_setKV_other _ _ _ _ hxj]; exact d2, d3, d4, ?_, ?_⟩
          · intro h; rw [r2]; exact n4.truth _ _ (d5 h)
          · intro h
            obtain ⟨sg, e1, e2⟩ := d6 h
            exact ⟨sg, e1, honestSig_mono (fun b a hb => by rw [r2]; exact n4.truth b a hb) e2⟩
        · exact absurd hx hxj
    · rw [r2]; exact n4.truth _ _ hinv.btc
    · intro x hx
      have hx' : VotedR L j done x := by
        rcases hx with h | ⟨h1, h2⟩
        · exact Or.inl h
        · simp only [List.mem_append, List.mem_singleton] at h1
          rcases h1 with h1 | h1
          · exact Or.inr ⟨h1, h2⟩
          · exact absurd h1 h2
      show (acc ++ route C j _).find? (fromVote x) = _
      rw [List.find?_append, hinv.flyd x hx']; rfl
    · intro x hx
      have hx' : ¬ VotedR L j done x := by
        intro h; apply hx
        rcases h with h | ⟨h1, h2⟩
        · exact Or.inl h
        · exact Or.inr ⟨by simp [h1], h2⟩
      show (acc ++ route C j _).find? (fromVote x) = _
      rw [List.find?_append, hinv.flyn x hx', hroute]
      rfl
  · obtain ⟨n1, n2, n3, n4, n5, n6, n7, ⟨bytes, n8, n10⟩⟩ := nl_step_cur_rot k (C.rcfg j) L c2 D.v N (D.hb i) P b' sT
      hC.scheme hC.agg hC.rules hl1 hl2 hjc2 hqb
      hS1.view hS1.lastVoted hS1.queue hS1.wvc hS1.wprop hS1.fetch hinv.fresh hN hR.blk.1 hR.blk.2.1 hR.blk.2.2 hqv
      hS1.ver hS1.hasHb hS1.hbv hP1 hP2 hS1.ready hS1.hq hS1.lock hS1.committed hS1.names hS1.small hS1.walk
    have hM : SyncM (D.v + 1) (N + 2) b' (D.hb i) (step k (C.rcfg j) sT (.propose L b' none)).1 :=
      ⟨n1, mark_step sT _ (D.hb i) b' n6 hS1.fetch n1.fetch n5 hnewB hS1.hasHb hmk0, n7⟩
    have hroute := n10 C
    rw [rcfg_id] at hroute
    let bt'' : Nat → Nat := fun x => if x = j then bytes else bt' x
    have hvm : ∀ x, x ≠ j → voteMsg C c2 b'.hash bt'' x = voteMsg C c2 b'.hash bt' x := by
      intro x hx; simp [voteMsg, bt'', hx]
    refine ⟨bt'', by rw [r2, r3]; exact n3, by rw [r1, keys_setKV _ _ _ hjmem]; exact hinv.keys, ?_, ?_, ?_, ?_, ?_, ?_, ?_⟩
    · intro b a hb
      rw [r2]; exact n4.truth b a (hinv.table b a hb)
    · rw [r1, lookup_setKV_other _ _ _ _ (fun e => hjL e.symm)]; exact hinv.leader
    · intro x hx hin
      simp only [List.mem_append, List.mem_singleton, not_or] at hin
      rw [r1, lookup_setKV_other _ _ _ _ hin.2]; exact hinv.undone x hx hin.1
    · intro x hx
      simp only [List.mem_append, List.mem_singleton] at hx
      by_cases hxj : x = j
      · subst hxj
        refine ⟨_, by rw [r1]; exact lookup_setKV_same _ _ _, hM, n2, ?_, fun h => absurd h hjc2⟩
        intro _
        show σ'.truth.lookup (if x = x then bytes else bt' x) = _
        rw [r2, if_pos rfl]; exact n8
      · rcases hx with hx | hx
        · obtain ⟨t, d2, d3, d4, d5, d6⟩ := hinv.did x hx
          refine ⟨t, by rw [r1, lookup_setKV_other _ _ _ _ hxj]; exact d2, d3, d4, ?_, ?_⟩
          · intro h
            show σ'.truth.lookup (if x = j then bytes else bt' x) = _
            rw [r2, if_neg hxj]; exact n4.truth _ _ (d5 h)
          · intro h
            obtain ⟨sg, e1, e2⟩ := d6 h
            exact ⟨sg, e1, honestSig_mono (fun b a hb => by rw [r2]; exact n4.truth b a hb) e2⟩
        · exact absurd hx hxj
    · show σ'.truth.lookup (if L = j then bytes else bt' L) = _
      rw [r2, if_neg (fun e => hjL e.symm)]; exact n4.truth _ _ hinv.btc
    · intro x hx
      show (acc ++ route C j _).find? (fromVote x) = _
      by_cases hxj : x = j
      · subst hxj
        rw [List.find?_append, hinv.flyn x hnotV, hroute]
        simp [fromVote, voteMsg, bt'']; rfl
      · have hx' : VotedR L c2 done x := by
          rcases hx with h | ⟨h1, h2⟩
          · exact Or.inl h
          · simp only [List.mem_append, List.mem_singleton] at h1
            rcases h1 with h1 | h1
            · exact Or.inr ⟨h1, h2⟩
            · exact absurd h1 hxj
        rw [List.find?_append, hinv.flyd x hx', hvm x hxj]; rfl
    · intro x hx
      have hxj : x ≠ j := fun e => hx (Or.inr ⟨by simp [e], e ▸ hjc2⟩)
      have hx' : ¬ VotedR L c2 done x := by
        intro h; apply hx
        rcases h with h | ⟨h1, h2⟩
        · exact Or.inl h
        · exact Or.inr ⟨by simp [h1], h2⟩
      show (acc ++ route C j _).find? (fromVote x) = _
      rw [List.find?_append, hinv.flyn x hx', hroute]
      have : (j == x) = false := by simpa using fun e => hxj e.symm
      simp [fromVote, this]

theorem pa_deliver_rot (k : Keys) (C : SysCfg) (L c2 : Nat) (hC : RotCfg C) (D : RecData) (N i : Nat) (b' : Block) (bytes' : Nat)
    (σ1 : SysState) (hl1 : ldr C (D.v + 1) = L) (hl2 : ldr C (D.v + 1 + 1) = c2)
    (hN : N + 12 ≤ 99999) (hR : RecDoneRot k C L D N i b' bytes' σ1) :
    ∀ (ord done : List Nat) (bt' : Nat → Nat) (x : SysState × Msgs), PAInvR C L c2 D N i b' σ1 bt' done x → ord.Nodup →
      (∀ j ∈ ord, j ∈ C.honest ∧ j ≠ L ∧ j ∉ done) →
      ∃ bt'', PAInvR C L c2 D N i b' σ1 bt'' (done ++ ord) (deliverAll k C x (ord.map (propMsg L b'))) := by
  intro ord
  induction ord with
  | nil => intro done bt' x h _ _; exact ⟨bt', by rw [List.append_nil]; exact h⟩
  | cons j rest ih =>
    intro done bt' x h hnd hall
    obtain ⟨σ, acc⟩ := x
    obtain ⟨h1, h2, h3⟩ := hall j (by simp)
    obtain ⟨bt1, hstep⟩ := pa_step_rot k C L c2 hC D N i b' bytes' σ1 hl1 hl2 hN hR bt' done σ acc j h h1 h2 h3
    simp only [List.map_cons]
    rw [show (propMsg L b' j :: rest.map (propMsg L b')) = [propMsg L b' j] ++ rest.map (propMsg L b') from rfl,
      deliverAll_append]
    obtain ⟨bt2, this⟩ := ih (done ++ [j]) bt1 _ hstep (List.nodup_cons.mp hnd).2 (by
      intro x hx
      obtain ⟨q1, q2, q3⟩ := hall x (by simp [hx])
      refine ⟨q1, q2, ?_⟩
      simp only [List.mem_append, List.mem_singleton, not_or]
      exact ⟨q3, fun e => (List.nodup_cons.mp hnd).1 (e ▸ hx)⟩)
    rw [List.append_assoc] at this
    exact ⟨bt2, this⟩

theorem find_all_eq {α} (l : List α) (m : α) (p : α → Bool) (hall : ∀ x ∈ l, x = m) :
    (p m = true → m ∈ l → l.find? p = some m) ∧ (p m = false → l.find? p = none) := by
  induction l with
  | nil => exact ⟨fun _ h => by simp at h, fun _ => rfl⟩
  | cons a rest ih =>
    have ha : a = m := hall a (by simp)
    subst ha
    refine ⟨fun hp _ => by simp [List.find?_cons, hp], fun hp => ?_⟩
    rw [List.find?_cons, hp]
    exact (ih (fun x hx => hall x (by simp [hx]))).2 hp

/-- **from the state after the recovery round to phase A, rotating leaders**: the proposals reach everybody else (any order), the
leader's own vote stays in flight to `c2` -/
theorem recDone_phaseA_rot (k : Keys) (C : SysCfg) (L c2 : Nat) (hC : RotCfg C) (D : RecData) (N i : Nat) (b' : Block) (bytes' : Nat)
    (σ1 : SysState) (hl1 : ldr C (D.v + 1) = L) (hl2 : ldr C (D.v + 1 + 1) = c2) (hne12 : L ≠ c2) (hc2m : c2 ∈ C.honest)
    (hLm : L ∈ C.honest)
    (hN : N + 12 ≤ 99999) (hR : RecDoneRot k C L D N i b' bytes' σ1) (cv : Msgs)
    (hcv1 : ∀ m ∈ cv, m = ownVoteMsg C c2 L b'.hash bytes') (hcv2 : ownVoteMsg C c2 L b'.hash bytes' ∈ cv)
    (ord : List Nat) (hord : OthersOrder C L ord) :
    ∃ bt : Nat → Nat,
      PhaseARot C (D.v + 1) (N + 2) b' (D.hb i) bt (deliverAll k C (σ1, cv) (ord.map (propMsg L b'))).1 ∧
      VotesFly C (ldr C (D.v + 1 + 1)) b'.hash bt (deliverAll k C (σ1, cv) (ord.map (propMsg L b'))).2 ∧
      ∀ j ∈ C.honest, ∃ s, (deliverAll k C (σ1, cv) (ord.map (propMsg L b'))).1.reps.lookup j = some s ∧ WalkZ b' s := by
  have hown : ownVoteMsg C c2 L b'.hash bytes' = voteMsg C c2 b'.hash (fun _ => bytes') L := rfl
  have hinit : PAInvR C L c2 D N i b' σ1 (fun _ => bytes') [] (σ1, cv) := by
    refine ⟨hR.fresh, hR.keys, fun _ _ h => h, rfl, fun _ _ _ => rfl, by simp, hR.lbytes, ?_, ?_⟩
    · rintro j (⟨h, _⟩ | ⟨h, _⟩)
      · subst h
        rw [← hown]
        exact (find_all_eq cv _ (fromVote j) hcv1).1 (by simp [ownVoteMsg, fromVote]) hcv2
      · simp at h
    · intro j hj
      have hjL : j ≠ L := fun e => hj (Or.inl ⟨e, hne12⟩)
      have : (L == j) = false := by simpa using fun e => hjL e.symm
      exact (find_all_eq cv _ (fromVote j) hcv1).2 (by simp [ownVoteMsg, fromVote, this])
  obtain ⟨bt', hz⟩ := pa_deliver_rot k C L c2 hC D N i b' bytes' σ1 hl1 hl2 hN hR ord [] _ _ hinit hord.nodup
    (fun j hj => ⟨(hord.mem j hj).1, (hord.mem j hj).2, by simp⟩)
  rw [List.nil_append] at hz
  obtain ⟨sL, hlL, hSL, hWL⟩ := hR.leader
  have hlk : (deliverAll k C (σ1, cv) (ord.map (propMsg L b'))).1.reps.lookup L = some sL := by rw [hz.leader]; exact hlL
  rw [hl2]
  refine ⟨bt', ⟨hz.fresh, hz.keys, by rw [hl2]; exact hc2m, ?_, ?_, ?_⟩, ?_, ?_⟩
  · intro j hj
    by_cases hjL : j = L
    · subst hjL; exact ⟨sL, hlk, hSL⟩
    · obtain ⟨s, d2, d3, _⟩ := hz.did j (hord.full j hj hjL)
      exact ⟨s, d2, d3⟩
  · rw [hl2]
    obtain ⟨s, d2, _, _, _, d6⟩ := hz.did c2 (hord.full c2 hc2m (fun e => hne12 e.symm))
    obtain ⟨sg, e1, e2⟩ := d6 rfl
    exact ⟨s, sg, d2, e1, e2⟩
  · rw [hl2]
    intro j hj hjc2
    by_cases hjL : j = L
    · subst hjL; exact hz.btc
    · obtain ⟨s, _, _, _, d5, _⟩ := hz.did j (hord.full j hj hjL)
      exact d5 hjc2
  · intro j hj hjc2
    apply hz.flyd
    by_cases hjL : j = L
    · exact Or.inl ⟨hjL, hne12⟩
    · exact Or.inr ⟨hord.full j hj hjL, hjc2⟩
  · intro j hj
    by_cases hjL : j = L
    · subst hjL; exact ⟨sL, hlk, hWL⟩
    · obtain ⟨s, d2, _, d4, _⟩ := hz.did j (hord.full j hj hjL)
      exact ⟨s, d2, d4⟩


/-- the proposals in flight reach the replicas `ord`; the votes already in flight (the proposer's own) stay in flight -/
def proposalRoundR (k : Keys) (C : SysCfg) (ord : List Nat) (x : SysState × Msgs) : SysState × Msgs :=
  deliverAll k C (x.1, x.2.filter isVoteEv) (propsIn x.2 ord)

/-- **Recovery reaches phase A with rotating leaders** (and a silent minority): the leader `L` of view `v + 1` and the leader `c2 ≠ L`
of view `v + 2` are participants.  Hypotheses of `recovery_from_reachable_live` (`RecPreLive` with `ℓ = L`) and `SyncPreRot`; the
timeout messages are delivered in any order, then the proposals in any order `ordP` (the leader's own vote for its proposal stays in
flight).  Then: phase A at `(v + 1, b')` with collector `c2`, the votes for `b'` in flight to `c2` (the leader's included), and the
committer's walk from `b'` possible everywhere. -/
theorem recovery_reaches_phaseA_rot (k : Keys) (C : SysCfg) (L c2 : Nat) (hC : RotCfg C) (D : RecData) (s0 : Nat → RState)
    (σ0 : SysState) (blk : Hash → Block) (hk : KeysOK k) (hr : Reach k C σ0) (hca : CA' σ0 blk)
    (hl1 : ldr C (D.v + 1) = L) (hl2 : ldr C (D.v + 1 + 1) = c2) (hne12 : L ≠ c2) (hc2m : c2 ∈ C.honest)
    (hP : RecPreLive k C D s0 L σ0.truth) (h0 : RecStart C s0 σ0.truth σ0)
    (msgs : List (Nat × Nat)) (hm : FullOrder C msgs) (N : Nat) (hY : SyncPreRot C D s0 N)
    (ordP : List Nat) (hordP : OthersOrder C L ordP) :
    ∃ (i : Nat) (b' : Block) (bt : Nat → Nat),
      i ∈ C.honest ∧ Top C D i ∧ b'.view = D.v + 1 ∧ b'.qc = D.hq i ∧ b'.proposer = L ∧
      PhaseARot C (D.v + 1) (N + 2) b' (D.hb i) bt (proposalRoundR k C ordP (recoveryRound k C D σ0 msgs)).1 ∧
      VotesFly C (ldr C (D.v + 1 + 1)) b'.hash bt (proposalRoundR k C ordP (recoveryRound k C D σ0 msgs)).2 ∧
      ∀ j ∈ C.honest, ∃ s, (proposalRoundR k C ordP (recoveryRound k C D σ0 msgs)).1.reps.lookup j = some s ∧ WalkZ b' s := by
  have hS := recSetup_of_reach_lv k C D s0 L σ0 blk hk hr hca hP h0.reps
  have hlockv : ∀ j ∈ C.honest, ∀ i ∈ C.honest, Top C D i → (s0 j).lock.view ≤ (D.hb i).view :=
    fun j hj i hi ht => (top_block_covers_lock_lv k C D s0 L σ0 blk hk hr hca hP h0.reps j i hj hi ht).1
  obtain ⟨i, b', bytes', g1, g2, g3, g4, g5, g6, g7, g8, g9, g10⟩ :=
    recovery_round_done_rot k C L c2 N D s0 σ0.truth hC hl1 hl2 hne12 hS hY hlockv σ0 h0 msgs hm
  have hpi := propsIn_of_pool L b' (recoveryRound k C D σ0 msgs).2 ordP g7 (fun j hj => g8 j (hordP.mem j hj).1 (hordP.mem j hj).2)
  obtain ⟨bt, p1, p2, p3⟩ := recDone_phaseA_rot k C L c2 hC D N i b' bytes' _ hl1 hl2 hne12 hc2m hS.lmem
    (by have := hY.pre.bound; omega) g6 ((recoveryRound k C D σ0 msgs).2.filter isVoteEv)
    (by intro m hm'
        rw [List.mem_filter] at hm'
        exact g9 m hm'.1 hm'.2)
    (by rw [List.mem_filter]; exact ⟨g10, rfl⟩) ordP hordP
  refine ⟨i, b', bt, g1, g2, g3, g4, g5, ?_, ?_, ?_⟩
  · unfold proposalRoundR; rw [hpi]; exact p1
  · unfold proposalRoundR; rw [hpi]; exact p2
  · unfold proposalRoundR; rw [hpi]; exact p3

/-- **Commit after recovery with rotating leaders** (and a silent minority): the leaders of the views `v + 1 … v + 5` are
participants (`v + 5` only receives votes), the leaders of `v + 1` and `v + 2` differ.  From any reachable state that satisfies
`RecPreLive` (leader `ldr C (v + 1)`), `RecStart`, `CA'`, `KeysOK`, `SyncPreRot`: timeout messages (any order), proposals (any order),
three views of the chain (any orders) — every participant has committed the block `b'` of view `v + 1` proposed after the recovery. -/
theorem commit_after_recovery_rot_core (k : Keys) (C : SysCfg) (hC : RotCfg C) (D : RecData) (s0 : Nat → RState)
    (σ0 : SysState) (blk : Hash → Block) (hk : KeysOK k) (hr : Reach k C σ0) (hca : CA' σ0 blk)
    (hne12 : ldr C (D.v + 1) ≠ ldr C (D.v + 1 + 1))
    (hl2 : ldr C (D.v + 1 + 1) ∈ C.honest) (hl3 : ldr C (D.v + 1 + 2) ∈ C.honest) (hl4 : ldr C (D.v + 1 + 3) ∈ C.honest)
    (hl5 : ldr C (D.v + 1 + 4) ∈ C.honest)
    (hP : RecPreLive k C D s0 (ldr C (D.v + 1)) σ0.truth) (h0 : RecStart C s0 σ0.truth σ0)
    (msgs : List (Nat × Nat)) (hm : FullOrder C msgs) (N : Nat) (hY : SyncPreRot C D s0 N)
    (ordP v1 p1 v2 p2 v3 p3 : List Nat) (hordP : OthersOrder C (ldr C (D.v + 1)) ordP)
    (hv1 : OthersOrder C (ldr C (D.v + 1 + 1)) v1) (hp1 : OthersOrder C (ldr C (D.v + 1 + 1)) p1)
    (hv2 : OthersOrder C (ldr C (D.v + 1 + 2)) v2) (hp2 : OthersOrder C (ldr C (D.v + 1 + 2)) p2)
    (hv3 : OthersOrder C (ldr C (D.v + 1 + 3)) v3) (hp3 : OthersOrder C (ldr C (D.v + 1 + 3)) p3) :
    ∃ (i : Nat) (b' : Block), i ∈ C.honest ∧ Top C D i ∧ b'.view = D.v + 1 ∧ b'.qc = D.hq i ∧ b'.proposer = ldr C (D.v + 1) ∧
      ∀ j ∈ C.honest, ∃ s,
        (chainViewRot k C v3 p3 (chainViewRot k C v2 p2 (chainViewRot k C v1 p1
          (proposalRoundR k C ordP (recoveryRound k C D σ0 msgs))))).1.reps.lookup j = some s ∧
        s.committed = b' ∧ s.committed.view = D.v + 1 ∧ (s0 j).committed.view < s.committed.view := by
  obtain ⟨i, b', bt, r1, r2, r3, r4, r5, a1, a2, a3⟩ := recovery_reaches_phaseA_rot k C _ _ hC D s0 σ0 blk hk hr hca rfl rfl hne12 hl2
    hP h0 msgs hm N hY ordP hordP
  obtain ⟨B1, B2, B3, bt3, _, _, _, _, _, c6⟩ := synced_commits_rot k C (D.v + 1) (N + 2) hC b' (D.hb i) bt _
    (by have := hY.pre.bound; omega) a1 a2 a3 hl3 hl4 hl5 v1 p1 v2 p2 v3 p3 hv1 hp1 hv2 hp2 hv3 hp3
  refine ⟨i, b', r1, r2, r3, r4, r5, ?_⟩
  intro j hj
  obtain ⟨_, s, _, d2, d3, _⟩ := c6 j hj
  have hv : s.committed.view = D.v + 1 := by rw [d3]; exact r3
  exact ⟨s, d2, d3, hv, by rw [hv]; have := hY.pre.committed j hj; omega⟩


end HsVerif.Model
