import HsVerif.Proofs.SysChainAll
/-!
Liveness with a SILENT MINORITY (task S12c): only the ids in `C.honest` take part; the other ids `1..n` — at most
`numFaulty n` of them (`FewFaulty C`) — are silent in the synchronous suffix (they may have done anything before: the
start state is any reachable state).  `quorum ≤ C.honest.length` replaces `C.honest.length = C.n`.
Part 1: the structures, `cover` / `top_block_covers_lock` from `FewFaulty`, the recovery round.
-/
open Std.Do
set_option mvcgen.warning false
set_option linter.unusedSimpArgs false
set_option linter.unusedVariables false
namespace HsVerif.Model
open HsVerif.Proofs HsVerif.Props.C08 HsVerif.Props.C01Sys HsVerif.Props.C01SysWF HsVerif.Props.C03 HsVerif.SysSafety
open HsVerif.Props.C05Cover

/-- `HappyCfg` with a silent minority: the `C.honest` replicas (pairwise different ids in `1..n`, at least a quorum of
them) run the model, the fixed leader `L` is one of them -/
structure HappyLive (C : SysCfg) (L : Nat) : Prop where
  scheme : C.scheme ≠ .bls12
  agg : C.agg = false
  rules : C.rules = .chained ∨ C.rules = .simple
  leaders : C.leaders = .fixed L
  nodup : C.honest.Nodup
  range : ∀ i ∈ C.honest, 1 ≤ i ∧ i ≤ C.n
  qh : (C.rcfg 0).cfg.quorum ≤ C.honest.length
  leader : L ∈ C.honest
  two : 2 ≤ C.n

theorem HappyLive.lead {C : SysCfg} {L : Nat} (h : HappyLive C L) (i v : Nat) : (C.rcfg i).leader v = L := by
  unfold RCfg.leader SysCfg.rcfg
  simp [h.leaders]

theorem HappyLive.has {C : SysCfg} {L : Nat} (h : HappyLive C L) (i j : Nat) (hi : i ∈ C.honest) : (C.rcfg j).cfg.has i = true := by
  have := h.range i hi
  simp [Cfg.has, RCfg.cfg, SysCfg.rcfg, this.1, this.2]

theorem HappyLive.quorum {C : SysCfg} {L : Nat} (h : HappyLive C L) (i : Nat) :
    2 ≤ (C.rcfg i).cfg.quorum ∧ (C.rcfg i).cfg.quorum ≤ C.n := by
  show 2 ≤ quorumSize C.n ∧ quorumSize C.n ≤ C.n
  exact quorum_bounds C.n h.two

theorem HappyCfg.toLive {C : SysCfg} {L : Nat} (h : HappyCfg C L) : HappyLive C L :=
  ⟨h.scheme, h.agg, h.rules, h.leaders, h.nodup, h.range, by rw [h.all]; exact (h.quorum 0).2, h.leader, h.two⟩

/-- `RecSetup` with a silent minority: `qh` (a quorum of replicas takes part) in place of `all` -/
structure RecSetupLive (k : Keys) (C : SysCfg) (D : RecData) (s0 : Nat → RState) (ℓ : Nat) (T0 : List (Nat × Atom)) : Prop where
  agg : C.agg = false
  scheme : C.scheme ≠ .bls12
  rules : C.rules ≠ .fast
  v0 : D.v ≠ 0
  nodup : C.honest.Nodup
  range : ∀ i ∈ C.honest, 1 ≤ i ∧ i ≤ C.n
  qh : (C.rcfg 0).cfg.quorum ≤ C.honest.length
  two : 2 ≤ C.n
  leader : ∀ j ∈ C.honest, (C.rcfg j).leader (D.v + 1) = ℓ
  lmem : ℓ ∈ C.honest
  init : ∀ j ∈ C.honest, RColl C D (s0 j) j [] (s0 j) ∧ (s0 j).waitingVC = [] ∧ (s0 j).lastVoted ≤ D.v ∧
    KnowsAll k C D j { s0 j with truth := T0 }
  mark : ∀ i ∈ C.honest, markWalk ((s0 ℓ).chain.fuel + 1) (s0 ℓ).chain.blocks (s0 ℓ).lastProposed (D.hb i) = true
  cover : ∀ j ∈ C.honest, ∀ i ∈ C.honest, Top C D i → RuleReady (C.rcfg j) (s0 j) (D.v + 1) (D.hb i)

/-- `RecPre` with a silent minority: `qh` and `few` (at most `numFaulty n` ids are outside `C.honest`) in place of `all` -/
structure RecPreLive (k : Keys) (C : SysCfg) (D : RecData) (s0 : Nat → RState) (ℓ : Nat) (T0 : List (Nat × Atom)) : Prop where
  agg : C.agg = false
  scheme : C.scheme ≠ .bls12
  rules : C.rules ≠ .fast
  v0 : D.v ≠ 0
  nodup : C.honest.Nodup
  range : ∀ i ∈ C.honest, 1 ≤ i ∧ i ≤ C.n
  qh : (C.rcfg 0).cfg.quorum ≤ C.honest.length
  few : FewFaulty C
  two : 2 ≤ C.n
  leader : ∀ j ∈ C.honest, (C.rcfg j).leader (D.v + 1) = ℓ
  lmem : ℓ ∈ C.honest
  init : ∀ j ∈ C.honest, RColl C D (s0 j) j [] (s0 j) ∧ (s0 j).waitingVC = [] ∧ (s0 j).lastVoted ≤ D.v ∧
    KnowsAll k C D j { s0 j with truth := T0 }
  mark : ∀ i ∈ C.honest, markWalk ((s0 ℓ).chain.fuel + 1) (s0 ℓ).chain.blocks (s0 ℓ).lastProposed (D.hb i) = true
  parents : ∀ j ∈ C.honest, ∀ i ∈ C.honest, Top C D i →
    ((D.hb i).qc.hash = "" ∨ ∃ gb, (s0 j).chain.blocks.lookup (D.hb i).qc.hash = some gb)

theorem RecPre.toLive {k : Keys} {C : SysCfg} {D : RecData} {s0 : Nat → RState} {ℓ : Nat} {T0 : List (Nat × Atom)}
    (h : RecPre k C D s0 ℓ T0) : RecPreLive k C D s0 ℓ T0 :=
  ⟨h.agg, h.scheme, h.rules, h.v0, h.nodup, h.range, by rw [h.all]; exact (quorum_bounds C.n h.two).2, h.fewFaulty, h.two,
    h.leader, h.lmem, h.init, h.mark, h.parents⟩

theorem RecPreLive.ctx {k : Keys} {C : SysCfg} {D : RecData} {s0 : Nat → RState} {ℓ : Nat} {σ : SysState}
    {blk : Hash → Block} (h : RecPreLive k C D s0 ℓ σ.truth) (hk : KeysOK k) (hr : Reach k C σ) (hca : CA' σ blk) :
    Ctx k C σ blk :=
  ⟨hk, hr, Nat.le_trans (by decide) h.two, h.few, h.scheme, h.rules, hca⟩

end HsVerif.Model

namespace HsVerif.SysSafety
open HsVerif.Model HsVerif.Proofs HsVerif.Props HsVerif.Props.C01Sys HsVerif.Props.C01SysWF HsVerif.Safety

section
variable {k : Keys} {C : SysCfg} {σ : SysState} {blk : Hash → Block} (X : Ctx k C σ blk)
include X

/-- **the lock is covered, with Byzantine / silent ids present**: the lock of a replica is GC, and it is genesis or the
voters `S` of its certified child — a quorum of ids `1..n` — are such that every HONEST voter has a high QC at least as
new as the lock (a voter outside `C.honest` says nothing) -/
theorem Ctx.lock_cover_live {j : Nat} {s : RState} (hs : σ.reps.lookup j = some s) :
    GC (SysAbs C σ blk) s.lock ∧
    (s.lock = genesisBlock ∨ ∃ S : List Nat, S.Nodup ∧ quorumSize C.n ≤ S.length ∧
      ∀ r ∈ S, (1 ≤ r ∧ r ≤ C.n) ∧
        (r ∈ C.honest → ∃ sr, σ.reps.lookup r = some sr ∧ s.lock.view ≤ sr.highQC.view)) := by
  rcases (X.safe hs).linv.2.2 with hg | ⟨x, id, hm, p, hp1, _, hp2⟩
  · exact ⟨Or.inl hg, Or.inl hg⟩
  · have V := X.voted hs hm
    have hpx := X.link_voted hs hm hp1
    have hgc : GC (SysAbs C σ blk) p := hpx ▸ V.gc
    obtain ⟨hc, hL⟩ := X.link_gc hs hgc hp2
    have Cp := X.cert hc
    refine ⟨hL ▸ Cp.gc, Or.inr ?_⟩
    obtain ⟨Q, ⟨S, hnd, hlen, hS⟩, hv⟩ := hc
    refine ⟨S, hnd, hlen, ?_⟩
    intro r hr
    obtain ⟨r1, r2, hQr⟩ := hS r hr
    refine ⟨⟨r1, r2⟩, ?_⟩
    intro hh
    obtain ⟨sr, idr, hsr, hmr⟩ := hv r hQr hh
    refine ⟨sr, hsr, ?_⟩
    have hcov : p.qc.view ≤ sr.highQC.view := (reach_hc k C σ X.hr r sr hsr).1 p idr hmr
    have hver : verifyQC (env k (C.rcfg r) sr) p.qc = true := (reach_cur k C σ X.hr r sr hsr).cur.2 p idr hmr
    have hlk := (X.stored hs hp2).1
    rcases verifyQC_blockView k _ sr p.qc hver with ⟨hgh, _⟩ | ⟨b, hb, hbv⟩
    · rw [hlk, hgh, X.hca.1.1]; exact Nat.zero_le _
    · have : b = s.lock := by rw [hlk]; exact (X.stored hsr hb).1
      rw [← this, hbv]; exact hcov

/-- **the `Top` block covers every lock, with a silent / Byzantine minority** (`FewFaulty`, in `Ctx`): the quorum of `Top`
(all honest) and the voters of the lock's certified child (a quorum of ids, at most `numFaulty n` of them not honest)
share an HONEST replica (`quorums_share_honest_id`) -/
theorem Ctx.top_ge_lock_live (D : RecData) (s0 : Nat → RState)
    (hrange : ∀ i ∈ C.honest, 1 ≤ i ∧ i ≤ C.n)
    (hreps : ∀ j ∈ C.honest, σ.reps.lookup j = some (s0 j))
    (hhq : ∀ j ∈ C.honest, (s0 j).highQC = D.hq j)
    (hknow : ∀ j ∈ C.honest, KnowsAll k C D j { s0 j with truth := σ.truth }) :
    ∀ j ∈ C.honest, ∀ i ∈ C.honest, Top C D i →
      (s0 j).lock.view ≤ (D.hb i).view ∧ ((s0 j).lock.view = (D.hb i).view → D.hb i = (s0 j).lock) := by
  intro j hj i hi ht
  have hs := hreps j hj
  obtain ⟨hgcL, hcov⟩ := X.lock_cover_live hs
  obtain ⟨hv, hst, hvw, hlt⟩ := (hknow j hj).qc i hi
  have hgcB : GC (SysAbs C σ blk) (D.hb i) := X.accepted_gc hs hv hst
  refine ⟨?_, fun e => X.gc_unique hgcB hgcL e.symm⟩
  rcases hcov with hg | ⟨S, hSn, hSl, hS⟩
  · rw [hg]; exact Nat.zero_le _
  · obtain ⟨Q, hQn, hQm, hQl, _, hQmax⟩ := ht
    obtain ⟨x, hxS, hxQ, hxh⟩ := quorums_share_honest_id C.n X.hn C.honest S Q X.hf hSn hSl (fun r hr => (hS r hr).1)
      hQn hQl (fun r hr => hrange r (hQm r hr))
    obtain ⟨sr, hsr, hl⟩ := (hS x hxS).2 hxh
    have : sr = s0 x := by
      have := hreps x hxh
      rw [hsr] at this; exact Option.some.inj this
    subst this
    have h1 : (s0 j).lock.view ≤ (D.hb x).view := by
      rw [← ((hknow j hj).qc x hxh).2.2.1, ← hhq x hxh]; exact hl
    exact Nat.le_trans h1 (hQmax x hxQ)

/-- **`cover` from reachability with a silent / Byzantine minority** -/
theorem Ctx.cover_live (D : RecData) (s0 : Nat → RState)
    (hrange : ∀ i ∈ C.honest, 1 ≤ i ∧ i ≤ C.n)
    (hreps : ∀ j ∈ C.honest, σ.reps.lookup j = some (s0 j))
    (hhq : ∀ j ∈ C.honest, (s0 j).highQC = D.hq j)
    (hknow : ∀ j ∈ C.honest, KnowsAll k C D j { s0 j with truth := σ.truth })
    (hpar : ∀ j ∈ C.honest, ∀ i ∈ C.honest, Top C D i →
      ((D.hb i).qc.hash = "" ∨ ∃ gb, (s0 j).chain.blocks.lookup (D.hb i).qc.hash = some gb)) :
    ∀ j ∈ C.honest, ∀ i ∈ C.honest, Top C D i → RuleReady (C.rcfg j) (s0 j) (D.v + 1) (D.hb i) := by
  intro j hj i hi ht
  obtain ⟨hle, heq⟩ := X.top_ge_lock_live D s0 hrange hreps hhq hknow j hj i hi ht
  obtain ⟨_, _, hvw, hlt⟩ := (hknow j hj).qc i hi
  refine ⟨hpar j hj i hi ht, ?_⟩
  split
  · by_cases hlt' : (s0 j).lock.view < (D.hb i).view
    · exact Or.inl hlt'
    · have e : (s0 j).lock.view = (D.hb i).view := by omega
      refine Or.inr ⟨by omega, ?_⟩
      rw [heq e]
      have hf : (s0 j).chain.fuel - 1 = ((s0 j).chain.blocks.length + (s0 j).chain.fetchable.length) + 1 := by
        unfold RChain.fuel; omega
      rw [hf]
      unfold extWalk
      simp
  · exact hle
  · rename_i hfast
    exact absurd hfast X.hrl

end
end HsVerif.SysSafety

namespace HsVerif.Model
open HsVerif.Proofs HsVerif.Props.C08 HsVerif.Props.C01Sys HsVerif.Props.C01SysWF HsVerif.Props.C03 HsVerif.SysSafety
open HsVerif.Props.C05Cover

theorem cover_of_reach_lv (k : Keys) (C : SysCfg) (D : RecData) (s0 : Nat → RState) (ℓ : Nat) (σ : SysState)
    (blk : Hash → Block) (hk : KeysOK k) (hr : Reach k C σ) (hca : CA' σ blk)
    (hP : RecPreLive k C D s0 ℓ σ.truth) (hreps : ∀ j ∈ C.honest, σ.reps.lookup j = some (s0 j)) :
    ∀ j ∈ C.honest, ∀ i ∈ C.honest, Top C D i → RuleReady (C.rcfg j) (s0 j) (D.v + 1) (D.hb i) :=
  Ctx.cover_live (hP.ctx hk hr hca) D s0 hP.range hreps
    (fun j hj => (hP.init j hj).1.hqc) (fun j hj => (hP.init j hj).2.2.2) hP.parents

theorem top_block_covers_lock_lv (k : Keys) (C : SysCfg) (D : RecData) (s0 : Nat → RState) (ℓ : Nat) (σ : SysState)
    (blk : Hash → Block) (hk : KeysOK k) (hr : Reach k C σ) (hca : CA' σ blk)
    (hP : RecPreLive k C D s0 ℓ σ.truth) (hreps : ∀ j ∈ C.honest, σ.reps.lookup j = some (s0 j))
    (j i : Nat) (hj : j ∈ C.honest) (hi : i ∈ C.honest) (ht : Top C D i) :
    (s0 j).lock.view ≤ (D.hb i).view ∧ ((s0 j).lock.view = (D.hb i).view → D.hb i = (s0 j).lock) :=
  Ctx.top_ge_lock_live (hP.ctx hk hr hca) D s0 hP.range hreps
    (fun j hj => (hP.init j hj).1.hqc) (fun j hj => (hP.init j hj).2.2.2) j hj i hi ht

theorem recSetup_of_reach_lv (k : Keys) (C : SysCfg) (D : RecData) (s0 : Nat → RState) (ℓ : Nat) (σ : SysState)
    (blk : Hash → Block) (hk : KeysOK k) (hr : Reach k C σ) (hca : CA' σ blk)
    (hP : RecPreLive k C D s0 ℓ σ.truth) (hreps : ∀ j ∈ C.honest, σ.reps.lookup j = some (s0 j)) :
    RecSetupLive k C D s0 ℓ σ.truth :=
  ⟨hP.agg, hP.scheme, hP.rules, hP.v0, hP.nodup, hP.range, hP.qh, hP.two, hP.leader, hP.lmem, hP.init, hP.mark,
    cover_of_reach_lv k C D s0 ℓ σ blk hk hr hca hP hreps⟩

/-- **one timeout message is delivered** -/
theorem rec_step_lv (k : Keys) (C : SysCfg) (D : RecData) (s0 : Nat → RState) (ℓ : Nat) (T0 : List (Nat × Atom))
    (hS : RecSetupLive k C D s0 ℓ T0) (rec : Nat → List Nat) (σ : SysState) (acc : Msgs) (j i : Nat)
    (hinv : RecInv k C D s0 ℓ T0 rec (σ, acc)) (hj : j ∈ C.honest) (hi : i ∈ C.honest) (hij : i ≠ j) (hnew : i ∉ rec j) :
    RecInv k C D s0 ℓ T0 (recUpd rec j i) (deliverAll k C (σ, acc) [(j, Ev.timeout (D.tmsg C i))]) := by
  have hq : 2 ≤ (C.rcfg 0).cfg.quorum ∧ (C.rcfg 0).cfg.quorum ≤ C.n := quorum_bounds C.n hS.two
  have hqj : ∀ x, (C.rcfg x).cfg.quorum = (C.rcfg 0).cfg.quorum := fun _ => rfl
  obtain ⟨hrnd, hrmem⟩ := hinv.recs j hj
  have hnew' : i ∉ j :: rec j := by
    simp only [List.mem_cons, not_or]; exact ⟨hij, hnew⟩
  have hndj : (rec j).Nodup ∧ j ∉ rec j := by
    rw [List.nodup_cons] at hrnd; exact ⟨hrnd.2, hrnd.1⟩
  -- what holds of `recUpd` in any case
  have hrecs' : ∀ x ∈ C.honest, (x :: recUpd rec j i x).Nodup ∧ ∀ y ∈ recUpd rec j i x, y ∈ C.honest := by
    intro x hx
    by_cases hxj : x = j
    · subst hxj
      rw [recUpd_same]
      refine ⟨?_, ?_⟩
      · rw [List.nodup_cons]
        refine ⟨?_, ?_⟩
        · simp only [List.mem_append, List.mem_singleton, not_or]
          exact ⟨hndj.2, fun e => hij e.symm⟩
        · rw [List.nodup_append]
          exact ⟨hndj.1, by simp, by intro a ha b hb; simp at hb; subst hb; exact fun e => hnew (e ▸ ha)⟩
      · intro y hy
        simp only [List.mem_append, List.mem_singleton] at hy
        rcases hy with hy | rfl
        · exact hrmem y hy
        · exact hi
    · rw [recUpd_other _ _ _ _ hxj]; exact hinv.recs x hx
  have hknow : ∀ (s : RState), Frame (s0 j) s → KnowsAll k C D j { s with truth := σ.truth, nextBytes := σ.nextBytes } := by
    intro s hf
    exact (hS.init j hj).2.2.2.mono (by show s.chain = (s0 j).chain; exact hf.chain) (fun b a hb => hinv.table b a hb)
  by_cases hjl : j = ℓ
  · -- the next leader
    subst hjl
    by_cases hlt : (rec j).length + 1 < (C.rcfg 0).cfg.quorum
    · obtain ⟨s, hl, hc⟩ := hinv.leaderC hlt
      obtain ⟨σ', hd, r1, r2, r3⟩ := deliver_effect k C σ acc j (Ev.timeout (D.tmsg C i)) s hl
      rw [hd]
      by_cases hlt2 : (rec j).length + 2 < (C.rcfg 0).cfg.quorum
      · -- still collecting
        obtain ⟨s', hstep, hc', ht, hn⟩ := rcoll_add k C D (s0 j) s j i (rec j) σ.truth σ.nextBytes hS.agg hj hrmem hi hnew' hc
          (hknow s hc.frame) (by rw [hqj]; exact hlt2)
        rw [hstep] at r1 r2 r3 ⊢
        refine ⟨by rw [r2, r3, ht, hn]; exact hinv.fresh, by rw [r1, keys_setKV _ _ _ (by rw [hinv.keys]; exact hj)]; exact hinv.keys,
          by rw [r2, ht]; exact hinv.table, hrecs', ?_, ?_, ?_⟩
        · intro x hx hxl
          obtain ⟨sx, q1, q2, q3⟩ := hinv.others x hx hxl
          rw [recUpd_other _ _ _ _ hxl]
          exact ⟨sx, by rw [r1, lookup_setKV_other _ _ _ _ hxl]; exact q1, q2, q3⟩
        · intro _
          rw [recUpd_same]
          exact ⟨s', by rw [r1]; exact lookup_setKV_same _ _ _, hc'⟩
        · intro hge
          rw [recUpd_same] at hge
          simp only [List.length_append, List.length_singleton] at hge
          omega
      · -- the quorum: it proposes
        have hge : (C.rcfg j).cfg.quorum ≤ (rec j).length + 2 := by rw [hqj]; omega
        have htop : Top C D (absI D.bv j (rec j ++ [i])) := by
          refine ⟨j :: (rec j ++ [i]), ?_, ?_, ?_, absI_mem D.bv _ j, ?_⟩
          · have := (hrecs' j hj).1; rw [recUpd_same] at this; exact this
          · intro x hx
            simp only [List.mem_cons, List.mem_append, List.mem_singleton, List.not_mem_nil, or_false] at hx
            rcases hx with rfl | hx | rfl
            · exact hj
            · exact hrmem x hx
            · exact hi
          · simp only [List.length_cons, List.length_append, List.length_singleton]; omega
          · intro x hx
            obtain ⟨h1, h2⟩ := absI_max D.bv (rec j ++ [i]) j
            simp only [List.mem_cons] at hx
            rcases hx with rfl | hx
            · exact h1
            · exact h2 x hx
        have hmi : absI D.bv j (rec j ++ [i]) ∈ C.honest := by
          have := absI_mem D.bv (rec j ++ [i]) j
          simp only [List.mem_cons, List.mem_append, List.mem_singleton, List.not_mem_nil, or_false] at this
          rcases this with h | h | h
          · rw [h]; exact hj
          · exact hrmem _ h
          · rw [h]; exact hi
        obtain ⟨b', p1, p2, p3, p4, p5, p6, p7, p8⟩ := rcoll_quorum_leader k C D (s0 j) s j i (rec j) σ.truth σ.nextBytes
          hS.agg hS.scheme hS.rules hS.v0 (by rw [hqj]; exact hq.1) hj hrmem hi hrnd hnew' (hS.init j hj).2.2.1 hc
          (hknow s hc.frame) hinv.fresh hge (hS.leader j hj) (hS.cover j hj _ hmi htop) (hS.mark _ hmi)
        refine ⟨by rw [r2, r3]; exact p7, by rw [r1, keys_setKV _ _ _ (by rw [hinv.keys]; exact hj)]; exact hinv.keys,
          ?_, hrecs', ?_, ?_, ?_⟩
        · intro b a hb
          rw [r2]; exact p8.truth b a (hinv.table b a hb)
        · intro x hx hxl
          obtain ⟨sx, q1, q2, q3⟩ := hinv.others x hx hxl
          rw [recUpd_other _ _ _ _ hxl]
          exact ⟨sx, by rw [r1, lookup_setKV_other _ _ _ _ hxl]; exact q1, q2, q3⟩
        · intro hlt'
          rw [recUpd_same] at hlt'
          simp only [List.length_append, List.length_singleton] at hlt'
          omega
        · intro _
          refine ⟨_, b', by rw [r1]; exact lookup_setKV_same _ _ _, p6, p1, ?_, by rw [p3, p2], p4, ?_⟩
          · rw [p2, recUpd_same]
            have : (rec j ++ [i]).take ((C.rcfg 0).cfg.quorum - 1) = rec j ++ [i] := by
              apply List.take_of_length_le
              simp only [List.length_append, List.length_singleton]; omega
            rw [this]
          · intro x hx hxl
            exact List.mem_append_right _ (route_mem_propose C j x b' none _ p5 hx hxl)
    · -- it has moved on already: whatever it does, it stays in a later view
      obtain ⟨s, b', hl, hv, p1, p2, p3, p4, p5⟩ := hinv.leaderM (by omega)
      obtain ⟨σ', hd, r1, r2, r3⟩ := deliver_effect k C σ acc j (Ev.timeout (D.tmsg C i)) s hl
      rw [hd]
      have hfr' := step_fresh k (C.rcfg j) { s with truth := σ.truth, nextBytes := σ.nextBytes } (Ev.timeout (D.tmsg C i)) hinv.fresh
      have hext := step_ext k (C.rcfg j) { s with truth := σ.truth, nextBytes := σ.nextBytes } (Ev.timeout (D.tmsg C i)) hinv.fresh.2
      refine ⟨by rw [r2, r3]; exact hfr', by rw [r1, keys_setKV _ _ _ (by rw [hinv.keys]; exact hj)]; exact hinv.keys,
        ?_, hrecs', ?_, ?_, ?_⟩
      · intro b a hb
        rw [r2]; exact hext.truth b a (hinv.table b a hb)
      · intro x hx hxl
        obtain ⟨sx, q1, q2, q3⟩ := hinv.others x hx hxl
        rw [recUpd_other _ _ _ _ hxl]
        exact ⟨sx, by rw [r1, lookup_setKV_other _ _ _ _ hxl]; exact q1, q2, q3⟩
      · intro hlt'
        rw [recUpd_same] at hlt'
        simp only [List.length_append, List.length_singleton] at hlt'
        omega
      · intro _
        refine ⟨(step k (C.rcfg j) { s with truth := σ.truth, nextBytes := σ.nextBytes } (Ev.timeout (D.tmsg C i))).1, b',
          by rw [r1]; exact lookup_setKV_same _ _ _,
          Nat.le_trans hv (step_view_mono k (C.rcfg j) { s with truth := σ.truth, nextBytes := σ.nextBytes } _), p1, ?_, p3, p4, ?_⟩
        · rw [p2, recUpd_same, List.take_append_of_le_length (by omega)]
        · intro x hx hxl
          exact List.mem_append_left _ (p5 x hx hxl)
  · -- a replica that is not the next leader
    obtain ⟨s, hl, hC, hM⟩ := hinv.others j hj hjl
    obtain ⟨σ', hd, r1, r2, r3⟩ := deliver_effect k C σ acc j (Ev.timeout (D.tmsg C i)) s hl
    rw [hd]
    -- the three cases give the same kind of result
    have hres : ∃ s' outs, step k (C.rcfg j) { s with truth := σ.truth, nextBytes := σ.nextBytes } (.timeout (D.tmsg C i)) = (s', outs) ∧
        s'.truth = σ.truth ∧ s'.nextBytes = σ.nextBytes ∧
        ((rec j ++ [i]).length + 1 < (C.rcfg 0).cfg.quorum → RColl C D (s0 j) j (rec j ++ [i]) s') ∧
        ((C.rcfg 0).cfg.quorum ≤ (rec j ++ [i]).length + 1 → RMoved C D (s0 j) j (rec j ++ [i]) s') := by
      by_cases hlt : (rec j).length + 1 < (C.rcfg 0).cfg.quorum
      · have hc := hC hlt
        by_cases hlt2 : (rec j).length + 2 < (C.rcfg 0).cfg.quorum
        · obtain ⟨s', hstep, hc', ht, hn⟩ := rcoll_add k C D (s0 j) s j i (rec j) σ.truth σ.nextBytes hS.agg hj hrmem hi hnew' hc
            (hknow s hc.frame) (by rw [hqj]; exact hlt2)
          exact ⟨s', [], hstep, ht, hn, fun _ => hc', fun h => by simp only [List.length_append, List.length_singleton] at h; omega⟩
        · obtain ⟨s', outs, hstep, hc', ht, hn⟩ := rcoll_quorum k C D (s0 j) s j i (rec j) σ.truth σ.nextBytes hS.agg hS.v0
            (by rw [hqj]; exact hq.1) hj hrmem hi hrnd hnew' (hS.init j hj).2.1 hc (hknow s hc.frame) (by rw [hqj]; omega)
            (by rw [hS.leader j hj]; exact fun e => hjl e.symm)
          exact ⟨s', outs, hstep, ht, hn, fun h => by simp only [List.length_append, List.length_singleton] at h; omega, fun _ => hc'⟩
      · have hc := hM (by omega)
        obtain ⟨s', hstep, hc', ht, hn⟩ := rmoved_add k C D (s0 j) s j i (rec j) σ.truth σ.nextBytes hS.agg (by rw [hqj]; exact hq.1)
          hj hrmem hi hc (hknow s hc.frame)
        exact ⟨s', [], hstep, ht, hn, fun h => by simp only [List.length_append, List.length_singleton] at h; omega, fun _ => hc'⟩
    obtain ⟨s', outs, hstep, ht, hn, hC', hM'⟩ := hres
    rw [hstep] at r1 r2 r3 ⊢
    refine ⟨by rw [r2, r3, ht, hn]; exact hinv.fresh, by rw [r1, keys_setKV _ _ _ (by rw [hinv.keys]; exact hj)]; exact hinv.keys,
      by rw [r2, ht]; exact hinv.table, hrecs', ?_, ?_, ?_⟩
    · intro x hx hxl
      by_cases hxj : x = j
      · subst hxj
        rw [recUpd_same]
        exact ⟨s', by rw [r1]; exact lookup_setKV_same _ _ _, hC', hM'⟩
      · obtain ⟨sx, q1, q2, q3⟩ := hinv.others x hx hxl
        rw [recUpd_other _ _ _ _ hxj]
        exact ⟨sx, by rw [r1, lookup_setKV_other _ _ _ _ hxj]; exact q1, q2, q3⟩
    · intro hlt
      rw [recUpd_other _ _ _ _ (fun e => hjl e.symm)] at hlt
      obtain ⟨sl, q1, q2⟩ := hinv.leaderC hlt
      rw [recUpd_other _ _ _ _ (fun e => hjl e.symm)]
      exact ⟨sl, by rw [r1, lookup_setKV_other _ _ _ _ (fun e => hjl e.symm)]; exact q1, q2⟩
    · intro hge
      rw [recUpd_other _ _ _ _ (fun e => hjl e.symm)] at hge
      obtain ⟨sl, b', q1, q2, p1, p2, p3, p4, p5⟩ := hinv.leaderM hge
      rw [recUpd_other _ _ _ _ (fun e => hjl e.symm)]
      exact ⟨sl, b', by rw [r1, lookup_setKV_other _ _ _ _ (fun e => hjl e.symm)]; exact q1, q2, p1, p2, p3, p4,
        fun x hx hxl => List.mem_append_left _ (p5 x hx hxl)⟩

/-- **the timeout messages `msgs` are delivered one after the other** (any order) -/
theorem rec_deliver_lv (k : Keys) (C : SysCfg) (D : RecData) (s0 : Nat → RState) (ℓ : Nat) (T0 : List (Nat × Atom))
    (hS : RecSetupLive k C D s0 ℓ T0) :
    ∀ (msgs : List (Nat × Nat)) (rec : Nat → List Nat) (x : SysState × Msgs),
      RecInv k C D s0 ℓ T0 rec x → msgs.Nodup →
      (∀ p ∈ msgs, p.1 ∈ C.honest ∧ p.2 ∈ C.honest ∧ p.2 ≠ p.1 ∧ p.2 ∉ rec p.1) →
      RecInv k C D s0 ℓ T0 (recAll rec msgs)
        (deliverAll k C x (msgs.map fun p => (p.1, Ev.timeout (D.tmsg C p.2)))) := by
  intro msgs
  induction msgs with
  | nil => intro rec x h _ _; exact h
  | cons p rest ih =>
    intro rec x h hnd hall
    obtain ⟨j, i⟩ := p
    obtain ⟨σ, acc⟩ := x
    obtain ⟨h1, h2, h3, h4⟩ := hall (j, i) (by simp)
    have hstep := rec_step_lv k C D s0 ℓ T0 hS rec σ acc j i h h1 h2 h3 h4
    simp only [List.map_cons]
    rw [show ((j, Ev.timeout (D.tmsg C i)) :: rest.map fun p => (p.1, Ev.timeout (D.tmsg C p.2))) =
      [(j, Ev.timeout (D.tmsg C i))] ++ rest.map fun p => (p.1, Ev.timeout (D.tmsg C p.2)) from rfl, deliverAll_append]
    unfold recAll
    apply ih _ _ hstep (List.nodup_cons.mp hnd).2
    intro p hp
    obtain ⟨q1, q2, q3, q4⟩ := hall p (by simp [hp])
    refine ⟨q1, q2, q3, ?_⟩
    by_cases hpj : p.1 = j
    · rw [hpj, recUpd_same]
      simp only [List.mem_append, List.mem_singleton, not_or]
      refine ⟨by rw [← hpj]; exact q4, ?_⟩
      intro e
      have : p = (j, i) := by
        obtain ⟨a, b⟩ := p
        simp only at hpj e
        rw [hpj, e]
      exact (List.nodup_cons.mp hnd).1 (this ▸ hp)
    · rw [recUpd_other _ _ _ _ hpj]; exact q4

/-- **Recovery**: all replicas are in view `v` and have timed out (`RecSetupLive`); the timeout messages
are delivered, in ANY order `msgs`.  Then every replica is in a view `≥ v + 1`; the leader `ℓ` of view
`v + 1` has proposed a block `b'` of view `v + 1` on a certificate `hq i` that is the highest of a
quorum (`Top`), the proposal is in flight to every other replica; and every other replica, in the
state it is in then, votes for `b'` when it receives the proposal: it stores `b'`, signs it, and
sends the signature as its vote to the leader of view `v + 2` (unless it is that leader). -/
theorem recovery_round_lv (k : Keys) (C : SysCfg) (D : RecData) (s0 : Nat → RState) (ℓ : Nat) (T0 : List (Nat × Atom))
    (hS : RecSetupLive k C D s0 ℓ T0) (σ0 : SysState) (h0 : RecStart C s0 T0 σ0)
    (msgs : List (Nat × Nat)) (hm : FullOrder C msgs) :
    ∃ (i : Nat) (b' : Block),
      i ∈ C.honest ∧ Top C D i ∧
      b'.view = D.v + 1 ∧ b'.qc = D.hq i ∧ b'.parent = (D.hq i).hash ∧ b'.proposer = ℓ ∧
      (∀ j ∈ C.honest, j ≠ ℓ →
        (j, Ev.propose ℓ b' none) ∈ (deliverAll k C (σ0, []) (msgs.map fun p => (p.1, Ev.timeout (D.tmsg C p.2)))).2) ∧
      (∀ j ∈ C.honest, ∃ s,
        (deliverAll k C (σ0, []) (msgs.map fun p => (p.1, Ev.timeout (D.tmsg C p.2)))).1.reps.lookup j = some s ∧
        D.v + 1 ≤ s.view) ∧
      (∀ j ∈ C.honest, j ≠ ℓ → ∃ s bytes,
        (deliverAll k C (σ0, []) (msgs.map fun p => (p.1, Ev.timeout (D.tmsg C p.2)))).1.reps.lookup j = some s ∧
        s.view = D.v + 1 ∧
        (let σ1 := (deliverAll k C (σ0, []) (msgs.map fun p => (p.1, Ev.timeout (D.tmsg C p.2)))).1
         let r := step k (C.rcfg j) { s with truth := σ1.truth, nextBytes := σ1.nextBytes } (.propose ℓ b' none)
         Has b'.hash r.1 ∧ Out.sign (blkMsg b'.hash) ∈ r.2 ∧
         r.1.truth.lookup bytes = some ⟨j, blkMsg b'.hash⟩ ∧
         ((C.rcfg j).leader (D.v + 1 + 1) ≠ j →
           Out.sendVote ((C.rcfg j).leader (D.v + 1 + 1)) (.multi C.scheme [⟨j, bytes⟩]) b'.hash ∈ r.2))) := by
  have hq : 2 ≤ (C.rcfg 0).cfg.quorum ∧ (C.rcfg 0).cfg.quorum ≤ C.n := quorum_bounds C.n hS.two
  -- the initial invariant
  have hinit : RecInv k C D s0 ℓ T0 (fun _ => []) (σ0, []) := by
    refine ⟨h0.fresh, h0.keys, by intro b a hb; rw [h0.truth]; exact hb, by intro j _; simp, ?_, ?_, ?_⟩
    · intro j hj _
      exact ⟨s0 j, h0.reps j hj, fun _ => (hS.init j hj).1, fun h => by simp at h; omega⟩
    · intro _
      exact ⟨s0 ℓ, h0.reps ℓ hS.lmem, (hS.init ℓ hS.lmem).1⟩
    · intro h; simp at h; omega
  have hfin := rec_deliver_lv k C D s0 ℓ T0 hS msgs (fun _ => []) (σ0, []) hinit hm.nodup
    (fun p hp => ⟨(hm.valid p hp).1, (hm.valid p hp).2.1, (hm.valid p hp).2.2, by simp⟩)
  -- everybody has received everybody's message
  have hlen : ∀ j ∈ C.honest, (C.rcfg 0).cfg.quorum ≤ (recAll (fun _ => []) msgs j).length + 1 := by
    intro j hj
    obtain ⟨hnd, hmem⟩ := hfin.recs j hj
    have : C.honest.length ≤ (j :: recAll (fun _ => []) msgs j).length := by
      apply nodup_length_le _ _ hS.nodup
      intro x hx
      by_cases hxj : x = j
      · simp [hxj]
      · exact List.mem_cons_of_mem _ (recAll_mem msgs _ j x (Or.inr (hm.full j hj x hx hxj)))
    simp only [List.length_cons] at this
    have := hS.qh
    omega
  obtain ⟨sl, b', hll, hvl, p1, p2, p3, p4, p5⟩ := hfin.leaderM (hlen ℓ hS.lmem)
  let recl := recAll (fun _ => []) msgs ℓ
  let Q := ℓ :: recl.take ((C.rcfg 0).cfg.quorum - 1)
  let i := absI D.bv ℓ (recl.take ((C.rcfg 0).cfg.quorum - 1))
  obtain ⟨hndl, hmeml⟩ := hfin.recs ℓ hS.lmem
  have hQh : ∀ x ∈ Q, x ∈ C.honest := by
    intro x hx
    simp only [Q, List.mem_cons] at hx
    rcases hx with rfl | hx
    · exact hS.lmem
    · exact hmeml x (List.mem_of_mem_take hx)
  have hiQ : i ∈ Q := absI_mem D.bv _ ℓ
  have hih : i ∈ C.honest := hQh i hiQ
  have htop : Top C D i := by
    refine ⟨Q, ?_, hQh, ?_, hiQ, ?_⟩
    · exact List.Sublist.nodup (List.Sublist.cons_cons ℓ (List.take_sublist _ _)) hndl
    · have hl := hlen ℓ hS.lmem
      have hle : (C.rcfg 0).cfg.quorum - 1 ≤ recl.length := by
        show _ ≤ (recAll (fun _ => []) msgs ℓ).length; omega
      show (C.rcfg 0).cfg.quorum ≤ (recl.take ((C.rcfg 0).cfg.quorum - 1)).length + 1
      rw [List.length_take, Nat.min_eq_left hle]
      omega
    · intro x hx
      obtain ⟨h1, h2⟩ := absI_max D.bv (recl.take ((C.rcfg 0).cfg.quorum - 1)) ℓ
      simp only [Q, List.mem_cons] at hx
      rcases hx with rfl | hx
      · exact h1
      · exact h2 x hx
  refine ⟨i, b', hih, htop, p1, p2, by rw [p3, p2], p4, p5, ?_, ?_⟩
  · intro j hj
    by_cases hjl : j = ℓ
    · subst hjl; exact ⟨sl, hll, hvl⟩
    · obtain ⟨s, q1, _, q3⟩ := hfin.others j hj hjl
      have hmv := q3 (hlen j hj)
      exact ⟨s, q1, by rw [hmv.view]; exact Nat.le_refl _⟩
  · intro j hj hjl
    obtain ⟨s, q1, _, q3⟩ := hfin.others j hj hjl
    have hmv := q3 (hlen j hj)
    let σ1 := (deliverAll k C (σ0, []) (msgs.map fun p => (p.1, Ev.timeout (D.tmsg C p.2)))).1
    let sT : RState := { s with truth := σ1.truth, nextBytes := σ1.nextBytes }
    have hknow : KnowsAll k C D j sT :=
      (hS.init j hj).2.2.2.mono (by show s.chain = (s0 j).chain; exact hmv.frame.chain) (fun b a hb => hfin.table b a hb)
    obtain ⟨a1, a2, a3, a4⟩ := hknow.qc i hih
    have hready : RuleReady (C.rcfg j) sT (D.v + 1) (D.hb i) :=
      ruleReady_congr (C.rcfg j) (s0 j) sT _ _ hmv.frame.chain hmv.frame.lock (hS.cover j hj i hih htop)
    have hbv : b'.view = sT.view := by rw [p1]; exact hmv.view.symm
    obtain ⟨bytes, r1, r2, r3, _, r5⟩ := step_propose_votes k (C.rcfg j) sT ℓ b' (D.hb i) hS.scheme hS.agg (hS.range j hj) hfin.fresh
      hbv (by rw [p1]; show s.lastVoted < _; rw [hmv.frame.lastVoted]; have := (hS.init j hj).2.2.1; omega)
      (by rw [p1]; exact (hS.leader j hj).symm) p3 (by rw [p1, p2]; exact Nat.lt_succ_of_lt a4) (by rw [p2]; exact a1) (by rw [p2]; exact a2)
      (by intro s' hc hl
          exact voteRule_ready (C.rcfg j) s' b' (D.hb i) _ (by rw [p1]; exact ruleReady_congr (C.rcfg j) sT s' _ _ hc hl hready)
            (by rw [hc, p2]; exact a2) (Nat.le_refl _) p3)
      hmv.queue
    refine ⟨s, bytes, q1, hmv.view, r1, r2, r3, ?_⟩
    intro hne
    have := r5 (by rw [p1]; exact hne)
    rw [p1] at this
    exact this


/-- **Recovery from any reachable state with a silent minority** (`recovery_from_reachable` with `RecPreLive`: only the
replicas of `C.honest` — at least a quorum, at most `numFaulty n` ids missing — take part) -/
theorem recovery_from_reachable_lv (k : Keys) (C : SysCfg) (D : RecData) (s0 : Nat → RState) (ℓ : Nat)
    (σ0 : SysState) (blk : Hash → Block) (hk : KeysOK k) (hr : Reach k C σ0) (hca : CA' σ0 blk)
    (hP : RecPreLive k C D s0 ℓ σ0.truth) (h0 : RecStart C s0 σ0.truth σ0)
    (msgs : List (Nat × Nat)) (hm : FullOrder C msgs) :
    ∃ (i : Nat) (b' : Block),
      i ∈ C.honest ∧ Top C D i ∧
      b'.view = D.v + 1 ∧ b'.qc = D.hq i ∧ b'.parent = (D.hq i).hash ∧ b'.proposer = ℓ ∧
      (∀ j ∈ C.honest, j ≠ ℓ →
        (j, Ev.propose ℓ b' none) ∈ (deliverAll k C (σ0, []) (msgs.map fun p => (p.1, Ev.timeout (D.tmsg C p.2)))).2) ∧
      (∀ j ∈ C.honest, ∃ s,
        (deliverAll k C (σ0, []) (msgs.map fun p => (p.1, Ev.timeout (D.tmsg C p.2)))).1.reps.lookup j = some s ∧
        D.v + 1 ≤ s.view) ∧
      (∀ j ∈ C.honest, j ≠ ℓ → ∃ s bytes,
        (deliverAll k C (σ0, []) (msgs.map fun p => (p.1, Ev.timeout (D.tmsg C p.2)))).1.reps.lookup j = some s ∧
        s.view = D.v + 1 ∧
        (let σ1 := (deliverAll k C (σ0, []) (msgs.map fun p => (p.1, Ev.timeout (D.tmsg C p.2)))).1
         let r := step k (C.rcfg j) { s with truth := σ1.truth, nextBytes := σ1.nextBytes } (.propose ℓ b' none)
         Has b'.hash r.1 ∧ Out.sign (blkMsg b'.hash) ∈ r.2 ∧
         r.1.truth.lookup bytes = some ⟨j, blkMsg b'.hash⟩ ∧
         ((C.rcfg j).leader (D.v + 1 + 1) ≠ j →
           Out.sendVote ((C.rcfg j).leader (D.v + 1 + 1)) (.multi C.scheme [⟨j, bytes⟩]) b'.hash ∈ r.2))) :=
  recovery_round_lv k C D s0 ℓ σ0.truth (recSetup_of_reach_lv k C D s0 ℓ σ0 blk hk hr hca hP h0.reps) σ0 h0 msgs hm

end HsVerif.Model
