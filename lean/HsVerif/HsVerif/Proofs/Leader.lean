import HsVerif.Model.Leader
import HsVerif.Spec.Leader
/-! Helper lemmas for C16 (leader rotation). Core Lean only. -/
set_option linter.unusedVariables false
namespace HsVerif.Model.Leader
open HsVerif.Model

/-! ### round-robin -/

theorem rr_window_hit (s n t : Nat) (hn : 0 < n) (ht : t < n) :
    (s + (t + n - s % n) % n) % n = t := by
  have hr : s % n < n := Nat.mod_lt _ hn
  rw [Nat.add_mod, Nat.mod_mod]
  by_cases h : s % n ≤ t
  · have e : t + n - s % n = (t - s % n) + n := by omega
    rw [e, Nat.add_mod_right, Nat.mod_eq_of_lt (by omega : t - s % n < n)]
    rw [show s % n + (t - s % n) = t by omega]
    exact Nat.mod_eq_of_lt ht
  · rw [Nat.mod_eq_of_lt (by omega : t + n - s % n < n)]
    rw [show s % n + (t + n - s % n) = t + n by omega, Nat.add_mod_right]
    exact Nat.mod_eq_of_lt ht

theorem rr_window_inj (s n i j : Nat) (hi : i < n) (hj : j < n)
    (h : (s + i) % n = (s + j) % n) : i = j := by
  have key : ∀ a b : Nat, a ≤ b → b < n → (s + a) % n = (s + b) % n → a = b := by
    intro a b hab hb hm
    have h0 := Nat.sub_mod_eq_zero_of_mod_eq hm.symm
    have e : s + b - (s + a) = b - a := by omega
    rw [e, Nat.mod_eq_of_lt (by omega : b - a < n)] at h0
    omega
  by_cases hij : i ≤ j
  · exact key i j hij hj h
  · exact (key j i (by omega) hi h.symm).symm

/-! ### the walk over the parent chain -/

theorem lastAuthors_length_le (get : Nat → Option Block) (fuel h : Nat) (b : Block) :
    (lastAuthors get fuel h b).length ≤ fuel := by
  induction fuel generalizing h b with
  | zero => simp [lastAuthors]
  | succ k ih =>
    unfold lastAuthors
    split
    · simp
    · cases hg : get b.parent with
      | none => simp
      | some p => simp only [List.length_cons]; have := ih b.parent p; omega

theorem recent_proposer_mem (get : Nat → Option Block) (k h : Nat) (b c : Block)
    (hr : Recent get k h b c) : c.proposer ∈ lastAuthors get k h b := by
  induction hr with
  | here k h b hh => unfold lastAuthors; simp [hh]
  | up k h b p c hh hg _ ih =>
    unfold lastAuthors
    simp only [hh, ↓reduceIte, hg, List.mem_cons]
    exact Or.inr ih

theorem mem_lastAuthors_recent (get : Nat → Option Block) (k h : Nat) (b : Block) (a : Nat)
    (ha : a ∈ lastAuthors get k h b) : ∃ c, Recent get k h b c ∧ c.proposer = a := by
  induction k generalizing h b with
  | zero => simp [lastAuthors] at ha
  | succ k ih =>
    unfold lastAuthors at ha
    split at ha
    · simp at ha
    · rename_i hh
      simp only [List.mem_cons] at ha
      cases ha with
      | inl e => exact ⟨b, Recent.here k h b hh, e.symm⟩
      | inr hm =>
        cases hg : get b.parent with
        | none => simp [hg] at hm
        | some p =>
          simp only [hg] at hm
          obtain ⟨c, hc, he⟩ := ih b.parent p hm
          exact ⟨c, Recent.up k h b p c hh hg hc, he⟩

/-- the walk reads the store only along the walked chain -/
theorem lastAuthors_congr (g₁ g₂ : Nat → Option Block) (k h : Nat) (b : Block)
    (hagree : ∀ c, Recent g₁ k h b c → g₁ c.parent = g₂ c.parent) :
    lastAuthors g₁ k h b = lastAuthors g₂ k h b := by
  induction k generalizing h b with
  | zero => simp [lastAuthors]
  | succ k ih =>
    unfold lastAuthors
    by_cases hh : h = 0
    · simp [hh]
    · simp only [hh, ↓reduceIte]
      have e := hagree b (Recent.here k h b hh)
      rw [← e]
      cases hg : g₁ b.parent with
      | none => rfl
      | some p =>
        simp only
        rw [ih b.parent p (fun c hc => hagree c (Recent.up k h b p c hh hg hc))]

/-! ### candidates -/

theorem mem_insertId (x y : Nat) (l : List Nat) : y ∈ insertId x l ↔ y = x ∨ y ∈ l := by
  induction l with
  | nil => simp [insertId]
  | cons z zs ih =>
    unfold insertId
    split
    · simp
    · simp only [List.mem_cons, ih]
      constructor
      · rintro (h | h | h)
        · exact Or.inr (Or.inl h)
        · exact Or.inl h
        · exact Or.inr (Or.inr h)
      · rintro (h | h | h)
        · exact Or.inr (Or.inl h)
        · exact Or.inl h
        · exact Or.inr (Or.inr h)

theorem mem_sortIds (y : Nat) (l : List Nat) : y ∈ sortIds l ↔ y ∈ l := by
  induction l with
  | nil => simp [sortIds]
  | cons x xs ih =>
    show y ∈ insertId x (sortIds xs) ↔ _
    rw [mem_insertId, ih]; simp

theorem insertId_sorted (x : Nat) (l : List Nat) (h : l.Pairwise (· ≤ ·)) :
    (insertId x l).Pairwise (· ≤ ·) := by
  induction l with
  | nil => simp [insertId]
  | cons z zs ih =>
    unfold insertId
    rw [List.pairwise_cons] at h
    split
    · rename_i hxz
      refine List.pairwise_cons.2 ⟨?_, List.pairwise_cons.2 h⟩
      intro a ha
      simp only [List.mem_cons] at ha
      cases ha with
      | inl e => omega
      | inr hm => have := h.1 a hm; omega
    · rename_i hxz
      refine List.pairwise_cons.2 ⟨?_, ih h.2⟩
      intro a ha
      rw [mem_insertId] at ha
      cases ha with
      | inl e => omega
      | inr hm => exact h.1 a hm

theorem sortIds_sorted (l : List Nat) : (sortIds l).Pairwise (· ≤ ·) := by
  induction l with
  | nil => simp [sortIds]
  | cons x xs ih => exact insertId_sorted x _ ih

theorem mem_candidates (signers authors : List Nat) (x : Nat) :
    x ∈ candidates signers authors ↔ x ∈ signers ∧ x ∉ authors := by
  unfold candidates
  rw [mem_sortIds, List.mem_filter]
  simp

theorem candidates_sorted (signers authors : List Nat) :
    (candidates signers authors).Pairwise (· ≤ ·) := sortIds_sorted _

/-- pigeonhole: more pairwise distinct signers than authors leaves a candidate. -/
theorem candidates_nonempty (signers authors d : List Nat) (hd : d.Nodup)
    (hsub : ∀ x ∈ d, x ∈ signers) (hlen : authors.length < d.length) :
    0 < (candidates signers authors).length := by
  have : ∃ x ∈ d, x ∉ authors := by
    apply Classical.byContradiction
    intro hne
    have hs : d ⊆ authors := by
      intro x hx
      apply Classical.byContradiction
      intro hxa
      exact hne ⟨x, hx, hxa⟩
    have := hd.length_le_of_subset hs
    omega
  obtain ⟨x, hx, hxa⟩ := this
  exact List.length_pos_of_mem ((mem_candidates signers authors x).2 ⟨hsub x hx, hxa⟩)

theorem getD_mem_of_lt {α} (l : List α) (i : Nat) (d : α) (h : i < l.length) : l.getD i d ∈ l := by
  rw [List.getD_eq_getElem?_getD, List.getElem?_eq_getElem h]
  simp

theorem getD_mem_or_default {α} (l : List α) (i : Nat) (d : α) : l.getD i d ∈ l ∨ l.getD i d = d := by
  by_cases h : i < l.length
  · exact Or.inl (getD_mem_of_lt l i d h)
  · right
    rw [List.getD_eq_getElem?_getD, List.getElem?_eq_none (by omega)]
    rfl

/-! ### reputation -/

theorem mem_insertByWeight (c x : Choice) (l : List Choice) :
    x ∈ insertByWeight c l ↔ x = c ∨ x ∈ l := by
  induction l with
  | nil => simp [insertByWeight]
  | cons d ds ih =>
    unfold insertByWeight
    split
    · simp
    · simp only [List.mem_cons, ih]
      constructor
      · rintro (h | h | h)
        · exact Or.inr (Or.inl h)
        · exact Or.inl h
        · exact Or.inr (Or.inr h)
      · rintro (h | h | h)
        · exact Or.inr (Or.inl h)
        · exact Or.inl h
        · exact Or.inr (Or.inr h)

theorem mem_sortByWeight (x : Choice) (l : List Choice) : x ∈ sortByWeight l ↔ x ∈ l := by
  have gen : ∀ (l acc : List Choice), x ∈ l.foldl (fun acc c => insertByWeight c acc) acc ↔ x ∈ acc ∨ x ∈ l := by
    intro l
    induction l with
    | nil => intro acc; simp
    | cons c cs ih =>
      intro acc
      simp only [List.foldl_cons, ih, mem_insertByWeight, List.mem_cons]
      constructor
      · rintro ((h | h) | h)
        · exact Or.inr (Or.inl h)
        · exact Or.inl h
        · exact Or.inr (Or.inr h)
      · rintro (h | h | h)
        · exact Or.inl (Or.inr h)
        · exact Or.inl (Or.inl h)
        · exact Or.inr h
  unfold sortByWeight
  rw [gen]; simp

theorem visit_items (upd : Bool) (d : Float) (reps : List (Nat × Float)) (ids : List Nat) :
    (visit upd d reps ids).2.map (·.item) = ids := by
  induction ids generalizing reps with
  | nil => simp [visit]
  | cons i is ih => simp [visit, ih]

theorem visit_noupd (d : Float) (reps : List (Nat × Float)) (ids : List Nat) :
    (visit false d reps ids).1 = reps := by
  induction ids generalizing reps with
  | nil => simp [visit]
  | cons i is ih => simp [visit, ih]

/-- the state after a query -/
theorem repQueryWith_state (perm : List Choice → List Choice) (cfg : Cfg) (rnd : Int → List Nat)
    (st : RepState) (head : Block) (view : Nat) :
    (repQueryWith perm cfg rnd st head view).1 =
      if head.view > wrapSub64 view cfg.chainLength then st
      else match head.signers with
        | none => st
        | some voters =>
          ⟨if decide (st.prevView < head.view) then head.view else st.prevView,
           (visit (decide (st.prevView < head.view)) (reputationOf voters.length cfg.n) st.reps voters).1⟩ := by
  unfold repQueryWith
  by_cases ho : head.view > wrapSub64 view cfg.chainLength
  · simp only [ho, ↓reduceIte]
  · simp only [ho, ↓reduceIte]
    cases hs : head.signers with
    | none => rfl
    | some voters =>
      simp only
      split
      · rfl
      · split <;> rfl

/-- a query on a head that is not newer than `prevCommitHead` changes nothing -/
theorem repQueryWith_noupd (perm : List Choice → List Choice) (cfg : Cfg) (rnd : Int → List Nat)
    (s : RepState) (head : Block) (w : Nat) (h : ¬ s.prevView < head.view) :
    (repQueryWith perm cfg rnd s head w).1 = s := by
  rw [repQueryWith_state]
  split
  · rfl
  · cases head.signers with
    | none => rfl
    | some voters =>
      simp only [h, decide_false, Bool.false_eq_true, ↓reduceIte, visit_noupd]

/-- after a query that reached the update, `prevCommitHead` is at least as new as the head -/
theorem repQueryWith_prevView (perm : List Choice → List Choice) (cfg : Cfg) (rnd : Int → List Nat)
    (st : RepState) (head : Block) (v : Nat) (voters : List Nat)
    (hv : ¬ head.view > wrapSub64 v cfg.chainLength) (hs : head.signers = some voters) :
    ¬ (repQueryWith perm cfg rnd st head v).1.prevView < head.view := by
  rw [repQueryWith_state]
  simp only [hv, ↓reduceIte, hs]
  by_cases h : st.prevView < head.view
  · simp only [h, decide_true, ↓reduceIte]; omega
  · simp only [h, decide_false, Bool.false_eq_true, ↓reduceIte]; exact id

theorem newChooser_data (sorted : List Choice) (ch : Chooser) (h : newChooser sorted = some ch) :
    ch.data = sorted := by
  unfold newChooser at h
  split at h
  · simp at h
  · simp only at h
    split at h
    · simp at h
    · simp at h; rw [← h]

theorem pickSource_mem (ch : Chooser) (stream : List Nat) (id : Nat)
    (h : pickSource ch stream = some id) : id = 0 ∨ ∃ c ∈ ch.data, c.item = id := by
  unfold pickSource at h
  cases hi : intn ch.max stream with
  | none => simp [hi] at h
  | some r =>
    simp only [hi, Option.map_some, Option.some.injEq] at h
    cases getD_mem_or_default ch.data (searchInts ch.totals (r + 1)) ⟨0, 0⟩ with
    | inl hm => exact Or.inr ⟨_, hm, h⟩
    | inr hd => left; rw [← h, hd]

end HsVerif.Model.Leader
