import HsVerif.Proofs.ReplicaOutFrames
import HsVerif.Props.C08
/-!
Progress of the replica model, one handler at a time (C05, Stage 1): EXACT runs of the handlers on
states that satisfy explicit preconditions.

Technique: no Hoare triples for the exact runs.  Every lemma has the form
`(handler args).run s = pure (result, s')` (the `pure` is `Id`'s; this is the form in which
`simp`'s monad lemmas — `StateT.run_bind`, `pure_bind` … — chain), proved by unfolding the handler
and rewriting with the run lemmas of its parts.  `tryCommit` is kept abstract (`tcS`): frames say
which fields it leaves alone (`TCP`), that it queues passive events only (`QP`) and that it stores
the block.  Passive events (`commit`, `exec`, `abort`) only emit (`runLoop_passive`).  What the
rest of a step does after the handler of interest is bounded by the relation `Later` (effects
appended, store and table extended, view not decreased: Proofs/ReplicaOutFrames.lean).
`createAndPropose` is run through `createAndProposeG`, a copy with the block constructor, the
voter's checks and the tail abstracted: symbolic runs of the original make the kernel evaluate
string operations on stuck terms.

Contents: proposals (`onPropose_run`, `step_propose_exact`, `step_propose_votes`), votes
(`collectVote_quorum_run`, `step_vote_quorum_proposes`, `step_vote_quorum_late`), view changes
(`advanceView_stay`, `advanceView_move`, `createAndPropose_run`), timeouts
(`onRemoteTimeout_quorum_run`, `step_timeout_quorum_newview`, `step_timeout_quorum_proposes`), the
vote rule without fetching (`RuleReady`, `extWalk`, `markWalk`).
-/
open Std.Do
set_option mvcgen.warning false
set_option linter.unusedSimpArgs false
set_option linter.unusedVariables false
namespace HsVerif.Model
open HsVerif.Proofs

/-! ## exact runs of the small pieces -/

theorem getBlock_local (h : Hash) (b : Block) (s : RState) (hl : s.chain.blocks.lookup h = some b) :
    (getBlock h).run s = pure (some b, s) := by
  simp [getBlock, RChain.get, hl]

theorem verifyQC_parts (k : Keys) (c : RCfg) (s : RState) (q : QC) (h : verifyQC (env k c s) q = true)
   (hg : q.hash ≠ genesisHash) : ∃ sg b, q.sig = some sg ∧ c.cfg.quorum ≤ sg.len ∧ s.chain.blocks.lookup q.hash = some b ∧
     q.view = b.view ∧ verify (fun x => s.truth.lookup x) c.cfg sg (blkMsg b.hash) = true := by
  unfold verifyQC at h
  simp [hg] at h
  split at h
  · simp at h
  · split at h
    · simp at h
    · rename_i sg hsg _ b hb
      simp [CertEnv.get, env] at h hb
      exact ⟨sg, b, hsg, by have := of_decide_eq_false h.1; omega, hb, h.2.1, h.2.2⟩

theorem verifyQCM_true (k : Keys) (c : RCfg) (s : RState) (q : QC) (h : verifyQC (env k c s) q = true) :
    (verifyQCM k c q).run s = pure (true, s) := by
  by_cases hg : q.hash = genesisHash
  · simp [verifyQCM, hg, h]
  · obtain ⟨sg, b, h1, h2, hb, _⟩ := verifyQC_parts k c s q h hg
    simp [verifyQCM, hg, h, fetchFor, getBlock_local _ _ _ hb, h1, h2]

/-- bytes of `c.id`'s signature over `m` made in state `s` (Ed25519 reuses the bytes of an earlier
signature over the same message) -/
def signOld (c : RCfg) (m : Msg) (s : RState) : Option (Nat × Atom) :=
  if c.scheme == .eddsa then s.truth.find? (fun p => p.2 == ⟨c.id, m⟩) else none

def signBytes (c : RCfg) (m : Msg) (s : RState) : Nat :=
  match signOld c m s with | some p => p.1 | none => s.nextBytes

/-- the state after `signMsg c m` -/
def signState (c : RCfg) (m : Msg) (s : RState) : RState :=
  match signOld c m s with
  | some _ => { s with out := s.out ++ [.sign m] }
  | none => { s with out := s.out ++ [.sign m], truth := (s.nextBytes, ⟨c.id, m⟩) :: s.truth, nextBytes := s.nextBytes + 1 }

theorem signMsg_run (c : RCfg) (m : Msg) (s : RState) (hs : c.scheme ≠ .bls12) :
    (signMsg c m).run s = pure (.multi c.scheme [⟨c.id, signBytes c m s⟩], signState c m s) := by
  unfold signBytes signState signOld
  simp [signMsg, emit, hs]
  split <;> rename_i h <;> simp [h]

theorem signState_lookup (c : RCfg) (m : Msg) (s : RState) (hf : FreshS s) :
    (signState c m s).truth.lookup (signBytes c m s) = some ⟨c.id, m⟩ := by
  unfold signBytes signState
  cases h : signOld c m s with
  | none => simp
  | some p =>
    simp only
    unfold signOld at h
    split at h
    · have hm := List.mem_of_find?_eq_some h
      have hp := List.find?_some h
      simp at hp
      rw [(FreshL.lookup_iff hf p.1 _)]
      rw [← hp]; exact hm
    · cases h

theorem signState_fresh (c : RCfg) (m : Msg) (s : RState) (hf : FreshS s) : FreshS (signState c m s) := by
  unfold signState
  split
  · exact hf
  · exact FreshL.cons _ hf


theorem voteFor_run (c : RCfg) (b : Block) (id : Nat) (s : RState) (hs : c.scheme ≠ .bls12) :
    (voteFor c b id).run s = pure (.multi c.scheme [⟨c.id, signBytes c (blkMsg b.hash) s⟩],
      { signState c (blkMsg b.hash) s with lastVoted := b.view, ghost := (signState c (blkMsg b.hash) s).ghost ++ [.vote b id] }) := by
  simp [voteFor, signMsg_run c _ _ hs]

theorem voteRule_chained_above (c : RCfg) (hc : c.rules = .chained) (s : RState) (b qb : Block) (view : Nat)
    (h1 : s.chain.blocks.lookup b.qc.hash = some qb)
    (h2 : qb.qc.hash = "" ∨ ∃ gb, s.chain.blocks.lookup qb.qc.hash = some gb)
    (h3 : qb.view > s.lock.view) :
    (voteRule c view b none).run s = pure (true, s) := by
  rcases h2 with h2 | ⟨gb, h2⟩
  · simp [voteRule, hc, getBlock_local _ _ _ h1, h2, h3]
  · by_cases he : qb.qc.hash = ""
    · simp [voteRule, hc, getBlock_local _ _ _ h1, he, h3]
    · simp [voteRule, hc, getBlock_local _ _ _ h1, getBlock_local _ _ _ h2, he, h3]

theorem voteRule_simple_ok (c : RCfg) (hc : c.rules = .simple) (s : RState) (b p : Block) (view : Nat)
    (hv : view ≤ b.view)
    (h1 : s.chain.blocks.lookup b.qc.hash = some p)
    (h2 : p.qc.hash = "" ∨ ∃ gb, s.chain.blocks.lookup p.qc.hash = some gb)
    (h3 : s.lock.view ≤ p.view) :
    (voteRule c view b none).run s = pure (true, s) := by
  have hv' : ¬ b.view < view := by omega
  have h3' : ¬ p.view < s.lock.view := by omega
  rcases h2 with h2 | ⟨gb, h2⟩
  · simp [voteRule, hc, getBlock_local _ _ _ h1, h2, h3', hv']
  · by_cases he : p.qc.hash = ""
    · simp [voteRule, hc, getBlock_local _ _ _ h1, he, h3', hv']
    · simp [voteRule, hc, getBlock_local _ _ _ h1, getBlock_local _ _ _ h2, he, h3', hv']

theorem verifyAnyM_plain (k : Keys) (c : RCfg) (s : RState) (q : QC) (h : verifyQC (env k c s) q = true) :
    (verifyAnyM k c q none).run s = pure (.ok (), s) := by
  simp [verifyAnyM, verifyQCM_true k c s q h]

theorem voterVerify_ok (k : Keys) (c : RCfg) (s : RState) (id : Nat) (b : Block)
    (hlv : s.lastVoted < b.view)
    (hrule : (voteRule c b.view b none).run s = pure (true, s))
    (hqc : verifyQC (env k c s) b.qc = true)
    (hpar : b.parent = b.qc.hash) (hqv : b.qc.view < b.view) (hid : id = c.leader b.view) :
    (voterVerify k c id b none).run s = pure (.ok (), s) := by
  have h1 : ¬ b.view ≤ s.lastVoted := by omega
  have h2 : ¬ b.qc.view ≥ b.view := by omega
  simp [voterVerify, h1, hrule, verifyAnyM_plain k c s _ hqc, hpar, h2, hid]

/-- the state after `UpdateHighQC` with certificate `q` of stored block `nb` -/
def updHighQC (s : RState) (q : QC) (nb : Block) : RState :=
  { s with highQC := if nb.view ≤ s.highQC.view then s.highQC else q }

theorem advanceView_stay (k : Keys) (c : RCfg) (s : RState) (q : QC) (nb : Block) (ha : c.agg = false)
    (hqc : verifyQC (env k c s) q = true) (hnb : s.chain.blocks.lookup q.hash = some nb) (hv : q.view < s.view) :
    (advanceView k c { qc := some q }).run s = pure ((), updHighQC s q nb) := by
  have hnb' : (updHighQC s q nb).chain.blocks.lookup q.hash = some nb := hnb
  simp [advanceView, verifySyncInfo, ha, verifyQCM_true k c s q hqc, getBlock_local _ _ _ hnb, updHighQC, hv]

/-- everything `tryCommit` leaves alone -/
@[reducible] def TCP (s : RState) :=
  (s.view, s.highQC, s.highTC, s.lastVoted, s.lastProposed, s.timeouts, s.lastTimeout, s.votes,
   s.waitingVC, s.waitingProp, s.nextCmd, s.truth, s.nextBytes, s.out, s.ghost)

/-- events whose handling only emits the corresponding effect -/
def Ev.passive : Ev → Bool
  | .commit _ | .exec _ | .abort _ => true
  | _ => false

/-- the queue is `q0` followed by passive events only -/
def QP (q0 : List Ev) (s : RState) : Prop := ∃ q, s.queue = q0 ++ q ∧ ∀ e ∈ q, e.passive = true

theorem qp_add (q0 : List Ev) (s : RState) (e : Ev) (he : e.passive = true) (h : QP q0 s) :
    QP q0 { s with queue := s.queue ++ [e] } := by
  obtain ⟨q, h1, h2⟩ := h
  refine ⟨q ++ [e], by simp [h1], ?_⟩
  intro x hx
  simp at hx
  rcases hx with hx | rfl
  · exact h2 x hx
  · exact he

section TCPFrames
theorem getBlock_tcp (h : Hash) (x) : ⦃fun s => ⌜TCP s = x⌝⦄ getBlock h ⦃⇓ _ s => ⌜TCP s = x⌝⦄ := by
  mvcgen [getBlock] <;> simp_all +zetaDelta
theorem addEvent_tcp (e : Ev) (x) : ⦃fun s => ⌜TCP s = x⌝⦄ addEvent e ⦃⇓ _ s => ⌜TCP s = x⌝⦄ := by
  mvcgen [addEvent] <;> simp_all +zetaDelta
theorem qcRef_tcp (q : QC) (x) : ⦃fun s => ⌜TCP s = x⌝⦄ qcRef q ⦃⇓ _ s => ⌜TCP s = x⌝⦄ := by
  mvcgen [qcRef, getBlock_tcp]
theorem commitRule_tcp (c : RCfg) (b : Block) (x) : ⦃fun s => ⌜TCP s = x⌝⦄ commitRule c b ⦃⇓ _ s => ⌜TCP s = x⌝⦄ := by
  mvcgen [commitRule, qcRef_tcp, getBlock_tcp] <;> simp_all +zetaDelta
theorem commitInner_tcp (fuel : Nat) (b : Block) (x) : ⦃fun s => ⌜TCP s = x⌝⦄ commitInner fuel b ⦃⇓ _ s => ⌜TCP s = x⌝⦄ := by
  induction fuel generalizing b with
  | zero => mvcgen [commitInner]
  | succ n ih => mvcgen [commitInner, getBlock_tcp, addEvent_tcp, ih] <;> simp_all +zetaDelta
theorem tryCommit_tcp (c : RCfg) (b : Block) (x) : ⦃fun s => ⌜TCP s = x⌝⦄ tryCommit c b ⦃⇓ _ s => ⌜TCP s = x⌝⦄ := by
  mvcgen [tryCommit, commitRule_tcp, commitInner_tcp, addEvent_tcp]
  case inv1 => exact ⇓ _ s => ⌜TCP s = x⌝
  all_goals simp_all +zetaDelta

theorem getBlock_qp (h : Hash) (x) : ⦃fun s => ⌜QP x s⌝⦄ getBlock h ⦃⇓ _ s => ⌜QP x s⌝⦄ := by
  mvcgen [getBlock] <;> simp_all +zetaDelta [QP]
theorem addEvent_qp (e : Ev) (he : e.passive = true) (x) : ⦃fun s => ⌜QP x s⌝⦄ addEvent e ⦃⇓ _ s => ⌜QP x s⌝⦄ := by
  mvcgen [addEvent]
  exact qp_add _ _ _ he (by assumption)
theorem qcRef_qp (q : QC) (x) : ⦃fun s => ⌜QP x s⌝⦄ qcRef q ⦃⇓ _ s => ⌜QP x s⌝⦄ := by
  mvcgen [qcRef, getBlock_qp]
theorem commitRule_qp (c : RCfg) (b : Block) (x) : ⦃fun s => ⌜QP x s⌝⦄ commitRule c b ⦃⇓ _ s => ⌜QP x s⌝⦄ := by
  mvcgen [commitRule, qcRef_qp, getBlock_qp] <;> simp_all +zetaDelta [QP]
theorem commitInner_qp (fuel : Nat) (b : Block) (x) : ⦃fun s => ⌜QP x s⌝⦄ commitInner fuel b ⦃⇓ _ s => ⌜QP x s⌝⦄ := by
  induction fuel generalizing b with
  | zero => mvcgen [commitInner]
  | succ n ih =>
    have h1 := addEvent_qp (.commit b) rfl x
    have h2 := addEvent_qp (.exec b) rfl x
    mvcgen [commitInner, getBlock_qp, h1, h2, ih] <;> simp_all +zetaDelta [QP]
theorem tryCommit_qp (c : RCfg) (b : Block) (x) : ⦃fun s => ⌜QP x s⌝⦄ tryCommit c b ⦃⇓ _ s => ⌜QP x s⌝⦄ := by
  have h1 : ∀ f, ⦃fun s => ⌜QP x s⌝⦄ addEvent (.abort f) ⦃⇓ _ s => ⌜QP x s⌝⦄ := fun f => addEvent_qp (.abort f) rfl x
  mvcgen [tryCommit, commitRule_qp, commitInner_qp, h1]
  case inv1 => exact ⇓ _ s => ⌜QP x s⌝
  all_goals simp_all +zetaDelta [QP]
end TCPFrames

/-- the effect of handling a passive event -/
def Ev.toOut : Ev → Out
  | .commit b => .commit b
  | .exec b => .exec b
  | .abort b => .abort b
  | .viewChange v t => .viewChange v t
  | _ => .panic

theorem tick_passive (k : Keys) (c : RCfg) (s : RState) (e : Ev) (rest : List Ev) (he : e.passive = true)
    (hq : s.queue = e :: rest) :
    (tick k c).run s = pure (true, { s with queue := rest, out := s.out ++ [e.toOut] }) := by
  cases e <;> simp [Ev.passive] at he <;> simp [tick, hq, emit, Ev.toOut]

theorem tick_empty (k : Keys) (c : RCfg) (s : RState) (hq : s.queue = []) :
    (tick k c).run s = pure (false, s) := by
  simp [tick, hq]

theorem runLoop_passive (k : Keys) (c : RCfg) : ∀ (q : List Ev) (fuel : Nat) (s : RState),
    (∀ e ∈ q, e.passive = true) →
    (runLoop k c fuel).run { s with queue := q } =
      pure ((), { s with queue := q.drop fuel, out := s.out ++ (q.take fuel).map Ev.toOut }) := by
  intro q
  induction q with
  | nil =>
    intro fuel s _
    cases fuel with
    | zero => simp [runLoop]
    | succ n => simp [runLoop, tick_empty k c { s with queue := [] } rfl]
  | cons e rest ih =>
    intro fuel s hp
    cases fuel with
    | zero => simp [runLoop]
    | succ n =>
      have he := hp e (by simp)
      have hr : ∀ e' ∈ rest, e'.passive = true := fun e' h => hp e' (by simp [h])
      have := ih n { s with out := s.out ++ [e.toOut] } hr
      simp [runLoop, tick_passive k c { s with queue := e :: rest } e rest he rfl, this]

/-- the state after `tryCommit c b` -/
def tcS (c : RCfg) (b : Block) (s : RState) : RState := ((tryCommit c b).run s).2

/-- (deliberately not a `rfl` lemma for `simp`: as a definitional rewrite it makes the kernel compare
`tryCommit` runs on syntactically different states by unfolding them) -/
theorem tryCommit_tcS (c : RCfg) (b : Block) (s : RState) : (tryCommit c b).run s = pure ((), tcS c b s) := by
  have h : ∀ x : Id (Unit × RState), x = pure ((), x.2) := fun _ => rfl
  exact h _

theorem tcS_tcp (c : RCfg) (b : Block) (s : RState) : TCP (tcS c b s) = TCP s :=
  run_res_of_triple _ (fun s' => TCP s' = TCP s) (fun _ s' => TCP s' = TCP s) (tryCommit_tcp c b (TCP s)) s rfl

theorem tcS_qp (c : RCfg) (b : Block) (s : RState) : QP s.queue (tcS c b s) :=
  run_res_of_triple _ (fun s' => QP s.queue s') (fun _ s' => QP s.queue s') (tryCommit_qp c b s.queue) s
    ⟨[], by simp, by simp⟩

theorem tcS_has (c : RCfg) (b : Block) (s : RState) : Has b.hash (tcS c b s) :=
  run_res_of_triple _ (fun _ => True) (fun _ s' => Has b.hash s') (tryCommit_has c b) s trivial

theorem tcS_grows (c : RCfg) (b : Block) (s : RState) : Grows s.chain.blocks (tcS c b s) :=
  grows_run _ (tryCommit_gr c b) s

/-- the state after `voteFor c b id` -/
def voteS (c : RCfg) (b : Block) (id : Nat) (s : RState) : RState :=
  { signState c (blkMsg b.hash) s with lastVoted := b.view, ghost := (signState c (blkMsg b.hash) s).ghost ++ [.vote b id] }

/-- the vote of `c.id` for `b` signed in state `s` -/
def voteSig (c : RCfg) (b : Block) (s : RState) : Sig := .multi c.scheme [⟨c.id, signBytes c (blkMsg b.hash) s⟩]

/-- the state after `onValidPropose k c id b` at a replica that is not the next leader -/
def votedS (c : RCfg) (b : Block) (id : Nat) (s : RState) : RState :=
  let s3 := voteS c b id (tcS c b s)
  { s3 with out := s3.out ++ [.sendVote (c.leader (b.view + 1)) (voteSig c b (tcS c b s)) b.hash] }

theorem onValidPropose_run (k : Keys) (c : RCfg) (id : Nat) (b : Block) (s : RState) (hs : c.scheme ≠ .bls12)
    (hl : c.leader (b.view + 1) ≠ c.id) :
    (onValidPropose k c id b).run s = pure ((), votedS c b id s) := by
  simp [onValidPropose, tryCommit_tcS, voteFor_run c b id _ hs, aggregateVote, hl, emit, votedS, voteS, voteSig]

/-- **`onPropose` on a proposal of the current view that the replica can vote for**
(not the next leader) -/
theorem onPropose_run (k : Keys) (c : RCfg) (s : RState) (ld : Nat) (b qb : Block)
    (hs : c.scheme ≠ .bls12) (ha : c.agg = false)
    (hv : b.view = s.view) (hlv : s.lastVoted < b.view) (hld : ld = c.leader b.view)
    (hpar : b.parent = b.qc.hash) (hqv : b.qc.view < b.view)
    (hqc : verifyQC (env k c s) b.qc = true) (hqb : s.chain.blocks.lookup b.qc.hash = some qb)
    (hrule : ∀ s' : RState, s'.chain = s.chain → s'.lock = s.lock → (voteRule c b.view b none).run s' = pure (true, s'))
    (hl : c.leader (b.view + 1) ≠ c.id) :
    (onPropose k c ld b none).run s = pure ((), votedS c b ld (updHighQC s b.qc qb)) := by
  have h1 := advanceView_stay k c s b.qc qb ha hqc hqb (by omega)
  have h2 : ¬ b.view > (updHighQC s b.qc qb).view + 10 := by simp [updHighQC]; omega
  have h3 : ¬ b.view > (updHighQC s b.qc qb).view := by simp [updHighQC]; omega
  have h4 := voterVerify_ok k c (updHighQC s b.qc qb) ld b hlv (hrule _ rfl rfl) hqc hpar hqv hld
  simp [onPropose, h1, h2, h3, h4, onValidPropose_run k c ld b _ hs hl]


theorem runLoop_succ (k : Keys) (c : RCfg) (n : Nat) (s s' : RState) (h : (tick k c).run s = pure (true, s')) :
    (runLoop k c (n + 1)).run s = (runLoop k c n).run s' := by
  simp [runLoop, h]

theorem tick_propose (k : Keys) (c : RCfg) (s s' : RState) (id : Nat) (b : Block) (agg : Option AggQC) (rest : List Ev)
    (hq : s.queue = .propose id b agg :: rest)
    (h : (onPropose k c id b agg).run { s with queue := rest } = pure ((), s')) :
    (tick k c).run s = pure (true, { s' with waitingProp := [], queue := s'.queue ++ s'.waitingProp }) := by
  simp [tick, hq, h]

theorem votedS_tcp (c : RCfg) (b : Block) (id : Nat) (s : RState) :
    (votedS c b id s).view = s.view ∧ (votedS c b id s).highQC = s.highQC ∧ (votedS c b id s).waitingProp = s.waitingProp ∧
    (votedS c b id s).waitingVC = s.waitingVC ∧ (votedS c b id s).lastVoted = b.view ∧
    (votedS c b id s).votes = s.votes ∧ (votedS c b id s).highTC = s.highTC ∧
    (votedS c b id s).lastProposed = s.lastProposed ∧ (votedS c b id s).timeouts = s.timeouts ∧
    (votedS c b id s).lastTimeout = s.lastTimeout ∧ (votedS c b id s).nextCmd = s.nextCmd := by
  have := tcS_tcp c b s
  simp only [TCP, Prod.mk.injEq] at this
  obtain ⟨h1, h2, h3, h4, h5, h6, h7, h8, h9, h10, h11, h12, h13, h14, h15⟩ := this
  unfold votedS voteS signState
  split <;> simp_all


theorem votedS_queue (c : RCfg) (b : Block) (id : Nat) (s : RState) : (votedS c b id s).queue = (tcS c b s).queue := by
  unfold votedS voteS signState
  split <;> simp

theorem step_propose_exact (k : Keys) (c : RCfg) (s : RState) (ld : Nat) (b qb : Block)
    (hs : c.scheme ≠ .bls12) (ha : c.agg = false)
    (hv : b.view = s.view) (hlv : s.lastVoted < b.view) (hld : ld = c.leader b.view)
    (hpar : b.parent = b.qc.hash) (hqv : b.qc.view < b.view)
    (hqc : verifyQC (env k c s) b.qc = true) (hqb : s.chain.blocks.lookup b.qc.hash = some qb)
    (hrule : ∀ s' : RState, s'.chain = s.chain → s'.lock = s.lock → (voteRule c b.view b none).run s' = pure (true, s'))
    (hl : c.leader (b.view + 1) ≠ c.id) (hq : s.queue = []) (hwp : s.waitingProp = []) :
    let A := votedS c b ld (updHighQC { s with out := [], queue := [] } b.qc qb)
    (∀ e ∈ A.queue, e.passive = true) ∧
    step k c s (.propose ld b none) =
      ({ A with waitingProp := [], queue := A.queue.drop 99999, out := [] },
       A.out ++ (A.queue.take 99999).map Ev.toOut) := by
  intro A
  have hpass : ∀ e ∈ A.queue, e.passive = true := by
    obtain ⟨q, h1, h2⟩ := tcS_qp c b (updHighQC { s with out := [], queue := [] } b.qc qb)
    have : A.queue = q := by
      show (votedS _ _ _ _).queue = q
      rw [votedS_queue, h1]; simp [updHighQC]
    rw [this]; exact h2
  refine ⟨hpass, ?_⟩
  have hon := onPropose_run k c { s with out := [], queue := [] } ld b qb hs ha hv hlv hld hpar hqv hqc hqb hrule hl
  have hwpA : A.waitingProp = [] := by
    have := (votedS_tcp c b ld (updHighQC { s with out := [], queue := [] } b.qc qb)).2.2.1
    rw [show A.waitingProp = _ from this]; simpa [updHighQC] using hwp
  have htick := tick_propose k c { s with out := [], queue := s.queue ++ [.propose ld b none] } A ld b none []
    (by simp [hq]) hon
  have hrl := runLoop_succ k c 99999 _ _ htick
  have hpv := runLoop_passive k c A.queue 99999 { A with waitingProp := [] } hpass
  unfold step
  simp only [show (100000 : Nat) = 99999 + 1 from rfl, hrl]
  rw [show ({ A with waitingProp := [], queue := A.queue ++ A.waitingProp } : RState) =
      { ({ A with waitingProp := [] } : RState) with queue := A.queue } by simp [hwpA]]
  rw [hpv]
  rfl


/-- a freshly made single signature of `c.id` verifies against the table it was entered in -/
theorem verify_own (c : RCfg) (T : Truth) (bytes : Nat) (m : Msg) (hs : c.scheme ≠ .bls12)
    (hid : 1 ≤ c.id ∧ c.id ≤ c.n) (hT : T bytes = some ⟨c.id, m⟩) :
    verify T c.cfg (.multi c.scheme [⟨c.id, bytes⟩]) m = true := by
  simp [verify, verifySingle, hT, Cfg.has, RCfg.cfg, hid.1, hid.2, hasDup, hs]

theorem votedS_sig (k : Keys) (c : RCfg) (b : Block) (id : Nat) (s : RState) (hs : c.scheme ≠ .bls12)
    (hid : 1 ≤ c.id ∧ c.id ≤ c.n) (hf : FreshS s) :
    verify (env k c (votedS c b id s)).T c.cfg (voteSig c b (tcS c b s)) (blkMsg b.hash) = true := by
  have htcp := tcS_tcp c b s
  simp only [TCP, Prod.mk.injEq] at htcp
  have hf' : FreshS (tcS c b s) := by
    unfold FreshS; rw [htcp.2.2.2.2.2.2.2.2.2.2.2.1, htcp.2.2.2.2.2.2.2.2.2.2.2.2.1]; exact hf
  apply verify_own c _ _ _ hs hid
  show (votedS c b id s).truth.lookup _ = _
  have : (votedS c b id s).truth = (signState c (blkMsg b.hash) (tcS c b s)).truth := rfl
  rw [this]
  exact signState_lookup c _ _ hf'

theorem votedS_has (c : RCfg) (b : Block) (id : Nat) (s : RState) : Has b.hash (votedS c b id s) := by
  have h := tcS_has c b s
  have : (votedS c b id s).chain = (tcS c b s).chain := by
    unfold votedS voteS signState; split <;> rfl
  unfold Has at *; rw [this]; exact h

theorem fresh_of_freshS (s : RState) (h : FreshS s) : Fresh s := h.2

/-- later state: effects appended, store and signature table extended -/
structure Later (s s' : RState) : Prop where
  out : ∃ t, s'.out = s.out ++ t
  ext : Ext s s'
  view : s.view ≤ s'.view

theorem Later.trans {s1 s2 s3 : RState} (h12 : Later s1 s2) (h23 : Later s2 s3) : Later s1 s3 := by
  obtain ⟨t1, h1⟩ := h12.out
  obtain ⟨t2, h2⟩ := h23.out
  exact ⟨⟨t1 ++ t2, by rw [h2, h1, List.append_assoc]⟩, h12.ext.trans h23.ext, Nat.le_trans h12.view h23.view⟩

theorem later_of_frames {α} (f : M α)
    (hop : ∀ x, ⦃fun s => ⌜OutPre x s⌝⦄ f ⦃⇓ _ s => ⌜OutPre x s⌝⦄)
    (hgr : ∀ x, ⦃fun s => ⌜Grows x s⌝⦄ f ⦃⇓ _ s => ⌜Grows x s⌝⦄)
    (htf : ∀ x, ⦃fun s => ⌜TF x s⌝⦄ f ⦃⇓ _ s => ⌜TF x s⌝⦄)
    (hvw : ∀ x : Nat, ⦃fun s => ⌜x ≤ s.view⌝⦄ f ⦃⇓ _ s => ⌜x ≤ s.view⌝⦄)
    (s : RState) (hf : Fresh s) : Later s (f.run s).2 :=
  ⟨run_res_of_triple f (fun s' => OutPre s.out s') (fun _ s' => OutPre s.out s') (hop s.out) s ⟨[], by simp⟩,
   ext_of_frames f hgr htf s hf,
   run_res_of_triple f (fun s' => s.view ≤ s'.view) (fun _ s' => s.view ≤ s'.view) (hvw s.view) s (Nat.le_refl _)⟩

theorem Later.mem_out {s s' : RState} (h : Later s s') (o : Out) (ho : o ∈ s.out) : o ∈ s'.out := by
  obtain ⟨t, ht⟩ := h.out
  rw [ht]; exact List.mem_append_left _ ho

theorem Later.has {s s' : RState} (h : Later s s') (x : Hash) (hh : Has x s) : Has x s' :=
  has_of_grows x s s' h.ext.store hh

theorem Later.lookup {s s' : RState} (h : Later s s') (b : Nat) (a : Atom) (hl : s.truth.lookup b = some a) :
    s'.truth.lookup b = some a := h.ext.truth b a hl

theorem runLoop_later (k : Keys) (c : RCfg) (fuel : Nat) (s : RState) (hf : Fresh s) :
    Later s ((runLoop k c fuel).run s).2 :=
  later_of_frames _ (runLoop_op k c fuel) (runLoop_gr k c fuel) (runLoop_tf k c fuel) (runLoop_vw k c fuel) s hf

theorem aggregateVote_later (k : Keys) (c : RCfg) (b : Block) (sg : Sig) (s : RState) (hf : Fresh s) :
    Later s ((aggregateVote k c b sg).run s).2 :=
  later_of_frames _ (aggregateVote_op k c b sg) (aggregateVote_gr k c b sg) (aggregateVote_tf k c b sg) (aggregateVote_vw k c b sg) s hf


theorem onValidPropose_run_gen (k : Keys) (c : RCfg) (id : Nat) (b : Block) (s : RState) (hs : c.scheme ≠ .bls12) :
    (onValidPropose k c id b).run s =
      (aggregateVote k c b (voteSig c b (tcS c b s))).run (voteS c b id (tcS c b s)) := by
  simp [onValidPropose, tryCommit_tcS, voteFor_run c b id _ hs, voteS, voteSig]

theorem onPropose_run_gen (k : Keys) (c : RCfg) (s : RState) (ld : Nat) (b qb : Block)
    (hs : c.scheme ≠ .bls12) (ha : c.agg = false)
    (hv : b.view = s.view) (hlv : s.lastVoted < b.view) (hld : ld = c.leader b.view)
    (hpar : b.parent = b.qc.hash) (hqv : b.qc.view < b.view)
    (hqc : verifyQC (env k c s) b.qc = true) (hqb : s.chain.blocks.lookup b.qc.hash = some qb)
    (hrule : ∀ s' : RState, s'.chain = s.chain → s'.lock = s.lock → (voteRule c b.view b none).run s' = pure (true, s')) :
    (onPropose k c ld b none).run s =
      (aggregateVote k c b (voteSig c b (tcS c b (updHighQC s b.qc qb)))).run
        (voteS c b ld (tcS c b (updHighQC s b.qc qb))) := by
  have h1 := advanceView_stay k c s b.qc qb ha hqc hqb (by omega)
  have h2 : ¬ b.view > (updHighQC s b.qc qb).view + 10 := by simp [updHighQC]; omega
  have h3 : ¬ b.view > (updHighQC s b.qc qb).view := by simp [updHighQC]; omega
  have h4 := voterVerify_ok k c (updHighQC s b.qc qb) ld b hlv (hrule _ rfl rfl) hqc hpar hqv hld
  simp [onPropose, h1, h2, h3, h4, onValidPropose_run_gen k c ld b _ hs]

theorem tick_propose_gen (k : Keys) (c : RCfg) (s s0 : RState) (id : Nat) (b : Block) (agg : Option AggQC) (rest : List Ev)
    (hq : s.queue = .propose id b agg :: rest) (h0 : { s with queue := rest } = s0) :
    (tick k c).run s = pure (true,
      { ((onPropose k c id b agg).run s0).2 with
        waitingProp := [],
        queue := ((onPropose k c id b agg).run s0).2.queue ++ ((onPropose k c id b agg).run s0).2.waitingProp }) := by
  subst h0
  simp [tick, hq]
  rfl

theorem aggregateVote_send (k : Keys) (c : RCfg) (b : Block) (sg : Sig) (s : RState) (hl : c.leader (b.view + 1) ≠ c.id) :
    (aggregateVote k c b sg).run s = pure ((), { s with out := s.out ++ [.sendVote (c.leader (b.view + 1)) sg b.hash] }) := by
  simp [aggregateVote, hl, emit]

theorem tcS_fresh (c : RCfg) (b : Block) (s : RState) (hf : FreshS s) : FreshS (tcS c b s) := by
  have htcp := tcS_tcp c b s
  simp only [TCP, Prod.mk.injEq] at htcp
  unfold FreshS; rw [htcp.2.2.2.2.2.2.2.2.2.2.2.1, htcp.2.2.2.2.2.2.2.2.2.2.2.2.1]; exact hf

theorem tcS_out (c : RCfg) (b : Block) (s : RState) : (tcS c b s).out = s.out := by
  have htcp := tcS_tcp c b s
  simp only [TCP, Prod.mk.injEq] at htcp
  exact htcp.2.2.2.2.2.2.2.2.2.2.2.2.2.1

theorem voteS_facts (c : RCfg) (b : Block) (id : Nat) (s : RState) (hf : FreshS s) :
    (voteS c b id s).out = s.out ++ [.sign (blkMsg b.hash)] ∧
    (voteS c b id s).truth.lookup (signBytes c (blkMsg b.hash) s) = some ⟨c.id, blkMsg b.hash⟩ ∧
    FreshS (voteS c b id s) ∧ (voteS c b id s).chain = s.chain := by
  refine ⟨?_, signState_lookup c _ s hf, signState_fresh c _ s hf, ?_⟩
  · unfold voteS signState; split <;> rfl
  · unfold voteS signState; split <;> rfl

/-- **A proposal of the current view that passes the voter's checks is stored, signed and voted
for**, whatever else the step does (deferred votes that waited for the proposal, a quorum
completed by the replica's own vote …). -/
theorem step_propose_votes (k : Keys) (c : RCfg) (s : RState) (ld : Nat) (b qb : Block)
    (hs : c.scheme ≠ .bls12) (ha : c.agg = false) (hid : 1 ≤ c.id ∧ c.id ≤ c.n) (hf : FreshS s)
    (hv : b.view = s.view) (hlv : s.lastVoted < b.view) (hld : ld = c.leader b.view)
    (hpar : b.parent = b.qc.hash) (hqv : b.qc.view < b.view)
    (hqc : verifyQC (env k c s) b.qc = true) (hqb : s.chain.blocks.lookup b.qc.hash = some qb)
    (hrule : ∀ s' : RState, s'.chain = s.chain → s'.lock = s.lock → (voteRule c b.view b none).run s' = pure (true, s'))
    (hq : s.queue = []) :
    ∃ bytes,
      Has b.hash (step k c s (.propose ld b none)).1 ∧
      Out.sign (blkMsg b.hash) ∈ (step k c s (.propose ld b none)).2 ∧
      (step k c s (.propose ld b none)).1.truth.lookup bytes = some ⟨c.id, blkMsg b.hash⟩ ∧
      verify (env k c (step k c s (.propose ld b none)).1).T c.cfg (.multi c.scheme [⟨c.id, bytes⟩]) (blkMsg b.hash) = true ∧
      (c.leader (b.view + 1) ≠ c.id →
        Out.sendVote (c.leader (b.view + 1)) (.multi c.scheme [⟨c.id, bytes⟩]) b.hash ∈ (step k c s (.propose ld b none)).2) := by
  let s0 : RState := { s with out := [], queue := [] }
  let s1 := updHighQC s0 b.qc qb
  let s2 := tcS c b s1
  let s3 := voteS c b ld s2
  let s4 := ((aggregateVote k c b (voteSig c b s2)).run s3).2
  let s5 : RState := { s4 with waitingProp := [], queue := s4.queue ++ s4.waitingProp }
  let s6 := ((runLoop k c 99999).run s5).2
  have hstep : step k c s (.propose ld b none) = ({ s6 with out := [] }, s6.out) := by
    have hon := onPropose_run_gen k c s0 ld b qb hs ha hv hlv hld hpar hqv hqc hqb hrule
    have htick := tick_propose_gen k c { s with out := [], queue := s.queue ++ [.propose ld b none] } s0 ld b none []
      (by simp [hq]) rfl
    rw [hon] at htick
    have hrl := runLoop_succ k c 99999 _ _ htick
    unfold step
    simp only [show (100000 : Nat) = 99999 + 1 from rfl, hrl]
    rfl
  have hf2 : FreshS s2 := tcS_fresh c b s1 hf
  obtain ⟨ho3, hl3, hf3, hc3⟩ := voteS_facts c b ld s2 hf2
  have h34 : Later s3 s4 := aggregateVote_later k c b _ s3 hf3.2
  have h45 : Later s4 s5 := ⟨⟨[], by simp [s5]⟩, ⟨h34.ext.fresh, fun _ _ h => h, fun _ _ h => h⟩, Nat.le_refl _⟩
  have h56 : Later s5 s6 := runLoop_later k c 99999 s5 h45.ext.fresh
  have h46 := h45.trans h56
  have h36 := h34.trans h46
  have hhas3 : Has b.hash s3 := by
    have := tcS_has c b s1
    unfold Has at *
    rw [show s3.chain = s2.chain from hc3]; exact this
  rw [hstep]
  refine ⟨signBytes c (blkMsg b.hash) s2, ?_, ?_, ?_, ?_, ?_⟩
  · exact h36.has _ hhas3
  · exact h36.mem_out _ (by rw [show s3.out = _ from ho3]; simp)
  · exact h36.lookup _ _ hl3
  · exact verify_own c _ _ _ hs hid (h36.lookup _ _ hl3)
  · intro hl
    have : s4 = { s3 with out := s3.out ++ [.sendVote (c.leader (b.view + 1)) (voteSig c b s2) b.hash] } := by
      show ((aggregateVote k c b (voteSig c b s2)).run s3).2 = _
      rw [aggregateVote_send k c b _ s3 hl]; rfl
    exact h46.mem_out _ (by rw [this]; simp [voteSig])

/-! ## a quorum of votes makes a certificate -/

theorem find_by_fst (l : List (Nat × Sig)) (hk : (l.map (·.1)).Nodup) :
    ∀ w ∈ l, l.find? (fun y => y.1 == w.1) = some w := by
  induction l with
  | nil => intro w hw; simp at hw
  | cons y ys ih =>
    intro w hw
    simp only [List.map_cons, List.nodup_cons, List.mem_map, not_exists, not_and] at hk
    simp only [List.mem_cons] at hw
    rcases hw with rfl | hw
    · simp
    · have hne : (y.1 == w.1) = false := by
        rw [beq_eq_false_iff_ne]; exact fun e => hk.1 w hw e.symm
      rw [List.find?_cons, hne]
      exact ih hk.2 w hw

/-- votes of pairwise different configured replicas, each an honest signature over `m`, combine
into a signature that verifies over `m` (at least two votes) -/
theorem combine_votes_verifies (T : Truth) (c : Cfg) (m : Msg) (votes : List (Nat × Sig))
    (hn : (votes.map (·.1)).Nodup) (h2 : 2 ≤ votes.length)
    (hv : ∀ v ∈ votes, c.has v.1 = true ∧ HonestSig T c v.1 m v.2) :
    ∃ sg, combine c (votes.map (·.2)) = .ok sg ∧ verify T c sg m = true ∧ sg.len = votes.length := by
  let f : Nat → Sig := fun i => ((votes.find? (fun w => w.1 == i)).map (·.2)).getD (.multi .ecdsa [])
  have hfind := find_by_fst votes hn
  have hmap : (votes.map (·.1)).map f = votes.map (·.2) := by
    simp only [List.map_map]
    apply List.map_congr_left
    intro w hw
    simp [f, hfind w hw]
  obtain ⟨sg, h1, h2', h3, _⟩ := combine_honest_verifies T c m (votes.map (·.1)) f hn
    (by intro i hi; obtain ⟨w, hw, rfl⟩ := List.mem_map.mp hi; exact (hv w hw).1)
    (by simpa using h2)
    (by intro i hi
        obtain ⟨w, hw, rfl⟩ := List.mem_map.mp hi
        have : f w.1 = w.2 := by simp [f, hfind w hw]
        rw [this]; exact (hv w hw).2)
  exact ⟨sg, by rw [← hmap]; exact h1, h2', by simpa using h3⟩


/-- `votesCleanup` as a function on the vote table -/
def cleanVotes (s : RState) (l : List (Hash × List (Nat × Sig))) : List (Hash × List (Nat × Sig)) :=
  l.filter fun p =>
    match s.chain.localGet p.1 with
    | some b => !(b.view ≤ s.highQC.view)
    | none => false

/-- the state after `collectVote` has turned the votes for `blk` into the certificate `qc` -/
def qcFormedS (c : RCfg) (s : RState) (hash : Hash) (qc : QC) : RState :=
  { s with votes := cleanVotes s (s.votes.filter (fun p => p.1 != hash)),
           queue := s.queue ++ [.newview c.id { qc := some qc }] }

theorem collectVote_quorum_run (k : Keys) (c : RCfg) (s : RState) (id i bytes : Nat) (hash : Hash) (blk : Block) (d : Bool)
    (sgq : Sig)
    (hblk : s.chain.blocks.lookup hash = some blk) (hh : blk.hash = hash) (hg : hash ≠ genesisHash)
    (hhi : s.highQC.view < blk.view)
    (hver : verify (fun b => s.truth.lookup b) c.cfg (.multi c.scheme [⟨i, bytes⟩]) (blkMsg hash) = true)
    (hnew : ∀ v ∈ (s.votes.lookup hash).getD [], v.1 ≠ i)
    (hq : c.cfg.quorum ≤ ((s.votes.lookup hash).getD []).length + 1)
    (hcomb : combine c.cfg (((s.votes.lookup hash).getD []).map (fun x => x.2) ++ [Sig.multi c.scheme [⟨i, bytes⟩]]) = .ok sgq) :
    (collectVote k c id (some (.multi c.scheme [⟨i, bytes⟩])) hash d).run s =
      pure ((), qcFormedS c s hash ⟨some sgq, blk.view, hash⟩) := by
  subst hh
  have h1 : ¬ blk.view ≤ s.highQC.view := by omega
  have hany : ((s.votes.lookup blk.hash).getD []).any (fun v => v.1 == i) = false := by
    rw [Bool.eq_false_iff]; intro h
    rw [List.any_eq_true] at h
    obtain ⟨v, hv, he⟩ := h
    exact hnew v hv (by simpa using he)
  have hlen : ¬ ((s.votes.lookup blk.hash).getD []).length + 1 < c.cfg.quorum := by omega
  cases d <;>
  simp [collectVote, Sig.len, RChain.localGet, hblk, getBlock_local _ _ _ hblk, h1, verifyPC, CertEnv.get, env, hver,
    Sig.first, Sig.participants, hany, hlen, hg, hcomb, votesCleanup, addEvent, qcFormedS, cleanVotes] <;> rfl


/-! ## leaving a view on a certificate; proposing -/

/-- the state after `advanceView` has left view `s.view` on the certificate `q` of stored block `nb`, for
the view AFTER THE CERTIFICATE (`EnterViewAfter`; before the new leader proposes / the new-view message
is sent) -/
def jumpedS (s : RState) (q : QC) (nb : Block) : RState :=
  { updHighQC s q nb with
    view := q.view + 1, lastTimeout := none,
    ghost := s.ghost ++ [.adv s.view q.view false],
    queue := s.queue ++ [.viewChange (q.view + 1) false] }

/-- **`advanceView` on a verified QC of ANY view `≥` the current one**: the replica enters `q.view + 1` -/
theorem advanceView_jump (k : Keys) (c : RCfg) (s : RState) (q : QC) (nb : Block) (ha : c.agg = false)
    (hqc : verifyQC (env k c s) q = true) (hnb : s.chain.blocks.lookup q.hash = some nb) (hv : s.view ≤ q.view) :
    (advanceView k c { qc := some q }).run s =
      (if c.leader (q.view + 1) = c.id then createAndPropose k c { qc := some (updHighQC s q nb).highQC }
       else emit (.sendNewView (c.leader (q.view + 1)) { qc := some (updHighQC s q nb).highQC })).run (jumpedS s q nb) := by
  have hv' : ¬ q.view < s.view := by omega
  by_cases hl : c.leader (q.view + 1) = c.id
  · simp [advanceView, verifySyncInfo, ha, verifyQCM_true k c s q hqc, getBlock_local _ _ _ hnb, updHighQC, hv', jumpedS, hl, addEvent]
  · simp [advanceView, verifySyncInfo, ha, verifyQCM_true k c s q hqc, getBlock_local _ _ _ hnb, updHighQC, hv', jumpedS, hl, addEvent]

/-- the state after `advanceView` has left view `s.view` on the certificate `q` OF THAT VIEW, of stored
block `nb` (before the new leader proposes / the new-view message is sent) -/
def movedS (s : RState) (q : QC) (nb : Block) : RState :=
  { updHighQC s q nb with
    view := s.view + 1, lastTimeout := none,
    ghost := s.ghost ++ [.adv s.view q.view false],
    queue := s.queue ++ [.viewChange (s.view + 1) false] }

theorem jumpedS_eq_movedS (s : RState) (q : QC) (nb : Block) (hv : s.view = q.view) : jumpedS s q nb = movedS s q nb := by
  simp [jumpedS, movedS, hv]

/-- the certificate is for the current view (the happy path, recovery, the chain): the next view -/
theorem advanceView_move (k : Keys) (c : RCfg) (s : RState) (q : QC) (nb : Block) (ha : c.agg = false)
    (hqc : verifyQC (env k c s) q = true) (hnb : s.chain.blocks.lookup q.hash = some nb) (hv : s.view = q.view) :
    (advanceView k c { qc := some q }).run s =
      (if c.leader (s.view + 1) = c.id then createAndPropose k c { qc := some (updHighQC s q nb).highQC }
       else emit (.sendNewView (c.leader (s.view + 1)) { qc := some (updHighQC s q nb).highQC })).run (movedS s q nb) := by
  rw [advanceView_jump k c s q nb ha hqc hnb (Nat.le_of_eq hv), jumpedS_eq_movedS s q nb hv, ← hv]

/-- the block `createAndPropose` makes in view `view` with command number `nextCmd` on certificate `qc` -/
def mkBlock (c : RCfg) (view nextCmd : Nat) (qc : QC) : Block :=
  { hash := s!"P{view}", parent := qc.hash, view := view, proposer := c.id, qc := qc,
    cmds := [s!"{c.cmdClient}/{nextCmd}/c{nextCmd}"] }

/-- what a leader does with its own block once the voter's checks have passed -/
def proposeTail (k : Keys) (c : RCfg) (b : Block) (agg : Option AggQC) : M Unit := do
  let sg ← voteFor c b c.id
  tryCommit c b
  emit (.sendPropose b agg)
  aggregateVote k c b sg

/-- `createAndPropose` with the block construction (`mk`), the voter's checks (`vv`) and what
follows them (`tail`) abstracted.  (Symbolic runs of `createAndPropose` itself make the kernel
evaluate the whole program on the symbolic state, string operations on stuck terms included:
seconds per lemma.) -/
def createAndProposeG (mk : Nat → Nat → QC → Block) (vv : Block → Option AggQC → M (VRes Unit))
    (tail : Block → Option AggQC → M Unit) (fast : Bool) (si : SyncInfo) : M Unit := do
    let s ← get
    let view := s.view
    match ← getBlock s.highQC.hash with
    | none => return
    | some qcBlock =>
    let s ← get
    if !(← markProposed (s.chain.fuel + 1) qcBlock) then return
    modify fun s => { s with lastProposed := view }
    let s ← get
    modify fun s => { s with nextCmd := s.nextCmd + 1 }
    match si.qc with
    | none => return
    | some qc =>
      let b : Block := mk view s.nextCmd qc
      let agg := if fast then si.agg else none
      match ← vv b agg with
      | .panic => emit .panic
      | .reject => return
      | .ok () => tail b agg

theorem createAndPropose_G (k : Keys) (c : RCfg) (si : SyncInfo) :
    createAndPropose k c si =
      createAndProposeG (mkBlock c) (voterVerify k c c.id) (proposeTail k c) (c.rules == .fast) si := rfl

theorem proposeTail_run (k : Keys) (c : RCfg) (b : Block) (s : RState) (hs : c.scheme ≠ .bls12) :
    (proposeTail k c b none).run s =
      (aggregateVote k c b (voteSig c b s)).run
        { tcS c b (voteS c b c.id s) with out := (tcS c b (voteS c b c.id s)).out ++ [.sendPropose b none] } := by
  simp [proposeTail, voteFor_run c _ c.id _ hs, tryCommit_tcS, emit, voteS, voteSig]

/-- the state in which `createAndPropose` runs the voter's checks on its own block -/
def propS (s : RState) : RState := { s with lastProposed := s.view, nextCmd := s.nextCmd + 1 }

theorem createAndProposeG_run (mk : Nat → Nat → QC → Block) (vv : Block → Option AggQC → M (VRes Unit))
    (tail : Block → Option AggQC → M Unit) (s : RState) (qc : QC) (hb : Block) (tc : Option TC)
    (hhb : s.chain.blocks.lookup s.highQC.hash = some hb)
    (hmark : (markProposed (s.chain.fuel + 1) hb).run s = pure (true, s))
    (hvv : (vv (mk s.view s.nextCmd qc) none).run (propS s) = pure (.ok (), propS s)) :
    (createAndProposeG mk vv tail false { qc := some qc, tc := tc }).run s =
      (tail (mk s.view s.nextCmd qc) none).run (propS s) := by
  simp only [propS] at hvv
  simp [createAndProposeG, getBlock_local _ _ _ hhb, hmark, hvv, propS]

/-- the block `createAndPropose` makes in state `s` on certificate `qc` -/
def newBlock (c : RCfg) (s : RState) (qc : QC) : Block := mkBlock c s.view s.nextCmd qc

theorem createAndPropose_run (k : Keys) (c : RCfg) (s : RState) (qc : QC) (hb : Block) (tc : Option TC)
    (hs : c.scheme ≠ .bls12) (hr : c.rules ≠ .fast)
    (hhb : s.chain.blocks.lookup s.highQC.hash = some hb)
    (hmark : (markProposed (s.chain.fuel + 1) hb).run s = pure (true, s))
    (hlv : s.lastVoted < s.view)
    (hrule : ∀ s' : RState, s'.chain = s.chain → s'.lock = s.lock →
      (voteRule c s.view (newBlock c s qc) none).run s' = pure (true, s'))
    (hqc : verifyQC (env k c s) qc = true) (hqv : qc.view < s.view) (hld : c.id = c.leader s.view) :
    (createAndPropose k c { qc := some qc, tc := tc }).run s =
      (aggregateVote k c (newBlock c s qc) (voteSig c (newBlock c s qc) (propS s))).run
        { tcS c (newBlock c s qc) (voteS c (newBlock c s qc) c.id (propS s)) with
          out := (tcS c (newBlock c s qc) (voteS c (newBlock c s qc) c.id (propS s))).out ++ [.sendPropose (newBlock c s qc) none] } := by
  have h4 := voterVerify_ok k c (propS s) c.id (newBlock c s qc) hlv (hrule _ rfl rfl) hqc rfl hqv hld
  have hr' : (c.rules == Rules.fast) = false := by simpa using hr
  rw [createAndPropose_G, hr', createAndProposeG_run _ _ _ s qc hb tc hhb hmark h4, proposeTail_run k c _ _ hs]
  rfl

/-! ## walks over the local store: `Extends` and `markProposed` without fetching -/

/-- `Extends(cur, target)` over stored blocks only -/
def extWalk : Nat → List (Hash × Block) → Block → Block → Bool
  | 0, _, _, _ => false
  | fuel + 1, st, cur, target =>
    if cur.view > target.view then
      match st.lookup cur.parent with
      | some p => extWalk fuel st p target
      | none => false
    else cur.hash == target.hash

theorem extendsAux_local : ∀ (fuel : Nat) (c : RChain) (cur t : Block),
    extWalk fuel c.blocks cur t = true → RChain.extendsAux fuel c cur t = (c, true) := by
  intro fuel
  induction fuel with
  | zero => intro c cur t h; simp [extWalk] at h
  | succ n ih =>
    intro c cur t h
    unfold extWalk at h
    unfold RChain.extendsAux
    by_cases hv : cur.view > t.view
    · rw [if_pos hv] at h ⊢
      cases hl : c.blocks.lookup cur.parent with
      | none => rw [hl] at h; simp at h
      | some p =>
        rw [hl] at h
        simp only [RChain.get, hl]
        exact ih c p t h
    · rw [if_neg hv] at h ⊢
      rw [h]

theorem extendsM_local (b t : Block) (s : RState) (h : extWalk s.chain.fuel s.chain.blocks b t = true) :
    (extendsM b t).run s = pure (true, s) := by
  have := extendsAux_local s.chain.fuel s.chain b t h
  simp [extendsM, RChain.extends, this]

/-- `markProposed` over stored blocks only -/
def markWalk : Nat → List (Hash × Block) → Nat → Block → Bool
  | 0, _, _, _ => false
  | fuel + 1, st, lp, b =>
    if b.view > lp then
      match st.lookup b.qc.hash with
      | none => false
      | some nb => markWalk fuel st lp nb
    else true

theorem markProposed_walk : ∀ (fuel : Nat) (b : Block) (s : RState),
    markWalk fuel s.chain.blocks s.lastProposed b = true → (markProposed fuel b).run s = pure (true, s) := by
  intro fuel
  induction fuel with
  | zero => intro b s h; simp [markWalk] at h
  | succ n ih =>
    intro b s h
    unfold markWalk at h
    by_cases hv : b.view > s.lastProposed
    · rw [if_pos hv] at h
      cases hl : s.chain.blocks.lookup b.qc.hash with
      | none => rw [hl] at h; simp at h
      | some nb =>
        rw [hl] at h
        simp [markProposed, hv, getBlock_local _ _ _ hl, ih nb s h]
    · simp [markProposed, hv]

/-! ## the vote rule says yes -/

/-- the certified block `qb` of a proposal of view `bview` lets the vote rule say yes without
fetching: `qb`'s own certified block is known (or absent), and
* chained HotStuff: the lock is below `qb` (liveness branch of `safeNode`), or the proposal — which
  is above the lock — extends the lock along stored parent links starting at `qb` (safety branch);
* simplified HotStuff: the lock is not above `qb`. -/
def RuleReady (c : RCfg) (s : RState) (bview : Nat) (qb : Block) : Prop :=
  (qb.qc.hash = "" ∨ ∃ gb, s.chain.blocks.lookup qb.qc.hash = some gb) ∧
  (match c.rules with
   | .chained => s.lock.view < qb.view ∨
       (s.lock.view < bview ∧ extWalk (s.chain.fuel - 1) s.chain.blocks qb s.lock = true)
   | .simple => s.lock.view ≤ qb.view
   | .fast => False)

theorem voteRule_chained_extends (c : RCfg) (hc : c.rules = .chained) (s : RState) (b qb : Block) (view : Nat)
    (h1 : s.chain.blocks.lookup b.qc.hash = some qb)
    (h2 : qb.qc.hash = "" ∨ ∃ gb, s.chain.blocks.lookup qb.qc.hash = some gb)
    (hpar : b.parent = b.qc.hash) (hlv : s.lock.view < b.view)
    (hw : extWalk (s.chain.fuel - 1) s.chain.blocks qb s.lock = true) :
    (voteRule c view b none).run s = pure (true, s) := by
  by_cases h3 : qb.view > s.lock.view
  · exact voteRule_chained_above c hc s b qb view h1 h2 h3
  · have hfuel : s.chain.fuel = (s.chain.fuel - 1) + 1 := by unfold RChain.fuel; omega
    have hext : (extendsM b s.lock).run s = pure (true, s) := by
      apply extendsM_local
      rw [hfuel]
      unfold extWalk
      rw [if_pos hlv, hpar, h1]
      exact hw
    rcases h2 with h2 | ⟨gb, h2⟩
    · simp [voteRule, hc, getBlock_local _ _ _ h1, h2, h3, hext]
    · by_cases he : qb.qc.hash = ""
      · simp [voteRule, hc, getBlock_local _ _ _ h1, he, h3, hext]
      · simp [voteRule, hc, getBlock_local _ _ _ h1, getBlock_local _ _ _ h2, he, h3, hext]

theorem voteRule_ready (c : RCfg) (s : RState) (b qb : Block) (view : Nat) (h : RuleReady c s b.view qb)
    (h1 : s.chain.blocks.lookup b.qc.hash = some qb) (hv : view ≤ b.view) (hpar : b.parent = b.qc.hash) :
    (voteRule c view b none).run s = pure (true, s) := by
  obtain ⟨h2, h3⟩ := h
  cases hc : c.rules with
  | chained =>
    rw [hc] at h3
    rcases h3 with h3 | ⟨h3, h4⟩
    · exact voteRule_chained_above c hc s b qb view h1 h2 h3
    · exact voteRule_chained_extends c hc s b qb view h1 h2 hpar h3 h4
  | simple => rw [hc] at h3; exact voteRule_simple_ok c hc s b qb view hv h1 h2 h3
  | fast => rw [hc] at h3; exact h3.elim

theorem ruleReady_congr (c : RCfg) (s s' : RState) (bview : Nat) (qb : Block) (hc : s'.chain = s.chain) (hl : s'.lock = s.lock)
    (h : RuleReady c s bview qb) : RuleReady c s' bview qb := by
  unfold RuleReady at *
  rw [hc, hl]; exact h

theorem run_eta {α} (x : M α) (s : RState) : x.run s = pure ((x.run s).1, (x.run s).2) := rfl

theorem tick_vote (k : Keys) (c : RCfg) (s s' : RState) (id : Nat) (sig : Option Sig) (hash : Hash) (d : Bool)
    (rest : List Ev) (hq : s.queue = .vote id sig hash d :: rest)
    (h : (collectVote k c id sig hash d).run { s with queue := rest } = pure ((), s')) :
    (tick k c).run s = pure (true, s') := by
  simp [tick, hq, h]

theorem tick_newview (k : Keys) (c : RCfg) (s s' : RState) (id : Nat) (si : SyncInfo)
    (rest : List Ev) (hq : s.queue = .newview id si :: rest)
    (h : (advanceView k c si).run { s with queue := rest } = pure ((), s')) :
    (tick k c).run s = pure (true, s') := by
  simp [tick, hq, h]

/-- a certificate assembled from a quorum of votes for the stored block `blk` verifies -/
theorem verifyQC_of_votes (k : Keys) (c : RCfg) (s : RState) (hash : Hash) (blk : Block) (sgq : Sig)
    (hblk : s.chain.blocks.lookup hash = some blk) (hh : blk.hash = hash) (hg : hash ≠ genesisHash)
    (hver : verify (fun b => s.truth.lookup b) c.cfg sgq (blkMsg hash) = true) (hlen : c.cfg.quorum ≤ sgq.len) :
    verifyQC (env k c s) ⟨some sgq, blk.view, hash⟩ = true := by
  have hl : ¬ sgq.len < c.cfg.quorum := by omega
  simp [verifyQC, hg, env, CertEnv.get, hblk, hl, hh, hver]


theorem verify_single (T : Truth) (cfg : Cfg) (i bytes : Nat) (m : Msg) (hs : cfg.scheme ≠ .bls12)
    (hi : cfg.has i = true) (hT : T bytes = some ⟨i, m⟩) :
    verify T cfg (.multi cfg.scheme [⟨i, bytes⟩]) m = true := by
  simp [verify, verifySingle, hT, hi, hasDup, hs]

theorem voteS_ext (c : RCfg) (b : Block) (id : Nat) (s : RState) (hs : c.scheme ≠ .bls12) (hf : Fresh s) :
    Ext s (voteS c b id s) := by
  have := ext_of_frames (voteFor c b id) (voteFor_gr c b id) (voteFor_tf c b id) s hf
  rw [voteFor_run c b id s hs] at this
  exact this

theorem tcS_ext (c : RCfg) (b : Block) (s : RState) (hf : Fresh s) : Ext s (tcS c b s) :=
  ext_of_frames (tryCommit c b) (tryCommit_gr c b) (tryCommit_tf c b) s hf

/-- same store and signature table -/
theorem ext_of_eq (s s' : RState) (hf : Fresh s) (hc : s'.chain = s.chain) (ht : s'.truth = s.truth)
    (hn : s'.nextBytes = s.nextBytes) : Ext s s' := by
  refine ⟨?_, ?_, ?_⟩
  · unfold Fresh; rw [ht, hn]; exact hf
  · unfold Grows ChainGrows; rw [hc]; exact fun _ _ h => h
  · unfold TGrows; rw [ht]; exact fun _ _ h => h

theorem tcS_view (c : RCfg) (b : Block) (s : RState) : (tcS c b s).view = s.view := by
  have htcp := tcS_tcp c b s
  simp only [TCP, Prod.mk.injEq] at htcp
  exact htcp.1

theorem voteS_view (c : RCfg) (b : Block) (id : Nat) (s : RState) : (voteS c b id s).view = s.view := by
  unfold voteS signState; split <;> rfl

theorem mkBlock_fields (c : RCfg) (view n : Nat) (qc : QC) :
    (mkBlock c view n qc).view = view ∧ (mkBlock c view n qc).qc = qc ∧ (mkBlock c view n qc).parent = qc.hash ∧
    (mkBlock c view n qc).proposer = c.id := ⟨rfl, rfl, rfl, rfl⟩

/-- **The vote that completes a quorum makes the next leader certify the block, enter the next
view and propose**: replica `c.id`, the leader of view `s.view + 1`, is in the view of the stored
block `blk`, holds valid votes of pairwise different replicas for it and receives the vote of one
more replica `i` so that a quorum is reached.  It then proposes a block of view `s.view + 1` that
carries a verifying certificate for `blk` and extends `blk`, and votes for it. -/
theorem step_vote_quorum_proposes (k : Keys) (c : RCfg) (s : RState) (id i bytes : Nat) (hash : Hash) (blk : Block)
    (hs : c.scheme ≠ .bls12) (ha : c.agg = false) (hr : c.rules ≠ .fast) (hf : FreshS s) (hq : s.queue = [])
    (hblk : s.chain.blocks.lookup hash = some blk) (hh : blk.hash = hash) (hg : hash ≠ genesisHash)
    (hview : blk.view = s.view) (hhi : s.highQC.view < blk.view)
    (hlead : c.leader (s.view + 1) = c.id) (hlv : s.lastVoted ≤ s.view)
    (hi : c.cfg.has i = true) (hbytes : s.truth.lookup bytes = some ⟨i, blkMsg hash⟩)
    (hvalid : ∀ v ∈ (s.votes.lookup hash).getD [],
      c.cfg.has v.1 = true ∧ HonestSig (fun b => s.truth.lookup b) c.cfg v.1 (blkMsg hash) v.2)
    (hnodup : (((s.votes.lookup hash).getD []).map (·.1)).Nodup)
    (hnew : ∀ v ∈ (s.votes.lookup hash).getD [], v.1 ≠ i)
    (hlen : c.cfg.quorum ≤ ((s.votes.lookup hash).getD []).length + 1)
    (h2 : 2 ≤ ((s.votes.lookup hash).getD []).length + 1)
    (hready : RuleReady c s (s.view + 1) blk)
    (hmark : ∀ s' : RState, s'.chain = s.chain → s'.lastProposed = s.lastProposed →
      (markProposed (s.chain.fuel + 1) blk).run s' = pure (true, s')) :
    ∃ (sgq : Sig) (b' : Block),
      verifyQC (env k c (step k c s (.vote id (some (.multi c.scheme [⟨i, bytes⟩])) hash false)).1) ⟨some sgq, blk.view, hash⟩ = true ∧
      b'.view = s.view + 1 ∧ b'.qc = ⟨some sgq, blk.view, hash⟩ ∧ b'.parent = hash ∧ b'.proposer = c.id ∧
      Out.sendPropose b' none ∈ (step k c s (.vote id (some (.multi c.scheme [⟨i, bytes⟩])) hash false)).2 ∧
      Out.sign (blkMsg b'.hash) ∈ (step k c s (.vote id (some (.multi c.scheme [⟨i, bytes⟩])) hash false)).2 ∧
      Has b'.hash (step k c s (.vote id (some (.multi c.scheme [⟨i, bytes⟩])) hash false)).1 ∧
      s.view + 1 ≤ (step k c s (.vote id (some (.multi c.scheme [⟨i, bytes⟩])) hash false)).1.view := by
  -- the certificate
  let sg : Sig := .multi c.scheme [⟨i, bytes⟩]
  let vs := (s.votes.lookup hash).getD []
  have hsgv : verify (fun b => s.truth.lookup b) c.cfg sg (blkMsg hash) = true := by
    exact verify_single _ c.cfg i bytes _ hs hi hbytes
  obtain ⟨sgq, hcomb, hverq, hlenq⟩ := combine_votes_verifies (fun b => s.truth.lookup b) c.cfg (blkMsg hash)
    (vs ++ [(i, sg)])
    (by simp only [List.map_append, List.map_cons, List.map_nil]
        rw [List.nodup_append]
        refine ⟨hnodup, by simp, ?_⟩
        intro a ha b hb
        simp at hb; subst hb
        obtain ⟨x, hx, hxe⟩ := List.mem_map.mp ha
        intro e; exact hnew x hx (by rw [hxe, e]))
    (by simpa using h2)
    (by intro v hv
        simp only [List.mem_append, List.mem_singleton] at hv
        rcases hv with hv | rfl
        · exact hvalid v hv
        · exact ⟨hi, Or.inl ⟨hs, bytes, rfl, hbytes⟩⟩)
  have hcomb' : combine c.cfg (vs.map (fun x => x.2) ++ [sg]) = .ok sgq := by simpa using hcomb
  let qc : QC := ⟨some sgq, blk.view, hash⟩
  have hqc : verifyQC (env k c s) qc = true :=
    verifyQC_of_votes k c s hash blk sgq hblk hh hg hverq (by rw [hlenq]; simpa using hlen)
  -- the run
  let s0 : RState := { s with out := [], queue := s.queue ++ [.vote id (some sg) hash false] }
  let sA : RState := { s0 with queue := [] }
  let sB : RState := qcFormedS c sA hash qc
  let sC : RState := { sB with queue := [] }
  let m : RState := movedS sC qc blk
  let b' : Block := newBlock c m qc
  let s6 : RState := { tcS c b' (voteS c b' c.id (propS m)) with
      out := (tcS c b' (voteS c b' c.id (propS m))).out ++ [.sendPropose b' none] }
  let s7 : RState := ((aggregateVote k c b' (voteSig c b' (propS m))).run s6).2
  let s8 : RState := ((runLoop k c 99998).run s7).2
  have hcv : (collectVote k c id (some sg) hash false).run sA = pure ((), sB) :=
    collectVote_quorum_run k c sA id i bytes hash blk false sgq hblk hh hg hhi hsgv hnew hlen hcomb'
  have ht1 : (tick k c).run s0 = pure (true, sB) := tick_vote k c s0 sB id (some sg) hash false [] (by simp [s0, hq]) hcv
  have hmhq : m.highQC = qc := by
    have : ¬ blk.view ≤ s.highQC.view := by omega
    simp [m, movedS, updHighQC, sC, sB, qcFormedS, sA, s0, this]
  have hadv : (advanceView k c { qc := some qc }).run sC = pure ((), s7) := by
    rw [advanceView_move k c sC qc blk ha hqc hblk (by show s.view = blk.view; omega)]
    rw [if_pos (by exact hlead)]
    rw [show (updHighQC sC qc blk).highQC = qc from hmhq]
    rw [createAndPropose_run k c m qc blk none hs hr (by rw [hmhq]; exact hblk) (hmark m rfl rfl)
      (by show s.lastVoted < s.view + 1; omega)
      (fun s' hc hl => voteRule_ready c s' _ blk _ (ruleReady_congr c s s' _ blk hc hl hready) (by rw [hc]; exact hblk) (Nat.le_refl _) rfl)
      hqc (by show blk.view < s.view + 1; omega) hlead.symm]
    exact run_eta _ _
  have ht2 : (tick k c).run sB = pure (true, s7) :=
    tick_newview k c sB s7 c.id { qc := some qc } [] (by simp [sB, qcFormedS, sA]) hadv
  have hstep : step k c s (.vote id (some sg) hash false) = ({ s8 with out := [] }, s8.out) := by
    unfold step
    simp only [show (100000 : Nat) = 99998 + 1 + 1 from rfl]
    rw [runLoop_succ k c _ s0 sB ht1, runLoop_succ k c _ sB s7 ht2]
    rfl
  have hfm : FreshS (propS m) := hf
  obtain ⟨ho3, hl3, hf3, hc3⟩ := voteS_facts c b' c.id (propS m) hfm
  have hft := tcS_fresh c b' _ hf3
  have hf6 : Fresh s6 := hft.2
  have h67 : Later s6 s7 := aggregateVote_later k c b' _ s6 hf6
  have h78 : Later s7 s8 := runLoop_later k c 99998 s7 h67.ext.fresh
  have h68 := h67.trans h78
  have hext : Ext s s8 := by
    have e1 : Ext s (propS m) := ext_of_eq s _ hf.2 rfl rfl rfl
    have e2 := voteS_ext c b' c.id (propS m) hs hfm.2
    have e3 := tcS_ext c b' _ hf3.2
    have e4 : Ext (tcS c b' (voteS c b' c.id (propS m))) s6 := ext_of_eq _ _ hft.2 rfl rfl rfl
    exact (((e1.trans e2).trans e3).trans e4).trans h68.ext
  have hext' : Ext s { s8 with out := [] } := ⟨hext.fresh, hext.store, hext.truth⟩
  have hout6 : s6.out = (propS m).out ++ [.sign (blkMsg b'.hash)] ++ [.sendPropose b' none] := by
    show (tcS c b' _).out ++ _ = _
    rw [tcS_out, ho3]
  rw [hstep]
  have hv6 : s6.view = s.view + 1 := by
    show (tcS c b' _).view = _
    rw [tcS_view, voteS_view]; rfl
  refine ⟨sgq, b', verifyQC_ext k c s _ qc hext' hqc, rfl, rfl, rfl, rfl, ?_, ?_, ?_, ?_⟩
  rotate_left 3
  · show s.view + 1 ≤ s8.view
    rw [← hv6]; exact h68.view
  · exact h68.mem_out _ (by rw [hout6]; simp)
  · exact h68.mem_out _ (by rw [hout6]; simp)
  · exact h68.has _ (tcS_has c b' _)

/-! ## a quorum of timeouts makes a timeout certificate (plain timeout rule) -/

theorem getBlock_local_chain (h : Hash) (b : Block) (s : RState) (hl : s.chain.blocks.lookup h = some b) :
    ∀ s' : RState, s'.chain = s.chain → (getBlock h).run s' = pure (some b, s') :=
  fun s' hc => getBlock_local h b s' (by rw [hc]; exact hl)

theorem verifyQCM_true_chain (k : Keys) (c : RCfg) (s : RState) (q : QC) (h : verifyQC (env k c s) q = true) :
    ∀ s' : RState, s'.chain = s.chain → s'.truth = s.truth → (verifyQCM k c q).run s' = pure (true, s') := by
  intro s' hc ht
  apply verifyQCM_true
  have : env k c s' = env k c s := by simp [env, hc, ht]
  rw [this]; exact h

theorem verifyTCM_run (k : Keys) (c : RCfg) (s : RState) (tc : TC) :
    (verifyTCM k c tc).run s = pure (verifyTC (env k c s) tc, s) := by
  simp [verifyTCM]

/-- the state after `advanceView` on the sync info of a timeout message whose certificates are both
older than the current view: only the high certificates are refreshed -/
def absorbS (s : RState) (q : QC) (nb : Block) (tc0 : TC) : RState :=
  { s with highTC := if tc0.view > s.highTC.view then tc0 else s.highTC,
           highQC := if nb.view ≤ s.highQC.view then s.highQC else q }

theorem advanceView_old (k : Keys) (c : RCfg) (s : RState) (q : QC) (nb : Block) (tc0 : TC) (ha : c.agg = false)
    (htc : verifyTC (env k c s) tc0 = true) (hqc : verifyQC (env k c s) q = true)
    (hnb : s.chain.blocks.lookup q.hash = some nb) (hv1 : tc0.view < s.view) (hv2 : q.view < s.view) :
    (advanceView k c { qc := some q, tc := some tc0 }).run s = pure ((), absorbS s q nb tc0) := by
  by_cases hge : q.view ≥ tc0.view
  · simp [advanceView, verifySyncInfo, ha, verifyTCM_run, htc, verifyQCM_true_chain k c s q hqc, getBlock_local_chain _ _ _ hnb,
      absorbS, hv1, hv2, hge]
  · simp [advanceView, verifySyncInfo, ha, verifyTCM_run, htc, verifyQCM_true_chain k c s q hqc, getBlock_local_chain _ _ _ hnb,
      absorbS, hv1, hv2, hge]

/-- the state after `advanceView` has left view `s.view` on the timeout certificate `tc`, for the view after
the certificate's (`EnterViewAfter`) -/
def jumpedTS (s : RState) (tc : TC) : RState :=
  { s with highTC := if tc.view > s.highTC.view then tc else s.highTC,
           view := tc.view + 1, lastTimeout := none,
           ghost := s.ghost ++ [.adv s.view tc.view true],
           queue := s.queue ++ [.viewChange (tc.view + 1) true] }

/-- **`advanceView` on a verified TC of ANY view `≥` the current one**: the replica enters `tc.view + 1` -/
theorem advanceView_tc_jump (k : Keys) (c : RCfg) (s : RState) (tc : TC) (nb : Block) (ha : c.agg = false)
    (htc : verifyTC (env k c s) tc = true) (hqc : verifyQC (env k c s) s.highQC = true)
    (hnb : s.chain.blocks.lookup s.highQC.hash = some nb) (hv1 : s.view ≤ tc.view) (hv2 : s.highQC.view < tc.view) :
    (advanceView k c { qc := some s.highQC, tc := some tc }).run s =
      (if c.leader (tc.view + 1) = c.id then createAndPropose k c { qc := some s.highQC, tc := some tc }
       else emit (.sendNewView (c.leader (tc.view + 1)) { qc := some s.highQC, tc := some tc })).run (jumpedTS s tc) := by
  have h1 : ¬ tc.view < s.view := by omega
  have h2 : ¬ s.highQC.view ≥ tc.view := by omega
  by_cases hl : c.leader (tc.view + 1) = c.id
  · simp [advanceView, verifySyncInfo, ha, verifyTCM_run, htc, verifyQCM_true_chain k c s _ hqc, getBlock_local_chain _ _ _ hnb,
      jumpedTS, h1, h2, hl, addEvent]
  · simp [advanceView, verifySyncInfo, ha, verifyTCM_run, htc, verifyQCM_true_chain k c s _ hqc, getBlock_local_chain _ _ _ hnb,
      jumpedTS, h1, h2, hl, addEvent]

/-- the state after `advanceView` has left view `s.view` on the timeout certificate `tc` OF THAT VIEW -/
def movedTS (s : RState) (tc : TC) : RState :=
  { s with highTC := if tc.view > s.highTC.view then tc else s.highTC,
           view := s.view + 1, lastTimeout := none,
           ghost := s.ghost ++ [.adv s.view tc.view true],
           queue := s.queue ++ [.viewChange (s.view + 1) true] }

theorem jumpedTS_eq_movedTS (s : RState) (tc : TC) (hv : s.view = tc.view) : jumpedTS s tc = movedTS s tc := by
  simp [jumpedTS, movedTS, hv]

theorem advanceView_tc_move (k : Keys) (c : RCfg) (s : RState) (tc : TC) (nb : Block) (ha : c.agg = false)
    (htc : verifyTC (env k c s) tc = true) (hqc : verifyQC (env k c s) s.highQC = true)
    (hnb : s.chain.blocks.lookup s.highQC.hash = some nb) (hv1 : s.view = tc.view) (hv2 : s.highQC.view < tc.view) :
    (advanceView k c { qc := some s.highQC, tc := some tc }).run s =
      (if c.leader (s.view + 1) = c.id then createAndPropose k c { qc := some s.highQC, tc := some tc }
       else emit (.sendNewView (c.leader (s.view + 1)) { qc := some s.highQC, tc := some tc })).run (movedTS s tc) := by
  rw [advanceView_tc_jump k c s tc nb ha htc hqc hnb (Nat.le_of_eq hv1) hv2, jumpedTS_eq_movedTS s tc hv1, ← hv1]


theorem signedBy_of_accepted (T : Truth) (cfg : Cfg) (t : TimeoutMsg) (h : HsVerif.Props.C08.Accepted T cfg t) :
    signedBy t.viewSig t.id = true ∧ ∃ vs, t.viewSig = some vs ∧ verify T cfg vs (viewMsg t.view) = true := by
  obtain ⟨vs, h1, _, h3, h4, h5, h6⟩ := h
  refine ⟨?_, vs, h1, h6⟩
  have : t.id ≠ 0 := by simp [Cfg.has] at h5; omega
  simp [signedBy, h1, h3, h4, this]

/-- `onRemoteTimeout` when the message completes a quorum of timeouts of the current view (plain
timeout rule): the replica leaves the view on the timeout certificate `tc` it assembles -/
theorem onRemoteTimeout_quorum_run (k : Keys) (c : RCfg) (s : RState) (t : TimeoutMsg) (q : QC) (nb hb : Block) (tc0 : TC)
    (ts' list : List TimeoutMsg) (sigs : List Sig) (sg : Sig)
    (ha : c.agg = false)
    (hacc : HsVerif.Props.C08.Accepted (fun b => s.truth.lookup b) c.cfg t)
    (hsi : t.si = { qc := some q, tc := some tc0 })
    (htc0 : verifyTC (env k c s) tc0 = true) (hq : verifyQC (env k c s) q = true)
    (hnb : s.chain.blocks.lookup q.hash = some nb) (hv1 : tc0.view < s.view) (hv2 : q.view < s.view)
    (htv : t.view = s.view) (htv0 : t.view ≠ 0)
    (hcol : collectorAdd c.cfg.quorum s.timeouts t = (ts', some list))
    (hmap : list.mapM (·.viewSig) = some sigs) (hcomb : combine c.cfg sigs = .ok sg)
    (htc : verifyTC (env k c s) ⟨some sg, t.view⟩ = true)
    (hhq : verifyQC (env k c s) (absorbS s q nb tc0).highQC = true)
    (hhb : s.chain.blocks.lookup (absorbS s q nb tc0).highQC.hash = some hb)
    (hhv : (absorbS s q nb tc0).highQC.view < s.view) :
    (onRemoteTimeout k c t).run s =
      ((if c.leader (s.view + 1) = c.id then
          createAndPropose k c { qc := some (absorbS s q nb tc0).highQC, tc := some ⟨some sg, t.view⟩ }
        else emit (.sendNewView (c.leader (s.view + 1)) { qc := some (absorbS s q nb tc0).highQC, tc := some ⟨some sg, t.view⟩ }))
        >>= fun _ => modify fun s' => { s' with timeouts := s'.timeouts.filter (fun x => !(x.view < s.view)) }).run
        (movedTS { absorbS s q nb tc0 with timeouts := ts' } ⟨some sg, t.view⟩) := by
  obtain ⟨hsb, vs, hvs, hver⟩ := signedBy_of_accepted _ _ t hacc
  have h1 := advanceView_old k c s q nb tc0 ha htc0 hq hnb hv1 hv2
  have h2 := advanceView_tc_move k c { absorbS s q nb tc0 with timeouts := ts' } ⟨some sg, t.view⟩ hb ha htc hhq hhb
    (by show s.view = t.view; omega) (by show _ < t.view; rw [htv]; exact hhv)
  have htv0' : (t.view == 0) = false := by simpa using htv0
  rw [hvs] at hsb
  have hts : (absorbS s q nb tc0).timeouts = s.timeouts := rfl
  simp [onRemoteTimeout, hsb, hvs, env, hver, ha, hsi, h1, hts, hcol, htv0, hmap, hcomb, h2]
  rfl


theorem verifyTC_ext (k : Keys) (c : RCfg) (s s' : RState) (tc : TC) (h : Ext s s')
    (hv : verifyTC (env k c s) tc = true) : verifyTC (env k c s') tc = true := by
  unfold verifyTC at hv ⊢
  by_cases h0 : (tc.view == 0) = true
  · rw [if_pos h0]
  · rw [if_neg h0] at hv ⊢
    cases hs : tc.sig with
    | none => rw [hs] at hv; simp at hv
    | some sg =>
      rw [hs] at hv
      simp only at hv ⊢
      by_cases hl : sg.len < (env k c s).cfg.quorum
      · rw [if_pos hl] at hv; simp at hv
      · rw [if_neg hl] at hv
        have hl' : ¬ sg.len < (env k c s').cfg.quorum := hl
        rw [if_neg hl']
        exact verify_mono _ _ _ sg _ (fun b a hb => h.truth b a hb) hv

theorem mapM_some_of_map {α β} (f : α → Option β) (l : List α) (r : List β) (h : l.map f = r.map some) :
    l.mapM f = some r := by
  induction l generalizing r with
  | nil =>
    cases r with
    | nil => rfl
    | cons _ _ => simp at h
  | cons a l ih =>
    cases r with
    | nil => simp at h
    | cons b r =>
      simp only [List.map_cons, List.cons.injEq] at h
      simp [List.mapM_cons, h.1, ih r h.2]

theorem ids_nodup_of_keyed (l : List TimeoutMsg) (v : Nat) (hk : HsVerif.Props.C08.Keyed l) (hv : ∀ x ∈ l, x.view = v) :
    (l.map (·.id)).Nodup := by
  unfold HsVerif.Props.C08.Keyed at hk
  rw [List.nodup_iff_pairwise_ne, List.pairwise_map]
  refine List.Pairwise.imp_of_mem ?_ hk
  intro a b ha hb h e
  exact h ⟨by rw [hv a ha, hv b hb], e⟩


open HsVerif.Props.C08 in
/-- what the collector and `Combine` make of a message that completes a quorum of accepted
timeouts of its view -/
theorem timeout_quorum_data (k : Keys) (c : RCfg) (s : RState) (t : TimeoutMsg)
    (hk : Keyed s.timeouts) (hnew : ¬ ∃ x ∈ s.timeouts, x.view = t.view ∧ x.id = t.id)
    (hq : c.cfg.quorum ≤ (ofView (s.timeouts ++ [t]) t.view).length)
    (h2 : 2 ≤ (ofView (s.timeouts ++ [t]) t.view).length)
    (hall : ∀ x ∈ s.timeouts, x.view = t.view → Accepted (fun b => s.truth.lookup b) c.cfg x)
    (hacc : Accepted (fun b => s.truth.lookup b) c.cfg t) :
    ∃ ts' list sigs sg, collectorAdd c.cfg.quorum s.timeouts t = (ts', some list) ∧
      list.mapM (·.viewSig) = some sigs ∧ combine c.cfg sigs = .ok sg ∧
      verifyTC (env k c s) ⟨some sg, t.view⟩ = true := by
  obtain ⟨h1, _, h3, _, h5⟩ := collector_exact c.cfg.quorum s.timeouts t hk hnew
  have hacc' : ∀ x ∈ ofView (s.timeouts ++ [t]) t.view, Accepted (env k c s).T (env k c s).cfg x := by
    intro x hx
    have hxv := h3 x hx
    simp only [ofView, List.mem_filter, List.mem_append, List.mem_singleton] at hx
    rcases hx.1 with hx' | rfl
    · exact hall x hx' hxv
    · exact hacc
  obtain ⟨sigs, sg, hm, hc, hv⟩ := tc_verifies (env k c s) t.view (ofView (s.timeouts ++ [t]) t.view) h3
    (ids_nodup_of_keyed _ _ h5 h3) hq h2 hacc'
  exact ⟨_, _, sigs, sg, h1 hq, mapM_some_of_map _ _ _ hm, hc, hv⟩

theorem tick_timeout (k : Keys) (c : RCfg) (s s' : RState) (t : TimeoutMsg)
    (rest : List Ev) (hq : s.queue = .timeout t :: rest)
    (h : (onRemoteTimeout k c t).run { s with queue := rest } = pure ((), s')) :
    (tick k c).run s = pure (true, s') := by
  simp [tick, hq, h]


theorem step_run_eq (k : Keys) (c : RCfg) (s : RState) (e : Ev) (n : Nat) (hn : 100000 = n) :
    step k c s e =
      ({ ((runLoop k c n).run { s with out := [], queue := s.queue ++ [e] }).2 with out := [] },
       ((runLoop k c n).run { s with out := [], queue := s.queue ++ [e] }).2.out) := by
  subst hn; rfl

open HsVerif.Props.C08 in
/-- **Preconditions of the timeout-quorum step** (plain timeout rule): replica `c.id` in view
`s.view` with an empty event queue receives the timeout message `t` of its view, which completes a
quorum of accepted timeout messages of that view from pairwise different senders.  The sync info
of `t` carries certificates `q` (of stored block `nb`) and `tc0` that verify and are older than the
view.  `hb` is the stored block of the replica's high QC after looking at `q`; that high QC
verifies and is older than the view. -/
structure TmoQuorumPre (k : Keys) (c : RCfg) (s : RState) (t : TimeoutMsg) (q : QC) (nb hb : Block) (tc0 : TC) : Prop where
  agg : c.agg = false
  scheme : c.scheme ≠ .bls12
  fresh : FreshS s
  queue : s.queue = []
  view : t.view = s.view
  view0 : s.view ≠ 0
  acc : Accepted (fun b => s.truth.lookup b) c.cfg t
  si : t.si = { qc := some q, tc := some tc0 }
  tc0ok : verifyTC (env k c s) tc0 = true
  tc0v : tc0.view < s.view
  qok : verifyQC (env k c s) q = true
  qv : q.view < s.view
  nbok : s.chain.blocks.lookup q.hash = some nb
  keyed : Keyed s.timeouts
  new : ¬ ∃ x ∈ s.timeouts, x.view = t.view ∧ x.id = t.id
  quorum : c.cfg.quorum ≤ (ofView (s.timeouts ++ [t]) t.view).length
  two : 2 ≤ (ofView (s.timeouts ++ [t]) t.view).length
  all : ∀ x ∈ s.timeouts, x.view = t.view → Accepted (fun b => s.truth.lookup b) c.cfg x
  hqok : verifyQC (env k c s) (absorbS s q nb tc0).highQC = true
  hbok : s.chain.blocks.lookup (absorbS s q nb tc0).highQC.hash = some hb
  hqv : (absorbS s q nb tc0).highQC.view < s.view

/-- **A quorum of timeouts moves a replica to the next view; it reports to the next leader**
(the replica is not the next leader): the step ends in a later view, the timeout certificate
verifies, and a new-view message with the high QC and the certificate goes to the next leader. -/
theorem step_timeout_quorum_newview (k : Keys) (c : RCfg) (s : RState) (t : TimeoutMsg) (q : QC) (nb hb : Block) (tc0 : TC)
    (h : TmoQuorumPre k c s t q nb hb tc0) (hl : c.leader (s.view + 1) ≠ c.id) :
    ∃ sg : Sig,
      verifyTC (env k c (step k c s (.timeout t)).1) ⟨some sg, s.view⟩ = true ∧
      s.view + 1 ≤ (step k c s (.timeout t)).1.view ∧
      Out.sendNewView (c.leader (s.view + 1)) { qc := some (absorbS s q nb tc0).highQC, tc := some ⟨some sg, s.view⟩ }
        ∈ (step k c s (.timeout t)).2 := by
  let s0 : RState := { s with out := [], queue := s.queue ++ [.timeout t] }
  let sA : RState := { s0 with queue := [] }
  obtain ⟨ts', list, sigs, sg, hcol, hmap, hcomb, htc⟩ := timeout_quorum_data k c sA t h.keyed h.new h.quorum h.two h.all h.acc
  have hrun := onRemoteTimeout_quorum_run k c sA t q nb hb tc0 ts' list sigs sg h.agg h.acc h.si h.tc0ok h.qok h.nbok h.tc0v h.qv
    h.view (by rw [h.view]; exact h.view0) hcol hmap hcomb htc h.hqok h.hbok h.hqv
  let m : RState := movedTS { absorbS sA q nb tc0 with timeouts := ts' } ⟨some sg, t.view⟩
  let o : Out := .sendNewView (c.leader (s.view + 1)) { qc := some (absorbS s q nb tc0).highQC, tc := some ⟨some sg, t.view⟩ }
  let s7 : RState := { m with out := m.out ++ [o], timeouts := m.timeouts.filter (fun x => !(x.view < s.view)) }
  have hrun' : (onRemoteTimeout k c t).run sA = pure ((), s7) := by
    rw [hrun, if_neg (by exact hl)]
    simp [emit, s7, o]
    rfl
  have ht1 : (tick k c).run s0 = pure (true, s7) := tick_timeout k c s0 s7 t [] (by simp [s0, h.queue]) hrun'
  let s8 : RState := ((runLoop k c 99999).run s7).2
  have hstep : step k c s (.timeout t) = ({ s8 with out := [] }, s8.out) := by
    rw [step_run_eq k c s _ (99999 + 1) rfl, runLoop_succ k c _ s0 s7 ht1]
  have hf7 : Fresh s7 := h.fresh.2
  have h78 : Later s7 s8 := runLoop_later k c 99999 s7 hf7
  have hext : Ext s s8 := (ext_of_eq s s7 h.fresh.2 rfl rfl rfl).trans h78.ext
  have hext' : Ext s { s8 with out := [] } := ⟨hext.fresh, hext.store, hext.truth⟩
  rw [hstep]
  refine ⟨sg, ?_, ?_, ?_⟩
  · have := verifyTC_ext k c s _ _ hext' htc
    rw [h.view] at this; exact this
  · exact h78.view
  · have : o ∈ s7.out := by simp [s7]
    have := h78.mem_out _ this
    simp only [o, h.view] at this
    exact this


theorem run_then_modify (x : M Unit) (F : RState → RState) (s : RState) :
    (x >>= fun _ => modify F).run s = pure ((), F (x.run s).2) := rfl

/-- **A quorum of timeouts makes the next leader enter the next view and propose**: the replica is
the leader of view `s.view + 1`; it proposes a block of that view that carries its high QC and
extends the certified block, and votes for it. -/
theorem step_timeout_quorum_proposes (k : Keys) (c : RCfg) (s : RState) (t : TimeoutMsg) (q : QC) (nb hb : Block) (tc0 : TC)
    (h : TmoQuorumPre k c s t q nb hb tc0) (hr : c.rules ≠ .fast)
    (hlead : c.leader (s.view + 1) = c.id) (hlv : s.lastVoted ≤ s.view)
    (hready : RuleReady c s (s.view + 1) hb)
    (hmark : ∀ s' : RState, s'.chain = s.chain → s'.lastProposed = s.lastProposed →
      (markProposed (s.chain.fuel + 1) hb).run s' = pure (true, s')) :
    ∃ (sg : Sig) (b' : Block),
      verifyTC (env k c (step k c s (.timeout t)).1) ⟨some sg, s.view⟩ = true ∧
      s.view + 1 ≤ (step k c s (.timeout t)).1.view ∧
      b'.view = s.view + 1 ∧ b'.qc = (absorbS s q nb tc0).highQC ∧ b'.parent = (absorbS s q nb tc0).highQC.hash ∧
      b'.proposer = c.id ∧
      Out.sendPropose b' none ∈ (step k c s (.timeout t)).2 ∧
      Out.sign (blkMsg b'.hash) ∈ (step k c s (.timeout t)).2 ∧
      Has b'.hash (step k c s (.timeout t)).1 := by
  let s0 : RState := { s with out := [], queue := s.queue ++ [.timeout t] }
  let sA : RState := { s0 with queue := [] }
  obtain ⟨ts', list, sigs, sg, hcol, hmap, hcomb, htc⟩ := timeout_quorum_data k c sA t h.keyed h.new h.quorum h.two h.all h.acc
  have hrun := onRemoteTimeout_quorum_run k c sA t q nb hb tc0 ts' list sigs sg h.agg h.acc h.si h.tc0ok h.qok h.nbok h.tc0v h.qv
    h.view (by rw [h.view]; exact h.view0) hcol hmap hcomb htc h.hqok h.hbok h.hqv
  let hq' : QC := (absorbS sA q nb tc0).highQC
  let tc : TC := ⟨some sg, t.view⟩
  let m : RState := movedTS { absorbS sA q nb tc0 with timeouts := ts' } tc
  let b' : Block := newBlock c m hq'
  let s6 : RState := { tcS c b' (voteS c b' c.id (propS m)) with
      out := (tcS c b' (voteS c b' c.id (propS m))).out ++ [.sendPropose b' none] }
  let s6a : RState := ((aggregateVote k c b' (voteSig c b' (propS m))).run s6).2
  let s7 : RState := { s6a with timeouts := s6a.timeouts.filter (fun x => !(x.view < s.view)) }
  have hcp : (createAndPropose k c { qc := some hq', tc := some tc }).run m =
      (aggregateVote k c b' (voteSig c b' (propS m))).run s6 :=
    createAndPropose_run k c m hq' hb (some tc) h.scheme hr h.hbok (hmark m rfl rfl)
      (by show s.lastVoted < s.view + 1; omega)
      (fun s' hc hl => voteRule_ready c s' _ hb _ (ruleReady_congr c s s' _ hb hc hl hready) (by rw [hc]; exact h.hbok) (Nat.le_refl _) rfl)
      h.hqok (by show (absorbS s q nb tc0).highQC.view < s.view + 1; have := h.hqv; omega) hlead.symm
  have hrun' : (onRemoteTimeout k c t).run sA = pure ((), s7) := by
    rw [hrun, if_pos (by exact hlead), run_then_modify]
    exact congrArg (fun r : Id (Unit × RState) =>
      (pure ((), { r.2 with timeouts := r.2.timeouts.filter (fun x => !(x.view < s.view)) }) : Id (Unit × RState))) hcp
  have ht1 : (tick k c).run s0 = pure (true, s7) := tick_timeout k c s0 s7 t [] (by simp [s0, h.queue]) hrun'
  let s8 : RState := ((runLoop k c 99999).run s7).2
  have hstep : step k c s (.timeout t) = ({ s8 with out := [] }, s8.out) := by
    rw [step_run_eq k c s _ (99999 + 1) rfl, runLoop_succ k c _ s0 s7 ht1]
  have hfm : FreshS (propS m) := h.fresh
  obtain ⟨ho3, hl3, hf3, hc3⟩ := voteS_facts c b' c.id (propS m) hfm
  have hft := tcS_fresh c b' _ hf3
  have hf6 : Fresh s6 := hft.2
  have h66a : Later s6 s6a := aggregateVote_later k c b' _ s6 hf6
  have h6a7 : Later s6a s7 := ⟨⟨[], by simp [s7]⟩, ext_of_eq _ _ h66a.ext.fresh rfl rfl rfl, Nat.le_refl _⟩
  have h78 : Later s7 s8 := runLoop_later k c 99999 s7 h6a7.ext.fresh
  have h68 := (h66a.trans h6a7).trans h78
  have hext : Ext s s8 := by
    have e1 : Ext s (propS m) := ext_of_eq s _ h.fresh.2 rfl rfl rfl
    have e2 := voteS_ext c b' c.id (propS m) h.scheme hfm.2
    have e3 := tcS_ext c b' _ hf3.2
    have e4 : Ext (tcS c b' (voteS c b' c.id (propS m))) s6 := ext_of_eq _ _ hft.2 rfl rfl rfl
    exact (((e1.trans e2).trans e3).trans e4).trans h68.ext
  have hext' : Ext s { s8 with out := [] } := ⟨hext.fresh, hext.store, hext.truth⟩
  have hout6 : s6.out = (propS m).out ++ [.sign (blkMsg b'.hash)] ++ [.sendPropose b' none] := by
    show (tcS c b' _).out ++ _ = _
    rw [tcS_out, ho3]
  have hv6 : s6.view = s.view + 1 := by
    show (tcS c b' _).view = _
    rw [tcS_view, voteS_view]; rfl
  rw [hstep]
  refine ⟨sg, b', ?_, ?_, rfl, rfl, rfl, rfl, ?_, ?_, ?_⟩
  · have := verifyTC_ext k c s _ _ hext' htc
    rw [h.view] at this; exact this
  · show s.view + 1 ≤ s8.view
    rw [← hv6]; exact h68.view
  · exact h68.mem_out _ (by rw [hout6]; simp)
  · exact h68.mem_out _ (by rw [hout6]; simp)
  · exact h68.has _ (tcS_has c b' _)

/-- **A quorum completed in a LATER view makes no proposal**: same situation as
`step_vote_quorum_proposes`, but the replica has already left the view of `blk` (by a timeout
certificate, say).  The certificate is formed and becomes the high QC; the view stays, nothing is
emitted. -/
theorem step_vote_quorum_late (k : Keys) (c : RCfg) (s : RState) (id i bytes : Nat) (hash : Hash) (blk : Block)
    (hs : c.scheme ≠ .bls12) (ha : c.agg = false) (hq : s.queue = [])
    (hblk : s.chain.blocks.lookup hash = some blk) (hh : blk.hash = hash) (hg : hash ≠ genesisHash)
    (hview : blk.view < s.view) (hhi : s.highQC.view < blk.view)
    (hi : c.cfg.has i = true) (hbytes : s.truth.lookup bytes = some ⟨i, blkMsg hash⟩)
    (hvalid : ∀ v ∈ (s.votes.lookup hash).getD [],
      c.cfg.has v.1 = true ∧ HonestSig (fun b => s.truth.lookup b) c.cfg v.1 (blkMsg hash) v.2)
    (hnodup : (((s.votes.lookup hash).getD []).map (·.1)).Nodup)
    (hnew : ∀ v ∈ (s.votes.lookup hash).getD [], v.1 ≠ i)
    (hlen : c.cfg.quorum ≤ ((s.votes.lookup hash).getD []).length + 1)
    (h2 : 2 ≤ ((s.votes.lookup hash).getD []).length + 1) :
    ∃ sgq : Sig,
      (step k c s (.vote id (some (.multi c.scheme [⟨i, bytes⟩])) hash false)).2 = [] ∧
      (step k c s (.vote id (some (.multi c.scheme [⟨i, bytes⟩])) hash false)).1.view = s.view ∧
      (step k c s (.vote id (some (.multi c.scheme [⟨i, bytes⟩])) hash false)).1.highQC = ⟨some sgq, blk.view, hash⟩ ∧
      verifyQC (env k c s) ⟨some sgq, blk.view, hash⟩ = true := by
  let sg : Sig := .multi c.scheme [⟨i, bytes⟩]
  let vs := (s.votes.lookup hash).getD []
  have hsgv : verify (fun b => s.truth.lookup b) c.cfg sg (blkMsg hash) = true :=
    verify_single _ c.cfg i bytes _ hs hi hbytes
  obtain ⟨sgq, hcomb, hverq, hlenq⟩ := combine_votes_verifies (fun b => s.truth.lookup b) c.cfg (blkMsg hash)
    (vs ++ [(i, sg)])
    (by simp only [List.map_append, List.map_cons, List.map_nil]
        rw [List.nodup_append]
        refine ⟨hnodup, by simp, ?_⟩
        intro a ha b hb
        simp at hb; subst hb
        obtain ⟨x, hx, hxe⟩ := List.mem_map.mp ha
        intro e; exact hnew x hx (by rw [hxe, e]))
    (by simpa using h2)
    (by intro v hv
        simp only [List.mem_append, List.mem_singleton] at hv
        rcases hv with hv | rfl
        · exact hvalid v hv
        · exact ⟨hi, Or.inl ⟨hs, bytes, rfl, hbytes⟩⟩)
  have hcomb' : combine c.cfg (vs.map (fun x => x.2) ++ [sg]) = .ok sgq := by simpa using hcomb
  let qc : QC := ⟨some sgq, blk.view, hash⟩
  have hqc : verifyQC (env k c s) qc = true :=
    verifyQC_of_votes k c s hash blk sgq hblk hh hg hverq (by rw [hlenq]; simpa using hlen)
  let s0 : RState := { s with out := [], queue := s.queue ++ [.vote id (some sg) hash false] }
  let sA : RState := { s0 with queue := [] }
  let sB : RState := qcFormedS c sA hash qc
  let sC : RState := { sB with queue := [] }
  let sD : RState := updHighQC sC qc blk
  have hcv : (collectVote k c id (some sg) hash false).run sA = pure ((), sB) :=
    collectVote_quorum_run k c sA id i bytes hash blk false sgq hblk hh hg hhi hsgv hnew hlen hcomb'
  have ht1 : (tick k c).run s0 = pure (true, sB) := tick_vote k c s0 sB id (some sg) hash false [] (by simp [s0, hq]) hcv
  have hadv : (advanceView k c { qc := some qc }).run sC = pure ((), sD) :=
    advanceView_stay k c sC qc blk ha hqc hblk hview
  have ht2 : (tick k c).run sB = pure (true, sD) :=
    tick_newview k c sB sD c.id { qc := some qc } [] (by simp [sB, qcFormedS, sA]) hadv
  have hrest := runLoop_passive k c [] 99998 sD (by simp)
  have hstep : step k c s (.vote id (some sg) hash false) = ({ sD with queue := [], out := [] }, []) := by
    rw [step_run_eq k c s _ (99998 + 1 + 1) rfl, runLoop_succ k c _ s0 sB ht1, runLoop_succ k c _ sB sD ht2]
    rw [show sD = { sD with queue := [] } from rfl, hrest]
    rfl
  refine ⟨sgq, ?_, ?_, ?_, hqc⟩
  · rw [hstep]
  · rw [hstep]; rfl
  · rw [hstep]
    have : ¬ blk.view ≤ s.highQC.view := by omega
    show (if blk.view ≤ s.highQC.view then s.highQC else qc) = qc
    rw [if_neg this]

/-- executable form of `C08.Accepted` for ECDSA / EdDSA signatures -/
def acceptedB (T : Truth) (cfg : Cfg) (x : TimeoutMsg) : Bool :=
  match x.viewSig with
  | some (.multi k [e]) => e.claimed == x.id && cfg.has x.id && verify T cfg (.multi k [e]) (viewMsg x.view)
  | _ => false

theorem accepted_of_acceptedB (T : Truth) (cfg : Cfg) (x : TimeoutMsg) (h : acceptedB T cfg x = true) :
    HsVerif.Props.C08.Accepted T cfg x := by
  unfold acceptedB at h
  split at h
  · rename_i k e hs
    simp only [Bool.and_eq_true, beq_iff_eq] at h
    exact ⟨_, hs, trivial, rfl, by simp [Sig.participants, h.1.1], h.1.2, h.2⟩
  · simp at h

end HsVerif.Model
