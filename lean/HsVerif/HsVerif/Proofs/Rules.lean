import HsVerif.Model.Rules
import HsVerif.Spec.Rules
/-! Helper lemmas for C04: the ancestry walk of `Blockchain.Extends` against branch membership. -/
set_option linter.unusedVariables false
namespace HsVerif.Proofs.Rules
open HsVerif.Model.Rules HsVerif.Spec.Rules

/-- Names are given in creation order: a stored block's parent was created before the name it is
stored under (hashes cannot form cycles). -/
def Acyclic (s : Store) : Prop := ∀ h x, s h = some x → x.parent < h

/-- the parent link of `x`, if its block is present, goes to a strictly lower view -/
def LinkGrows (s : Store) (x : Block) : Prop := ∀ p, s x.parent = some p → p.view < x.view

/-- Views strictly increase along every parent link of the store and along the proposal's. -/
def ViewsGrow (s : Store) (b : Block) : Prop := LinkGrows s b ∧ ∀ h x, s h = some x → LinkGrows s x

/-- Hash names identify blocks among the proposal and the stored blocks: whoever carries `t`'s
name is `t` (SHA-256 modelled as injective, DESIGN.md §2). -/
def Names (s : Store) (b t : Block) : Prop :=
  ∀ x, (x = b ∨ ∃ h, s h = some x) → x.hash = t.hash → x = t

theorem acyclic_zero {s : Store} (h : Acyclic s) : s 0 = none := by
  cases hs : s 0 with
  | none => rfl
  | some x => exact absurd (h 0 x hs) (Nat.not_lt_zero _)

/-- The walk only ever answers `true` after reaching `target`'s name through present parents. -/
theorem extendsFuel_sound (s : Store) (t : Block) :
    ∀ (n : Nat) (cur : Block), extendsFuel s t n cur = true → OnBranch s cur t.hash := by
  intro n
  induction n with
  | zero => intro cur h; simp [extendsFuel] at h
  | succ n ih =>
    intro cur h
    unfold extendsFuel at h
    split at h
    · cases hp : bcGet s cur.parent with
      | none => simp [hp] at h
      | some p =>
        simp [hp] at h
        exact OnBranch.up (by simpa [bcGet] using hp) (ih p h)
    · have : cur.hash = t.hash := by simpa using h
      rw [← this]; exact OnBranch.self cur

theorem extends_sound (s : Store) (b t : Block) (h : extends_ s b t = true) : Extends s b t :=
  extendsFuel_sound s t _ b h

/-- along a view-increasing path the end is not above the start -/
theorem onBranch_view_le (s : Store) (t : Block) (hg : ∀ h x, s h = some x → LinkGrows s x) :
    ∀ (cur : Block) (h : Nat), OnBranch s cur h → h = t.hash → LinkGrows s cur →
      (∀ x, (x = cur ∨ ∃ k, s k = some x) → x.hash = t.hash → x.view = t.view) → t.view ≤ cur.view := by
  intro cur h hb
  induction hb with
  | self b => intro he _ hn; exact Nat.le_of_eq (hn b (Or.inl rfl) he).symm
  | @up b p h hp _ ih =>
    intro he hl hn
    have h1 := ih he (hg _ p hp) (fun x hx => hn x (Or.inr (by
      cases hx with
      | inl e => exact ⟨b.parent, e ▸ hp⟩
      | inr e => exact e)))
    have h2 := hl p hp
    omega

/-- With names in creation order, views growing along parent links and names identifying blocks,
the walk finds every ancestor. -/
theorem extendsFuel_complete (s : Store) (t : Block) (hac : Acyclic s)
    (hg : ∀ h x, s h = some x → LinkGrows s x) :
    ∀ (cur : Block) (h : Nat), OnBranch s cur h → h = t.hash → LinkGrows s cur →
      (∀ x, (x = cur ∨ ∃ k, s k = some x) → x.hash = t.hash → x.view = t.view) →
      ∀ n, cur.parent < n → extendsFuel s t n cur = true := by
  intro cur h hb
  induction hb with
  | self b =>
    intro he _ hn n hlt
    cases n with
    | zero => omega
    | succ n =>
      unfold extendsFuel
      have : ¬ b.view > t.view := by have := hn b (Or.inl rfl) he; omega
      simp [this, he]
  | @up b p h hp hrest ih =>
    intro he hl hn n hlt
    cases n with
    | zero => omega
    | succ n =>
      have hn' : ∀ x, (x = p ∨ ∃ k, s k = some x) → x.hash = t.hash → x.view = t.view := fun x hx =>
        hn x (Or.inr (by
          cases hx with
          | inl e => exact ⟨b.parent, e ▸ hp⟩
          | inr e => exact e))
      have hle := onBranch_view_le s t hg p h hrest he (hg _ p hp) hn'
      have hlt2 := hl p hp
      have hgt : b.view > t.view := by omega
      unfold extendsFuel
      simp only [hgt, ↓reduceIte, bcGet, hp]
      exact ih he (hg _ p hp) hn' n (by have := hac _ p hp; omega)

theorem extends_complete (s : Store) (b t : Block) (hac : Acyclic s) (hg : ViewsGrow s b)
    (hn : Names s b t) (h : Extends s b t) : extends_ s b t = true :=
  extendsFuel_complete s t hac hg.2 b t.hash h rfl hg.1
    (fun x hx he => by rw [hn x hx he]) _ (Nat.lt_succ_self _)

/-- More fuel than `parent + 1` never changes the answer (names in creation order). -/
theorem extendsFuel_fuel_irrelevant (s : Store) (t : Block) (hac : Acyclic s) :
    ∀ (n m : Nat) (cur : Block), cur.parent < n → cur.parent < m →
      extendsFuel s t n cur = extendsFuel s t m cur := by
  intro n
  induction n with
  | zero => intro m cur h; omega
  | succ n ih =>
    intro m cur hn hm
    cases m with
    | zero => omega
    | succ m =>
      unfold extendsFuel
      split
      · cases hp : bcGet s cur.parent with
        | none => rfl
        | some p =>
          have := hac _ p (by simpa [bcGet] using hp)
          exact ih m p (by omega) (by omega)
      · rfl

/-- The executable branch walk of the specification is exact when names are in creation order. -/
theorem mem_branch_iff (s : Store) (hac : Acyclic s) :
    ∀ (n : Nat) (b : Block) (h : Nat), b.parent ≤ n → (h ∈ branch s n b ↔ OnBranch s b h) := by
  intro n
  induction n with
  | zero =>
    intro b h hb
    have hp : b.parent = 0 := by omega
    have hz := acyclic_zero hac
    simp only [branch, List.mem_singleton]
    constructor
    · intro e; subst e; exact OnBranch.self b
    · intro ob
      cases ob with
      | self => rfl
      | up hp' _ => rw [hp, hz] at hp'; cases hp'
  | succ n ih =>
    intro b h hb
    unfold branch
    cases hp : s b.parent with
    | none =>
      simp only [List.mem_singleton]
      constructor
      · intro e; subst e; exact OnBranch.self b
      · intro ob
        cases ob with
        | self => rfl
        | up hp' _ => rw [hp] at hp'; cases hp'
    | some p =>
      have hlt := hac _ p hp
      simp only [List.mem_cons]
      constructor
      · intro e
        cases e with
        | inl e => subst e; exact OnBranch.self b
        | inr e => exact OnBranch.up hp ((ih p h (by omega)).1 e)
      · intro ob
        cases ob with
        | self => exact Or.inl rfl
        | up hp' hr =>
          rw [hp] at hp'; cases hp'
          exact Or.inr ((ih p h (by omega)).2 hr)

theorem extendsB_iff (s : Store) (hac : Acyclic s) (b t : Block) :
    extendsB s b t = true ↔ Extends s b t := by
  unfold extendsB Extends
  rw [List.contains_iff_mem]
  exact mem_branch_iff s hac _ b t.hash (Nat.le_refl _)

theorem qcRef_eq (s : Store) (hz : s 0 = none) (h : Nat) : qcRef s h = s h := by
  unfold qcRef bcGet
  split
  · rename_i h0; rw [h0, hz]
  · rfl

theorem store_zero (s : Store) (b : Block) (hz : s 0 = none) (hb : b.hash ≠ 0) :
    (s.store b) 0 = none := by
  unfold Store.store
  have : ¬ (0 = b.hash) := fun e => hb e.symm
  simp [this, hz]

end HsVerif.Proofs.Rules

namespace HsVerif.Proofs.Rules
open HsVerif.Model.Rules HsVerif.Spec.Rules

/-- A store given by the list of its blocks, each under its own name (first entry wins). -/
def ofList (l : List Block) : Store := fun h => l.find? (fun x => x.hash == h)

theorem ofList_some {l : List Block} {h : Nat} {x : Block} (hs : ofList l h = some x) :
    x ∈ l ∧ x.hash = h := by
  unfold ofList at hs
  exact ⟨List.mem_of_find?_eq_some hs, by simpa using List.find?_some hs⟩

theorem acyclic_ofList (l : List Block) (hl : ∀ x ∈ l, x.parent < x.hash) : Acyclic (ofList l) := by
  intro h x hs
  obtain ⟨hm, he⟩ := ofList_some hs
  rw [← he]; exact hl x hm

theorem names_ofList (l : List Block) (b t : Block)
    (hl : ∀ x ∈ b :: l, x.hash = t.hash → x = t) : Names (ofList l) b t := by
  intro x hx he
  apply hl x _ he
  cases hx with
  | inl e => simp [e]
  | inr e => obtain ⟨h, hs⟩ := e; simp [(ofList_some hs).1]

theorem viewsGrow_ofList (l : List Block) (b : Block)
    (hl : ∀ x ∈ b :: l, ∀ p ∈ l, p.hash = x.parent → p.view < x.view) : ViewsGrow (ofList l) b := by
  constructor
  · intro p hp
    obtain ⟨hm, he⟩ := ofList_some hp
    exact hl b (by simp) p hm he
  · intro h x hs p hp
    obtain ⟨hm, he⟩ := ofList_some hp
    exact hl x (by simp [(ofList_some hs).1]) p hm he

end HsVerif.Proofs.Rules
