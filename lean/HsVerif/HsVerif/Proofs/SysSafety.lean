import HsVerif.Proofs.SysDiscipline
import HsVerif.Props.C01SysWF
import HsVerif.Props.C01Rule
import HsVerif.Props.C01Pair
import HsVerif.Props.C01LockInv
/-!
C01, system layer, final assembly (task S4B): the SYSTEM of replica models (Model/Sys.lean) keeps the
LOCK RULE of the abstract safety argument (Proofs/Safety.lean, field `lock` of `Discipline`), hence is
an instance of it, hence is safe.  Helpers; the property theorems are in Props/C01Safety.lean.

1. `RepSafe c s` = `LInv c s` (Proofs/ReplicaLockInv.lean) ∧ `PairInv c s` (Proofs/ReplicaPair.lean) ∧
   `CommittedBy c s` (the committed block is genesis or the block the commit rule returned for a block
   voted for: `CommitChain`, Proofs/ReplicaRule.lean), lifted to every replica of every reachable
   system state (`reach_safe`) the way `reach_cur` lifts `Cur`: `step` / `start` preserve it
   (`step_lp`, `start_lp`, `committed_only_by_rule(_start)` + `ghost_appends_*` + `commitChain_grows`),
   and the `run` wrapper (global `truth` / `nextBytes` written into the replica) and `fetchable` touch
   neither block map, ghost history, lock nor committed block (`repSafe_congr`).
2. `ghost_order`: the C03 invariant `Inv3` orders the ghost history — votes before a vote for `w` are
   for lower views, votes after it for higher views.
3. In namespace `HsVerif.SysSafety`, under the standing hypotheses `Ctx k C σ blk`, the translation of
   the stored-lookup vocabulary of the replica invariants into the abstract system `SysAbs C σ blk`:
   what is known of a voted / certified block (`VotedFacts`), certificate links are abstract parent
   links (`link_voted`, `link_gc`), `CoveredBy` / `ProvIn` / `StoreExt` / `RuleHolds` (`covered`,
   `prov`, `storeExt`, `rule`), the lock rule (`lock`), `Discipline` (`discipline`), commit chains are
   three-chains (`three`, `commit_chain`, `committed`), committed blocks agree (`commits_agree`).

THE CONTENT ADDRESSING HYPOTHESIS `CA'` (added here, next to `CA` in its namespace):
  `CA' σ blk := CA σ blk ∧ ∀ i s h b, σ.reps.lookup i = some s → s.chain.blocks.lookup h = some b → h ≠ ""`
— on top of `CA` (Proofs/SysDiscipline.lean), NO BLOCK IS STORED UNDER THE EMPTY HASH at any honest
replica.  Why it is needed: the genesis block of the model carries the certificate hash `""`
(`genesisBlock.qc.hash = ""`), chained HotStuff's `qcRef` follows no certificate with hash `""`, and
the replica-level invariants are exact about that (`CoveredBy` has a vacuous branch for a voted block
with `qc.hash = ""` and for a certified parent with `qc.hash = ""`; `GPof` / `Walk2` stop at `""`).
Hashes are a FIELD of the modelled block, so a Byzantine proposal with hash `""` is stored like any
other (Props/C01LockInv.lean, `votes_lock_grandparent_counterexample`); with such a block stored the
vacuous branches are real and the lock does not cover the grandparent.  Real hashes are 32 bytes
(SHA-256) and `genesisHash = "G" ≠ ""`, so the clause is part of what "the hash field is a hash"
means, like `CA` itself.  With `CA'`: every voted block has both certificate links stored
(`LInv`), so its certificate hash and that of every certified block is not `""`; a GC block whose
certificate hash names a stored block is not genesis.  Nothing else was added to `CA`: `committed`,
locks and walk targets are stored blocks or genesis, which `CA` already identifies with `blk`.
-/
set_option linter.unusedVariables false
namespace HsVerif.Model
open HsVerif.Props HsVerif.Props.C01Sys

/-- the committed block is genesis or was returned by the commit rule for a block voted for -/
def CommittedBy (c : RCfg) (s : RState) : Prop :=
  s.committed = genesisBlock ∨ ∃ x id, GRec.vote x id ∈ s.ghost ∧ CommitChain c s x s.committed

/-- the replica-level invariants of the lock rule and of the commit rule together -/
structure RepSafe (c : RCfg) (s : RState) : Prop where
  linv : LInv c s
  pair : PairInv c s
  comm : CommittedBy c s

theorem repSafe_init (c : RCfg) : RepSafe c {} :=
  ⟨C01LockInv.linv_init c, pair_init c, Or.inl rfl⟩

theorem committedBy_of_vr (c : RCfg) (s s' : RState) (new : List GRec) (hg : Grows s.chain.blocks s')
    (hnew : s'.ghost = s.ghost ++ new)
    (hc : s'.committed = s.committed ∨ ∃ x id, GRec.vote x id ∈ new ∧ CommitChain c s' x s'.committed)
    (h : CommittedBy c s) : CommittedBy c s' := by
  rcases hc with hc | ⟨x, id, hm, hcc⟩
  · rcases h with h | ⟨x, id, hm, hcc⟩
    · exact Or.inl (by rw [hc]; exact h)
    · refine Or.inr ⟨x, id, by rw [hnew]; exact List.mem_append_left _ hm, ?_⟩
      rw [hc]; exact commitChain_grows c s s' x _ hg hcc
  · exact Or.inr ⟨x, id, by rw [hnew]; exact List.mem_append_right _ hm, hcc⟩

theorem step_repSafe (k : Keys) (c : RCfg) (hc : c.rules ≠ .fast) (s : RState) (e : Ev) (h : RepSafe c s) :
    RepSafe c (step k c s e).1 := by
  obtain ⟨h1, h2⟩ := C01Pair.step_linv_pair k c hc s e ⟨h.linv, h.pair⟩
  obtain ⟨new, hnew⟩ := C01Rule.ghost_appends_step k c s e
  exact ⟨h1, h2, committedBy_of_vr c s _ new (step_grows k c s e) hnew
    (C01Rule.committed_only_by_rule k c s e new hnew) h.comm⟩

theorem start_repSafe (k : Keys) (c : RCfg) (hc : c.rules ≠ .fast) (s : RState) (h : RepSafe c s) :
    RepSafe c (start k c s).1 := by
  obtain ⟨h1, h2⟩ := start_lp k c hc s ⟨h.linv, h.pair⟩
  obtain ⟨new, hnew⟩ := C01Rule.ghost_appends_start k c s
  exact ⟨h1, h2, committedBy_of_vr c s _ new (start_grows k c s) hnew
    (C01Rule.committed_only_by_rule_start k c s new hnew) h.comm⟩

/-- `RepSafe` reads block map, ghost history, lock and committed block only -/
theorem repSafe_congr (c : RCfg) (s s' : RState) (hb : s'.chain.blocks = s.chain.blocks) (hl : s'.lock = s.lock)
    (hg : s'.ghost = s.ghost) (hcm : s'.committed = s.committed) (h : RepSafe c s) : RepSafe c s' := by
  have hsame := same_of_eq s s' hb hl hg
  refine ⟨linv_same hsame c h.linv, pair_grows hsame.store hg c h.pair, ?_⟩
  rcases h.comm with hc | ⟨x, id, hm, hcc⟩
  · exact Or.inl (by rw [hcm]; exact hc)
  · exact Or.inr ⟨x, id, hg ▸ hm, by rw [hcm]; exact commitChain_grows c s s' x _ hsame.store hcc⟩

/-- every replica of the system state satisfies `RepSafe` -/
def SysSafe (C : SysCfg) (σ : SysState) : Prop :=
  ∀ i s, σ.reps.lookup i = some s → RepSafe (C.rcfg i) s

theorem sysInit_safe (k : Keys) (C : SysCfg) : SysSafe C (sysInit k C) := by
  intro i s h
  simp only [sysInit, lookup_init] at h
  split at h
  · cases h; exact repSafe_init _
  · cases h

theorem sys_set_safe (C : SysCfg) (σ : SysState) (i : Nat) (s' : RState) (t' : List (Nat × Atom)) (nb : Nat)
    (h : SysSafe C σ) (hs : RepSafe (C.rcfg i) s') :
    SysSafe C { reps := setKV i s' σ.reps, truth := t', nextBytes := nb } := by
  intro j sj hj
  by_cases hji : j = i
  · subst hji
    simp only [lookup_setKV_self] at hj
    cases hj; exact hs
  · simp only [lookup_setKV_ne _ _ _ _ hji] at hj
    exact h j sj hj

theorem sys_run_safe (C : SysCfg) (σ : SysState) (i : Nat) (f : RState → RState × List Out)
    (hf : ∀ s, RepSafe (C.rcfg i) s → RepSafe (C.rcfg i) (f s).1)
    (h : SysSafe C σ) : SysSafe C (σ.run i f) := by
  unfold SysState.run
  split
  · exact h
  · rename_i s hl
    exact sys_set_safe C σ i _ _ _ h (hf _ (repSafe_congr _ s _ rfl rfl rfl rfl (h i s hl)))

theorem sysStep_safe (k : Keys) (C : SysCfg) (hc : C.rules ≠ .fast) (σ : SysState) (a : SysAct)
    (h : SysSafe C σ) : SysSafe C (sysStep k C σ a) := by
  cases a with
  | start i => exact sys_run_safe C σ i _ (fun s => start_repSafe k _ hc s) h
  | deliver i e => exact sys_run_safe C σ i _ (fun s => step_repSafe k _ hc s e) h
  | fetchable i l =>
    simp only [sysStep]
    split
    · exact h
    · rename_i s hl
      exact sys_set_safe C σ i _ σ.truth σ.nextBytes h (repSafe_congr _ s _ rfl rfl rfl rfl (h i s hl))
  | forge a =>
    simp only [sysStep]
    split
    · exact h
    · exact h

theorem reach_safe (k : Keys) (C : SysCfg) (hc : C.rules ≠ .fast) (σ : SysState) (h : Reach k C σ) : SysSafe C σ := by
  induction h with
  | init => exact sysInit_safe k C
  | step σ a _ ih => exact sysStep_safe k C hc σ a ih


/-- votes before a vote for `w` are for lower views, votes after it for higher views -/
theorem ghost_order (k : Keys) (c : RCfg) (s : RState) (hi : Inv3 k c s) (pre post : List GRec) (w : Block) (id : Nat)
    (he : s.ghost = pre ++ GRec.vote w id :: post) :
    (∀ x idx, GRec.vote x idx ∈ pre → x.view < w.view) ∧ (∀ x idx, GRec.vote x idx ∈ post → w.view < x.view) := by
  have hp : s.ghost.Pairwise (fun r1 r2 => ∀ v1 v2, r1.signedView = some v1 → r2.voteView = some v2 → v1 < v2) := hi.2.1
  rw [he, List.pairwise_append, List.pairwise_cons] at hp
  refine ⟨?_, ?_⟩
  · intro x idx hx
    exact hp.2.2 _ hx _ (List.mem_cons_self ..) x.view w.view rfl rfl
  · intro x idx hx
    exact hp.2.1.1 _ hx w.view x.view rfl rfl


end HsVerif.Model

namespace HsVerif.Props.C01SysWF
open HsVerif.Model

/-- **Content addressing, strengthened**: `CA`, and no honest replica stores a block under the empty
hash (real hashes are 32 bytes; the genesis hash is `"G"`). -/
def CA' (σ : SysState) (blk : Hash → Block) : Prop :=
  CA σ blk ∧ ∀ i s h b, σ.reps.lookup i = some s → s.chain.blocks.lookup h = some b → h ≠ ""

/-- `CA'`, checked over all entries of all stores and all vote records -/
def ca'Check (σ : SysState) (blk : Hash → Block) : Bool :=
  caCheck σ blk && σ.reps.all (fun p => p.2.chain.blocks.all (fun e => e.1 != ""))

theorem ca'_of_ca'Check (σ : SysState) (blk : Hash → Block) (h : ca'Check σ blk = true) : CA' σ blk := by
  simp only [ca'Check, Bool.and_eq_true] at h
  refine ⟨ca_of_caCheck σ blk h.1, ?_⟩
  intro i s x b hl hb
  have hp := List.all_eq_true.mp h.2 _ (C01Sys.mem_of_lookup _ _ _ hl)
  have := List.all_eq_true.mp hp _ (mem_of_lookup_hash _ _ _ hb)
  simpa using this

end HsVerif.Props.C01SysWF

namespace HsVerif.SysSafety
open HsVerif.Model HsVerif.Props HsVerif.Props.C01Sys HsVerif.Props.C01SysWF HsVerif.Safety

/-- the standing hypotheses -/
structure Ctx (k : Keys) (C : SysCfg) (σ : SysState) (blk : Hash → Block) : Prop where
  hk : KeysOK k
  hr : Reach k C σ
  hn : 1 ≤ C.n
  hf : FewFaulty C
  hsch : C.scheme ≠ .bls12
  hrl : C.rules ≠ .fast
  hca : CA' σ blk

/-- what is known of a block an honest replica voted for, or of a certified block -/
structure VotedFacts (C : SysCfg) (σ : SysState) (blk : Hash → Block) (w : Block) : Prop where
  ne_gen : w ≠ genesisBlock
  known : w = blk w.hash
  qc_ne : w.qc.hash ≠ ""
  pos : 0 < w.view
  par : (SysAbs C σ blk).par w = blk w.qc.hash
  gc : GC (SysAbs C σ blk) ((SysAbs C σ blk).par w)
  lt : Block.view ((SysAbs C σ blk).par w) < w.view

section
variable {k : Keys} {C : SysCfg} {σ : SysState} {blk : Hash → Block} (X : Ctx k C σ blk)
include X

theorem Ctx.stored {i : Nat} {s : RState} {h : Hash} {b : Block} (hs : σ.reps.lookup i = some s)
    (hb : sget s h = some b) : b = blk h ∧ b.hash = h ∧ h ≠ "" :=
  ⟨((X.hca.1.2 i s hs).1 h b hb).1, ((X.hca.1.2 i s hs).1 h b hb).2, X.hca.2 i s h b hs hb⟩

theorem Ctx.stored_known {i : Nat} {s : RState} {h : Hash} {b : Block} (hs : σ.reps.lookup i = some s)
    (hb : sget s h = some b) : b = blk b.hash := by
  obtain ⟨h1, h2, _⟩ := X.stored hs hb
  rw [h2]; exact h1

theorem Ctx.honest_of {i : Nat} {s : RState} (hs : σ.reps.lookup i = some s) : i ∈ C.honest :=
  (reach_inv k C X.hk σ X.hr).dom' i s hs

theorem Ctx.safe {i : Nat} {s : RState} (hs : σ.reps.lookup i = some s) : RepSafe (C.rcfg i) s :=
  reach_safe k C X.hrl σ X.hr i s hs

theorem Ctx.voted {i : Nat} {s : RState} {w : Block} {id : Nat} (hs : σ.reps.lookup i = some s)
    (hm : GRec.vote w id ∈ s.ghost) : VotedFacts C σ blk w := by
  have hv : (SysAbs C σ blk).voted i w := ⟨s, id, hs, hm⟩
  have hne := voted_ne_genesis k C X.hk σ X.hr blk i w hv
  obtain ⟨_, _, h3⟩ := honest_vote_discipline k C X.hk σ X.hr i s hs
  obtain ⟨_, hpar, hlt, _⟩ := h3 w id hm
  obtain ⟨hgc, hvl⟩ := sys_wf k C X.hk σ X.hr X.hsch blk X.hca.1 i w (X.honest_of hs) hv
  obtain ⟨p, hp, _⟩ := ((X.safe hs).linv.2.1 w id hm).1
  refine ⟨hne, (X.hca.1.2 i s hs).2 w id hm, (X.stored hs hp).2.2, by omega, ?_, hgc, hvl⟩
  rw [sysAbs_par, if_neg hne, hpar]

theorem Ctx.cert_voter {b : Block} (h : Certified (SysAbs C σ blk) b) :
    ∃ i s id, σ.reps.lookup i = some s ∧ GRec.vote b id ∈ s.ghost := by
  obtain ⟨Q, hQ, hv⟩ := h
  obtain ⟨r, hr, _, hh⟩ := sys_inter C σ blk X.hn X.hf Q Q hQ hQ
  obtain ⟨s, id, hs, hm⟩ := hv r hr hh
  exact ⟨r, s, id, hs, hm⟩

theorem Ctx.cert {b : Block} (h : Certified (SysAbs C σ blk) b) : VotedFacts C σ blk b := by
  obtain ⟨i, s, id, hs, hm⟩ := X.cert_voter h
  exact X.voted hs hm

/-- the block stored under the certificate hash of a voted block is its abstract parent -/
theorem Ctx.link_voted {i : Nat} {s : RState} {w p : Block} {id : Nat} (hs : σ.reps.lookup i = some s)
    (hm : GRec.vote w id ∈ s.ghost) (hp : sget s w.qc.hash = some p) : p = (SysAbs C σ blk).par w := by
  rw [(X.voted hs hm).par]; exact (X.stored hs hp).1

/-- a GC block whose certificate hash names a stored block is certified, and that block is its parent -/
theorem Ctx.link_gc {i : Nat} {s : RState} {p g : Block} (hs : σ.reps.lookup i = some s)
    (hgc : GC (SysAbs C σ blk) p) (hg : sget s p.qc.hash = some g) :
    Certified (SysAbs C σ blk) p ∧ g = (SysAbs C σ blk).par p := by
  rcases hgc with rfl | hc
  · exact absurd rfl (X.stored hs hg).2.2
  · refine ⟨hc, ?_⟩
    rw [(X.cert hc).par]; exact (X.stored hs hg).1

theorem Ctx.covered {i : Nat} {s : RState} {x : Block} {id : Nat} (c : RCfg) (lv : Nat) (hs : σ.reps.lookup i = some s)
    (hm : GRec.vote x id ∈ s.ghost) (hcov : CoveredBy c s x lv) :
    Block.view ((SysAbs C σ blk).par ((SysAbs C σ blk).par x)) ≤ lv := by
  have V := X.voted hs hm
  rcases hcov with ⟨_, h0⟩ | ⟨p, hp, h2⟩
  · exact absurd h0 V.qc_ne
  · have hpx := X.link_voted hs hm hp
    have hgc : GC (SysAbs C σ blk) p := hpx ▸ V.gc
    rw [← hpx]
    rcases h2 with h2 | ⟨g, hg, hv⟩
    · rcases hgc with rfl | hc
      · rw [sysAbs_par, if_pos rfl]; exact Nat.zero_le _
      · exact absurd h2 (X.cert hc).qc_ne
    · obtain ⟨_, hgp⟩ := X.link_gc hs hgc hg
      rw [← hgp]; exact hv

theorem Ctx.prov {i : Nat} {s : RState} (c : RCfg) (pre : List GRec) (L : Block) (hs : σ.reps.lookup i = some s)
    (hsub : ∀ r, r ∈ pre → r ∈ s.ghost) (hp : ProvIn c s pre L) :
    GC (SysAbs C σ blk) L ∧ L = blk L.hash ∧
      (L = genesisBlock ∨ ∃ x' id, GRec.vote x' id ∈ pre ∧ L.view < x'.view) := by
  rcases hp with rfl | ⟨x', id, hm, p, hp1, _, hp2⟩
  · exact ⟨Or.inl rfl, X.hca.1.1.symm, Or.inl rfl⟩
  · have hm' := hsub _ hm
    have V := X.voted hs hm'
    have hpx := X.link_voted hs hm' hp1
    have hgc : GC (SysAbs C σ blk) p := hpx ▸ V.gc
    obtain ⟨hc, hL⟩ := X.link_gc hs hgc hp2
    have Cp := X.cert hc
    refine ⟨hL ▸ Cp.gc, X.stored_known hs hp2, Or.inr ⟨x', id, hm, ?_⟩⟩
    have h1 : L.view < p.view := by rw [hL]; exact Cp.lt
    have h2 : p.view < x'.view := by rw [hpx]; exact V.lt
    omega

theorem Ctx.storeExt {i : Nat} {s : RState} {w l : Block} (hs : σ.reps.lookup i = some s)
    (hw : w = blk w.hash) (hl : l = blk l.hash) (h : StoreExt s w l) : Ext (SysAbs C σ blk) w l := by
  induction h with
  | here w l hv hh =>
    have : w = l := by
      calc w = blk w.hash := hw
        _ = blk l.hash := by rw [hh]
        _ = l := hl.symm
    rw [this]; exact Ext.refl _
  | up w p l hv hp _ ih =>
    have hne : w ≠ genesisBlock := by
      intro e; rw [e] at hv; exact Nat.not_lt_zero _ hv
    have hpar : (SysAbs C σ blk).par w = p := by
      rw [sysAbs_par, if_neg hne]; exact (X.stored hs hp).1.symm
    exact Ext.step (by rw [hpar]; exact ih (X.stored_known hs hp) hl)

theorem Ctx.gc_unique {a b : Block} (ha : GC (SysAbs C σ blk) a) (hb : GC (SysAbs C σ blk) b)
    (hv : a.view = b.view) : a = b := by
  rcases ha with rfl | ha <;> rcases hb with rfl | hb
  · rfl
  · have := (X.cert hb).pos; rw [← hv] at this; exact absurd this (Nat.lt_irrefl _)
  · have := (X.cert ha).pos; rw [hv] at this; exact absurd this (Nat.lt_irrefl _)
  · obtain ⟨Qa, hQa, hva⟩ := ha
    obtain ⟨Qb, hQb, hvb⟩ := hb
    obtain ⟨r, hra, hrb, hh⟩ := sys_inter C σ blk X.hn X.hf Qa Qb hQa hQb
    exact sys_one_per_view k C X.hk σ X.hr blk r a b hh (hva r hra hh) (hvb r hrb hh) hv

theorem Ctx.rule {i : Nat} {s : RState} {w L : Block} {id : Nat} (hs : σ.reps.lookup i = some s)
    (hm : GRec.vote w id ∈ s.ghost) (hL : GC (SysAbs C σ blk) L) (hLk : L = blk L.hash)
    (h : RuleHolds (C.rcfg i) s w L) :
    L.view < Block.view ((SysAbs C σ blk).par w) ∨ Ext (SysAbs C σ blk) w L := by
  have V := X.voted hs hm
  unfold RuleHolds at h
  split at h
  · rcases h with ⟨p, hp, hv⟩ | hse
    · left; rw [← X.link_voted hs hm hp]; exact hv
    · right; exact X.storeExt hs V.known hLk hse
  · obtain ⟨p, hp, hv⟩ := h
    have hpw := X.link_voted hs hm hp
    rcases Nat.eq_or_lt_of_le hv with heq | hlt
    · right
      have : L = (SysAbs C σ blk).par w := X.gc_unique hL V.gc (by rw [heq, hpw])
      exact Ext.step (by rw [← this]; exact Ext.refl _)
    · left; rw [← hpw]; exact hlt
  · rename_i hfast
    exact absurd hfast X.hrl

/-- **the lock rule** of the abstract discipline -/
theorem Ctx.lock : ∀ r x w, (SysAbs C σ blk).honest r → (SysAbs C σ blk).voted r x → (SysAbs C σ blk).voted r w →
    (SysAbs C σ blk).view x < (SysAbs C σ blk).view w →
    ∃ l, GC (SysAbs C σ blk) l ∧
      (SysAbs C σ blk).view ((SysAbs C σ blk).par ((SysAbs C σ blk).par x)) ≤ (SysAbs C σ blk).view l ∧
      (SysAbs C σ blk).view l < (SysAbs C σ blk).view w ∧
      ((SysAbs C σ blk).view l < (SysAbs C σ blk).view ((SysAbs C σ blk).par w) ∨ Ext (SysAbs C σ blk) w l) := by
  intro r x w _ ⟨s, idx, hs, hx⟩ ⟨s', id, hs', hw⟩ hlt
  have : s' = s := by
    have : some s' = some s := by rw [← hs, ← hs']
    cases this; rfl
  subst this
  have hlt' : x.view < w.view := hlt
  obtain ⟨pre, post, he⟩ := List.append_of_mem hw
  have hord := ghost_order k _ s' (honest_vote_discipline k C X.hk σ X.hr r s' hs) pre post w id he
  have hxpre : GRec.vote x idx ∈ pre := by
    rw [he] at hx
    rcases List.mem_append.mp hx with h | h
    · exact h
    · rcases List.mem_cons.mp h with h | h
      · cases h; exact absurd hlt' (Nat.lt_irrefl _)
      · have := hord.2 x idx h; omega
  have hsub : ∀ r, r ∈ pre → r ∈ s'.ghost := by
    intro r hr; rw [he]; exact List.mem_append_left _ hr
  obtain ⟨L, hprov, hcov, hrule⟩ := (X.safe hs).pair pre w id post he
  obtain ⟨hgc, hLk, hLv⟩ := X.prov _ pre L hs hsub hprov
  have hLw : L.view < w.view := by
    rcases hLv with rfl | ⟨x', id', hm', hv'⟩
    · exact (X.voted hs hw).pos
    · have := hord.1 x' id' hm'; omega
  exact ⟨L, hgc, X.covered _ _ hs hx (hcov x idx hxpre), hLw, X.rule hs hw hgc hLk hrule⟩

theorem Ctx.discipline : Discipline (SysAbs C σ blk) :=
  sys_discipline_of_lock k C X.hk σ X.hr X.hn X.hf X.hsch blk X.hca.1 X.lock

/-- every GC block extends genesis -/
theorem Ctx.gc_ext_gen : ∀ (n : Nat) (b : Block), b.view = n → GC (SysAbs C σ blk) b →
    Ext (SysAbs C σ blk) b genesisBlock := by
  intro n
  induction n using Nat.strongRecOn with
  | _ n ih =>
    intro b hn hb
    rcases hb with rfl | hc
    · exact Ext.refl _
    · have Cb := X.cert hc
      exact Ext.step (ih _ (by rw [← hn]; exact Cb.lt) _ rfl Cb.gc)

/-- three certificate links down from a voted block, through stored blocks of consecutive views, are
a three-chain of the abstract system -/
theorem Ctx.three {i : Nat} {s : RState} {x b1 b2 b3 : Block} {id : Nat} (hs : σ.reps.lookup i = some s)
    (hm : GRec.vote x id ∈ s.ghost) (h1 : sget s x.qc.hash = some b1) (h2 : sget s b1.qc.hash = some b2)
    (h3 : sget s b2.qc.hash = some b3) (v1 : b2.view = b3.view + 1) (v2 : b1.view = b3.view + 2) :
    ThreeChain (S := SysAbs C σ blk) b3 b2 b1 := by
  have V := X.voted hs hm
  have e1 := X.link_voted hs hm h1
  have g1 : GC (SysAbs C σ blk) b1 := e1 ▸ V.gc
  obtain ⟨c1, e2⟩ := X.link_gc hs g1 h2
  have g2 : GC (SysAbs C σ blk) b2 := e2 ▸ (X.cert c1).gc
  obtain ⟨c2, e3⟩ := X.link_gc hs g2 h3
  exact ⟨e2.symm, e3.symm, v1, v2, c1⟩

theorem Ctx.commit_chain {i : Nat} {s : RState} {x b3 : Block} {id : Nat} (hs : σ.reps.lookup i = some s)
    (hm : GRec.vote x id ∈ s.ghost) (h : CommitChain (C.rcfg i) s x b3) :
    ∃ b2 b1, ThreeChain (S := SysAbs C σ blk) b3 b2 b1 := by
  unfold CommitChain at h
  split at h
  · obtain ⟨b1, b2, _, l1, _, l2, _, l3, _, v1, _, v2⟩ := h
    exact ⟨b2, b1, X.three hs hm l1 l2 l3 v2 (by omega)⟩
  · obtain ⟨p, gp, l1, l2, l3, v1, v2⟩ := h
    exact ⟨gp, p, X.three hs hm l1 l2 l3 v2 (by omega)⟩
  · rename_i hfast
    exact absurd hfast X.hrl

/-- the committed block of a replica is genesis or the tail of a three-chain -/
theorem Ctx.committed {i : Nat} {s : RState} (hs : σ.reps.lookup i = some s) :
    s.committed = genesisBlock ∨ ∃ b2 b1, ThreeChain (S := SysAbs C σ blk) s.committed b2 b1 := by
  rcases (X.safe hs).comm with h | ⟨x, id, hm, hcc⟩
  · exact Or.inl h
  · exact Or.inr (X.commit_chain hs hm hcc)

/-- the tail of a three-chain is GC -/
theorem Ctx.three_gc {b b' b'' : Block} (T : ThreeChain (S := SysAbs C σ blk) b b' b'') : GC (SysAbs C σ blk) b := by
  have g1 := (X.cert T.cert).gc
  rw [T.p2] at g1
  rcases g1 with h | h
  · have : b'.view = b.view + 1 := T.v1
    rw [h] at this; exact absurd this (by show (0 : Nat) ≠ _; omega)
  · have := (X.cert h).gc; rwa [T.p1] at this

theorem Ctx.commits_agree {i j : Nat} {si sj : RState} (hi : σ.reps.lookup i = some si) (hj : σ.reps.lookup j = some sj) :
    Ext (SysAbs C σ blk) si.committed sj.committed ∨ Ext (SysAbs C σ blk) sj.committed si.committed := by
  rcases X.committed hi with hci | ⟨b2, b1, Ti⟩
  · rcases X.committed hj with hcj | ⟨c2, c1, Tj⟩
    · left; rw [hci, hcj]; exact Ext.refl _
    · right; rw [hci]; exact X.gc_ext_gen _ _ rfl (X.three_gc Tj)
  · rcases X.committed hj with hcj | ⟨c2, c1, Tj⟩
    · left; rw [hcj]; exact X.gc_ext_gen _ _ rfl (X.three_gc Ti)
    · exact committed_on_one_branch X.discipline Ti Tj

end
end HsVerif.SysSafety
