import HsVerif.Proofs.CertComplete
/-! `Combine` succeeds on single-signer signatures of the configured scheme from pairwise distinct
signers, whatever their validity (used for C09: hostile votes cannot block certificate assembly). -/
set_option linter.unusedSimpArgs false
namespace HsVerif.Model
open Bitfield

/-- a signature value of the configured scheme's type whose only participant is `i` -/
def Shape (c : Cfg) (i : Nat) (s : Sig) : Prop :=
  (c.scheme ≠ .bls12 ∧ ∃ b, s = .multi c.scheme [⟨i, b⟩]) ∨
  (c.scheme = .bls12 ∧ ∃ a j bits, s = .bls a j bits ∧ bits.ids = [i])

theorem allBls_shapes (signers : List Nat) (fa : Nat → List Atom) (fj : Nat → List Nat) (g : Nat → Bitfield) :
    allBls (signers.map fun i => Sig.bls (fa i) (fj i) (g i)) = some (signers.map fun i => (fa i, fj i, g i)) := by
  induction signers with
  | nil => rfl
  | cons i is ih => simp only [List.map_cons, allBls, ih, Option.map_some]

/-- what the verifier accepts as a vote (one participant, well-formed, verified) has the shape -/
theorem shape_of_verify (T : Truth) (c : Cfg) (i : Nat) (m : Msg) (s : Sig)
    (hw : s.WF) (hl : s.len = 1) (hp : s.participants = [i]) (hv : verify T c s m = true) : Shape c i s := by
  obtain ⟨bits, h⟩ := single_of_verify T c i m s hw hl hp hv
  rcases h with ⟨h1, b, h2, _⟩ | ⟨h1, h2, h3⟩
  · exact Or.inl ⟨h1, b, h2⟩
  · exact Or.inr ⟨h1, _, _, bits, h2, h3⟩

theorem combine_shapes_ok (c : Cfg) (signers : List Nat) (f : Nat → Sig)
    (hn : signers.Nodup) (h1 : ∀ i ∈ signers, 1 ≤ i) (h2 : 2 ≤ signers.length)
    (hs : ∀ i ∈ signers, Shape c i (f i)) :
    ∃ s, combine c (signers.map f) = .ok s ∧ s.len = signers.length := by
  by_cases hb : c.scheme = .bls12
  · -- choose the components
    have hex : ∀ i ∈ signers, ∃ a j bits, f i = .bls a j bits ∧ bits.ids = [i] := by
      intro i hi
      rcases hs i hi with ⟨h, _⟩ | ⟨_, h⟩
      · exact absurd hb h
      · exact h
    let fa : Nat → List Atom := fun i => match f i with | .bls a _ _ => a | _ => []
    let fj : Nat → List Nat := fun i => match f i with | .bls _ j _ => j | _ => []
    let g : Nat → Bitfield := fun i => match f i with | .bls _ _ b => b | _ => Bitfield.empty
    have hf : ∀ i ∈ signers, f i = .bls (fa i) (fj i) (g i) ∧ (g i).ids = [i] := by
      intro i hi
      obtain ⟨a, j, bits, h, hid⟩ := hex i hi
      simp only [fa, fj, g, h, true_and]; exact hid
    have hsig : signers.map f = signers.map fun i => Sig.bls (fa i) (fj i) (g i) :=
      List.map_congr_left (fun i hi => (hf i hi).1)
    obtain ⟨bits, hbits⟩ := blsCombineAux_complete g signers Bitfield.empty inv_empty h1 hn
      (by intro x _; simp [Bitfield.empty, ids, idsOf]) (fun i hi => (hf i hi).2)
    obtain ⟨hinv, hmem⟩ := blsCombineAux_spec _ _ _ hbits inv_empty
    have hmem' : ∀ j, j ∈ bits.ids ↔ j ∈ signers := by
      intro j; rw [hmem]
      have he : ¬ j ∈ Bitfield.empty.ids := by simp [Bitfield.empty, ids, idsOf]
      constructor
      · rintro (h | ⟨s, hs', hj⟩)
        · exact absurd h he
        · obtain ⟨a, ha, rfl⟩ := List.mem_map.mp hs'
          rw [(hf a ha).2] at hj
          simp at hj; subst hj; exact ha
      · intro hj
        exact Or.inr ⟨g j, List.mem_map.mpr ⟨j, hj, rfl⟩, by rw [(hf j hj).2]; simp⟩
    have hnd : bits.ids.Nodup := idsOf_nodup _
    have hperm : bits.ids.Perm signers := by
      rw [List.perm_ext_iff_of_nodup hnd hn]; exact hmem'
    have hlen : bits.len = signers.length := by rw [hinv, hperm.length_eq]
    refine ⟨.bls (signers.flatMap fa) (signers.flatMap fj) bits, ?_, by simp [Sig.len, hlen]⟩
    unfold combine
    have : ¬ (signers.map f).length < 2 := by simp; omega
    simp only [this, ↓reduceIte, hb, hsig, allBls_shapes]
    simp only [List.map_map, Function.comp_def, hbits, List.flatMap_map]
    have : ¬ (List.map (fun i => Sig.bls (fa i) (fj i) (g i)) signers).length < 2 := by simp; omega
    simp [this]
    exact h2
  · have hex : ∀ (l : List Nat), (∀ i ∈ l, Shape c i (f i)) →
        ∃ es : List Entry, l.map f = es.map (fun e => Sig.multi c.scheme [e]) ∧ es.map (·.claimed) = l := by
      intro l
      induction l with
      | nil => intro _; exact ⟨[], rfl, rfl⟩
      | cons i l ih =>
        intro hl
        obtain ⟨es, h1, h2⟩ := ih (fun j hj => hl j (by simp [hj]))
        rcases hl i (by simp) with ⟨_, b, hfi⟩ | ⟨h, _⟩
        · exact ⟨⟨i, b⟩ :: es, by simp [h1, hfi], by simp [h2]⟩
        · exact absurd h hb
    obtain ⟨es, hsig, hcl⟩ := hex signers hs
    have hesl : es.length = signers.length := by rw [← hcl]; simp
    refine ⟨.multi c.scheme es, ?_, by simp [Sig.len, hesl]⟩
    rw [hsig]
    unfold combine
    have : ¬ (es.map fun e => Sig.multi c.scheme [e]).length < 2 := by simp; omega
    simp only [this, ↓reduceIte]
    have hcomb := multiCombineE_singletons es [] (by simpa [hcl] using hn)
    cases hk : c.scheme with
    | bls12 => exact absurd hk hb
    | ecdsa => simp only [hk] at *; simp [allMulti_singletons, hcomb]
    | eddsa => simp only [hk] at *; simp [allMulti_singletons, hcomb]

end HsVerif.Model
