import HsVerif.Proofs.SysRotate
/-!
ROTATING LEADERS (task S12d), system level, with the silent-minority setting of S12c (`RotCfg`: a quorum of participants, no
assumption on who leads).  `ldr C u` is the leader of view `u`.  `SyncM` (every participant may lead later: `markWalk` and the
high-QC bound for all), `PhaseARot` (the collector of the votes for `B` is `ldr C (w + 1)`, a participant holding its own vote),
`ABInvR` / `ab_step_rot` / `chain_round_AB_rot` (the collector keeps its vote for `B'` or sends it to `ldr C (w + 2)`), `BAInvR` /
`ba_step_rot` (the next collector counts its own vote on receiving the proposal; the votes in flight are tracked by `find?`:
`VotedR`, `flyd`, `flyn`), `chainViewRot` (the proposer's own vote stays in flight during the proposal round), `chain_view_rot`,
`synced_commits_rot`.
-/
open Std.Do
set_option mvcgen.warning false
set_option linter.unusedSimpArgs false
set_option linter.unusedVariables false
namespace HsVerif.Model
open HsVerif.Proofs





/-! ## the system with rotating leaders (and a silent minority) -/

/-- the leader of view `u` (the same for every replica of the configuration) -/
def ldr (C : SysCfg) (u : Nat) : Nat := (C.rcfg 0).leader u
theorem ldr_eq (C : SysCfg) (j u : Nat) : (C.rcfg j).leader u = ldr C u := rfl

/-- the participants: pairwise different ids in `1..n`, at least a quorum; chained or simplified HotStuff, plain timeout rule,
ECDSA / EdDSA; NO assumption on who leads which view -/
structure RotCfg (C : SysCfg) : Prop where
  scheme : C.scheme ≠ .bls12
  agg : C.agg = false
  rules : C.rules = .chained ∨ C.rules = .simple
  nodup : C.honest.Nodup
  range : ∀ i ∈ C.honest, 1 ≤ i ∧ i ≤ C.n
  qh : (C.rcfg 0).cfg.quorum ≤ C.honest.length
  two : 2 ≤ C.n

theorem RotCfg.has {C : SysCfg} (h : RotCfg C) (i j : Nat) (hi : i ∈ C.honest) : (C.rcfg j).cfg.has i = true := by
  have := h.range i hi
  simp [Cfg.has, RCfg.cfg, SysCfg.rcfg, this.1, this.2]

theorem RotCfg.quorum {C : SysCfg} (h : RotCfg C) (i : Nat) :
    2 ≤ (C.rcfg i).cfg.quorum ∧ (C.rcfg i).cfg.quorum ≤ C.n := by
  show 2 ≤ quorumSize C.n ∧ quorumSize C.n ≤ C.n
  exact quorum_bounds C.n h.two

theorem HappyLive.toRot {C : SysCfg} {L : Nat} (h : HappyLive C L) : RotCfg C :=
  ⟨h.scheme, h.agg, h.rules, h.nodup, h.range, h.qh, h.two⟩

theorem HappyLive.ldr {C : SysCfg} {L : Nat} (h : HappyLive C L) (u : Nat) : ldr C u = L := h.lead 0 u

/-- a replica synchronised at `(w, B)` that may become a leader later: `SyncR`, the walk that marks ancestors as proposed
succeeds from `B`, and its high QC is at least the certificate of `B` -/
structure SyncM (w N : Nat) (B P : Block) (s : RState) : Prop where
  core : SyncR w N B P s
  mark : markWalk (s.chain.fuel + 1) s.chain.blocks s.lastProposed B = true
  hqge : P.view ≤ s.highQC.view

theorem syncM_proj {w N : Nat} {B P : Block} {s s' : RState} (hp : SProj s' = SProj s) (h : SyncM w N B P s) :
    SyncM w N B P s' := by
  have hc := syncR_proj hp h.core
  simp only [SProj, Prod.mk.injEq] at hp
  obtain ⟨p1, p2, p3, p4, p5, p6, p7, p8, p9, p10, p11, p12⟩ := hp
  exact ⟨hc, p6 ▸ p10 ▸ h.mark, p7 ▸ h.hqge⟩

/-- replica `c` holds exactly its own valid vote for the block named `h` -/
def OwnVote (C : SysCfg) (c : Nat) (h : Hash) (σ : SysState) : Prop :=
  ∃ sc sg, σ.reps.lookup c = some sc ∧ sc.votes.lookup h = some [(c, sg)] ∧
    HonestSig (fun b => σ.truth.lookup b) (C.rcfg c).cfg c (blkMsg h) sg

/-- **phase A at `(w, B)` with rotating leaders**: every participant is synchronised at `(w, B)` (`SyncM`); the COLLECTOR of the
votes for `B` is the leader of view `w + 1` — a participant, holding its own vote —; the signature `bt j` of every other
participant `j` over `B` is in the global table -/
structure PhaseARot (C : SysCfg) (w N : Nat) (B P : Block) (bt : Nat → Nat) (σ : SysState) : Prop where
  fresh : FreshL σ.truth σ.nextBytes
  keys : σ.reps.map (·.1) = C.honest
  cmem : ldr C (w + 1) ∈ C.honest
  reps : ∀ j ∈ C.honest, ∃ s, σ.reps.lookup j = some s ∧ SyncM w N B P s
  own : OwnVote C (ldr C (w + 1)) B.hash σ
  bytes : ∀ j ∈ C.honest, j ≠ ldr C (w + 1) → σ.truth.lookup (bt j) = some ⟨j, blkMsg B.hash⟩

/-- the vote of `c` for the block named `h`, on its way to `c2` -/
def ownVoteMsg (C : SysCfg) (c2 c : Nat) (h : Hash) (bytes : Nat) : Nat × Ev :=
  (c2, Ev.vote c (some (.multi C.scheme [⟨c, bytes⟩])) h false)

/-- the votes round with collector `c` (next collector `c2`) after the votes of `done` have arrived -/
structure ABInvR (C : SysCfg) (c c2 w N : Nat) (B P : Block) (σ0 : SysState) (sc0 : RState) (done : List Nat)
    (x : SysState × Msgs) : Prop where
  fresh : FreshL x.1.truth x.1.nextBytes
  keys : x.1.reps.map (·.1) = C.honest
  table : ∀ b a, σ0.truth.lookup b = some a → x.1.truth.lookup b = some a
  others : ∀ j, j ≠ c → x.1.reps.lookup j = σ0.reps.lookup j
  coll : done.length + 1 < (C.rcfg c).cfg.quorum → x.2 = [] ∧ ∃ sc vs, x.1.reps.lookup c = some sc ∧
    SyncC (C.rcfg c) w N B P vs { sc with truth := x.1.truth, nextBytes := x.1.nextBytes } ∧
    vs.map (·.1) = c :: done ∧ sc.chain = sc0.chain ∧ sc.committed = sc0.committed
  moved : (C.rcfg c).cfg.quorum ≤ done.length + 1 → ∃ (B' : Block) (sc : RState) (sgq : Sig),
    x.1.reps.lookup c = some sc ∧ SyncM (w + 1) (N + 3) B' B sc ∧
    B'.hash = pname (w + 1) ∧ B'.parent = B.hash ∧ B'.view = w + 1 ∧ B'.qc = ⟨some sgq, B.view, B.hash⟩ ∧
    verify (fun b => x.1.truth.lookup b) (C.rcfg c).cfg sgq (blkMsg B.hash) = true ∧ (C.rcfg c).cfg.quorum ≤ sgq.len ∧
    CommitStep w B P sc0 sc ∧
    (c2 = c → x.2 = (othersOf C c).map (propMsg c B') ∧ ∃ sgL, sc.votes.lookup B'.hash = some [(c, sgL)] ∧
      HonestSig (fun b => x.1.truth.lookup b) (C.rcfg c).cfg c (blkMsg B'.hash) sgL) ∧
    (c2 ≠ c → ∃ bytes', x.1.truth.lookup bytes' = some ⟨c, blkMsg B'.hash⟩ ∧
      x.2 = (othersOf C c).map (propMsg c B') ++ [ownVoteMsg C c2 c B'.hash bytes'])

/-- **one vote reaches the collector** -/
theorem ab_step_rot (k : Keys) (C : SysCfg) (c c2 w N : Nat) (hC : RotCfg C) (hcm : c ∈ C.honest) (hc1 : ldr C (w + 1) = c)
    (hc2 : ldr C (w + 1 + 1) = c2) (B P : Block) (bt : Nat → Nat)
    (σ0 : SysState) (sc0 : RState) (hN : N + 12 ≤ 99999)
    (hbt : ∀ j ∈ C.honest, j ≠ c → σ0.truth.lookup (bt j) = some ⟨j, blkMsg B.hash⟩)
    (done : List Nat) (σ : SysState) (acc : Msgs) (j : Nat)
    (hinv : ABInvR C c c2 w N B P σ0 sc0 done (σ, acc)) (hj : j ∈ C.honest) (hjL : j ≠ c) (hnew : j ∉ done) :
    ABInvR C c c2 w N B P σ0 sc0 (done ++ [j]) (deliverAll k C (σ, acc) [voteMsg C c B.hash bt j]) := by
  have hq := hC.quorum c
  have hbj : σ.truth.lookup (bt j) = some ⟨j, blkMsg B.hash⟩ := hinv.table _ _ (hbt j hj hjL)
  have hhasj : (C.rcfg c).cfg.has j = true := hC.has j c hj
  have hsch : (C.rcfg c).scheme = C.scheme := rfl
  by_cases hlt : done.length + 1 < (C.rcfg c).cfg.quorum
  · obtain ⟨hacc, sc, vs, hl, hS, hvs, hch, hcm'⟩ := hinv.coll hlt
    obtain ⟨σ', hd, r1, r2, r3⟩ := deliver_effect k C σ acc c (Ev.vote j (some (.multi C.scheme [⟨j, bt j⟩])) B.hash false) sc hl
    have hacc' : acc = [] := hacc
    have hvlen : vs.length = done.length + 1 := by
      have := congrArg List.length hvs; simpa using this
    have hnewv : ∀ v ∈ vs, v.1 ≠ j := by
      intro v hv e
      have : v.1 ∈ vs.map (·.1) := List.mem_map_of_mem hv
      rw [hvs, e] at this
      simp only [List.mem_cons] at this
      rcases this with h | h
      · exact hjL h
      · exact hnew h
    have hview : sc.view = w := hS.core.view
    show ABInvR C c c2 w N B P σ0 sc0 (done ++ [j]) (deliverAll k C (σ, acc) [(c, _)])
    rw [hd]
    by_cases hlt2 : done.length + 2 < (C.rcfg c).cfg.quorum
    · obtain ⟨V, hstep, hS'⟩ := coll_vote_add k (C.rcfg c) w N j j (bt j) B P vs
        { sc with truth := σ.truth, nextBytes := σ.nextBytes } hC.scheme hS hhasj hbj hnewv (by rw [hvlen]; exact hlt2)
      rw [hsch] at hstep
      rw [hstep] at r1 r2 r3 ⊢
      dsimp only at r1 r2 r3 ⊢
      refine ⟨by rw [r2, r3]; exact hinv.fresh, by rw [r1, keys_setKV _ _ _ (by rw [hinv.keys]; exact hcm)]; exact hinv.keys,
        by rw [r2]; exact hinv.table, ?_, ?_, ?_⟩
      · intro i hi
        rw [r1, lookup_setKV_other _ _ _ _ hi]; exact hinv.others i hi
      · intro _
        refine ⟨by simp [route, hacc'], ({ sc with truth := σ.truth, nextBytes := σ.nextBytes, votes := V, out := [] } : RState),
          vs ++ [(j, Sig.multi C.scheme [⟨j, bt j⟩])],
          by rw [r1]; exact lookup_setKV_same _ _ _, ?_, ?_, hch, hcm'⟩
        · rw [r2, r3]; exact syncC_proj rfl hS'
        · simp [hvs]
      · intro hge
        simp only [List.length_append, List.length_singleton] at hge
        omega
    · -- the quorum
      have hZ' : ∀ Z, WalkZ Z sc0 → WalkZ Z { sc with truth := σ.truth, nextBytes := σ.nextBytes } := fun Z hZ =>
        ⟨by show cmWalk (sc.chain.blocks.length + 2) sc.chain.blocks sc.committed.view Z = true
            rw [hch, hcm']; exact hZ.walk,
         by show sc.committed.view < _; rw [hcm']; exact hZ.below⟩
      have hld1 : (C.rcfg c).leader (({ sc with truth := σ.truth, nextBytes := σ.nextBytes } : RState).view + 1) = (C.rcfg c).id := by
        show ldr C (sc.view + 1) = c; rw [hview]; exact hc1
      by_cases hcc : c2 = c
      · obtain ⟨sgq, bytes', B', q1, q2, q3, q4, q5, q6, q7, q8, q9, q10, q11, q12⟩ := coll_vote_quorum_self k (C.rcfg c) w N j j (bt j) B P vs
          { sc with truth := σ.truth, nextBytes := σ.nextBytes } hC.scheme hC.agg hC.rules (hC.has c c hcm) hld1
          (by show ldr C (sc.view + 1 + 1) = c; rw [hview, hc2]; exact hcc) hq.1 hS hinv.fresh hN hhasj hbj hnewv (by rw [hvlen]; omega)
        rw [hsch] at q5 q7 q8 q9 q10 q11 q12
        refine ⟨by rw [r2, r3]; exact q9, by rw [r1, keys_setKV _ _ _ (by rw [hinv.keys]; exact hcm)]; exact hinv.keys,
          ?_, ?_, ?_, ?_⟩
        · intro b a hb
          rw [r2]; exact q10.truth b a (hinv.table b a hb)
        · intro i hi
          rw [r1, lookup_setKV_other _ _ _ _ hi]; exact hinv.others i hi
        · intro hlt'
          simp only [List.length_append, List.length_singleton] at hlt'
          omega
        · intro _
          refine ⟨B', _, sgq, by rw [r1]; exact lookup_setKV_same _ _ _, ⟨q7.core, q7.mark, q7.hqge⟩, q1, q2, q3, q4,
            by rw [r2]; exact q5, q6, ?_, ?_, fun h => absurd hcc h⟩
          · refine ⟨?_, fun Z hZ => (q12 Z (hZ' Z hZ)).1, fun Z hZ l1 l2 l3 =>
              ((q12 Z (hZ' Z hZ)).2 l1 l2 (by show sc.chain.blocks.lookup _ = _; rw [hch]; exact l3)).1⟩
            intro h b hb
            exact q10.store h b (by show sc.chain.blocks.lookup h = some b; rw [hch]; exact hb)
          · intro _
            refine ⟨?_, Sig.multi C.scheme [⟨c, bytes'⟩], q7.votes, ?_⟩
            · rw [hacc']
              have := q11 C
              rw [rcfg_id] at this
              rw [List.nil_append, this]; rfl
            · rw [r2]; exact (q7.valid ((C.rcfg c).id, Sig.multi C.scheme [⟨(C.rcfg c).id, bytes'⟩]) (by simp)).2
      · obtain ⟨sgq, bytes', B', q1, q2, q3, q4, q5, q6, q7, q7m, q7t, q8, q9, q10, q11, q12⟩ := coll_vote_quorum_send k (C.rcfg c) c2 w N j j (bt j) B P vs
          { sc with truth := σ.truth, nextBytes := σ.nextBytes } hC.scheme hC.agg hC.rules (hC.has c c hcm) hld1
          (by show ldr C (sc.view + 1 + 1) = c2; rw [hview, hc2]) (fun e => hcc e.symm) hq.1 hS hinv.fresh hN hhasj hbj hnewv
          (by rw [hvlen]; omega)
        rw [hsch] at q5 q7 q7m q7t q8 q9 q10 q11 q12
        refine ⟨by rw [r2, r3]; exact q9, by rw [r1, keys_setKV _ _ _ (by rw [hinv.keys]; exact hcm)]; exact hinv.keys,
          ?_, ?_, ?_, ?_⟩
        · intro b a hb
          rw [r2]; exact q10.truth b a (hinv.table b a hb)
        · intro i hi
          rw [r1, lookup_setKV_other _ _ _ _ hi]; exact hinv.others i hi
        · intro hlt'
          simp only [List.length_append, List.length_singleton] at hlt'
          omega
        · intro _
          refine ⟨B', _, sgq, by rw [r1]; exact lookup_setKV_same _ _ _, ⟨q7, q7m, ?_⟩, q1, q2, q3, q4,
            by rw [r2]; exact q5, q6, ?_, fun h => absurd h hcc, ?_⟩
          · rw [q8, q4]; exact Nat.le_refl _
          · refine ⟨?_, fun Z hZ => (q12 Z (hZ' Z hZ)).1, fun Z hZ l1 l2 l3 =>
              ((q12 Z (hZ' Z hZ)).2 l1 l2 (by show sc.chain.blocks.lookup _ = _; rw [hch]; exact l3)).1⟩
            intro h b hb
            exact q10.store h b (by show sc.chain.blocks.lookup h = some b; rw [hch]; exact hb)
          · intro _
            refine ⟨bytes', by rw [r2]; exact q7t, ?_⟩
            rw [hacc']
            have := q11 C
            rw [rcfg_id] at this
            rw [List.nil_append, this]; rfl
  · -- late vote
    obtain ⟨B', sc, sgq, hl, hS, b1, b2, b3, b4, b5, b6, hcs, hs1, hs2⟩ := hinv.moved (by omega)
    obtain ⟨σ', hd, r1, r2, r3⟩ := deliver_effect k C σ acc c (Ev.vote j (some (.multi C.scheme [⟨j, bt j⟩])) B.hash false) sc hl
    have hlate := vote_late_noop k (C.rcfg c) { sc with truth := σ.truth, nextBytes := σ.nextBytes } j j (bt j) B.hash B
      hS.core.queue (by have := hS.core.hasP; rw [b4] at this; exact this) hS.hqge
    rw [hsch] at hlate
    show ABInvR C c c2 w N B P σ0 sc0 (done ++ [j]) (deliverAll k C (σ, acc) [(c, _)])
    rw [hd, hlate]
    rw [hlate] at r1 r2 r3
    dsimp only at r1 r2 r3 ⊢
    refine ⟨by rw [r2, r3]; exact hinv.fresh, by rw [r1, keys_setKV _ _ _ (by rw [hinv.keys]; exact hcm)]; exact hinv.keys,
      by rw [r2]; exact hinv.table, ?_, ?_, ?_⟩
    · intro i hi
      rw [r1, lookup_setKV_other _ _ _ _ hi]; exact hinv.others i hi
    · intro hlt'
      simp only [List.length_append, List.length_singleton] at hlt'
      omega
    · intro _
      refine ⟨B', ({ sc with truth := σ.truth, nextBytes := σ.nextBytes, out := [] } : RState), sgq,
        by rw [r1]; exact lookup_setKV_same _ _ _, ⟨?_, hS.mark, hS.hqge⟩, b1, b2, b3, b4, by rw [r2]; exact b5, b6,
        ⟨hcs.store, fun Z hZ h => ⟨(hcs.walk Z hZ h).walk, (hcs.walk Z hZ h).below⟩, hcs.commit⟩, ?_, ?_⟩
      · have hc := hS.core
        exact ⟨hc.view, hc.lastVoted, hc.queue, hc.wvc, hc.wprop, hc.fetch, hc.bhash, hc.bview, hc.hasB, hc.hasP, hc.pview, hc.hq,
          hc.lock, hc.names, hc.small⟩
      · intro h
        obtain ⟨e1, sgL, e2, e3⟩ := hs1 h
        exact ⟨by simp [route]; exact e1, sgL, e2, by rw [r2]; exact e3⟩
      · intro h
        obtain ⟨bytes', e1, e2⟩ := hs2 h
        exact ⟨bytes', by rw [r2]; exact e1, by simp [route]; exact e2⟩



theorem ab_deliver_rot (k : Keys) (C : SysCfg) (c c2 w N : Nat) (hC : RotCfg C) (hcm : c ∈ C.honest) (hc1 : ldr C (w + 1) = c)
    (hc2 : ldr C (w + 1 + 1) = c2) (B P : Block) (bt : Nat → Nat)
    (σ0 : SysState) (sc0 : RState) (hN : N + 12 ≤ 99999)
    (hbt : ∀ j ∈ C.honest, j ≠ c → σ0.truth.lookup (bt j) = some ⟨j, blkMsg B.hash⟩) :
    ∀ (ord done : List Nat) (x : SysState × Msgs), ABInvR C c c2 w N B P σ0 sc0 done x → ord.Nodup →
      (∀ j ∈ ord, j ∈ C.honest ∧ j ≠ c ∧ j ∉ done) →
      ABInvR C c c2 w N B P σ0 sc0 (done ++ ord) (deliverAll k C x (ord.map (voteMsg C c B.hash bt))) := by
  intro ord
  induction ord with
  | nil => intro done x h _ _; rw [List.append_nil]; exact h
  | cons j rest ih =>
    intro done x h hnd hall
    obtain ⟨σ, acc⟩ := x
    obtain ⟨h1, h2, h3⟩ := hall j (by simp)
    have hstep := ab_step_rot k C c c2 w N hC hcm hc1 hc2 B P bt σ0 sc0 hN hbt done σ acc j h h1 h2 h3
    simp only [List.map_cons]
    rw [show (voteMsg C c B.hash bt j :: rest.map (voteMsg C c B.hash bt)) =
      [voteMsg C c B.hash bt j] ++ rest.map (voteMsg C c B.hash bt) from rfl, deliverAll_append]
    have := ih (done ++ [j]) _ hstep (List.nodup_cons.mp hnd).2 (by
      intro i hi
      obtain ⟨q1, q2, q3⟩ := hall i (by simp [hi])
      refine ⟨q1, q2, ?_⟩
      simp only [List.mem_append, List.mem_singleton, not_or]
      exact ⟨q3, fun e => (List.nodup_cons.mp hnd).1 (e ▸ hi)⟩)
    rw [List.append_assoc] at this
    exact this

/-- the collector of phase A, with the global table, is `SyncC` -/
theorem PhaseARot.syncC {C : SysCfg} {w N : Nat} {B P : Block} {bt : Nat → Nat} {σ : SysState} (hC : RotCfg C)
    (h : PhaseARot C w N B P bt σ) :
    ∃ sc sg, σ.reps.lookup (ldr C (w + 1)) = some sc ∧
      SyncC (C.rcfg (ldr C (w + 1))) w N B P [(ldr C (w + 1), sg)] { sc with truth := σ.truth, nextBytes := σ.nextBytes } := by
  obtain ⟨sc, sg, h1, h2, h3⟩ := h.own
  obtain ⟨sc', h1', hM⟩ := h.reps _ h.cmem
  rw [h1] at h1'; cases h1'
  refine ⟨sc, sg, h1, ⟨syncR_with_table hM.core _ _, hM.mark, h2, ?_, by simp, hM.hqge⟩⟩
  intro x hx
  simp only [List.mem_singleton] at hx
  subst hx
  exact ⟨hC.has _ _ h.cmem, h3⟩

/-- **Round A ⟶ B with rotating leaders**: the votes of `ord` reach the collector `c = leader (w + 1)` in any order; it certifies
`B`, enters view `w + 1`, proposes `B'`, and keeps its own vote (if it also leads `w + 2`) or sends it to `c2 = leader (w + 2)` -/
theorem chain_round_AB_rot (k : Keys) (C : SysCfg) (w N : Nat) (hC : RotCfg C) (B P : Block) (bt : Nat → Nat)
    (σ : SysState) (hN : N + 12 ≤ 99999) (hA : PhaseARot C w N B P bt σ)
    (ord : List Nat) (hnd : ord.Nodup) (hord : ∀ j ∈ ord, j ∈ C.honest ∧ j ≠ ldr C (w + 1))
    (hlen : (C.rcfg 0).cfg.quorum ≤ ord.length + 1) :
    ∃ sc0, σ.reps.lookup (ldr C (w + 1)) = some sc0 ∧
      ABInvR C (ldr C (w + 1)) (ldr C (w + 1 + 1)) w N B P σ sc0 ord
        (deliverAll k C (σ, []) (ord.map (voteMsg C (ldr C (w + 1)) B.hash bt))) := by
  obtain ⟨sc0, sg, hl0, hS0⟩ := hA.syncC hC
  have hinit : ABInvR C (ldr C (w + 1)) (ldr C (w + 1 + 1)) w N B P σ sc0 [] (σ, []) := by
    refine ⟨hA.fresh, hA.keys, fun _ _ h => h, fun _ _ => rfl, ?_, ?_⟩
    · intro _
      exact ⟨rfl, sc0, [(_, sg)], hl0, hS0, rfl, rfl, rfl⟩
    · intro h
      have := (hC.quorum (ldr C (w + 1))).1
      simp at h; omega
  have hfin := ab_deliver_rot k C _ _ w N hC hA.cmem rfl rfl B P bt σ sc0 hN hA.bytes ord [] (σ, []) hinit hnd
    (fun j hj => ⟨(hord j hj).1, (hord j hj).2, by simp⟩)
  rw [List.nil_append] at hfin
  exact ⟨sc0, hl0, hfin⟩



/-- who has a vote for `B'` in flight to `c2` during the proposal round: the proposer `c` (if it is not `c2`), and the replicas
`done` other than `c2` -/
def VotedR (c c2 : Nat) (done : List Nat) (j : Nat) : Prop := (j = c ∧ c ≠ c2) ∨ (j ∈ done ∧ j ≠ c2)

/-- the proposal round (proposer `c`, next collector `c2`) after the proposal has reached the replicas `done` -/
structure BAInvR (C : SysCfg) (c c2 w N : Nat) (B' B P : Block) (y1 : SysState) (bt' : Nat → Nat) (done : List Nat)
    (x : SysState × Msgs) : Prop where
  fresh : FreshL x.1.truth x.1.nextBytes
  keys : x.1.reps.map (·.1) = C.honest
  table : ∀ b a, y1.truth.lookup b = some a → x.1.truth.lookup b = some a
  coll : x.1.reps.lookup c = y1.reps.lookup c
  undone : ∀ j, j ≠ c → j ∉ done → x.1.reps.lookup j = y1.reps.lookup j
  did : ∀ j ∈ done, ∃ s0 s, y1.reps.lookup j = some s0 ∧ x.1.reps.lookup j = some s ∧ SyncM (w + 1) (N + 3) B' B s ∧
    CommitStep w B P s0 s ∧
    (j ≠ c2 → x.1.truth.lookup (bt' j) = some ⟨j, blkMsg B'.hash⟩) ∧
    (j = c2 → ∃ sg, s.votes.lookup B'.hash = some [(c2, sg)] ∧
      HonestSig (fun b => x.1.truth.lookup b) (C.rcfg c2).cfg c2 (blkMsg B'.hash) sg)
  btc : c2 ≠ c → x.1.truth.lookup (bt' c) = some ⟨c, blkMsg B'.hash⟩
  flyd : ∀ j, VotedR c c2 done j → x.2.find? (fromVote j) = some (voteMsg C c2 B'.hash bt' j)
  flyn : ∀ j, ¬ VotedR c c2 done j → x.2.find? (fromVote j) = none

theorem ba_step_rot (k : Keys) (C : SysCfg) (c c2 w N : Nat) (hC : RotCfg C) (hc1 : ldr C (w + 1) = c)
    (hc2 : ldr C (w + 1 + 1) = c2) (hc2m : c2 ∈ C.honest) (B' B P : Block) (sgq : Sig) (y1 : SysState)
    (hN : N + 12 ≤ 99999)
    (hpre : ∀ j ∈ C.honest, j ≠ c → ∃ s, y1.reps.lookup j = some s ∧ SyncM w N B P s)
    (hb1 : B'.hash = pname (w + 1)) (hb2 : B'.parent = B.hash) (hb3 : B'.view = w + 1)
    (hb4 : B'.qc = ⟨some sgq, B.view, B.hash⟩)
    (hv1 : verify (fun b => y1.truth.lookup b) (C.rcfg c).cfg sgq (blkMsg B.hash) = true) (hv2 : (C.rcfg c).cfg.quorum ≤ sgq.len)
    (bt' : Nat → Nat) (done : List Nat) (σ : SysState) (acc : Msgs) (j : Nat)
    (hinv : BAInvR C c c2 w N B' B P y1 bt' done (σ, acc)) (hj : j ∈ C.honest) (hjL : j ≠ c) (hnew : j ∉ done) :
    ∃ bt'', BAInvR C c c2 w N B' B P y1 bt'' (done ++ [j]) (deliverAll k C (σ, acc) [propMsg c B' j]) := by
  obtain ⟨s0, hl0, hS0⟩ := hpre j hj hjL
  have hl : σ.reps.lookup j = some s0 := by rw [hinv.undone j hjL hnew]; exact hl0
  obtain ⟨σ', hd, r1, r2, r3⟩ := deliver_effect k C σ acc j (Ev.propose c B' none) s0 hl
  have hjmem : j ∈ σ.reps.map (·.1) := by rw [hinv.keys]; exact hj
  have hver : verify (fun b => σ.truth.lookup b) (C.rcfg j).cfg sgq (blkMsg B.hash) = true :=
    verify_mono _ _ _ _ _ (fun b a hb => hinv.table b a hb) hv1
  let sT : RState := { s0 with truth := σ.truth, nextBytes := σ.nextBytes }
  have hnewB : sT.chain.blocks.lookup B'.hash = none := by rw [hb1]; exact (hS0.core.names (w + 1) (by omega)).1
  have hqB : sT.chain.blocks.lookup B'.qc.hash = some B := by rw [hb4]; exact hS0.core.hasB
  show ∃ bt'', BAInvR C c c2 w N B' B P y1 bt'' (done ++ [j]) (deliverAll k C (σ, acc) [(j, Ev.propose c B' none)])
  rw [hd]
  have hnotV : ¬ VotedR c c2 done j := by
    rintro (⟨e, _⟩ | ⟨e, _⟩)
    · exact hjL e
    · exact hnew e
  by_cases hjc2 : j = c2
  · -- the next collector
    subst hjc2
    obtain ⟨n1, n2, n3, n4, n6, n7, ⟨bytes, n8, n9, n10⟩, n11⟩ := nl_step_coll k (C.rcfg j) c w N B P B' sgq sT
      hC.scheme hC.agg hC.rules hc1 hjL hc2 (hC.has j j hj) (hC.quorum j).1
      (syncR_with_table hS0.core _ _) hinv.fresh hN hb1 hb2 hb3 hb4 hver hv2
    have hM : SyncM (w + 1) (N + 3) B' B (step k (C.rcfg j) sT (.propose c B' none)).1 :=
      ⟨n1, mark_step sT _ B B' n7 hS0.core.fetch n1.fetch n6 hnewB hqB hS0.mark, by rw [n4, hb4]; exact Nat.le_refl _⟩
    have hroute := n10 C
    rw [rcfg_id] at hroute
    refine ⟨bt', by rw [r2, r3]; exact n2, by rw [r1, keys_setKV _ _ _ hjmem]; exact hinv.keys, ?_, ?_, ?_, ?_, ?_, ?_, ?_⟩
    · intro b a hb
      rw [r2]; exact n3.truth b a (hinv.table b a hb)
    · rw [r1, lookup_setKV_other _ _ _ _ (fun e => hjL e.symm)]; exact hinv.coll
    · intro i hi hin
      simp only [List.mem_append, List.mem_singleton, not_or] at hin
      rw [r1, lookup_setKV_other _ _ _ _ hin.2]; exact hinv.undone i hi hin.1
    · intro i hi
      simp only [List.mem_append, List.mem_singleton] at hi
      by_cases hij : i = j
      · subst hij
        refine ⟨s0, _, hl0, by rw [r1]; exact lookup_setKV_same _ _ _, hM, ?_, fun h => absurd rfl h, ?_⟩
        · exact ⟨fun h b hb => n3.store h b hb, fun Z hZ => (n11 Z (walkZ_with_table hZ _ _)).1,
            fun Z hZ l1 l2 l3 => ((n11 Z (walkZ_with_table hZ _ _)).2 l1 l2 l3).1⟩
        · intro _
          refine ⟨Sig.multi C.scheme [⟨i, bytes⟩], n9, Or.inl ⟨hC.scheme, bytes, rfl, ?_⟩⟩
          rw [r2]; exact n8
      · rcases hi with hi | hi
        · obtain ⟨t0, t, d1, d2, d3, d4, d5, d6⟩ := hinv.did i hi
          refine ⟨t0, t, d1, by rw [r1, lookup_setKV_other _ _ _ _ hij]; exact d2, d3, d4, ?_, ?_⟩
          · intro h; rw [r2]; exact n3.truth _ _ (d5 h)
          · intro h
            obtain ⟨sg, e1, e2⟩ := d6 h
            exact ⟨sg, e1, honestSig_mono (fun b a hb => by rw [r2]; exact n3.truth b a hb) e2⟩
        · exact absurd hi hij
    · intro h; rw [r2]; exact n3.truth _ _ (hinv.btc h)
    · intro i hi
      have hi' : VotedR c j done i := by
        rcases hi with h | ⟨h1, h2⟩
        · exact Or.inl h
        · simp only [List.mem_append, List.mem_singleton] at h1
          rcases h1 with h1 | h1
          · exact Or.inr ⟨h1, h2⟩
          · exact absurd h1 h2
      show (acc ++ route C j _).find? (fromVote i) = _
      rw [List.find?_append, hinv.flyd i hi']; rfl
    · intro i hi
      have hi' : ¬ VotedR c j done i := by
        intro h; apply hi
        rcases h with h | ⟨h1, h2⟩
        · exact Or.inl h
        · exact Or.inr ⟨by simp [h1], h2⟩
      show (acc ++ route C j _).find? (fromVote i) = _
      rw [List.find?_append, hinv.flyn i hi', hroute]
      simp [fromVote]
  · -- an ordinary replica: its vote goes to `c2`
    obtain ⟨n1, n2, n3, n4, n5, n6, n7, ⟨bytes, n8, n10⟩, n11⟩ := nl_step_rot k (C.rcfg j) c c2 w N B P B' sgq sT
      hC.scheme hC.agg hC.rules hc1 hjL hc2 hjc2
      (syncR_with_table hS0.core _ _) hinv.fresh hN hb1 hb2 hb3 hb4 hver hv2
    have hM : SyncM (w + 1) (N + 3) B' B (step k (C.rcfg j) sT (.propose c B' none)).1 :=
      ⟨n1, mark_step sT _ B B' n7 hS0.core.fetch n1.fetch n6 hnewB hqB hS0.mark, by rw [n4, hb4]; exact Nat.le_refl _⟩
    have hroute := n10 C
    rw [rcfg_id] at hroute
    let bt'' : Nat → Nat := fun i => if i = j then bytes else bt' i
    have hvm : ∀ i, i ≠ j → voteMsg C c2 B'.hash bt'' i = voteMsg C c2 B'.hash bt' i := by
      intro i hi; simp [voteMsg, bt'', hi]
    refine ⟨bt'', by rw [r2, r3]; exact n2, by rw [r1, keys_setKV _ _ _ hjmem]; exact hinv.keys, ?_, ?_, ?_, ?_, ?_, ?_, ?_⟩
    · intro b a hb
      rw [r2]; exact n3.truth b a (hinv.table b a hb)
    · rw [r1, lookup_setKV_other _ _ _ _ (fun e => hjL e.symm)]; exact hinv.coll
    · intro i hi hin
      simp only [List.mem_append, List.mem_singleton, not_or] at hin
      rw [r1, lookup_setKV_other _ _ _ _ hin.2]; exact hinv.undone i hi hin.1
    · intro i hi
      simp only [List.mem_append, List.mem_singleton] at hi
      by_cases hij : i = j
      · subst hij
        refine ⟨s0, _, hl0, by rw [r1]; exact lookup_setKV_same _ _ _, hM, ?_, ?_, fun h => absurd h hjc2⟩
        · exact ⟨fun h b hb => n3.store h b hb, fun Z hZ => (n11 Z (walkZ_with_table hZ _ _)).1,
            fun Z hZ l1 l2 l3 => ((n11 Z (walkZ_with_table hZ _ _)).2 l1 l2 l3).1⟩
        · intro _
          show σ'.truth.lookup (if i = i then bytes else bt' i) = _
          rw [r2, if_pos rfl]; exact n8
      · rcases hi with hi | hi
        · obtain ⟨t0, t, d1, d2, d3, d4, d5, d6⟩ := hinv.did i hi
          refine ⟨t0, t, d1, by rw [r1, lookup_setKV_other _ _ _ _ hij]; exact d2, d3, d4, ?_, ?_⟩
          · intro h
            show σ'.truth.lookup (if i = j then bytes else bt' i) = _
            rw [r2, if_neg hij]; exact n3.truth _ _ (d5 h)
          · intro h
            obtain ⟨sg, e1, e2⟩ := d6 h
            exact ⟨sg, e1, honestSig_mono (fun b a hb => by rw [r2]; exact n3.truth b a hb) e2⟩
        · exact absurd hi hij
    · intro h
      show σ'.truth.lookup (if c = j then bytes else bt' c) = _
      rw [r2, if_neg (fun e => hjL e.symm)]; exact n3.truth _ _ (hinv.btc h)
    · intro i hi
      show (acc ++ route C j _).find? (fromVote i) = _
      by_cases hij : i = j
      · subst hij
        rw [List.find?_append, hinv.flyn i hnotV, hroute]
        simp [fromVote, voteMsg, bt'']; rfl
      · have hi' : VotedR c c2 done i := by
          rcases hi with h | ⟨h1, h2⟩
          · exact Or.inl h
          · simp only [List.mem_append, List.mem_singleton] at h1
            rcases h1 with h1 | h1
            · exact Or.inr ⟨h1, h2⟩
            · exact absurd h1 hij
        rw [List.find?_append, hinv.flyd i hi', hvm i hij]; rfl
    · intro i hi
      have hij : i ≠ j := fun e => hi (Or.inr ⟨by simp [e], e ▸ hjc2⟩)
      have hi' : ¬ VotedR c c2 done i := by
        intro h; apply hi
        rcases h with h | ⟨h1, h2⟩
        · exact Or.inl h
        · exact Or.inr ⟨by simp [h1], h2⟩
      show (acc ++ route C j _).find? (fromVote i) = _
      rw [List.find?_append, hinv.flyn i hi', hroute]
      have : (j == i) = false := by simpa using fun e => hij e.symm
      simp [fromVote, this]



theorem ba_deliver_rot (k : Keys) (C : SysCfg) (c c2 w N : Nat) (hC : RotCfg C) (hc1 : ldr C (w + 1) = c)
    (hc2 : ldr C (w + 1 + 1) = c2) (hc2m : c2 ∈ C.honest) (B' B P : Block) (sgq : Sig) (y1 : SysState)
    (hN : N + 12 ≤ 99999)
    (hpre : ∀ j ∈ C.honest, j ≠ c → ∃ s, y1.reps.lookup j = some s ∧ SyncM w N B P s)
    (hb1 : B'.hash = pname (w + 1)) (hb2 : B'.parent = B.hash) (hb3 : B'.view = w + 1)
    (hb4 : B'.qc = ⟨some sgq, B.view, B.hash⟩)
    (hv1 : verify (fun b => y1.truth.lookup b) (C.rcfg c).cfg sgq (blkMsg B.hash) = true) (hv2 : (C.rcfg c).cfg.quorum ≤ sgq.len) :
    ∀ (ord done : List Nat) (bt' : Nat → Nat) (x : SysState × Msgs), BAInvR C c c2 w N B' B P y1 bt' done x → ord.Nodup →
      (∀ j ∈ ord, j ∈ C.honest ∧ j ≠ c ∧ j ∉ done) →
      ∃ bt'', BAInvR C c c2 w N B' B P y1 bt'' (done ++ ord) (deliverAll k C x (ord.map (propMsg c B'))) := by
  intro ord
  induction ord with
  | nil => intro done bt' x h _ _; exact ⟨bt', by rw [List.append_nil]; exact h⟩
  | cons j rest ih =>
    intro done bt' x h hnd hall
    obtain ⟨σ, acc⟩ := x
    obtain ⟨h1, h2, h3⟩ := hall j (by simp)
    obtain ⟨bt1, hstep⟩ := ba_step_rot k C c c2 w N hC hc1 hc2 hc2m B' B P sgq y1 hN hpre hb1 hb2 hb3 hb4 hv1 hv2 bt' done σ acc j
      h h1 h2 h3
    simp only [List.map_cons]
    rw [show (propMsg c B' j :: rest.map (propMsg c B')) = [propMsg c B' j] ++ rest.map (propMsg c B') from rfl,
      deliverAll_append]
    obtain ⟨bt2, this⟩ := ih (done ++ [j]) bt1 _ hstep (List.nodup_cons.mp hnd).2 (by
      intro i hi
      obtain ⟨q1, q2, q3⟩ := hall i (by simp [hi])
      refine ⟨q1, q2, ?_⟩
      simp only [List.mem_append, List.mem_singleton, not_or]
      exact ⟨q3, fun e => (List.nodup_cons.mp hnd).1 (e ▸ hi)⟩)
    rw [List.append_assoc] at this
    exact ⟨bt2, this⟩

/-- a vote in flight -/
def isVoteEv (m : Nat × Ev) : Bool := match m.2 with | .vote _ _ _ _ => true | _ => false

/-- **one view of the chain with rotating leaders**: the votes in flight of the senders `ordV` reach the collector (the leader of
the next view); then the proposals in flight reach the replicas `ordP`, while the proposer's own vote for its proposal — if it was
sent to another replica, the leader of the view after — stays in flight -/
def chainViewRot (k : Keys) (C : SysCfg) (ordV ordP : List Nat) (x : SysState × Msgs) : SysState × Msgs :=
  deliverAll k C ((deliverAll k C (x.1, []) (votesIn x.2 ordV)).1, (deliverAll k C (x.1, []) (votesIn x.2 ordV)).2.filter isVoteEv)
    (propsIn (deliverAll k C (x.1, []) (votesIn x.2 ordV)).2 ordP)

theorem filter_vote_props (c : Nat) (B' : Block) (l : List Nat) : ((l.map (propMsg c B')).filter isVoteEv) = [] := by
  induction l with
  | nil => rfl
  | cons a rest ih => simp [propMsg, isVoteEv] at ih ⊢

/-- **One view of the chain, rotating leaders** `A(w, B) ⟶ A(w + 1, B')`: phase A at `(w, B)` with the votes in flight to the
collector `leader (w + 1)`; the leaders of views `w + 1` and `w + 2` are participants.  The votes are delivered in ANY order
`ordV`, then the proposals of `B'` in ANY order `ordP` (orders of the participants other than `leader (w + 1)`).  Afterwards: phase
A at `(w + 1, B')` — collector `leader (w + 2)` —, the votes for `B'` are in flight to it (the proposer's own vote included), and
every participant's committer has made its step. -/
theorem chain_view_rot (k : Keys) (C : SysCfg) (w N : Nat) (hC : RotCfg C) (B P : Block) (bt : Nat → Nat)
    (x : SysState × Msgs) (hN : N + 12 ≤ 99999) (hA : PhaseARot C w N B P bt x.1)
    (hfly : VotesFly C (ldr C (w + 1)) B.hash bt x.2) (hc2m : ldr C (w + 1 + 1) ∈ C.honest)
    (ordV ordP : List Nat) (hV : OthersOrder C (ldr C (w + 1)) ordV) (hP : OthersOrder C (ldr C (w + 1)) ordP) :
    ∃ (B' : Block) (bt' : Nat → Nat),
      PhaseARot C (w + 1) (N + 3) B' B bt' (chainViewRot k C ordV ordP x).1 ∧
      VotesFly C (ldr C (w + 1 + 1)) B'.hash bt' (chainViewRot k C ordV ordP x).2 ∧ Link B' B ∧
      ∀ j ∈ C.honest, ∃ s0 s, x.1.reps.lookup j = some s0 ∧ (chainViewRot k C ordV ordP x).1.reps.lookup j = some s ∧
        CommitStep w B P s0 s := by
  have hqlen : (C.rcfg 0).cfg.quorum ≤ ordV.length + 1 := by
    have h1 : C.honest.length ≤ (ldr C (w + 1) :: ordV).length := by
      apply nodup_length_le _ _ hC.nodup
      intro z hz
      by_cases hzl : z = ldr C (w + 1)
      · simp [hzl]
      · exact List.mem_cons_of_mem _ (hV.full z hz hzl)
    have := hC.qh
    simp only [List.length_cons] at h1
    omega
  obtain ⟨sc0, hl0, hfin⟩ := chain_round_AB_rot k C w N hC B P bt x.1 hN hA ordV hV.nodup hV.mem hqlen
  have hvi := votesIn_eq C (ldr C (w + 1)) B.hash bt x.2 hfly ordV hV.mem
  obtain ⟨B', sc, sgq, m1, m2, m3, m4, m5, m6, m7, m8, m9, m10, m11⟩ := hfin.moved hqlen
  let y := deliverAll k C (x.1, []) (ordV.map (voteMsg C (ldr C (w + 1)) B.hash bt))
  have hBv : B.view = w := by obtain ⟨s, _, hs⟩ := hA.reps _ hA.cmem; exact hs.core.bview
  have hBh : B.hash = pname w := by obtain ⟨s, _, hs⟩ := hA.reps _ hA.cmem; exact hs.core.bhash
  -- the pool after the votes round: the proposals, and the proposer's own vote if it goes elsewhere
  have hprops : ∀ mm ∈ y.2, isProp mm = true → ∃ j, mm = propMsg (ldr C (w + 1)) B' j := by
    intro mm hm hp
    by_cases hcc : ldr C (w + 1 + 1) = ldr C (w + 1)
    · rw [(m10 hcc).1] at hm
      obtain ⟨j, _, rfl⟩ := List.mem_map.mp hm
      exact ⟨j, rfl⟩
    · obtain ⟨bytes', _, e2⟩ := m11 hcc
      rw [e2] at hm
      simp only [List.mem_append, List.mem_singleton] at hm
      rcases hm with hm | rfl
      · obtain ⟨j, _, rfl⟩ := List.mem_map.mp hm
        exact ⟨j, rfl⟩
      · simp [ownVoteMsg, isProp] at hp
  have hpmem : ∀ j ∈ ordP, propMsg (ldr C (w + 1)) B' j ∈ y.2 := by
    intro j hj
    have hjo : j ∈ othersOf C (ldr C (w + 1)) := by
      unfold othersOf
      simp only [List.mem_filter, bne_iff_ne, ne_eq]
      exact ⟨(hP.mem j hj).1, (hP.mem j hj).2⟩
    by_cases hcc : ldr C (w + 1 + 1) = ldr C (w + 1)
    · rw [(m10 hcc).1]; exact List.mem_map_of_mem hjo
    · obtain ⟨bytes', _, e2⟩ := m11 hcc
      rw [e2]; exact List.mem_append_left _ (List.mem_map_of_mem hjo)
  have hpi := propsIn_of_pool (ldr C (w + 1)) B' y.2 ordP hprops hpmem
  -- the initial invariant of the proposal round
  have hpre : ∀ j ∈ C.honest, j ≠ ldr C (w + 1) → ∃ s, y.1.reps.lookup j = some s ∧ SyncM w N B P s := by
    intro j hj hjc
    obtain ⟨s, h1, h2⟩ := hA.reps j hj
    exact ⟨s, by rw [hfin.others j hjc]; exact h1, h2⟩
  obtain ⟨bt0, hinit⟩ : ∃ bt0, BAInvR C (ldr C (w + 1)) (ldr C (w + 1 + 1)) w N B' B P y.1 bt0 [] (y.1, y.2.filter isVoteEv) := by
    by_cases hcc : ldr C (w + 1 + 1) = ldr C (w + 1)
    · have hf : y.2.filter isVoteEv = [] := by rw [(m10 hcc).1]; exact filter_vote_props _ _ _
      refine ⟨fun _ => 0, hfin.fresh, hfin.keys, fun _ _ h => h, rfl, fun _ _ _ => rfl, by simp, fun h => absurd hcc h, ?_, ?_⟩
      · rintro j (⟨_, h⟩ | ⟨h, _⟩)
        · exact absurd hcc.symm h
        · simp at h
      · intro j _; rw [hf]; rfl
    · obtain ⟨bytes', e1, e2⟩ := m11 hcc
      have hf : y.2.filter isVoteEv = [ownVoteMsg C (ldr C (w + 1 + 1)) (ldr C (w + 1)) B'.hash bytes'] := by
        rw [e2, List.filter_append, filter_vote_props]; rfl
      refine ⟨fun _ => bytes', hfin.fresh, hfin.keys, fun _ _ h => h, rfl, fun _ _ _ => rfl, by simp, fun _ => e1, ?_, ?_⟩
      · rintro j (⟨h, _⟩ | ⟨h, _⟩)
        · subst h; rw [hf]; simp [ownVoteMsg, fromVote, voteMsg]
        · simp at h
      · intro j hj
        have hjc : j ≠ ldr C (w + 1) := fun e => hj (Or.inl ⟨e, fun e' => hcc e'.symm⟩)
        rw [hf]
        have : (ldr C (w + 1) == j) = false := by simpa using fun e => hjc e.symm
        simp [ownVoteMsg, fromVote, this]
  obtain ⟨bt', hz⟩ := ba_deliver_rot k C _ _ w N hC rfl rfl hc2m B' B P sgq y.1 hN hpre m3 m4 m5 m6 m7 m8 ordP [] bt0 _ hinit hP.nodup
    (fun j hj => ⟨(hP.mem j hj).1, (hP.mem j hj).2, by simp⟩)
  rw [List.nil_append] at hz
  have hcv : chainViewRot k C ordV ordP x = deliverAll k C (y.1, y.2.filter isVoteEv) (ordP.map (propMsg (ldr C (w + 1)) B')) := by
    unfold chainViewRot
    rw [hvi, hpi]
  rw [hcv]
  have hlk : (deliverAll k C (y.1, y.2.filter isVoteEv) (ordP.map (propMsg (ldr C (w + 1)) B'))).1.reps.lookup (ldr C (w + 1)) = some sc := by
    rw [hz.coll]; exact m1
  refine ⟨B', bt', ⟨hz.fresh, hz.keys, hc2m, ?_, ?_, ?_⟩, ?_, ⟨m4, by rw [m6], by rw [m5, hBv], by rw [hBh]; exact pname_ne_empty _⟩, ?_⟩
  · intro j hj
    by_cases hjc : j = ldr C (w + 1)
    · subst hjc; exact ⟨sc, hlk, m2⟩
    · obtain ⟨s0, s, _, d2, d3, _⟩ := hz.did j (hP.full j hj hjc)
      exact ⟨s, d2, d3⟩
  · by_cases hcc : ldr C (w + 1 + 1) = ldr C (w + 1)
    · obtain ⟨_, sgL, e2, e3⟩ := m10 hcc
      rw [hcc]
      exact ⟨sc, sgL, hlk, e2, honestSig_mono (fun b a hb => hz.table b a hb) e3⟩
    · obtain ⟨s0, s, _, d2, _, _, _, d6⟩ := hz.did _ (hP.full _ hc2m hcc)
      obtain ⟨sg, e1, e2⟩ := d6 rfl
      exact ⟨s, sg, d2, e1, e2⟩
  · intro j hj hjc2
    by_cases hjc : j = ldr C (w + 1)
    · subst hjc; exact hz.btc (fun e => hjc2 e.symm)
    · obtain ⟨s0, s, _, _, _, _, d5, _⟩ := hz.did j (hP.full j hj hjc)
      exact d5 hjc2
  · intro j hj hjc2
    apply hz.flyd
    by_cases hjc : j = ldr C (w + 1)
    · exact Or.inl ⟨hjc, fun e => hjc2 (hjc.trans e)⟩
    · exact Or.inr ⟨hP.full j hj hjc, hjc2⟩
  · intro j hj
    by_cases hjc : j = ldr C (w + 1)
    · subst hjc
      exact ⟨sc0, sc, hl0, hlk, m9⟩
    · obtain ⟨s0, s, d1, d2, _, d4, _, _⟩ := hz.did j (hP.full j hj hjc)
      exact ⟨s0, s, by rw [← hfin.others j hjc]; exact d1, d2, d4⟩



theorem PhaseARot.hasB {C : SysCfg} {w N : Nat} {B P : Block} {bt : Nat → Nat} {σ : SysState} (h : PhaseARot C w N B P bt σ)
    (j : Nat) (hj : j ∈ C.honest) (s : RState) (hl : σ.reps.lookup j = some s) :
    s.chain.blocks.lookup B.hash = some B ∧ B.view = w := by
  obtain ⟨s', h1, h2⟩ := h.reps j hj
  rw [hl] at h1; cases h1
  exact ⟨h2.core.hasB, h2.core.bview⟩

/-- **From a synchronised view to a commit with ROTATING leaders** (and a silent minority): the leaders of the views `w + 1 … w + 4`
are participants (`∈ C.honest`) — possibly four different replicas.  In phase A at `(w, B)` (collector: the leader of `w + 1`) with
the votes in flight and the committer's walk from `B` possible at every participant, run three views of the chain (votes, then
proposals, each in any order; the orders range over the participants other than the collector of that view).  Then EVERY
participant has committed `B`. -/
theorem synced_commits_rot (k : Keys) (C : SysCfg) (w N : Nat) (hC : RotCfg C) (B P : Block) (bt : Nat → Nat)
    (x : SysState × Msgs) (hN : N + 18 ≤ 99999) (hA : PhaseARot C w N B P bt x.1)
    (hfly : VotesFly C (ldr C (w + 1)) B.hash bt x.2)
    (hwalk : ∀ j ∈ C.honest, ∃ s, x.1.reps.lookup j = some s ∧ WalkZ B s)
    (hl2 : ldr C (w + 2) ∈ C.honest) (hl3 : ldr C (w + 3) ∈ C.honest) (hl4 : ldr C (w + 4) ∈ C.honest)
    (v1 p1 v2 p2 v3 p3 : List Nat)
    (hv1 : OthersOrder C (ldr C (w + 1)) v1) (hp1 : OthersOrder C (ldr C (w + 1)) p1)
    (hv2 : OthersOrder C (ldr C (w + 2)) v2) (hp2 : OthersOrder C (ldr C (w + 2)) p2)
    (hv3 : OthersOrder C (ldr C (w + 3)) v3) (hp3 : OthersOrder C (ldr C (w + 3)) p3) :
    ∃ (B1 B2 B3 : Block) (bt3 : Nat → Nat),
      Link B1 B ∧ Link B2 B1 ∧ Link B3 B2 ∧
      PhaseARot C (w + 3) (N + 9) B3 B2 bt3
        (chainViewRot k C v3 p3 (chainViewRot k C v2 p2 (chainViewRot k C v1 p1 x))).1 ∧
      VotesFly C (ldr C (w + 4)) B3.hash bt3 (chainViewRot k C v3 p3 (chainViewRot k C v2 p2 (chainViewRot k C v1 p1 x))).2 ∧
      ∀ j ∈ C.honest, ∃ s0 s, x.1.reps.lookup j = some s0 ∧
        (chainViewRot k C v3 p3 (chainViewRot k C v2 p2 (chainViewRot k C v1 p1 x))).1.reps.lookup j = some s ∧
        s.committed = B ∧ s0.committed.view < s.committed.view := by
  obtain ⟨B1, bt1, a1, a2, a3, a4⟩ := chain_view_rot k C w N hC B P bt x (by omega) hA hfly hl2 v1 p1 hv1 hp1
  obtain ⟨B2, bt2, b1, b2, b3, b4⟩ := chain_view_rot k C (w + 1) (N + 3) hC B1 B bt1 _ (by omega) a1 a2 hl3 v2 p2 hv2 hp2
  obtain ⟨B3, bt3, c1, c2, c3, c4⟩ := chain_view_rot k C (w + 1 + 1) (N + 3 + 3) hC B2 B1 bt2 _ (by omega) b1 b2 hl4 v3 p3 hv3 hp3
  refine ⟨B1, B2, B3, bt3, a3, b3, c3, c1, c2, ?_⟩
  intro j hj
  obtain ⟨s0, s1, d1, d2, d3⟩ := a4 j hj
  obtain ⟨s1', s2, e1, e2, e3⟩ := b4 j hj
  obtain ⟨s2', s3, f1, f2, f3⟩ := c4 j hj
  rw [d2] at e1; cases e1
  rw [e2] at f1; cases f1
  obtain ⟨s0', g1, g2⟩ := hwalk j hj
  rw [d1] at g1; cases g1
  obtain ⟨hB0, hBv⟩ := hA.hasB j hj s0 d1
  have w1 := d3.walk B g2 (by omega)
  have w2 := e3.walk B w1 (by omega)
  have hB2 : s2.chain.blocks.lookup B.hash = some B := e3.store _ _ (d3.store _ _ hB0)
  have hcm := f3.commit B w2 b3 a3 hB2
  exact ⟨s0, s3, d1, f2, hcm, by rw [hcm]; exact g2.below⟩

end HsVerif.Model
