import HsVerif.Model.Kauri
import HsVerif.Proofs.CertComplete
/-! Helper lemmas for C09 (Kauri tree aggregation): `Combine` of two verifying signatures with
disjoint signers verifies (all three schemes); the invariant of the aggregation node, its steps
and runs; completeness for a covered sub-tree. -/
set_option linter.unusedSimpArgs false
set_option linter.unusedVariables false
namespace HsVerif.Model
open Bitfield

def Disj (a b : List Nat) : Prop := ∀ i ∈ a, i ∉ b

theorem multiAppendE_complete : ∀ (s acc : List Entry), ((acc ++ s).map (·.claimed)).Nodup →
    multiAppendE acc s = some (acc ++ s) := by
  intro s
  induction s with
  | nil => intro acc _; simp [multiAppendE]
  | cons e es ih =>
    intro acc hn
    have hne : e.claimed ∉ acc.map (·.claimed) := by
      intro hm
      simp only [List.map_append, List.map_cons] at hn
      rw [List.nodup_append] at hn
      exact hn.2.2 _ hm _ (by simp) rfl
    have hc : (acc.map (·.claimed)).contains e.claimed = false := by
      rw [List.contains_eq_mem]; exact decide_eq_false hne
    unfold multiAppendE
    simp only [hc, Bool.false_eq_true, ↓reduceIte]
    have := ih (acc ++ [e]) (by simpa using hn)
    simpa using this

/-- what `verify` establishes about a well-formed BLS aggregate -/
theorem verify_bls_wf (T : Truth) (c : Cfg) (aa : List Atom) (ja : List Nat) (ba : Bitfield) (m : Msg)
    (hw : ba.len = ba.ids.length) (hv : verify T c (.bls aa ja ba) m = true) :
    c.scheme = .bls12 ∧ ba.ids ≠ [] ∧ (∀ i ∈ ba.ids, c.has i = true) ∧ ja = [] ∧
      aa.Perm (ba.ids.map fun i => (⟨i, m⟩ : Atom)) := by
  simp only [verify, Bool.and_eq_true, bne_iff_ne, ne_eq, beq_iff_eq] at hv
  obtain ⟨⟨hs, hne⟩, hrest⟩ := hv
  have hne' : ba.ids ≠ [] := by
    intro h; rw [h] at hw; simp at hw; exact hne hw
  split at hrest
  · rename_i h1
    have h1' : ba.ids.length = 1 := by rw [← hw]; exact h1
    have hf := first_of_len_one ba h1'
    simp only [Bool.and_eq_true] at hrest
    refine ⟨hs, hne', ?_, by simpa using hrest.1.2, ?_⟩
    · intro i hi; rw [hf] at hi; simp at hi; subst hi; exact hrest.1.1
    · rw [hf]; simpa using List.isPerm_iff.mp hrest.2
  · simp only [Bool.and_eq_true, List.all_eq_true] at hrest
    exact ⟨hs, hne', hrest.1.1, by simpa using hrest.1.2, List.isPerm_iff.mp hrest.2⟩

theorem nodup_append_of_disj {l₁ l₂ : List Nat} (h1 : l₁.Nodup) (h2 : l₂.Nodup) (hd : Disj l₁ l₂) : (l₁ ++ l₂).Nodup := by
  rw [List.nodup_append]
  exact ⟨h1, h2, fun a ha b hb e => hd a ha (e ▸ hb)⟩

/-- **Combining two verifying signatures with disjoint signers verifies** (all three schemes). -/
theorem combine_two_verifies (T : Truth) (c : Cfg) (m : Msg) (a b : Sig)
    (ha : verify T c a m = true) (hb : verify T c b m = true) (hwa : a.WF) (hwb : b.WF)
    (hd : Disj a.participants b.participants) :
    ∃ s, combine c [a, b] = .ok s ∧ verify T c s m = true ∧ s.WF ∧
      s.participants.Perm (a.participants ++ b.participants) ∧ s.len = a.len + b.len := by
  cases a with
  | multi ka ea =>
    cases b with
    | bls ab jb bb =>
      simp only [verify, Bool.and_eq_true, bne_iff_ne, ne_eq, beq_iff_eq] at ha hb
      exact absurd (ha.1.1.1.1 ▸ hb.1.1) (by simpa using ha.1.1.1.2)
    | multi kb eb =>
      simp only [verify, Bool.and_eq_true, bne_iff_ne, ne_eq, beq_iff_eq, Bool.not_eq_true', List.all_eq_true] at ha hb
      obtain ⟨⟨⟨⟨hka, hnb⟩, hnea⟩, hda⟩, halla⟩ := ha
      obtain ⟨⟨⟨⟨hkb, _⟩, hneb⟩, hdb⟩, hallb⟩ := hb
      subst hka
      have hkb' : kb = c.scheme := hkb
      subst hkb'
      have hn : ((ea ++ eb).map (·.claimed)).Nodup := by
        rw [List.map_append]
        exact nodup_append_of_disj (hasDup_false hda) (hasDup_false hdb) hd
      refine ⟨.multi c.scheme (ea ++ eb), ?_, ?_, trivial, by simp [Sig.participants], by simp [Sig.len]⟩
      · unfold combine
        have h1 := multiAppendE_complete ea [] (by
          have := (List.nodup_append.mp (by simpa using hn)).1; simpa using this)
        have h2 := multiAppendE_complete eb ea hn
        cases hk : c.scheme with
        | bls12 => exact absurd hk hnb
        | ecdsa => simp [hk, allMulti, multiCombineE, h1, h2]
        | eddsa => simp [hk, allMulti, multiCombineE, h1, h2]
      · simp only [verify, beq_self_eq_true, Bool.true_and, Bool.and_eq_true, bne_iff_ne, ne_eq,
          Bool.not_eq_true', List.all_eq_true]
        refine ⟨⟨⟨hnb, ?_⟩, hasDup_of_nodup hn⟩, ?_⟩
        · cases ea with
          | nil => simp at hnea
          | cons _ _ => simp
        · intro e he
          rcases List.mem_append.mp he with h | h
          · exact halla e h
          · exact hallb e h
  | bls aa ja ba =>
    cases b with
    | multi kb eb =>
      simp only [verify, Bool.and_eq_true, bne_iff_ne, ne_eq, beq_iff_eq] at ha hb
      exact absurd (hb.1.1.1.1 ▸ ha.1.1) (by simpa using hb.1.1.1.2)
    | bls ab jb bb =>
      simp only [Sig.WF] at hwa hwb
      obtain ⟨hs, hnea, hhasa, hja, hpa⟩ := verify_bls_wf T c aa ja ba m hwa ha
      obtain ⟨_, hneb, hhasb, hjb, hpb⟩ := verify_bls_wf T c ab jb bb m hwb hb
      simp only [Sig.participants] at hd
      have hemp : ∀ x, x ∉ Bitfield.empty.ids := by intro x; simp [Bitfield.empty, ids, idsOf]
      obtain ⟨r1, hr1⟩ := blsCombineOne_complete ba.ids Bitfield.empty (ids_ge_one ba) (idsOf_nodup _)
        (fun x _ => hemp x)
      obtain ⟨hinv1, hmem1⟩ := blsCombineOne_spec _ _ _ hr1 inv_empty (ids_ge_one ba)
      have hmem1' : ∀ j, j ∈ r1.ids ↔ j ∈ ba.ids := by
        intro j; rw [hmem1]; constructor
        · rintro (h | h)
          · exact absurd h (hemp j)
          · exact h
        · exact Or.inr
      obtain ⟨r2, hr2⟩ := blsCombineOne_complete bb.ids r1 (ids_ge_one bb) (idsOf_nodup _)
        (fun x hx h => hd x ((hmem1' x).mp h) hx)
      obtain ⟨hinv2, hmem2⟩ := blsCombineOne_spec _ _ _ hr2 hinv1 (ids_ge_one bb)
      have hperm : r2.ids.Perm (ba.ids ++ bb.ids) := by
        have hn2 : r2.ids.Nodup := idsOf_nodup _
        have hna : ba.ids.Nodup := idsOf_nodup _
        have hnb : bb.ids.Nodup := idsOf_nodup _
        rw [List.perm_ext_iff_of_nodup hn2 (nodup_append_of_disj hna hnb hd)]
        intro j; rw [hmem2, hmem1', List.mem_append]
      have hlen : r2.len = ba.len + bb.len := by
        rw [hinv2, hperm.length_eq, List.length_append, hwa, hwb]
      have hla : 1 ≤ ba.ids.length := by
        cases h : ba.ids with
        | nil => exact absurd h hnea
        | cons _ _ => simp
      have hlb : 1 ≤ bb.ids.length := by
        cases h : bb.ids with
        | nil => exact absurd h hneb
        | cons _ _ => simp
      refine ⟨.bls (aa ++ ab) (ja ++ jb) r2, ?_, ?_, hinv2, hperm, hlen⟩
      · unfold combine
        simp [hs, allBls, blsCombineAux, hr1, hr2]
      · have hne : r2.len ≠ 0 := by rw [hlen, hwa, hwb]; omega
        have hne1 : (r2.len == 1) = false := by simp; rw [hlen, hwa, hwb]; omega
        simp only [verify, hs, hne1, hja, hjb]
        simp only [beq_self_eq_true, bne_iff_ne, ne_eq, hne, not_false_eq_true, decide_true, Bool.true_and,
          Bool.false_eq_true, ↓reduceIte, List.append_nil, List.isEmpty_nil, Bool.and_true, Bool.and_eq_true, List.all_eq_true]
        refine ⟨trivial, fun x hx => ?_, ?_⟩
        · rcases List.mem_append.mp (hperm.mem_iff.mp hx) with h | h
          · exact hhasa x h
          · exact hhasb x h
        · rw [List.isPerm_iff]
          have : (aa ++ ab).Perm ((ba.ids ++ bb.ids).map fun i => (⟨i, m⟩ : Atom)) := by
            rw [List.map_append]; exact hpa.append hpb
          exact this.trans (hperm.map _).symm

/-- the signature verifies for the bytes of block `h` and its bit-field length is consistent -/
def SigOK (T : Truth) (c : KCfg) (h : Hash) (sg : Sig) : Prop :=
  verify T c.cfg sg (blkMsg h) = true ∧ sg.WF

/-- invariant of the aggregation node: the held aggregate verifies for the node's block -/
def KInv (T : Truth) (c : KCfg) (s : KState) : Prop :=
  ∀ sg, s.aggContrib = some sg → SigOK T c s.blockHash sg

/-- the own vote handed to `begin` verifies (and is a well-formed value, as `Sign` returns) -/
def OwnOK (T : Truth) (c : KCfg) : KOp → Prop
  | .begin _ h sg => SigOK T c h sg
  | _ => True

theorem fromWire_WF (s : Sig) : s.fromWire.WF := by
  cases s with
  | multi _ _ => trivial
  | bls _ _ b => exact inv_fromBytes b.data

theorem fromWire_participants (s : Sig) : s.fromWire.participants = s.participants := by
  cases s <;> rfl

theorem containsId_iff (sg : Sig) (i : Nat) (hi : 1 ≤ i) : sg.containsId i = true ↔ i ∈ sg.participants := by
  cases sg with
  | multi _ es => simp [Sig.containsId, Sig.participants]
  | bls _ _ b => simp [Sig.containsId, Sig.participants, contains_eq b i hi]

theorem canMerge_iff (a b : Sig) (h1 : ∀ i ∈ a.participants, 1 ≤ i) :
    canMerge a b = true ↔ Disj a.participants b.participants := by
  unfold canMerge Disj
  simp only [List.all_eq_true, Bool.not_eq_true', Bool.eq_false_iff]
  constructor
  · intro h i hi hm; exact h i hi ((containsId_iff b i (h1 i hi)).mpr hm)
  · intro h i hi hm; exact h i hi ((containsId_iff b i (h1 i hi)).mp hm)

theorem has_ge_one (c : Cfg) (i : Nat) (h : c.has i = true) : 1 ≤ i := by
  simp [Cfg.has] at h; exact h.1

theorem sigOK_ge_one (T : Truth) (c : KCfg) (h : Hash) (sg : Sig) (hs : SigOK T c h sg) :
    ∀ i ∈ sg.participants, 1 ≤ i := by
  intro i hi
  exact has_ge_one c.cfg i ((verify_sound T c.cfg sg _ hs.1 hs.2).2.2.2 i hi).1

theorem sigOK_nodup (T : Truth) (c : KCfg) (h : Hash) (sg : Sig) (hs : SigOK T c h sg) :
    sg.participants.Nodup ∧ sg.participants.length = sg.len :=
  ⟨(verify_sound T c.cfg sg _ hs.1 hs.2).1, (verify_sound T c.cfg sg _ hs.1 hs.2).2.1⟩

/-- what a successful `mergeContribution` did -/
theorem merge_spec (T : Truth) (c : KCfg) (s s' : KState) (known : Bool) (cur : Sig) (fx : List KEffect)
    (hinv : KInv T c s) (hw : cur.WF)
    (hm : mergeContribution T c s known (some cur) = some (s', fx)) :
    known = true ∧ verify T c.cfg cur (blkMsg s.blockHash) = true ∧
    ∃ a, s' = { s with aggContrib := some a } ∧ SigOK T c s.blockHash a ∧
      ((fx = [] ∧ a.len < c.cfg.quorum) ∨ (fx = [.newViewQC a s.currentView s.blockHash] ∧ c.cfg.quorum ≤ a.len)) ∧
      ((s.aggContrib = none ∧ a = cur) ∨
       (∃ agg, s.aggContrib = some agg ∧ Disj cur.participants agg.participants ∧
          a.participants.Perm (cur.participants ++ agg.participants) ∧ a.len = cur.len + agg.len)) := by
  unfold mergeContribution at hm
  cases hk : known with
  | false => simp [hk] at hm
  | true =>
    cases hv : verify T c.cfg cur (blkMsg s.blockHash) with
    | false => simp [hk, hv] at hm
    | true =>
      simp only [hk, hv, Bool.not_true, Bool.false_eq_true, ↓reduceIte] at hm
      refine ⟨rfl, rfl, ?_⟩
      have hcur : SigOK T c s.blockHash cur := ⟨hv, hw⟩
      -- the merged aggregate
      have key : ∀ a, (match s.aggContrib with
            | none => some cur
            | some agg => if (!canMerge cur agg) = true then none else
                match combine c.cfg [cur, agg] with
                | .ok comb => some comb
                | _ => none) = some a →
          SigOK T c s.blockHash a ∧
          ((s.aggContrib = none ∧ a = cur) ∨
           (∃ agg, s.aggContrib = some agg ∧ Disj cur.participants agg.participants ∧
              a.participants.Perm (cur.participants ++ agg.participants) ∧ a.len = cur.len + agg.len)) := by
        intro a ha
        cases hagg : s.aggContrib with
        | none =>
          simp only [hagg, Option.some.injEq] at ha
          subst ha
          exact ⟨hcur, Or.inl ⟨rfl, rfl⟩⟩
        | some agg =>
          simp only [hagg] at ha
          have hok := hinv agg hagg
          cases hcm : canMerge cur agg with
          | false => simp [hcm] at ha
          | true =>
            have hd := (canMerge_iff cur agg (sigOK_ge_one T c _ cur hcur)).mp hcm
            obtain ⟨sg, hc, hvs, hws, hps, hls⟩ := combine_two_verifies T c.cfg _ cur agg hv hok.1 hw hok.2 hd
            simp only [hcm, Bool.not_true, Bool.false_eq_true, ↓reduceIte, hc, Option.some.injEq] at ha
            subst ha
            exact ⟨⟨hvs, hws⟩, Or.inr ⟨agg, rfl, hd, hps, hls⟩⟩
      split at hm
      · simp at hm
      · rename_i a ha
        obtain ⟨h1, h2⟩ := key a ha
        split at hm
        · rename_i hq
          simp only [Option.some.injEq, Prod.mk.injEq] at hm
          exact ⟨a, hm.1.symm, h1, Or.inr ⟨hm.2.symm, hq⟩, h2⟩
        · rename_i hq
          simp only [Option.some.injEq, Prod.mk.injEq] at hm
          exact ⟨a, hm.1.symm, h1, Or.inl ⟨hm.2.symm, by omega⟩, h2⟩

/-- what every emitted effect satisfies, relative to the state after the step -/
def EffOK (T : Truth) (c : KCfg) (s' : KState) : KEffect → Prop
  | .sendProposalToChildren => True
  | .sendToParent v sg => v = s'.currentView ∧ ∃ a, sg = some a ∧ SigOK T c s'.blockHash a
  | .newViewQC a v h => v = s'.currentView ∧ h = s'.blockHash ∧ SigOK T c h a ∧ c.cfg.quorum ≤ a.len

theorem merge_none (T : Truth) (c : KCfg) (s : KState) (known : Bool) :
    mergeContribution T c s known none = none := by
  unfold mergeContribution; cases known <;> simp

theorem step_ok (T : Truth) (c : KCfg) (s : KState) (op : KOp) (hinv : KInv T c s) (hop : OwnOK T c op) :
    KInv T c (kStep T c s op).1 ∧ ∀ e ∈ (kStep T c s op).2, EffOK T c (kStep T c s op).1 e := by
  cases op with
  | begin v h sg =>
    simp only [OwnOK] at hop
    simp only [kStep, kBegin, KState.reset]
    split
    · refine ⟨?_, ?_⟩
      · intro a ha; simp only [Option.some.injEq] at ha; subst ha; exact hop
      · intro e he; simp only [List.mem_singleton] at he; subst he; trivial
    · refine ⟨?_, ?_⟩
      · intro a ha; simp only [Option.some.injEq] at ha; subst ha; exact hop
      · intro e he; simp only [List.mem_singleton] at he; subst he
        exact ⟨rfl, sg, rfl, hop⟩
  | contribution v id sg known =>
    simp only [kStep, onContribution]
    split
    · exact ⟨hinv, by simp⟩
    · split
      · exact ⟨hinv, by simp⟩
      · rename_i s1 fx hm
        cases sg with
        | none => simp [merge_none] at hm
        | some g =>
          simp only [Option.map_some] at hm
          obtain ⟨_, _, a, hs1, hok, hfx, _⟩ := merge_spec T c s s1 known g.fromWire fx hinv (fromWire_WF g) hm
          subst hs1
          have hfxok : ∀ (st : KState), st.currentView = s.currentView → st.blockHash = s.blockHash →
              ∀ e ∈ fx, EffOK T c st e := by
            intro st h1 h2 e he
            rcases hfx with ⟨h, _⟩ | ⟨h, hq⟩
            · subst h; simp at he
            · subst h; simp only [List.mem_singleton] at he; subst he
              exact ⟨h1.symm, h2.symm, hok, hq⟩
          split
          · refine ⟨?_, ?_⟩
            · intro x hx; simp only [Option.some.injEq] at hx; subst hx; exact hok
            · intro e he
              rcases List.mem_append.mp he with h | h
              · exact hfxok _ rfl rfl e h
              · simp only [List.mem_singleton] at h; subst h
                exact ⟨rfl, a, rfl, hok⟩
          · refine ⟨?_, ?_⟩
            · intro x hx; simp only [Option.some.injEq] at hx; subst hx; exact hok
            · intro e he; exact hfxok _ rfl rfl e he
  | timerExpired v =>
    simp only [kStep, onTimer]
    split
    · exact ⟨hinv, by simp⟩
    · split
      · rename_i hc
        simp only [Bool.and_eq_true, Bool.not_eq_true'] at hc
        refine ⟨?_, ?_⟩
        · intro x hx; simp [KState.reset] at hx
        · intro e he; simp only [List.mem_singleton] at he; subst he
          cases ha : s.aggContrib with
          | none => simp [ha] at hc
          | some a => exact ⟨rfl, a, rfl, hinv a ha⟩
      · exact ⟨hinv, by simp⟩

theorem kRun_cons (T : Truth) (c : KCfg) (s : KState) (op : KOp) (ops : List KOp) :
    kRun T c s (op :: ops) =
      ((kRun T c (kStep T c s op).1 ops).1, (kStep T c s op).2 ++ (kRun T c (kStep T c s op).1 ops).2) := rfl

theorem run_inv (T : Truth) (c : KCfg) : ∀ (ops : List KOp) (s : KState), KInv T c s →
    (∀ op ∈ ops, OwnOK T c op) → KInv T c (kRun T c s ops).1 := by
  intro ops
  induction ops with
  | nil => intro s h _; exact h
  | cons op ops ih =>
    intro s h hall
    rw [kRun_cons]
    exact ih _ (step_ok T c s op h (hall op (by simp))).1 (fun o ho => hall o (by simp [ho]))

theorem kinv_init (T : Truth) (c : KCfg) : KInv T c {} := by
  intro sg h; simp at h

/-- a contribution that is for another view, arrives when the block is unknown, carries no
signature, does not verify, or overlaps the held aggregate changes nothing and emits nothing -/
theorem rejected_no_change (T : Truth) (c : KCfg) (s : KState) (v id : Nat) (sg : Option Sig) (known : Bool)
    (h : v ≠ s.currentView ∨ known = false ∨ sg = none ∨
      (∃ g, sg = some g ∧ verify T c.cfg g.fromWire (blkMsg s.blockHash) = false) ∨
      (∃ g agg i, sg = some g ∧ s.aggContrib = some agg ∧ i ∈ g.participants ∧ i ∈ agg.participants)) :
    kStep T c s (.contribution v id sg known) = (s, []) := by
  simp only [kStep, onContribution]
  by_cases hv : s.currentView = v
  · have hm : mergeContribution T c s known (sg.map Sig.fromWire) = none := by
      rcases h with h | h | h | ⟨g, hg, hf⟩ | ⟨g, agg, i, hg, hagg, hi, hia⟩
      · exact absurd hv.symm h
      · subst h; unfold mergeContribution; simp
      · subst h; exact merge_none T c s known
      · subst hg; unfold mergeContribution; cases known <;> simp [hf]
      · subst hg
        unfold mergeContribution
        cases known with
        | false => simp
        | true =>
          cases hver : verify T c.cfg g.fromWire (blkMsg s.blockHash) with
          | false => simp [hver]
          | true =>
            have hok : SigOK T c s.blockHash g.fromWire := ⟨hver, fromWire_WF g⟩
            have h1 := sigOK_ge_one T c _ _ hok
            have hcm : canMerge g.fromWire agg = false := by
              cases hcm : canMerge g.fromWire agg with
              | false => rfl
              | true =>
                have := (canMerge_iff _ agg h1).mp hcm
                rw [fromWire_participants] at this
                exact absurd hia (this i hi)
            simp [hver, hagg, hcm]
    simp [hv, hm]
  · simp [hv]

def KEffect.isSend : KEffect → Bool
  | .sendToParent _ _ => true
  | _ => false

/-- a contribution with a signature, arriving while the block is in the store -/
def contribOp (v : Nat) (p : Nat × Sig) : KOp := .contribution v p.1 (some p.2) true

theorem isSubSet_iff (a b : List Nat) : isSubSet a b = true ↔ ∀ x ∈ a, x ∈ b := by
  simp [isSubSet]

theorem disj_symm {a b : List Nat} (h : Disj a b) : Disj b a := fun i hi ha => h i ha hi

/-- a verifying contribution disjoint from the (verifying) held aggregate is merged -/
theorem accept_step (T : Truth) (c : KCfg) (s : KState) (v id : Nat) (g agg : Sig)
    (hview : s.currentView = v) (hagg : s.aggContrib = some agg) (hokagg : SigOK T c s.blockHash agg)
    (hv : verify T c.cfg g.fromWire (blkMsg s.blockHash) = true) (hd : Disj g.participants agg.participants) :
    ∃ comb, SigOK T c s.blockHash comb ∧ comb.participants.Perm (g.participants ++ agg.participants) ∧
      (kStep T c s (.contribution v id (some g) true)).1 =
        { s with aggContrib := some comb, senders := s.senders ++ [id],
                 aggSent := (if isSubSet c.subtree (s.senders ++ [id]) then true else s.aggSent) } ∧
      (kStep T c s (.contribution v id (some g) true)).2.filter KEffect.isSend =
        (if isSubSet c.subtree (s.senders ++ [id]) then [.sendToParent v (some comb)] else []) := by
  have hok : SigOK T c s.blockHash g.fromWire := ⟨hv, fromWire_WF g⟩
  have hcm : canMerge g.fromWire agg = true := by
    rw [canMerge_iff _ _ (sigOK_ge_one T c _ _ hok), fromWire_participants]; exact hd
  obtain ⟨comb, hc, hvs, hws, hps, _⟩ := combine_two_verifies T c.cfg _ g.fromWire agg hv hokagg.1
    (fromWire_WF g) hokagg.2 (by rw [fromWire_participants]; exact hd)
  rw [fromWire_participants] at hps
  refine ⟨comb, ⟨hvs, hws⟩, hps, ?_⟩
  have hm : ∃ fx, mergeContribution T c s true (some g.fromWire) = some ({ s with aggContrib := some comb }, fx) ∧
      fx.filter KEffect.isSend = [] := by
    unfold mergeContribution
    simp only [Bool.not_true, Bool.false_eq_true, ↓reduceIte, hv, hagg, hcm, hc]
    split
    · exact ⟨_, rfl, by simp [KEffect.isSend]⟩
    · exact ⟨_, rfl, by simp⟩
  obtain ⟨fx, hm, hfx⟩ := hm
  have hvv : (s.currentView != v) = false := by simp [hview]
  simp only [kStep, onContribution, hvv, Bool.false_eq_true, ↓reduceIte, Option.map_some, hm]
  split
  · rename_i hs
    simp only [hs, ↓reduceIte, List.filter_append, hfx, List.nil_append, true_and]
    simp [KEffect.isSend, hview]
  · rename_i hs
    simp only [hs, Bool.false_eq_true, ↓reduceIte, hfx, and_true]

theorem kRun_nil (T : Truth) (c : KCfg) (s : KState) : kRun T c s [] = (s, []) := rfl

theorem run_contribs (T : Truth) (c : KCfg) (v : Nat) (h : Hash) (cs : List (Nat × Sig))
    (hnd : (cs.map (·.1)).Nodup) (hsub : ∀ x, x ∈ c.subtree ↔ x ∈ cs.map (·.1))
    (hvalid : ∀ p ∈ cs, verify T c.cfg p.2.fromWire (blkMsg h) = true) :
    ∀ (rest pre : List (Nat × Sig)) (s : KState) (agg : Sig), pre ++ rest = cs → rest ≠ [] →
      s.currentView = v → s.blockHash = h → s.senders = pre.map (·.1) → s.aggSent = false →
      s.aggContrib = some agg → SigOK T c h agg →
      (agg.participants :: rest.map (·.2.participants)).Pairwise Disj →
      ∃ agg', SigOK T c h agg' ∧
        agg'.participants.Perm (agg.participants ++ rest.flatMap (·.2.participants)) ∧
        (kRun T c s (rest.map (contribOp v))).1 =
          { s with aggContrib := some agg', aggSent := true, senders := cs.map (·.1) } ∧
        (kRun T c s (rest.map (contribOp v))).2.filter KEffect.isSend = [.sendToParent v (some agg')] := by
  intro rest
  induction rest with
  | nil => intro _ _ _ _ hne; exact absurd rfl hne
  | cons p rest ih =>
    intro pre s agg hcs _ hview hhash hsend hsent hagg hok hpw
    have hpcs : p ∈ cs := by rw [← hcs]; simp
    rw [List.map_cons, List.pairwise_cons] at hpw
    obtain ⟨hagg_d, hrest_pw⟩ := hpw
    rw [List.pairwise_cons] at hrest_pw
    have hd : Disj p.2.participants agg.participants := disj_symm (hagg_d _ (by simp))
    obtain ⟨comb, hcok, hcperm, hst, hfx⟩ := accept_step T c s v p.1 p.2 agg hview hagg (hhash ▸ hok)
      (hhash ▸ hvalid p hpcs) hd
    rw [hhash] at hcok
    simp only [List.map_cons, kRun_cons, List.filter_append]
    have hop : contribOp v p = .contribution v p.1 (some p.2) true := rfl
    rw [hop]
    have hids : s.senders ++ [p.1] = (pre ++ [p]).map (·.1) := by simp [hsend]
    cases rest with
    | nil =>
      have hcov : isSubSet c.subtree (s.senders ++ [p.1]) = true := by
        rw [isSubSet_iff, hids]; intro x hx
        have := (hsub x).mp hx
        rw [← hcs] at this; simpa using this
      simp only [List.map_nil, kRun_nil, List.filter_nil, List.append_nil, List.flatMap_cons, List.flatMap_nil]
      rw [hst, hfx]
      simp only [hcov, ↓reduceIte]
      refine ⟨comb, hcok, ?_, ?_, rfl⟩
      · exact hcperm.trans List.perm_append_comm
      · rw [hids, ← hcs]
    | cons q rest' =>
      have hq : q.1 ∈ c.subtree := by rw [hsub, ← hcs]; simp
      have hqn : q.1 ∉ (pre ++ [p]).map (·.1) := by
        intro hin
        have : ((pre ++ [p]).map (·.1) ++ (q :: rest').map (·.1)).Nodup := by
          rw [← List.map_append]; simpa [← hcs] using hnd
        rw [List.nodup_append] at this
        exact this.2.2 _ hin _ (by simp) rfl
      have hcov : isSubSet c.subtree (s.senders ++ [p.1]) = false := by
        cases hh : isSubSet c.subtree (s.senders ++ [p.1]) with
        | false => rfl
        | true => rw [isSubSet_iff, hids] at hh; exact absurd (hh _ hq) hqn
      rw [hst, hfx]
      simp only [hcov, Bool.false_eq_true, ↓reduceIte, hsent]
      have hpw' : (comb.participants :: (q :: rest').map (·.2.participants)).Pairwise Disj := by
        rw [List.pairwise_cons]
        refine ⟨?_, hrest_pw.2⟩
        intro b hb i hi
        rcases List.mem_append.mp (hcperm.mem_iff.mp hi) with h1 | h1
        · exact hrest_pw.1 b hb i h1
        · exact hagg_d b (List.mem_cons_of_mem _ hb) i h1
      obtain ⟨agg', hok', hperm', hst', hfx'⟩ := ih (pre ++ [p])
        { s with aggContrib := some comb, senders := s.senders ++ [p.1], aggSent := false } comb
        (by rw [← hcs]; simp) (by simp) hview hhash hids rfl rfl hcok hpw'
      refine ⟨agg', hok', ?_, ?_, ?_⟩
      · refine hperm'.trans ?_
        rw [List.flatMap_cons (x := p)]
        have : (comb.participants ++ (q :: rest').flatMap (·.2.participants)).Perm
            ((p.2.participants ++ agg.participants) ++ (q :: rest').flatMap (·.2.participants)) :=
          hcperm.append_right _
        refine this.trans ?_
        rw [← List.append_assoc]
        exact List.perm_append_comm.append_right _
      · rw [hst']
      · simp only [List.nil_append]; exact hfx'

end HsVerif.Model
