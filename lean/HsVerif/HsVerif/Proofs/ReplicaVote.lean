import HsVerif.Model.Replica
import Std.Do
import Std.Tactic.Do
/-! Invariants of the replica model about what it signs (C03), proved with the `Std.Do` program
logic (`mvcgen`) over the state monad of Model/Replica.lean. -/
open Std.Do
set_option mvcgen.warning false
namespace HsVerif.Model

/-- the part of the state the vote discipline is about: ghost history and `lastVotedView` -/
@[reducible] def VS (s : RState) : List GRec × Nat := (s.ghost, s.lastVoted)

/-! Frame lemmas: these functions touch neither the ghost history nor `lastVotedView`. -/
section Frames

theorem emit_frame (o : Out) (x) : ⦃fun s => ⌜VS s = x⌝⦄ emit o ⦃⇓ _ s => ⌜VS s = x⌝⦄ := by
  mvcgen [emit] <;> simp_all +zetaDelta
attribute [local spec] emit_frame

theorem addEvent_frame (e : Ev) (x) : ⦃fun s => ⌜VS s = x⌝⦄ addEvent e ⦃⇓ _ s => ⌜VS s = x⌝⦄ := by
  mvcgen [addEvent] <;> simp_all +zetaDelta
attribute [local spec] addEvent_frame

theorem getBlock_frame (h : Hash) (x) : ⦃fun s => ⌜VS s = x⌝⦄ getBlock h ⦃⇓ _ s => ⌜VS s = x⌝⦄ := by
  mvcgen [getBlock] <;> simp_all +zetaDelta
attribute [local spec] getBlock_frame

theorem fetchFor_frame (h : Hash) (x) : ⦃fun s => ⌜VS s = x⌝⦄ fetchFor h ⦃⇓ _ s => ⌜VS s = x⌝⦄ := by
  mvcgen [fetchFor] <;> simp_all +zetaDelta
attribute [local spec] fetchFor_frame

theorem signMsg_frame (c : RCfg) (m : Msg) (x) : ⦃fun s => ⌜VS s = x⌝⦄ signMsg c m ⦃⇓ _ s => ⌜VS s = x⌝⦄ := by
  mvcgen [signMsg] <;> simp_all +zetaDelta
attribute [local spec] signMsg_frame

theorem verifyQCM_frame (k : Keys) (c : RCfg) (q : QC) (x) :
    ⦃fun s => ⌜VS s = x⌝⦄ verifyQCM k c q ⦃⇓ _ s => ⌜VS s = x⌝⦄ := by
  mvcgen [verifyQCM] <;> simp_all +zetaDelta

theorem verifyTCM_frame (k : Keys) (c : RCfg) (t : TC) (x) :
    ⦃fun s => ⌜VS s = x⌝⦄ verifyTCM k c t ⦃⇓ _ s => ⌜VS s = x⌝⦄ := by
  mvcgen [verifyTCM] <;> simp_all +zetaDelta
attribute [local spec] verifyTCM_frame

theorem qcRef_frame (q : QC) (x) : ⦃fun s => ⌜VS s = x⌝⦄ qcRef q ⦃⇓ _ s => ⌜VS s = x⌝⦄ := by
  mvcgen [qcRef] <;> simp_all +zetaDelta
attribute [local spec] qcRef_frame

theorem extendsM_frame (b t : Block) (x) : ⦃fun s => ⌜VS s = x⌝⦄ extendsM b t ⦃⇓ _ s => ⌜VS s = x⌝⦄ := by
  mvcgen [extendsM] <;> simp_all +zetaDelta
attribute [local spec] extendsM_frame

theorem voteRule_frame (c : RCfg) (v : Nat) (b : Block) (agg : Option AggQC) (x) :
    ⦃fun s => ⌜VS s = x⌝⦄ voteRule c v b agg ⦃⇓ _ s => ⌜VS s = x⌝⦄ := by
  mvcgen [voteRule] <;> simp_all +zetaDelta
attribute [local spec] voteRule_frame

theorem commitRule_frame (c : RCfg) (b : Block) (x) :
    ⦃fun s => ⌜VS s = x⌝⦄ commitRule c b ⦃⇓ _ s => ⌜VS s = x⌝⦄ := by
  mvcgen [commitRule] <;> simp_all +zetaDelta
attribute [local spec] commitRule_frame

theorem commitInner_frame (fuel : Nat) (b : Block) (x) :
    ⦃fun s => ⌜VS s = x⌝⦄ commitInner fuel b ⦃⇓ _ s => ⌜VS s = x⌝⦄ := by
  induction fuel generalizing b with
  | zero => mvcgen [commitInner] <;> simp_all +zetaDelta
  | succ n ih => mvcgen [commitInner, ih] <;> simp_all +zetaDelta
attribute [local spec] commitInner_frame

theorem tryCommit_frame (c : RCfg) (b : Block) (x) :
    ⦃fun s => ⌜VS s = x⌝⦄ tryCommit c b ⦃⇓ _ s => ⌜VS s = x⌝⦄ := by
  mvcgen [tryCommit]
  case inv1 => exact ⇓ _ s => ⌜VS s = x⌝
  all_goals simp_all +zetaDelta
attribute [local spec] tryCommit_frame

theorem votesCleanup_frame (x) : ⦃fun s => ⌜VS s = x⌝⦄ votesCleanup ⦃⇓ _ s => ⌜VS s = x⌝⦄ := by
  mvcgen [votesCleanup] <;> simp_all +zetaDelta
attribute [local spec] votesCleanup_frame

theorem collectVote_frame (k : Keys) (c : RCfg) (id : Nat) (sig : Option Sig) (h : Hash) (d : Bool) (x) :
    ⦃fun s => ⌜VS s = x⌝⦄ collectVote k c id sig h d ⦃⇓ _ s => ⌜VS s = x⌝⦄ := by
  mvcgen [collectVote] <;> simp_all +zetaDelta
attribute [local spec] collectVote_frame

theorem aggregateVote_frame (k : Keys) (c : RCfg) (b : Block) (sg : Sig) (x) :
    ⦃fun s => ⌜VS s = x⌝⦄ aggregateVote k c b sg ⦃⇓ _ s => ⌜VS s = x⌝⦄ := by
  mvcgen [aggregateVote] <;> simp_all +zetaDelta
attribute [local spec] aggregateVote_frame

theorem markProposed_frame (fuel : Nat) (b : Block) (x) :
    ⦃fun s => ⌜VS s = x⌝⦄ markProposed fuel b ⦃⇓ _ s => ⌜VS s = x⌝⦄ := by
  induction fuel generalizing b with
  | zero => mvcgen [markProposed] <;> simp_all +zetaDelta
  | succ n ih => mvcgen [markProposed, ih] <;> simp_all +zetaDelta
attribute [local spec] markProposed_frame

/-! The vote discipline. -/

/-- view of something the replica signed (vote or timeout) -/
def GRec.signedView : GRec → Option Nat
  | .vote b _ => some b.view
  | .tmo v => some v
  | .adv _ _ _ => none

def GRec.voteView : GRec → Option Nat
  | .vote b _ => some b.view
  | _ => none

/-- what is known about a block when the replica signs a vote for it -/
def Facts (k : Keys) (c : RCfg) (b : Block) (sender : Nat) : Prop :=
  sender = c.leader b.view ∧ b.parent = b.qc.hash ∧ b.qc.view < b.view ∧
  ∃ s0 : RState, verifyQC (env k c s0) b.qc = true

/-- invariant on (ghost history, lastVotedView) -/
def InvV (k : Keys) (c : RCfg) (x : List GRec × Nat) : Prop :=
  (∀ r ∈ x.1, ∀ v, r.signedView = some v → v ≤ x.2) ∧
  x.1.Pairwise (fun r1 r2 => ∀ v1 v2, r1.signedView = some v1 → r2.voteView = some v2 → v1 < v2) ∧
  (∀ b id, GRec.vote b id ∈ x.1 → Facts k c b id)

theorem InvV_init (k : Keys) (c : RCfg) : InvV k c ([], 0) := by simp [InvV]

theorem InvV_vote (k : Keys) (c : RCfg) (g : List GRec) (lv : Nat) (b : Block) (id : Nat)
    (h : InvV k c (g, lv)) (hv : lv < b.view) (hf : Facts k c b id) : InvV k c (g ++ [.vote b id], b.view) := by
  obtain ⟨h1, h2, h3⟩ := h
  refine ⟨?_, ?_, ?_⟩
  · intro r hr v hs
    simp only [List.mem_append, List.mem_singleton] at hr
    rcases hr with hr | rfl
    · have := h1 r hr v hs; simp only at this ⊢; omega
    · simp [GRec.signedView] at hs; simp [hs]
  · rw [List.pairwise_append]
    refine ⟨h2, by simp, ?_⟩
    intro a ha b' hb v1 v2 hs hvv
    simp only [List.mem_singleton] at hb; subst hb
    simp [GRec.voteView] at hvv; subst hvv
    have := h1 a ha v1 hs; simp only at this; omega
  · intro b' id' hm
    simp only [List.mem_append, List.mem_singleton] at hm
    rcases hm with hm | hm
    · exact h3 b' id' hm
    · cases hm; exact hf

theorem InvV_tmo (k : Keys) (c : RCfg) (g : List GRec) (lv v : Nat)
    (h : InvV k c (g, lv)) : InvV k c (g ++ [.tmo v], if lv < v then v else lv) := by
  obtain ⟨h1, h2, h3⟩ := h
  refine ⟨?_, ?_, ?_⟩
  · intro r hr w hs
    simp only [List.mem_append, List.mem_singleton] at hr
    rcases hr with hr | rfl
    · have := h1 r hr w hs; simp only at this ⊢; split <;> omega
    · simp [GRec.signedView] at hs; subst hs; simp only; split <;> omega
  · rw [List.pairwise_append]
    refine ⟨h2, by simp, ?_⟩
    intro a _ b' hb v1 v2 _ hvv
    simp only [List.mem_singleton] at hb; subst hb
    simp [GRec.voteView] at hvv
  · intro b' id' hm
    simp only [List.mem_append, List.mem_singleton] at hm
    rcases hm with hm | hm
    · exact h3 b' id' hm
    · cases hm

theorem InvV_adv (k : Keys) (c : RCfg) (g : List GRec) (lv a b' : Nat) (t : Bool)
    (h : InvV k c (g, lv)) : InvV k c (g ++ [.adv a b' t], lv) := by
  obtain ⟨h1, h2, h3⟩ := h
  refine ⟨?_, ?_, ?_⟩
  · intro r hr w hs
    simp only [List.mem_append, List.mem_singleton] at hr
    rcases hr with hr | rfl
    · exact h1 r hr w hs
    · simp [GRec.signedView] at hs
  · rw [List.pairwise_append]
    refine ⟨h2, by simp, ?_⟩
    intro a' _ r hb v1 v2 _ hvv
    simp only [List.mem_singleton] at hb; subst hb
    simp [GRec.voteView] at hvv
  · intro b'' id' hm
    simp only [List.mem_append, List.mem_singleton] at hm
    rcases hm with hm | hm
    · exact h3 b'' id' hm
    · cases hm

/-- results of the verifiers -/
theorem verifyQCM_spec (k : Keys) (c : RCfg) (q : QC) (x) :
    ⦃fun s => ⌜VS s = x⌝⦄ verifyQCM k c q ⦃⇓ r s => ⌜VS s = x ∧ (r = true → ∃ s0, verifyQC (env k c s0) q = true)⌝⦄ := by
  mvcgen [verifyQCM]
  all_goals simp_all +zetaDelta
  all_goals (first | exact (fun h => ⟨_, h⟩) | skip)
attribute [local spec] verifyQCM_spec

theorem verifyAggM_go_frame (k : Keys) (c : RCfg) (l : List QC) (x) :
    ⦃fun s => ⌜VS s = x⌝⦄ verifyAggM.go k c l ⦃⇓ _ s => ⌜VS s = x⌝⦄ := by
  induction l with
  | nil => mvcgen [verifyAggM.go] <;> simp_all +zetaDelta
  | cons q rest ih => mvcgen [verifyAggM.go, ih] <;> simp_all +zetaDelta

theorem verifyAggM_frame (k : Keys) (c : RCfg) (a : AggQC) (x) :
    ⦃fun s => ⌜VS s = x⌝⦄ verifyAggM k c a ⦃⇓ _ s => ⌜VS s = x⌝⦄ := by
  mvcgen [verifyAggM, verifyAggM_go_frame] <;> simp_all +zetaDelta
attribute [local spec] verifyAggM_frame

theorem verifyAnyM_spec (k : Keys) (c : RCfg) (q : QC) (agg : Option AggQC) (x) :
    ⦃fun s => ⌜VS s = x⌝⦄ verifyAnyM k c q agg
    ⦃⇓ r s => ⌜VS s = x ∧ (r = .ok () → ∃ s0, verifyQC (env k c s0) q = true)⌝⦄ := by
  mvcgen [verifyAnyM] <;> simp_all +zetaDelta
attribute [local spec] verifyAnyM_spec

theorem voterVerify_spec (k : Keys) (c : RCfg) (id : Nat) (b : Block) (agg : Option AggQC) (g lv) :
    ⦃fun s => ⌜VS s = (g, lv)⌝⦄ voterVerify k c id b agg
    ⦃⇓ r s => ⌜VS s = (g, lv) ∧ (r = .ok () → lv < b.view ∧ Facts k c b id)⌝⦄ := by
  mvcgen [voterVerify] <;> simp_all +zetaDelta [Facts]
attribute [local spec] voterVerify_spec

theorem verifySyncInfo_frame (k : Keys) (c : RCfg) (si : SyncInfo) (x) :
    ⦃fun s => ⌜VS s = x⌝⦄ verifySyncInfo k c si ⦃⇓ _ s => ⌜VS s = x⌝⦄ := by
  mvcgen [verifySyncInfo] <;> simp_all +zetaDelta

theorem voteFor_vs (c : RCfg) (b : Block) (id : Nat) (g lv) :
    ⦃fun s => ⌜VS s = (g, lv)⌝⦄ voteFor c b id ⦃⇓ _ s => ⌜VS s = (g ++ [.vote b id], b.view)⌝⦄ := by
  mvcgen [voteFor] <;> simp_all +zetaDelta

end Frames
end HsVerif.Model
