import HsVerif.Proofs.Cert
/-! Completeness half of C02: certificates honestly assembled with `Combine` verify. -/
set_option linter.unusedSimpArgs false
namespace HsVerif.Model
open Bitfield

/-- what `Sign` of replica `i` over `m` returns under configuration `c` -/
def HonestSig (T : Truth) (c : Cfg) (i : Nat) (m : Msg) (s : Sig) : Prop :=
  (c.scheme ≠ .bls12 ∧ ∃ b, s = .multi c.scheme [⟨i, b⟩] ∧ T b = some ⟨i, m⟩) ∨
  (c.scheme = .bls12 ∧ s = blsSign i m)

theorem ids_single (i : Nat) (hi : 1 ≤ i) : (Bitfield.empty.add i).ids = [i] := by
  have hm : ∀ j, j ∈ (Bitfield.empty.add i).ids ↔ j = i := by
    intro j; rw [mem_ids_add _ _ _ hi]; simp [Bitfield.empty, ids, idsOf]
  have hn : (Bitfield.empty.add i).ids.Nodup := idsOf_nodup _
  have : (Bitfield.empty.add i).ids.Perm [i] := by
    rw [List.perm_ext_iff_of_nodup hn (by simp)]
    intro j; rw [hm]; simp
  exact List.perm_singleton.mp this

theorem blsCombineOne_complete : ∀ (xs : List Nat) (acc : Bitfield), (∀ x ∈ xs, 1 ≤ x) → xs.Nodup →
    (∀ x ∈ xs, x ∉ acc.ids) → ∃ r, blsCombineOne acc xs = some r := by
  intro xs
  induction xs with
  | nil => intro acc _ _ _; exact ⟨acc, rfl⟩
  | cons x xs ih =>
    intro acc h1 hn hd
    have hx1 : 1 ≤ x := h1 x (by simp)
    have hc : acc.contains x = false := by
      rw [contains_eq acc x hx1]; simpa using hd x (by simp)
    unfold blsCombineOne
    simp only [hc, Bool.false_eq_true, ↓reduceIte]
    rw [List.nodup_cons] at hn
    apply ih (acc.add x) (fun y hy => h1 y (by simp [hy])) hn.2
    intro y hy
    rw [mem_ids_add _ _ _ hx1]
    rintro (rfl | h)
    · exact hn.1 hy
    · exact hd y (by simp [hy]) h

theorem blsCombineAux_complete (g : Nat → Bitfield) : ∀ (signers : List Nat) (acc : Bitfield), Inv acc → (∀ x ∈ signers, 1 ≤ x) →
    signers.Nodup → (∀ x ∈ signers, x ∉ acc.ids) → (∀ x ∈ signers, (g x).ids = [x]) →
    ∃ r, blsCombineAux acc (signers.map g) = some r := by
  intro signers
  induction signers with
  | nil => intro acc _ _ _ _ _; exact ⟨acc, rfl⟩
  | cons i rest ih =>
    intro acc hi h1 hn hd hg
    have hi1 : 1 ≤ i := h1 i (by simp)
    simp only [List.map_cons, blsCombineAux, hg i (by simp)]
    obtain ⟨r1, hr1⟩ := blsCombineOne_complete [i] acc (by simpa using hi1) (by simp) (by simpa using hd i (by simp))
    rw [hr1]
    obtain ⟨hinv, hmem⟩ := blsCombineOne_spec [i] acc r1 hr1 hi (by simpa using hi1)
    rw [List.nodup_cons] at hn
    apply ih r1 hinv (fun y hy => h1 y (by simp [hy])) hn.2 ?_ (fun y hy => hg y (by simp [hy]))
    intro y hy
    rw [hmem]
    rintro (h | h)
    · exact hd y (by simp [hy]) h
    · simp at h; subst h; exact hn.1 hy

theorem multiAppendE_single (acc : List Entry) (e : Entry) (h : e.claimed ∉ acc.map (·.claimed)) :
    multiAppendE acc [e] = some (acc ++ [e]) := by
  have : (acc.map (·.claimed)).contains e.claimed = false := by
    rw [List.contains_eq_mem]; exact decide_eq_false h
  unfold multiAppendE
  simp only [this, Bool.false_eq_true, ↓reduceIte]
  rfl

theorem multiCombineE_singletons : ∀ (es acc : List Entry), ((acc ++ es).map (·.claimed)).Nodup →
    multiCombineE acc (es.map fun e => [e]) = some (acc ++ es) := by
  intro es
  induction es with
  | nil => intro acc _; simp [multiCombineE]
  | cons e es ih =>
    intro acc hn
    have hne : e.claimed ∉ acc.map (·.claimed) := by
      intro hm
      simp only [List.map_append, List.map_cons] at hn
      rw [List.nodup_append] at hn
      exact hn.2.2 _ hm _ (by simp) rfl
    simp only [List.map_cons, multiCombineE, multiAppendE_single acc e hne]
    have := ih (acc ++ [e]) (by simpa using hn)
    simpa using this

theorem allMulti_singletons (k : Scheme) (es : List Entry) :
    allMulti k (es.map fun e => Sig.multi k [e]) = some (es.map fun e => [e]) := by
  induction es with
  | nil => rfl
  | cons e es ih => simp [allMulti, ih]

theorem allBls_signs (g : Nat → Bitfield) (signers : List Nat) (m : Msg) :
    allBls (signers.map fun i => Sig.bls [(⟨i, m⟩ : Atom)] [] (g i)) =
      some (signers.map fun i => ([(⟨i, m⟩ : Atom)], [], g i)) := by
  induction signers with
  | nil => rfl
  | cons i is ih => simp only [List.map_cons, allBls, ih, Option.map_some]

theorem hasDup_of_nodup {l : List Nat} (h : l.Nodup) : hasDup l = false := by
  induction l with
  | nil => rfl
  | cons x xs ih =>
    rw [List.nodup_cons] at h
    simp [hasDup, ih h.2, h.1]

theorem flatMap_atoms (m : Msg) (l : List Nat) :
    List.flatMap (fun a => [({ signer := a, msg := m } : Atom)]) l = List.map (fun i => ({ signer := i, msg := m } : Atom)) l := by
  induction l with
  | nil => rfl
  | cons _ _ ih => simp [List.flatMap_cons, ih]

theorem flatMap_nil (l : List Nat) : List.flatMap (fun (_ : Nat) => ([] : List Nat)) l = [] := by
  induction l with
  | nil => rfl
  | cons _ _ ih => simp [List.flatMap_cons, ih]

/-- a valid signature of exactly replica `i` over `m`, in the shape the verifier accepts: one
genuine entry attributed to `i` (ECDSA/EdDSA), or the single atom with a bit-field whose only
member is `i` (BLS; the bit-field's byte length is immaterial) -/
def SingleSig (T : Truth) (c : Cfg) (i : Nat) (m : Msg) (s : Sig) (bits : Bitfield) : Prop :=
  (c.scheme ≠ .bls12 ∧ ∃ b, s = .multi c.scheme [⟨i, b⟩] ∧ T b = some ⟨i, m⟩) ∨
  (c.scheme = .bls12 ∧ s = .bls [⟨i, m⟩] [] bits ∧ bits.ids = [i])

theorem honest_single (T : Truth) (c : Cfg) (i : Nat) (m : Msg) (s : Sig) (hi : 1 ≤ i)
    (h : HonestSig T c i m s) : SingleSig T c i m s (Bitfield.empty.add i) := by
  rcases h with h | ⟨h1, h2⟩
  · exact Or.inl h
  · exact Or.inr ⟨h1, h2, ids_single i hi⟩

/-- Valid single signatures of distinct configured replicas (at least two) over one message
combine, and the combination verifies at every replica with the same configuration. -/
theorem combine_single_verifies (T : Truth) (c : Cfg) (m : Msg) (signers : List Nat) (f : Nat → Sig) (g : Nat → Bitfield)
    (hn : signers.Nodup) (hh : ∀ i ∈ signers, c.has i = true) (h2 : 2 ≤ signers.length)
    (hs : ∀ i ∈ signers, SingleSig T c i m (f i) (g i)) :
    ∃ s, combine c (signers.map f) = .ok s ∧ verify T c s m = true ∧ s.len = signers.length ∧ s.WF := by
  have hlen : (signers.map f).length = signers.length := by simp
  by_cases hb : c.scheme = .bls12
  · -- BLS
    have hsig : signers.map f = signers.map fun i => Sig.bls [(⟨i, m⟩ : Atom)] [] (g i) := by
      apply List.map_congr_left
      intro i hi
      rcases hs i hi with ⟨h, _⟩ | ⟨_, h, _⟩
      · exact absurd hb h
      · exact h
    have hgi : ∀ i ∈ signers, (g i).ids = [i] := by
      intro i hi
      rcases hs i hi with ⟨h, _⟩ | ⟨_, _, h⟩
      · exact absurd hb h
      · exact h
    have h1 : ∀ x ∈ signers, 1 ≤ x := by
      intro x hx; have := hh x hx; simp [Cfg.has] at this; exact this.1
    obtain ⟨bits, hbits⟩ := blsCombineAux_complete g signers Bitfield.empty inv_empty h1 hn
      (by intro x _; simp [Bitfield.empty, ids, idsOf]) hgi
    obtain ⟨hinv, hmem⟩ := blsCombineAux_spec _ _ _ hbits inv_empty
    have hmem' : ∀ j, j ∈ bits.ids ↔ j ∈ signers := by
      intro j; rw [hmem]
      have he : ¬ j ∈ Bitfield.empty.ids := by simp [Bitfield.empty, ids, idsOf]
      constructor
      · rintro (h | ⟨s, hs', hj⟩)
        · exact absurd h he
        · obtain ⟨a, ha, rfl⟩ := List.mem_map.mp hs'
          rw [hgi a ha] at hj
          simp at hj; subst hj; exact ha
      · intro hj
        exact Or.inr ⟨g j, List.mem_map.mpr ⟨j, hj, rfl⟩, by rw [hgi j hj]; simp⟩
    have hnd : bits.ids.Nodup := idsOf_nodup _
    have hperm : bits.ids.Perm signers := by
      rw [List.perm_ext_iff_of_nodup hnd hn]; exact hmem'
    have hl : bits.len = signers.length := by rw [hinv, hperm.length_eq]
    refine ⟨.bls (signers.map fun i => ⟨i, m⟩) [] bits, ?_, ?_, by simp [Sig.len, hl], hinv⟩
    · unfold combine
      have : ¬ (signers.map f).length < 2 := by omega
      simp only [this, ↓reduceIte, hb, hsig, allBls_signs g]
      simp only [List.map_map, Function.comp_def, hbits]
      have hlt : ¬ signers.length < 2 := by omega
      have e1 := flatMap_atoms m signers
      have e2 := flatMap_nil signers
      simp [hlt, List.flatMap_map, e1, e2]
    · have hne : bits.len ≠ 0 := by omega
      have hne1 : (bits.len == 1) = false := by simp; omega
      simp only [verify, hb, hne1]
      simp only [beq_self_eq_true, bne_iff_ne, ne_eq, hne, not_false_eq_true, decide_true, Bool.true_and,
        Bool.false_eq_true, ↓reduceIte, List.isEmpty_nil, Bool.and_true, Bool.and_eq_true, List.all_eq_true]
      simp only [true_and]
      refine ⟨fun x hx => hh x ((hmem' x).mp hx), ?_⟩
      rw [List.isPerm_iff]
      exact (hperm.map _).symm
  · -- ECDSA / EdDSA
    have hex : ∀ (l : List Nat), (∀ i ∈ l, SingleSig T c i m (f i) (g i)) →
        ∃ es : List Entry, l.map f = es.map (fun e => Sig.multi c.scheme [e]) ∧ es.map (·.claimed) = l ∧
        ∀ e ∈ es, T e.bytes = some ⟨e.claimed, m⟩ := by
      intro l
      induction l with
      | nil => intro _; exact ⟨[], rfl, rfl, by simp⟩
      | cons i l ih =>
        intro hl
        obtain ⟨es, h1, h2, h3⟩ := ih (fun j hj => hl j (by simp [hj]))
        rcases hl i (by simp) with ⟨_, b, hfi, hT⟩ | ⟨h, _⟩
        · refine ⟨⟨i, b⟩ :: es, by simp [h1, hfi], by simp [h2], ?_⟩
          intro e he
          simp only [List.mem_cons] at he
          rcases he with rfl | he
          · exact hT
          · exact h3 e he
        · exact absurd h hb
    obtain ⟨es, hsig, hcl, hT⟩ := hex signers hs
    rw [hsig]
    have hesl : es.length = signers.length := by rw [← hcl]; simp
    refine ⟨.multi c.scheme es, ?_, ?_, by simp [Sig.len, hesl], trivial⟩
    · unfold combine
      have : ¬ (es.map fun e => Sig.multi c.scheme [e]).length < 2 := by simp; omega
      simp only [this, ↓reduceIte]
      have hcomb := multiCombineE_singletons es [] (by simpa [hcl] using hn)
      cases hk : c.scheme with
      | bls12 => exact absurd hk hb
      | ecdsa => simp only [hk] at *; simp [allMulti_singletons, hcomb]
      | eddsa => simp only [hk] at *; simp [allMulti_singletons, hcomb]
    · simp only [verify, beq_self_eq_true, Bool.true_and, Bool.and_eq_true, bne_iff_ne, ne_eq, decide_eq_true_eq,
        Bool.not_eq_true', List.all_eq_true]
      refine ⟨⟨⟨?_, ?_⟩, ?_⟩, ?_⟩
      · simpa using hb
      · cases es with
        | nil => simp at hesl; omega
        | cons _ _ => rfl
      · rw [hcl]; exact hasDup_of_nodup hn
      · intro e he
        simp only [verifySingle, Bool.and_eq_true, beq_iff_eq]
        refine ⟨hh _ (by rw [← hcl]; exact List.mem_map_of_mem he), hT e he⟩

/-- Honest `Sign` outputs are a special case. -/
theorem combine_honest_verifies (T : Truth) (c : Cfg) (m : Msg) (signers : List Nat) (f : Nat → Sig)
    (hn : signers.Nodup) (hh : ∀ i ∈ signers, c.has i = true) (h2 : 2 ≤ signers.length)
    (hs : ∀ i ∈ signers, HonestSig T c i m (f i)) :
    ∃ s, combine c (signers.map f) = .ok s ∧ verify T c s m = true ∧ s.len = signers.length ∧ s.WF := by
  apply combine_single_verifies T c m signers f (fun i => Bitfield.empty.add i) hn hh h2
  intro i hi
  have : 1 ≤ i := by have := hh i hi; simp [Cfg.has] at this; exact this.1
  exact honest_single T c i m (f i) this (hs i hi)

/-- What the verifier accepts as the signature of exactly one replica `i` is a `SingleSig`. -/
theorem single_of_verify (T : Truth) (c : Cfg) (i : Nat) (m : Msg) (s : Sig)
    (hw : s.WF) (hl : s.len = 1) (hp : s.participants = [i]) (hv : verify T c s m = true) :
    ∃ bits, SingleSig T c i m s bits := by
  cases s with
  | multi k es =>
    refine ⟨Bitfield.empty, Or.inl ?_⟩
    simp only [verify, Bool.and_eq_true, Bool.not_eq_true', List.all_eq_true, beq_iff_eq, bne_iff_ne, ne_eq] at hv
    obtain ⟨⟨⟨⟨hk, hnb⟩, _⟩, _⟩, hall⟩ := hv
    match es, hl, hp with
    | [e], _, hp =>
      simp only [Sig.participants, List.map_cons, List.map_nil, List.cons.injEq, and_true] at hp
      have := hall e (by simp)
      simp only [verifySingle, Bool.and_eq_true, beq_iff_eq] at this
      subst hk
      have hpe : e.claimed = i := by assumption
      refine ⟨by simpa using hnb, e.bytes, ?_, by rw [← hpe]; exact this.2⟩
      cases e; simp_all
  | bls a j bits =>
    refine ⟨bits, Or.inr ?_⟩
    simp only [Sig.WF] at hw
    simp only [Sig.len] at hl
    simp only [Sig.participants] at hp
    simp only [verify, Bool.and_eq_true, bne_iff_ne, ne_eq, beq_iff_eq, hl] at hv
    obtain ⟨⟨hsch, _⟩, hrest⟩ := hv
    simp only [↓reduceIte, Bool.and_eq_true] at hrest
    have hf : bits.first = i := by simp [Bitfield.first, hp]
    rw [hf] at hrest
    have ha : a = [⟨i, m⟩] := List.perm_singleton.mp (List.isPerm_iff.mp hrest.2)
    have hj : j = [] := by simpa using hrest.1.2
    exact ⟨hsch, by rw [ha, hj], hp⟩

end HsVerif.Model
