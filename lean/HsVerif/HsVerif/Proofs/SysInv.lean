import HsVerif.Proofs.ReplicaFresh
import HsVerif.Props.C03
import HsVerif.Model.Sys
/-!
Invariants of the system of replica models (Model/Sys.lean), by induction over `Reach`:
honest signatures over block messages are unforgeable (every such entry of the global table has its
vote record in the signer's ghost history), and every honest replica keeps the vote discipline
`Inv3`.  The per-replica ingredients are `step_sig` / `start_sig` (Proofs/ReplicaSig.lean) and
`step_inv` / `start_inv` (Props/C03.lean).  Separately (`reach_fresh`, from `step_fresh` /
`start_fresh` of Proofs/ReplicaFresh.lean): byte ids of the global table are pairwise distinct and
below `nextBytes`, so a lookup finds exactly the entries of the table.
-/
namespace HsVerif.Model
open HsVerif.Props

theorem lookup_setKV_self {α} (i : Nat) (v : α) (l : List (Nat × α)) : (setKV i v l).lookup i = some v := by
  induction l with
  | nil => simp [setKV]
  | cons a l ih =>
    obtain ⟨j, w⟩ := a
    simp only [setKV]
    by_cases h : j = i
    · subst h; simp
    · have h' : (i == j) = false := by simp; omega
      simp [h, List.lookup, h', ih]

theorem lookup_setKV_ne {α} (i j : Nat) (v : α) (l : List (Nat × α)) (hne : j ≠ i) :
    (setKV i v l).lookup j = l.lookup j := by
  induction l with
  | nil =>
    have h' : (j == i) = false := by simp; omega
    simp [setKV, List.lookup, h']
  | cons a l ih =>
    obtain ⟨j', w⟩ := a
    simp only [setKV]
    by_cases h : j' = i
    · subst h
      have h' : (j == j') = false := by simp; omega
      simp [List.lookup, h']
    · simp only [beq_iff_eq, h, ↓reduceIte, List.lookup]
      split <;> simp_all

theorem lookup_init {α} (v : α) (l : List Nat) (i : Nat) :
    (l.map (fun i => (i, v))).lookup i = if i ∈ l then some v else none := by
  induction l with
  | nil => simp
  | cons a l ih =>
    simp only [List.map_cons, List.lookup, List.mem_cons]
    by_cases h : i = a
    · subst h; simp
    · have h' : (i == a) = false := by simp; omega
      simp [h', ih, h]

/-- **Unforgeability of honest votes**: an entry of the global signature table under an honest id
over a block message `blkMsg h` has its vote record in that replica's ghost history. -/
def Unforgeable (C : SysCfg) (σ : SysState) : Prop :=
  ∀ p ∈ σ.truth, p.2.signer ∈ C.honest → ∀ h, p.2.msg = blkMsg h →
    ∃ s, σ.reps.lookup p.2.signer = some s ∧ ∃ b id, b.hash = h ∧ GRec.vote b id ∈ s.ghost

structure SysInv (k : Keys) (C : SysCfg) (σ : SysState) : Prop where
  dom : ∀ i ∈ C.honest, ∃ s, σ.reps.lookup i = some s
  dom' : ∀ i s, σ.reps.lookup i = some s → i ∈ C.honest
  unf : Unforgeable C σ
  inv3 : ∀ i s, σ.reps.lookup i = some s → Inv3 k (C.rcfg i) s

theorem sysInit_inv (k : Keys) (C : SysCfg) : SysInv k C (sysInit k C) := by
  refine ⟨?_, ?_, ?_, ?_⟩
  · intro i hi
    exact ⟨{}, by simp [sysInit, lookup_init, hi]⟩
  · intro i s h
    simp only [sysInit, lookup_init] at h
    split at h
    · assumption
    · cases h
  · intro p hp; simp [sysInit] at hp
  · intro i s h
    simp only [sysInit, lookup_init] at h
    split at h
    · cases h; exact InvV_init k _
    · cases h

/-- replacing the state of replica `i` and the table: the new state keeps `Inv3`, and every entry
of the new table is an old entry of somebody else or an entry of `i` with its vote record -/
theorem sys_set_inv (k : Keys) (C : SysCfg) (σ : SysState) (i : Nat) (s s' : RState) (t' : List (Nat × Atom)) (nb : Nat)
    (h : SysInv k C σ) (hl : σ.reps.lookup i = some s) (h3 : Inv3 k (C.rcfg i) s')
    (ht : ∀ p ∈ t', (p ∈ σ.truth ∧ p.2.signer ≠ i) ∨
      (p.2.signer = i ∧ ∀ h, p.2.msg = blkMsg h → ∃ b id, b.hash = h ∧ GRec.vote b id ∈ s'.ghost)) :
    SysInv k C { reps := setKV i s' σ.reps, truth := t', nextBytes := nb } := by
  refine ⟨?_, ?_, ?_, ?_⟩
  · intro j hj
    by_cases hji : j = i
    · subst hji; exact ⟨s', lookup_setKV_self _ _ _⟩
    · simp only [lookup_setKV_ne _ _ _ _ hji]; exact h.dom j hj
  · intro j sj hj
    by_cases hji : j = i
    · subst hji; exact h.dom' _ _ hl
    · simp only [lookup_setKV_ne _ _ _ _ hji] at hj; exact h.dom' _ _ hj
  · intro p hp hh hsh e
    rcases ht p hp with ⟨hpo, hne⟩ | ⟨heq, hv⟩
    · obtain ⟨s1, hs1, hv⟩ := h.unf p hpo hh hsh e
      refine ⟨s1, ?_, hv⟩
      simp only [lookup_setKV_ne _ _ _ _ hne]; exact hs1
    · refine ⟨s', ?_, hv hsh e⟩
      simp only [heq]; exact lookup_setKV_self _ _ _
  · intro j sj hj
    by_cases hji : j = i
    · subst hji
      simp only [lookup_setKV_self] at hj
      cases hj; exact h3
    · simp only [lookup_setKV_ne _ _ _ _ hji] at hj; exact h.inv3 _ _ hj

/-- replica `i` runs a computation that keeps `SigInv` (for every initial table) and `Inv3` -/
theorem sys_run_inv (k : Keys) (C : SysCfg) (σ : SysState) (i : Nat) (f : RState → RState × List Out)
    (hsig : ∀ x s, SigInv k (C.rcfg i) x s → SigInv k (C.rcfg i) x (f s).1)
    (hinv : ∀ s, Inv3 k (C.rcfg i) s → Inv3 k (C.rcfg i) (f s).1)
    (h : SysInv k C σ) : SysInv k C (σ.run i f) := by
  unfold SysState.run
  split
  · exact h
  · rename_i s hl
    have hi : i ∈ C.honest := h.dom' _ _ hl
    have h3 : Inv3 k (C.rcfg i) { s with truth := σ.truth, nextBytes := σ.nextBytes } :=
      (h.inv3 i s hl : Inv3 k (C.rcfg i) s)
    -- the initial table: everything signed by somebody else
    have hpre : SigInv k (C.rcfg i) (σ.truth.filter (fun p => p.2.signer != i))
        { s with truth := σ.truth, nextBytes := σ.nextBytes } := by
      intro p hp
      by_cases hs : p.2.signer = i
      · refine Or.inr ⟨hs, fun hh e => ?_⟩
        obtain ⟨s1, hs1, hv⟩ := h.unf p hp (hs ▸ hi) hh e
        rw [hs, hl] at hs1
        cases hs1; exact hv
      · exact Or.inl (List.mem_filter.mpr ⟨hp, by simpa using hs⟩)
    have hpost := hsig _ _ hpre
    refine sys_set_inv k C σ i s _ _ _ h hl (hinv _ h3) ?_
    intro p hp
    rcases hpost p hp with hx | hown
    · have := List.mem_filter.mp hx
      exact Or.inl ⟨this.1, by simpa using this.2⟩
    · exact Or.inr hown

theorem sysStep_inv (k : Keys) (C : SysCfg) (hk : ∀ i v q h, k.tmo i v q ≠ blkMsg h) (σ : SysState) (a : SysAct)
    (h : SysInv k C σ) : SysInv k C (sysStep k C σ a) := by
  cases a with
  | start i =>
    exact sys_run_inv k C σ i _ (fun x s => start_sig k _ hk x s) (fun s => C03.start_inv k _ s) h
  | deliver i e =>
    exact sys_run_inv k C σ i _ (fun x s => step_sig k _ hk x s e) (fun s => C03.step_inv k _ s e) h
  | fetchable i l =>
    simp only [sysStep]
    split
    · exact h
    · rename_i s hl
      refine sys_set_inv k C σ i s _ σ.truth σ.nextBytes h hl (h.inv3 i s hl : Inv3 k (C.rcfg i) s) ?_
      intro p hp
      by_cases hs : p.2.signer = i
      · refine Or.inr ⟨hs, fun hh e => ?_⟩
        obtain ⟨s1, hs1, hv⟩ := h.unf p hp (hs ▸ h.dom' _ _ hl) hh e
        rw [hs, hl] at hs1
        cases hs1; exact hv
      · exact Or.inl ⟨hp, hs⟩
  | forge a =>
    simp only [sysStep]
    split
    · exact h
    · rename_i hc
      refine ⟨h.dom, h.dom', ?_, h.inv3⟩
      intro p hp hh
      rcases List.mem_cons.mp hp with rfl | hp
      · exact absurd (List.contains_iff_mem.mpr hh) hc
      · exact h.unf p hp hh

theorem reach_inv (k : Keys) (C : SysCfg) (hk : ∀ i v q h, k.tmo i v q ≠ blkMsg h) (σ : SysState)
    (h : Reach k C σ) : SysInv k C σ := by
  induction h with
  | init => exact sysInit_inv k C
  | step σ a _ ih => exact sysStep_inv k C hk σ a ih

/-! freshness of byte ids in the global table -/

theorem sysStep_fresh (k : Keys) (C : SysCfg) (σ : SysState) (a : SysAct)
    (h : FreshL σ.truth σ.nextBytes) : FreshL (sysStep k C σ a).truth (sysStep k C σ a).nextBytes := by
  have hrun : ∀ i (f : RState → RState × List Out), (∀ s, FreshS s → FreshS (f s).1) →
      FreshL (σ.run i f).truth (σ.run i f).nextBytes := by
    intro i f hf
    unfold SysState.run
    split
    · exact h
    · rename_i s _
      exact hf { s with truth := σ.truth, nextBytes := σ.nextBytes } h
  cases a with
  | start i => exact hrun i _ (fun s => start_fresh k _ s)
  | deliver i e => exact hrun i _ (fun s => step_fresh k _ s e)
  | fetchable i l =>
    simp only [sysStep]
    split <;> exact h
  | forge a =>
    simp only [sysStep]
    split
    · exact h
    · exact h.cons a

/-- byte ids of the global table are pairwise distinct and below `nextBytes` -/
theorem reach_fresh (k : Keys) (C : SysCfg) (σ : SysState) (h : Reach k C σ) : FreshL σ.truth σ.nextBytes := by
  induction h with
  | init => exact FreshL.nil _
  | step σ a _ ih => exact sysStep_fresh k C σ a ih

theorem reach_run (k : Keys) (C : SysCfg) (acts : List SysAct) : Reach k C (sysRun k C acts) := by
  unfold sysRun
  suffices ∀ σ, Reach k C σ → Reach k C (acts.foldl (sysStep k C) σ) from this _ .init
  induction acts with
  | nil => intro σ h; exact h
  | cons a as ih => intro σ h; exact ih _ (.step σ a h)

theorem reach_iff_run (k : Keys) (C : SysCfg) (σ : SysState) : Reach k C σ ↔ ∃ acts, σ = sysRun k C acts := by
  constructor
  · intro h
    induction h with
    | init => exact ⟨[], rfl⟩
    | step σ a _ ih =>
      obtain ⟨acts, rfl⟩ := ih
      exact ⟨acts ++ [a], by simp [sysRun, List.foldl_append]⟩
  · rintro ⟨acts, rfl⟩; exact reach_run k C acts

end HsVerif.Model
