import HsVerif.Proofs.ReplicaPair
/-!
The effects of a handler are only ever appended: what has been emitted stays emitted, in order
(`OutPre x s`: `x` is a prefix of `s.out`), for every handler of the replica model up to `runLoop`.
Frames GENERATED from the lock frames (Proofs/ReplicaLock.lean) by textual substitution
`_lk → _op`, `x ≤ s.lock.view → OutPre x s`, `lock_finish → op_finish`.  Used by C05 (progress):
an effect emitted by the first handler of a step is among the effects of the whole step.
-/
open Std.Do
set_option mvcgen.warning false
set_option linter.unusedSimpArgs false
namespace HsVerif.Model

/-- `x` is a prefix of the effects emitted so far -/
def OutPre (x : List Out) (s : RState) : Prop := ∃ t, s.out = x ++ t

theorem outPre_iff (x : List Out) (s : RState) : OutPre x s ↔ ∃ t, s.out = x ++ t := Iff.rfl

theorem OutPre.snoc {x : List Out} {o : List Out} (l : List Out) (h : ∃ t, o = x ++ t) : ∃ t, o ++ l = x ++ t := by
  obtain ⟨t, ht⟩ := h
  exact ⟨t ++ l, by rw [ht, List.append_assoc]⟩

/-- closes the verification conditions of an `OutPre` frame -/
macro "op_finish" : tactic => `(tactic| (
  (try intros)
  (try simp +zetaDelta [outPre_iff] at *)
  (first
    | done
    | assumption
    | (exact OutPre.snoc _ (by assumption))
    | (simp_all; done)
    | skip)))

section OutFrames
theorem emit_op (o : Out) (x : List Out) :
    ⦃fun s => ⌜OutPre x s⌝⦄ emit o ⦃⇓ _ s => ⌜OutPre x s⌝⦄ := by
  mvcgen [emit]  <;> op_finish
attribute [local spec] emit_op

theorem addEvent_op (e : Ev) (x : List Out) :
    ⦃fun s => ⌜OutPre x s⌝⦄ addEvent e ⦃⇓ _ s => ⌜OutPre x s⌝⦄ := by
  mvcgen [addEvent]  <;> op_finish
attribute [local spec] addEvent_op

theorem getBlock_op (h : Hash) (x : List Out) :
    ⦃fun s => ⌜OutPre x s⌝⦄ getBlock h ⦃⇓ _ s => ⌜OutPre x s⌝⦄ := by
  mvcgen [getBlock]  <;> op_finish
attribute [local spec] getBlock_op

theorem fetchFor_op (h : Hash) (x : List Out) :
    ⦃fun s => ⌜OutPre x s⌝⦄ fetchFor h ⦃⇓ _ s => ⌜OutPre x s⌝⦄ := by
  mvcgen [fetchFor]  <;> op_finish
attribute [local spec] fetchFor_op

theorem signMsg_op (c : RCfg) (m : Msg) (x : List Out) :
    ⦃fun s => ⌜OutPre x s⌝⦄ signMsg c m ⦃⇓ _ s => ⌜OutPre x s⌝⦄ := by
  mvcgen [signMsg]  <;> op_finish
attribute [local spec] signMsg_op

theorem verifyQCM_op (k : Keys) (c : RCfg) (q : QC) (x : List Out) :
    ⦃fun s => ⌜OutPre x s⌝⦄ verifyQCM k c q ⦃⇓ _ s => ⌜OutPre x s⌝⦄ := by
  mvcgen [verifyQCM]  <;> op_finish
attribute [local spec] verifyQCM_op

theorem verifyTCM_op (k : Keys) (c : RCfg) (t : TC) (x : List Out) :
    ⦃fun s => ⌜OutPre x s⌝⦄ verifyTCM k c t ⦃⇓ _ s => ⌜OutPre x s⌝⦄ := by
  mvcgen [verifyTCM]  <;> op_finish
attribute [local spec] verifyTCM_op

theorem qcRef_op (q : QC) (x : List Out) :
    ⦃fun s => ⌜OutPre x s⌝⦄ qcRef q ⦃⇓ _ s => ⌜OutPre x s⌝⦄ := by
  mvcgen [qcRef]  <;> op_finish
attribute [local spec] qcRef_op

theorem extendsM_op (b t : Block) (x : List Out) :
    ⦃fun s => ⌜OutPre x s⌝⦄ extendsM b t ⦃⇓ _ s => ⌜OutPre x s⌝⦄ := by
  mvcgen [extendsM]  <;> op_finish
attribute [local spec] extendsM_op

theorem voteRule_op (c : RCfg) (v : Nat) (b : Block) (agg : Option AggQC) (x : List Out) :
    ⦃fun s => ⌜OutPre x s⌝⦄ voteRule c v b agg ⦃⇓ _ s => ⌜OutPre x s⌝⦄ := by
  mvcgen [voteRule]  <;> op_finish
attribute [local spec] voteRule_op

theorem commitRule_op (c : RCfg) (b : Block) (x : List Out) :
    ⦃fun s => ⌜OutPre x s⌝⦄ commitRule c b ⦃⇓ _ s => ⌜OutPre x s⌝⦄ := by
  mvcgen [commitRule] <;> op_finish
attribute [local spec] commitRule_op

theorem commitInner_op (fuel : Nat) (b : Block) (x : List Out) :
    ⦃fun s => ⌜OutPre x s⌝⦄ commitInner fuel b ⦃⇓ _ s => ⌜OutPre x s⌝⦄ := by
  induction fuel generalizing b with
  | zero => mvcgen [commitInner]  <;> op_finish
  | succ n ih => mvcgen [commitInner, ih]  <;> op_finish
attribute [local spec] commitInner_op

theorem tryCommit_op (c : RCfg) (b : Block) (x : List Out) :
    ⦃fun s => ⌜OutPre x s⌝⦄ tryCommit c b ⦃⇓ _ s => ⌜OutPre x s⌝⦄ := by
  mvcgen [tryCommit]
  case inv1 => exact ⇓ _ s => ⌜OutPre x s⌝
  all_goals op_finish
attribute [local spec] tryCommit_op

theorem votesCleanup_op  (x : List Out) :
    ⦃fun s => ⌜OutPre x s⌝⦄ votesCleanup ⦃⇓ _ s => ⌜OutPre x s⌝⦄ := by
  mvcgen [votesCleanup]  <;> op_finish
attribute [local spec] votesCleanup_op

theorem collectVote_op (k : Keys) (c : RCfg) (id : Nat) (sig : Option Sig) (h : Hash) (d : Bool) (x : List Out) :
    ⦃fun s => ⌜OutPre x s⌝⦄ collectVote k c id sig h d ⦃⇓ _ s => ⌜OutPre x s⌝⦄ := by
  mvcgen [collectVote]  <;> op_finish
attribute [local spec] collectVote_op

theorem aggregateVote_op (k : Keys) (c : RCfg) (b : Block) (sg : Sig) (x : List Out) :
    ⦃fun s => ⌜OutPre x s⌝⦄ aggregateVote k c b sg ⦃⇓ _ s => ⌜OutPre x s⌝⦄ := by
  mvcgen [aggregateVote]  <;> op_finish
attribute [local spec] aggregateVote_op

theorem markProposed_op (fuel : Nat) (b : Block) (x : List Out) :
    ⦃fun s => ⌜OutPre x s⌝⦄ markProposed fuel b ⦃⇓ _ s => ⌜OutPre x s⌝⦄ := by
  induction fuel generalizing b with
  | zero => mvcgen [markProposed]  <;> op_finish
  | succ n ih => mvcgen [markProposed, ih]  <;> op_finish
attribute [local spec] markProposed_op

theorem verifyAggM_go_op (k : Keys) (c : RCfg) (l : List QC) (x : List Out) :
    ⦃fun s => ⌜OutPre x s⌝⦄ verifyAggM.go k c l ⦃⇓ _ s => ⌜OutPre x s⌝⦄ := by
  induction l with
  | nil => mvcgen [verifyAggM.go]  <;> op_finish
  | cons q rest ih => mvcgen [verifyAggM.go, ih]  <;> op_finish
attribute [local spec] verifyAggM_go_op

theorem verifyAggM_op (k : Keys) (c : RCfg) (a : AggQC) (x : List Out) :
    ⦃fun s => ⌜OutPre x s⌝⦄ verifyAggM k c a ⦃⇓ _ s => ⌜OutPre x s⌝⦄ := by
  mvcgen [verifyAggM]  <;> op_finish
attribute [local spec] verifyAggM_op

theorem verifyAnyM_op (k : Keys) (c : RCfg) (q : QC) (agg : Option AggQC) (x : List Out) :
    ⦃fun s => ⌜OutPre x s⌝⦄ verifyAnyM k c q agg ⦃⇓ _ s => ⌜OutPre x s⌝⦄ := by
  mvcgen [verifyAnyM]  <;> op_finish
attribute [local spec] verifyAnyM_op

theorem voterVerify_op (k : Keys) (c : RCfg) (id : Nat) (b : Block) (agg : Option AggQC) (x : List Out) :
    ⦃fun s => ⌜OutPre x s⌝⦄ voterVerify k c id b agg ⦃⇓ _ s => ⌜OutPre x s⌝⦄ := by
  mvcgen [voterVerify]  <;> op_finish
attribute [local spec] voterVerify_op

theorem voteFor_op (c : RCfg) (b : Block) (id : Nat) (x : List Out) :
    ⦃fun s => ⌜OutPre x s⌝⦄ voteFor c b id ⦃⇓ _ s => ⌜OutPre x s⌝⦄ := by
  mvcgen [voteFor] <;> op_finish
attribute [local spec] voteFor_op

theorem onValidPropose_op (k : Keys) (c : RCfg) (id : Nat) (b : Block) (x : List Out) :
    ⦃fun s => ⌜OutPre x s⌝⦄ onValidPropose k c id b ⦃⇓ _ s => ⌜OutPre x s⌝⦄ := by
  mvcgen [onValidPropose]  <;> op_finish
attribute [local spec] onValidPropose_op

theorem createAndPropose_op (k : Keys) (c : RCfg) (si : SyncInfo) (x : List Out) :
    ⦃fun s => ⌜OutPre x s⌝⦄ createAndPropose k c si ⦃⇓ _ s => ⌜OutPre x s⌝⦄ := by
  mvcgen [createAndPropose]  <;> op_finish
attribute [local spec] createAndPropose_op

theorem verifySyncInfo_op (k : Keys) (c : RCfg) (si : SyncInfo) (x : List Out) :
    ⦃fun s => ⌜OutPre x s⌝⦄ verifySyncInfo k c si ⦃⇓ _ s => ⌜OutPre x s⌝⦄ := by
  mvcgen [verifySyncInfo]  <;> op_finish
attribute [local spec] verifySyncInfo_op


theorem advanceView_op (k : Keys) (c : RCfg) (si : SyncInfo) (x : List Out) :
    ⦃fun s => ⌜OutPre x s⌝⦄ advanceView k c si ⦃⇓ _ s => ⌜OutPre x s⌝⦄ := by
  mvcgen [advanceView] <;> op_finish

theorem onRemoteTimeout_op (k : Keys) (c : RCfg) (t : TimeoutMsg) (x : List Out) :
    ⦃fun s => ⌜OutPre x s⌝⦄ onRemoteTimeout k c t ⦃⇓ _ s => ⌜OutPre x s⌝⦄ := by
  mvcgen [onRemoteTimeout, advanceView_op] <;> op_finish

theorem onLocalTimeout_op (k : Keys) (c : RCfg) (x : List Out) :
    ⦃fun s => ⌜OutPre x s⌝⦄ onLocalTimeout k c ⦃⇓ _ s => ⌜OutPre x s⌝⦄ := by
  mvcgen [onLocalTimeout, onRemoteTimeout_op] <;> op_finish

theorem onPropose_op (k : Keys) (c : RCfg) (id : Nat) (b : Block) (agg : Option AggQC) (x : List Out) :
    ⦃fun s => ⌜OutPre x s⌝⦄ onPropose k c id b agg ⦃⇓ _ s => ⌜OutPre x s⌝⦄ := by
  mvcgen [onPropose, advanceView_op] <;> op_finish

theorem tick_op (k : Keys) (c : RCfg) (x : List Out) :
    ⦃fun s => ⌜OutPre x s⌝⦄ tick k c ⦃⇓ _ s => ⌜OutPre x s⌝⦄ := by
  mvcgen [tick, onPropose_op, onRemoteTimeout_op, onLocalTimeout_op, advanceView_op] <;> op_finish

theorem runLoop_op (k : Keys) (c : RCfg) (fuel : Nat) (x : List Out) :
    ⦃fun s => ⌜OutPre x s⌝⦄ runLoop k c fuel ⦃⇓ _ s => ⌜OutPre x s⌝⦄ := by
  induction fuel with
  | zero => mvcgen [runLoop] <;> op_finish
  | succ n ih => mvcgen [runLoop, tick_op, ih] <;> op_finish

end OutFrames

/-- **Effects are only appended**: what the event loop has emitted before a run is a prefix of
what it has emitted after. -/
theorem runLoop_out_prefix (k : Keys) (c : RCfg) (fuel : Nat) (s : RState) :
    ∃ t, ((runLoop k c fuel).run s).2.out = s.out ++ t :=
  HsVerif.Proofs.run_res_of_triple (runLoop k c fuel) (fun s' => OutPre s.out s')
    (fun _ s' => OutPre s.out s') (runLoop_op k c fuel s.out) s ⟨[], by simp⟩

/-! The current view never decreases (`x ≤ s.view`); frames GENERATED from the lock frames by
`_lk → _vw`, `x ≤ s.lock.view → x ≤ s.view`. -/
section ViewFrames
theorem emit_vw (o : Out) (x : Nat) :
    ⦃fun s => ⌜x ≤ s.view⌝⦄ emit o ⦃⇓ _ s => ⌜x ≤ s.view⌝⦄ := by
  mvcgen [emit]  <;> lock_finish
attribute [local spec] emit_vw

theorem addEvent_vw (e : Ev) (x : Nat) :
    ⦃fun s => ⌜x ≤ s.view⌝⦄ addEvent e ⦃⇓ _ s => ⌜x ≤ s.view⌝⦄ := by
  mvcgen [addEvent]  <;> lock_finish
attribute [local spec] addEvent_vw

theorem getBlock_vw (h : Hash) (x : Nat) :
    ⦃fun s => ⌜x ≤ s.view⌝⦄ getBlock h ⦃⇓ _ s => ⌜x ≤ s.view⌝⦄ := by
  mvcgen [getBlock]  <;> lock_finish
attribute [local spec] getBlock_vw

theorem fetchFor_vw (h : Hash) (x : Nat) :
    ⦃fun s => ⌜x ≤ s.view⌝⦄ fetchFor h ⦃⇓ _ s => ⌜x ≤ s.view⌝⦄ := by
  mvcgen [fetchFor]  <;> lock_finish
attribute [local spec] fetchFor_vw

theorem signMsg_vw (c : RCfg) (m : Msg) (x : Nat) :
    ⦃fun s => ⌜x ≤ s.view⌝⦄ signMsg c m ⦃⇓ _ s => ⌜x ≤ s.view⌝⦄ := by
  mvcgen [signMsg]  <;> lock_finish
attribute [local spec] signMsg_vw

theorem verifyQCM_vw (k : Keys) (c : RCfg) (q : QC) (x : Nat) :
    ⦃fun s => ⌜x ≤ s.view⌝⦄ verifyQCM k c q ⦃⇓ _ s => ⌜x ≤ s.view⌝⦄ := by
  mvcgen [verifyQCM]  <;> lock_finish
attribute [local spec] verifyQCM_vw

theorem verifyTCM_vw (k : Keys) (c : RCfg) (t : TC) (x : Nat) :
    ⦃fun s => ⌜x ≤ s.view⌝⦄ verifyTCM k c t ⦃⇓ _ s => ⌜x ≤ s.view⌝⦄ := by
  mvcgen [verifyTCM]  <;> lock_finish
attribute [local spec] verifyTCM_vw

theorem qcRef_vw (q : QC) (x : Nat) :
    ⦃fun s => ⌜x ≤ s.view⌝⦄ qcRef q ⦃⇓ _ s => ⌜x ≤ s.view⌝⦄ := by
  mvcgen [qcRef]  <;> lock_finish
attribute [local spec] qcRef_vw

theorem extendsM_vw (b t : Block) (x : Nat) :
    ⦃fun s => ⌜x ≤ s.view⌝⦄ extendsM b t ⦃⇓ _ s => ⌜x ≤ s.view⌝⦄ := by
  mvcgen [extendsM]  <;> lock_finish
attribute [local spec] extendsM_vw

theorem voteRule_vw (c : RCfg) (v : Nat) (b : Block) (agg : Option AggQC) (x : Nat) :
    ⦃fun s => ⌜x ≤ s.view⌝⦄ voteRule c v b agg ⦃⇓ _ s => ⌜x ≤ s.view⌝⦄ := by
  mvcgen [voteRule]  <;> lock_finish
attribute [local spec] voteRule_vw

theorem commitRule_vw (c : RCfg) (b : Block) (x : Nat) :
    ⦃fun s => ⌜x ≤ s.view⌝⦄ commitRule c b ⦃⇓ _ s => ⌜x ≤ s.view⌝⦄ := by
  mvcgen [commitRule]
  all_goals (try intros)
  all_goals (try simp +zetaDelta at *)
  all_goals (first | done | omega | (rename_i h; split at h <;> omega) | skip)
attribute [local spec] commitRule_vw

theorem commitInner_vw (fuel : Nat) (b : Block) (x : Nat) :
    ⦃fun s => ⌜x ≤ s.view⌝⦄ commitInner fuel b ⦃⇓ _ s => ⌜x ≤ s.view⌝⦄ := by
  induction fuel generalizing b with
  | zero => mvcgen [commitInner]  <;> lock_finish
  | succ n ih => mvcgen [commitInner, ih]  <;> lock_finish
attribute [local spec] commitInner_vw

theorem tryCommit_vw (c : RCfg) (b : Block) (x : Nat) :
    ⦃fun s => ⌜x ≤ s.view⌝⦄ tryCommit c b ⦃⇓ _ s => ⌜x ≤ s.view⌝⦄ := by
  mvcgen [tryCommit]
  case inv1 => exact ⇓ _ s => ⌜x ≤ s.view⌝
  all_goals lock_finish
attribute [local spec] tryCommit_vw

theorem votesCleanup_vw  (x : Nat) :
    ⦃fun s => ⌜x ≤ s.view⌝⦄ votesCleanup ⦃⇓ _ s => ⌜x ≤ s.view⌝⦄ := by
  mvcgen [votesCleanup]  <;> lock_finish
attribute [local spec] votesCleanup_vw

theorem collectVote_vw (k : Keys) (c : RCfg) (id : Nat) (sig : Option Sig) (h : Hash) (d : Bool) (x : Nat) :
    ⦃fun s => ⌜x ≤ s.view⌝⦄ collectVote k c id sig h d ⦃⇓ _ s => ⌜x ≤ s.view⌝⦄ := by
  mvcgen [collectVote]  <;> lock_finish
attribute [local spec] collectVote_vw

theorem aggregateVote_vw (k : Keys) (c : RCfg) (b : Block) (sg : Sig) (x : Nat) :
    ⦃fun s => ⌜x ≤ s.view⌝⦄ aggregateVote k c b sg ⦃⇓ _ s => ⌜x ≤ s.view⌝⦄ := by
  mvcgen [aggregateVote]  <;> lock_finish
attribute [local spec] aggregateVote_vw

theorem markProposed_vw (fuel : Nat) (b : Block) (x : Nat) :
    ⦃fun s => ⌜x ≤ s.view⌝⦄ markProposed fuel b ⦃⇓ _ s => ⌜x ≤ s.view⌝⦄ := by
  induction fuel generalizing b with
  | zero => mvcgen [markProposed]  <;> lock_finish
  | succ n ih => mvcgen [markProposed, ih]  <;> lock_finish
attribute [local spec] markProposed_vw

theorem verifyAggM_go_vw (k : Keys) (c : RCfg) (l : List QC) (x : Nat) :
    ⦃fun s => ⌜x ≤ s.view⌝⦄ verifyAggM.go k c l ⦃⇓ _ s => ⌜x ≤ s.view⌝⦄ := by
  induction l with
  | nil => mvcgen [verifyAggM.go]  <;> lock_finish
  | cons q rest ih => mvcgen [verifyAggM.go, ih]  <;> lock_finish
attribute [local spec] verifyAggM_go_vw

theorem verifyAggM_vw (k : Keys) (c : RCfg) (a : AggQC) (x : Nat) :
    ⦃fun s => ⌜x ≤ s.view⌝⦄ verifyAggM k c a ⦃⇓ _ s => ⌜x ≤ s.view⌝⦄ := by
  mvcgen [verifyAggM]  <;> lock_finish
attribute [local spec] verifyAggM_vw

theorem verifyAnyM_vw (k : Keys) (c : RCfg) (q : QC) (agg : Option AggQC) (x : Nat) :
    ⦃fun s => ⌜x ≤ s.view⌝⦄ verifyAnyM k c q agg ⦃⇓ _ s => ⌜x ≤ s.view⌝⦄ := by
  mvcgen [verifyAnyM]  <;> lock_finish
attribute [local spec] verifyAnyM_vw

theorem voterVerify_vw (k : Keys) (c : RCfg) (id : Nat) (b : Block) (agg : Option AggQC) (x : Nat) :
    ⦃fun s => ⌜x ≤ s.view⌝⦄ voterVerify k c id b agg ⦃⇓ _ s => ⌜x ≤ s.view⌝⦄ := by
  mvcgen [voterVerify]  <;> lock_finish
attribute [local spec] voterVerify_vw

theorem voteFor_vw (c : RCfg) (b : Block) (id : Nat) (x : Nat) :
    ⦃fun s => ⌜x ≤ s.view⌝⦄ voteFor c b id ⦃⇓ _ s => ⌜x ≤ s.view⌝⦄ := by
  mvcgen [voteFor] <;> lock_finish
attribute [local spec] voteFor_vw

theorem onValidPropose_vw (k : Keys) (c : RCfg) (id : Nat) (b : Block) (x : Nat) :
    ⦃fun s => ⌜x ≤ s.view⌝⦄ onValidPropose k c id b ⦃⇓ _ s => ⌜x ≤ s.view⌝⦄ := by
  mvcgen [onValidPropose]  <;> lock_finish
attribute [local spec] onValidPropose_vw

theorem createAndPropose_vw (k : Keys) (c : RCfg) (si : SyncInfo) (x : Nat) :
    ⦃fun s => ⌜x ≤ s.view⌝⦄ createAndPropose k c si ⦃⇓ _ s => ⌜x ≤ s.view⌝⦄ := by
  mvcgen [createAndPropose]  <;> lock_finish
attribute [local spec] createAndPropose_vw

theorem verifySyncInfo_vw (k : Keys) (c : RCfg) (si : SyncInfo) (x : Nat) :
    ⦃fun s => ⌜x ≤ s.view⌝⦄ verifySyncInfo k c si ⦃⇓ _ s => ⌜x ≤ s.view⌝⦄ := by
  mvcgen [verifySyncInfo]  <;> lock_finish
attribute [local spec] verifySyncInfo_vw


theorem advanceView_vw (k : Keys) (c : RCfg) (si : SyncInfo) (x : Nat) :
    ⦃fun s => ⌜x ≤ s.view⌝⦄ advanceView k c si ⦃⇓ _ s => ⌜x ≤ s.view⌝⦄ := by
  mvcgen [advanceView] <;> lock_finish

theorem onRemoteTimeout_vw (k : Keys) (c : RCfg) (t : TimeoutMsg) (x : Nat) :
    ⦃fun s => ⌜x ≤ s.view⌝⦄ onRemoteTimeout k c t ⦃⇓ _ s => ⌜x ≤ s.view⌝⦄ := by
  mvcgen [onRemoteTimeout, advanceView_vw] <;> lock_finish

theorem onLocalTimeout_vw (k : Keys) (c : RCfg) (x : Nat) :
    ⦃fun s => ⌜x ≤ s.view⌝⦄ onLocalTimeout k c ⦃⇓ _ s => ⌜x ≤ s.view⌝⦄ := by
  mvcgen [onLocalTimeout, onRemoteTimeout_vw] <;> lock_finish

theorem onPropose_vw (k : Keys) (c : RCfg) (id : Nat) (b : Block) (agg : Option AggQC) (x : Nat) :
    ⦃fun s => ⌜x ≤ s.view⌝⦄ onPropose k c id b agg ⦃⇓ _ s => ⌜x ≤ s.view⌝⦄ := by
  mvcgen [onPropose, advanceView_vw] <;> lock_finish

theorem tick_vw (k : Keys) (c : RCfg) (x : Nat) :
    ⦃fun s => ⌜x ≤ s.view⌝⦄ tick k c ⦃⇓ _ s => ⌜x ≤ s.view⌝⦄ := by
  mvcgen [tick, onPropose_vw, onRemoteTimeout_vw, onLocalTimeout_vw, advanceView_vw] <;> lock_finish

theorem runLoop_vw (k : Keys) (c : RCfg) (fuel : Nat) (x : Nat) :
    ⦃fun s => ⌜x ≤ s.view⌝⦄ runLoop k c fuel ⦃⇓ _ s => ⌜x ≤ s.view⌝⦄ := by
  induction fuel with
  | zero => mvcgen [runLoop] <;> lock_finish
  | succ n ih => mvcgen [runLoop, tick_vw, ih] <;> lock_finish

end ViewFrames

/-- **The view never decreases** while the event loop runs. -/
theorem runLoop_view_mono (k : Keys) (c : RCfg) (fuel : Nat) (s : RState) :
    s.view ≤ ((runLoop k c fuel).run s).2.view :=
  HsVerif.Proofs.run_res_of_triple (runLoop k c fuel) (fun s' => s.view ≤ s'.view)
    (fun _ s' => s.view ≤ s'.view) (runLoop_vw k c fuel s.view) s (Nat.le_refl _)

end HsVerif.Model
