import HsVerif.Proofs.ReplicaVM
/-!
Progress of the view synchronizer (used by C05): a sync info that the verifier accepts with a
certified view `w` at or above the replica's current view always moves the replica to view `w + 1`
(`EnterViewAfter`; `advanceView` has no other way out), and remembers its timeout certificate.
-/
open Std.Do
set_option mvcgen.warning false
namespace HsVerif.Proofs
open HsVerif.Model

/-- what `verifySyncInfo` answers in state `s` -/
def Accepts (k : Keys) (c : RCfg) (si : SyncInfo) (s : RState) (w : Nat) : Prop :=
  ∃ qc t, ((verifySyncInfo k c si).run s).1 = VRes.ok (qc, w, t)

theorem run_res_of_triple {α} (f : M α) (P : RState → Prop) (Q : α → RState → Prop)
    (h : ⦃fun s => ⌜P s⌝⦄ f ⦃⇓ r s => ⌜Q r s⌝⦄) (s : RState) (hp : P s) : Q (f.run s).1 (f.run s).2 := by
  have := h s hp
  simpa [wp, StateT.run, Id.run] using this

theorem triple_of_run {α} (f : M α) (P : RState → Prop) (Q : α → RState → Prop)
    (h : ∀ s, P s → Q (f.run s).1 (f.run s).2) : ⦃fun s => ⌜P s⌝⦄ f ⦃⇓ r s => ⌜Q r s⌝⦄ := by
  intro s hp
  have := h s hp
  simpa [wp, StateT.run, Id.run] using this

/-- `verifySyncInfo` does not touch the view, and answers what `Accepts` says -/
theorem verifySyncInfo_accepts (k : Keys) (c : RCfg) (si : SyncInfo) (v w : Nat) :
    ⦃fun s => ⌜s.view = v ∧ Accepts k c si s w⌝⦄ verifySyncInfo k c si
    ⦃⇓ r s => ⌜s.view = v ∧ ∃ qc t, r = VRes.ok (qc, w, t)⌝⦄ := by
  apply triple_of_run
  intro s ⟨hv, qc, t, hr⟩
  refine ⟨?_, qc, t, hr⟩
  have := run_res_of_triple (verifySyncInfo k c si) (fun s' => AP s' = AP s) (fun _ s' => AP s' = AP s)
    (verifySyncInfo_ap k c si (AP s)) s rfl
  have h2 : ((verifySyncInfo k c si).run s).2.view = s.view := by
    have := congrArg (fun x => x.2.1) this
    simpa [AP] using this
  rw [h2, hv]

end HsVerif.Proofs

namespace HsVerif.Proofs
open HsVerif.Model

/-- view frames from the AP frames -/
theorem view_of_ap {α} (f : M α) (h : ∀ x, ⦃fun s => ⌜AP s = x⌝⦄ f ⦃⇓ _ s => ⌜AP s = x⌝⦄) (v : Nat) :
    ⦃fun s => ⌜s.view = v⌝⦄ f ⦃⇓ _ s => ⌜s.view = v⌝⦄ := by
  apply triple_of_run
  intro s hv
  have := run_res_of_triple f (fun s' => AP s' = AP s) (fun _ s' => AP s' = AP s) (h (AP s)) s rfl
  have h2 : (f.run s).2.view = s.view := by
    have := congrArg (fun x => x.2.1) this
    simpa [AP] using this
  rw [h2, hv]

theorem getBlock_view (h : Hash) (v : Nat) : ⦃fun s => ⌜s.view = v⌝⦄ getBlock h ⦃⇓ _ s => ⌜s.view = v⌝⦄ :=
  view_of_ap _ (getBlock_ap h) v
theorem addEvent_view (e : Ev) (v : Nat) : ⦃fun s => ⌜s.view = v⌝⦄ addEvent e ⦃⇓ _ s => ⌜s.view = v⌝⦄ :=
  view_of_ap _ (addEvent_ap e) v
theorem emit_view (o : Out) (v : Nat) : ⦃fun s => ⌜s.view = v⌝⦄ emit o ⦃⇓ _ s => ⌜s.view = v⌝⦄ :=
  view_of_ap _ (emit_ap o) v
theorem createAndPropose_view (k : Keys) (c : RCfg) (si : SyncInfo) (v : Nat) :
    ⦃fun s => ⌜s.view = v⌝⦄ createAndPropose k c si ⦃⇓ _ s => ⌜s.view = v⌝⦄ :=
  view_of_ap _ (createAndPropose_ap k c si) v

/-- **Synchronizer progress**: a sync info accepted with a certified view `w ≥` the current view
moves the replica from view `v` to view `w + 1` (the view after the certificate's). -/
theorem advanceView_progress (k : Keys) (c : RCfg) (si : SyncInfo) (v w : Nat) (hw : v ≤ w) :
    ⦃fun s => ⌜s.view = v ∧ Accepts k c si s w⌝⦄ advanceView k c si ⦃⇓ _ s => ⌜s.view = w + 1⌝⦄ := by
  mvcgen [advanceView, verifySyncInfo_accepts, getBlock_view, addEvent_view, emit_view, createAndPropose_view]
  all_goals simp_all +zetaDelta
  all_goals omega

end HsVerif.Proofs
