import HsVerif.Proofs.ReplicaCur
/-!
What a replica adds to the signature table (C01, system layer): every handler of the replica model
adds entries only under the replica's own id, and an entry over a block message `blkMsg h` comes
with the vote record `GRec.vote b _`, `b.hash = h`, in the ghost history.  Frames GENERATED from the
lock frames (Proofs/ReplicaLock.lean) by textual substitution
  `_lk → _sig`, `x ≤ s.lock.view → SigInv k c x s`, `lock_finish → sig_finish`;
hand-written: `signMsg_sig` (anything but a block message), `voteFor_sig` (signature and record in
one step), `onLocalTimeout_sig` (view / timeout messages are not block messages).
-/
open Std.Do
set_option mvcgen.warning false
set_option linter.unusedSimpArgs false
set_option linter.unusedVariables false
namespace HsVerif.Model

/-- the ghost history records a vote for a block with hash `h` -/
def HasVote (g : List GRec) (h : Hash) : Prop := ∃ b id, b.hash = h ∧ GRec.vote b id ∈ g

/-- on the two components the invariant reads: signature table `t` and ghost history `g` -/
def SigP (me : Nat) (x t : List (Nat × Atom)) (g : List GRec) : Prop :=
  ∀ p ∈ t, p ∈ x ∨ (p.2.signer = me ∧ ∀ h, p.2.msg = blkMsg h → HasVote g h)

/-- entries of the signature table that are not in the initial table `x` were added by this
replica, and those over a block message have their vote record -/
def SigInv (k : Keys) (c : RCfg) (x : List (Nat × Atom)) (s : RState) : Prop :=
  ∀ p ∈ s.truth, p ∈ x ∨ (p.2.signer = c.id ∧ ∀ h, p.2.msg = blkMsg h →
    ∃ b id, b.hash = h ∧ GRec.vote b id ∈ s.ghost)

theorem sigInv_iff (k c x s) : SigInv k c x s ↔ SigP c.id x s.truth s.ghost := Iff.rfl

theorem SigP.ghost_append {me x t g} (g' : List GRec) (h : SigP me x t g) : SigP me x t (g ++ g') := by
  intro p hp
  rcases h p hp with h | ⟨h1, h2⟩
  · exact Or.inl h
  · refine Or.inr ⟨h1, fun hh e => ?_⟩
    obtain ⟨b, id, hb, hm⟩ := h2 hh e
    exact ⟨b, id, hb, List.mem_append_left _ hm⟩

theorem blkMsg_inj {a b : Hash} (h : blkMsg a = blkMsg b) : a = b := by
  unfold blkMsg at h
  exact (String.append_right_inj _).mp h

theorem viewMsg_ne (v : Nat) (h : Hash) : viewMsg v ≠ blkMsg h := by
  unfold viewMsg blkMsg
  intro e
  have := congrArg (fun s => s.toList.head?) e
  simp at this

theorem SigP.cons_own {me x t g} (n : Nat) (m : Msg) (hm : ∀ h, m ≠ blkMsg h) (h : SigP me x t g) :
    SigP me x ((n, ⟨me, m⟩) :: t) g := by
  intro p hp
  rcases List.mem_cons.mp hp with rfl | hp
  · exact Or.inr ⟨rfl, fun hh e => absurd e (hm hh)⟩
  · exact h p hp

theorem SigP.cons_vote {me x t g} (n : Nat) (b : Block) (id : Nat) (h : SigP me x t g) :
    SigP me x ((n, ⟨me, blkMsg b.hash⟩) :: t) (g ++ [.vote b id]) := by
  intro p hp
  rcases List.mem_cons.mp hp with rfl | hp
  · exact Or.inr ⟨rfl, fun hh e => ⟨b, id, blkMsg_inj e, by simp⟩⟩
  · exact h.ghost_append _ p hp

/-- closes the verification conditions of a `SigInv` frame -/
macro "sig_finish" : tactic => `(tactic| (
  (try intros)
  (try simp +zetaDelta [sigInv_iff] at *)
  (first
    | done
    | assumption
    | (exact SigP.ghost_append _ (by assumption))
    | (simp_all; done)
    | skip)))

section SigFrames
variable (k : Keys) (c : RCfg)

theorem emit_sig (o : Out) (x) :
    ⦃fun s => ⌜SigInv k c x s⌝⦄ emit o ⦃⇓ _ s => ⌜SigInv k c x s⌝⦄ := by
  mvcgen [emit]  <;> sig_finish
attribute [local spec] emit_sig

theorem addEvent_sig (e : Ev) (x) :
    ⦃fun s => ⌜SigInv k c x s⌝⦄ addEvent e ⦃⇓ _ s => ⌜SigInv k c x s⌝⦄ := by
  mvcgen [addEvent]  <;> sig_finish
attribute [local spec] addEvent_sig

theorem getBlock_sig (h : Hash) (x) :
    ⦃fun s => ⌜SigInv k c x s⌝⦄ getBlock h ⦃⇓ _ s => ⌜SigInv k c x s⌝⦄ := by
  mvcgen [getBlock]  <;> sig_finish
attribute [local spec] getBlock_sig

theorem fetchFor_sig (h : Hash) (x) :
    ⦃fun s => ⌜SigInv k c x s⌝⦄ fetchFor h ⦃⇓ _ s => ⌜SigInv k c x s⌝⦄ := by
  mvcgen [fetchFor]  <;> sig_finish
attribute [local spec] fetchFor_sig

/-- signing anything that is not a block message (view messages, timeout messages) -/
theorem signMsg_sig (m : Msg) (x) (hm : ∀ h, m ≠ blkMsg h) :
    ⦃fun s => ⌜SigInv k c x s⌝⦄ signMsg c m ⦃⇓ _ s => ⌜SigInv k c x s⌝⦄ := by
  mvcgen [signMsg]
  all_goals sig_finish
  exact SigP.cons_own _ _ hm (by assumption)

theorem verifyQCM_sig (q : QC) (x) :
    ⦃fun s => ⌜SigInv k c x s⌝⦄ verifyQCM k c q ⦃⇓ _ s => ⌜SigInv k c x s⌝⦄ := by
  mvcgen [verifyQCM]  <;> sig_finish
attribute [local spec] verifyQCM_sig

theorem verifyTCM_sig (t : TC) (x) :
    ⦃fun s => ⌜SigInv k c x s⌝⦄ verifyTCM k c t ⦃⇓ _ s => ⌜SigInv k c x s⌝⦄ := by
  mvcgen [verifyTCM]  <;> sig_finish
attribute [local spec] verifyTCM_sig

theorem qcRef_sig (q : QC) (x) :
    ⦃fun s => ⌜SigInv k c x s⌝⦄ qcRef q ⦃⇓ _ s => ⌜SigInv k c x s⌝⦄ := by
  mvcgen [qcRef]  <;> sig_finish
attribute [local spec] qcRef_sig

theorem extendsM_sig (b t : Block) (x) :
    ⦃fun s => ⌜SigInv k c x s⌝⦄ extendsM b t ⦃⇓ _ s => ⌜SigInv k c x s⌝⦄ := by
  mvcgen [extendsM]  <;> sig_finish
attribute [local spec] extendsM_sig

theorem voteRule_sig (v : Nat) (b : Block) (agg : Option AggQC) (x) :
    ⦃fun s => ⌜SigInv k c x s⌝⦄ voteRule c v b agg ⦃⇓ _ s => ⌜SigInv k c x s⌝⦄ := by
  mvcgen [voteRule]  <;> sig_finish
attribute [local spec] voteRule_sig

theorem commitRule_sig (b : Block) (x) :
    ⦃fun s => ⌜SigInv k c x s⌝⦄ commitRule c b ⦃⇓ _ s => ⌜SigInv k c x s⌝⦄ := by
  mvcgen [commitRule]  <;> sig_finish
attribute [local spec] commitRule_sig

theorem commitInner_sig (fuel : Nat) (b : Block) (x) :
    ⦃fun s => ⌜SigInv k c x s⌝⦄ commitInner fuel b ⦃⇓ _ s => ⌜SigInv k c x s⌝⦄ := by
  induction fuel generalizing b with
  | zero => mvcgen [commitInner]  <;> sig_finish
  | succ n ih => mvcgen [commitInner, ih]  <;> sig_finish
attribute [local spec] commitInner_sig

theorem tryCommit_sig (b : Block) (x) :
    ⦃fun s => ⌜SigInv k c x s⌝⦄ tryCommit c b ⦃⇓ _ s => ⌜SigInv k c x s⌝⦄ := by
  mvcgen [tryCommit]
  case inv1 => exact ⇓ _ s => ⌜SigInv k c x s⌝
  all_goals sig_finish
attribute [local spec] tryCommit_sig

theorem votesCleanup_sig  (x) :
    ⦃fun s => ⌜SigInv k c x s⌝⦄ votesCleanup ⦃⇓ _ s => ⌜SigInv k c x s⌝⦄ := by
  mvcgen [votesCleanup]  <;> sig_finish
attribute [local spec] votesCleanup_sig

theorem collectVote_sig (id : Nat) (sig : Option Sig) (h : Hash) (d : Bool) (x) :
    ⦃fun s => ⌜SigInv k c x s⌝⦄ collectVote k c id sig h d ⦃⇓ _ s => ⌜SigInv k c x s⌝⦄ := by
  mvcgen [collectVote]  <;> sig_finish
attribute [local spec] collectVote_sig

theorem aggregateVote_sig (b : Block) (sg : Sig) (x) :
    ⦃fun s => ⌜SigInv k c x s⌝⦄ aggregateVote k c b sg ⦃⇓ _ s => ⌜SigInv k c x s⌝⦄ := by
  mvcgen [aggregateVote]  <;> sig_finish
attribute [local spec] aggregateVote_sig

theorem markProposed_sig (fuel : Nat) (b : Block) (x) :
    ⦃fun s => ⌜SigInv k c x s⌝⦄ markProposed fuel b ⦃⇓ _ s => ⌜SigInv k c x s⌝⦄ := by
  induction fuel generalizing b with
  | zero => mvcgen [markProposed]  <;> sig_finish
  | succ n ih => mvcgen [markProposed, ih]  <;> sig_finish
attribute [local spec] markProposed_sig

theorem verifyAggM_go_sig (l : List QC) (x) :
    ⦃fun s => ⌜SigInv k c x s⌝⦄ verifyAggM.go k c l ⦃⇓ _ s => ⌜SigInv k c x s⌝⦄ := by
  induction l with
  | nil => mvcgen [verifyAggM.go]  <;> sig_finish
  | cons q rest ih => mvcgen [verifyAggM.go, ih]  <;> sig_finish
attribute [local spec] verifyAggM_go_sig

theorem verifyAggM_sig (a : AggQC) (x) :
    ⦃fun s => ⌜SigInv k c x s⌝⦄ verifyAggM k c a ⦃⇓ _ s => ⌜SigInv k c x s⌝⦄ := by
  mvcgen [verifyAggM]  <;> sig_finish
attribute [local spec] verifyAggM_sig

theorem verifyAnyM_sig (q : QC) (agg : Option AggQC) (x) :
    ⦃fun s => ⌜SigInv k c x s⌝⦄ verifyAnyM k c q agg ⦃⇓ _ s => ⌜SigInv k c x s⌝⦄ := by
  mvcgen [verifyAnyM]  <;> sig_finish
attribute [local spec] verifyAnyM_sig

theorem voterVerify_sig (id : Nat) (b : Block) (agg : Option AggQC) (x) :
    ⦃fun s => ⌜SigInv k c x s⌝⦄ voterVerify k c id b agg ⦃⇓ _ s => ⌜SigInv k c x s⌝⦄ := by
  mvcgen [voterVerify]  <;> sig_finish
attribute [local spec] voterVerify_sig

theorem voteFor_sig (b : Block) (id : Nat) (x) :
    ⦃fun s => ⌜SigInv k c x s⌝⦄ voteFor c b id ⦃⇓ _ s => ⌜SigInv k c x s⌝⦄ := by
  mvcgen [voteFor, signMsg]
  all_goals sig_finish
  exact SigP.cons_vote _ _ _ (by assumption)
attribute [local spec] voteFor_sig

theorem onValidPropose_sig (id : Nat) (b : Block) (x) :
    ⦃fun s => ⌜SigInv k c x s⌝⦄ onValidPropose k c id b ⦃⇓ _ s => ⌜SigInv k c x s⌝⦄ := by
  mvcgen [onValidPropose]  <;> sig_finish
attribute [local spec] onValidPropose_sig

theorem createAndPropose_sig (si : SyncInfo) (x) :
    ⦃fun s => ⌜SigInv k c x s⌝⦄ createAndPropose k c si ⦃⇓ _ s => ⌜SigInv k c x s⌝⦄ := by
  mvcgen [createAndPropose]  <;> sig_finish
attribute [local spec] createAndPropose_sig

theorem verifySyncInfo_sig (si : SyncInfo) (x) :
    ⦃fun s => ⌜SigInv k c x s⌝⦄ verifySyncInfo k c si ⦃⇓ _ s => ⌜SigInv k c x s⌝⦄ := by
  mvcgen [verifySyncInfo]  <;> sig_finish
attribute [local spec] verifySyncInfo_sig


theorem advanceView_sig (si : SyncInfo) (x) :
    ⦃fun s => ⌜SigInv k c x s⌝⦄ advanceView k c si ⦃⇓ _ s => ⌜SigInv k c x s⌝⦄ := by
  mvcgen [advanceView] <;> sig_finish

theorem onRemoteTimeout_sig (t : TimeoutMsg) (x) :
    ⦃fun s => ⌜SigInv k c x s⌝⦄ onRemoteTimeout k c t ⦃⇓ _ s => ⌜SigInv k c x s⌝⦄ := by
  mvcgen [onRemoteTimeout, advanceView_sig] <;> sig_finish

theorem onLocalTimeout_sig (hk : ∀ i v q h, k.tmo i v q ≠ blkMsg h) (x) :
    ⦃fun s => ⌜SigInv k c x s⌝⦄ onLocalTimeout k c ⦃⇓ _ s => ⌜SigInv k c x s⌝⦄ := by
  mvcgen [onLocalTimeout, onRemoteTimeout_sig, signMsg_sig]
  all_goals sig_finish
  all_goals (first | exact viewMsg_ne _ _ | exact hk _ _ _ _ | skip)

theorem onPropose_sig (id : Nat) (b : Block) (agg : Option AggQC) (x) :
    ⦃fun s => ⌜SigInv k c x s⌝⦄ onPropose k c id b agg ⦃⇓ _ s => ⌜SigInv k c x s⌝⦄ := by
  mvcgen [onPropose, advanceView_sig] <;> sig_finish

theorem tick_sig (hk : ∀ i v q h, k.tmo i v q ≠ blkMsg h) (x) :
    ⦃fun s => ⌜SigInv k c x s⌝⦄ tick k c ⦃⇓ _ s => ⌜SigInv k c x s⌝⦄ := by
  have hlt := onLocalTimeout_sig k c hk
  mvcgen [tick, onPropose_sig, onRemoteTimeout_sig, hlt, advanceView_sig] <;> sig_finish

theorem runLoop_sig (hk : ∀ i v q h, k.tmo i v q ≠ blkMsg h) (fuel : Nat) (x) :
    ⦃fun s => ⌜SigInv k c x s⌝⦄ runLoop k c fuel ⦃⇓ _ s => ⌜SigInv k c x s⌝⦄ := by
  induction fuel with
  | zero => mvcgen [runLoop] <;> sig_finish
  | succ n ih =>
    have htk := tick_sig k c hk
    mvcgen [runLoop, htk, ih] <;> sig_finish


end SigFrames

/-- **Delivering any event adds signatures only under the replica's own id, and every added
signature over a block message has its vote record.** -/
theorem step_sig (k : Keys) (c : RCfg) (hk : ∀ i v q h, k.tmo i v q ≠ blkMsg h) (x) (s : RState) (e : Ev)
    (h : SigInv k c x s) : SigInv k c x (step k c s e).1 := by
  unfold step
  have := HsVerif.Proofs.run_res_of_triple (runLoop k c 100000) (fun s' => SigInv k c x s')
    (fun _ s' => SigInv k c x s') (runLoop_sig k c hk 100000 x)
    { s with out := [], queue := s.queue ++ [e] } h
  simp only [StateT.run, Id.run] at this ⊢
  exact this

/-- the same for `Synchronizer.Start` -/
theorem start_sig (k : Keys) (c : RCfg) (hk : ∀ i v q h, k.tmo i v q ≠ blkMsg h) (x) (s : RState)
    (h : SigInv k c x s) : SigInv k c x (start k c s).1 := by
  unfold start
  have hrl := runLoop_sig k c hk 100000
  have spec : ⦃fun s => ⌜SigInv k c x s⌝⦄ (do
      let s ← get
      if s.view == 1 && c.leader 1 == c.id then
        createAndPropose k c { qc := some s.highQC, tc := some s.highTC }
      runLoop k c 100000 : M Unit) ⦃⇓ _ s => ⌜SigInv k c x s⌝⦄ := by
    mvcgen [createAndPropose_sig, hrl]
  have := HsVerif.Proofs.run_res_of_triple _ (fun s' => SigInv k c x s')
    (fun _ s' => SigInv k c x s') spec { s with out := [] } h
  simp only [StateT.run, Id.run] at this ⊢
  exact this

end HsVerif.Model
