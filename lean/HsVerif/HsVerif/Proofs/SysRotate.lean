import HsVerif.Proofs.SysLiveQuorumChain
/-!
ROTATING LEADERS (task S12d), replica level: the step lemmas of Proofs/SysChain.lean for the case that the collector of the votes
for `B` (the leader of view `w + 1`) is not the proposer of `B`, and the next collector (leader of `w + 2`) is yet another replica.
* `nl_step_rot`: a replica that is neither the proposer `L` of `B'` nor the next collector `L2` receives `B'`: new-view message to `L`,
  vote to `L2` (`nl_step` is the instance `L2 = L`).
* `nl_step_coll`: the next collector receives `B'`: new-view message to `L`, its own vote goes to its voting machine.
* `SyncC` (the collector: `SyncL` with `markWalk` in place of `lastProposed = w`), `coll_vote_add`, `coll_vote_quorum_self` (the collector
  is also the next collector: `ld_vote_quorum`) and `coll_vote_quorum_send` (it SENDS its vote for `B'` to the next collector).
* `markWalk_mono`, `mark_step`: the `markWalk` hypothesis travels along the chain at every replica (every replica may be a later leader).
The proofs are those of the fixed-leader lemmas with the leader hypotheses split by view.
-/
open Std.Do
set_option mvcgen.warning false
set_option linter.unusedSimpArgs false
set_option linter.unusedVariables false
namespace HsVerif.Model
open HsVerif.Proofs

/-- **a replica that is not the leader receives the next proposal of the chain**: it verifies the
certificate of `B`, enters view `w + 1` on it, reports to the leader, stores `B'`, runs the committer, votes -/
theorem nl_step_rot (k : Keys) (c : RCfg) (L L2 w N : Nat) (B P B' : Block) (sgq : Sig) (s : RState)
    (hs : c.scheme ≠ .bls12) (ha : c.agg = false) (hr : c.rules = .chained ∨ c.rules = .simple)
    (hld1 : c.leader (w + 1) = L) (hne : c.id ≠ L) (hld2 : c.leader (w + 1 + 1) = L2) (hne2 : c.id ≠ L2)
    (hcore : SyncR w N B P s) (hf : FreshS s) (hN : N + 12 ≤ 99999)
    (hb1 : B'.hash = pname (w + 1)) (hb2 : B'.parent = B.hash) (hb3 : B'.view = w + 1)
    (hb4 : B'.qc = ⟨some sgq, B.view, B.hash⟩)
    (hv1 : verify (fun b => s.truth.lookup b) c.cfg sgq (blkMsg B.hash) = true) (hv2 : c.cfg.quorum ≤ sgq.len) :
    SyncR (w + 1) (N + 3) B' B (step k c s (.propose L B' none)).1 ∧
    FreshS (step k c s (.propose L B' none)).1 ∧ Ext s (step k c s (.propose L B' none)).1 ∧
    (step k c s (.propose L B' none)).1.highQC = B'.qc ∧
    (step k c s (.propose L B' none)).1.votes = s.votes ∧
    (step k c s (.propose L B' none)).1.lastProposed = s.lastProposed ∧
    (step k c s (.propose L B' none)).1.chain.blocks = (B'.hash, B') :: s.chain.blocks ∧
    (∃ bytes, (step k c s (.propose L B' none)).1.truth.lookup bytes = some ⟨c.id, blkMsg B'.hash⟩ ∧
      ∀ C : SysCfg, route C c.id (step k c s (.propose L B' none)).2 =
        [(L, Ev.newview c.id { qc := some B'.qc }),
         (L2, Ev.vote c.id (some (.multi c.scheme [⟨c.id, bytes⟩])) B'.hash false)]) ∧
    (∀ Z : Block, WalkZ Z s →
      (w ≤ Z.view + 1 → WalkZ Z (step k c s (.propose L B' none)).1) ∧
      (Link B P → Link P Z → s.chain.blocks.lookup Z.hash = some Z →
        (step k c s (.propose L B' none)).1.committed = Z ∧
        Out.commit Z ∈ (step k c s (.propose L B' none)).2 ∧ Out.exec Z ∈ (step k c s (.propose L B' none)).2)) := by
  let q : QC := B'.qc
  let s0 : RState := { s with out := [], queue := s.queue ++ [.propose L B' none] }
  let sA : RState := { s0 with queue := [] }
  have hgen : B.hash ≠ genesisHash := by rw [hcore.bhash]; exact pname_ne_genesis _
  have hqh : q.hash = B.hash := by show B'.qc.hash = _; rw [hb4]
  have hqv : q.view = w := by show B'.qc.view = _; rw [hb4]; exact hcore.bview
  have hlkB : sA.chain.blocks.lookup q.hash = some B := by rw [hqh]; exact hcore.hasB
  have hverA : ∀ s' : RState, s'.chain = s.chain → s'.truth = s.truth → verifyQC (env k c s') q = true := by
    intro s' h1 h2
    have := verifyQC_of_votes k c s' B.hash B sgq (by rw [h1]; exact hcore.hasB) rfl hgen (by rw [h2]; exact hv1) hv2
    show verifyQC _ B'.qc = true
    rw [hb4]; exact this
  -- advanceView
  let s1 : RState := { sA with highQC := q, view := w + 1, lastTimeout := none
                               ghost := sA.ghost ++ [.adv sA.view q.view false], queue := [.viewChange (w + 1) false]
                               out := [.sendNewView L { qc := some q }] }
  have hadv : (advanceView k c { qc := some q }).run sA = pure ((), s1) := by
    rw [advanceView_move k c sA q B ha (hverA sA rfl rfl) hlkB (by show s.view = q.view; rw [hcore.view, hqv])]
    have hnl : ¬ c.leader (sA.view + 1) = c.id := by rw [show sA.view = w from hcore.view, hld1]; exact fun e => hne e.symm
    rw [if_neg hnl]
    have hhq : ¬ B.view ≤ s.highQC.view := by rw [hcore.bview]; have := hcore.hq; omega
    have hv : s.view = w := hcore.view
    simp [emit, movedS, updHighQC, hhq, hv, hld1, sA, s0, s1]
  have hl1 : s1.chain.blocks.lookup B'.qc.hash = some B := hlkB
  -- the vote rule
  have hrule : (voteRule c B'.view B' none).run s1 = pure (true, s1) := by
    have h2 : B.qc.hash = "" ∨ ∃ gb, s1.chain.blocks.lookup B.qc.hash = some gb := Or.inr ⟨P, hcore.hasP⟩
    rcases hr with hr | hr
    · exact voteRule_chained_above c hr s1 B' B _ hl1 h2 (by show s.lock.view < B.view; rw [hcore.bview]; exact hcore.lock)
    · exact voteRule_simple_ok c hr s1 B' B _ (Nat.le_refl _) hl1 h2
        (by show s.lock.view ≤ B.view; rw [hcore.bview]; exact Nat.le_of_lt hcore.lock)
  have hon : (onPropose k c L B' none).run sA = pure ((), votedS c B' L s1) :=
    onPropose_run_after k c sA s1 L B' hs hadv hb3 (by show s.lastVoted < B'.view; rw [hcore.lastVoted, hb3]; omega)
      (by rw [hb3]; exact hld1.symm) (by rw [hb2, hb4]) (by rw [hb3]; show q.view < _; rw [hqv]; omega)
      (hverA s1 rfl rfl) hrule (by rw [hb3, hld2]; exact fun e => hne2 e.symm)
  -- tryCommit
  have hfe1 : s1.chain.fetchable = [] := hcore.fetch
  have htc : tcS c B' s1 = tcL c B' s1 := tcS_eq_tcL c (by rcases hr with h | h <;> rw [h] <;> decide) B' s1 hfe1
  have hnewB : s1.chain.blocks.lookup B'.hash = none := by rw [hb1]; exact (hcore.names (w + 1) (by omega)).1
  obtain ⟨t1, t2, t3, evs, t4, t5, t6, t7⟩ := tcL_core c hr B' B P w N s1 hfe1 hnewB hl1 (Nat.le_of_eq hcore.bview)
    (by show s.chain.blocks.lookup B.qc.hash = some P; exact hcore.hasP) hcore.pview hcore.lock hcore.small
  rw [← htc] at t1 t2 t3 t4 t7
  let A : RState := votedS c B' L s1
  obtain ⟨hA1, hA2, hA3, hA4, hA5, hA10, _, hA11, _, _, hA12⟩ := votedS_tcp c B' L s1
  obtain ⟨hA6, hA7, hA8, hA9⟩ := votedS_tc c B' L s1
  let qq : List Ev := [Ev.viewChange (w + 1) false] ++ evs
  have hAq : A.queue = qq := by
    show (votedS c B' L s1).queue = _
    rw [hA9, t4]
  have hAw : A.waitingProp = [] := by
    show (votedS c B' L s1).waitingProp = _
    rw [hA3]; exact hcore.wprop
  have hquiet : ∀ e ∈ qq, e.quiet = true := by
    intro e he
    simp only [qq, List.mem_append, List.mem_singleton] at he
    rcases he with rfl | he
    · rfl
    · exact quiet_of_passive e (t5 e he)
  have hqlen : qq.length < 99999 := by
    simp only [qq, List.length_append, List.length_singleton]; omega
  have htick := tick_propose k c s0 A L B' none [] (by show s.queue ++ _ = _; rw [hcore.queue]; rfl) hon
  have hX : ({ A with waitingProp := [], queue := A.queue ++ A.waitingProp } : RState) =
      { ({ A with waitingProp := [] } : RState) with queue := qq } := by
    simp only [hAw, hAq, List.append_nil]
  rw [hX] at htick
  have hrest := runLoop_quiet k c qq 99999 { A with waitingProp := [] } hquiet
    (by show (votedS c B' L s1).waitingVC = []; rw [hA4]; exact hcore.wvc) hqlen
  have hstep : step k c s (.propose L B' none) =
      ({ A with waitingProp := [], queue := [], out := [] }, A.out ++ qq.map Ev.toOut) := by
    rw [step_run_eq k c s _ (99999 + 1) rfl, runLoop_succ k c _ s0 _ htick, hrest]
    rfl
  have hfA : FreshS s1 := hf
  have hft := tcS_fresh c B' s1 hfA
  obtain ⟨ho3, hl3, hf3, hc3⟩ := voteS_facts c B' L (tcS c B' s1) hft
  have hAout : A.out = [Out.sendNewView L { qc := some q }, .sign (blkMsg B'.hash),
      .sendVote L2 (voteSig c B' (tcS c B' s1)) B'.hash] := by
    show (voteS c B' L (tcS c B' s1)).out ++ _ = _
    rw [ho3, tcS_out, hb3, hld2]
    rfl
  have hAchain : A.chain = (tcS c B' s1).chain := hA8
  have hblocks : A.chain.blocks = (B'.hash, B') :: s.chain.blocks := by rw [hAchain]; exact t1
  have hle : StoreLe s.chain.blocks A.chain.blocks := by
    rw [hblocks]; exact storeLe_cons _ _ hnewB
  rw [hstep]
  refine ⟨⟨?_, ?_, rfl, ?_, rfl, ?_, hb1, hb3, ?_, ?_, ?_, ?_, ?_, ?_, ?_⟩, hf3, ?_, ?_, hA10, hA11, hblocks,
    ⟨signBytes c (blkMsg B'.hash) (tcS c B' s1), hl3, ?_⟩, ?_⟩
  · show A.view = _; rw [show A.view = s1.view from hA1]
  · show A.lastVoted = _; rw [show A.lastVoted = B'.view from hA5, hb3]
  · show A.waitingVC = _; rw [show A.waitingVC = s1.waitingVC from hA4]; exact hcore.wvc
  · show A.chain.fetchable = _; rw [hAchain]; exact t2
  · show A.chain.blocks.lookup B'.hash = _; rw [hblocks]; simp
  · show A.chain.blocks.lookup B'.qc.hash = _; exact hle _ _ hl1
  · rw [hcore.bview]; omega
  · show A.highQC.view < _; rw [show A.highQC = s1.highQC from hA2]; show q.view < _; rw [hqv]; omega
  · show A.lock.view < _; rw [show A.lock = (tcS c B' s1).lock from hA6]; omega
  · intro u hu
    refine ⟨?_, ?_⟩
    · show A.chain.blocks.lookup (pname u) = none
      rw [hblocks, List.lookup_cons]
      have : (pname u == B'.hash) = false := by
        rw [beq_eq_false_iff_ne, hb1]; intro e; have := pname_inj e; omega
      rw [this]; exact (hcore.names u (by omega)).1
    · show A.votes.lookup (pname u) = none
      rw [show A.votes = s1.votes from hA10]; exact (hcore.names u (by omega)).2
  · show 2 * A.chain.blocks.length + (w + 1) ≤ N + 3
    rw [hblocks]; have := hcore.small; simp only [List.length_cons]; omega
  · have e1 : Ext s s1 := ext_of_eq s s1 hf.2 rfl rfl rfl
    have e2 := tcS_ext c B' s1 hfA.2
    have e3 := voteS_ext c B' L (tcS c B' s1) hs hft.2
    have e4 : Ext (voteS c B' L (tcS c B' s1)) { A with waitingProp := [], queue := [], out := [] } :=
      ext_of_eq _ _ hf3.2 rfl rfl rfl
    exact ((e1.trans e2).trans e3).trans e4
  · show A.highQC = _; rw [show A.highQC = s1.highQC from hA2]
  · intro C
    rw [route_append, hAout]
    rw [route_silent C c.id (qq.map Ev.toOut) (by
      intro o ho
      obtain ⟨e, he, rfl⟩ := List.mem_map.mp ho
      exact toOut_silent e (hquiet e he))]
    simp [route, voteSig]; rfl
  · intro Z hZ
    obtain ⟨z1, z2⟩ := t7 Z hZ.walk hZ.below
    refine ⟨?_, ?_⟩
    · intro hwz
      obtain ⟨y1, y2⟩ := z1 hwz
      refine ⟨?_, ?_⟩
      · show cmWalk (A.chain.blocks.length + 2) A.chain.blocks A.committed.view Z = true
        rw [hblocks, show A.committed = (tcS c B' s1).committed from hA7]
        simp only [List.length_cons]; exact y1
      · show A.committed.view < _; rw [show A.committed = (tcS c B' s1).committed from hA7]; exact y2
    · intro lk1 lk2 hZs
      obtain ⟨y1, y2, y3⟩ := z2 (by rw [hb4]; show B.hash ≠ ""; rw [hcore.bhash]; exact pname_ne_empty _)
        (by rw [lk1.qch]; exact lk1.ne)
        (by rw [lk2.qch]; exact lk2.ne) lk1.parent lk1.view (by rw [lk2.qch]; exact hZs) lk2.parent lk2.view
      refine ⟨?_, ?_, ?_⟩
      · show A.committed = Z; rw [show A.committed = (tcS c B' s1).committed from hA7]; exact y1
      · exact List.mem_append_right _ (List.mem_map.mpr ⟨_, List.mem_append_right _ y2, rfl⟩)
      · exact List.mem_append_right _ (List.mem_map.mpr ⟨_, List.mem_append_right _ y3, rfl⟩)

/-- the COLLECTOR of the votes for `B` (the leader of view `w + 1`, who need not have proposed `B`) synchronised at `(w, B)`: it
holds the valid votes `vs`, its high QC is at least the certificate of `B`, and the walk that marks ancestors as proposed
succeeds from `B` over stored blocks (`markWalk`: trivial for the proposer of `B`) -/
structure SyncC (c : RCfg) (w N : Nat) (B P : Block) (vs : List (Nat × Sig)) (s : RState) : Prop where
  core : SyncR w N B P s
  mark : markWalk (s.chain.fuel + 1) s.chain.blocks s.lastProposed B = true
  votes : s.votes.lookup B.hash = some vs
  valid : ∀ x ∈ vs, c.cfg.has x.1 = true ∧ HonestSig (fun b => s.truth.lookup b) c.cfg x.1 (blkMsg B.hash) x.2
  nodup : (vs.map (·.1)).Nodup
  hqge : P.view ≤ s.highQC.view

theorem syncC_with_table {c : RCfg} {w N : Nat} {B P : Block} {vs : List (Nat × Sig)} {s : RState}
    (h : SyncC c w N B P vs s) (T : List (Nat × Atom)) (nb : Nat)
    (hT : ∀ b a, s.truth.lookup b = some a → T.lookup b = some a) :
    SyncC c w N B P vs { s with truth := T, nextBytes := nb } :=
  ⟨syncR_with_table h.core T nb, h.mark, h.votes,
    fun x hx => ⟨(h.valid x hx).1, honestSig_mono (fun b a hb => hT b a hb) (h.valid x hx).2⟩, h.nodup, h.hqge⟩

theorem syncC_proj {c : RCfg} {w N : Nat} {B P : Block} {vs : List (Nat × Sig)} {s s' : RState} (hp : SProj s' = SProj s)
    (h : SyncC c w N B P vs s) : SyncC c w N B P vs s' := by
  have hc := syncR_proj hp h.core
  simp only [SProj, Prod.mk.injEq] at hp
  obtain ⟨p1, p2, p3, p4, p5, p6, p7, p8, p9, p10, p11, p12⟩ := hp
  exact ⟨hc, p6 ▸ p10 ▸ h.mark, p9 ▸ h.votes, p11 ▸ h.valid, h.nodup, p7 ▸ h.hqge⟩

theorem SyncL.toC {c : RCfg} {w N : Nat} {B P : Block} {vs : List (Nat × Sig)} {s : RState} (h : SyncL c w N B P vs s) :
    SyncC c w N B P vs s :=
  ⟨h.core, by unfold markWalk; rw [if_neg (by rw [h.lastProposed, h.core.bview]; omega)], h.votes, h.valid, h.nodup, h.hqge⟩

/-- **the leader keeps a vote that does not complete the quorum** -/
theorem coll_vote_add (k : Keys) (c : RCfg) (w N i id bytes : Nat) (B P : Block) (vs : List (Nat × Sig)) (s : RState)
    (hs : c.scheme ≠ .bls12) (hld : SyncC c w N B P vs s) (hi : c.cfg.has i = true)
    (hbytes : s.truth.lookup bytes = some ⟨i, blkMsg B.hash⟩)
    (hnew : ∀ v ∈ vs, v.1 ≠ i) (hlen : vs.length + 1 < c.cfg.quorum) :
    ∃ V, step k c s (.vote id (some (.multi c.scheme [⟨i, bytes⟩])) B.hash false) = ({ s with votes := V, out := [] }, []) ∧
      SyncC c w N B P (vs ++ [(i, .multi c.scheme [⟨i, bytes⟩])]) { s with votes := V, out := [] } := by
  let sg1 : Sig := .multi c.scheme [⟨i, bytes⟩]
  let s0 : RState := { s with out := [], queue := s.queue ++ [.vote id (some sg1) B.hash false] }
  let sA : RState := { s0 with queue := [] }
  have hc := hld.core
  have hl : sA.chain.blocks.lookup B.hash = some B := hc.hasB
  have hvl : (sA.votes.lookup B.hash).getD [] = vs := by
    show (s.votes.lookup B.hash).getD [] = vs
    rw [hld.votes]; rfl
  have hhi : sA.highQC.view < B.view := by show s.highQC.view < _; rw [hc.bview]; exact hc.hq
  have hcv := collectVote_add_run k c sA id i bytes B.hash B false hl rfl hhi
    (verify_single _ c.cfg i bytes _ hs hi hbytes) (by rw [hvl]; exact hnew) (by rw [hvl]; exact hlen)
  let sB : RState := addVoteS sA B.hash i sg1
  have hsBq : sB.queue = [] := rfl
  have ht := tick_vote k c s0 sB id _ _ false [] (by show s.queue ++ _ = _; rw [hc.queue]; rfl) hcv
  have hstep : step k c s (.vote id (some sg1) B.hash false) = ({ sB with out := [] }, []) := by
    rw [step_run_eq k c s _ (99998 + 1 + 1) rfl, runLoop_succ k c _ s0 sB ht, runLoop_idle k c sB 99998 hsBq]
    rfl
  obtain ⟨a1, a2⟩ := addVotes_lookup sA B.hash B (vs ++ [(i, sg1)]) hl hhi
  refine ⟨sB.votes, ?_, ⟨?_, hld.mark, ?_, ?_, ?_, hld.hqge⟩⟩
  · rw [hstep]
    show (({ s with out := [], queue := [], votes := sB.votes } : RState), ([] : List Out)) = _
    rw [← hc.queue]
  · refine ⟨hc.view, hc.lastVoted, hc.queue, hc.wvc, hc.wprop, hc.fetch, hc.bhash, hc.bview, hc.hasB, hc.hasP, hc.pview,
      hc.hq, hc.lock, ?_, hc.small⟩
    intro u hu
    refine ⟨(hc.names u hu).1, ?_⟩
    show (cleanVotes sA _).lookup (pname u) = none
    rw [hvl]
    exact a2 (pname u) (by rw [hc.bhash]; intro e; have := pname_inj e; omega) (hc.names u hu).2
  · show (cleanVotes sA _).lookup B.hash = _
    rw [hvl]; exact a1
  · intro x hx
    simp only [List.mem_append, List.mem_singleton] at hx
    rcases hx with hx | rfl
    · exact hld.valid x hx
    · exact ⟨hi, Or.inl ⟨hs, bytes, rfl, hbytes⟩⟩
  · simp only [List.map_append, List.map_cons, List.map_nil]
    rw [List.nodup_append]
    refine ⟨hld.nodup, by simp, ?_⟩
    intro a ha b hb
    simp at hb; subst hb
    obtain ⟨x, hx, hxe⟩ := List.mem_map.mp ha
    intro e; exact hnew x hx (by rw [hxe, e])

/-- **the vote that completes the quorum**: the leader certifies `B`, enters view `w + 1`, proposes `B'` on
the certificate, runs the committer on it and keeps its own vote for it -/
theorem coll_vote_quorum_self (k : Keys) (c : RCfg) (w N i id bytes : Nat) (B P : Block) (vs : List (Nat × Sig)) (s : RState)
    (hs : c.scheme ≠ .bls12) (ha : c.agg = false) (hr : c.rules = .chained ∨ c.rules = .simple)
    (hid : c.cfg.has c.id = true) (hld1 : c.leader (s.view + 1) = c.id) (hld2 : c.leader (s.view + 1 + 1) = c.id) (hq2 : 2 ≤ c.cfg.quorum)
    (hld : SyncC c w N B P vs s) (hf : FreshS s) (hN : N + 12 ≤ 99999)
    (hi : c.cfg.has i = true) (hbytes : s.truth.lookup bytes = some ⟨i, blkMsg B.hash⟩)
    (hnew : ∀ v ∈ vs, v.1 ≠ i) (hlen : c.cfg.quorum ≤ vs.length + 1) :
    ∃ (sgq : Sig) (bytes' : Nat) (B' : Block),
      B'.hash = pname (w + 1) ∧ B'.parent = B.hash ∧ B'.view = w + 1 ∧ B'.qc = ⟨some sgq, B.view, B.hash⟩ ∧
      verify (fun b => (step k c s (.vote id (some (.multi c.scheme [⟨i, bytes⟩])) B.hash false)).1.truth.lookup b)
        c.cfg sgq (blkMsg B.hash) = true ∧ c.cfg.quorum ≤ sgq.len ∧
      SyncC c (w + 1) (N + 3) B' B [(c.id, .multi c.scheme [⟨c.id, bytes'⟩])]
        (step k c s (.vote id (some (.multi c.scheme [⟨i, bytes⟩])) B.hash false)).1 ∧
      (step k c s (.vote id (some (.multi c.scheme [⟨i, bytes⟩])) B.hash false)).1.highQC = B'.qc ∧
      FreshS (step k c s (.vote id (some (.multi c.scheme [⟨i, bytes⟩])) B.hash false)).1 ∧
      Ext s (step k c s (.vote id (some (.multi c.scheme [⟨i, bytes⟩])) B.hash false)).1 ∧
      (∀ C : SysCfg, route C c.id (step k c s (.vote id (some (.multi c.scheme [⟨i, bytes⟩])) B.hash false)).2 =
        (C.honest.filter (· != c.id)).map (fun x => (x, Ev.propose c.id B' none))) ∧
      (∀ Z : Block, WalkZ Z s →
        (w ≤ Z.view + 1 → WalkZ Z (step k c s (.vote id (some (.multi c.scheme [⟨i, bytes⟩])) B.hash false)).1) ∧
        (Link B P → Link P Z → s.chain.blocks.lookup Z.hash = some Z →
          (step k c s (.vote id (some (.multi c.scheme [⟨i, bytes⟩])) B.hash false)).1.committed = Z ∧
          Out.commit Z ∈ (step k c s (.vote id (some (.multi c.scheme [⟨i, bytes⟩])) B.hash false)).2 ∧
          Out.exec Z ∈ (step k c s (.vote id (some (.multi c.scheme [⟨i, bytes⟩])) B.hash false)).2)) := by
  let sg1 : Sig := .multi c.scheme [⟨i, bytes⟩]
  let hash := B.hash
  have hc := hld.core
  have hgen : hash ≠ genesisHash := by show B.hash ≠ _; rw [hc.bhash]; exact pname_ne_genesis _
  have hsgv : verify (fun b => s.truth.lookup b) c.cfg sg1 (blkMsg hash) = true :=
    verify_single _ c.cfg i bytes _ hs hi hbytes
  obtain ⟨sgq, hcomb, hverq, hlenq⟩ := combine_votes_verifies (fun b => s.truth.lookup b) c.cfg (blkMsg hash)
    (vs ++ [(i, sg1)])
    (by simp only [List.map_append, List.map_cons, List.map_nil]
        rw [List.nodup_append]
        refine ⟨hld.nodup, by simp, ?_⟩
        intro a ha' b hb'
        simp at hb'; subst hb'
        obtain ⟨x, hx, hxe⟩ := List.mem_map.mp ha'
        intro e; exact hnew x hx (by rw [hxe, e]))
    (by simp; omega)
    (by intro v hv
        simp only [List.mem_append, List.mem_singleton] at hv
        rcases hv with hv | rfl
        · exact hld.valid v hv
        · exact ⟨hi, Or.inl ⟨hs, bytes, rfl, hbytes⟩⟩)
  have hcomb' : combine c.cfg (vs.map (fun x => x.2) ++ [sg1]) = .ok sgq := by simpa using hcomb
  have hqlen : c.cfg.quorum ≤ sgq.len := by rw [hlenq]; simpa using hlen
  let qc : QC := ⟨some sgq, B.view, hash⟩
  let s0 : RState := { s with out := [], queue := s.queue ++ [.vote id (some sg1) hash false] }
  let sA : RState := { s0 with queue := [] }
  have hblk : sA.chain.blocks.lookup hash = some B := hc.hasB
  have hvl : (sA.votes.lookup hash).getD [] = vs := by
    show (s.votes.lookup B.hash).getD [] = vs
    rw [hld.votes]; rfl
  have hhi : sA.highQC.view < B.view := by show s.highQC.view < _; rw [hc.bview]; exact hc.hq
  have hcv : (collectVote k c id (some sg1) hash false).run sA = pure ((), qcFormedS c sA hash qc) :=
    collectVote_quorum_run k c sA id i bytes hash B false sgq hblk rfl hgen hhi hsgv (by rw [hvl]; exact hnew)
      (by rw [hvl]; exact hlen) (by rw [hvl]; exact hcomb')
  let sB : RState := qcFormedS c sA hash qc
  have ht1 : (tick k c).run s0 = pure (true, sB) :=
    tick_vote k c s0 sB id (some sg1) hash false [] (by show s.queue ++ _ = _; rw [hc.queue]; rfl) hcv
  let sC : RState := { sB with queue := [] }
  have hverAll : ∀ s' : RState, s'.chain = s.chain → s'.truth = s.truth → verifyQC (env k c s') qc = true := by
    intro s' h1 h2
    exact verifyQC_of_votes k c s' hash B sgq (by rw [h1]; exact hc.hasB) rfl hgen (by rw [h2]; exact hverq) hqlen
  have hsCview : sC.view = w := hc.view
  let m : RState := movedS sC qc B
  have hmhq : (updHighQC sC qc B).highQC = qc := by
    unfold updHighQC
    rw [if_neg (by show ¬ B.view ≤ s.highQC.view; have : s.highQC.view < B.view := hhi; omega)]
  have hmview : m.view = w + 1 := by show sC.view + 1 = _; rw [hsCview]
  let b' : Block := newBlock c m qc
  have hb'hash : b'.hash = pname (w + 1) := by
    show (mkBlock c m.view m.nextCmd qc).hash = _; rw [mkBlock_hash, hmview]
  have hb'view : b'.view = w + 1 := hmview
  have hmark : (markProposed (m.chain.fuel + 1) B).run m = pure (true, m) :=
    markProposed_walk _ _ m hld.mark
  have hrule : ∀ s' : RState, s'.chain = m.chain → s'.lock = m.lock →
      (voteRule c m.view b' none).run s' = pure (true, s') := by
    intro s' hc' hl'
    have hl1 : s'.chain.blocks.lookup b'.qc.hash = some B := by rw [hc']; exact hc.hasB
    have h2 : B.qc.hash = "" ∨ ∃ gb, s'.chain.blocks.lookup B.qc.hash = some gb := Or.inr ⟨P, by rw [hc']; exact hc.hasP⟩
    have hlk : s'.lock.view < B.view := by rw [hl']; show s.lock.view < _; rw [hc.bview]; exact hc.lock
    rcases hr with hr | hr
    · exact voteRule_chained_above c hr s' b' B _ hl1 h2 hlk
    · exact voteRule_simple_ok c hr s' b' B _ (Nat.le_refl _) hl1 h2 (Nat.le_of_lt hlk)
  have hrun := createAndPropose_run k c m qc B none hs (by rcases hr with h | h <;> rw [h] <;> decide)
    (by show m.chain.blocks.lookup (updHighQC sC qc B).highQC.hash = _; rw [hmhq]; exact hc.hasB) hmark
    (by rw [hmview]; show s.lastVoted < _; rw [hc.lastVoted]; omega) hrule (hverAll m rfl rfl)
    (by rw [hmview]; show B.view < _; rw [hc.bview]; omega) hld1.symm
  let v3 := voteS c b' c.id (propS m)
  have hfm : FreshS (propS m) := hf
  obtain ⟨ho3, hl3, hf3, hc3⟩ := voteS_facts c b' c.id (propS m) hfm
  obtain ⟨w1, w2, w3, w4, w5, w6, w7, w8, w9, w10, w11⟩ := voteS_fields c b' c.id (propS m)
  have hv3chain : v3.chain = s.chain := hc3
  have hfe3 : v3.chain.fetchable = [] := by rw [hv3chain]; exact hc.fetch
  have htc : tcS c b' v3 = tcL c b' v3 := tcS_eq_tcL c (by rcases hr with h | h <;> rw [h] <;> decide) b' v3 hfe3
  have hnewB : v3.chain.blocks.lookup b'.hash = none := by rw [hv3chain, hb'hash]; exact (hc.names (w + 1) (by omega)).1
  obtain ⟨t1, t2, t3, evs, t4, t5, t6, t7⟩ := tcL_core c hr b' B P w N v3 hfe3 hnewB
    (by rw [hv3chain]; exact hc.hasB) (Nat.le_of_eq hc.bview) (by rw [hv3chain]; exact hc.hasP) hc.pview
    (by rw [show v3.lock = (propS m).lock from w5]; exact hc.lock) (by rw [hv3chain]; exact hc.small)
  rw [← htc] at t1 t2 t3 t4 t7
  rw [hv3chain] at t1 t7
  rw [show v3.committed = s.committed from w6] at t7
  let s6 : RState := { tcS c b' v3 with out := (tcS c b' v3).out ++ [.sendPropose b' none] }
  have hft := tcS_fresh c b' v3 hf3
  have htcp := tcS_tcp c b' v3
  simp only [TCP, Prod.mk.injEq] at htcp
  obtain ⟨p1, p2, p3, p4, p5, p6, p7, p8, p9, p10, p11, p12, p13, p14, p15⟩ := htcp
  have hs6truth : s6.truth = v3.truth := p12
  have hs6hq : s6.highQC = qc := by
    show (tcS c b' v3).highQC = _; rw [p2]; show v3.highQC = _; rw [show v3.highQC = (propS m).highQC from w2]; exact hmhq
  have hs6votes : s6.votes = sC.votes := by
    show (tcS c b' v3).votes = _; rw [p8]; exact w7
  have hsCvn : ∀ u, w < u → sC.votes.lookup (pname u) = none := by
    intro u hu
    show (cleanVotes sA (sA.votes.filter (fun p => p.1 != hash))).lookup (pname u) = none
    rw [cleanVotes_eq, lookup_filter_key]
    split
    · have := lookup_filter_key (β := List (Nat × Sig)) (fun x => x != hash) sA.votes (pname u)
      rw [this]
      have : sA.votes.lookup (pname u) = none := (hc.names u hu).2
      rw [this]; simp
    · rfl
  have hs6lk : s6.chain.blocks.lookup b'.hash = some b' := by
    show (tcS c b' v3).chain.blocks.lookup _ = _; rw [t1]; simp
  have hs6vl : (s6.votes.lookup b'.hash).getD [] = [] := by
    rw [hs6votes, hb'hash, hsCvn (w + 1) (by omega)]; rfl
  have hcv2 := collectVote_add_run k c s6 c.id c.id (signBytes c (blkMsg b'.hash) (propS m)) b'.hash b' false
    hs6lk rfl (by rw [hs6hq, hb'view]; show B.view < _; rw [hc.bview]; omega)
    (verify_single _ c.cfg c.id _ _ hs hid (by rw [hs6truth]; exact hl3))
    (by rw [hs6vl]; simp) (by rw [hs6vl]; simp; omega)
  let F : RState := addVoteS s6 b'.hash c.id (voteSig c b' (propS m))
  have hadv : (advanceView k c { qc := some qc }).run sC = pure ((), F) := by
    rw [advanceView_move k c sC qc B ha (hverAll sC rfl rfl) hc.hasB (by rw [hsCview]; show w = B.view; rw [hc.bview])]
    rw [if_pos (show c.leader (sC.view + 1) = c.id from hld1), hmhq, hrun, aggregateVote_self k c b' _ _ hld2]
    exact hcv2
  have ht2 : (tick k c).run sB = pure (true, F) :=
    tick_newview k c sB F c.id { qc := some qc } [] rfl hadv
  let qq : List Ev := [Ev.viewChange (w + 1) false] ++ evs
  have hFq : F.queue = qq := by
    show (tcS c b' v3).queue = _
    rw [t4, show v3.queue = (propS m).queue from w8]
    show (sC.queue ++ [Ev.viewChange (sC.view + 1) false]) ++ evs = _
    rw [hsCview]; rfl
  have hquiet : ∀ e ∈ qq, e.quiet = true := by
    intro e he
    simp only [qq, List.mem_append, List.mem_singleton] at he
    rcases he with rfl | he
    · rfl
    · exact quiet_of_passive e (t5 e he)
  have hFwvc : F.waitingVC = [] := by
    show (tcS c b' v3).waitingVC = _; rw [p9, show v3.waitingVC = (propS m).waitingVC from w10]; exact hc.wvc
  have hrest := runLoop_quiet k c qq 99998 F hquiet hFwvc
    (by simp only [qq, List.length_append, List.length_singleton]; omega)
  have hFF : F = { F with queue := qq } := by rw [← hFq]
  have hstep : step k c s (.vote id (some sg1) hash false) =
      ({ F with queue := [], out := [] }, F.out ++ qq.map Ev.toOut) := by
    rw [step_run_eq k c s _ (99998 + 1 + 1) rfl, runLoop_succ k c _ s0 sB ht1, runLoop_succ k c _ sB F ht2, hFF, hrest]
    rfl
  have hFout : F.out = [.sign (blkMsg b'.hash), .sendPropose b' none] := by
    show (tcS c b' v3).out ++ _ = _
    rw [tcS_out, show v3.out = _ from ho3]; rfl
  have hFblocks : F.chain.blocks = (b'.hash, b') :: s.chain.blocks := t1
  have hle : StoreLe s.chain.blocks F.chain.blocks := by
    rw [hFblocks]; exact storeLe_cons _ _ (by rw [← hv3chain]; exact hnewB)
  have hextF : Ext s { F with queue := [], out := [] } := by
    have e1 : Ext s (propS m) := ext_of_eq s _ hf.2 rfl rfl rfl
    have e2 := voteS_ext c b' c.id (propS m) hs hfm.2
    have e3 := tcS_ext c b' v3 hf3.2
    have e4 : Ext (tcS c b' v3) { F with queue := [], out := [] } := ext_of_eq _ _ hft.2 rfl rfl rfl
    exact ((e1.trans e2).trans e3).trans e4
  obtain ⟨a1, a2⟩ := addVotes_lookup s6 b'.hash b' ([] ++ [(c.id, voteSig c b' (propS m))]) hs6lk
    (by rw [hs6hq, hb'view]; show B.view < _; rw [hc.bview]; omega)
  refine ⟨sgq, signBytes c (blkMsg b'.hash) (propS m), b', hb'hash, rfl, hb'view, rfl, ?_, hqlen, ?_, ?_, ?_, ?_, ?_, ?_⟩
  · show verify (fun b => (step k c s (.vote id (some sg1) hash false)).1.truth.lookup b) _ _ _ = true
    rw [hstep]
    exact verify_mono _ _ _ _ _ (fun b a hb' => hextF.truth b a hb') hverq
  · show SyncC c (w + 1) (N + 3) b' B _ (step k c s (.vote id (some sg1) hash false)).1
    rw [hstep]
    refine ⟨⟨?_, ?_, rfl, hFwvc, ?_, t2, hb'hash, hb'view, ?_, ?_, ?_, ?_, ?_, ?_, ?_⟩, ?_, ?_, ?_, by simp, ?_⟩
    · show (tcS c b' v3).view = _; rw [p1, show v3.view = (propS m).view from w1]; exact hmview
    · show (tcS c b' v3).lastVoted = _; rw [p4, show v3.lastVoted = b'.view from w11]; exact hb'view
    · show (tcS c b' v3).waitingProp = _; rw [p10, show v3.waitingProp = (propS m).waitingProp from w9]; exact hc.wprop
    · show F.chain.blocks.lookup b'.hash = _; rw [hFblocks]; simp
    · show F.chain.blocks.lookup b'.qc.hash = _; exact hle _ _ hc.hasB
    · rw [hc.bview]; omega
    · show s6.highQC.view < _; rw [hs6hq]; show B.view < _; rw [hc.bview]; omega
    · show (tcS c b' v3).lock.view < _; omega
    · intro u hu
      refine ⟨?_, ?_⟩
      · show F.chain.blocks.lookup (pname u) = none
        rw [hFblocks, List.lookup_cons]
        have : (pname u == b'.hash) = false := by
          rw [beq_eq_false_iff_ne, hb'hash]; intro e; have := pname_inj e; omega
        rw [this]; exact (hc.names u (by omega)).1
      · show (cleanVotes s6 _).lookup (pname u) = none
        rw [hs6vl]
        exact a2 (pname u) (by rw [hb'hash]; intro e; have := pname_inj e; omega) (by rw [hs6votes]; exact hsCvn u (by omega))
    · show 2 * F.chain.blocks.length + (w + 1) ≤ N + 3
      rw [hFblocks]; have := hc.small; simp only [List.length_cons]; omega
    · show markWalk (F.chain.fuel + 1) F.chain.blocks (tcS c b' v3).lastProposed b' = true
      rw [p5, show v3.lastProposed = (propS m).lastProposed from w3]
      unfold markWalk
      rw [if_neg (by show ¬ b'.view > m.view; rw [hb'view, hmview]; omega)]
    · show (cleanVotes s6 _).lookup b'.hash = _
      rw [hs6vl]; exact a1
    · intro x hx
      simp only [List.mem_singleton] at hx
      subst hx
      refine ⟨hid, Or.inl ⟨hs, _, rfl, ?_⟩⟩
      show s6.truth.lookup _ = _
      rw [hs6truth]; exact hl3
    · show B.view ≤ s6.highQC.view; rw [hs6hq]; exact Nat.le_refl _
  · show (step k c s (.vote id (some sg1) hash false)).1.highQC = _
    rw [hstep]; exact hs6hq
  · show FreshS (step k c s (.vote id (some sg1) hash false)).1
    rw [hstep]; exact hft
  · show Ext s (step k c s (.vote id (some sg1) hash false)).1
    rw [hstep]; exact hextF
  · intro C
    show route C c.id (step k c s (.vote id (some sg1) hash false)).2 = _
    rw [hstep]
    show route C c.id (F.out ++ qq.map Ev.toOut) = _
    rw [route_append, hFout, route_silent C c.id (qq.map Ev.toOut) (by
      intro o ho
      obtain ⟨e, he, rfl⟩ := List.mem_map.mp ho
      exact toOut_silent e (hquiet e he))]
    simp [route]
  · intro Z hZ
    show (_ → WalkZ Z (step k c s (.vote id (some sg1) hash false)).1) ∧ (_ → _ → _ →
      (step k c s (.vote id (some sg1) hash false)).1.committed = Z ∧
      Out.commit Z ∈ (step k c s (.vote id (some sg1) hash false)).2 ∧ Out.exec Z ∈ (step k c s (.vote id (some sg1) hash false)).2)
    rw [hstep]
    obtain ⟨z1, z2⟩ := t7 Z hZ.walk hZ.below
    refine ⟨?_, ?_⟩
    · intro hwz
      obtain ⟨y1, y2⟩ := z1 hwz
      refine ⟨?_, y2⟩
      show cmWalk (F.chain.blocks.length + 2) F.chain.blocks (tcS c b' v3).committed.view Z = true
      rw [hFblocks]
      simp only [List.length_cons]; exact y1
    · intro lk1 lk2 hZs
      obtain ⟨y1, y2, y3⟩ := z2 (by show B.hash ≠ ""; rw [hc.bhash]; exact pname_ne_empty _)
        (by rw [lk1.qch]; exact lk1.ne)
        (by rw [lk2.qch]; exact lk2.ne) lk1.parent lk1.view (by rw [lk2.qch]; exact hZs) lk2.parent lk2.view
      refine ⟨y1, ?_, ?_⟩
      · exact List.mem_append_right _ (List.mem_map.mpr ⟨_, List.mem_append_right _ y2, rfl⟩)
      · exact List.mem_append_right _ (List.mem_map.mpr ⟨_, List.mem_append_right _ y3, rfl⟩)

/-- **the vote that completes the quorum, the next collector being another replica `L2`**: the collector certifies `B`, enters
view `w + 1`, proposes `B'`, runs the committer on it and SENDS its own vote for `B'` to `L2` (with the proposals) -/
theorem coll_vote_quorum_send (k : Keys) (c : RCfg) (L2 w N i id bytes : Nat) (B P : Block) (vs : List (Nat × Sig)) (s : RState)
    (hs : c.scheme ≠ .bls12) (ha : c.agg = false) (hr : c.rules = .chained ∨ c.rules = .simple)
    (hid : c.cfg.has c.id = true) (hld1 : c.leader (s.view + 1) = c.id) (hld2 : c.leader (s.view + 1 + 1) = L2) (hne2 : c.id ≠ L2) (hq2 : 2 ≤ c.cfg.quorum)
    (hld : SyncC c w N B P vs s) (hf : FreshS s) (hN : N + 12 ≤ 99999)
    (hi : c.cfg.has i = true) (hbytes : s.truth.lookup bytes = some ⟨i, blkMsg B.hash⟩)
    (hnew : ∀ v ∈ vs, v.1 ≠ i) (hlen : c.cfg.quorum ≤ vs.length + 1) :
    ∃ (sgq : Sig) (bytes' : Nat) (B' : Block),
      B'.hash = pname (w + 1) ∧ B'.parent = B.hash ∧ B'.view = w + 1 ∧ B'.qc = ⟨some sgq, B.view, B.hash⟩ ∧
      verify (fun b => (step k c s (.vote id (some (.multi c.scheme [⟨i, bytes⟩])) B.hash false)).1.truth.lookup b)
        c.cfg sgq (blkMsg B.hash) = true ∧ c.cfg.quorum ≤ sgq.len ∧
      SyncR (w + 1) (N + 3) B' B (step k c s (.vote id (some (.multi c.scheme [⟨i, bytes⟩])) B.hash false)).1 ∧
      markWalk ((step k c s (.vote id (some (.multi c.scheme [⟨i, bytes⟩])) B.hash false)).1.chain.fuel + 1)
        (step k c s (.vote id (some (.multi c.scheme [⟨i, bytes⟩])) B.hash false)).1.chain.blocks
        (step k c s (.vote id (some (.multi c.scheme [⟨i, bytes⟩])) B.hash false)).1.lastProposed B' = true ∧
      (step k c s (.vote id (some (.multi c.scheme [⟨i, bytes⟩])) B.hash false)).1.truth.lookup bytes' = some ⟨c.id, blkMsg B'.hash⟩ ∧
      (step k c s (.vote id (some (.multi c.scheme [⟨i, bytes⟩])) B.hash false)).1.highQC = B'.qc ∧
      FreshS (step k c s (.vote id (some (.multi c.scheme [⟨i, bytes⟩])) B.hash false)).1 ∧
      Ext s (step k c s (.vote id (some (.multi c.scheme [⟨i, bytes⟩])) B.hash false)).1 ∧
      (∀ C : SysCfg, route C c.id (step k c s (.vote id (some (.multi c.scheme [⟨i, bytes⟩])) B.hash false)).2 =
        (C.honest.filter (· != c.id)).map (fun x => (x, Ev.propose c.id B' none)) ++
          [(L2, Ev.vote c.id (some (.multi c.scheme [⟨c.id, bytes'⟩])) B'.hash false)]) ∧
      (∀ Z : Block, WalkZ Z s →
        (w ≤ Z.view + 1 → WalkZ Z (step k c s (.vote id (some (.multi c.scheme [⟨i, bytes⟩])) B.hash false)).1) ∧
        (Link B P → Link P Z → s.chain.blocks.lookup Z.hash = some Z →
          (step k c s (.vote id (some (.multi c.scheme [⟨i, bytes⟩])) B.hash false)).1.committed = Z ∧
          Out.commit Z ∈ (step k c s (.vote id (some (.multi c.scheme [⟨i, bytes⟩])) B.hash false)).2 ∧
          Out.exec Z ∈ (step k c s (.vote id (some (.multi c.scheme [⟨i, bytes⟩])) B.hash false)).2)) := by
  let sg1 : Sig := .multi c.scheme [⟨i, bytes⟩]
  let hash := B.hash
  have hc := hld.core
  have hgen : hash ≠ genesisHash := by show B.hash ≠ _; rw [hc.bhash]; exact pname_ne_genesis _
  have hsgv : verify (fun b => s.truth.lookup b) c.cfg sg1 (blkMsg hash) = true :=
    verify_single _ c.cfg i bytes _ hs hi hbytes
  obtain ⟨sgq, hcomb, hverq, hlenq⟩ := combine_votes_verifies (fun b => s.truth.lookup b) c.cfg (blkMsg hash)
    (vs ++ [(i, sg1)])
    (by simp only [List.map_append, List.map_cons, List.map_nil]
        rw [List.nodup_append]
        refine ⟨hld.nodup, by simp, ?_⟩
        intro a ha' b hb'
        simp at hb'; subst hb'
        obtain ⟨x, hx, hxe⟩ := List.mem_map.mp ha'
        intro e; exact hnew x hx (by rw [hxe, e]))
    (by simp; omega)
    (by intro v hv
        simp only [List.mem_append, List.mem_singleton] at hv
        rcases hv with hv | rfl
        · exact hld.valid v hv
        · exact ⟨hi, Or.inl ⟨hs, bytes, rfl, hbytes⟩⟩)
  have hcomb' : combine c.cfg (vs.map (fun x => x.2) ++ [sg1]) = .ok sgq := by simpa using hcomb
  have hqlen : c.cfg.quorum ≤ sgq.len := by rw [hlenq]; simpa using hlen
  let qc : QC := ⟨some sgq, B.view, hash⟩
  let s0 : RState := { s with out := [], queue := s.queue ++ [.vote id (some sg1) hash false] }
  let sA : RState := { s0 with queue := [] }
  have hblk : sA.chain.blocks.lookup hash = some B := hc.hasB
  have hvl : (sA.votes.lookup hash).getD [] = vs := by
    show (s.votes.lookup B.hash).getD [] = vs
    rw [hld.votes]; rfl
  have hhi : sA.highQC.view < B.view := by show s.highQC.view < _; rw [hc.bview]; exact hc.hq
  have hcv : (collectVote k c id (some sg1) hash false).run sA = pure ((), qcFormedS c sA hash qc) :=
    collectVote_quorum_run k c sA id i bytes hash B false sgq hblk rfl hgen hhi hsgv (by rw [hvl]; exact hnew)
      (by rw [hvl]; exact hlen) (by rw [hvl]; exact hcomb')
  let sB : RState := qcFormedS c sA hash qc
  have ht1 : (tick k c).run s0 = pure (true, sB) :=
    tick_vote k c s0 sB id (some sg1) hash false [] (by show s.queue ++ _ = _; rw [hc.queue]; rfl) hcv
  let sC : RState := { sB with queue := [] }
  have hverAll : ∀ s' : RState, s'.chain = s.chain → s'.truth = s.truth → verifyQC (env k c s') qc = true := by
    intro s' h1 h2
    exact verifyQC_of_votes k c s' hash B sgq (by rw [h1]; exact hc.hasB) rfl hgen (by rw [h2]; exact hverq) hqlen
  have hsCview : sC.view = w := hc.view
  let m : RState := movedS sC qc B
  have hmhq : (updHighQC sC qc B).highQC = qc := by
    unfold updHighQC
    rw [if_neg (by show ¬ B.view ≤ s.highQC.view; have : s.highQC.view < B.view := hhi; omega)]
  have hmview : m.view = w + 1 := by show sC.view + 1 = _; rw [hsCview]
  let b' : Block := newBlock c m qc
  have hb'hash : b'.hash = pname (w + 1) := by
    show (mkBlock c m.view m.nextCmd qc).hash = _; rw [mkBlock_hash, hmview]
  have hb'view : b'.view = w + 1 := hmview
  have hmark : (markProposed (m.chain.fuel + 1) B).run m = pure (true, m) :=
    markProposed_walk _ _ m hld.mark
  have hrule : ∀ s' : RState, s'.chain = m.chain → s'.lock = m.lock →
      (voteRule c m.view b' none).run s' = pure (true, s') := by
    intro s' hc' hl'
    have hl1 : s'.chain.blocks.lookup b'.qc.hash = some B := by rw [hc']; exact hc.hasB
    have h2 : B.qc.hash = "" ∨ ∃ gb, s'.chain.blocks.lookup B.qc.hash = some gb := Or.inr ⟨P, by rw [hc']; exact hc.hasP⟩
    have hlk : s'.lock.view < B.view := by rw [hl']; show s.lock.view < _; rw [hc.bview]; exact hc.lock
    rcases hr with hr | hr
    · exact voteRule_chained_above c hr s' b' B _ hl1 h2 hlk
    · exact voteRule_simple_ok c hr s' b' B _ (Nat.le_refl _) hl1 h2 (Nat.le_of_lt hlk)
  have hrun := createAndPropose_run k c m qc B none hs (by rcases hr with h | h <;> rw [h] <;> decide)
    (by show m.chain.blocks.lookup (updHighQC sC qc B).highQC.hash = _; rw [hmhq]; exact hc.hasB) hmark
    (by rw [hmview]; show s.lastVoted < _; rw [hc.lastVoted]; omega) hrule (hverAll m rfl rfl)
    (by rw [hmview]; show B.view < _; rw [hc.bview]; omega) hld1.symm
  let v3 := voteS c b' c.id (propS m)
  have hfm : FreshS (propS m) := hf
  obtain ⟨ho3, hl3, hf3, hc3⟩ := voteS_facts c b' c.id (propS m) hfm
  obtain ⟨w1, w2, w3, w4, w5, w6, w7, w8, w9, w10, w11⟩ := voteS_fields c b' c.id (propS m)
  have hv3chain : v3.chain = s.chain := hc3
  have hfe3 : v3.chain.fetchable = [] := by rw [hv3chain]; exact hc.fetch
  have htc : tcS c b' v3 = tcL c b' v3 := tcS_eq_tcL c (by rcases hr with h | h <;> rw [h] <;> decide) b' v3 hfe3
  have hnewB : v3.chain.blocks.lookup b'.hash = none := by rw [hv3chain, hb'hash]; exact (hc.names (w + 1) (by omega)).1
  obtain ⟨t1, t2, t3, evs, t4, t5, t6, t7⟩ := tcL_core c hr b' B P w N v3 hfe3 hnewB
    (by rw [hv3chain]; exact hc.hasB) (Nat.le_of_eq hc.bview) (by rw [hv3chain]; exact hc.hasP) hc.pview
    (by rw [show v3.lock = (propS m).lock from w5]; exact hc.lock) (by rw [hv3chain]; exact hc.small)
  rw [← htc] at t1 t2 t3 t4 t7
  rw [hv3chain] at t1 t7
  rw [show v3.committed = s.committed from w6] at t7
  let s6 : RState := { tcS c b' v3 with out := (tcS c b' v3).out ++ [.sendPropose b' none] }
  have hft := tcS_fresh c b' v3 hf3
  have htcp := tcS_tcp c b' v3
  simp only [TCP, Prod.mk.injEq] at htcp
  obtain ⟨p1, p2, p3, p4, p5, p6, p7, p8, p9, p10, p11, p12, p13, p14, p15⟩ := htcp
  have hs6truth : s6.truth = v3.truth := p12
  have hs6hq : s6.highQC = qc := by
    show (tcS c b' v3).highQC = _; rw [p2]; show v3.highQC = _; rw [show v3.highQC = (propS m).highQC from w2]; exact hmhq
  have hs6votes : s6.votes = sC.votes := by
    show (tcS c b' v3).votes = _; rw [p8]; exact w7
  have hsCvn : ∀ u, w < u → sC.votes.lookup (pname u) = none := by
    intro u hu
    show (cleanVotes sA (sA.votes.filter (fun p => p.1 != hash))).lookup (pname u) = none
    rw [cleanVotes_eq, lookup_filter_key]
    split
    · have := lookup_filter_key (β := List (Nat × Sig)) (fun x => x != hash) sA.votes (pname u)
      rw [this]
      have : sA.votes.lookup (pname u) = none := (hc.names u hu).2
      rw [this]; simp
    · rfl
  have hs6lk : s6.chain.blocks.lookup b'.hash = some b' := by
    show (tcS c b' v3).chain.blocks.lookup _ = _; rw [t1]; simp
  let F : RState := { s6 with out := s6.out ++ [.sendVote L2 (voteSig c b' (propS m)) b'.hash] }
  have hadv : (advanceView k c { qc := some qc }).run sC = pure ((), F) := by
    rw [advanceView_move k c sC qc B ha (hverAll sC rfl rfl) hc.hasB (by rw [hsCview]; show w = B.view; rw [hc.bview])]
    have hL2 : c.leader (b'.view + 1) = L2 := hld2
    rw [if_pos (show c.leader (sC.view + 1) = c.id from hld1), hmhq, hrun,
      aggregateVote_send k c b' _ _ (by rw [hL2]; exact fun e => hne2 e.symm), hL2]
  have ht2 : (tick k c).run sB = pure (true, F) :=
    tick_newview k c sB F c.id { qc := some qc } [] rfl hadv
  let qq : List Ev := [Ev.viewChange (w + 1) false] ++ evs
  have hFq : F.queue = qq := by
    show (tcS c b' v3).queue = _
    rw [t4, show v3.queue = (propS m).queue from w8]
    show (sC.queue ++ [Ev.viewChange (sC.view + 1) false]) ++ evs = _
    rw [hsCview]; rfl
  have hquiet : ∀ e ∈ qq, e.quiet = true := by
    intro e he
    simp only [qq, List.mem_append, List.mem_singleton] at he
    rcases he with rfl | he
    · rfl
    · exact quiet_of_passive e (t5 e he)
  have hFwvc : F.waitingVC = [] := by
    show (tcS c b' v3).waitingVC = _; rw [p9, show v3.waitingVC = (propS m).waitingVC from w10]; exact hc.wvc
  have hrest := runLoop_quiet k c qq 99998 F hquiet hFwvc
    (by simp only [qq, List.length_append, List.length_singleton]; omega)
  have hFF : F = { F with queue := qq } := by rw [← hFq]
  have hstep : step k c s (.vote id (some sg1) hash false) =
      ({ F with queue := [], out := [] }, F.out ++ qq.map Ev.toOut) := by
    rw [step_run_eq k c s _ (99998 + 1 + 1) rfl, runLoop_succ k c _ s0 sB ht1, runLoop_succ k c _ sB F ht2, hFF, hrest]
    rfl
  have hFout : F.out = [.sign (blkMsg b'.hash), .sendPropose b' none, .sendVote L2 (voteSig c b' (propS m)) b'.hash] := by
    show (tcS c b' v3).out ++ _ ++ _ = _
    rw [tcS_out, show v3.out = _ from ho3]; rfl
  have hFblocks : F.chain.blocks = (b'.hash, b') :: s.chain.blocks := t1
  have hle : StoreLe s.chain.blocks F.chain.blocks := by
    rw [hFblocks]; exact storeLe_cons _ _ (by rw [← hv3chain]; exact hnewB)
  have hextF : Ext s { F with queue := [], out := [] } := by
    have e1 : Ext s (propS m) := ext_of_eq s _ hf.2 rfl rfl rfl
    have e2 := voteS_ext c b' c.id (propS m) hs hfm.2
    have e3 := tcS_ext c b' v3 hf3.2
    have e4 : Ext (tcS c b' v3) { F with queue := [], out := [] } := ext_of_eq _ _ hft.2 rfl rfl rfl
    exact ((e1.trans e2).trans e3).trans e4
  refine ⟨sgq, signBytes c (blkMsg b'.hash) (propS m), b', hb'hash, rfl, hb'view, rfl, ?_, hqlen, ?_, ?_, ?_, ?_, ?_, ?_, ?_, ?_⟩
  · show verify (fun b => (step k c s (.vote id (some sg1) hash false)).1.truth.lookup b) _ _ _ = true
    rw [hstep]
    exact verify_mono _ _ _ _ _ (fun b a hb' => hextF.truth b a hb') hverq
  · show SyncR (w + 1) (N + 3) b' B (step k c s (.vote id (some sg1) hash false)).1
    rw [hstep]
    refine ⟨?_, ?_, rfl, hFwvc, ?_, t2, hb'hash, hb'view, ?_, ?_, ?_, ?_, ?_, ?_, ?_⟩
    · show (tcS c b' v3).view = _; rw [p1, show v3.view = (propS m).view from w1]; exact hmview
    · show (tcS c b' v3).lastVoted = _; rw [p4, show v3.lastVoted = b'.view from w11]; exact hb'view
    · show (tcS c b' v3).waitingProp = _; rw [p10, show v3.waitingProp = (propS m).waitingProp from w9]; exact hc.wprop
    · show F.chain.blocks.lookup b'.hash = _; rw [hFblocks]; simp
    · show F.chain.blocks.lookup b'.qc.hash = _; exact hle _ _ hc.hasB
    · rw [hc.bview]; omega
    · show s6.highQC.view < _; rw [hs6hq]; show B.view < _; rw [hc.bview]; omega
    · show (tcS c b' v3).lock.view < _; omega
    · intro u hu
      refine ⟨?_, ?_⟩
      · show F.chain.blocks.lookup (pname u) = none
        rw [hFblocks, List.lookup_cons]
        have : (pname u == b'.hash) = false := by
          rw [beq_eq_false_iff_ne, hb'hash]; intro e; have := pname_inj e; omega
        rw [this]; exact (hc.names u (by omega)).1
      · show s6.votes.lookup (pname u) = none
        rw [hs6votes]; exact hsCvn u (by omega)
    · show 2 * F.chain.blocks.length + (w + 1) ≤ N + 3
      rw [hFblocks]; have := hc.small; simp only [List.length_cons]; omega
  · rw [hstep]
    show markWalk (F.chain.fuel + 1) F.chain.blocks (tcS c b' v3).lastProposed b' = true
    rw [p5, show v3.lastProposed = (propS m).lastProposed from w3]
    unfold markWalk
    rw [if_neg (by show ¬ b'.view > m.view; rw [hb'view, hmview]; omega)]
  · rw [hstep]
    show s6.truth.lookup _ = _
    rw [hs6truth]; exact hl3
  · show (step k c s (.vote id (some sg1) hash false)).1.highQC = _
    rw [hstep]; exact hs6hq
  · show FreshS (step k c s (.vote id (some sg1) hash false)).1
    rw [hstep]; exact hft
  · show Ext s (step k c s (.vote id (some sg1) hash false)).1
    rw [hstep]; exact hextF
  · intro C
    show route C c.id (step k c s (.vote id (some sg1) hash false)).2 = _
    rw [hstep]
    show route C c.id (F.out ++ qq.map Ev.toOut) = _
    rw [route_append, hFout, route_silent C c.id (qq.map Ev.toOut) (by
      intro o ho
      obtain ⟨e, he, rfl⟩ := List.mem_map.mp ho
      exact toOut_silent e (hquiet e he))]
    simp [route, voteSig]
  · intro Z hZ
    show (_ → WalkZ Z (step k c s (.vote id (some sg1) hash false)).1) ∧ (_ → _ → _ →
      (step k c s (.vote id (some sg1) hash false)).1.committed = Z ∧
      Out.commit Z ∈ (step k c s (.vote id (some sg1) hash false)).2 ∧ Out.exec Z ∈ (step k c s (.vote id (some sg1) hash false)).2)
    rw [hstep]
    obtain ⟨z1, z2⟩ := t7 Z hZ.walk hZ.below
    refine ⟨?_, ?_⟩
    · intro hwz
      obtain ⟨y1, y2⟩ := z1 hwz
      refine ⟨?_, y2⟩
      show cmWalk (F.chain.blocks.length + 2) F.chain.blocks (tcS c b' v3).committed.view Z = true
      rw [hFblocks]
      simp only [List.length_cons]; exact y1
    · intro lk1 lk2 hZs
      obtain ⟨y1, y2, y3⟩ := z2 (by show B.hash ≠ ""; rw [hc.bhash]; exact pname_ne_empty _)
        (by rw [lk1.qch]; exact lk1.ne)
        (by rw [lk2.qch]; exact lk2.ne) lk1.parent lk1.view (by rw [lk2.qch]; exact hZs) lk2.parent lk2.view
      refine ⟨y1, ?_, ?_⟩
      · exact List.mem_append_right _ (List.mem_map.mpr ⟨_, List.mem_append_right _ y2, rfl⟩)
      · exact List.mem_append_right _ (List.mem_map.mpr ⟨_, List.mem_append_right _ y3, rfl⟩)

/-- **the NEXT COLLECTOR (leader of view `w + 2`, not the proposer) receives the proposal `B'` of view `w + 1`**: as `nl_step_rot`, but
it hands its vote to its own voting machine instead of sending it -/
theorem nl_step_coll (k : Keys) (c : RCfg) (L w N : Nat) (B P B' : Block) (sgq : Sig) (s : RState)
    (hs : c.scheme ≠ .bls12) (ha : c.agg = false) (hr : c.rules = .chained ∨ c.rules = .simple)
    (hld1 : c.leader (w + 1) = L) (hne : c.id ≠ L) (hld2 : c.leader (w + 1 + 1) = c.id) (hid : c.cfg.has c.id = true) (hq2 : 2 ≤ c.cfg.quorum)
    (hcore : SyncR w N B P s) (hf : FreshS s) (hN : N + 12 ≤ 99999)
    (hb1 : B'.hash = pname (w + 1)) (hb2 : B'.parent = B.hash) (hb3 : B'.view = w + 1)
    (hb4 : B'.qc = ⟨some sgq, B.view, B.hash⟩)
    (hv1 : verify (fun b => s.truth.lookup b) c.cfg sgq (blkMsg B.hash) = true) (hv2 : c.cfg.quorum ≤ sgq.len) :
    SyncR (w + 1) (N + 3) B' B (step k c s (.propose L B' none)).1 ∧
    FreshS (step k c s (.propose L B' none)).1 ∧ Ext s (step k c s (.propose L B' none)).1 ∧
    (step k c s (.propose L B' none)).1.highQC = B'.qc ∧
    (step k c s (.propose L B' none)).1.lastProposed = s.lastProposed ∧
    (step k c s (.propose L B' none)).1.chain.blocks = (B'.hash, B') :: s.chain.blocks ∧
    (∃ bytes, (step k c s (.propose L B' none)).1.truth.lookup bytes = some ⟨c.id, blkMsg B'.hash⟩ ∧
      (step k c s (.propose L B' none)).1.votes.lookup B'.hash = some [(c.id, .multi c.scheme [⟨c.id, bytes⟩])] ∧
      ∀ C : SysCfg, route C c.id (step k c s (.propose L B' none)).2 = [(L, Ev.newview c.id { qc := some B'.qc })]) ∧
    (∀ Z : Block, WalkZ Z s →
      (w ≤ Z.view + 1 → WalkZ Z (step k c s (.propose L B' none)).1) ∧
      (Link B P → Link P Z → s.chain.blocks.lookup Z.hash = some Z →
        (step k c s (.propose L B' none)).1.committed = Z ∧
        Out.commit Z ∈ (step k c s (.propose L B' none)).2 ∧ Out.exec Z ∈ (step k c s (.propose L B' none)).2)) := by
  let q : QC := B'.qc
  let s0 : RState := { s with out := [], queue := s.queue ++ [.propose L B' none] }
  let sA : RState := { s0 with queue := [] }
  have hgen : B.hash ≠ genesisHash := by rw [hcore.bhash]; exact pname_ne_genesis _
  have hqh : q.hash = B.hash := by show B'.qc.hash = _; rw [hb4]
  have hqv : q.view = w := by show B'.qc.view = _; rw [hb4]; exact hcore.bview
  have hlkB : sA.chain.blocks.lookup q.hash = some B := by rw [hqh]; exact hcore.hasB
  have hverA : ∀ s' : RState, s'.chain = s.chain → s'.truth = s.truth → verifyQC (env k c s') q = true := by
    intro s' h1 h2
    have := verifyQC_of_votes k c s' B.hash B sgq (by rw [h1]; exact hcore.hasB) rfl hgen (by rw [h2]; exact hv1) hv2
    show verifyQC _ B'.qc = true
    rw [hb4]; exact this
  -- advanceView
  let s1 : RState := { sA with highQC := q, view := w + 1, lastTimeout := none
                               ghost := sA.ghost ++ [.adv sA.view q.view false], queue := [.viewChange (w + 1) false]
                               out := [.sendNewView L { qc := some q }] }
  have hadv : (advanceView k c { qc := some q }).run sA = pure ((), s1) := by
    rw [advanceView_move k c sA q B ha (hverA sA rfl rfl) hlkB (by show s.view = q.view; rw [hcore.view, hqv])]
    have hnl : ¬ c.leader (sA.view + 1) = c.id := by rw [show sA.view = w from hcore.view, hld1]; exact fun e => hne e.symm
    rw [if_neg hnl]
    have hhq : ¬ B.view ≤ s.highQC.view := by rw [hcore.bview]; have := hcore.hq; omega
    have hv : s.view = w := hcore.view
    simp [emit, movedS, updHighQC, hhq, hv, hld1, sA, s0, s1]
  have hl1 : s1.chain.blocks.lookup B'.qc.hash = some B := hlkB
  -- the vote rule
  have hrule : (voteRule c B'.view B' none).run s1 = pure (true, s1) := by
    have h2 : B.qc.hash = "" ∨ ∃ gb, s1.chain.blocks.lookup B.qc.hash = some gb := Or.inr ⟨P, hcore.hasP⟩
    rcases hr with hr | hr
    · exact voteRule_chained_above c hr s1 B' B _ hl1 h2 (by show s.lock.view < B.view; rw [hcore.bview]; exact hcore.lock)
    · exact voteRule_simple_ok c hr s1 B' B _ (Nat.le_refl _) hl1 h2
        (by show s.lock.view ≤ B.view; rw [hcore.bview]; exact Nat.le_of_lt hcore.lock)
  have hgen' : (onPropose k c L B' none).run sA =
      (aggregateVote k c B' (voteSig c B' (tcS c B' s1))).run (voteS c B' L (tcS c B' s1)) := by
    have h2 : ¬ B'.view > s1.view + 10 := by rw [hb3]; show ¬ w + 1 > w + 1 + 10; omega
    have h3 : ¬ B'.view > s1.view := by rw [hb3]; show ¬ w + 1 > w + 1; omega
    have h4 := voterVerify_ok k c s1 L B' (by show s.lastVoted < B'.view; rw [hcore.lastVoted, hb3]; omega) hrule
      (hverA s1 rfl rfl) (by rw [hb2, hb4]) (by rw [hb3]; show q.view < _; rw [hqv]; omega) (by rw [hb3]; exact hld1.symm)
    have hadv' : (advanceView k c { qc := some B'.qc }).run sA = pure ((), s1) := hadv
    simp [onPropose, hadv', h2, h3, h4, onValidPropose_run_gen k c L B' _ hs]
  -- tryCommit
  have hfe1 : s1.chain.fetchable = [] := hcore.fetch
  have htc : tcS c B' s1 = tcL c B' s1 := tcS_eq_tcL c (by rcases hr with h | h <;> rw [h] <;> decide) B' s1 hfe1
  have hnewB : s1.chain.blocks.lookup B'.hash = none := by rw [hb1]; exact (hcore.names (w + 1) (by omega)).1
  obtain ⟨t1, t2, t3, evs, t4, t5, t6, t7⟩ := tcL_core c hr B' B P w N s1 hfe1 hnewB hl1 (Nat.le_of_eq hcore.bview)
    (by show s.chain.blocks.lookup B.qc.hash = some P; exact hcore.hasP) hcore.pview hcore.lock hcore.small
  rw [← htc] at t1 t2 t3 t4 t7
  let V : RState := voteS c B' L (tcS c B' s1)
  have hfA : FreshS s1 := hf
  have hft := tcS_fresh c B' s1 hfA
  obtain ⟨ho3, hl3, hf3, hc3⟩ := voteS_facts c B' L (tcS c B' s1) hft
  obtain ⟨w1, w2, w3, w4, w5, w6, w7, w8, w9, w10, w11⟩ := voteS_fields c B' L (tcS c B' s1)
  have htcp := tcS_tcp c B' s1
  simp only [TCP, Prod.mk.injEq] at htcp
  obtain ⟨p1, p2, p3, p4, p5, p6, p7, p8, p9, p10, p11, p12, p13, p14, p15⟩ := htcp
  have hVlk : V.chain.blocks.lookup B'.hash = some B' := by
    show (voteS c B' L (tcS c B' s1)).chain.blocks.lookup _ = _; rw [hc3, t1]; simp
  have hVhq : V.highQC = q := by show (voteS c B' L (tcS c B' s1)).highQC = _; rw [w2, p2]
  have hVvotes : V.votes = s.votes := by show (voteS c B' L (tcS c B' s1)).votes = _; rw [w7, p8]
  have hVvl : (V.votes.lookup B'.hash).getD [] = [] := by
    rw [hVvotes, hb1, (hcore.names (w + 1) (by omega)).2]; rfl
  have hVlt : V.highQC.view < B'.view := by rw [hVhq, hqv, hb3]; omega
  have hcv2 := collectVote_add_run k c V c.id c.id (signBytes c (blkMsg B'.hash) (tcS c B' s1)) B'.hash B' false
    hVlk rfl hVlt (verify_single _ c.cfg c.id _ _ hs hid hl3) (by rw [hVvl]; simp) (by rw [hVvl]; simp; omega)
  let A : RState := addVoteS V B'.hash c.id (voteSig c B' (tcS c B' s1))
  have hon : (onPropose k c L B' none).run sA = pure ((), A) := by
    rw [hgen', aggregateVote_self k c B' _ _ (by rw [hb3]; exact hld2)]
    exact hcv2
  obtain ⟨a1, a2⟩ := addVotes_lookup V B'.hash B' ([] ++ [(c.id, voteSig c B' (tcS c B' s1))]) hVlk hVlt
  have hA1 : A.view = s1.view := by show (voteS c B' L (tcS c B' s1)).view = _; rw [w1, p1]
  have hA2 : A.highQC = s1.highQC := hVhq
  have hA3 : A.waitingProp = s1.waitingProp := by show (voteS c B' L (tcS c B' s1)).waitingProp = _; rw [w9, p10]
  have hA4 : A.waitingVC = s1.waitingVC := by show (voteS c B' L (tcS c B' s1)).waitingVC = _; rw [w10, p9]
  have hA5 : A.lastVoted = B'.view := w11
  have hA11 : A.lastProposed = s1.lastProposed := by show (voteS c B' L (tcS c B' s1)).lastProposed = _; rw [w3, p5]
  have hA6 : A.lock = (tcS c B' s1).lock := w5
  have hA7 : A.committed = (tcS c B' s1).committed := w6
  have hA8 : A.chain = (tcS c B' s1).chain := hc3
  have hA9 : A.queue = (tcS c B' s1).queue := w8
  let qq : List Ev := [Ev.viewChange (w + 1) false] ++ evs
  have hAq : A.queue = qq := by
    rw [hA9, t4]
  have hAw : A.waitingProp = [] := by
    rw [hA3]; exact hcore.wprop
  have hquiet : ∀ e ∈ qq, e.quiet = true := by
    intro e he
    simp only [qq, List.mem_append, List.mem_singleton] at he
    rcases he with rfl | he
    · rfl
    · exact quiet_of_passive e (t5 e he)
  have hqlen : qq.length < 99999 := by
    simp only [qq, List.length_append, List.length_singleton]; omega
  have htick := tick_propose k c s0 A L B' none [] (by show s.queue ++ _ = _; rw [hcore.queue]; rfl) hon
  have hX : ({ A with waitingProp := [], queue := A.queue ++ A.waitingProp } : RState) =
      { ({ A with waitingProp := [] } : RState) with queue := qq } := by
    simp only [hAw, hAq, List.append_nil]
  rw [hX] at htick
  have hrest := runLoop_quiet k c qq 99999 { A with waitingProp := [] } hquiet
    (by show A.waitingVC = []; rw [hA4]; exact hcore.wvc) hqlen
  have hstep : step k c s (.propose L B' none) =
      ({ A with waitingProp := [], queue := [], out := [] }, A.out ++ qq.map Ev.toOut) := by
    rw [step_run_eq k c s _ (99999 + 1) rfl, runLoop_succ k c _ s0 _ htick, hrest]
    rfl
  have hAout : A.out = [Out.sendNewView L { qc := some q }, .sign (blkMsg B'.hash)] := by
    show (voteS c B' L (tcS c B' s1)).out = _
    rw [ho3, tcS_out]
    rfl
  have hAchain : A.chain = (tcS c B' s1).chain := hA8
  have hblocks : A.chain.blocks = (B'.hash, B') :: s.chain.blocks := by rw [hAchain]; exact t1
  have hle : StoreLe s.chain.blocks A.chain.blocks := by
    rw [hblocks]; exact storeLe_cons _ _ hnewB
  rw [hstep]
  refine ⟨⟨?_, ?_, rfl, ?_, rfl, ?_, hb1, hb3, ?_, ?_, ?_, ?_, ?_, ?_, ?_⟩, hf3, ?_, ?_, hA11, hblocks,
    ⟨signBytes c (blkMsg B'.hash) (tcS c B' s1), hl3, ?_, ?_⟩, ?_⟩
  · show A.view = _; rw [show A.view = s1.view from hA1]
  · show A.lastVoted = _; rw [show A.lastVoted = B'.view from hA5, hb3]
  · show A.waitingVC = _; rw [show A.waitingVC = s1.waitingVC from hA4]; exact hcore.wvc
  · show A.chain.fetchable = _; rw [hAchain]; exact t2
  · show A.chain.blocks.lookup B'.hash = _; rw [hblocks]; simp
  · show A.chain.blocks.lookup B'.qc.hash = _; exact hle _ _ hl1
  · rw [hcore.bview]; omega
  · show A.highQC.view < _; rw [show A.highQC = s1.highQC from hA2]; show q.view < _; rw [hqv]; omega
  · show A.lock.view < _; rw [show A.lock = (tcS c B' s1).lock from hA6]; omega
  · intro u hu
    refine ⟨?_, ?_⟩
    · show A.chain.blocks.lookup (pname u) = none
      rw [hblocks, List.lookup_cons]
      have : (pname u == B'.hash) = false := by
        rw [beq_eq_false_iff_ne, hb1]; intro e; have := pname_inj e; omega
      rw [this]; exact (hcore.names u (by omega)).1
    · show (cleanVotes V _).lookup (pname u) = none
      rw [hVvl]
      exact a2 (pname u) (by rw [hb1]; intro e; have := pname_inj e; omega) (by rw [hVvotes]; exact (hcore.names u (by omega)).2)
  · show 2 * A.chain.blocks.length + (w + 1) ≤ N + 3
    rw [hblocks]; have := hcore.small; simp only [List.length_cons]; omega
  · have e1 : Ext s s1 := ext_of_eq s s1 hf.2 rfl rfl rfl
    have e2 := tcS_ext c B' s1 hfA.2
    have e3 := voteS_ext c B' L (tcS c B' s1) hs hft.2
    have e4 : Ext (voteS c B' L (tcS c B' s1)) { A with waitingProp := [], queue := [], out := [] } :=
      ext_of_eq _ _ hf3.2 rfl rfl rfl
    exact ((e1.trans e2).trans e3).trans e4
  · show A.highQC = _; rw [show A.highQC = s1.highQC from hA2]
  · show (cleanVotes V _).lookup B'.hash = _
    rw [hVvl]; exact a1
  · intro C
    rw [route_append, hAout]
    rw [route_silent C c.id (qq.map Ev.toOut) (by
      intro o ho
      obtain ⟨e, he, rfl⟩ := List.mem_map.mp ho
      exact toOut_silent e (hquiet e he))]
    simp [route]; rfl
  · intro Z hZ
    obtain ⟨z1, z2⟩ := t7 Z hZ.walk hZ.below
    refine ⟨?_, ?_⟩
    · intro hwz
      obtain ⟨y1, y2⟩ := z1 hwz
      refine ⟨?_, ?_⟩
      · show cmWalk (A.chain.blocks.length + 2) A.chain.blocks A.committed.view Z = true
        rw [hblocks, show A.committed = (tcS c B' s1).committed from hA7]
        simp only [List.length_cons]; exact y1
      · show A.committed.view < _; rw [show A.committed = (tcS c B' s1).committed from hA7]; exact y2
    · intro lk1 lk2 hZs
      obtain ⟨y1, y2, y3⟩ := z2 (by rw [hb4]; show B.hash ≠ ""; rw [hcore.bhash]; exact pname_ne_empty _)
        (by rw [lk1.qch]; exact lk1.ne)
        (by rw [lk2.qch]; exact lk2.ne) lk1.parent lk1.view (by rw [lk2.qch]; exact hZs) lk2.parent lk2.view
      refine ⟨?_, ?_, ?_⟩
      · show A.committed = Z; rw [show A.committed = (tcS c B' s1).committed from hA7]; exact y1
      · exact List.mem_append_right _ (List.mem_map.mpr ⟨_, List.mem_append_right _ y2, rfl⟩)
      · exact List.mem_append_right _ (List.mem_map.mpr ⟨_, List.mem_append_right _ y3, rfl⟩)


theorem markWalk_mono : ∀ (f f' : Nat) (st st' : List (Hash × Block)) (lp : Nat) (b : Block),
    f ≤ f' → StoreLe st st' → markWalk f st lp b = true → markWalk f' st' lp b = true := by
  intro f
  induction f with
  | zero => intro f' st st' lp b _ _ h; simp [markWalk] at h
  | succ n ih =>
    intro f' st st' lp b hf hs h
    cases f' with
    | zero => omega
    | succ m =>
      unfold markWalk at h ⊢
      by_cases h1 : b.view > lp
      · rw [if_pos h1] at h ⊢
        cases hl : st.lookup b.qc.hash with
        | none => rw [hl] at h; cases h
        | some nb =>
          rw [hl] at h
          rw [hs _ _ hl]
          exact ih m st st' lp nb (by omega) hs h
      · rw [if_neg h1]

/-- the walk that marks ancestors as proposed survives the next block of the chain (at a replica that does not propose it) -/
theorem mark_step (s s' : RState) (B B' : Block) (hb : s'.chain.blocks = (B'.hash, B') :: s.chain.blocks)
    (hf : s.chain.fetchable = []) (hf' : s'.chain.fetchable = []) (hlp : s'.lastProposed = s.lastProposed)
    (hnew : s.chain.blocks.lookup B'.hash = none) (hq : s.chain.blocks.lookup B'.qc.hash = some B)
    (h : markWalk (s.chain.fuel + 1) s.chain.blocks s.lastProposed B = true) :
    markWalk (s'.chain.fuel + 1) s'.chain.blocks s'.lastProposed B' = true := by
  have hfu : s'.chain.fuel = s.chain.fuel + 1 := by
    unfold RChain.fuel; rw [hb, hf, hf']; simp
  rw [hfu, hlp]
  unfold markWalk
  split
  · rw [hb, storeLe_cons _ _ hnew _ _ hq]
    exact markWalk_mono _ _ _ _ _ _ (Nat.le_refl _) (storeLe_cons _ _ hnew) h
  · rfl

end HsVerif.Model
