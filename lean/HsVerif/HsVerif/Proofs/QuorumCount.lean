import HsVerif.Model.Quorum
/-! Counting form of quorum intersection: among ids `0..n-1`, two sets of at least `quorumSize n`
members share a member outside any set of at most `numFaulty n` members. -/
namespace HsVerif.QuorumCount
open HsVerif.Model

/-- number of ids below `n` satisfying `P` -/
def count (P : Nat → Bool) : Nat → Nat
  | 0 => 0
  | n + 1 => count P n + (if P n then 1 else 0)

theorem count_le (P : Nat → Bool) (n : Nat) : count P n ≤ n := by
  induction n with
  | zero => simp [count]
  | succ n ih => simp only [count]; split <;> omega

theorem count_union (P Q : Nat → Bool) (n : Nat) :
    count P n + count Q n ≤ n + count (fun i => P i && Q i) n := by
  induction n with
  | zero => simp [count]
  | succ n ih =>
    simp only [count]
    by_cases hp : P n = true <;> by_cases hq : Q n = true <;> simp [hp, hq] <;> omega

theorem count_mono (P Q : Nat → Bool) (n : Nat) (h : ∀ i, i < n → P i = true → Q i = true) :
    count P n ≤ count Q n := by
  induction n with
  | zero => simp [count]
  | succ n ih =>
    simp only [count]
    have ih' := ih (fun i hi => h i (by omega))
    by_cases hp : P n = true
    · have := h n (by omega) hp; simp [hp, this]; omega
    · simp [hp]; split <;> omega

/-- two quorums share a member that is not in the faulty set -/
theorem quorums_share_honest (n : Nat) (hn : 1 ≤ n) (A B byz : Nat → Bool)
    (hA : quorumSize n ≤ count A n) (hB : quorumSize n ≤ count B n) (hf : count byz n ≤ numFaulty n) :
    ∃ i, i < n ∧ A i = true ∧ B i = true ∧ byz i = false := by
  apply Classical.byContradiction
  intro hne
  have hsub : ∀ i, i < n → (A i && B i) = true → byz i = true := by
    intro i hi hab
    cases hbz : byz i
    · exfalso; apply hne
      simp only [Bool.and_eq_true] at hab
      exact ⟨i, hi, hab.1, hab.2, hbz⟩
    · rfl
  have h1 := count_union A B n
  have h2 := count_mono (fun i => A i && B i) byz n hsub
  have h3 : n + numFaulty n + 1 ≤ 2 * quorumSize n := by unfold quorumSize numFaulty; omega
  omega

end HsVerif.QuorumCount
