import HsVerif.Proofs.ReplicaNoPanic
import HsVerif.Proofs.CombineShape
/-! The voting machine (C09): `collectVote` (= `VotingMachine.CollectVote` + `verifyCert`, synchronous). -/
open Std.Do
set_option mvcgen.warning false
set_option linter.unusedSimpArgs false
namespace HsVerif.Model

/-- a stored vote: signer `v.1`, signature `v.2`, for the block named `h` -/
def VoteOK (k : Keys) (c : RCfg) (h : Hash) (v : Nat × Sig) : Prop :=
  1 ≤ v.1 ∧ Shape c.cfg v.1 v.2 ∧ ∃ s0 : RState, verifyPC (env k c s0) (some v.2) h = .ok ()

/-- voting-machine invariant: per block, the stored votes come from pairwise different signers,
each is a single-signer signature that passed `VerifyPartialCert`, and fewer than a quorum are
waiting (a quorum is turned into a certificate at once) -/
def VMI (k : Keys) (c : RCfg) (s : RState) : Prop :=
  ∀ p ∈ s.votes, (p.2.map (·.1)).Nodup ∧ p.2.length < c.cfg.quorum ∧ ∀ v ∈ p.2, VoteOK k c p.1 v

theorem vmi_filter (k : Keys) (c : RCfg) (s : RState) (f : Hash × List (Nat × Sig) → Bool) (h : VMI k c s) :
    VMI k c { s with votes := s.votes.filter f } := by
  intro p hp
  exact h p (List.mem_filter.mp hp).1

theorem votesCleanup_vm (k : Keys) (c : RCfg) :
    ⦃fun s => ⌜VMI k c s⌝⦄ votesCleanup ⦃⇓ _ s => ⌜VMI k c s⌝⦄ := by
  mvcgen [votesCleanup]
  exact vmi_filter k c _ _ ‹VMI k c _›

theorem lookup_mem_str {α} (l : List (String × α)) (k : String) (v : α) (h : l.lookup k = some v) : (k, v) ∈ l := by
  induction l with
  | nil => simp at h
  | cons p ps ih =>
    obtain ⟨k', v'⟩ := p
    simp only [List.lookup_cons] at h
    split at h
    · rename_i hk
      simp at hk h; subst hk; subst h; simp
    · exact List.mem_cons_of_mem _ (ih h)

/-- the votes already stored for `hash` satisfy the per-block invariant -/
theorem vmi_lookup (k : Keys) (c : RCfg) (s : RState) (hash : Hash) (h : VMI k c s) (hq : 2 ≤ c.cfg.quorum) :
    let old := (s.votes.lookup hash).getD []
    (old.map (·.1)).Nodup ∧ old.length < c.cfg.quorum ∧ ∀ v ∈ old, VoteOK k c hash v := by
  cases hl : s.votes.lookup hash with
  | none => simp; omega
  | some l => simpa using h (hash, l) (lookup_mem_str _ _ _ hl)

theorem participants_of_len_one (sg : Sig) (hw : sg.WF) (hl : sg.len = 1) : sg.participants = [sg.first] := by
  cases sg with
  | multi k es =>
    match es, hl with
    | [e], _ => simp [Sig.participants, Sig.first]
  | bls a j bits =>
    simp only [Sig.WF] at hw
    simp only [Sig.len] at hl
    have : bits.ids.length = 1 := by rw [← hw]; exact hl
    simp only [Sig.participants, Sig.first]
    match hh : bits.ids, this with
    | [x], _ => simp [hh]

/-- a vote accepted by `verifyCert` is a `VoteOK` -/
theorem voteOK_of_verify (k : Keys) (c : RCfg) (s : RState) (hash : Hash) (sg : Sig)
    (hw : sg.WF) (hl : sg.len = 1) (hv : verifyPC (env k c s) (some sg) hash = .ok ()) :
    VoteOK k c hash (sg.first, sg) := by
  have hp := participants_of_len_one sg hw hl
  have hver : ∃ b, verify (env k c s).T (env k c s).cfg sg (blkMsg b) = true := by
    unfold verifyPC at hv
    split at hv
    · simp at hv
    · rename_i b _
      simp only at hv
      split at hv
      · exact ⟨b.hash, by assumption⟩
      · simp at hv
  obtain ⟨b, hb⟩ := hver
  have hs := verify_sound _ _ _ _ hb hw
  have hhas := (hs.2.2.2 sg.first (by rw [hp]; simp)).1
  refine ⟨by simp [Cfg.has] at hhas; exact hhas.1, shape_of_verify _ _ _ _ _ hw hl hp hb, s, hv⟩

theorem vmi_insert (k : Keys) (c : RCfg) (s : RState) (hash : Hash) (v : Nat × Sig)
    (h : VMI k c s) (hv : VoteOK k c hash v) (hq2 : 2 ≤ c.cfg.quorum)
    (hfresh : ∀ x : Sig, (v.1, x) ∉ (s.votes.lookup hash).getD [])
    (hlt : ((s.votes.lookup hash).getD []).length + 1 < c.cfg.quorum) :
    VMI k c { s with votes := (hash, (s.votes.lookup hash).getD [] ++ [v]) :: s.votes.filter (fun p => p.1 != hash) } := by
  obtain ⟨h1, _, h3⟩ := vmi_lookup k c s hash h hq2
  intro p hp
  simp only [List.mem_cons] at hp
  rcases hp with rfl | hp
  · refine ⟨?_, by simp; omega, ?_⟩
    · simp only [List.map_append, List.map_cons, List.map_nil]
      rw [List.nodup_append]
      refine ⟨h1, by simp, ?_⟩
      intro a ha b hb
      simp at hb; subst hb
      intro e; subst e
      obtain ⟨x, hx, hxe⟩ := List.mem_map.mp ha
      exact hfresh x.2 (by rw [← hxe]; exact hx)
    · intro w hw
      simp only [List.mem_append, List.mem_singleton] at hw
      rcases hw with hw | rfl
      · exact h3 w hw
      · exact hv
  · exact h p (List.mem_filter.mp hp).1

/-- with the invariant, assembling the certificate cannot fail once a quorum of votes is there:
hostile votes cannot block it (n ≥ 2) -/
theorem combine_votes_ok (k : Keys) (c : RCfg) (s : RState) (hash : Hash) (v : Nat × Sig)
    (h : VMI k c s) (hv : VoteOK k c hash v) (hq2 : 2 ≤ c.cfg.quorum)
    (hfresh : ∀ x : Sig, (v.1, x) ∉ (s.votes.lookup hash).getD [])
    (hq : c.cfg.quorum ≤ ((s.votes.lookup hash).getD []).length + 1) :
    ∃ sg, combine c.cfg (((s.votes.lookup hash).getD [] ++ [v]).map (·.2)) = .ok sg := by
  obtain ⟨h1, _, h3⟩ := vmi_lookup k c s hash h hq2
  let votes := (s.votes.lookup hash).getD [] ++ [v]
  have hnd : (votes.map (·.1)).Nodup := by
    simp only [votes, List.map_append, List.map_cons, List.map_nil]
    rw [List.nodup_append]
    refine ⟨h1, by simp, ?_⟩
    intro a ha b hb
    simp at hb; subst hb
    intro e; subst e
    obtain ⟨x, hx, hxe⟩ := List.mem_map.mp ha
    exact hfresh x.2 (by rw [← hxe]; exact hx)
  have hok : ∀ w ∈ votes, VoteOK k c hash w := by
    intro w hw
    simp only [votes, List.mem_append, List.mem_singleton] at hw
    rcases hw with hw | rfl
    · exact h3 w hw
    · exact hv
  let f : Nat → Sig := fun i => ((votes.find? (fun w => w.1 == i)).map (·.2)).getD (.multi .ecdsa [])
  have hfind : ∀ w ∈ votes, votes.find? (fun y => y.1 == w.1) = some w := by
    have : ∀ (l : List (Nat × Sig)), (l.map (·.1)).Nodup → ∀ w ∈ l, l.find? (fun y => y.1 == w.1) = some w := by
      intro l
      induction l with
      | nil => intro _ w hw; simp at hw
      | cons y ys ih =>
        intro hk w hw
        simp only [List.map_cons, List.nodup_cons, List.mem_map, not_exists, not_and] at hk
        simp only [List.mem_cons] at hw
        rcases hw with rfl | hw
        · simp
        · have hne : (y.1 == w.1) = false := by
            rw [beq_eq_false_iff_ne]; exact fun e => hk.1 w hw e.symm
          rw [List.find?_cons, hne]
          exact ih hk.2 w hw
    exact this votes hnd
  have hmap : (votes.map (·.1)).map f = votes.map (·.2) := by
    simp only [List.map_map]
    apply List.map_congr_left
    intro w hw
    simp [f, hfind w hw]
  obtain ⟨sg, hsg, _⟩ := combine_shapes_ok c.cfg (votes.map (·.1)) f hnd
    (by intro i hi; obtain ⟨w, hw, rfl⟩ := List.mem_map.mp hi; exact (hok w hw).1)
    (by simp [votes]; omega)
    (by intro i hi
        obtain ⟨w, hw, rfl⟩ := List.mem_map.mp hi
        have : f w.1 = w.2 := by simp [f, hfind w hw]
        rw [this]; exact (hok w hw).2.1)
  exact ⟨sg, by rw [← hmap]; exact hsg⟩

/-- `collectVote` keeps the invariant (n ≥ 2; the vote's signature value is well formed, as every
decoded or created signature is) -/
theorem collectVote_vm (k : Keys) (c : RCfg) (id : Nat) (sig : Option Sig) (hash : Hash) (d : Bool)
    (hq : 2 ≤ c.cfg.quorum) (hw : ∀ sg, sig = some sg → sg.WF) :
    ⦃fun s => ⌜VMI k c s⌝⦄ collectVote k c id sig hash d ⦃⇓ _ s => ⌜VMI k c s⌝⦄ := by
  mvcgen [collectVote, votesCleanup_vm, getBlock, addEvent]
  all_goals simp_all +zetaDelta
  any_goals (exact vmi_filter k c _ _ ‹VMI k c _›)
  any_goals (
    rename_i hlen _ hvmi _ _ hpc hfresh hlt
    exact vmi_insert k c _ hash _ hvmi (voteOK_of_verify k c _ hash _ hw hlen hpc) hq hfresh hlt)
  all_goals (
    rename_i hlen _ hvmi _ _ hpc hfresh hle hnone
    exfalso
    obtain ⟨sg', hsg'⟩ := combine_votes_ok k c _ hash (_, _) hvmi (voteOK_of_verify k c _ hash _ hw hlen hpc) hq hfresh hle
    simp only [List.map_append, List.map_cons, List.map_nil] at hsg'
    rw [hsg'] at hnone
    split at hnone <;> simp at hnone)

/-- what a queued certificate is made of -/
def QCFromVotes (k : Keys) (c : RCfg) (hash : Hash) (qc : QC) : Prop :=
  ∃ votes : List (Nat × Sig), c.cfg.quorum ≤ votes.length ∧ (votes.map (·.1)).Nodup ∧ (∀ v ∈ votes, VoteOK k c hash v) ∧
    (qc = genesisQC ∨ ∃ (sg : Sig) (b : Block), combine c.cfg (votes.map (·.2)) = .ok sg ∧ qc = ⟨some sg, b.view, b.hash⟩)

theorem qc_from_votes (k : Keys) (c : RCfg) (s : RState) (hash : Hash) (sg : Sig) (parent : Block) (q : QC)
    (h : VMI k c s) (hq2 : 2 ≤ c.cfg.quorum) (hv : VoteOK k c hash (sg.first, sg))
    (hfresh : ∀ x : Sig, (sg.first, x) ∉ (s.votes.lookup hash).getD [])
    (hle : c.cfg.quorum ≤ ((s.votes.lookup hash).getD []).length + 1)
    (hx : (if parent.hash = genesisHash then some genesisQC
      else match combine c.cfg (List.map (fun x => x.snd) ((s.votes.lookup hash).getD []) ++ [sg]) with
        | CombineRes.ok s => some { sig := some s, view := parent.view, hash := parent.hash }
        | _ => none) = some q) : QCFromVotes k c hash q := by
  obtain ⟨h1, _, h3⟩ := vmi_lookup k c s hash h hq2
  refine ⟨(s.votes.lookup hash).getD [] ++ [(sg.first, sg)], by simp; omega, ?_, ?_, ?_⟩
  · simp only [List.map_append, List.map_cons, List.map_nil]
    rw [List.nodup_append]
    refine ⟨h1, by simp, ?_⟩
    intro a ha b hb
    simp at hb; subst hb
    intro e; subst e
    obtain ⟨x, hx', hxe⟩ := List.mem_map.mp ha
    exact hfresh x.2 (by rw [← hxe]; exact hx')
  · intro w hw'
    simp only [List.mem_append, List.mem_singleton] at hw'
    rcases hw' with hw' | rfl
    · exact h3 w hw'
    · exact hv
  · split at hx
    · left; simpa using hx.symm
    · right
      split at hx
      · rename_i sg' hc
        simp at hx
        exact ⟨sg', parent, by simpa using hc, hx.symm⟩
      · simp at hx

theorem votesCleanup_queue (q0 : List Ev) :
    ⦃fun s => ⌜s.queue = q0⌝⦄ votesCleanup ⦃⇓ _ s => ⌜s.queue = q0⌝⦄ := by
  mvcgen [votesCleanup] <;> simp_all +zetaDelta

/-- `collectVote` queues at most one event, a NewView carrying a certificate assembled from at
least a quorum of stored votes (distinct signers, each a verified single-signer vote) -/
theorem collectVote_queue (k : Keys) (c : RCfg) (id : Nat) (sig : Option Sig) (hash : Hash) (d : Bool) (q0 : List Ev)
    (hq : 2 ≤ c.cfg.quorum) (hw : ∀ sg, sig = some sg → sg.WF) :
    ⦃fun s => ⌜VMI k c s ∧ s.queue = q0⌝⦄ collectVote k c id sig hash d
    ⦃⇓ _ s => ⌜s.queue = q0 ∨ ∃ qc, s.queue = q0 ++ [.newview c.id { qc := some qc }] ∧ QCFromVotes k c hash qc⌝⦄ := by
  mvcgen [collectVote, votesCleanup_queue, getBlock, addEvent]
  all_goals simp_all +zetaDelta
  all_goals (
    intro _
    exact qc_from_votes k c _ hash _ _ _ (And.left ‹VMI k c _ ∧ _›) hq
      (voteOK_of_verify k c _ hash _ hw (by assumption) (by assumption)) (by assumption) (by assumption) (by assumption))

end HsVerif.Model
