import HsVerif.Proofs.ReplicaLockInv
/-!
The lock rule at replica level (C01 layer B): what the answers of `Blockchain.Extends`, of the vote
rule and of the commit rule MEAN in terms of the stored blocks, and that every handler of the replica
model casts a vote only after the vote rule held against the lock of that moment.

* `extends_sound`: a positive answer of `extendsM b t` is a walk along stored parent links
  (`StoreExt`), and such walks survive every growth of the block map (`storeExt_grows`).
* `voteRule_rule`: a positive answer of `voteRule` is `RuleHolds` against the lock it was evaluated
  with.  `commitRule_rule`: `commitRule c b` moves the lock only to the block two certificate links
  below `b` (`LockStep`, `Via`), and a positive answer is a three-chain (`CommitChain`).
* `commitInner_cm`: the committer either leaves `committed` alone or sets it to the block it was asked
  to commit.  `tryCommit_tc`: the whole of `tryCommit c b` as a relation between states (`TCom`).
* `Core` / `VR`: the one-step invariant carried through all handlers up to `step` and `start`,
  relative to the state `s0` the step started in: the ghost history is `s0.ghost ++ new`, and every
  vote in `new` has a block `L` (the lock when its vote rule was evaluated) with
  `s0.lock.view ≤ L.view ≤ lock.view`, `RuleHolds`, and `L` is `s0.lock` or two certificate links below
  a block voted for in `new`; the lock and the committed block are those of `s0` or come from a
  block voted for in `new`.  `VRP`: the same with a block that passed the vote rule but is not voted
  for yet (`onValidPropose` runs `tryCommit` between the two), `VRW`: with a block known to be voted
  for (`createAndPropose` runs `tryCommit` after the vote).
Frames `_lc` GENERATED from the lock frames (Proofs/ReplicaLock.lean) by textual substitution.
-/
open Std.Do
set_option mvcgen.warning false
set_option linter.unusedSimpArgs false
namespace HsVerif.Model
open HsVerif.Proofs

theorem storeExt_grows (s s' : RState) (b t : Block) (hg : Grows s.chain.blocks s')
    (h : StoreExt s b t) : StoreExt s' b t := by
  induction h with
  | here w l h1 h2 => exact .here w l h1 h2
  | up w p l h1 h2 _ ih => exact .up w p l h1 (hg _ _ h2) ih

theorem get_some (c : RChain) (h : Hash) (b : Block) (hr : (c.get h).2 = some b) :
    (c.get h).1.blocks.lookup h = some b := by
  unfold RChain.get at *
  split
  · rename_i b' hb; simp_all
  · split
    · rename_i hn b' hb
      simp_all [List.lookup_cons]
    · simp_all

theorem get_grows (c : RChain) (h : Hash) : ChainGrows c.blocks (c.get h).1 :=
  chainGrows_get _ c h (ChainGrows.refl c)

theorem extendsAux_sound : ∀ (fuel : Nat) (c : RChain) (b t : Block) (s' : RState),
    (RChain.extendsAux fuel c b t).2 = true → ChainGrows (RChain.extendsAux fuel c b t).1.blocks s'.chain →
    StoreExt s' b t := by
  intro fuel
  induction fuel with
  | zero => intro c b t s' h; simp [RChain.extendsAux] at h
  | succ n ih =>
    intro c b t s' h hg
    unfold RChain.extendsAux at h hg
    split at h
    · rename_i hv
      rw [if_pos hv] at hg
      generalize hget : c.get b.parent = r at h hg
      obtain ⟨c', o⟩ := r
      cases o with
      | none => simp at h
      | some p =>
        simp only at h hg
        have hl : c'.blocks.lookup b.parent = some p := by
          have := get_some c b.parent p (by rw [hget])
          rw [hget] at this; exact this
        have hgr : ChainGrows c'.blocks (RChain.extendsAux n c' p t).1 :=
          chainGrows_extendsAux _ n c' p t (ChainGrows.refl c')
        exact .up b p t hv (hg _ _ (hgr _ _ hl)) (ih c' p t s' h hg)
    · rename_i hv
      rw [if_neg hv] at hg
      simp only [beq_iff_eq] at h
      exact .here b t hv h

theorem extends_sound_chain (c : RChain) (b t : Block) (s' : RState)
    (h : (c.extends b t).2 = true) (hg : ChainGrows (c.extends b t).1.blocks s'.chain) : StoreExt s' b t :=
  extendsAux_sound _ c b t s' h hg


theorem rh_chained_qc (c : RCfg) (s : RState) (b L p : Block) (hr : c.rules = .chained)
    (hl : sget s b.qc.hash = some p) (hv : p.view > L.view) : RuleHolds c s b L := by
  simp only [RuleHolds, hr]; exact Or.inl ⟨p, hl, hv⟩
theorem rh_chained_ext (c : RCfg) (s : RState) (b L : Block) (hr : c.rules = .chained)
    (h : StoreExt s b L) : RuleHolds c s b L := by
  simp only [RuleHolds, hr]; exact Or.inr h
theorem rh_simple (c : RCfg) (s : RState) (b L p : Block) (hr : c.rules = .simple)
    (hl : sget s b.qc.hash = some p) (hv : L.view ≤ p.view) : RuleHolds c s b L := by
  simp only [RuleHolds, hr]; exact ⟨p, hl, hv⟩
theorem rh_fast (c : RCfg) (s : RState) (b L : Block) (hr : c.rules = .fast) : RuleHolds c s b L := by
  simp only [RuleHolds, hr]

theorem voteRule_rule (c : RCfg) (v : Nat) (b : Block) (agg : Option AggQC) (L : Block) :
    ⦃fun s => ⌜s.lock = L⌝⦄ voteRule c v b agg ⦃⇓ r s => ⌜s.lock = L ∧ (r = true → RuleHolds c s b L)⌝⦄ := by
  mvcgen [voteRule, getBlock, extendsM]
  all_goals (refine ⟨by assumption, ?_⟩)
  all_goals (try (intro hres))
  all_goals (try subst_vars)
  all_goals (first
    | (cases hres; done)
    | exact rh_fast _ _ _ _ (by assumption)
    | exact rh_chained_qc _ _ _ _ _ (by assumption) (get_grows _ _ _ _ (get_some _ _ _ (by assumption))) (by simp_all)
    | exact rh_chained_qc _ _ _ _ _ (by assumption) (get_some _ _ _ (by assumption)) (by simp_all)
    | exact rh_chained_ext _ _ _ _ (by assumption) (extends_sound_chain _ _ _ _ (by assumption) (ChainGrows.refl _))
    | exact rh_simple _ _ _ _ _ (by assumption) (get_grows _ _ _ _ (get_some _ _ _ (by assumption))) (by simp at hres; omega)
    | exact rh_simple _ _ _ _ _ (by assumption) (get_some _ _ _ (by assumption)) (by simp at hres; omega)
    | skip)

/-- `L` is reached from `x` by two certificate links in the store (for chained HotStuff the second
one through `qcRef`, which does not follow an empty certificate hash; simplified HotStuff calls
`Get` on whatever hash the certificate carries) -/
def Via (c : RCfg) (s : RState) (x L : Block) : Prop :=
  ∃ p, sget s x.qc.hash = some p ∧ sget s p.qc.hash = some L ∧ (c.rules = .chained → p.qc.hash ≠ "")

/-- what a positive answer `some b3` of the commit rule for `b` means -/
def CommitChain (c : RCfg) (s : RState) (b b3 : Block) : Prop :=
  match c.rules with
  | .chained => ∃ b1 b2, b.qc.hash ≠ "" ∧ sget s b.qc.hash = some b1 ∧ b1.qc.hash ≠ "" ∧ sget s b1.qc.hash = some b2 ∧
      b2.qc.hash ≠ "" ∧ sget s b2.qc.hash = some b3 ∧
      b1.parent = b2.hash ∧ b1.view = b2.view + 1 ∧ b2.parent = b3.hash ∧ b2.view = b3.view + 1
  | .simple => ∃ p gp, sget s b.qc.hash = some p ∧ sget s p.qc.hash = some gp ∧ sget s gp.qc.hash = some b3 ∧
      b3.view + 2 = p.view ∧ gp.view = b3.view + 1
  | .fast => ∃ p, b.qc.hash ≠ "" ∧ sget s b.qc.hash = some p ∧ p.qc.hash ≠ "" ∧ sget s p.qc.hash = some b3 ∧
      b.parent = p.hash ∧ b.view = p.view + 1 ∧ p.parent = b3.hash ∧ p.view = b3.view + 1


/-- how one `commitRule c b` moves the lock away from `L0` -/
def LockStep (c : RCfg) (b L0 : Block) (s : RState) : Prop :=
  s.lock = L0 ∨ (L0.view < s.lock.view ∧ Via c s b s.lock)

theorem lockStep_same (c : RCfg) (b L0 : Block) (s : RState) (h : s.lock = L0) : LockStep c b L0 s := Or.inl h

theorem lockStep_upd (c : RCfg) (b L0 g : Block) (s : RState) (hv : Via c s b g)
    (h : s.lock = if g.view > L0.view then g else L0) : LockStep c b L0 s := by
  unfold LockStep
  rw [h]
  split
  · exact Or.inr ⟨by assumption, hv⟩
  · exact Or.inl rfl

macro "lk" : tactic => `(tactic| first
  | exact get_some _ _ _ (by assumption)
  | exact get_grows _ _ _ _ (get_some _ _ _ (by assumption))
  | exact get_grows _ _ _ _ (get_grows _ _ _ _ (get_some _ _ _ (by assumption))))


theorem cc_chained (c : RCfg) (s : RState) (b b1 b2 b3 : Block) (hr : c.rules = .chained)
    (h0 : b.qc.hash ≠ "") (l1 : sget s b.qc.hash = some b1) (h1 : b1.qc.hash ≠ "") (l2 : sget s b1.qc.hash = some b2)
    (h2 : b2.qc.hash ≠ "") (l3 : sget s b2.qc.hash = some b3)
    (hp : ((b1.parent = b2.hash ∧ b1.view = b2.view + 1) ∧ b2.parent = b3.hash) ∧ b2.view = b3.view + 1) :
    CommitChain c s b b3 := by
  simp only [CommitChain, hr]
  exact ⟨b1, b2, h0, l1, h1, l2, h2, l3, hp.1.1.1, hp.1.1.2, hp.1.2, hp.2⟩

theorem cc_fast (c : RCfg) (s : RState) (b p b3 : Block) (hr : c.rules = .fast)
    (h0 : b.qc.hash ≠ "") (l1 : sget s b.qc.hash = some p) (h1 : p.qc.hash ≠ "") (l2 : sget s p.qc.hash = some b3)
    (hp : ((b.parent = p.hash ∧ b.view = p.view + 1) ∧ p.parent = b3.hash) ∧ p.view = b3.view + 1) :
    CommitChain c s b b3 := by
  simp only [CommitChain, hr]
  exact ⟨p, h0, l1, h1, l2, hp.1.1.1, hp.1.1.2, hp.1.2, hp.2⟩

theorem cc_simple (c : RCfg) (s : RState) (b p gp b3 : Block) (hr : c.rules = .simple)
    (l1 : sget s b.qc.hash = some p) (l2 : sget s p.qc.hash = some gp) (l3 : sget s gp.qc.hash = some b3)
    (hp : b3.view + 2 = p.view ∧ gp.view = b3.view + 1) :
    CommitChain c s b b3 := by
  simp only [CommitChain, hr]
  exact ⟨p, gp, l1, l2, l3, hp.1, hp.2⟩

theorem via_chained (c : RCfg) (s : RState) (x p L : Block)
    (l1 : sget s x.qc.hash = some p) (h1 : p.qc.hash ≠ "") (l2 : sget s p.qc.hash = some L) :
    Via c s x L := ⟨p, l1, l2, fun _ => h1⟩

theorem via_simple (c : RCfg) (s : RState) (x p L : Block) (hr : c.rules = .simple)
    (l1 : sget s x.qc.hash = some p) (l2 : sget s p.qc.hash = some L) :
    Via c s x L := ⟨p, l1, l2, fun h => by rw [hr] at h; cases h⟩

theorem commitRule_rule (c : RCfg) (b L0 : Block) :
    ⦃fun s => ⌜s.lock = L0⌝⦄ commitRule c b
    ⦃⇓ r s => ⌜LockStep c b L0 s ∧ (∀ b3, r = some b3 → CommitChain c s b b3)⌝⦄ := by
  mvcgen [commitRule, qcRef, getBlock]
  all_goals (try subst_vars)
  all_goals (try simp +zetaDelta at *)
  all_goals (try (first | exact lockStep_same _ _ _ _ rfl))
  all_goals (try (refine ⟨?_, ?_⟩))
  all_goals (first
    | exact lockStep_same _ _ _ _ rfl
    | exact lockStep_upd _ _ _ _ _ (via_chained _ _ _ _ _ (by lk) (by assumption) (by lk)) rfl
    | exact lockStep_upd _ _ _ _ _ (via_simple _ _ _ _ _ (by assumption) (by lk) (by lk)) rfl
    | exact cc_chained _ _ _ _ _ _ (by assumption) (by assumption) (by lk) (by assumption) (by lk) (by assumption) (by lk) (by assumption)
    | exact cc_fast _ _ _ _ _ (by assumption) (by assumption) (by lk) (by assumption) (by lk) (by assumption)
    | exact cc_simple _ _ _ _ _ _ (by assumption) (by lk) (by lk) (by lk) (by assumption)
    | skip)


/-! ### frames: lock and committed block are left alone by everything but `commitRule` / `commitInner` -/

/-- the lock and the committed block -/
@[reducible] def LC (s : RState) : Block × Block := (s.lock, s.committed)

section LCFrames
theorem emit_lc (o : Out) (x) :
    ⦃fun s => ⌜LC s = x⌝⦄ emit o ⦃⇓ _ s => ⌜LC s = x⌝⦄ := by
  mvcgen [emit]  <;> simp_all +zetaDelta
attribute [local spec] emit_lc

theorem addEvent_lc (e : Ev) (x) :
    ⦃fun s => ⌜LC s = x⌝⦄ addEvent e ⦃⇓ _ s => ⌜LC s = x⌝⦄ := by
  mvcgen [addEvent]  <;> simp_all +zetaDelta
attribute [local spec] addEvent_lc

theorem getBlock_lc (h : Hash) (x) :
    ⦃fun s => ⌜LC s = x⌝⦄ getBlock h ⦃⇓ _ s => ⌜LC s = x⌝⦄ := by
  mvcgen [getBlock]  <;> simp_all +zetaDelta
attribute [local spec] getBlock_lc

theorem fetchFor_lc (h : Hash) (x) :
    ⦃fun s => ⌜LC s = x⌝⦄ fetchFor h ⦃⇓ _ s => ⌜LC s = x⌝⦄ := by
  mvcgen [fetchFor]  <;> simp_all +zetaDelta
attribute [local spec] fetchFor_lc

theorem signMsg_lc (c : RCfg) (m : Msg) (x) :
    ⦃fun s => ⌜LC s = x⌝⦄ signMsg c m ⦃⇓ _ s => ⌜LC s = x⌝⦄ := by
  mvcgen [signMsg]  <;> simp_all +zetaDelta
attribute [local spec] signMsg_lc

theorem verifyQCM_lc (k : Keys) (c : RCfg) (q : QC) (x) :
    ⦃fun s => ⌜LC s = x⌝⦄ verifyQCM k c q ⦃⇓ _ s => ⌜LC s = x⌝⦄ := by
  mvcgen [verifyQCM]  <;> simp_all +zetaDelta
attribute [local spec] verifyQCM_lc

theorem verifyTCM_lc (k : Keys) (c : RCfg) (t : TC) (x) :
    ⦃fun s => ⌜LC s = x⌝⦄ verifyTCM k c t ⦃⇓ _ s => ⌜LC s = x⌝⦄ := by
  mvcgen [verifyTCM]  <;> simp_all +zetaDelta
attribute [local spec] verifyTCM_lc

theorem qcRef_lc (q : QC) (x) :
    ⦃fun s => ⌜LC s = x⌝⦄ qcRef q ⦃⇓ _ s => ⌜LC s = x⌝⦄ := by
  mvcgen [qcRef]  <;> simp_all +zetaDelta
attribute [local spec] qcRef_lc

theorem extendsM_lc (b t : Block) (x) :
    ⦃fun s => ⌜LC s = x⌝⦄ extendsM b t ⦃⇓ _ s => ⌜LC s = x⌝⦄ := by
  mvcgen [extendsM]  <;> simp_all +zetaDelta
attribute [local spec] extendsM_lc

theorem voteRule_lc (c : RCfg) (v : Nat) (b : Block) (agg : Option AggQC) (x) :
    ⦃fun s => ⌜LC s = x⌝⦄ voteRule c v b agg ⦃⇓ _ s => ⌜LC s = x⌝⦄ := by
  mvcgen [voteRule]  <;> simp_all +zetaDelta
attribute [local spec] voteRule_lc

theorem votesCleanup_lc  (x) :
    ⦃fun s => ⌜LC s = x⌝⦄ votesCleanup ⦃⇓ _ s => ⌜LC s = x⌝⦄ := by
  mvcgen [votesCleanup]  <;> simp_all +zetaDelta
attribute [local spec] votesCleanup_lc

theorem collectVote_lc (k : Keys) (c : RCfg) (id : Nat) (sig : Option Sig) (h : Hash) (d : Bool) (x) :
    ⦃fun s => ⌜LC s = x⌝⦄ collectVote k c id sig h d ⦃⇓ _ s => ⌜LC s = x⌝⦄ := by
  mvcgen [collectVote]  <;> simp_all +zetaDelta
attribute [local spec] collectVote_lc

theorem aggregateVote_lc (k : Keys) (c : RCfg) (b : Block) (sg : Sig) (x) :
    ⦃fun s => ⌜LC s = x⌝⦄ aggregateVote k c b sg ⦃⇓ _ s => ⌜LC s = x⌝⦄ := by
  mvcgen [aggregateVote]  <;> simp_all +zetaDelta
attribute [local spec] aggregateVote_lc

theorem markProposed_lc (fuel : Nat) (b : Block) (x) :
    ⦃fun s => ⌜LC s = x⌝⦄ markProposed fuel b ⦃⇓ _ s => ⌜LC s = x⌝⦄ := by
  induction fuel generalizing b with
  | zero => mvcgen [markProposed]  <;> simp_all +zetaDelta
  | succ n ih => mvcgen [markProposed, ih]  <;> simp_all +zetaDelta
attribute [local spec] markProposed_lc

theorem verifyAggM_go_lc (k : Keys) (c : RCfg) (l : List QC) (x) :
    ⦃fun s => ⌜LC s = x⌝⦄ verifyAggM.go k c l ⦃⇓ _ s => ⌜LC s = x⌝⦄ := by
  induction l with
  | nil => mvcgen [verifyAggM.go]  <;> simp_all +zetaDelta
  | cons q rest ih => mvcgen [verifyAggM.go, ih]  <;> simp_all +zetaDelta
attribute [local spec] verifyAggM_go_lc

theorem verifyAggM_lc (k : Keys) (c : RCfg) (a : AggQC) (x) :
    ⦃fun s => ⌜LC s = x⌝⦄ verifyAggM k c a ⦃⇓ _ s => ⌜LC s = x⌝⦄ := by
  mvcgen [verifyAggM]  <;> simp_all +zetaDelta
attribute [local spec] verifyAggM_lc

theorem verifyAnyM_lc (k : Keys) (c : RCfg) (q : QC) (agg : Option AggQC) (x) :
    ⦃fun s => ⌜LC s = x⌝⦄ verifyAnyM k c q agg ⦃⇓ _ s => ⌜LC s = x⌝⦄ := by
  mvcgen [verifyAnyM]  <;> simp_all +zetaDelta
attribute [local spec] verifyAnyM_lc

theorem voterVerify_lc (k : Keys) (c : RCfg) (id : Nat) (b : Block) (agg : Option AggQC) (x) :
    ⦃fun s => ⌜LC s = x⌝⦄ voterVerify k c id b agg ⦃⇓ _ s => ⌜LC s = x⌝⦄ := by
  mvcgen [voterVerify]  <;> simp_all +zetaDelta
attribute [local spec] voterVerify_lc

theorem voteFor_lc (c : RCfg) (b : Block) (id : Nat) (x) :
    ⦃fun s => ⌜LC s = x⌝⦄ voteFor c b id ⦃⇓ _ s => ⌜LC s = x⌝⦄ := by
  mvcgen [voteFor] <;> simp_all +zetaDelta
attribute [local spec] voteFor_lc

theorem verifySyncInfo_lc (k : Keys) (c : RCfg) (si : SyncInfo) (x) :
    ⦃fun s => ⌜LC s = x⌝⦄ verifySyncInfo k c si ⦃⇓ _ s => ⌜LC s = x⌝⦄ := by
  mvcgen [verifySyncInfo]  <;> simp_all +zetaDelta
attribute [local spec] verifySyncInfo_lc

end LCFrames

/-! ### stability of the vocabulary under growth of the block map -/

theorem grows_refl (s : RState) : Grows s.chain.blocks s := fun _ _ h => h

theorem grows_transR (s1 s2 s3 : RState) (h12 : Grows s1.chain.blocks s2) (h23 : Grows s2.chain.blocks s3) :
    Grows s1.chain.blocks s3 := fun h b hx => h23 h b (h12 h b hx)

theorem grows_of_blocks_eq (s s' : RState) (h : s'.chain.blocks = s.chain.blocks) : Grows s.chain.blocks s' := by
  intro k b hx; show s'.chain.blocks.lookup k = some b; rw [h]; exact hx

theorem sget_growsR (s s' : RState) (hg : Grows s.chain.blocks s') (h : Hash) (b : Block)
    (hl : sget s h = some b) : sget s' h = some b := hg h b hl

theorem ruleHolds_grows (c : RCfg) (s s' : RState) (w L : Block) (hg : Grows s.chain.blocks s')
    (h : RuleHolds c s w L) : RuleHolds c s' w L := by
  unfold RuleHolds at *
  split
  · rename_i hr; simp only [hr] at h
    rcases h with ⟨p, h1, h2⟩ | h
    · exact Or.inl ⟨p, hg _ _ h1, h2⟩
    · exact Or.inr (storeExt_grows s s' w L hg h)
  · rename_i hr; simp only [hr] at h
    obtain ⟨p, h1, h2⟩ := h
    exact ⟨p, hg _ _ h1, h2⟩
  · trivial

theorem via_grows (c : RCfg) (s s' : RState) (x L : Block) (hg : Grows s.chain.blocks s')
    (h : Via c s x L) : Via c s' x L := by
  obtain ⟨p, h1, h2, h3⟩ := h
  exact ⟨p, hg _ _ h1, hg _ _ h2, h3⟩

theorem commitChain_grows (c : RCfg) (s s' : RState) (b b3 : Block) (hg : Grows s.chain.blocks s')
    (h : CommitChain c s b b3) : CommitChain c s' b b3 := by
  unfold CommitChain at *
  split
  · rename_i hr; simp only [hr] at h
    obtain ⟨b1, b2, h0, l1, h1, l2, h2, l3, hp⟩ := h
    exact ⟨b1, b2, h0, hg _ _ l1, h1, hg _ _ l2, h2, hg _ _ l3, hp⟩
  · rename_i hr; simp only [hr] at h
    obtain ⟨p, gp, l1, l2, l3, hp⟩ := h
    exact ⟨p, gp, hg _ _ l1, hg _ _ l2, hg _ _ l3, hp⟩
  · rename_i hr; simp only [hr] at h
    obtain ⟨p, h0, l1, h1, l2, hp⟩ := h
    exact ⟨p, h0, hg _ _ l1, h1, hg _ _ l2, hp⟩

theorem lockStep_grows (c : RCfg) (b L0 : Block) (s s' : RState) (hg : Grows s.chain.blocks s')
    (hl : s'.lock = s.lock) (h : LockStep c b L0 s) : LockStep c b L0 s' := by
  unfold LockStep at *
  rw [hl]
  rcases h with h | ⟨h1, h2⟩
  · exact Or.inl h
  · exact Or.inr ⟨h1, via_grows c s s' b _ hg h2⟩

/-! ### run forms -/

theorem lc_run {α} (f : M α) (hlc : ∀ x, ⦃fun s => ⌜LC s = x⌝⦄ f ⦃⇓ _ s => ⌜LC s = x⌝⦄) (s : RState) :
    (f.run s).2.lock = s.lock ∧ (f.run s).2.committed = s.committed := by
  have := run_res_of_triple f (fun s' => LC s' = LC s) (fun _ s' => LC s' = LC s) (hlc (LC s)) s rfl
  simp only [LC, Prod.mk.injEq] at this
  exact this

/-- **`Extends` is sound**: a positive answer of `extendsM b t` in state `s` is a walk along stored
parent links in the state it leaves -/
theorem extends_sound (b t : Block) (s : RState) (h : ((extendsM b t).run s).1 = true) :
    StoreExt ((extendsM b t).run s).2 b t :=
  extends_sound_chain s.chain b t _ h (ChainGrows.refl _)

/-! ### the committer -/

theorem commitRule_cm (c : RCfg) (b : Block) (x : Block) :
    ⦃fun s => ⌜s.committed = x⌝⦄ commitRule c b ⦃⇓ _ s => ⌜s.committed = x⌝⦄ := by
  mvcgen [commitRule, qcRef, getBlock] <;> simp_all +zetaDelta

theorem commitInner_lock (fuel : Nat) (b : Block) (x : Block) :
    ⦃fun s => ⌜s.lock = x⌝⦄ commitInner fuel b ⦃⇓ _ s => ⌜s.lock = x⌝⦄ := by
  induction fuel generalizing b with
  | zero => mvcgen [commitInner] <;> simp_all +zetaDelta
  | succ n ih => mvcgen [commitInner, getBlock, addEvent, ih] <;> simp_all +zetaDelta

/-- the committer either commits the block it was given (answer `true`) or leaves `committed` alone -/
theorem commitInner_cm (fuel : Nat) (b : Block) (x : Block) :
    ⦃fun s => ⌜s.committed = x⌝⦄ commitInner fuel b
    ⦃⇓ r s => ⌜(r = false → s.committed = x) ∧ (s.committed = x ∨ s.committed = b)⌝⦄ := by
  induction fuel generalizing b with
  | zero => mvcgen [commitInner] <;> simp_all +zetaDelta
  | succ n ih =>
    mvcgen [commitInner, getBlock, addEvent, ih]
    all_goals simp_all +zetaDelta

/-- `tryCommit c b` as a relation between the states before and after -/
structure TCom (c : RCfg) (b : Block) (s s' : RState) : Prop where
  store : Grows s.chain.blocks s'
  lock : LockStep c b s.lock s'
  comm : s'.committed = s.committed ∨ CommitChain c s' b s'.committed

/-- a `TCom` step followed by something that keeps lock and committed block -/
theorem TCom.keep {c : RCfg} {b : Block} {s0 s s' : RState} (h : TCom c b s0 s) (hg : Grows s.chain.blocks s')
    (hl : s'.lock = s.lock) (hc : s'.committed = s.committed) : TCom c b s0 s' := by
  refine ⟨grows_transR _ _ _ h.store hg, lockStep_grows c b _ s s' hg hl h.lock, ?_⟩
  rw [hc]
  rcases h.comm with h | h
  · exact Or.inl h
  · exact Or.inr (commitChain_grows c s s' b _ hg h)

theorem TCom.refl (c : RCfg) (b : Block) (s : RState) : TCom c b s s :=
  ⟨grows_refl s, Or.inl rfl, Or.inl rfl⟩

/-- before `commitRule`: nothing but store growth yet -/
structure TS (s0 s : RState) : Prop where
  store : Grows s0.chain.blocks s
  lock : s.lock = s0.lock
  comm : s.committed = s0.committed

/-- between `commitRule` and `commitInner`: the lock has moved, `committed` not yet -/
structure TM (c : RCfg) (b : Block) (s0 s : RState) : Prop where
  tc : TCom c b s0 s
  comm : s.committed = s0.committed

theorem commitRule_ts (c : RCfg) (b : Block) (s0 : RState) :
    ⦃fun s => ⌜TS s0 s⌝⦄ commitRule c b ⦃⇓ r s => ⌜TM c b s0 s ∧ (∀ b3, r = some b3 → CommitChain c s b b3)⌝⦄ := by
  apply triple_of_run
  intro s ⟨hg, hl, hc⟩
  have h1 := run_res_of_triple _ _ _ (commitRule_rule c b s.lock) s rfl
  have h2 := run_res_of_triple _ _ _ (commitRule_cm c b s.committed) s rfl
  have h3 := grows_run _ (commitRule_gr c b) s
  refine ⟨⟨⟨grows_transR _ _ _ hg h3, hl ▸ h1.1, Or.inl (h2.trans hc)⟩, h2.trans hc⟩, h1.2⟩

theorem commitInner_tm (c : RCfg) (b : Block) (s0 : RState) (fuel : Nat) (t : Block) :
    ⦃fun s => ⌜TM c b s0 s ∧ CommitChain c s b t⌝⦄ commitInner fuel t ⦃⇓ _ s => ⌜TCom c b s0 s⌝⦄ := by
  apply triple_of_run
  intro s ⟨⟨htc, hc⟩, hcc⟩
  have h1 := run_res_of_triple _ _ _ (commitInner_lock fuel t s.lock) s rfl
  have h2 := run_res_of_triple _ _ _ (commitInner_cm fuel t s.committed) s rfl
  have h3 := grows_run _ (commitInner_gr fuel t) s
  refine ⟨grows_transR _ _ _ htc.store h3, lockStep_grows c b _ s _ h3 h1 htc.lock, ?_⟩
  rcases h2.2 with h | h
  · exact Or.inl (h.trans hc)
  · rw [h]; exact Or.inr (commitChain_grows c s _ b t h3 hcc)

theorem tc_frame {α} (c : RCfg) (b : Block) (s0 : RState) (f : M α)
    (hgr : ∀ x, ⦃fun s => ⌜Grows x s⌝⦄ f ⦃⇓ _ s => ⌜Grows x s⌝⦄)
    (hlc : ∀ x, ⦃fun s => ⌜LC s = x⌝⦄ f ⦃⇓ _ s => ⌜LC s = x⌝⦄) :
    ⦃fun s => ⌜TCom c b s0 s⌝⦄ f ⦃⇓ _ s => ⌜TCom c b s0 s⌝⦄ := by
  apply triple_of_run
  intro s h
  exact h.keep (grows_run f hgr s) (lc_run f hlc s).1 (lc_run f hlc s).2

theorem tc_congr (c : RCfg) (b : Block) (s0 s s' : RState) (hb : s'.chain.blocks = s.chain.blocks)
    (hl : s'.lock = s.lock) (hc : s'.committed = s.committed) (h : TCom c b s0 s) : TCom c b s0 s' :=
  h.keep (grows_of_blocks_eq s s' hb) hl hc

theorem store_blocks_grows (s : RState) (b : Block) :
    Grows s.chain.blocks { s with chain := s.chain.store b } :=
  chainGrows_store _ s.chain b (ChainGrows.refl _)

theorem ts_store (s0 s : RState) (b : Block) (h : TS s0 s) : TS s0 { s with chain := s.chain.store b } :=
  ⟨grows_transR _ _ _ h.1 (store_blocks_grows _ _), h.2, h.3⟩

theorem tc_prune (c : RCfg) (b : Block) (s0 s : RState) (cm : Block) (n : Nat) (h : TCom c b s0 s) :
    TCom c b s0 { s with chain := (s.chain.pruneToHeight cm n).1 } :=
  tc_congr c b s0 _ _ (pruneToHeight_blocks _ _ _) rfl rfl h

theorem tryCommit_ts (c : RCfg) (b : Block) (s0 : RState) :
    ⦃fun s => ⌜TS s0 s⌝⦄ tryCommit c b ⦃⇓ _ s => ⌜TCom c b s0 s⌝⦄ := by
  have h1 := commitRule_ts c b s0
  have h2 := commitInner_tm c b s0
  have h3 : ∀ e, ⦃fun s => ⌜TCom c b s0 s⌝⦄ addEvent e ⦃⇓ _ s => ⌜TCom c b s0 s⌝⦄ :=
    fun e => tc_frame c b s0 _ (addEvent_gr e) (addEvent_lc e)
  mvcgen [tryCommit, h1, h2, h3]
  case inv1 => exact ⇓ _ s => ⌜TCom c b s0 s⌝
  all_goals (first
    | exact ts_store _ _ _ (by assumption)
    | exact tc_prune _ _ _ _ _ _ (by assumption)
    | assumption
    | (rename_i h; exact h.1.1)
    | (rename_i h; exact ⟨h.1, h.2 _ rfl⟩)
    | (simp_all; done)
    | skip)

/-- **what `tryCommit c b` does**, as a relation between the state before and the state after -/
theorem tryCommit_tc (c : RCfg) (b : Block) (s : RState) : TCom c b s ((tryCommit c b).run s).2 :=
  run_res_of_triple _ _ _ (tryCommit_ts c b s) s ⟨grows_refl s, rfl, rfl⟩


/-! ### the one-step invariant -/

/-- where a lock value `L` met during a step comes from: it is the lock `L0` the step started
with, or it lies two certificate links below a block voted for in `vs` -/
def Origin (c : RCfg) (L0 : Block) (vs : List GRec) (s : RState) (L : Block) : Prop :=
  L = L0 ∨ ∃ x id, GRec.vote x id ∈ vs ∧ Via c s x L

/-- the facts carried through a step that started in `s0`, about the votes `vs` cast since -/
structure Core (c : RCfg) (s0 : RState) (vs : List GRec) (s : RState) : Prop where
  lockv : s0.lock.view ≤ s.lock.view
  lock : Origin c s0.lock vs s s.lock
  comm : s.committed = s0.committed ∨ ∃ x id, GRec.vote x id ∈ vs ∧ CommitChain c s x s.committed
  rule : ∀ w id, GRec.vote w id ∈ vs →
    ∃ L, s0.lock.view ≤ L.view ∧ L.view ≤ s.lock.view ∧ RuleHolds c s w L ∧ Origin c s0.lock vs s L

theorem origin_grows (c : RCfg) (L0 : Block) (vs : List GRec) (s s' : RState) (L : Block)
    (hg : Grows s.chain.blocks s') (h : Origin c L0 vs s L) : Origin c L0 vs s' L := by
  rcases h with h | ⟨x, id, hm, hv⟩
  · exact Or.inl h
  · exact Or.inr ⟨x, id, hm, via_grows c s s' x L hg hv⟩

theorem origin_mono (c : RCfg) (L0 : Block) (vs vs' : List GRec) (s : RState) (L : Block)
    (hs : ∀ r, r ∈ vs → r ∈ vs') (h : Origin c L0 vs s L) : Origin c L0 vs' s L := by
  rcases h with h | ⟨x, id, hm, hv⟩
  · exact Or.inl h
  · exact Or.inr ⟨x, id, hs _ hm, hv⟩

theorem Core.refl (c : RCfg) (s : RState) : Core c s [] s :=
  ⟨Nat.le_refl _, Or.inl rfl, Or.inl rfl, fun _ _ h => by cases h⟩

theorem Core.move {c : RCfg} {s0 : RState} {vs : List GRec} {s s' : RState} (h : Core c s0 vs s)
    (hg : Grows s.chain.blocks s') (hv : s.lock.view ≤ s'.lock.view) (hl : Origin c s0.lock vs s' s'.lock)
    (hc : s'.committed = s0.committed ∨ ∃ x id, GRec.vote x id ∈ vs ∧ CommitChain c s' x s'.committed) :
    Core c s0 vs s' := by
  refine ⟨Nat.le_trans h.lockv hv, hl, hc, ?_⟩
  intro w id hm
  obtain ⟨L, h1, h2, h3, h4⟩ := h.rule w id hm
  exact ⟨L, h1, Nat.le_trans h2 hv, ruleHolds_grows c s s' w L hg h3, origin_grows c _ vs s s' L hg h4⟩

theorem Core.keep {c : RCfg} {s0 : RState} {vs : List GRec} {s s' : RState} (h : Core c s0 vs s)
    (hg : Grows s.chain.blocks s') (hl : s'.lock = s.lock) (hc : s'.committed = s.committed) : Core c s0 vs s' := by
  refine h.move hg (by rw [hl]; exact Nat.le_refl _) (by rw [hl]; exact origin_grows c _ vs s s' _ hg h.lock) ?_
  rw [hc]
  rcases h.comm with h' | ⟨x, id, hm, hcc⟩
  · exact Or.inl h'
  · exact Or.inr ⟨x, id, hm, commitChain_grows c s s' x _ hg hcc⟩

/-- a `tryCommit c b` for a block `b` among the votes -/
theorem Core.tc {c : RCfg} {s0 : RState} {vs : List GRec} {s s' : RState} {b : Block} {id : Nat}
    (h : Core c s0 vs s) (hm : GRec.vote b id ∈ vs) (ht : TCom c b s s') : Core c s0 vs s' := by
  have hg := ht.store
  refine h.move hg ?_ ?_ ?_
  · rcases ht.lock with hl | ⟨hl, _⟩
    · rw [hl]; exact Nat.le_refl _
    · exact Nat.le_of_lt hl
  · rcases ht.lock with hl | ⟨_, hv⟩
    · rw [hl]; exact origin_grows c _ vs s s' _ hg h.lock
    · exact Or.inr ⟨b, id, hm, hv⟩
  · rcases ht.comm with hc | hc
    · rw [hc]
      rcases h.comm with h' | ⟨x, id', hm', hcc⟩
      · exact Or.inl h'
      · exact Or.inr ⟨x, id', hm', commitChain_grows c s s' x _ hg hcc⟩
    · exact Or.inr ⟨b, id, hm, hc⟩

/-- the vote rule holds for `b` against the current lock -/
def RH (c : RCfg) (b : Block) (s : RState) : Prop := RuleHolds c s b s.lock

/-- a block that passed the vote rule against the current lock joins the votes -/
theorem Core.pend {c : RCfg} {s0 : RState} {vs : List GRec} {s : RState} (b : Block) (id : Nat)
    (h : Core c s0 vs s) (hr : RH c b s) : Core c s0 (vs ++ [.vote b id]) s := by
  have hs : ∀ r, r ∈ vs → r ∈ vs ++ [GRec.vote b id] := fun r hr => List.mem_append_left _ hr
  refine ⟨h.lockv, origin_mono c _ vs _ s _ hs h.lock, ?_, ?_⟩
  · rcases h.comm with h' | ⟨x, id', hm', hcc⟩
    · exact Or.inl h'
    · exact Or.inr ⟨x, id', hs _ hm', hcc⟩
  · intro w id' hm
    rw [List.mem_append] at hm
    rcases hm with hm | hm
    · obtain ⟨L, h1, h2, h3, h4⟩ := h.rule w id' hm
      exact ⟨L, h1, h2, h3, origin_mono c _ vs _ s L hs h4⟩
    · simp only [List.mem_singleton] at hm
      cases hm
      exact ⟨s.lock, h.lockv, Nat.le_refl _, hr, origin_mono c _ vs _ s _ hs h.lock⟩

/-- **the one-step invariant**: the ghost history has grown by `new`, about which `Core` holds -/
def VR (c : RCfg) (s0 s : RState) : Prop := ∃ new, s.ghost = s0.ghost ++ new ∧ Core c s0 new s

/-- ... with a block `b` that has passed the vote rule and is about to be voted for -/
def VRP (c : RCfg) (s0 : RState) (b : Block) (id : Nat) (s : RState) : Prop :=
  ∃ new, s.ghost = s0.ghost ++ new ∧ Core c s0 (new ++ [.vote b id]) s

/-- ... with a block `b` known to be among the new votes -/
def VRW (c : RCfg) (s0 : RState) (b : Block) (id : Nat) (s : RState) : Prop :=
  ∃ new, s.ghost = s0.ghost ++ new ∧ Core c s0 new s ∧ GRec.vote b id ∈ new

theorem VR.refl (c : RCfg) (s : RState) : VR c s s := ⟨[], by simp, Core.refl c s⟩

theorem vrp_of_vr (c : RCfg) (s0 : RState) (b : Block) (id : Nat) (s : RState) (h : VR c s0 s) (hr : RH c b s) :
    VRP c s0 b id s := by
  obtain ⟨new, hg, hc⟩ := h
  exact ⟨new, hg, hc.pend b id hr⟩

theorem vr_of_vrw (c : RCfg) (s0 : RState) (b : Block) (id : Nat) (s : RState) (h : VRW c s0 b id s) : VR c s0 s := by
  obtain ⟨new, hg, hc, _⟩ := h
  exact ⟨new, hg, hc⟩

/-- the invariants read only ghost history, lock, committed block and block map -/
theorem vr_congr (c : RCfg) (s0 s s' : RState) (h : VR c s0 s) (hg : s'.ghost = s.ghost) (hl : s'.lock = s.lock)
    (hc : s'.committed = s.committed) (hb : s'.chain = s.chain) : VR c s0 s' := by
  obtain ⟨new, hgh, hcore⟩ := h
  exact ⟨new, by rw [hg, hgh], hcore.keep (grows_of_blocks_eq s s' (by rw [hb])) hl hc⟩

/-- appending a record that is not a vote -/
theorem vr_append (c : RCfg) (s0 s s' : RState) (r : GRec) (h : VR c s0 s)
    (hg : s'.ghost = s.ghost ++ [r]) (hl : s'.lock = s.lock)
    (hc : s'.committed = s.committed) (hb : s'.chain = s.chain) (hr : ∀ b id, r ≠ .vote b id) : VR c s0 s' := by
  obtain ⟨new, hgh, hcore⟩ := h
  have hk := hcore.keep (grows_of_blocks_eq s s' (by rw [hb])) hl hc
  have hs : ∀ r', r' ∈ new → r' ∈ new ++ [r] := fun r' h' => List.mem_append_left _ h'
  refine ⟨new ++ [r], by rw [hg, hgh, List.append_assoc], hk.lockv, origin_mono c _ new _ s' _ hs hk.lock, ?_, ?_⟩
  · rcases hk.comm with h' | ⟨x, id', hm', hcc⟩
    · exact Or.inl h'
    · exact Or.inr ⟨x, id', hs _ hm', hcc⟩
  · intro w id hm
    rw [List.mem_append] at hm
    rcases hm with hm | hm
    · obtain ⟨L, h1, h2, h3, h4⟩ := hk.rule w id hm
      exact ⟨L, h1, h2, h3, origin_mono c _ new _ s' L hs h4⟩
    · simp only [List.mem_singleton] at hm
      exact absurd hm.symm (hr w id)

/-- anything that leaves ghost history, lock and committed block alone and lets the store grow -/
theorem vr_frame {α} (c : RCfg) (s0 : RState) (f : M α)
    (hvs : ∀ x, ⦃fun s => ⌜VS s = x⌝⦄ f ⦃⇓ _ s => ⌜VS s = x⌝⦄)
    (hgr : ∀ x, ⦃fun s => ⌜Grows x s⌝⦄ f ⦃⇓ _ s => ⌜Grows x s⌝⦄)
    (hlc : ∀ x, ⦃fun s => ⌜LC s = x⌝⦄ f ⦃⇓ _ s => ⌜LC s = x⌝⦄) :
    ⦃fun s => ⌜VR c s0 s⌝⦄ f ⦃⇓ _ s => ⌜VR c s0 s⌝⦄ := by
  apply triple_of_run
  intro s ⟨new, hg, hc⟩
  exact ⟨new, by rw [ghost_of_vs f hvs s, hg], hc.keep (grows_run f hgr s) (lc_run f hlc s).1 (lc_run f hlc s).2⟩

theorem vrp_frame {α} (c : RCfg) (s0 : RState) (b : Block) (id : Nat) (f : M α)
    (hvs : ∀ x, ⦃fun s => ⌜VS s = x⌝⦄ f ⦃⇓ _ s => ⌜VS s = x⌝⦄)
    (hgr : ∀ x, ⦃fun s => ⌜Grows x s⌝⦄ f ⦃⇓ _ s => ⌜Grows x s⌝⦄)
    (hlc : ∀ x, ⦃fun s => ⌜LC s = x⌝⦄ f ⦃⇓ _ s => ⌜LC s = x⌝⦄) :
    ⦃fun s => ⌜VRP c s0 b id s⌝⦄ f ⦃⇓ _ s => ⌜VRP c s0 b id s⌝⦄ := by
  apply triple_of_run
  intro s ⟨new, hg, hc⟩
  exact ⟨new, by rw [ghost_of_vs f hvs s, hg], hc.keep (grows_run f hgr s) (lc_run f hlc s).1 (lc_run f hlc s).2⟩

theorem rh_frame {α} (c : RCfg) (b : Block) (f : M α)
    (hgr : ∀ x, ⦃fun s => ⌜Grows x s⌝⦄ f ⦃⇓ _ s => ⌜Grows x s⌝⦄)
    (hlc : ∀ x, ⦃fun s => ⌜LC s = x⌝⦄ f ⦃⇓ _ s => ⌜LC s = x⌝⦄) :
    ⦃fun s => ⌜RH c b s⌝⦄ f ⦃⇓ _ s => ⌜RH c b s⌝⦄ := by
  apply triple_of_run
  intro s h
  unfold RH at *
  rw [(lc_run f hlc s).1]
  exact ruleHolds_grows c s _ b _ (grows_run f hgr s) h

/-! ### a vote is cast only after the vote rule held -/

theorem voteRule_rh (c : RCfg) (v : Nat) (b : Block) (agg : Option AggQC) :
    ⦃fun _ => ⌜True⌝⦄ voteRule c v b agg ⦃⇓ r s => ⌜r = true → RH c b s⌝⦄ := by
  apply triple_of_run
  intro s _ hr
  have := run_res_of_triple _ _ _ (voteRule_rule c v b agg s.lock) s rfl
  unfold RH
  rw [this.1]
  exact this.2 hr

theorem verifyAnyM_rh (k : Keys) (c : RCfg) (b : Block) (q : QC) (agg : Option AggQC) :
    ⦃fun s => ⌜RH c b s⌝⦄ verifyAnyM k c q agg ⦃⇓ _ s => ⌜RH c b s⌝⦄ :=
  rh_frame c b _ (verifyAnyM_gr k c q agg) (verifyAnyM_lc k c q agg)

/-- **a positive answer of the voter's checks means the vote rule held against the lock** (which
those checks leave alone) -/
theorem voterVerify_rh (k : Keys) (c : RCfg) (id : Nat) (b : Block) (agg : Option AggQC) :
    ⦃fun _ => ⌜True⌝⦄ voterVerify k c id b agg ⦃⇓ r s => ⌜r = .ok () → RH c b s⌝⦄ := by
  mvcgen [voterVerify, voteRule_rh, verifyAnyM_rh]
  all_goals simp_all

section VRChain
variable (k : Keys) (c : RCfg) (s0 : RState)

theorem emit_vr (o : Out) : ⦃fun s => ⌜VR c s0 s⌝⦄ emit o ⦃⇓ _ s => ⌜VR c s0 s⌝⦄ :=
  vr_frame c s0 _ (emit_frame o) (emit_gr o) (emit_lc o)
theorem addEvent_vr (e : Ev) : ⦃fun s => ⌜VR c s0 s⌝⦄ addEvent e ⦃⇓ _ s => ⌜VR c s0 s⌝⦄ :=
  vr_frame c s0 _ (addEvent_frame e) (addEvent_gr e) (addEvent_lc e)
theorem getBlock_vr (h : Hash) : ⦃fun s => ⌜VR c s0 s⌝⦄ getBlock h ⦃⇓ _ s => ⌜VR c s0 s⌝⦄ :=
  vr_frame c s0 _ (getBlock_frame h) (getBlock_gr h) (getBlock_lc h)
theorem signMsg_vr (m : Msg) : ⦃fun s => ⌜VR c s0 s⌝⦄ signMsg c m ⦃⇓ _ s => ⌜VR c s0 s⌝⦄ :=
  vr_frame c s0 _ (signMsg_frame c m) (signMsg_gr c m) (signMsg_lc c m)
theorem verifySyncInfo_vr (si : SyncInfo) :
    ⦃fun s => ⌜VR c s0 s⌝⦄ verifySyncInfo k c si ⦃⇓ _ s => ⌜VR c s0 s⌝⦄ :=
  vr_frame c s0 _ (verifySyncInfo_frame k c si) (verifySyncInfo_gr k c si) (verifySyncInfo_lc k c si)
theorem collectVote_vr (id : Nat) (sig : Option Sig) (h : Hash) (d : Bool) :
    ⦃fun s => ⌜VR c s0 s⌝⦄ collectVote k c id sig h d ⦃⇓ _ s => ⌜VR c s0 s⌝⦄ :=
  vr_frame c s0 _ (collectVote_frame k c id sig h d) (collectVote_gr k c id sig h d) (collectVote_lc k c id sig h d)
theorem aggregateVote_vr (b : Block) (sg : Sig) :
    ⦃fun s => ⌜VR c s0 s⌝⦄ aggregateVote k c b sg ⦃⇓ _ s => ⌜VR c s0 s⌝⦄ :=
  vr_frame c s0 _ (aggregateVote_frame k c b sg) (aggregateVote_gr k c b sg) (aggregateVote_lc k c b sg)
theorem markProposed_vr (fuel : Nat) (b : Block) :
    ⦃fun s => ⌜VR c s0 s⌝⦄ markProposed fuel b ⦃⇓ _ s => ⌜VR c s0 s⌝⦄ :=
  vr_frame c s0 _ (markProposed_frame fuel b) (markProposed_gr fuel b) (markProposed_lc fuel b)

theorem voterVerify_vr (id : Nat) (b : Block) (agg : Option AggQC) :
    ⦃fun s => ⌜VR c s0 s⌝⦄ voterVerify k c id b agg ⦃⇓ r s => ⌜VR c s0 s ∧ (r = .ok () → RH c b s)⌝⦄ := by
  apply triple_of_run
  intro s h
  exact ⟨run_res_of_triple _ _ _ (vr_frame c s0 _ (voterVerify_vs k c id b agg) (voterVerify_gr k c id b agg)
      (voterVerify_lc k c id b agg)) s h,
    run_res_of_triple _ (fun _ => True) _ (voterVerify_rh k c id b agg) s trivial⟩

/-- `tryCommit c b` before the vote for `b` (`onValidPropose`) -/
theorem tryCommit_vrp (b : Block) (id : Nat) :
    ⦃fun s => ⌜VRP c s0 b id s⌝⦄ tryCommit c b ⦃⇓ _ s => ⌜VRP c s0 b id s⌝⦄ := by
  apply triple_of_run
  intro s ⟨new, hg, hc⟩
  exact ⟨new, by rw [ghost_of_vs _ (tryCommit_frame c b) s, hg],
    hc.tc (List.mem_append_right _ (List.mem_singleton.mpr rfl)) (tryCommit_tc c b s)⟩

/-- `tryCommit c b` after the vote for `b` (`createAndPropose`) -/
theorem tryCommit_vrw (b : Block) (id : Nat) :
    ⦃fun s => ⌜VRW c s0 b id s⌝⦄ tryCommit c b ⦃⇓ _ s => ⌜VR c s0 s⌝⦄ := by
  apply triple_of_run
  intro s ⟨new, hg, hc, hm⟩
  exact ⟨new, by rw [ghost_of_vs _ (tryCommit_frame c b) s, hg], hc.tc hm (tryCommit_tc c b s)⟩

theorem voteFor_vr (b : Block) (id : Nat) :
    ⦃fun s => ⌜VRP c s0 b id s⌝⦄ voteFor c b id ⦃⇓ _ s => ⌜VRW c s0 b id s⌝⦄ := by
  apply triple_of_run
  intro s ⟨new, hg, hc⟩
  have hv := run_res_of_triple _ (fun s' => VS s' = (s.ghost, s.lastVoted)) _ (voteFor_vs c b id s.ghost s.lastVoted) s rfl
  have hgh : ((voteFor c b id).run s).2.ghost = s.ghost ++ [.vote b id] := by
    have := congrArg (fun x => x.1) hv
    simpa [VS] using this
  refine ⟨new ++ [.vote b id], by rw [hgh, hg, List.append_assoc], ?_, List.mem_append_right _ (List.mem_singleton.mpr rfl)⟩
  exact hc.keep (grows_run _ (voteFor_gr c b id) s) (lc_run _ (voteFor_lc c b id) s).1 (lc_run _ (voteFor_lc c b id) s).2

end VRChain

/-- closes the verification conditions of the `VR` chain: the state differs from one satisfying
`VR` only in fields `VR` does not read, or by a non-vote ghost record -/
macro "vr_finish" : tactic => `(tactic| (
  (try intros)
  (try simp only [and_true, true_and, and_self, implies_true] at *)
  (first
    | done
    | assumption
    | (apply vr_congr <;> first | assumption | rfl)
    | (apply vr_append <;> first | assumption | rfl | (intro _ _ h; cases h))
    | (exact vrp_of_vr _ _ _ _ _ (by simp_all) (by simp_all))
    | (exact vr_of_vrw _ _ _ _ _ (by assumption))
    | (simp_all; done)
    | skip)))

/-! The specifications are handed to `mvcgen` as local facts with `c` and `s0` filled in: a spec
lemma whose parameter `s0 : RState` is not pinned by the program text gets instantiated with the
current state otherwise. -/
section VRHandlers
variable (k : Keys) (c : RCfg) (s0 : RState)

theorem onValidPropose_vr (id : Nat) (b : Block) :
    ⦃fun s => ⌜VRP c s0 b id s⌝⦄ onValidPropose k c id b ⦃⇓ _ s => ⌜VR c s0 s⌝⦄ := by
  have h1 := tryCommit_vrp c s0 b id
  have h2 := voteFor_vr c s0 b id
  have h3 := aggregateVote_vr k c s0
  mvcgen [onValidPropose, h1, h2, h3]
  all_goals vr_finish

theorem createAndPropose_vr (si : SyncInfo) :
    ⦃fun s => ⌜VR c s0 s⌝⦄ createAndPropose k c si ⦃⇓ _ s => ⌜VR c s0 s⌝⦄ := by
  have h1 := getBlock_vr c s0
  have h2 := markProposed_vr c s0
  have h3 := fun b agg => voterVerify_vr k c s0 c.id b agg
  have h4 := fun b => voteFor_vr c s0 b c.id
  have h5 := fun b => tryCommit_vrw c s0 b c.id
  have h6 := emit_vr c s0
  have h7 := aggregateVote_vr k c s0
  mvcgen [createAndPropose, h1, h2, h3, h4, h5, h6, h7]
  all_goals vr_finish

theorem advanceView_vr (si : SyncInfo) :
    ⦃fun s => ⌜VR c s0 s⌝⦄ advanceView k c si ⦃⇓ _ s => ⌜VR c s0 s⌝⦄ := by
  have h1 := verifySyncInfo_vr k c s0
  have h2 := getBlock_vr c s0
  have h3 := addEvent_vr c s0
  have h4 := createAndPropose_vr k c s0
  have h5 := emit_vr c s0
  mvcgen [advanceView, h1, h2, h3, h4, h5]
  all_goals vr_finish

theorem onRemoteTimeout_vr (t : TimeoutMsg) :
    ⦃fun s => ⌜VR c s0 s⌝⦄ onRemoteTimeout k c t ⦃⇓ _ s => ⌜VR c s0 s⌝⦄ := by
  have h1 := advanceView_vr k c s0
  mvcgen [onRemoteTimeout, h1]
  all_goals vr_finish

theorem onLocalTimeout_vr :
    ⦃fun s => ⌜VR c s0 s⌝⦄ onLocalTimeout k c ⦃⇓ _ s => ⌜VR c s0 s⌝⦄ := by
  have h1 := onRemoteTimeout_vr k c s0
  have h2 := signMsg_vr c s0
  have h3 := emit_vr c s0
  mvcgen [onLocalTimeout, h1, h2, h3]
  all_goals vr_finish

theorem onPropose_vr (id : Nat) (b : Block) (agg : Option AggQC) :
    ⦃fun s => ⌜VR c s0 s⌝⦄ onPropose k c id b agg ⦃⇓ _ s => ⌜VR c s0 s⌝⦄ := by
  have h1 := advanceView_vr k c s0
  have h2 := voterVerify_vr k c s0 id b agg
  have h3 := onValidPropose_vr k c s0 id b
  have h4 := emit_vr c s0
  mvcgen [onPropose, h1, h2, h3, h4]
  all_goals vr_finish

theorem tick_vr :
    ⦃fun s => ⌜VR c s0 s⌝⦄ tick k c ⦃⇓ _ s => ⌜VR c s0 s⌝⦄ := by
  have h1 := onPropose_vr k c s0
  have h2 := onRemoteTimeout_vr k c s0
  have h3 := onLocalTimeout_vr k c s0
  have h4 := advanceView_vr k c s0
  have h5 := collectVote_vr k c s0
  have h6 := emit_vr c s0
  mvcgen [tick, h1, h2, h3, h4, h5, h6]
  all_goals vr_finish

theorem runLoop_vr (fuel : Nat) :
    ⦃fun s => ⌜VR c s0 s⌝⦄ runLoop k c fuel ⦃⇓ _ s => ⌜VR c s0 s⌝⦄ := by
  induction fuel with
  | zero => mvcgen [runLoop]
  | succ n ih =>
    have h1 := tick_vr k c s0
    mvcgen [runLoop, h1, ih]

end VRHandlers

/-! ### one delivered event, and `Start` -/

/-- **the one-step invariant holds after delivering any event**, relative to the state before -/
theorem step_vr (k : Keys) (c : RCfg) (s : RState) (e : Ev) : VR c s (step k c s e).1 := by
  unfold step
  have h0 : VR c s { s with out := [], queue := s.queue ++ [e] } := vr_congr c s s _ (VR.refl c s) rfl rfl rfl rfl
  have := run_res_of_triple (runLoop k c 100000) _ _ (runLoop_vr k c s 100000) _ h0
  exact vr_congr c s _ _ this rfl rfl rfl rfl

theorem start_vr (k : Keys) (c : RCfg) (s : RState) : VR c s (start k c s).1 := by
  unfold start
  have h0 : VR c s { s with out := [] } := vr_congr c s s _ (VR.refl c s) rfl rfl rfl rfl
  have h1 := createAndPropose_vr k c s
  have h2 := runLoop_vr k c s
  have spec : ⦃fun s' => ⌜VR c s s'⌝⦄ (do
      let s ← get
      if s.view == 1 && c.leader 1 == c.id then
        createAndPropose k c { qc := some s.highQC, tc := some s.highTC }
      runLoop k c 100000 : M Unit) ⦃⇓ _ s' => ⌜VR c s s'⌝⦄ := by
    mvcgen [h1, h2]
  have := run_res_of_triple _ _ _ spec _ h0
  exact vr_congr c s _ _ this rfl rfl rfl rfl

/-- the ghost history only grows by appending, with everything that keeps `VR` -/
theorem appends_of_vr {α} (c : RCfg) (f : M α)
    (h : ∀ s0, ⦃fun s => ⌜VR c s0 s⌝⦄ f ⦃⇓ _ s => ⌜VR c s0 s⌝⦄) (s : RState) :
    ∃ new, (f.run s).2.ghost = s.ghost ++ new := by
  obtain ⟨new, hg, _⟩ := run_res_of_triple f _ _ (h s) s (VR.refl c s)
  exact ⟨new, hg⟩

/-- the lock is genesis or lies two certificate links below a block voted for (for chained HotStuff
this is `LockFrom`) -/
def LockFromC (c : RCfg) (s : RState) : Prop :=
  s.lock = genesisBlock ∨ ∃ x id, GRec.vote x id ∈ s.ghost ∧ Via c s x s.lock

theorem lockFromC_of_lockFrom (c : RCfg) (s : RState) (h : LockFrom s) : LockFromC c s := by
  rcases h with h | ⟨x, id, p, hm, h1, h2, h3⟩
  · exact Or.inl h
  · exact Or.inr ⟨x, id, hm, p, h1, h3, fun _ => h2⟩

theorem lockFrom_of_lockFromC (c : RCfg) (s : RState) (hr : c.rules = .chained) (h : LockFromC c s) : LockFrom s := by
  rcases h with h | ⟨x, id, hm, p, h1, h2, h3⟩
  · exact Or.inl h
  · exact Or.inr ⟨x, id, p, hm, h1, h3 hr, h2⟩

theorem lockFromC_of_vr (c : RCfg) (s s' : RState) (hg : Grows s.chain.blocks s') (hv : VR c s s')
    (h : LockFromC c s) : LockFromC c s' := by
  obtain ⟨new, hgh, hc⟩ := hv
  unfold LockFromC at *
  rcases hc.lock with hl | ⟨x, id, hm, hvia⟩
  · rw [hl]
    rcases h with h | ⟨x, id, hm, hvia⟩
    · exact Or.inl h
    · exact Or.inr ⟨x, id, by rw [hgh]; exact List.mem_append_left _ hm, via_grows c s s' x _ hg hvia⟩
  · exact Or.inr ⟨x, id, by rw [hgh]; exact List.mem_append_right _ hm, hvia⟩

theorem step_grows (k : Keys) (c : RCfg) (s : RState) (e : Ev) : Grows s.chain.blocks (step k c s e).1 := by
  unfold step
  exact grows_run (runLoop k c 100000) (runLoop_gr k c 100000) { s with out := [], queue := s.queue ++ [e] }

theorem start_grows (k : Keys) (c : RCfg) (s : RState) : Grows s.chain.blocks (start k c s).1 := by
  unfold start
  have hgr : ∀ x, ⦃fun s' => ⌜Grows x s'⌝⦄ (do
      let s ← get
      if s.view == 1 && c.leader 1 == c.id then
        createAndPropose k c { qc := some s.highQC, tc := some s.highTC }
      runLoop k c 100000 : M Unit) ⦃⇓ _ s' => ⌜Grows x s'⌝⦄ := by
    intro x; mvcgen [createAndPropose_gr, runLoop_gr]
  exact grows_run _ hgr { s with out := [] }

end HsVerif.Model
