import HsVerif.Proofs.FastSafety
/-!
A finite instance of `FastSafety.Discipline` (Fast-HotStuff AS IMPLEMENTED, after the repairs) with two
conflicting two-chain commits: n = 7, f = 2, quorum 5.

Replicas  0 = h1, 1 = h2, 2 = s1, 3 = s2, 4 = s3 (honest), 5 = z1, 6 = z2 (Byzantine).
Blocks    0 gen(view 0)
          1 b0 (1, parent gen)   2 b1 (2, b0)   3 c3 (3, b1)   4 X (4, b1)   5 X' (5, X)
          6 w  (3, parent gen)   7 w1 (7, w)    8 w2 (8, w1)   9 w3 (9, w2)
Commits   b0 (two-chain b0 ← b1, b1 certified by h1 h2 s1 z1 z2; proposal c3 received by h1, h2)
          w1 (two-chain w1 ← w2, w2 certified by s1 s2 s3 z1 z2; proposal w3 received by s1)
          and neither extends the other.

The schedule (global event times in brackets); every listed event is an event of an HONEST replica, the
Byzantine replicas vote for everything, sign every timeout reporting the genesis QC, and propose `w`:
  view 1  h1 h2 s1 vote b0 [1-3] and time out, reporting gen [4-6]
  view 2  h1 h2 s1 vote b1 [7-9] (their high QC becomes QC(b0)); s2 s3 never see b0 or b1.
          s1 (high QC b0), s2, s3 (high QC gen) time out [10-12]:
              A2 = aggregate QC of view 2 from s1:b0 s2:gen s3:gen z1:gen z2:gen
  view 3  the Byzantine leader proposes w (view 3, parent gen, QC gen) with A2 to s2 and s3: neither has b0 nor
          can fetch it, so the report of s1 is skipped, the highest valid QC is gen, they vote w [13,14].
          It also proposes c3 (view 3, parent b1, QC(b1)) to h1 and h2, who vote [15,16] and COMMIT b0.
          h1 h2 (high QC b1) and s2 (gen) time out [17-19]:  A3 = h1:b1 h2:b1 s2:gen z1:gen z2:gen
  view 4  X (view 4, parent b1, QC(b1)) with A3: h1, h2, s2 vote [20-22] (s2 fetches b1 -- allowed now);
          QC(X) exists.  h1 h2 s2 time out (TC only) [23-25]
  view 5  X' (view 5, parent X, QC(X)) is shown to h1 and h2 only [26,27]: their high QC becomes QC(X).
          h1 (X), h2 (X), s3 (gen) time out [28-30]:  A5 = h1:X h2:X s3:gen z1:gen z2:gen
          s1 (kept in view 2 until now, then given the view-2 timeout certificate) is shown w (VIEW 3) with A5
          (5 + 1 ≥ 3): it has neither X nor can fetch it, the reports of h1 and h2 are skipped, the highest
          valid QC is gen = w's QC: s1 votes w [31].  QC(w) exists: s1 s2 s3 z1 z2.
  view 6  s1 s2 s3 learn QC(w) (view 3: higher than b0 (1), b1 (2) -- s2 never learned QC(X)) and time out
          [32-34]:  A6 = s1:w s2:w s3:w z1:gen z2:gen
  view 7  w1 (view 7, parent w, QC(w)) with A6: s1 s2 s3 vote [35-37]; they time out (TC only) [38-40]
  view 8  w2 (view 8, parent w1, QC(w1)), plain rule: s1 s2 s3 vote [41-43]; time out [44-46]
  view 9  w3 (view 9, parent w2, QC(w2)) reaches s1 [47]: s1 COMMITS w1.

Replay notes (implementation / Model/Sys.lean; not part of the abstract instance):
  * the adversary delays messages between honest replicas and makes block fetches fail (`fetchable`): of b0 at s2
    and s3 (always), of X at s1 (at time 31);
  * the leader of view 3 must be Byzantine (it proposes both c3 and w, and re-sends w to s1 later with another
    aggregate QC -- the aggregate QC is not covered by the block hash); w1, w2, w3 may be proposed by s1 s2 s3
    themselves (their high QC is QC(w) / QC(w1) / QC(w2)) or by a Byzantine leader;
  * under the aggregate timeout rule a view is left only on a timeout certificate: every view 1..8 has a quorum of
    timeouts in the schedule (`full_entered_by_tc`); s2 must be given the view 5 certificate WITHOUT the aggregate QC
    A5 (a Byzantine new-view message with the TC only), otherwise its high QC becomes QC(X), which it can validate;
  * s1 waits in view 2 (its timer may fire there as often as it likes) until QC(X) has been reported in view 5.
-/
namespace HsVerif.FastCex
open HsVerif.Safety HsVerif.FastSafety HsVerif.Model HsVerif.QuorumCount

abbrev R := Fin 7
abbrev B := Fin 10

def view (b : B) : Nat := [0, 1, 2, 3, 4, 5, 3, 7, 8, 9].getD b.val 0
def par (b : B) : B := ([0, 0, 1, 2, 2, 4, 0, 6, 7, 8] : List B).getD b.val 0

def byz (i : Nat) : Bool := i == 5 || i == 6

/-- an aggregate QC: `(signers, view, reports of the signers that do not report genesis)` -/
abbrev Agg := List R × Nat × List (R × B)

/-- A schedule as finite tables (events of honest replicas only; the Byzantine replicas vote for every
block, sign every timeout reporting the genesis QC, and make the proposals no honest leader would). -/
structure Tbl where
  /-- honest votes `(replica, block, time)` -/
  votes : List (R × B × Nat)
  /-- honest timeouts `(replica, view, time, reported block)` -/
  tmos : List (R × Nat × Nat × B)
  /-- `(replica, block, time from which the replica has the block)`; everybody has genesis -/
  hasL : List (R × B × Nat)
  aggs : List Agg
  /-- which aggregate QC (index into `aggs`) accompanies the proposal of block `b` shown to `r` -/
  aggFor : R → B → Option Nat

def repOf (l : List (R × B)) (m : R) : B := (l.lookup m).getD 0

/-- the optional aggregate QC is present and satisfies `P` -/
def OptSat (o : Option Agg) (P : Agg → Prop) : Prop := ∃ a, o = some a ∧ P a

instance (o : Option Agg) (P : Agg → Prop) [DecidablePred P] : Decidable (OptSat o P) :=
  match o with
  | none => isFalse (by rintro ⟨a, h, _⟩; cases h)
  | some a => if h : P a then isTrue ⟨a, rfl, h⟩ else isFalse (by rintro ⟨a', h', hp⟩; cases h'; exact h hp)

namespace Tbl
variable (T : Tbl)

def hasB (r : R) (b : B) (t : Nat) : Bool :=
  b == 0 || T.hasL.any (fun e => e.1 == r && e.2.1 == b && decide (e.2.2 ≤ t))

/-- the abstract timed system of a schedule -/
def sys : TSys where
  Blk := B
  Rep := R
  gen := 0
  view := view
  par := par
  honest := fun r => byz r.val = false
  Quorum := fun Q => ∃ A : Nat → Bool, quorumSize 7 ≤ count A 7 ∧ ∀ r : Fin 7, A r.val = true → Q r
  votedAt := fun r b t => (r, b, t) ∈ T.votes
  timedOutAt := fun r u t Rb => (r, u, t, Rb) ∈ T.tmos
  hasAt := fun r b t => T.hasB r b t = true

/-! #### boolean / decidable forms of the notions of `FastSafety` -/

def voterB (b : B) (t : Nat) (i : Nat) : Bool :=
  byz i || T.votes.any (fun e => e.1.val == i && e.2.1 == b && decide (e.2.2 < t))

def certB (b : B) (t : Nat) : Bool := decide (quorumSize 7 ≤ count (T.voterB b t) 7)

def gcB (b : B) (t : Nat) : Bool := b == 0 || T.certB b t

theorem certB_sound {b : B} {t : Nat} (h : T.certB b t = true) : CertBefore T.sys b t := by
  refine ⟨fun r => T.voterB b t r.val = true, ⟨T.voterB b t, of_decide_eq_true h, fun r hr => hr⟩, ?_⟩
  intro r hr hh
  have hh' : byz r.val = false := hh
  simp only [voterB, hh', Bool.false_or, List.any_eq_true, Bool.and_eq_true, beq_iff_eq, decide_eq_true_eq] at hr
  obtain ⟨⟨r', b', t'⟩, hmem, ⟨hr', hb'⟩, ht'⟩ := hr
  have : r' = r := Fin.ext hr'
  subst this
  subst hb'
  exact ⟨t', ht', hmem⟩

theorem gcB_sound {b : B} {t : Nat} (h : T.gcB b t = true) : GCBefore T.sys b t := by
  simp only [gcB, Bool.or_eq_true, beq_iff_eq] at h
  rcases h with h | h
  · exact Or.inl h
  · exact Or.inr (T.certB_sound h)

/-- the aggregate vote rule as a decidable statement about the tables -/
def AggOK (r : R) (w : B) (t : Nat) (a : Agg) : Prop :=
  quorumSize 7 ≤ count (fun i => a.1.any (fun m => m.val == i)) 7 ∧
  view w ≤ a.2.1 + 1 ∧
  (∀ m ∈ a.1, byz m.val = false → ∃ e ∈ T.tmos, e.1 = m ∧ e.2.1 = a.2.1 ∧ e.2.2.2 = repOf a.2.2 m ∧ e.2.2.1 < t) ∧
  (∀ m ∈ a.1, T.hasB r (repOf a.2.2 m) t = true → view (repOf a.2.2 m) ≤ view (par w)) ∧
  (∃ m ∈ a.1, repOf a.2.2 m = par w)

instance (r : R) (w : B) (t : Nat) (a : Agg) : Decidable (T.AggOK r w t a) := by
  unfold AggOK; exact inferInstance

theorem aggOK_sound {r : R} {w : B} {t : Nat} {a : Agg} (h : T.AggOK r w t a) :
    AggJ T.sys r w t (fun m => m ∈ a.1) a.2.1 (repOf a.2.2) := by
  obtain ⟨hq, hf, hr, hm, hx⟩ := h
  refine ⟨⟨_, hq, ?_⟩, hf, ?_, ?_, ?_⟩
  · intro m hm'
    simp only [List.any_eq_true, beq_iff_eq] at hm'
    obtain ⟨m', hmem, heq⟩ := hm'
    have : m' = m := Fin.ext heq
    subst this; exact hmem
  · intro m hmT hh
    obtain ⟨⟨m', u', t', R'⟩, hmem, h1, h2, h3, h4⟩ := hr m hmT hh
    simp only at h1 h2 h3 h4
    subst h1; subst h2; subst h3
    exact ⟨t', h4, hmem⟩
  · intro m hmT hhas _
    exact hm m hmT hhas
  · obtain ⟨m, hmT, heq⟩ := hx
    exact ⟨m, hmT, heq⟩

/-- the aggregate QC shown to `r` with block `b` -/
def aggOf (r : R) (b : B) : Option Agg := (T.aggFor r b).bind (fun i => T.aggs[i]?)

/-- **All clauses of `FastSafety.Discipline`, as decidable statements about the tables.** -/
structure OK : Prop where
  one_per_view : ∀ e1 ∈ T.votes, ∀ e2 ∈ T.votes, e1.1 = e2.1 → view e1.2.1 = view e2.2.1 → e1.2.1 = e2.2.1
  vote_order : ∀ e1 ∈ T.votes, ∀ e2 ∈ T.votes, e1.1 = e2.1 → view e1.2.1 < view e2.2.1 → e1.2.2 < e2.2.2
  wf : ∀ e ∈ T.votes, T.gcB (par e.2.1) e.2.2 = true ∧ view (par e.2.1) < view e.2.1 ∧
    T.hasB e.1 e.2.1 e.2.2 = true ∧ T.hasB e.1 (par e.2.1) e.2.2 = true
  just : ∀ e ∈ T.votes, view e.2.1 = view (par e.2.1) + 1 ∨
    OptSat (T.aggOf e.1 e.2.1) (fun a => T.AggOK e.1 e.2.1 e.2.2 a)
  tmo_once : ∀ e1 ∈ T.tmos, ∀ e2 ∈ T.tmos, e1.1 = e2.1 → e1.2.1 = e2.2.1 →
    e1.2.2.1 = e2.2.2.1 ∧ e1.2.2.2 = e2.2.2.2
  report : ∀ e ∈ T.tmos, T.gcB e.2.2.2 e.2.2.1 = true ∧ T.hasB e.1 e.2.2.2 e.2.2.1 = true ∧
    (∀ v ∈ T.votes, v.1 = e.1 → v.2.2 < e.2.2.1 → view (par v.2.1) ≤ view e.2.2.2 ∧ view v.2.1 ≤ e.2.1) ∧
    (∀ v ∈ T.votes, v.1 = e.1 → e.2.2.1 ≤ v.2.2 → e.2.1 < view v.2.1)
  report_mono : ∀ e1 ∈ T.tmos, ∀ e2 ∈ T.tmos, e1.1 = e2.1 → e1.2.2.1 ≤ e2.2.2.1 →
    e1.2.1 ≤ e2.2.1 ∧ view e1.2.2.2 ≤ view e2.2.2.2

theorem has_mono (r : R) (b : B) (t t' : Nat) (h : T.hasB r b t = true) (hle : t ≤ t') : T.hasB r b t' = true := by
  simp only [hasB, Bool.or_eq_true, beq_iff_eq, List.any_eq_true, Bool.and_eq_true, decide_eq_true_eq] at h ⊢
  rcases h with h | ⟨e, hmem, hc, ht⟩
  · exact Or.inl h
  · exact Or.inr ⟨e, hmem, hc, Nat.le_trans ht hle⟩

/-- **A schedule that passes the checks is an instance of the discipline.** -/
theorem discipline (h : T.OK) : Discipline T.sys where
  gen_view := by show view (0 : B) = 0; decide
  par_gen := by show par (0 : B) = (0 : B); decide
  inter := fun Q1 Q2 h1 h2 => by
    obtain ⟨r, h1', h2', hb⟩ := countQuorum_inter 7 (by decide) byz (by decide) Q1 Q2 h1 h2
    exact ⟨r, h1', h2', hb⟩
  has_mono := T.has_mono
  one_per_view := fun r x y t1 t2 _ h1 h2 hv => h.one_per_view (r, x, t1) h1 (r, y, t2) h2 rfl hv
  vote_order := fun r x y t1 t2 _ h1 h2 hv => h.vote_order (r, x, t1) h1 (r, y, t2) h2 rfl hv
  wf := fun r w t _ hv => by
    obtain ⟨h1, h2, h3, h4⟩ := h.wf (r, w, t) hv
    exact ⟨T.gcB_sound h1, h2, h3, h4⟩
  just := fun r w t _ hv => by
    rcases h.just (r, w, t) hv with hp | ⟨a, _, ha⟩
    · exact Or.inl hp
    · exact Or.inr ⟨_, _, _, T.aggOK_sound ha⟩
  tmo_once := fun m u t1 t2 R1 R2 _ h1 h2 => h.tmo_once (m, u, t1, R1) h1 (m, u, t2, R2) h2 rfl rfl
  report := fun m u t' Rb _ hm => by
    obtain ⟨h1, h2, h3, h4⟩ := h.report (m, u, t', Rb) hm
    exact ⟨T.gcB_sound h1, h2, fun x tx hx hlt => h3 (m, x, tx) hx rfl hlt, fun x tx hx hle => h4 (m, x, tx) hx rfl hle⟩
  report_mono := fun m u1 u2 t1 t2 R1 R2 _ h1 h2 hle =>
    h.report_mono (m, u1, t1, R1) h1 (m, u2, t2, R2) h2 rfl hle

/-- decidable form of `StrictJust`: every honest report of the aggregate QC is for a block the voter has -/
def StrictOK : Prop := ∀ e ∈ T.votes, view e.2.1 = view (par e.2.1) + 1 ∨
    OptSat (T.aggOf e.1 e.2.1) (fun a => T.AggOK e.1 e.2.1 e.2.2 a ∧
      ∀ m ∈ a.1, byz m.val = false → T.hasB e.1 (repOf a.2.2 m) e.2.2 = true)

theorem strict_of (h : T.StrictOK) : StrictJust T.sys := by
  intro r w t _ hv
  rcases h (r, w, t) hv with hp | ⟨a, _, ha⟩
  · exact Or.inl hp
  · exact Or.inr ⟨_, _, _, T.aggOK_sound ha.1, fun m hm hh => ha.2 m hm hh⟩

/-- decidable form of `UniformJust`: one aggregate QC per block that is not plain -/
def UniformOK : Prop := ∀ w : B, view w = view (par w) + 1 ∨
    ∃ a ∈ T.aggs, ∀ e ∈ T.votes, e.2.1 = w → T.AggOK e.1 w e.2.2 a

theorem uniform_of (h : T.UniformOK) : UniformJust T.sys := by
  intro w
  rcases h w with hp | ⟨a, _, ha⟩
  · exact Or.inl hp
  · exact Or.inr ⟨_, _, _, fun r t _ hv => T.aggOK_sound (ha (r, w, t) hv rfl)⟩

end Tbl

/-! ### The counterexample -/

def A2 : Agg := ([2, 3, 4, 5, 6], 2, [(2, 1)])
def A3 : Agg := ([0, 1, 3, 5, 6], 3, [(0, 2), (1, 2)])
def A5 : Agg := ([0, 1, 4, 5, 6], 5, [(0, 4), (1, 4)])
def A6 : Agg := ([2, 3, 4, 5, 6], 6, [(2, 6), (3, 6), (4, 6)])

def full : Tbl where
  votes :=
    [(0, 1, 1), (1, 1, 2), (2, 1, 3),
     (0, 2, 7), (1, 2, 8), (2, 2, 9),
     (3, 6, 13), (4, 6, 14), (0, 3, 15), (1, 3, 16),
     (0, 4, 20), (1, 4, 21), (3, 4, 22),
     (0, 5, 26), (1, 5, 27),
     (2, 6, 31),
     (2, 7, 35), (3, 7, 36), (4, 7, 37),
     (2, 8, 41), (3, 8, 42), (4, 8, 43),
     (2, 9, 47)]
  tmos :=
    [(0, 1, 4, 0), (1, 1, 5, 0), (2, 1, 6, 0),
     (2, 2, 10, 1), (3, 2, 11, 0), (4, 2, 12, 0),
     (0, 3, 17, 2), (1, 3, 18, 2), (3, 3, 19, 0),
     (0, 4, 23, 2), (1, 4, 24, 2), (3, 4, 25, 2),
     (0, 5, 28, 4), (1, 5, 29, 4), (4, 5, 30, 0),
     (2, 6, 32, 6), (3, 6, 33, 6), (4, 6, 34, 6),
     (2, 7, 38, 6), (3, 7, 39, 6), (4, 7, 40, 6),
     (2, 8, 44, 7), (3, 8, 45, 7), (4, 8, 46, 7)]
  hasL :=
    [(0, 1, 1), (0, 2, 7), (0, 3, 15), (0, 4, 20), (0, 5, 26),
     (1, 1, 2), (1, 2, 8), (1, 3, 16), (1, 4, 21), (1, 5, 27),
     (2, 1, 3), (2, 2, 9), (2, 6, 31), (2, 7, 35), (2, 8, 41), (2, 9, 47),
     (3, 6, 13), (3, 2, 22), (3, 4, 22), (3, 7, 36), (3, 8, 42),
     (4, 6, 14), (4, 7, 37), (4, 8, 43)]
  aggs := [A2, A3, A5, A6]
  aggFor := fun r b =>
    if b = 6 then (if r = 2 then some 2 else some 0)
    else if b = 4 then some 1
    else if b = 7 then some 3
    else none

/-- the counterexample system -/
def cex : TSys := full.sys

theorem full_ok : full.OK where
  one_per_view := by decide +kernel
  vote_order := by decide +kernel
  wf := by decide +kernel
  just := by decide +kernel
  tmo_once := by decide +kernel
  report := by decide +kernel
  report_mono := by decide +kernel

/-- **The instance satisfies the whole discipline of Fast-HotStuff as implemented.** -/
theorem cex_discipline : Discipline cex := full.discipline full_ok

/-- realism, beyond `Discipline`: all events happen at distinct times -/
theorem full_times_distinct :
    ((full.votes.map (fun e => e.2.2)) ++ (full.tmos.map (fun e => e.2.2.1))).Nodup := by
  decide +kernel

/-- realism, beyond `Discipline`: a reported high QC is for a view below the view that timed out -/
theorem full_report_below : ∀ e ∈ full.tmos, view e.2.2.2 < e.2.1 := by
  decide +kernel

/-- realism, beyond `Discipline`: every honest vote is cast after a quorum of timeouts of the preceding
view (a timeout certificate, the only way to enter a view under the aggregate timeout rule) except in view 1 -/
theorem full_entered_by_tc : ∀ e ∈ full.votes, view e.2.1 = 1 ∨
    quorumSize 7 ≤ count (fun i => byz i || full.tmos.any (fun x => x.1.val == i && x.2.1 + 1 == view e.2.1 &&
      decide (x.2.2.1 < e.2.2))) 7 := by
  decide +kernel

/-! #### the two conflicting commits -/

theorem chain_b : TwoChain cex (1 : B) (2 : B) where
  p := by show par (2 : B) = (1 : B); decide
  v := by show view (2 : B) = view (1 : B) + 1; decide
  cert := (full.certB_sound (b := 2) (t := 10) (by decide +kernel)).certified

theorem chain_w : TwoChain cex (7 : B) (8 : B) where
  p := by show par (8 : B) = (7 : B); decide
  v := by show view (8 : B) = view (7 : B) + 1; decide
  cert := (full.certB_sound (b := 8) (t := 44) (by decide +kernel)).certified

theorem up_zero (T : Tbl) (k : Nat) : up T.sys.toSys k (0 : B) = (0 : B) :=
  up_gen (S := T.sys.toSys) (by show par (0 : B) = (0 : B); decide) k

theorem not_ext_b_w : ¬ TExt cex (1 : B) (7 : B) := by
  rintro ⟨k, hk⟩
  match k with
  | 0 =>
    have hk' : (1 : B) = (7 : B) := hk
    exact absurd hk' (by decide)
  | k + 1 =>
    have : up cex.toSys (k + 1) (1 : B) = up cex.toSys k (0 : B) := rfl
    have hz : up cex.toSys k (0 : B) = (0 : B) := up_zero full k
    rw [this, hz] at hk
    have hk' : (0 : B) = (7 : B) := hk
    exact absurd hk' (by decide)

theorem not_ext_w_b : ¬ TExt cex (7 : B) (1 : B) := by
  rintro ⟨k, hk⟩
  match k with
  | 0 =>
    have hk' : (7 : B) = (1 : B) := hk
    exact absurd hk' (by decide)
  | 1 =>
    have hk' : (6 : B) = (1 : B) := hk
    exact absurd hk' (by decide)
  | k + 2 =>
    have : up cex.toSys (k + 2) (7 : B) = up cex.toSys k (0 : B) := rfl
    have hz : up cex.toSys k (0 : B) = (0 : B) := up_zero full k
    rw [this, hz] at hk
    have hk' : (0 : B) = (1 : B) := hk
    exact absurd hk' (by decide)

/-- **Two committed blocks that are not on one branch.** -/
theorem cex_conflict : ¬ (TExt cex (1 : B) (7 : B) ∨ TExt cex (7 : B) (1 : B)) := by
  rintro (h | h)
  · exact not_ext_b_w h
  · exact not_ext_w_b h

/-- the instance violates both extra hypotheses (it must, by the two safety theorems) -/
theorem cex_not_strict : ¬ StrictJust cex := fun hs =>
  cex_conflict (fast_committed_on_one_branch_strict cex_discipline hs chain_b chain_w)

theorem cex_not_uniform : ¬ UniformJust cex := fun hu =>
  cex_conflict (fast_committed_on_one_branch_uniform cex_discipline hu chain_b chain_w)

/-! #### where exactly the argument breaks: the vote of s1 for `w` -/

/-- When s1 (replica 2) votes for `w` (block 6, view 3) at time 31, the aggregate QC it checks (A5, view 5)
contains the timeout of h1 (replica 0), an honest voter of b1, reporting X (block 4, view 4, above b0) --
but s1 does not have X, so the report is skipped and a block whose parent is genesis passes. -/
theorem s1_skips_report :
    (2, 6, 31) ∈ full.votes ∧ full.aggOf 2 6 = some A5 ∧ (0, 2, 7) ∈ full.votes ∧ (0, 5, 28, 4) ∈ full.tmos ∧
    view (1 : B) ≤ view (4 : B) ∧ full.hasB 2 4 31 = false ∧ par (6 : B) = 0 := by
  decide +kernel

/-- the voters of `w` were shown different aggregate QCs (A2 to s2 and s3, A5 to s1) -/
theorem w_two_aggregates : full.aggOf 3 6 = some A2 ∧ full.aggOf 4 6 = some A2 ∧ full.aggOf 2 6 = some A5 :=
  ⟨rfl, rfl, rfl⟩

/-- the aggregate QC that s1 accepts for the view 3 block `w` is of view 5: a LATER view than the block's -/
theorem s1_late_aggregate : view (6 : B) = 3 ∧ A5.2.1 = 5 := by decide

/-- the quorum system is the implementation's: n = 7, `numFaulty 7 = 2` Byzantine replicas, `quorumSize 7 = 5` -/
theorem cex_sizes : numFaulty 7 = 2 ∧ quorumSize 7 = 5 ∧ count byz 7 = 2 := by decide

/-! ### Non-vacuity of the two safety theorems: the honest branch of the schedule alone

The b-branch of the schedule (b0, b1, c3, X with the aggregate QC A3, X' -- now also voted for by s2, so X' is
certified and X is committed) satisfies the discipline AND both extra hypotheses, and has two commits (b0 and
X, with the aggregate-justified block X in between). -/

def good : Tbl where
  votes :=
    [(0, 1, 1), (1, 1, 2), (2, 1, 3),
     (0, 2, 7), (1, 2, 8), (2, 2, 9),
     (0, 3, 15), (1, 3, 16),
     (0, 4, 20), (1, 4, 21), (3, 4, 22),
     (0, 5, 26), (1, 5, 27), (3, 5, 28)]
  tmos :=
    [(0, 1, 4, 0), (1, 1, 5, 0), (2, 1, 6, 0),
     (2, 2, 10, 1), (3, 2, 11, 0), (4, 2, 12, 0),
     (0, 3, 17, 2), (1, 3, 18, 2), (3, 3, 19, 0),
     (0, 4, 23, 2), (1, 4, 24, 2), (3, 4, 25, 2)]
  hasL :=
    [(0, 1, 1), (0, 2, 7), (0, 3, 15), (0, 4, 20), (0, 5, 26),
     (1, 1, 2), (1, 2, 8), (1, 3, 16), (1, 4, 21), (1, 5, 27),
     (2, 1, 3), (2, 2, 9),
     (3, 2, 22), (3, 4, 22), (3, 5, 28)]
  aggs := [A3]
  aggFor := fun _ b => if b = 4 then some 0 else none

theorem good_ok : good.OK where
  one_per_view := by decide +kernel
  vote_order := by decide +kernel
  wf := by decide +kernel
  just := by decide +kernel
  tmo_once := by decide +kernel
  report := by decide +kernel
  report_mono := by decide +kernel

theorem good_discipline : Discipline good.sys := good.discipline good_ok

instance (T : Tbl) : Decidable T.StrictOK := by
  unfold Tbl.StrictOK
  exact inferInstance

instance (T : Tbl) : Decidable T.UniformOK := by
  unfold Tbl.UniformOK
  exact inferInstance

theorem good_strict : StrictJust good.sys := good.strict_of (by decide +kernel)
theorem good_uniform : UniformJust good.sys := good.uniform_of (by decide +kernel)

theorem good_chain_b : TwoChain good.sys (1 : B) (2 : B) where
  p := by show par (2 : B) = (1 : B); decide
  v := by show view (2 : B) = view (1 : B) + 1; decide
  cert := (good.certB_sound (b := 2) (t := 10) (by decide +kernel)).certified

theorem good_chain_x : TwoChain good.sys (4 : B) (5 : B) where
  p := by show par (5 : B) = (4 : B); decide
  v := by show view (5 : B) = view (4 : B) + 1; decide
  cert := (good.certB_sound (b := 5) (t := 29) (by decide +kernel)).certified

end HsVerif.FastCex
