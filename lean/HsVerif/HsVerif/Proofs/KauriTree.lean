import HsVerif.Proofs.Kauri
import HsVerif.Proofs.Tree
/-! Helper lemmas for the composition of the Kauri aggregation nodes along the tree (Props/C09Tree):
closed sub-trees of the tree model, the explicit trace of one node fed with valid disjoint
contributions, and the bottom-up run of the whole tree. -/
set_option linter.unusedSimpArgs false
set_option linter.unusedVariables false
namespace HsVerif.Model
namespace Tree

/-! ### closed sub-trees: a node with the sub-trees of its children, pairwise disjoint -/

/-- a proper descendant is a child or a proper descendant of a child -/
theorem Desc.top {ch : Nat → List Nat} {r c : Nat} : Desc ch r c ↔ ∃ x ∈ ch r, x = c ∨ Desc ch x c := by
  constructor
  · intro h
    induction h with
    | child hc => exact ⟨_, hc, Or.inl rfl⟩
    | step hd hc ih =>
      obtain ⟨y, hy, h⟩ := ih
      refine ⟨y, hy, Or.inr ?_⟩
      rcases h with h | h
      · subst h; exact Desc.child hc
      · exact Desc.step h hc
  · rintro ⟨x, hx, h | h⟩
    · subst h; exact Desc.child hx
    · exact Desc.trans (Desc.child hx) h

/-- the ancestors of a replica form a chain -/
theorem Desc.chain {ch : Nat → List Nat} {U : List Nat} (g : GoodCh ch U) {a x : Nat} (h : Desc ch a x) :
    ∀ b, Desc ch b x → a = b ∨ Desc ch a b ∨ Desc ch b a := by
  induction h with
  | child hc =>
    intro b hb
    cases hb with
    | child hc' => exact Or.inl (g.uniq _ _ _ hc hc')
    | step hd hc' =>
      have := g.uniq _ _ _ hc' hc
      subst this
      exact Or.inr (Or.inr hd)
  | step hd hc ih =>
    intro b hb
    cases hb with
    | child hc' =>
      have := g.uniq _ _ _ hc hc'
      subst this
      exact Or.inr (Or.inl hd)
    | step hd' hc' =>
      have := g.uniq _ _ _ hc' hc
      subst this
      exact ih b hd'

theorem sibling_not_desc {ch : Nat → List Nat} {U : List Nat} (g : GoodCh ch U) {r c c' : Nat}
    (hc : c ∈ ch r) (hc' : c' ∈ ch r) : ¬ Desc ch c' c := by
  intro h
  cases h with
  | child h1 =>
    have := g.uniq _ _ _ h1 hc
    subst this
    exact g.acyc _ (Desc.child hc')
  | step hd h1 =>
    have := g.uniq _ _ _ h1 hc
    subst this
    exact g.acyc _ (Desc.trans (Desc.child hc') hd)

/-- the closed sub-trees of two different children of one node share no replica -/
theorem closed_disjoint {ch : Nat → List Nat} {U : List Nat} (g : GoodCh ch U) {r c c' x : Nat}
    (hc : c ∈ ch r) (hc' : c' ∈ ch r) (hx : x = c ∨ Desc ch c x) (hx' : x = c' ∨ Desc ch c' x) : c = c' := by
  rcases hx with hx | hx <;> rcases hx' with hx' | hx'
  · exact hx.symm.trans hx'
  · subst hx; exact absurd hx' (sibling_not_desc g hc hc')
  · subst hx'; exact absurd hx (sibling_not_desc g hc' hc)
  · rcases hx.chain g _ hx' with h | h | h
    · exact h
    · exact absurd h (sibling_not_desc g hc' hc)
    · exact absurd h (sibling_not_desc g hc hc')

theorem nodup_flatMap_of_mem {l : List Nat} {f : Nat → List Nat} (hl : l.Nodup) (hf : ∀ x ∈ l, (f x).Nodup)
    (hd : ∀ x ∈ l, ∀ y ∈ l, ∀ c, c ∈ f x → c ∈ f y → x = y) : (l.flatMap f).Nodup := by
  induction l with
  | nil => simp
  | cons a l ih =>
    rw [List.flatMap_cons, List.nodup_append]
    rw [List.nodup_cons] at hl
    refine ⟨hf a (by simp), ih hl.2 (fun x hx => hf x (by simp [hx]))
      (fun x hx y hy => hd x (by simp [hx]) y (by simp [hy])), ?_⟩
    intro x hx y hy hxy
    subst hxy
    obtain ⟨z, hz, hxz⟩ := List.mem_flatMap.mp hy
    have := hd a (by simp) z (by simp [hz]) _ hx hxz
    subst this
    exact hl.1 hz

/-- the closed sub-tree of `r`: `r` and its `SubTree()` -/
def cl (b : Nat) (pos : List Nat) (r : Nat) : List Nat := r :: (mk' r b pos).subTree

theorem mem_cl {b : Nat} {pos : List Nat} (hnd : pos.Nodup) (hb : 2 ≤ b) (r x : Nat) :
    x ∈ cl b pos r ↔ x = r ∨ Desc (mk' 0 b pos).childrenOf r x := by
  unfold cl
  rw [List.mem_cons, (subTree_spec (mk' r b pos) (goodCh_mk' hnd hb)).2]
  rfl

theorem cl_nodup {b : Nat} {pos : List Nat} (hnd : pos.Nodup) (hb : 2 ≤ b) (r : Nat) : (cl b pos r).Nodup := by
  unfold cl
  have g := goodCh_mk' (id := r) hnd hb
  rw [List.nodup_cons]
  refine ⟨fun h => ?_, (subTree_spec _ g).1⟩
  exact g.acyc r (((subTree_spec _ g).2 r).mp h)

/-- a node's closed sub-tree is the node followed by the closed sub-trees of its children -/
theorem cl_children {b : Nat} {pos : List Nat} (hnd : pos.Nodup) (hb : 2 ≤ b) (r : Nat) :
    (r :: ((mk' r b pos).childrenOf r).flatMap (cl b pos)).Nodup ∧
    (cl b pos r).Perm (r :: ((mk' r b pos).childrenOf r).flatMap (cl b pos)) := by
  have g := goodCh_mk' (id := 0) hnd hb
  have hch : (mk' r b pos).childrenOf = (mk' 0 b pos).childrenOf := rfl
  rw [hch]
  have hn : (r :: ((mk' 0 b pos).childrenOf r).flatMap (cl b pos)).Nodup := by
    rw [List.nodup_cons]
    constructor
    · intro h
      obtain ⟨c, hc, hr⟩ := List.mem_flatMap.mp h
      rcases (mem_cl hnd hb c r).mp hr with e | hd
      · subst e; exact g.acyc _ (Desc.child hc)
      · exact g.acyc _ (Desc.trans (Desc.child hc) hd)
    · apply nodup_flatMap_of_mem (g.nodup r) (fun x _ => cl_nodup hnd hb x)
      intro x hx y hy c hcx hcy
      exact closed_disjoint g hx hy ((mem_cl hnd hb x c).mp hcx) ((mem_cl hnd hb y c).mp hcy)
  refine ⟨hn, ?_⟩
  rw [List.perm_ext_iff_of_nodup (cl_nodup hnd hb r) hn]
  intro x
  rw [mem_cl hnd hb, List.mem_cons, Desc.top]
  simp only [List.mem_flatMap, mem_cl hnd hb, eq_comm]

end Tree
/-! ### one node fed with valid, pairwise disjoint contributions: the explicit trace -/
open Bitfield

theorem fromWire_of_WF (s : Sig) (h : s.WF) : s.fromWire = s := by
  cases s with
  | multi _ _ => rfl
  | bls a j bits =>
    cases bits with
    | mk d l =>
      simp only [Sig.WF, Bitfield.ids] at h
      simp only [Sig.fromWire, Bitfield.fromBytes]
      rw [h]

/-- `Combine(cur, agg)` when it succeeds (else the held aggregate stays) -/
def mergeSig (cfg : Cfg) (cur agg : Sig) : Sig :=
  match combine cfg [cur, agg] with
  | .ok s => s
  | _ => agg

/-- the aggregate held after merging the contributions `cs` one after the other into `agg` -/
def aggAfter (cfg : Cfg) (agg : Sig) (cs : List (Nat × Sig)) : Sig :=
  cs.foldl (fun a p => mergeSig cfg p.2.fromWire a) agg

def KEffect.isQC : KEffect → Bool
  | .newViewQC _ _ _ => true
  | _ => false

/-- a verifying contribution disjoint from the held aggregate: the step, explicitly -/
theorem contrib_step_eq (T : Truth) (c : KCfg) (s : KState) (v id : Nat) (g agg : Sig)
    (hview : s.currentView = v) (hagg : s.aggContrib = some agg) (hokagg : SigOK T c s.blockHash agg)
    (hv : verify T c.cfg g.fromWire (blkMsg s.blockHash) = true) (hd : Disj g.participants agg.participants) :
    SigOK T c s.blockHash (mergeSig c.cfg g.fromWire agg) ∧
    (mergeSig c.cfg g.fromWire agg).participants.Perm (g.participants ++ agg.participants) ∧
    kStep T c s (.contribution v id (some g) true) =
      ({ s with aggContrib := some (mergeSig c.cfg g.fromWire agg), senders := s.senders ++ [id],
                aggSent := (if isSubSet c.subtree (s.senders ++ [id]) then true else s.aggSent) },
       (if c.cfg.quorum ≤ (mergeSig c.cfg g.fromWire agg).len
          then [.newViewQC (mergeSig c.cfg g.fromWire agg) v s.blockHash] else []) ++
       (if isSubSet c.subtree (s.senders ++ [id]) then [.sendToParent v (some (mergeSig c.cfg g.fromWire agg))] else [])) := by
  have hok : SigOK T c s.blockHash g.fromWire := ⟨hv, fromWire_WF g⟩
  have hcm : canMerge g.fromWire agg = true := by
    rw [canMerge_iff _ _ (sigOK_ge_one T c _ _ hok), fromWire_participants]; exact hd
  obtain ⟨comb, hc, hvs, hws, hps, _⟩ := combine_two_verifies T c.cfg _ g.fromWire agg hv hokagg.1
    (fromWire_WF g) hokagg.2 (by rw [fromWire_participants]; exact hd)
  rw [fromWire_participants] at hps
  have hms : mergeSig c.cfg g.fromWire agg = comb := by simp [mergeSig, hc]
  rw [hms]
  refine ⟨⟨hvs, hws⟩, hps, ?_⟩
  have hvv : (s.currentView != v) = false := by simp [hview]
  simp only [kStep, onContribution, hvv, Bool.false_eq_true, ↓reduceIte, Option.map_some,
    mergeContribution, Bool.not_true, hv, hagg, hcm, hc]
  subst hview
  by_cases hq : c.cfg.quorum ≤ comb.len <;> by_cases hs : isSubSet c.subtree (s.senders ++ [id]) = true <;>
    simp [hq, hs]

/-- the certificates a node emits while merging the contributions `cs` into `agg` -/
def qcTrace (cfg : Cfg) (v : Nat) (h : Hash) : Sig → List (Nat × Sig) → List KEffect
  | _, [] => []
  | agg, p :: rest =>
    (if cfg.quorum ≤ (mergeSig cfg p.2.fromWire agg).len then [.newViewQC (mergeSig cfg p.2.fromWire agg) v h] else []) ++
      qcTrace cfg v h (mergeSig cfg p.2.fromWire agg) rest

theorem aggAfter_cons (cfg : Cfg) (agg : Sig) (p : Nat × Sig) (cs : List (Nat × Sig)) :
    aggAfter cfg agg (p :: cs) = aggAfter cfg (mergeSig cfg p.2.fromWire agg) cs := rfl

theorem aggAfter_snoc (cfg : Cfg) (agg : Sig) (p : Nat × Sig) (cs : List (Nat × Sig)) :
    aggAfter cfg agg (cs ++ [p]) = mergeSig cfg p.2.fromWire (aggAfter cfg agg cs) := by
  simp [aggAfter, List.foldl_append]

/-- valid, pairwise disjoint contributions fed one after the other to a node that holds `agg` -/
theorem contribs_run (T : Truth) (c : KCfg) (v : Nat) (h : Hash) :
    ∀ (rest : List (Nat × Sig)) (s : KState) (agg : Sig),
      s.currentView = v → s.blockHash = h → s.aggContrib = some agg → SigOK T c h agg →
      (∀ p ∈ rest, verify T c.cfg p.2.fromWire (blkMsg h) = true) →
      (agg.participants :: rest.map (·.2.participants)).Pairwise Disj →
      (kRun T c s (rest.map (contribOp v))).1.currentView = v ∧
      (kRun T c s (rest.map (contribOp v))).1.blockHash = h ∧
      (kRun T c s (rest.map (contribOp v))).1.aggContrib = some (aggAfter c.cfg agg rest) ∧
      (kRun T c s (rest.map (contribOp v))).1.senders = s.senders ++ rest.map (·.1) ∧
      SigOK T c h (aggAfter c.cfg agg rest) ∧
      (aggAfter c.cfg agg rest).participants.Perm (agg.participants ++ rest.flatMap (·.2.participants)) ∧
      (kRun T c s (rest.map (contribOp v))).2.filter KEffect.isQC = qcTrace c.cfg v h agg rest ∧
      ((∃ g ∈ c.subtree, g ∉ s.senders ∧ g ∉ rest.map (·.1)) →
        (kRun T c s (rest.map (contribOp v))).1.aggSent = s.aggSent ∧
        (kRun T c s (rest.map (contribOp v))).2.filter KEffect.isSend = []) := by
  intro rest
  induction rest with
  | nil =>
    intro s agg hview hhash hagg hok _ _
    refine ⟨hview, hhash, hagg, by simp [kRun_nil], hok, by simp [aggAfter], rfl, fun _ => ⟨rfl, rfl⟩⟩
  | cons p rest ih =>
    intro s agg hview hhash hagg hok hvalid hpw
    rw [List.map_cons, List.pairwise_cons] at hpw
    obtain ⟨hagg_d, hrest_pw⟩ := hpw
    rw [List.pairwise_cons] at hrest_pw
    have hd : Disj p.2.participants agg.participants := disj_symm (hagg_d _ (by simp))
    obtain ⟨hcok, hcperm, hst⟩ := contrib_step_eq T c s v p.1 p.2 agg hview hagg (hhash ▸ hok)
      (hhash ▸ hvalid p (by simp)) hd
    rw [hhash] at hcok
    have hop : contribOp v p = .contribution v p.1 (some p.2) true := rfl
    have hpw' : ((mergeSig c.cfg p.2.fromWire agg).participants :: rest.map (·.2.participants)).Pairwise Disj := by
      rw [List.pairwise_cons]
      refine ⟨?_, hrest_pw.2⟩
      intro b hb i hi
      rcases List.mem_append.mp (hcperm.mem_iff.mp hi) with h1 | h1
      · exact hrest_pw.1 b hb i h1
      · exact hagg_d b (List.mem_cons_of_mem _ hb) i h1
    obtain ⟨h1, h2, h3, h4, h5, h6, h7, h8⟩ := ih
      { s with aggContrib := some (mergeSig c.cfg p.2.fromWire agg), senders := s.senders ++ [p.1],
               aggSent := (if isSubSet c.subtree (s.senders ++ [p.1]) then true else s.aggSent) }
      (mergeSig c.cfg p.2.fromWire agg) hview hhash rfl hcok (fun q hq => hvalid q (by simp [hq])) hpw'
    simp only [List.map_cons, kRun_cons, hop, hst, aggAfter_cons, List.flatMap_cons, List.filter_append]
    refine ⟨h1, h2, h3, by rw [h4]; simp, h5, ?_, ?_, ?_⟩
    · refine h6.trans ?_
      refine (hcperm.append_right _).trans ?_
      rw [← List.append_assoc]
      exact List.perm_append_comm.append_right _
    · rw [h7]
      by_cases hq : c.cfg.quorum ≤ (mergeSig c.cfg p.2.fromWire agg).len <;>
        by_cases hs : isSubSet c.subtree (s.senders ++ [p.1]) = true <;>
        simp [hq, hs, qcTrace, KEffect.isQC, hhash, List.filter]
    · rintro ⟨g, hg, hgs, hgr⟩
      have hcov : isSubSet c.subtree (s.senders ++ [p.1]) = false := by
        cases hh : isSubSet c.subtree (s.senders ++ [p.1]) with
        | false => rfl
        | true =>
          rw [isSubSet_iff] at hh
          have := hh g hg
          simp only [List.mem_append, List.mem_singleton] at this
          rcases this with h | h
          · exact absurd h hgs
          · exact absurd (by simp [h]) hgr
      obtain ⟨h9, h10⟩ := h8 ⟨g, hg, by
        simp only [List.mem_append, List.mem_singleton, not_or]
        exact ⟨hgs, fun e => hgr (by simp [e])⟩, fun hm => hgr (by simp at hm ⊢; exact Or.inr hm)⟩
      rw [h9, h10]
      simp only [hcov, Bool.false_eq_true, ↓reduceIte, List.append_nil, List.filter_nil]
      by_cases hq : c.cfg.quorum ≤ (mergeSig c.cfg p.2.fromWire agg).len <;> simp [hq, KEffect.isSend]

theorem kRun_append (T : Truth) (c : KCfg) : ∀ (a b : List KOp) (s : KState),
    kRun T c s (a ++ b) = ((kRun T c (kRun T c s a).1 b).1, (kRun T c s a).2 ++ (kRun T c (kRun T c s a).1 b).2) := by
  intro a
  induction a with
  | nil => intro b s; simp [kRun_nil]
  | cons op a ih => intro b s; simp only [List.cons_append, kRun_cons, ih, List.append_assoc]

/-- the operations of one node in a view: its own vote, then the contributions `cs` -/
def nodeOps (v : Nat) (h : Hash) (own : Sig) (cs : List (Nat × Sig)) : List KOp :=
  .begin v h own :: cs.map (contribOp v)

/-- **One node of the tree, fed by its children.**  The node begins the view with a verifying own
vote (from any state) and receives contributions from distinct children (all of them, or only
some: the others stay silent), in any order, each verifying, pairwise disjoint and disjoint from the
own vote.  Then it holds the aggregate of all of them, the
certificates it emitted are those of `qcTrace`, and — once its wait timer has fired — it has sent
exactly one aggregate to its parent: the complete one.  A node with a sub-tree replica that is not
among the senders (a grandchild, or a silent child) sends nothing before the timer. -/
theorem node_run (T : Truth) (c : KCfg) (s0 : KState) (v : Nat) (h : Hash) (own : Sig) (cs : List (Nat × Sig))
    (hown : SigOK T c h own) (hidnd : (cs.map (·.1)).Nodup) (hidsub : ∀ x ∈ cs.map (·.1), x ∈ c.children)
    (hsubnd : c.subtree.Nodup) (hsub : ∀ x ∈ c.children, x ∈ c.subtree)
    (hleafsub : c.children = [] → c.subtree = [])
    (hvalid : ∀ p ∈ cs, verify T c.cfg p.2.fromWire (blkMsg h) = true)
    (hdisj : (own.participants :: cs.map (·.2.participants)).Pairwise Disj) :
    (kRun T c s0 (nodeOps v h own cs)).1.aggContrib = some (aggAfter c.cfg own cs) ∧
    (kRun T c s0 (nodeOps v h own cs)).1.currentView = v ∧
    (kRun T c s0 (nodeOps v h own cs)).1.blockHash = h ∧
    SigOK T c h (aggAfter c.cfg own cs) ∧
    (aggAfter c.cfg own cs).participants.Perm (own.participants ++ cs.flatMap (·.2.participants)) ∧
    (kRun T c s0 (nodeOps v h own cs)).2.filter KEffect.isQC = qcTrace c.cfg v h own cs ∧
    (kRun T c s0 (nodeOps v h own cs ++ [.timerExpired v])).2.filter KEffect.isSend =
      [.sendToParent v (some (aggAfter c.cfg own cs))] ∧
    ((∃ g ∈ c.subtree, g ∉ cs.map (·.1)) → (kRun T c s0 (nodeOps v h own cs)).2.filter KEffect.isSend = []) ∧
    ((∀ g ∈ c.subtree, g ∈ cs.map (·.1)) → (kRun T c s0 (nodeOps v h own cs)).2.filter KEffect.isSend =
      [.sendToParent v (some (aggAfter c.cfg own cs))]) := by
  by_cases hleaf : c.children = []
  · -- a leaf: the own vote goes up at once
    have hcs : cs = [] := by
      cases cs with
      | nil => rfl
      | cons p _ => have := hidsub p.1 (by simp); rw [hleaf] at this; simp at this
    subst hcs
    have he : (!c.children.isEmpty) = false := by simp [hleaf]
    have hb : kStep T c s0 (.begin v h own) =
        ({ s0.reset with blockHash := h, currentView := v, aggContrib := some own, aggSent := true },
          [.sendToParent v (some own)]) := by
      simp only [kStep, kBegin, he, Bool.false_eq_true, ↓reduceIte]
    have hrun : kRun T c s0 (nodeOps v h own []) =
        ({ s0.reset with blockHash := h, currentView := v, aggContrib := some own, aggSent := true },
          [.sendToParent v (some own)]) := by
      simp [nodeOps, kRun_cons, kRun_nil, hb]
    rw [kRun_append, hrun]
    refine ⟨rfl, rfl, rfl, hown, by simp [aggAfter], ?_, ?_, ?_, ?_⟩
    · simp [qcTrace, KEffect.isQC, List.filter]
    · simp [kRun_cons, kRun_nil, kStep, onTimer, aggAfter, KEffect.isSend, List.filter]
    · rintro ⟨g, hg, hgc⟩
      rw [hleafsub hleaf] at hg
      simp at hg
    · intro _; simp [aggAfter, KEffect.isSend, List.filter]
  · -- an inner node
    have hne : (!c.children.isEmpty) = true := by
      cases hc : c.children with
      | nil => exact absurd hc hleaf
      | cons _ _ => rfl
    have hb : kStep T c s0 (.begin v h own) =
        ({ s0.reset with blockHash := h, currentView := v, aggContrib := some own }, [.sendProposalToChildren]) := by
      simp only [kStep, kBegin, hne, ↓reduceIte]
    obtain ⟨h1, h2, h3, h4, h5, h6, h7, h8⟩ := contribs_run T c v h cs
      { s0.reset with blockHash := h, currentView := v, aggContrib := some own } own rfl rfl rfl hown hvalid hdisj
    have hrun : kRun T c s0 (nodeOps v h own cs) =
        ((kRun T c { s0.reset with blockHash := h, currentView := v, aggContrib := some own } (cs.map (contribOp v))).1,
         [.sendProposalToChildren] ++
          (kRun T c { s0.reset with blockHash := h, currentView := v, aggContrib := some own } (cs.map (contribOp v))).2) := by
      simp only [nodeOps, kRun_cons, hb]
    rw [kRun_append, hrun]
    have hsent : (∀ x ∈ c.subtree, x ∈ cs.map (·.1)) →
        (kRun T c { s0.reset with blockHash := h, currentView := v, aggContrib := some own } (cs.map (contribOp v))).1.aggSent = true ∧
        (kRun T c { s0.reset with blockHash := h, currentView := v, aggContrib := some own } (cs.map (contribOp v))).2.filter KEffect.isSend =
          [.sendToParent v (some (aggAfter c.cfg own cs))] := by
      intro hcov
      -- the senders are the whole sub-tree: sent at the last contribution (`run_contribs`)
      have hperm : (cs.map (·.1)).Perm c.subtree :=
        (List.perm_ext_iff_of_nodup hidnd hsubnd).mpr (fun a => ⟨fun ha => hsub a (hidsub a ha), hcov a⟩)
      have hcsne : cs ≠ [] := by
        intro e; subst e
        cases hc : c.children with
        | nil => exact hleaf hc
        | cons x _ => have := hcov x (hsub x (by simp [hc])); simp at this
      obtain ⟨agg', _, _, hst, hfx⟩ := run_contribs T c v h cs (hperm.nodup_iff.mpr hsubnd)
        (fun x => (hperm.mem_iff).symm) hvalid cs []
        { s0.reset with blockHash := h, currentView := v, aggContrib := some own } own
        rfl hcsne rfl rfl rfl rfl rfl hown hdisj
      have hagg : agg' = aggAfter c.cfg own cs := by
        have := h3; rw [hst] at this; simpa using this
      subst hagg
      exact ⟨by rw [hst], hfx⟩
    refine ⟨h3, h1, h2, h5, h6, ?_, ?_, ?_, ?_⟩
    · simp only [List.filter_append, h7]; simp [KEffect.isQC, List.filter]
    · by_cases hcov : ∀ x ∈ c.subtree, x ∈ cs.map (·.1)
      · obtain ⟨hs1, hs2⟩ := hsent hcov
        simp only [List.filter_append, hs2, kRun_cons, kRun_nil, kStep, onTimer, hs1]
        simp [KEffect.isSend, List.filter]
      · -- a grandchild is missing among the senders: nothing goes up before the timer
        have hg : ∃ g ∈ c.subtree, g ∉ cs.map (·.1) := by
          apply Classical.byContradiction
          intro hno
          apply hcov
          intro x hx
          apply Classical.byContradiction
          intro hxc
          exact hno ⟨x, hx, hxc⟩
        obtain ⟨g, hg1, hg2⟩ := hg
        obtain ⟨h9, h10⟩ := h8 ⟨g, hg1, by simp [KState.reset], hg2⟩
        simp only [List.filter_append, h10, kRun_cons, kRun_nil, kStep, onTimer, h1, h9, h3]
        simp [KEffect.isSend, List.filter, KState.reset]
    · rintro ⟨g, hg1, hg2⟩
      obtain ⟨_, h10⟩ := h8 ⟨g, hg1, by simp [KState.reset], hg2⟩
      simp only [List.filter_append, h10]
      simp [KEffect.isSend, List.filter]
    · intro hcov
      simp only [List.filter_append, (hsent hcov).2]
      simp [KEffect.isSend, List.filter]

open Tree

/-- what an honest `Sign` returns verifies, is well formed and has the signer as only participant -/
theorem honestSig_ok (T : Truth) (c : Cfg) (i : Nat) (m : Msg) (s : Sig) (hi : c.has i = true)
    (h : HonestSig T c i m s) : verify T c s m = true ∧ s.WF ∧ s.participants = [i] := by
  have h1 : 1 ≤ i := has_ge_one c i hi
  rcases h with ⟨hs, b, rfl, hT⟩ | ⟨hs, rfl⟩
  · refine ⟨?_, trivial, rfl⟩
    simp [verify, hs, hasDup, verifySingle, hi, hT]
  · have hids := ids_single i h1
    have hinv : Inv (Bitfield.empty.add i) := inv_add _ _ h1 inv_empty
    have hlen : (Bitfield.empty.add i).len = 1 := by rw [hinv, hids]; rfl
    have hfirst : (Bitfield.empty.add i).first = i := by simp [Bitfield.first, hids]
    refine ⟨?_, hinv, hids⟩
    simp [verify, blsSign, hs, hlen, hfirst, hi, List.isPerm_iff]

/-! ### the whole tree: every node's model, wired along the tree -/

/-- a position assignment of the replicas `1..n` (what `DefaultTreePos(n)` returns and `Shuffle`
preserves: `Props.C17.defaultTreePos_valid`, `shuffle_valid`) -/
def ValidPos (n : Nat) (pos : List Nat) : Prop :=
  pos.Nodup ∧ pos.length = n ∧ ∀ x, x ∈ pos ↔ 1 ≤ x ∧ x ≤ n

/-- one view of Kauri in the whole tree: the ground truth of the signatures, the configuration, the
tree (branch factor, position assignment), the view and block voted on, every replica's own vote,
every node's state before the view, and which replicas take part (`live r = false`: `r` is silent,
it never contributes) -/
structure TreeRun where
  T : Truth
  cfg : Cfg
  b : Nat
  pos : List Nat
  view : Nat
  hash : Hash
  own : Nat → Sig
  st0 : Nat → KState := fun _ => {}
  live : Nat → Bool := fun _ => true

namespace TreeRun

/-- the configuration of node `r`: its own `tree.NewSimple(r, b, pos)` (as the driver builds it) -/
def node (R : TreeRun) (r : Nat) : KCfg :=
  { cfg := R.cfg, id := r, children := (Tree.mk' r R.b R.pos).replicaChildren,
    subtree := (Tree.mk' r R.b R.pos).subTree }

/-- `ChildrenOf(r)` -/
def ch (R : TreeRun) (r : Nat) : List Nat := (Tree.mk' r R.b R.pos).childrenOf r

/-- the tree leader -/
def root (R : TreeRun) : Nat := R.pos.getD 0 0

/-- the operations of node `r` before its wait timer: `begin` with its own vote, then the
contributions `cs` (sender, aggregate) in this order, the block being in the store -/
def ops (R : TreeRun) (r : Nat) (cs : List (Nat × Sig)) : List KOp := nodeOps R.view R.hash (R.own r) cs

/-- everything node `r` emits in the view when fed `cs` and its wait timer fires afterwards -/
def effects (R : TreeRun) (r : Nat) (cs : List (Nat × Sig)) : List KEffect :=
  (kRun R.T (R.node r) (R.st0 r) (R.ops r cs ++ [.timerExpired R.view])).2

/-- **The bottom-up run.**  `Sends r agg`: node `r` (taking part) begins the view with its own vote,
is fed — for each of its children that take part, in ANY order — an aggregate that the child's own
bottom-up run sent to its parent, then its wait timer fires; and `agg` is an aggregate it hands to
`SendContributionToParent` during that. -/
inductive Sends (R : TreeRun) : Nat → Sig → Prop
  | node {r : Nat} {cs : List (Nat × Sig)} {agg : Sig} :
      r ∈ R.pos → R.live r = true →
      (cs.map (·.1)).Perm ((R.ch r).filter R.live) →
      (∀ p ∈ cs, Sends R p.1 p.2) →
      KEffect.sendToParent R.view (some agg) ∈ R.effects r cs →
      Sends R r agg

/-- the tree and the votes are well formed: branch factor ≥ 2, `pos` assigns the replicas `1..n`
(n ≥ 1), every replica that takes part holds the vote `Sign` returns for the block, a silent replica
is a leaf, the root takes part -/
structure Valid (R : TreeRun) : Prop where
  hb : 2 ≤ R.b
  hn : 1 ≤ R.cfg.n
  vpos : ValidPos R.cfg.n R.pos
  own : ∀ i ∈ R.pos, R.live i = true → HonestSig R.T R.cfg i (blkMsg R.hash) (R.own i)
  silent_leaf : ∀ i ∈ R.pos, R.live i = false → R.ch i = []
  root_live : R.live R.root = true

/-- every replica is honest and takes part -/
structure Honest (R : TreeRun) : Prop extends R.Valid where
  all_live : ∀ i, R.live i = true

/-- the replicas of `r`'s closed sub-tree that take part -/
def part (R : TreeRun) (r : Nat) : List Nat := (cl R.b R.pos r).filter R.live

end TreeRun

theorem flatMap_filter_of_nil {f : Nat → List Nat} {q : Nat → Bool} : ∀ (l : List Nat),
    (∀ x ∈ l, q x = false → f x = []) → l.flatMap f = (l.filter q).flatMap f := by
  intro l
  induction l with
  | nil => intro _; rfl
  | cons a l ih =>
    intro h
    have ih' := ih (fun x hx => h x (by simp [hx]))
    cases hq : q a with
    | true => simp [hq, ih']
    | false => simp [hq, ih', h a (by simp) hq]

theorem flatMap_perm_pointwise {α : Type} {f g : α → List Nat} : ∀ (l : List α),
    (∀ p ∈ l, (g p).Perm (f p)) → (l.flatMap g).Perm (l.flatMap f) := by
  intro l
  induction l with
  | nil => intro _; exact List.Perm.refl _
  | cons a l ih =>
    intro h
    simp only [List.flatMap_cons]
    exact (h a (by simp)).append (ih (fun p hp => h p (by simp [hp])))

theorem disj_of_nodup_flatMap {α : Type} {f g : α → List Nat} (x : Nat) : ∀ (l : List α),
    (∀ p ∈ l, (g p).Perm (f p)) → (x :: l.flatMap f).Nodup → ([x] :: l.map g).Pairwise Disj := by
  intro l hp hn
  rw [List.nodup_cons] at hn
  rw [List.pairwise_cons]
  constructor
  · intro b hb i hi hib
    simp only [List.mem_singleton] at hi
    subst hi
    obtain ⟨p, hpl, rfl⟩ := List.mem_map.mp hb
    exact hn.1 (List.mem_flatMap.mpr ⟨p, hpl, (hp p hpl).mem_iff.mp hib⟩)
  · have hn2 := hn.2
    clear hn
    induction l with
    | nil => simp
    | cons a l ih =>
      rw [List.flatMap_cons, List.nodup_append] at hn2
      rw [List.map_cons, List.pairwise_cons]
      refine ⟨?_, ih (fun p hpl => hp p (by simp [hpl])) hn2.2.1⟩
      intro b hb i hi hib
      obtain ⟨p, hpl, rfl⟩ := List.mem_map.mp hb
      exact hn2.2.2 i ((hp a (by simp)).mem_iff.mp hi) i
        (List.mem_flatMap.mpr ⟨p, hpl, (hp p (by simp [hpl])).mem_iff.mp hib⟩) rfl

namespace TreeRun

theorem has_of_mem (R : TreeRun) (V : R.Valid) {i : Nat} (hi : i ∈ R.pos) : R.cfg.has i = true := by
  have := (V.vpos.2.2 i).mp hi
  simp [Cfg.has, this.1, this.2]

theorem own_ok (R : TreeRun) (V : R.Valid) {i : Nat} (hi : i ∈ R.pos) (hl : R.live i = true) :
    SigOK R.T (R.node i) R.hash (R.own i) ∧ (R.own i).participants = [i] := by
  obtain ⟨h1, h2, h3⟩ := honestSig_ok R.T R.cfg i _ _ (R.has_of_mem V hi) (V.own i hi hl)
  exact ⟨⟨h1, h2⟩, h3⟩

theorem cl_leaf {b : Nat} {pos : List Nat} {r : Nat} (h : (Tree.mk' r b pos).childrenOf r = []) : cl b pos r = [r] := by
  unfold cl Tree.subTree
  have : (Tree.mk' r b pos).id = r := rfl
  simp [this, h]

/-- the replicas of a closed sub-tree that take part: the node and those of its children that take part -/
theorem part_children (R : TreeRun) (V : R.Valid) {r : Nat} (hl : R.live r = true) :
    (R.part r).Nodup ∧ (R.part r).Perm (r :: ((R.ch r).filter R.live).flatMap R.part) := by
  obtain ⟨hn, hp⟩ := cl_children V.vpos.1 V.hb r
  refine ⟨(cl_nodup V.vpos.1 V.hb r).filter _, ?_⟩
  have h1 := hp.filter R.live
  have h2 : (r :: ((Tree.mk' r R.b R.pos).childrenOf r).flatMap (cl R.b R.pos)).filter R.live =
      r :: ((R.ch r).filter R.live).flatMap R.part := by
    rw [List.filter_cons, if_pos hl, List.filter_flatMap]
    congr 1
    apply flatMap_filter_of_nil
    intro x hx hq
    have hxp : x ∈ R.pos := (goodCh_mk' (id := r) V.vpos.1 V.hb).sub _ _ hx
    have := V.silent_leaf x hxp hq
    rw [cl_leaf this]
    simp [hq]
  rw [h2] at h1
  exact h1

theorem mem_part (R : TreeRun) (V : R.Valid) (r x : Nat) :
    x ∈ R.part r ↔ (x = r ∨ Desc (Tree.mk' 0 R.b R.pos).childrenOf r x) ∧ R.live x = true := by
  unfold part
  rw [List.mem_filter, mem_cl V.vpos.1 V.hb]

/-- the replicas covered by `r`'s own vote and the sub-trees of the children `ids` -/
def covered (R : TreeRun) (ids : List Nat) : Nat := 1 + (ids.flatMap R.part).length

/-- the own vote and the closed sub-trees of distinct children share no replica -/
theorem part_nodup (R : TreeRun) (V : R.Valid) (r : Nat) (ids : List Nat) (hnd : ids.Nodup)
    (hsub : ∀ x ∈ ids, x ∈ R.ch r) : (r :: ids.flatMap R.part).Nodup := by
  have g := goodCh_mk' (id := 0) V.vpos.1 V.hb
  rw [List.nodup_cons]
  constructor
  · intro h
    obtain ⟨c, hc, hrc⟩ := List.mem_flatMap.mp h
    rcases ((R.mem_part V c r).mp hrc).1 with e | hd
    · subst e; exact g.acyc _ (Desc.child (hsub _ hc))
    · exact g.acyc _ (Desc.trans (Desc.child (hsub _ hc)) hd)
  · apply nodup_flatMap_of_mem hnd (fun x _ => (cl_nodup V.vpos.1 V.hb x).filter _)
    intro x hx y hy c hcx hcy
    exact closed_disjoint g (hsub x hx) (hsub y hy) ((R.mem_part V x c).mp hcx).1 ((R.mem_part V y c).mp hcy).1

/-- node `r` of the tree, fed with aggregates of the sub-trees of SOME of its children (distinct ones) -/
theorem node_in_tree_part (R : TreeRun) (V : R.Valid) {r : Nat} (hr : r ∈ R.pos) (hl : R.live r = true)
    (cs : List (Nat × Sig)) (hidnd : (cs.map (·.1)).Nodup) (hidsub : ∀ x ∈ cs.map (·.1), x ∈ R.ch r)
    (hcs : ∀ p ∈ cs, SigOK R.T (R.node r) R.hash p.2 ∧ p.2.participants.Perm (R.part p.1)) :
    (kRun R.T (R.node r) (R.st0 r) (R.ops r cs)).1.aggContrib = some (aggAfter R.cfg (R.own r) cs) ∧
    (kRun R.T (R.node r) (R.st0 r) (R.ops r cs)).1.currentView = R.view ∧
    (kRun R.T (R.node r) (R.st0 r) (R.ops r cs)).1.blockHash = R.hash ∧
    SigOK R.T (R.node r) R.hash (aggAfter R.cfg (R.own r) cs) ∧
    (aggAfter R.cfg (R.own r) cs).participants.Perm (r :: (cs.map (·.1)).flatMap R.part) ∧
    (aggAfter R.cfg (R.own r) cs).len = R.covered (cs.map (·.1)) ∧
    (kRun R.T (R.node r) (R.st0 r) (R.ops r cs)).2.filter KEffect.isQC = qcTrace R.cfg R.view R.hash (R.own r) cs ∧
    (R.effects r cs).filter KEffect.isSend = [.sendToParent R.view (some (aggAfter R.cfg (R.own r) cs))] ∧
    ((∃ g ∈ (R.node r).subtree, g ∉ cs.map (·.1)) →
      (kRun R.T (R.node r) (R.st0 r) (R.ops r cs)).2.filter KEffect.isSend = []) ∧
    ((∀ g ∈ (R.node r).subtree, g ∈ cs.map (·.1)) →
      (kRun R.T (R.node r) (R.st0 r) (R.ops r cs)).2.filter KEffect.isSend =
        [.sendToParent R.view (some (aggAfter R.cfg (R.own r) cs))]) := by
  have g := goodCh_mk' (id := r) V.vpos.1 V.hb
  obtain ⟨hspec1, hspec2⟩ := subTree_spec (Tree.mk' r R.b R.pos) g
  obtain ⟨hown, hownp⟩ := R.own_ok V hr hl
  have hnd1 : (r :: cs.flatMap (fun p => R.part p.1)).Nodup := by
    rw [← List.flatMap_map (fun p : Nat × Sig => p.1) R.part cs]
    exact R.part_nodup V r _ hidnd hidsub
  have hdisj : ((R.own r).participants :: cs.map (·.2.participants)).Pairwise Disj := by
    rw [hownp]
    exact disj_of_nodup_flatMap r cs (fun p hp => (hcs p hp).2) hnd1
  obtain ⟨h1, h2, h3, h4, h5, h6, h7, h8, h9⟩ := node_run R.T (R.node r) (R.st0 r) R.view R.hash (R.own r) cs hown
    hidnd hidsub
    hspec1 (fun x hx => (hspec2 x).mpr (Desc.child hx))
    (fun hc => by
      show (Tree.mk' r R.b R.pos).subTree = []
      unfold Tree.subTree
      have : (Tree.mk' r R.b R.pos).childrenOf (Tree.mk' r R.b R.pos).id = [] := hc
      simp [this])
    (fun p hp => by rw [fromWire_of_WF _ (hcs p hp).1.2]; exact (hcs p hp).1.1)
    hdisj
  have hperm : (aggAfter R.cfg (R.own r) cs).participants.Perm (r :: (cs.map (·.1)).flatMap R.part) := by
    refine h5.trans ?_
    rw [hownp, List.flatMap_map]
    exact List.Perm.cons _ (flatMap_perm_pointwise cs (fun p hp => (hcs p hp).2))
  refine ⟨h1, h2, h3, h4, hperm, ?_, h6, h7, h8, h9⟩
  have h4' : SigOK R.T (R.node r) R.hash (aggAfter R.cfg (R.own r) cs) := h4
  rw [← (sigOK_nodup R.T (R.node r) R.hash _ h4').2, hperm.length_eq]
  simp [covered]; omega

/-- node `r` of the tree, fed with aggregates of the sub-trees of ALL its children that take part -/
theorem node_in_tree (R : TreeRun) (V : R.Valid) {r : Nat} (hr : r ∈ R.pos) (hl : R.live r = true)
    (cs : List (Nat × Sig)) (hids : (cs.map (·.1)).Perm ((R.ch r).filter R.live))
    (hcs : ∀ p ∈ cs, SigOK R.T (R.node r) R.hash p.2 ∧ p.2.participants.Perm (R.part p.1)) :
    (kRun R.T (R.node r) (R.st0 r) (R.ops r cs)).1.aggContrib = some (aggAfter R.cfg (R.own r) cs) ∧
    SigOK R.T (R.node r) R.hash (aggAfter R.cfg (R.own r) cs) ∧
    (aggAfter R.cfg (R.own r) cs).participants.Perm (R.part r) ∧
    (R.effects r cs).filter KEffect.isSend = [.sendToParent R.view (some (aggAfter R.cfg (R.own r) cs))] := by
  have g := goodCh_mk' (id := r) V.vpos.1 V.hb
  obtain ⟨h1, _, _, h4, h5, _, _, h8, _, _⟩ := R.node_in_tree_part V hr hl cs
    (hids.nodup_iff.mpr ((g.nodup r).filter _)) (fun x hx => (List.mem_filter.mp (hids.mem_iff.mp hx)).1) hcs
  refine ⟨h1, h4, ?_, h8⟩
  refine h5.trans (List.Perm.trans ?_ (R.part_children V hl).2.symm)
  exact List.Perm.cons _ (hids.flatMap_right _)

/-- **Every aggregate of the bottom-up run is good**: it verifies for the block and its participants
are exactly the replicas of the node's closed sub-tree that take part, each once. -/
theorem sends_ok (R : TreeRun) (V : R.Valid) {r : Nat} {agg : Sig} (h : R.Sends r agg) :
    SigOK R.T (R.node r) R.hash agg ∧ agg.participants.Perm (R.part r) := by
  induction h with
  | @node r cs agg hr hl hids hcs hmem ih =>
    obtain ⟨_, h4, h5, h7⟩ := R.node_in_tree V hr hl cs hids ih
    have : KEffect.sendToParent R.view (some agg) ∈ (R.effects r cs).filter KEffect.isSend :=
      List.mem_filter.mpr ⟨hmem, rfl⟩
    rw [h7] at this
    simp only [List.mem_singleton, KEffect.sendToParent.injEq, Option.some.injEq, true_and] at this
    subst this
    exact ⟨h4, h5⟩

end TreeRun

/-! ### certificates by contribution, existence of the bottom-up run, the root -/

theorem aggAfter_append (cfg : Cfg) (agg : Sig) (a b : List (Nat × Sig)) :
    aggAfter cfg agg (a ++ b) = aggAfter cfg (aggAfter cfg agg a) b := by
  simp [aggAfter, List.foldl_append]

theorem qcTrace_append (cfg : Cfg) (v : Nat) (h : Hash) : ∀ (a b : List (Nat × Sig)) (agg : Sig),
    qcTrace cfg v h agg (a ++ b) = qcTrace cfg v h agg a ++ qcTrace cfg v h (aggAfter cfg agg a) b := by
  intro a
  induction a with
  | nil => intro b agg; rfl
  | cons p a ih => intro b agg; simp only [List.cons_append, qcTrace, ih, aggAfter_cons, List.append_assoc]

/-- the certificates, by contribution: the `k+1`-th contribution produces one exactly when the
aggregate of the first `k+1` contributions reaches the quorum -/
theorem qcTrace_nil_of (cfg : Cfg) (v : Nat) (h : Hash) : ∀ (rest : List (Nat × Sig)) (agg : Sig),
    (∀ k, k < rest.length → (aggAfter cfg agg (rest.take (k + 1))).len < cfg.quorum) →
    qcTrace cfg v h agg rest = [] := by
  intro rest
  induction rest with
  | nil => intro _ _; rfl
  | cons p rest ih =>
    intro agg hlt
    have h0 := hlt 0 (by simp)
    simp only [List.take_succ_cons, List.take_zero, aggAfter_cons] at h0
    have h0' : (mergeSig cfg p.2.fromWire agg).len < cfg.quorum := h0
    simp only [qcTrace, Nat.not_le.mpr h0', if_false, List.nil_append]
    apply ih
    intro k hk
    have := hlt (k + 1) (by simp; omega)
    simpa only [List.take_succ_cons, aggAfter_cons] using this

theorem qcTrace_length_of (cfg : Cfg) (v : Nat) (h : Hash) : ∀ (rest : List (Nat × Sig)) (agg : Sig),
    (∀ k, k < rest.length → cfg.quorum ≤ (aggAfter cfg agg (rest.take (k + 1))).len) →
    (qcTrace cfg v h agg rest).length = rest.length := by
  intro rest
  induction rest with
  | nil => intro _ _; rfl
  | cons p rest ih =>
    intro agg hge
    have h0 := hge 0 (by simp)
    simp only [List.take_succ_cons, List.take_zero, aggAfter_cons] at h0
    have h0' : cfg.quorum ≤ (mergeSig cfg p.2.fromWire agg).len := h0
    simp only [qcTrace, h0', if_true, List.length_append, List.length_cons, List.length_nil]
    rw [ih]
    · omega
    · intro k hk
      have := hge (k + 1) (by simp; omega)
      simpa only [List.take_succ_cons, aggAfter_cons] using this

theorem exists_least_nat (P : Nat → Prop) [DecidablePred P] : ∀ (m : Nat), P m → ∃ k0, k0 ≤ m ∧ P k0 ∧ ∀ k, k < k0 → ¬ P k := by
  intro m
  induction m using Nat.strongRecOn with
  | _ m ih =>
    intro hm
    by_cases h : ∃ k, k < m ∧ P k
    · obtain ⟨k, hk, hpk⟩ := h
      obtain ⟨k0, h1, h2, h3⟩ := ih k hk hpk
      exact ⟨k0, by omega, h2, h3⟩
    · exact ⟨m, Nat.le_refl _, hm, fun k hk hp => h ⟨k, hk, hp⟩⟩

theorem quorumSize_le_n (n : Nat) (hn : 1 ≤ n) : quorumSize n ≤ n := by
  unfold quorumSize numFaulty; omega

namespace TreeRun

/-- the aggregate a list of effects hands to the parent, when it is exactly one -/
def sentSig (fx : List KEffect) : Option Sig :=
  match fx.filter KEffect.isSend with
  | [.sendToParent _ (some a)] => some a
  | _ => none

/-- the bottom-up run as a function: node `r` is fed its children in the order `ord r`;
`fuel` bounds the height (`pos.length` suffices) -/
def aggOf (R : TreeRun) (ord : Nat → List Nat) : Nat → Nat → Sig
  | 0, r => R.own r
  | fuel + 1, r =>
    (sentSig (R.effects r ((ord r).map (fun c => (c, aggOf R ord fuel c))))).getD (R.own r)

theorem idx_child_lt (R : TreeRun) (V : R.Valid) {r c : Nat} (hc : c ∈ R.ch r) :
    c ∈ R.pos ∧ R.pos.idxOf r < R.pos.idxOf c := by
  obtain ⟨p, q, hp, hq, h0, h1, h2, h3⟩ := (mem_childrenOf_iff V.vpos.1 V.hb r c).mp hc
  subst h0; subst h1
  refine ⟨List.getElem_mem _, ?_⟩
  rw [V.vpos.1.idxOf_getElem _ _, V.vpos.1.idxOf_getElem _ _]
  have := parentPos_lt V.hb h2
  omega

/-- **The bottom-up run exists**, for every choice of the order in which each node hears its
children: the function `aggOf` computes an aggregate that the run of node `r` sends. -/
theorem sends_aggOf (R : TreeRun) (V : R.Valid) (ord : Nat → List Nat)
    (hord : ∀ r ∈ R.pos, (ord r).Perm ((R.ch r).filter R.live)) :
    ∀ (fuel r : Nat), r ∈ R.pos → R.live r = true → R.pos.length - R.pos.idxOf r ≤ fuel →
      R.Sends r (aggOf R ord fuel r) := by
  intro fuel
  induction fuel with
  | zero =>
    intro r hr _ hf
    have := List.idxOf_lt_length_iff.mpr hr
    omega
  | succ fuel ih =>
    intro r hr hl hf
    have hcs : ∀ p ∈ (ord r).map (fun c => (c, aggOf R ord fuel c)), R.Sends p.1 p.2 := by
      intro p hp
      obtain ⟨c, hc, rfl⟩ := List.mem_map.mp hp
      have hc' := List.mem_filter.mp ((hord r hr).mem_iff.mp hc)
      obtain ⟨hcp, hlt⟩ := R.idx_child_lt V hc'.1
      exact ih c hcp hc'.2 (by omega)
    have hids : (((ord r).map (fun c => (c, aggOf R ord fuel c))).map (·.1)).Perm ((R.ch r).filter R.live) := by
      rw [List.map_map]
      have : ((fun p : Nat × Sig => p.1) ∘ fun c => (c, aggOf R ord fuel c)) = _root_.id := rfl
      rw [this, List.map_id]
      exact hord r hr
    obtain ⟨_, _, _, h7⟩ := R.node_in_tree V hr hl _ hids (fun p hp => R.sends_ok V (hcs p hp))
    refine Sends.node hr hl hids hcs ?_
    have hval : aggOf R ord (fuel + 1) r = aggAfter R.cfg (R.own r) ((ord r).map (fun c => (c, aggOf R ord fuel c))) := by
      show (sentSig _).getD _ = _
      unfold sentSig
      rw [h7]
      rfl
    rw [hval]
    have : KEffect.sendToParent R.view (some (aggAfter R.cfg (R.own r) ((ord r).map (fun c => (c, aggOf R ord fuel c))))) ∈
        (R.effects r ((ord r).map (fun c => (c, aggOf R ord fuel c)))).filter KEffect.isSend := by
      rw [h7]; simp
    exact (List.mem_filter.mp this).1


theorem ops_snoc (R : TreeRun) (r : Nat) (pre : List (Nat × Sig)) (x : Nat × Sig) :
    R.ops r (pre ++ [x]) = R.ops r pre ++ [contribOp R.view x] := by
  simp [ops, nodeOps]

theorem covered_take_le (R : TreeRun) (ids : List Nat) (k : Nat) : R.covered (ids.take k) ≤ R.covered ids := by
  unfold covered
  conv => rhs; rw [← List.take_append_drop k ids, List.flatMap_append, List.length_append]
  omega

theorem covered_mono (R : TreeRun) (ids : List Nat) {k k' : Nat} (h : k ≤ k') :
    R.covered (ids.take k) ≤ R.covered (ids.take k') := by
  have : ids.take k = (ids.take k').take k := by rw [List.take_take, Nat.min_eq_left h]
  rw [this]
  exact R.covered_take_le _ _

/-- the hypotheses of `node_in_tree_part` pass to every prefix of the contributions -/
theorem prefix_facts (R : TreeRun) (V : R.Valid) {r : Nat} (hr : r ∈ R.pos) (hl : R.live r = true)
    (cs : List (Nat × Sig)) (hidnd : (cs.map (·.1)).Nodup) (hidsub : ∀ x ∈ cs.map (·.1), x ∈ R.ch r)
    (hcs : ∀ p ∈ cs, SigOK R.T (R.node r) R.hash p.2 ∧ p.2.participants.Perm (R.part p.1)) (k : Nat) :
    SigOK R.T (R.node r) R.hash (aggAfter R.cfg (R.own r) (cs.take k)) ∧
    (aggAfter R.cfg (R.own r) (cs.take k)).participants.Perm (r :: ((cs.take k).map (·.1)).flatMap R.part) ∧
    (aggAfter R.cfg (R.own r) (cs.take k)).len = R.covered ((cs.map (·.1)).take k) ∧
    (kRun R.T (R.node r) (R.st0 r) (R.ops r (cs.take k))).2.filter KEffect.isQC =
      qcTrace R.cfg R.view R.hash (R.own r) (cs.take k) := by
  have hsub : (cs.take k).Sublist cs := List.take_sublist _ _
  obtain ⟨_, _, _, h4, h5, h6, h7, _⟩ := R.node_in_tree_part V hr hl (cs.take k)
    ((hsub.map _).nodup hidnd) (fun x hx => hidsub x ((hsub.map _).subset hx)) (fun p hp => hcs p (hsub.subset hp))
  refine ⟨h4, h5, ?_, h7⟩
  rw [h6, List.map_take]

/-- **When a node emits certificates.**  The `k+1`-th contribution makes the node emit a certificate
exactly when its own vote and the sub-trees of the first `k+1` contributing children cover a quorum;
it is the aggregate of exactly those. -/
theorem node_qc_step (R : TreeRun) (V : R.Valid) {r : Nat} (hr : r ∈ R.pos) (hl : R.live r = true)
    (cs : List (Nat × Sig)) (hidnd : (cs.map (·.1)).Nodup) (hidsub : ∀ x ∈ cs.map (·.1), x ∈ R.ch r)
    (hcs : ∀ p ∈ cs, SigOK R.T (R.node r) R.hash p.2 ∧ p.2.participants.Perm (R.part p.1))
    (k : Nat) (hk : k < cs.length) :
    (kStep R.T (R.node r) (kRun R.T (R.node r) (R.st0 r) (R.ops r (cs.take k))).1 (contribOp R.view cs[k])).2.filter KEffect.isQC =
      if R.cfg.quorum ≤ R.covered ((cs.map (·.1)).take (k + 1))
      then [.newViewQC (aggAfter R.cfg (R.own r) (cs.take (k + 1))) R.view R.hash] else [] := by
  obtain ⟨_, _, _, hq0⟩ := R.prefix_facts V hr hl cs hidnd hidsub hcs k
  obtain ⟨_, _, hl1, hq1⟩ := R.prefix_facts V hr hl cs hidnd hidsub hcs (k + 1)
  have htk : cs.take (k + 1) = cs.take k ++ [cs[k]] := by
    rw [List.take_add_one, List.getElem?_eq_getElem hk]; rfl
  have hrun : (kRun R.T (R.node r) (R.st0 r) (R.ops r (cs.take (k + 1)))).2 =
      (kRun R.T (R.node r) (R.st0 r) (R.ops r (cs.take k))).2 ++
      (kStep R.T (R.node r) (kRun R.T (R.node r) (R.st0 r) (R.ops r (cs.take k))).1 (contribOp R.view cs[k])).2 := by
    rw [htk, ops_snoc, kRun_append]
    simp [kRun_cons, kRun_nil]
  rw [hrun, List.filter_append, hq0] at hq1
  have hsplit : qcTrace R.cfg R.view R.hash (R.own r) (cs.take (k + 1)) =
      qcTrace R.cfg R.view R.hash (R.own r) (cs.take k) ++
        (if R.cfg.quorum ≤ (aggAfter R.cfg (R.own r) (cs.take (k + 1))).len
         then [.newViewQC (aggAfter R.cfg (R.own r) (cs.take (k + 1))) R.view R.hash] else []) := by
    conv => lhs; rw [htk, qcTrace_append]
    rw [htk, aggAfter_snoc]
    simp [qcTrace]
  rw [hsplit] at hq1
  have := List.append_cancel_left hq1
  rw [this, hl1]


/-- **The certificates of a node whose contributions reach a quorum.**  There is a first prefix of
the contributions (length `k0+1`) that covers a quorum: nothing is emitted before it, one
certificate at it, and one more at EVERY later contribution (`cs.length - k0` in all). -/
theorem node_qcs (R : TreeRun) (V : R.Valid) {r : Nat} (hr : r ∈ R.pos) (hl : R.live r = true)
    (cs : List (Nat × Sig)) (hidnd : (cs.map (·.1)).Nodup) (hidsub : ∀ x ∈ cs.map (·.1), x ∈ R.ch r)
    (hcs : ∀ p ∈ cs, SigOK R.T (R.node r) R.hash p.2 ∧ p.2.participants.Perm (R.part p.1))
    (hne : cs ≠ []) (hq : R.cfg.quorum ≤ R.covered (cs.map (·.1))) :
    ∃ k0, k0 < cs.length ∧
      (∀ k, k < k0 → R.covered ((cs.map (·.1)).take (k + 1)) < R.cfg.quorum) ∧
      (∀ k, k0 ≤ k → R.cfg.quorum ≤ R.covered ((cs.map (·.1)).take (k + 1))) ∧
      (kRun R.T (R.node r) (R.st0 r) (R.ops r (cs.take k0))).2.filter KEffect.isQC = [] ∧
      (kRun R.T (R.node r) (R.st0 r) (R.ops r (cs.take (k0 + 1)))).2.filter KEffect.isQC =
        [.newViewQC (aggAfter R.cfg (R.own r) (cs.take (k0 + 1))) R.view R.hash] ∧
      ((kRun R.T (R.node r) (R.st0 r) (R.ops r cs)).2.filter KEffect.isQC).length = cs.length - k0 := by
  have hm : 0 < cs.length := List.length_pos_iff.mpr hne
  have hlast : R.cfg.quorum ≤ R.covered ((cs.map (·.1)).take (cs.length - 1 + 1)) := by
    rw [List.take_of_length_le (by simp; omega)]; exact hq
  obtain ⟨k0, hk0, hP, hmin⟩ := exists_least_nat (fun k => R.cfg.quorum ≤ R.covered ((cs.map (·.1)).take (k + 1)))
    (cs.length - 1) hlast
  have F := R.prefix_facts V hr hl cs hidnd hidsub hcs
  have hbelow : ∀ k, k < k0 → R.covered ((cs.map (·.1)).take (k + 1)) < R.cfg.quorum :=
    fun k hk => Nat.not_le.mp (hmin k hk)
  have habove : ∀ k, k0 ≤ k → R.cfg.quorum ≤ R.covered ((cs.map (·.1)).take (k + 1)) :=
    fun k hk => Nat.le_trans hP (R.covered_mono _ (by omega))
  have hnil : qcTrace R.cfg R.view R.hash (R.own r) (cs.take k0) = [] := by
    apply qcTrace_nil_of
    intro j hj
    have hj' : j < k0 := by simp at hj; omega
    rw [List.take_take, Nat.min_eq_left (by omega), (F (j + 1)).2.2.1]
    exact hbelow j hj'
  have htk : cs.take (k0 + 1) = cs.take k0 ++ [cs[k0]'(by omega)] := by
    rw [List.take_add_one, List.getElem?_eq_getElem (by omega)]; rfl
  refine ⟨k0, by omega, hbelow, habove, ?_, ?_, ?_⟩
  · rw [(F k0).2.2.2, hnil]
  · rw [(F (k0 + 1)).2.2.2]
    conv => lhs; rw [htk, qcTrace_append, hnil]
    have : R.cfg.quorum ≤ (aggAfter R.cfg (R.own r) (cs.take k0 ++ [cs[k0]'(by omega)])).len := by
      rw [← htk, (F (k0 + 1)).2.2.1]; exact hP
    rw [aggAfter_snoc] at this
    simp only [qcTrace, this, if_true, List.nil_append, List.append_nil]
    rw [htk, aggAfter_snoc]
  · have hfull := (F cs.length).2.2.2
    rw [List.take_of_length_le (Nat.le_refl _)] at hfull
    rw [hfull]
    conv => lhs; rw [← List.take_append_drop k0 cs, qcTrace_append, hnil, List.nil_append]
    rw [qcTrace_length_of, List.length_drop]
    intro j hj
    rw [← aggAfter_append, ← List.take_add, (F (k0 + (j + 1))).2.2.1]
    exact habove (k0 + j) (by omega)

theorem root_eq (R : TreeRun) (V : R.Valid) : ∃ h : 0 < R.pos.length, R.root = R.pos[0] := by
  have h : 0 < R.pos.length := by rw [V.vpos.2.1]; exact V.hn
  exact ⟨h, by simp [root, List.getD_eq_getElem?_getD, List.getElem?_eq_getElem h]⟩

theorem root_mem (R : TreeRun) (V : R.Valid) : R.root ∈ R.pos := by
  obtain ⟨h, e⟩ := R.root_eq V
  rw [e]; exact List.getElem_mem h

/-- the root's closed sub-tree is the whole tree -/
theorem part_root (R : TreeRun) (V : R.Valid) : (R.part R.root).Perm (R.pos.filter R.live) := by
  obtain ⟨h0, e⟩ := R.root_eq V
  apply List.Perm.filter
  rw [List.perm_ext_iff_of_nodup (cl_nodup V.vpos.1 V.hb _) V.vpos.1]
  intro x
  rw [mem_cl V.vpos.1 V.hb, e]
  have g := goodCh_mk' (id := 0) V.vpos.1 V.hb
  constructor
  · rintro (h | h)
    · rw [h]; exact List.getElem_mem h0
    · exact h.mem_univ g
  · intro hx
    obtain ⟨q, hq, rfl⟩ := exists_pos_of_mem hx
    by_cases hz : q = 0
    · left; simp [hz]
    · right; exact desc_root V.vpos.1 V.hb q hq (by omega)

/-- the root's own vote and the sub-trees of all its children that take part cover every replica
that takes part -/
theorem covered_root (R : TreeRun) (V : R.Valid) (ids : List Nat) (hids : ids.Perm ((R.ch R.root).filter R.live)) :
    R.covered ids = (R.pos.filter R.live).length := by
  have h1 := (R.part_children V V.root_live).2
  have h2 : (R.root :: ids.flatMap R.part).Perm (R.part R.root) :=
    (List.Perm.cons _ (hids.flatMap_right _)).trans h1.symm
  have := (h2.trans (R.part_root V)).length_eq
  simp only [List.length_cons] at this
  unfold covered; omega

/-! ### every replica takes part -/

theorem Honest.filter_live {R : TreeRun} (H : R.Honest) (l : List Nat) : l.filter R.live = l :=
  List.filter_eq_self.mpr (fun a _ => H.all_live a)

theorem Honest.part_eq {R : TreeRun} (H : R.Honest) (r : Nat) :
    R.part r = r :: (Tree.mk' r R.b R.pos).subTree := H.filter_live _

/-- what the root's contributions satisfy when every child's aggregate comes from its bottom-up run -/
theorem Honest.root_facts {R : TreeRun} (H : R.Honest) (hn2 : 2 ≤ R.cfg.n) (cs : List (Nat × Sig))
    (hids : (cs.map (·.1)).Perm (R.ch R.root)) (hcs : ∀ p ∈ cs, R.Sends p.1 p.2) :
    (cs.map (·.1)).Nodup ∧ (∀ x ∈ cs.map (·.1), x ∈ R.ch R.root) ∧
    (∀ p ∈ cs, SigOK R.T (R.node R.root) R.hash p.2 ∧ p.2.participants.Perm (R.part p.1)) ∧
    R.covered (cs.map (·.1)) = R.cfg.n ∧ cs ≠ [] ∧ R.cfg.quorum ≤ R.covered (cs.map (·.1)) ∧
    (aggAfter R.cfg (R.own R.root) cs).participants.Perm R.pos ∧
    verify R.T R.cfg (aggAfter R.cfg (R.own R.root) cs) (blkMsg R.hash) = true := by
  have V := H.toValid
  have g := goodCh_mk' (id := R.root) H.vpos.1 H.hb
  have hok := fun p hp => R.sends_ok V (hcs p hp)
  have hcov : R.covered (cs.map (·.1)) = R.cfg.n := by
    rw [R.covered_root V _ (by rw [H.filter_live]; exact hids), H.filter_live]; exact H.vpos.2.1
  have hne : cs ≠ [] := by
    intro e; subst e
    simp [TreeRun.covered] at hcov; omega
  obtain ⟨_, l2, l3, _⟩ := R.node_in_tree V (R.root_mem V) (H.all_live _) cs (by rw [H.filter_live]; exact hids) hok
  have hperm : (aggAfter R.cfg (R.own R.root) cs).participants.Perm R.pos := by
    have := l3.trans (R.part_root V)
    rwa [H.filter_live] at this
  exact ⟨hids.nodup_iff.mpr (g.nodup _), fun x hx => hids.mem_iff.mp hx, hok, hcov, hne,
    by rw [hcov]; exact quorumSize_le_n _ H.hn, hperm, l2.1⟩

end TreeRun
end HsVerif.Model
