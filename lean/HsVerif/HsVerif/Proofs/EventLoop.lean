import HsVerif.Proofs.Queue
import HsVerif.Model.EventLoop
/-! Helper lemmas for C14 (event loop): well-formedness of the handler table, flow equations for
the queue and the waiting lists, shape of the logs. -/
namespace HsVerif.Model
open Obs

/-! ### projections of logs -/
namespace Obs

@[simp] theorem pushedOf_nil : pushedOf [] = [] := rfl
@[simp] theorem leftOf_nil : leftOf [] = [] := rfl
@[simp] theorem poppedOf_nil : poppedOf [] = [] := rfl
@[simp] theorem droppedOf_nil : droppedOf [] = [] := rfl
@[simp] theorem deferredOf_nil (t : Nat) : deferredOf t [] = [] := rfl
@[simp] theorem readdOf_nil (t : Nat) : readdOf t [] = [] := rfl
@[simp] theorem invsOf_nil (m : Bool) : invsOf m [] = [] := rfl

@[simp] theorem pushedOf_append (a b : List Obs) : pushedOf (a ++ b) = pushedOf a ++ pushedOf b := by
  simp [pushedOf, List.filterMap_append]
@[simp] theorem leftOf_append (a b : List Obs) : leftOf (a ++ b) = leftOf a ++ leftOf b := by
  simp [leftOf, List.filterMap_append]
@[simp] theorem poppedOf_append (a b : List Obs) : poppedOf (a ++ b) = poppedOf a ++ poppedOf b := by
  simp [poppedOf, List.filterMap_append]
@[simp] theorem droppedOf_append (a b : List Obs) : droppedOf (a ++ b) = droppedOf a ++ droppedOf b := by
  simp [droppedOf, List.filterMap_append]
@[simp] theorem deferredOf_append (t : Nat) (a b : List Obs) : deferredOf t (a ++ b) = deferredOf t a ++ deferredOf t b := by
  simp [deferredOf, List.filterMap_append]
@[simp] theorem readdOf_append (t : Nat) (a b : List Obs) : readdOf t (a ++ b) = readdOf t a ++ readdOf t b := by
  simp [readdOf, List.filterMap_append]
@[simp] theorem invsOf_append (m : Bool) (a b : List Obs) : invsOf m (a ++ b) = invsOf m a ++ invsOf m b := by
  simp [invsOf, List.filterMap_append]

end Obs

namespace EL

@[simp] theorem upd_same {β : Type} (f : Nat → β) (t : Nat) (v : β) : upd f t v t = v := by simp [upd]
theorem upd_other {β : Type} (f : Nat → β) (t t' : Nat) (v : β) (h : t' ≠ t) : upd f t v t' = f t' := by simp [upd, h]

/-! ### findFree -/

theorem findFree_some {l : List (Option Handler)} {i : Nat} (h : findFree l = some i) : l[i]? = some none := by
  induction l generalizing i with
  | nil => simp [findFree] at h
  | cons a t ih =>
    cases a with
    | none => simp [findFree] at h; subst h; simp
    | some x =>
      simp only [findFree, Option.map_eq_some_iff] at h
      obtain ⟨j, hj, rfl⟩ := h
      simpa using ih hj

/-! ### well-formedness -/

/-- The handler table and the registry of closures agree: a closure that has not been called still
owns its slot, which holds the handler it installed; every occupied slot is owned by exactly such a
closure.  (This is the invariant that fails for the closure of the unchanged tree.) -/
structure WF (c : Nat) (s : EL) : Prop where
  q : ∃ l, Queue.Rel c s.q l
  slotLive : ∀ (r : Nat) (rec : RegRec), s.regs[r]? = some rec →
    rec.slot < (s.handlers rec.ty).length ∧ rec.h.reg = r ∧
    (r ∉ s.unregd → (s.handlers rec.ty)[rec.slot]? = some (some rec.h))
  slotBack : ∀ (t i : Nat) (h : Handler), (s.handlers t)[i]? = some (some h) →
    ∃ rec : RegRec, s.regs[h.reg]? = some rec ∧ rec.ty = t ∧ rec.slot = i ∧ rec.h = h ∧ h.reg ∉ s.unregd
  unregdLt : ∀ r : Nat, r ∈ s.unregd → r < s.regs.length

theorem wf_new (c : Nat) (progs : List (List Act)) : WF c (EL.new c progs) :=
  ⟨⟨[], Queue.rel_new c⟩, by simp [EL.new], by simp [EL.new], by simp [EL.new]⟩

theorem wf_register {c : Nat} {s : EL} (hwf : WF c s) (t : Nat) (o : HOpts) (acts : List Act) (quiet : Bool) :
    WF c (s.register t o acts quiet) := by
  unfold register
  dsimp only
  split
  · -- no free slot: append
    rename_i hfree
    refine ⟨hwf.q, ?_, ?_, ?_⟩
    · intro r rec hr
      simp only [List.getElem?_append] at hr
      split at hr
      · rename_i hlt
        obtain ⟨h1, h2, h3⟩ := hwf.slotLive r rec hr
        by_cases hty : rec.ty = t
        · simp only [hty, upd_same, List.length_append, List.length_cons, List.length_nil]
          rw [hty] at h1 h3
          refine ⟨by omega, h2, fun hn => ?_⟩
          rw [List.getElem?_append_left h1]
          exact h3 hn
        · simp only [upd_other _ _ _ _ hty]
          exact ⟨h1, h2, h3⟩
      · rename_i hge
        have : r - s.regs.length = 0 := by
          false_or_by_contra
          rename_i hne
          have : (([⟨t, (s.handlers t).length, ⟨s.regs.length, o, acts, quiet⟩⟩] : List RegRec))[r - s.regs.length]? = none := by
            apply List.getElem?_eq_none; simp; omega
          rw [this] at hr; cases hr
        rw [this] at hr
        simp at hr
        subst hr
        simp only [upd_same, List.length_append, List.length_cons, List.length_nil]
        refine ⟨by omega, by omega, fun _ => ?_⟩
        simp
    · intro t' i h hh
      by_cases hty : t' = t
      · subst hty
        simp only [upd_same] at hh
        by_cases hi : i < (s.handlers t').length
        · rw [List.getElem?_append_left hi] at hh
          obtain ⟨rec, h1, h2⟩ := hwf.slotBack t' i h hh
          refine ⟨rec, ?_, h2⟩
          rw [List.getElem?_append_left]
          · exact h1
          · exact (List.getElem?_eq_some_iff.mp h1).1
        · have hi0 : i = (s.handlers t').length := by
            false_or_by_contra
            have : ((s.handlers t') ++ [some (⟨s.regs.length, o, acts, quiet⟩ : Handler)])[i]? = none := by
              apply List.getElem?_eq_none; simp; omega
            rw [this] at hh; cases hh
          subst hi0
          simp at hh
          subst hh
          refine ⟨⟨t', (s.handlers t').length, ⟨s.regs.length, o, acts, quiet⟩⟩, by simp, rfl, rfl, rfl, ?_⟩
          intro hm
          have := hwf.unregdLt _ hm
          simp at this
      · simp only [upd_other _ _ _ _ hty] at hh
        obtain ⟨rec, h1, h2⟩ := hwf.slotBack t' i h hh
        refine ⟨rec, ?_, h2⟩
        rw [List.getElem?_append_left]
        · exact h1
        · exact (List.getElem?_eq_some_iff.mp h1).1
    · intro r hr
      have := hwf.unregdLt r hr
      simp; omega
  · -- free slot i
    rename_i i hfree
    have hslot := findFree_some hfree
    have hilt : i < (s.handlers t).length := (List.getElem?_eq_some_iff.mp hslot).1
    refine ⟨hwf.q, ?_, ?_, ?_⟩
    · intro r rec hr
      simp only [List.getElem?_append] at hr
      split at hr
      · obtain ⟨h1, h2, h3⟩ := hwf.slotLive r rec hr
        by_cases hty : rec.ty = t
        · simp only [hty, upd_same, List.length_set]
          rw [hty] at h1 h3
          refine ⟨h1, h2, fun hn => ?_⟩
          have h3' := h3 hn
          have hne : i ≠ rec.slot := by
            intro he; subst he; rw [hslot] at h3'; simp at h3'
          rw [List.getElem?_set_ne hne]
          exact h3'
        · simp only [upd_other _ _ _ _ hty]
          exact ⟨h1, h2, h3⟩
      · rename_i hge
        have : r - s.regs.length = 0 := by
          false_or_by_contra
          have : (([⟨t, i, ⟨s.regs.length, o, acts, quiet⟩⟩] : List RegRec))[r - s.regs.length]? = none := by
            apply List.getElem?_eq_none; simp; omega
          rw [this] at hr; cases hr
        rw [this] at hr
        simp at hr
        subst hr
        simp only [upd_same, List.length_set]
        refine ⟨hilt, by omega, fun _ => ?_⟩
        simp [hilt]
    · intro t' j h hh
      by_cases hty : t' = t
      · subst hty
        simp only [upd_same] at hh
        by_cases hj : i = j
        · subst hj
          simp [hilt] at hh
          subst hh
          refine ⟨⟨t', i, ⟨s.regs.length, o, acts, quiet⟩⟩, by simp, rfl, rfl, rfl, ?_⟩
          intro hm
          have := hwf.unregdLt _ hm
          simp at this
        · rw [List.getElem?_set_ne hj] at hh
          obtain ⟨rec, h1, h2⟩ := hwf.slotBack t' j h hh
          refine ⟨rec, ?_, h2⟩
          rw [List.getElem?_append_left]
          · exact h1
          · exact (List.getElem?_eq_some_iff.mp h1).1
      · simp only [upd_other _ _ _ _ hty] at hh
        obtain ⟨rec, h1, h2⟩ := hwf.slotBack t' j h hh
        refine ⟨rec, ?_, h2⟩
        rw [List.getElem?_append_left]
        · exact h1
        · exact (List.getElem?_eq_some_iff.mp h1).1
    · intro r hr
      have := hwf.unregdLt r hr
      simp; omega

theorem wf_unregister {c : Nat} {s : EL} (hwf : WF c s) (r : Nat) : WF c (s.unregister r) := by
  unfold unregister
  split
  · exact hwf
  · rename_i rec hrec
    split
    · exact hwf
    · rename_i hnot
      have hnm : r ∉ s.unregd := by simpa using hnot
      obtain ⟨g1, g2, g3⟩ := hwf.slotLive r rec hrec
      have g3' := g3 hnm
      refine ⟨hwf.q, ?_, ?_, ?_⟩
      · intro r' rec' hr'
        obtain ⟨h1, h2, h3⟩ := hwf.slotLive r' rec' hr'
        by_cases hty : rec'.ty = rec.ty
        · simp only [hty, upd_same, List.length_set]
          rw [hty] at h1 h3
          refine ⟨h1, h2, fun hn => ?_⟩
          simp only [List.mem_cons, not_or] at hn
          have h3' := h3 hn.2
          have hne : rec.slot ≠ rec'.slot := by
            intro he
            rw [he] at g3'
            rw [g3'] at h3'
            have : rec.h = rec'.h := by simpa using h3'
            have : r = r' := by rw [← g2, ← h2, this]
            exact hn.1 this.symm
          rw [List.getElem?_set_ne hne]
          exact h3'
        · simp only [upd_other _ _ _ _ hty]
          refine ⟨h1, h2, fun hn => ?_⟩
          simp only [List.mem_cons, not_or] at hn
          exact h3 hn.2
      · intro t i h hh
        by_cases hty : t = rec.ty
        · subst hty
          simp only [upd_same] at hh
          by_cases hi : rec.slot = i
          · subst hi
            simp [g1] at hh
          · rw [List.getElem?_set_ne hi] at hh
            obtain ⟨rec', h1, h2, h3, h4, h5⟩ := hwf.slotBack rec.ty i h hh
            refine ⟨rec', h1, h2, h3, h4, ?_⟩
            simp only [List.mem_cons, not_or]
            refine ⟨fun he => ?_, h5⟩
            rw [he, hrec] at h1
            have : rec = rec' := by simpa using h1
            exact hi (by rw [this, h3])
        · simp only [upd_other _ _ _ _ hty] at hh
          obtain ⟨rec', h1, h2, h3, h4, h5⟩ := hwf.slotBack t i h hh
          refine ⟨rec', h1, h2, h3, h4, ?_⟩
          simp only [List.mem_cons, not_or]
          refine ⟨fun he => ?_, h5⟩
          rw [he, hrec] at h1
          have : rec = rec' := by simpa using h1
          exact hty (by rw [this, h2])
      · intro r' hr'
        simp only [List.mem_cons] at hr'
        rcases hr' with rfl | hr'
        · exact (List.getElem?_eq_some_iff.mp hrec).1
        · exact hwf.unregdLt r' hr'


/-! ### flow equations -/

/-- `s --log--> s'` keeps the table well-formed and balances the books: what was pending plus what was
pushed = what left at the head (handled or dropped, in that order) plus what is pending now; what was
waiting for `t` plus what was deferred until `t` = what was re-added for `t` plus what still waits. -/
structure Good (c : Nat) (s : EL) (log : List Obs) (s' : EL) : Prop where
  wf : WF c s'
  qf : s.q.abs ++ pushedOf log = leftOf log ++ s'.q.abs
  wl : ∀ t, s.waiting t ++ deferredOf t log = readdOf t log ++ s'.waiting t

theorem good_refl {c : Nat} {s : EL} (hwf : WF c s) : Good c s [] s := ⟨hwf, by simp, by simp⟩

theorem good_trans {c : Nat} {s s1 s2 : EL} {l1 l2 : List Obs} (h1 : Good c s l1 s1) (h2 : Good c s1 l2 s2) :
    Good c s (l1 ++ l2) s2 := by
  refine ⟨h2.wf, ?_, fun t => ?_⟩
  · rw [pushedOf_append, leftOf_append, ← List.append_assoc, h1.qf, List.append_assoc, h2.qf, List.append_assoc]
  · rw [deferredOf_append, readdOf_append, ← List.append_assoc, h1.wl t, List.append_assoc, h2.wl t, List.append_assoc]

theorem good_same {c : Nat} {s s' : EL} (hwf : WF c s') (hq : s'.q = s.q) (hw : s'.waiting = s.waiting) :
    Good c s [] s' := ⟨hwf, by simp [hq], by simp [hw]⟩

theorem unregister_q (s : EL) (r : Nat) : (s.unregister r).q = s.q ∧ (s.unregister r).waiting = s.waiting := by
  unfold unregister; split
  · exact ⟨rfl, rfl⟩
  · split <;> exact ⟨rfl, rfl⟩

theorem register_q (s : EL) (t : Nat) (o : HOpts) (a : List Act) (qt : Bool) :
    (s.register t o a qt).q = s.q ∧ (s.register t o a qt).waiting = s.waiting := by
  unfold register; dsimp only; split <;> exact ⟨rfl, rfl⟩

theorem wf_cancel {c : Nat} {s : EL} (hwf : WF c s) (x : Nat) : WF c (s.cancelCtx x) := by
  unfold cancelCtx; split
  · exact hwf
  · exact ⟨hwf.q, hwf.slotLive, hwf.slotBack, hwf.unregdLt⟩

theorem cancel_q (s : EL) (x : Nat) : (s.cancelCtx x).q = s.q ∧ (s.cancelCtx x).waiting = s.waiting := by
  unfold cancelCtx; split <;> exact ⟨rfl, rfl⟩

theorem good_register {c : Nat} {s : EL} (hwf : WF c s) (t : Nat) (o : HOpts) (a : List Act) (qt : Bool) :
    Good c s [] (s.register t o a qt) :=
  good_same (wf_register hwf t o a qt) (register_q s t o a qt).1 (register_q s t o a qt).2

theorem good_unregister {c : Nat} {s : EL} (hwf : WF c s) (r : Nat) : Good c s [] (s.unregister r) :=
  good_same (wf_unregister hwf r) (unregister_q s r).1 (unregister_q s r).2

theorem good_cancel {c : Nat} {s : EL} (hwf : WF c s) (x : Nat) : Good c s [] (s.cancelCtx x) :=
  good_same (wf_cancel hwf x) (cancel_q s x).1 (cancel_q s x).2

theorem good_delay {c : Nat} {s : EL} (hwf : WF c s) (t : Nat) (e : LEv) :
    Good c s [.deferred t e] (s.delayUntil t e) := by
  refine ⟨⟨hwf.q, hwf.slotLive, hwf.slotBack, hwf.unregdLt⟩, by simp [delayUntil, pushedOf, leftOf], fun t' => ?_⟩
  by_cases h : t' = t
  · subst h; simp [delayUntil, deferredOf, readdOf]
  · have h' : ¬ t = t' := fun e => h e.symm
    simp [delayUntil, deferredOf, readdOf, upd_other _ _ _ _ h, h']

theorem good_inv {c : Nat} {s : EL} (hwf : WF c s) (r : Nat) (e : LEv) (m qt : Bool) : Good c s [.inv r e m qt] s :=
  ⟨hwf, by simp [pushedOf, leftOf], by simp [deferredOf, readdOf]⟩

theorem good_pushEv {c : Nat} (hc : 1 ≤ c) {s : EL} (hwf : WF c s) (e : LEv) :
    Good c s (s.pushEv e).2 (s.pushEv e).1 := by
  obtain ⟨l, hl⟩ := hwf.q
  obtain ⟨hr, hd⟩ := Queue.rel_push hc hl e
  have habs := Queue.rel_abs hl
  have habs' := Queue.rel_abs hr
  refine ⟨⟨⟨_, hr⟩, hwf.slotLive, hwf.slotBack, hwf.unregdLt⟩, ?_, by simp [pushEv, deferredOf, readdOf]; intro t; split <;> simp⟩
  simp only [pushEv]
  rw [habs, habs', hd]
  by_cases hlt : c < (l ++ [e]).length
  · have hp : Deque.push c l e = ((l ++ [e]).tail, (l ++ [e]).head?) := by simp only [Deque.push, hlt, if_true]
    rw [hp]
    cases hh : l ++ [e] with
    | nil => simp at hh
    | cons a t => simp [pushedOf, leftOf]; exact hh
  · have hp : Deque.push c l e = (l ++ [e], none) := by simp only [Deque.push, hlt, if_false]
    rw [hp]
    simp [pushedOf, leftOf]

/-- `addFn` is a legitimate meaning for a handler's `add` action -/
def GoodFn (c : Nat) (addFn : EL → LEv → EL × List Obs) : Prop :=
  ∀ s x, WF c s → Good c s (addFn s x).2 (addFn s x).1

theorem goodFn_noAdd (c : Nat) : GoodFn c noAdd := fun _ _ hwf => good_refl hwf

theorem good_execAct {c : Nat} {addFn : EL → LEv → EL × List Obs} (haf : GoodFn c addFn) {s : EL} (hwf : WF c s)
    (e : LEv) (a : Act) : Good c s (execAct addFn s e a).2 (execAct addFn s e a).1 := by
  cases a with
  | unreg r => simp only [execAct]; split; exact good_unregister hwf r; exact good_refl hwf
  | ctxUnreg r => exact good_unregister hwf r
  | add x => exact haf s x hwf
  | delay t x => exact good_delay hwf t x
  | reg t o p => simp only [execAct]; split; exact good_register hwf _ _ _ _; exact good_refl hwf
  | cancel x => exact good_cancel hwf x
  | cancelGe x v => simp only [execAct]; split; exact good_cancel hwf x; exact good_refl hwf

theorem good_execActs {c : Nat} {addFn : EL → LEv → EL × List Obs} (haf : GoodFn c addFn) (e : LEv) (as : List Act) :
    ∀ {s : EL}, WF c s → Good c s (execActs addFn s e as).2 (execActs addFn s e as).1 := by
  induction as with
  | nil => intro s hwf; exact good_refl hwf
  | cons a as ih =>
    intro s hwf
    have h1 := good_execAct haf hwf e a
    exact good_trans h1 (ih h1.wf)

theorem good_invokeAll {c : Nat} {addFn : EL → LEv → EL × List Obs} (haf : GoodFn c addFn) (m : Bool) (e : LEv)
    (hs : List Handler) : ∀ {s : EL}, WF c s → Good c s (invokeAll addFn m s e hs).2 (invokeAll addFn m s e hs).1 := by
  induction hs with
  | nil => intro s hwf; exact good_refl hwf
  | cons h hs ih =>
    intro s hwf
    have h0 := good_inv hwf h.reg e m h.quiet
    have h1 := good_execActs haf e h.acts hwf
    have h2 := ih h1.wf
    have := good_trans h0 (good_trans h1 h2)
    simpa [invokeAll] using this

theorem good_processEvent {c : Nat} {addFn : EL → LEv → EL × List Obs} (haf : GoodFn c addFn) (m : Bool) {s : EL}
    (hwf : WF c s) (e : LEv) : Good c s (processEvent addFn m s e).2 (processEvent addFn m s e).1 :=
  good_invokeAll haf m e _ hwf

theorem good_addEvent {c : Nat} (hc : 1 ≤ c) : GoodFn c addEvent := by
  intro s x hwf
  have h1 := good_processEvent (goodFn_noAdd c) true hwf x
  have h2 := good_pushEv hc h1.wf x
  exact good_trans h1 h2


/-! ### shape of the logs (generic in the projection `f`) -/

theorem execActs_proj {β : Type} (f : Obs → Option β) (hdef : ∀ t x, f (.deferred t x) = none)
    {addFn : EL → LEv → EL × List Obs} (hadd : ∀ s x, (addFn s x).2.filterMap f = []) (e : LEv) (as : List Act) :
    ∀ s, (execActs addFn s e as).2.filterMap f = [] := by
  induction as with
  | nil => intro s; rfl
  | cons a as ih =>
    intro s
    simp only [execActs, List.filterMap_append, ih, List.append_nil]
    cases a <;> simp [execAct, hdef, hadd]

theorem invokeAll_proj {β : Type} (f : Obs → Option β) (hdef : ∀ t x, f (.deferred t x) = none)
    {addFn : EL → LEv → EL × List Obs} (hadd : ∀ s x, (addFn s x).2.filterMap f = []) (m : Bool) (e : LEv)
    (hs : List Handler) :
    ∀ s, (invokeAll addFn m s e hs).2.filterMap f = hs.filterMap (fun h => f (.inv h.reg e m h.quiet)) := by
  induction hs with
  | nil => intro s; rfl
  | cons h hs ih =>
    intro s
    simp only [invokeAll, List.filterMap_cons, List.filterMap_append, ih, execActs_proj f hdef hadd]
    cases f (Obs.inv h.reg e m h.quiet) <;> rfl

theorem addEvent_proj {β : Type} (f : Obs → Option β) (hdef : ∀ t x, f (.deferred t x) = none)
    (hpush : ∀ x, f (.pushed x) = none) (hdrop : ∀ x, f (.dropped x) = none) (s : EL) (e : LEv) :
    (addEvent s e).2.filterMap f =
      ((snapshot (s.handlers e.ty) true).1 ++ (snapshot (s.handlers e.ty) true).2).filterMap
        (fun h => f (.inv h.reg e true h.quiet)) := by
  simp only [addEvent, processEvent, List.filterMap_append]
  rw [invokeAll_proj f hdef (by intro s x; rfl)]
  simp only [pushEv]
  split <;> simp [hpush, hdrop]

/-- projections that ignore everything AddEvent can log -/
structure AddBlind {β : Type} (f : Obs → Option β) : Prop where
  hdef : ∀ t x, f (.deferred t x) = none
  hpush : ∀ x, f (.pushed x) = none
  hdrop : ∀ x, f (.dropped x) = none
  hinv : ∀ r e q, f (.inv r e true q) = none

theorem addEvent_blind {β : Type} {f : Obs → Option β} (hf : AddBlind f) (s : EL) (e : LEv) :
    (addEvent s e).2.filterMap f = [] := by
  rw [addEvent_proj f hf.hdef hf.hpush hf.hdrop]
  simp [hf.hinv]

theorem readdAll_blind {β : Type} {f : Obs → Option β} (hf : AddBlind f) (hre : ∀ t x, f (.readd t x) = none)
    (t : Nat) (xs : List LEv) : ∀ s, (readdAll t s xs).2.filterMap f = [] := by
  induction xs with
  | nil => intro s; rfl
  | cons x xs ih =>
    intro s
    simp only [readdAll, List.filterMap_cons, hre, List.filterMap_append, addEvent_blind hf, ih, List.append_nil]

theorem blind_invsFalse : AddBlind (fun o => match o with | Obs.inv r e m _ => if m = false then some (r, e) else none | _ => none) :=
  ⟨by intros; rfl, by intros; rfl, by intros; rfl, by intros; rfl⟩
theorem blind_popped : AddBlind (fun o => match o with | Obs.popped e => some e | _ => none) :=
  ⟨by intros; rfl, by intros; rfl, by intros; rfl, by intros; rfl⟩
theorem blind_readd (t : Nat) : AddBlind (fun o => match o with | Obs.readd t' e => if t' = t then some e else none | _ => none) :=
  ⟨by intros; rfl, by intros; rfl, by intros; rfl, by intros; rfl⟩

theorem addEvent_invsFalse (s : EL) (e : LEv) : invsOf false (addEvent s e).2 = [] := addEvent_blind blind_invsFalse s e
theorem addEvent_popped (s : EL) (e : LEv) : poppedOf (addEvent s e).2 = [] := addEvent_blind blind_popped s e
theorem addEvent_readd (t : Nat) (s : EL) (e : LEv) : readdOf t (addEvent s e).2 = [] := addEvent_blind (blind_readd t) s e

theorem readdAll_invsFalse (t : Nat) (xs : List LEv) (s : EL) : invsOf false (readdAll t s xs).2 = [] :=
  readdAll_blind blind_invsFalse (by intros; rfl) t xs s
theorem readdAll_popped (t : Nat) (xs : List LEv) (s : EL) : poppedOf (readdAll t s xs).2 = [] :=
  readdAll_blind blind_popped (by intros; rfl) t xs s

theorem readdAll_cons (t : Nat) (s : EL) (x : LEv) (xs : List LEv) :
    readdAll t s (x :: xs) =
      ((readdAll t (addEvent s x).1 xs).1, [Obs.readd t x] ++ ((addEvent s x).2 ++ (readdAll t (addEvent s x).1 xs).2)) := rfl

theorem readdAll_readd (t t' : Nat) (xs : List LEv) : ∀ s, readdOf t' (readdAll t s xs).2 = if t' = t then xs else [] := by
  induction xs with
  | nil => intro s; simp [readdAll]
  | cons x xs ih =>
    intro s
    have h1 : readdOf t' ((addEvent s x).2 ++ (readdAll t (addEvent s x).1 xs).2) = if t' = t then xs else [] := by
      rw [readdOf_append, addEvent_readd, ih]; rfl
    rw [readdAll_cons]
    dsimp only
    rw [readdOf_append, h1]
    by_cases h : t' = t
    · subst h; simp [readdOf]
    · have h' : ¬ t = t' := fun e => h e.symm
      simp [readdOf, h, h']

/-- the handlers' phase of a loop-mode dispatch re-adds nothing and pops nothing -/
theorem processLoop_readd (t : Nat) (s : EL) (e : LEv) : readdOf t (processEvent addEvent false s e).2 = [] := by
  unfold processEvent readdOf
  rw [invokeAll_proj _ (by intros; rfl) (fun s x => addEvent_readd t s x)]
  simp

theorem processLoop_popped (s : EL) (e : LEv) : poppedOf (processEvent addEvent false s e).2 = [] := by
  unfold processEvent poppedOf
  rw [invokeAll_proj _ (by intros; rfl) (fun s x => addEvent_popped s x)]
  simp

theorem processLoop_invs (s : EL) (e : LEv) :
    invsOf false (processEvent addEvent false s e).2 =
      ((snapshot (s.handlers e.ty) false).1 ++ (snapshot (s.handlers e.ty) false).2).map (fun h => (h.reg, e)) := by
  unfold processEvent invsOf
  rw [invokeAll_proj _ (by intros; rfl) (fun s x => addEvent_invsFalse s x)]
  simp

theorem addEvent_invs (s : EL) (e : LEv) :
    invsOf true (addEvent s e).2 =
      ((snapshot (s.handlers e.ty) true).1 ++ (snapshot (s.handlers e.ty) true).2).map (fun h => (h.reg, e)) := by
  unfold invsOf
  rw [addEvent_proj _ (by intros; rfl) (by intros; rfl) (by intros; rfl)]
  simp

/-! ### re-adding deferred events, Tick, scripts -/

theorem good_readdAll {c : Nat} (hc : 1 ≤ c) (t : Nat) (xs : List LEv) :
    ∀ {s : EL}, WF c s →
      WF c (readdAll t s xs).1 ∧
      s.q.abs ++ pushedOf (readdAll t s xs).2 = leftOf (readdAll t s xs).2 ++ (readdAll t s xs).1.q.abs ∧
      ∀ t', (if t' = t then xs else []) ++ s.waiting t' ++ deferredOf t' (readdAll t s xs).2 =
        readdOf t' (readdAll t s xs).2 ++ (readdAll t s xs).1.waiting t' := by
  induction xs with
  | nil =>
    intro s hwf
    refine ⟨hwf, by simp [readdAll], fun t' => ?_⟩
    simp [readdAll]
  | cons x xs ih =>
    intro s hwf
    have h1 := good_addEvent hc s x hwf
    obtain ⟨i1, i2, i3⟩ := ih h1.wf
    refine ⟨i1, ?_, fun t' => ?_⟩
    · rw [readdAll_cons]
      dsimp only
      simp only [pushedOf_append, leftOf_append]
      have e1 : pushedOf [Obs.readd t x] = [] := rfl
      have e2 : leftOf [Obs.readd t x] = [] := rfl
      rw [e1, e2, List.nil_append, List.nil_append, ← List.append_assoc, h1.qf, List.append_assoc, i2, List.append_assoc]
    · have hw := h1.wl t'
      rw [addEvent_readd, List.nil_append] at hw
      have i3' := i3 t'
      rw [readdAll_readd] at i3' ⊢
      rw [readdAll_cons]
      dsimp only
      have e1 : deferredOf t' [Obs.readd t x] = [] := rfl
      rw [deferredOf_append, deferredOf_append, e1, List.nil_append]
      by_cases h : t' = t
      · simp only [h, if_true] at i3' ⊢
        rw [← h] at i3' ⊢
        rw [List.append_assoc, ← List.append_assoc (s.waiting t'), hw, List.cons_append, List.cons_append]
        rw [List.append_assoc] at i3'
        rw [i3']
      · simp only [h, if_false, List.nil_append] at i3' ⊢
        rw [← List.append_assoc, hw, i3']

theorem good_dispatchDelayed {c : Nat} (hc : 1 ≤ c) {s : EL} (hwf : WF c s) (t : Nat) :
    Good c s (dispatchDelayed s t).2 (dispatchDelayed s t).1 := by
  unfold dispatchDelayed
  have hwf0 : WF c { s with waiting := upd s.waiting t [] } := ⟨hwf.q, hwf.slotLive, hwf.slotBack, hwf.unregdLt⟩
  obtain ⟨i1, i2, i3⟩ := good_readdAll hc t (s.waiting t) hwf0
  refine ⟨i1, i2, fun t' => ?_⟩
  have := i3 t'
  by_cases h : t' = t
  · subst h
    simpa using this
  · simpa [h, upd_other _ _ _ _ h] using this

theorem good_tick {c : Nat} (hc : 1 ≤ c) {s : EL} (hwf : WF c s) :
    Good c s ((tick s).2.getD []) (tick s).1 := by
  unfold tick
  dsimp only
  split
  · exact good_refl hwf
  · rename_i e he
    obtain ⟨l, hl⟩ := hwf.q
    obtain ⟨hr, hd⟩ := Queue.rel_pop hl
    have hwf1 : WF c { s with q := s.q.pop.1 } := ⟨⟨_, hr⟩, hwf.slotLive, hwf.slotBack, hwf.unregdLt⟩
    have hpop : Good c s [Obs.popped e] { s with q := s.q.pop.1 } := by
      refine ⟨hwf1, ?_, by simp [deferredOf, readdOf]⟩
      show s.q.abs ++ pushedOf [Obs.popped e] = leftOf [Obs.popped e] ++ s.q.pop.1.abs
      rw [Queue.rel_abs hl, Queue.rel_abs hr]
      rw [he] at hd
      cases l with
      | nil => simp [Deque.pop] at hd
      | cons a t => simp [Deque.pop] at hd; subst hd; simp [pushedOf, leftOf, Deque.pop]
    have h1 := good_processEvent (good_addEvent hc) false hwf1 e
    have h2 := good_dispatchDelayed hc h1.wf e.ty
    have := good_trans hpop (good_trans h1 h2)
    simpa using this

theorem good_step {c : Nat} (hc : 1 ≤ c) {s : EL} (hwf : WF c s) (o : Op) : Good c s (step s o).2 (step s o).1 := by
  cases o with
  | add e => exact good_addEvent hc s e hwf
  | delay t e => exact good_delay hwf t e
  | reg t o a qt => exact good_register hwf t o a qt
  | unreg r => exact good_unregister hwf r
  | cancel x => exact good_cancel hwf x
  | tick => exact good_tick hc hwf

theorem good_run {c : Nat} (hc : 1 ≤ c) (ops : List Op) : ∀ {s : EL}, WF c s → Good c s (run s ops).2 (run s ops).1 := by
  induction ops with
  | nil => intro s hwf; exact good_refl hwf
  | cons o os ih =>
    intro s hwf
    have h1 := good_step hc hwf o
    exact good_trans h1 (ih h1.wf)


/-! ### the snapshot taken by processEvent = the handlers registered and not unregistered -/

/-- registration `r` is for type `t` and mode `m`, and its closure has not been called -/
def Registered (s : EL) (r t : Nat) (m : Bool) : Prop :=
  ∃ rec : RegRec, s.regs[r]? = some rec ∧ rec.ty = t ∧ r ∉ s.unregd ∧ rec.h.opts.inAdd = m

def IsPrio (s : EL) (r : Nat) : Prop := ∃ rec : RegRec, s.regs[r]? = some rec ∧ rec.h.opts.prio = true

theorem nodup_filterMap_of_inj (l : List (Option Handler))
    (hinj : ∀ (i j : Nat) (h h' : Handler), l[i]? = some (some h) → l[j]? = some (some h') → h.reg = h'.reg → i = j) :
    ((l.filterMap id).map (·.reg)).Nodup := by
  induction l with
  | nil => simp
  | cons a t ih =>
    have hinj' : ∀ (i j : Nat) (h h' : Handler), t[i]? = some (some h) → t[j]? = some (some h') → h.reg = h'.reg → i = j := by
      intro i j h h' h1 h2 h3
      have := hinj (i + 1) (j + 1) h h' (by simpa using h1) (by simpa using h2) h3
      omega
    cases a with
    | none => simpa using ih hinj'
    | some h =>
      simp only [List.filterMap_cons, id, List.map_cons, List.nodup_cons]
      refine ⟨?_, ih hinj'⟩
      intro hm
      simp only [List.mem_map, List.mem_filterMap, id] at hm
      obtain ⟨h', ⟨x, hx, rfl⟩, hreg⟩ := hm
      obtain ⟨j, hj⟩ := List.mem_iff_getElem?.mp hx
      have := hinj 0 (j + 1) h h' (by simp) (by simpa using hj) hreg.symm
      omega

theorem live_nodup {c : Nat} {s : EL} (hwf : WF c s) (t : Nat) :
    (((s.handlers t).filterMap id).map (·.reg)).Nodup := by
  apply nodup_filterMap_of_inj
  intro i j h h' h1 h2 h3
  obtain ⟨rec, a1, _, a3, _, _⟩ := hwf.slotBack t i h h1
  obtain ⟨rec', b1, _, b3, _, _⟩ := hwf.slotBack t j h' h2
  rw [h3, b1] at a1
  have : rec' = rec := by simpa using a1
  rw [← a3, ← b3, this]

theorem mem_live {c : Nat} {s : EL} (hwf : WF c s) (t : Nat) (h : Handler) :
    h ∈ (s.handlers t).filterMap id ↔
      ∃ rec : RegRec, s.regs[h.reg]? = some rec ∧ rec.ty = t ∧ rec.h = h ∧ h.reg ∉ s.unregd := by
  simp only [List.mem_filterMap, id]
  constructor
  · rintro ⟨x, hx, rfl⟩
    obtain ⟨i, hi⟩ := List.mem_iff_getElem?.mp hx
    obtain ⟨rec, a1, a2, _, a4, a5⟩ := hwf.slotBack t i h hi
    exact ⟨rec, a1, a2, a4, a5⟩
  · rintro ⟨rec, a1, a2, a3, a4⟩
    obtain ⟨_, _, b3⟩ := hwf.slotLive h.reg rec a1
    have := b3 a4
    rw [a2, a3] at this
    exact ⟨some h, List.mem_iff_getElem?.mpr ⟨_, this⟩, rfl⟩

/-- The two lists built by `processEvent` under the lock. -/
theorem snapshot_spec {c : Nat} {s : EL} (hwf : WF c s) (t : Nat) (m : Bool) :
    let ps := (snapshot (s.handlers t) m).1.map (·.reg)
    let os := (snapshot (s.handlers t) m).2.map (·.reg)
    (ps ++ os).Nodup ∧ (∀ r, r ∈ ps ++ os ↔ Registered s r t m) ∧
    (∀ r ∈ ps, IsPrio s r) ∧ (∀ r ∈ os, ¬ IsPrio s r) := by
  intro ps os
  have hmemlive : ∀ h, h ∈ ((s.handlers t).filterMap id).filter (fun h => h.opts.inAdd == m) ↔
      h ∈ (s.handlers t).filterMap id ∧ h.opts.inAdd = m := by
    intro h; simp [List.mem_filter]
  have hperm := List.filter_append_perm (fun h : Handler => h.opts.prio)
    (((s.handlers t).filterMap id).filter (fun h => h.opts.inAdd == m))
  have hps : ps ++ os = ((snapshot (s.handlers t) m).1 ++ (snapshot (s.handlers t) m).2).map (·.reg) := by
    simp [ps, os]
  refine ⟨?_, ?_, ?_, ?_⟩
  · rw [hps]
    have h1 : (((snapshot (s.handlers t) m).1 ++ (snapshot (s.handlers t) m).2).map (·.reg)).Perm
        ((((s.handlers t).filterMap id).filter (fun h => h.opts.inAdd == m)).map (·.reg)) := hperm.map _
    rw [h1.nodup_iff]
    exact List.Nodup.sublist (List.Sublist.map _ List.filter_sublist) (live_nodup hwf t)
  · intro r
    rw [hps]
    have h1 : r ∈ ((snapshot (s.handlers t) m).1 ++ (snapshot (s.handlers t) m).2).map (·.reg) ↔
        r ∈ (((s.handlers t).filterMap id).filter (fun h => h.opts.inAdd == m)).map (·.reg) :=
      (hperm.map _).mem_iff
    rw [h1]
    simp only [List.mem_map, hmemlive, mem_live hwf]
    constructor
    · rintro ⟨h, ⟨⟨rec, a1, a2, a3, a4⟩, hm⟩, rfl⟩
      exact ⟨rec, a1, a2, a4, by rw [a3]; exact hm⟩
    · rintro ⟨rec, a1, a2, a3, a4⟩
      obtain ⟨_, b2, _⟩ := hwf.slotLive r rec a1
      refine ⟨rec.h, ⟨⟨rec, by rw [b2]; exact a1, a2, rfl, by rw [b2]; exact a3⟩, a4⟩, b2⟩
  · intro r hr
    simp only [ps, snapshot, List.mem_map, List.mem_filter] at hr
    obtain ⟨h, ⟨⟨hl, _⟩, hp⟩, rfl⟩ := hr
    obtain ⟨rec, a1, _, a3, _⟩ := (mem_live hwf t h).mp hl
    exact ⟨rec, a1, by rw [a3]; exact hp⟩
  · intro r hr
    simp only [os, snapshot, List.mem_map, List.mem_filter] at hr
    obtain ⟨h, ⟨⟨hl, _⟩, hp⟩, rfl⟩ := hr
    obtain ⟨rec, a1, _, a3, _⟩ := (mem_live hwf t h).mp hl
    rintro ⟨rec', b1, b2⟩
    rw [a1] at b1
    have : rec = rec' := by simpa using b1
    rw [← this, a3] at b2
    simp [b2] at hp


/-! ### case analysis of Tick -/

theorem tick_cases {c : Nat} {s : EL} (hwf : WF c s) :
    (s.q.abs = [] ∧ tick s = (s, none)) ∨
    (∃ e rest, s.q.abs = e :: rest ∧ ({ s with q := s.q.pop.1 } : EL).q.abs = rest ∧ WF c { s with q := s.q.pop.1 } ∧
      tick s =
        ((dispatchDelayed (processEvent addEvent false { s with q := s.q.pop.1 } e).1 e.ty).1,
         some (Obs.popped e :: (processEvent addEvent false { s with q := s.q.pop.1 } e).2 ++
           (dispatchDelayed (processEvent addEvent false { s with q := s.q.pop.1 } e).1 e.ty).2))) := by
  obtain ⟨l, hl⟩ := hwf.q
  obtain ⟨hr, hd⟩ := Queue.rel_pop hl
  have habs := Queue.rel_abs hl
  have habs' := Queue.rel_abs hr
  cases l with
  | nil =>
    left
    refine ⟨habs, ?_⟩
    unfold tick
    simp only [Deque.pop, List.head?_nil] at hd
    simp [hd]
  | cons a t =>
    right
    refine ⟨a, t, habs, by simpa [Deque.pop] using habs', ⟨⟨_, hr⟩, hwf.slotLive, hwf.slotBack, hwf.unregdLt⟩, ?_⟩
    unfold tick
    simp only [Deque.pop, List.head?_cons] at hd
    simp [hd]

end EL

namespace Obs

theorem popped_sublist_left (log : List Obs) : (poppedOf log).Sublist (leftOf log) := by
  induction log with
  | nil => exact List.Sublist.slnil
  | cons o t ih =>
    cases o <;> simp only [poppedOf, leftOf, List.filterMap_cons] <;>
      first
        | exact ih
        | exact List.Sublist.cons _ ih
        | exact List.Sublist.cons_cons _ ih

theorem left_eq_popped_of_no_drop (log : List Obs) (h : droppedOf log = []) : leftOf log = poppedOf log := by
  induction log with
  | nil => rfl
  | cons o t ih =>
    cases o with
    | dropped e => simp [droppedOf] at h
    | popped e =>
      have h' : droppedOf t = [] := by simpa [droppedOf] using h
      simp only [leftOf, poppedOf, List.filterMap_cons]
      exact congrArg (e :: ·) (ih h')
    | inv r e m q => exact ih (by simpa [droppedOf] using h)
    | pushed e => exact ih (by simpa [droppedOf] using h)
    | deferred t' e => exact ih (by simpa [droppedOf] using h)
    | readd t' e => exact ih (by simpa [droppedOf] using h)

end Obs
end HsVerif.Model
