import HsVerif.Proofs.SysCover
/-!
From a synchronised view to a NEW COMMIT (C05, task S12), for ANY state that satisfies the phase predicates
(fixed leader, chained or simplified HotStuff, plain timeout rule, ECDSA / EdDSA, all `n` replicas run the model).
Helpers; the property theorems are in Props/C05Chain.lean.

* The committer over a local store, generically (`fetchable = []`, via `tcS_eq_tcL` of SysProgress): `cmWalk` (the walk of
  `commitInner` over stored parents; monotone in fuel, store and committed view: `cmWalk_mono`), `commitInnerL_res` /
  `commitInnerL_walk`, `commitRuleL_res` (the new lock is the old one or the block two certificates below; the block to
  commit is two views below the certified block), `commitRuleL_three` (three consecutive certified views: the rule names
  the lowest), and `tcL_core`: everything the round lemmas need to know about `tryCommit` in one statement.
* One replica: `Link`, `SyncR w N B P s`, `WalkZ Z s`; `nl_step` (a replica that is not the leader receives the next
  proposal: `advanceView_move` on the proposal's certificate, vote rule by `lock.view < B.view`, `onPropose_run_after`,
  `tcL_core`, `runLoop_quiet`); the leader `SyncL`: `ld_vote_add`, `ld_vote_quorum` (`collectVote_quorum_run`,
  `advanceView_move`, `createAndPropose_run`, `aggregateVote_self`, `collectVote_add_run`), `vote_late_noop`,
  `newview_old_noop`; vote tables through `votesCleanup`: `lookup_filter_key`, `addVotes_lookup`.
* The system: `PhaseA`, `PhaseB`, `CommitStep`; `ABInv` / `ab_step` / `ab_deliver` / `chain_round_AB` (votes, any order),
  `BAInv` / `ba_step` / `ba_deliver` / `chain_round_BA` (proposals, any order); the messages of a round are taken from the
  pool of messages in flight (`votesIn`, `propsIn`, `chainView`, `VotesFly`); `chain_view`, `synced_commits_fixed`.
Technique: replica states in the invariants are stored WITHOUT the global table; `SProj` / `syncL_proj` move a predicate
between states that agree on the fields it reads (`rfl` on structure-eta-expanded terms); existential witnesses in
`refine ⟨…⟩` for states are written out (a later component such as `hch : sL.chain = …` otherwise fixes the witness by
unification); `dsimp only at r1 r2 r3` after rewriting a step equation into the results of `deliver_effect`.
-/
open Std.Do
set_option mvcgen.warning false
set_option linter.unusedSimpArgs false
set_option linter.unusedVariables false
namespace HsVerif.Model
open HsVerif.Proofs



/-! ## the committer over a local store: generic facts -/

/-- the walk of `commitInner` over stored parents: from `b` down to a block whose view is not above `cv` -/
def cmWalk : Nat → List (Hash × Block) → Nat → Block → Bool
  | 0, _, _, _ => false
  | f + 1, st, cv, b =>
    if cv ≥ b.view then true
    else match st.lookup b.parent with
      | none => false
      | some p => cmWalk f st cv p

theorem cmWalk_mono : ∀ (f f' : Nat) (st st' : List (Hash × Block)) (cv cv' : Nat) (b : Block),
    f ≤ f' → StoreLe st st' → cv ≤ cv' → cmWalk f st cv b = true → cmWalk f' st' cv' b = true := by
  intro f
  induction f with
  | zero => intro f' st st' cv cv' b _ _ _ h; simp [cmWalk] at h
  | succ n ih =>
    intro f' st st' cv cv' b hf hs hc h
    cases f' with
    | zero => omega
    | succ m =>
      unfold cmWalk at h ⊢
      by_cases h1 : cv' ≥ b.view
      · rw [if_pos h1]
      · rw [if_neg h1]
        have h2 : ¬ cv ≥ b.view := by omega
        rw [if_neg h2] at h
        cases hl : st.lookup b.parent with
        | none => rw [hl] at h; cases h
        | some p =>
          rw [hl] at h
          rw [hs _ _ hl]
          exact ih m st st' cv cv' p (by omega) hs hc h

/-- what `commitInnerL` returns: on failure nothing is committed; on success the committed block is the old
one or the target -/
theorem commitInnerL_res : ∀ (f : Nat) (st : List (Hash × Block)) (cm b : Block),
    ((commitInnerL f st cm b).1 = false → (commitInnerL f st cm b).2.1 = cm) ∧
    ((commitInnerL f st cm b).1 = true →
      ((commitInnerL f st cm b).2.1 = cm ∧ cm.view ≥ b.view) ∨ ((commitInnerL f st cm b).2.1 = b ∧ cm.view < b.view)) ∧
    (∀ e ∈ (commitInnerL f st cm b).2.2, e.passive = true) ∧
    (commitInnerL f st cm b).2.2.length ≤ 2 * f := by
  intro f
  induction f with
  | zero => intro st cm b; simp [commitInnerL]
  | succ n ih =>
    intro st cm b
    unfold commitInnerL
    by_cases h1 : cm.view ≥ b.view
    · rw [if_pos h1]; simp; omega
    · rw [if_neg h1]
      cases hl : st.lookup b.parent with
      | none => simp
      | some p =>
        simp only
        obtain ⟨i1, i2, i3, i4⟩ := ih st cm p
        cases hr : (commitInnerL n st cm p).1 with
        | false =>
          simp only [Bool.not_false, if_true]
          refine ⟨fun _ => i1 hr, fun h => (by cases h), i3, by omega⟩
        | true =>
          simp only [Bool.not_true, Bool.false_eq_true, if_false]
          refine ⟨fun h => (by cases h), fun _ => Or.inr ⟨by simp, by omega⟩, ?_, ?_⟩
          · intro e he
            simp only [List.mem_append, List.mem_cons, List.not_mem_nil, or_false] at he
            rcases he with he | rfl | rfl
            · exact i3 e he
            · rfl
            · rfl
          · simp only [List.length_append, List.length_cons, List.length_nil]; omega

/-- … and it succeeds along a `cmWalk`, committing the target and queueing its `commit` / `exec` events -/
theorem commitInnerL_walk : ∀ (f : Nat) (st : List (Hash × Block)) (cm b : Block),
    cmWalk f st cm.view b = true → (commitInnerL f st cm b).1 = true ∧
      (cm.view < b.view → (commitInnerL f st cm b).2.1 = b ∧
        Ev.commit b ∈ (commitInnerL f st cm b).2.2 ∧ Ev.exec b ∈ (commitInnerL f st cm b).2.2) := by
  intro f
  induction f with
  | zero => intro st cm b h; simp [cmWalk] at h
  | succ n ih =>
    intro st cm b h
    unfold cmWalk at h
    unfold commitInnerL
    by_cases h1 : cm.view ≥ b.view
    · rw [if_pos h1]; exact ⟨rfl, fun h2 => by omega⟩
    · rw [if_neg h1] at h ⊢
      cases hl : st.lookup b.parent with
      | none => rw [hl] at h; cases h
      | some p =>
        rw [hl] at h
        simp only
        obtain ⟨i1, _⟩ := ih st cm p h
        rw [i1]
        simp

theorem qcRefL_some {st : List (Hash × Block)} {q : QC} {x : Block} (h : qcRefL st q = some x) :
    st.lookup q.hash = some x ∧ q.hash ≠ "" := by
  unfold qcRefL at h
  split at h
  · cases h
  · rename_i hne
    exact ⟨h, by simpa using hne⟩

theorem qcRefL_of {st : List (Hash × Block)} {q : QC} {x : Block} (h : st.lookup q.hash = some x) (hne : q.hash ≠ "") :
    qcRefL st q = some x := by
  unfold qcRefL
  rw [if_neg (by simpa using hne)]; exact h

/-- the lock after `commitRuleL`: the old one, or the block two certificates below the proposal; the
block to commit is two views below the certified block -/
theorem commitRuleL_res (r : Rules) (st : List (Hash × Block)) (lock b : Block) :
    ((commitRuleL r st lock b).1 = lock ∨
      ∃ b1 b2, st.lookup b.qc.hash = some b1 ∧ st.lookup b1.qc.hash = some b2 ∧ (commitRuleL r st lock b).1 = b2 ∧
        b2.view > lock.view) ∧
    (∀ t, (commitRuleL r st lock b).2 = some t → ∃ b1, st.lookup b.qc.hash = some b1 ∧ t.view + 2 = b1.view) := by
  cases r with
  | fast => simp [commitRuleL]
  | chained =>
    unfold commitRuleL
    simp only
    cases h1 : qcRefL st b.qc with
    | none => simp
    | some b1 =>
      simp only
      cases h2 : qcRefL st b1.qc with
      | none => simp
      | some b2 =>
        simp only
        have l1 := (qcRefL_some h1).1
        have l2 := (qcRefL_some h2).1
        have hlock : (if b2.view > lock.view then b2 else lock) = lock ∨
            ∃ x1 x2, st.lookup b.qc.hash = some x1 ∧ st.lookup x1.qc.hash = some x2 ∧
              (if b2.view > lock.view then b2 else lock) = x2 ∧ x2.view > lock.view := by
          by_cases hv : b2.view > lock.view
          · rw [if_pos hv]; exact Or.inr ⟨b1, b2, l1, l2, rfl, hv⟩
          · rw [if_neg hv]; exact Or.inl rfl
        cases h3 : qcRefL st b2.qc with
        | none => exact ⟨hlock, by simp⟩
        | some b3 =>
          simp only
          split
          · rename_i hc
            refine ⟨hlock, ?_⟩
            intro t ht
            simp only [Option.some.injEq] at ht
            subst ht
            simp only [Bool.and_eq_true, beq_iff_eq] at hc
            exact ⟨b1, l1, by omega⟩
          · exact ⟨hlock, by simp⟩
  | simple =>
    unfold commitRuleL
    simp only
    cases l1 : st.lookup b.qc.hash with
    | none => simp
    | some b1 =>
      simp only
      cases l2 : st.lookup b1.qc.hash with
      | none => simp
      | some b2 =>
        simp only
        have hlock : (if b2.view > lock.view then b2 else lock) = lock ∨
            ∃ x1 x2, some b1 = some x1 ∧ st.lookup x1.qc.hash = some x2 ∧
              (if b2.view > lock.view then b2 else lock) = x2 ∧ x2.view > lock.view := by
          by_cases hv : b2.view > lock.view
          · rw [if_pos hv]; exact Or.inr ⟨b1, b2, rfl, l2, rfl, hv⟩
          · rw [if_neg hv]; exact Or.inl rfl
        cases h3 : st.lookup b2.qc.hash with
        | none => exact ⟨hlock, by simp⟩
        | some b3 =>
          simp only
          split
          · rename_i hc
            refine ⟨hlock, ?_⟩
            intro t ht
            simp only [Option.some.injEq] at ht
            subst ht
            simp only [Bool.and_eq_true, beq_iff_eq] at hc
            exact ⟨b1, rfl, by omega⟩
          · exact ⟨hlock, by simp⟩

/-- three consecutive certified views: the commit rule names the lowest block -/
theorem commitRuleL_three (r : Rules) (hr : r = .chained ∨ r = .simple) (st : List (Hash × Block)) (lock b b1 b2 b3 : Block)
    (l1 : st.lookup b.qc.hash = some b1) (n1 : b.qc.hash ≠ "")
    (l2 : st.lookup b1.qc.hash = some b2) (n2 : b1.qc.hash ≠ "")
    (l3 : st.lookup b2.qc.hash = some b3) (n3 : b2.qc.hash ≠ "")
    (p1 : b1.parent = b2.hash) (v1 : b1.view = b2.view + 1) (p2 : b2.parent = b3.hash) (v2 : b2.view = b3.view + 1) :
    (commitRuleL r st lock b).2 = some b3 := by
  rcases hr with rfl | rfl
  · unfold commitRuleL
    simp only [qcRefL_of l1 n1, qcRefL_of l2 n2, qcRefL_of l3 n3]
    simp [p1, v1, p2, v2]
  · unfold commitRuleL
    simp only [l1, l2, l3]
    have : (b3.view + 2 == b1.view && b2.view == b3.view + 1) = true := by
      simp only [Bool.and_eq_true, beq_iff_eq]; omega
    rw [if_pos this]



theorem store_new (ch : RChain) (b : Block) (hnew : ch.blocks.lookup b.hash = none) :
    (ch.store b).blocks = (b.hash, b) :: ch.blocks ∧ (ch.store b).fetchable = ch.fetchable ∧
    (ch.store b).fuel = ch.fuel + 1 := by
  unfold RChain.store
  rw [hnew]
  refine ⟨rfl, rfl, ?_⟩
  unfold RChain.fuel
  simp only [List.length_cons]; omega

theorem storeLe_cons (st : List (Hash × Block)) (b : Block) (hnew : st.lookup b.hash = none) :
    StoreLe st ((b.hash, b) :: st) := fun h x hx => lookup_cons_stable st b.hash h x b hnew hx

/-- **what `tryCommit` does to a replica that stores the new block `b` on top of the certified block `B1`
(view `≤ w`) whose own certified block `P` is older**: the block is added, nothing can be fetched, the lock
stays below `w`, only passive events are queued (boundedly many); a walk to an uncommitted target `Z` stays
possible as long as `w ≤ Z.view + 1`; and if `B1 ← P ← Z` are consecutive certified views, `Z` is committed. -/
theorem tcL_core (c : RCfg) (hr : c.rules = .chained ∨ c.rules = .simple) (b B1 P : Block) (w N : Nat) (s : RState)
    (hfe : s.chain.fetchable = []) (hnew : s.chain.blocks.lookup b.hash = none)
    (hq1 : s.chain.blocks.lookup b.qc.hash = some B1) (hB1v : B1.view ≤ w)
    (hq2 : s.chain.blocks.lookup B1.qc.hash = some P) (hPv : P.view < w)
    (hlock : s.lock.view < w) (hsmall : 2 * s.chain.blocks.length + w ≤ N) :
    (tcL c b s).chain.blocks = (b.hash, b) :: s.chain.blocks ∧ (tcL c b s).chain.fetchable = [] ∧
    (tcL c b s).lock.view < w ∧
    ∃ evs, (tcL c b s).queue = s.queue ++ evs ∧ (∀ e ∈ evs, e.passive = true) ∧ evs.length ≤ N + 8 ∧
      (∀ Z : Block, cmWalk (s.chain.blocks.length + 2) s.chain.blocks s.committed.view Z = true → s.committed.view < Z.view →
        (w ≤ Z.view + 1 →
          cmWalk (s.chain.blocks.length + 3) ((b.hash, b) :: s.chain.blocks) (tcL c b s).committed.view Z = true ∧
          (tcL c b s).committed.view < Z.view) ∧
        (b.qc.hash ≠ "" → B1.qc.hash ≠ "" → P.qc.hash ≠ "" → B1.parent = P.hash → B1.view = P.view + 1 →
          s.chain.blocks.lookup P.qc.hash = some Z → P.parent = Z.hash → P.view = Z.view + 1 →
          (tcL c b s).committed = Z ∧ Ev.commit Z ∈ evs ∧ Ev.exec Z ∈ evs)) := by
  obtain ⟨hst, hsf, hsfu⟩ := store_new s.chain b hnew
  have hle := storeLe_cons s.chain.blocks b hnew
  have l1 : (s.chain.store b).blocks.lookup b.qc.hash = some B1 := by rw [hst]; exact hle _ _ hq1
  have l2 : (s.chain.store b).blocks.lookup B1.qc.hash = some P := by rw [hst]; exact hle _ _ hq2
  obtain ⟨hlk, hcm⟩ := commitRuleL_res c.rules (s.chain.store b).blocks s.lock b
  have hlockv : (commitRuleL c.rules (s.chain.store b).blocks s.lock b).1.view < w := by
    rcases hlk with h | ⟨x1, x2, h1, h2, h3, _⟩
    · rw [h]; exact hlock
    · rw [l1] at h1; cases h1
      rw [l2] at h2; cases h2
      rw [h3]; exact hPv
  have hfuel : (s.chain.store b).fuel + 1 = s.chain.blocks.length + 4 := by
    rw [hsfu]; unfold RChain.fuel; rw [hfe]; simp
  -- the walk survives the new block
  have hwalk : ∀ (Z : Block) (cv : Nat), cmWalk (s.chain.blocks.length + 2) s.chain.blocks s.committed.view Z = true →
      s.committed.view ≤ cv → ∀ f, s.chain.blocks.length + 2 ≤ f →
      cmWalk f ((b.hash, b) :: s.chain.blocks) cv Z = true :=
    fun Z cv h hc f hf => cmWalk_mono _ _ _ _ _ _ Z hf hle hc h
  unfold tcL
  simp only
  cases hr2 : (commitRuleL c.rules (s.chain.store b).blocks s.lock b).2 with
  | none =>
    simp only
    refine ⟨hst, by rw [hsf]; exact hfe, hlockv, [], by simp, by simp, by simp, ?_⟩
    intro Z hZ hcz
    refine ⟨fun _ => ⟨hwalk Z _ hZ (Nat.le_refl _) _ (by omega), hcz⟩, ?_⟩
    intro n1 n2 n3 p1 v1 l3 p2 v2
    have := commitRuleL_three c.rules hr (s.chain.store b).blocks s.lock b B1 P Z l1 n1 l2 n2
      (by rw [hst]; exact hle _ _ l3) n3 p1 v1 p2 v2
    rw [hr2] at this; cases this
  | some t =>
    simp only
    obtain ⟨x1, hx1, htv⟩ := hcm t hr2
    rw [l1] at hx1; cases hx1
    obtain ⟨i1, i2, i3, i4⟩ := commitInnerL_res ((s.chain.store b).fuel + 1) (s.chain.store b).blocks s.committed t
    cases hci : (commitInnerL ((s.chain.store b).fuel + 1) (s.chain.store b).blocks s.committed t).1 with
    | false =>
      simp only [Bool.not_false, if_true]
      refine ⟨hst, by rw [hsf]; exact hfe, hlockv, _, rfl, i3, by omega, ?_⟩
      intro Z hZ hcz
      rw [i1 hci]
      refine ⟨fun _ => ⟨hwalk Z _ hZ (Nat.le_refl _) _ (by omega), hcz⟩, ?_⟩
      intro n1 n2 n3 p1 v1 l3 p2 v2
      have := commitRuleL_three c.rules hr (s.chain.store b).blocks s.lock b B1 P Z l1 n1 l2 n2
        (by rw [hst]; exact hle _ _ l3) n3 p1 v1 p2 v2
      rw [hr2] at this; cases this
      -- the walk succeeds: contradiction with the failure
      have hw := hwalk t _ hZ (Nat.le_refl _) ((s.chain.store b).fuel + 1) (by rw [hfuel]; omega)
      rw [← hst] at hw
      rw [(commitInnerL_walk _ _ _ _ hw).1] at hci; cases hci
    | true =>
      simp only [Bool.not_true, Bool.false_eq_true, if_false]
      obtain ⟨pb, pf, _, pl⟩ := pruneToHeight_facts (s.chain.store b)
        (commitInnerL ((s.chain.store b).fuel + 1) (s.chain.store b).blocks s.committed t).2.1 t.view
      refine ⟨by rw [pb]; exact hst, by rw [pf, hsf]; exact hfe, hlockv, _, by rw [List.append_assoc], ?_, ?_, ?_⟩
      · intro e he
        simp only [List.mem_append, List.mem_map] at he
        rcases he with he | ⟨f, _, rfl⟩
        · exact i3 e he
        · rfl
      · simp only [List.length_append, List.length_map]
        omega
      · intro Z hZ hcz
        have hcmv : s.committed.view ≤ (commitInnerL ((s.chain.store b).fuel + 1) (s.chain.store b).blocks s.committed t).2.1.view := by
          rcases i2 hci with ⟨h, _⟩ | ⟨h, hv⟩
          · rw [h]; exact Nat.le_refl _
          · rw [h]; omega
        refine ⟨fun hwz => ⟨hwalk Z _ hZ hcmv _ (by omega), ?_⟩, ?_⟩
        · rcases i2 hci with ⟨h, _⟩ | ⟨h, hv⟩
          · rw [h]; exact hcz
          · rw [h]; omega
        · intro n1 n2 n3 p1 v1 l3 p2 v2
          have := commitRuleL_three c.rules hr (s.chain.store b).blocks s.lock b B1 P Z l1 n1 l2 n2
            (by rw [hst]; exact hle _ _ l3) n3 p1 v1 p2 v2
          rw [hr2] at this; cases this
          have hw := hwalk t _ hZ (Nat.le_refl _) ((s.chain.store b).fuel + 1) (by rw [hfuel]; omega)
          rw [← hst] at hw
          obtain ⟨_, h2⟩ := commitInnerL_walk _ _ _ _ hw
          obtain ⟨q1, q2, q3⟩ := h2 hcz
          exact ⟨q1, List.mem_append_left _ q2, List.mem_append_left _ q3⟩



/-! ## one replica on the chain of recovery rounds -/

/-- `B'` is a proposal of the view after `B`'s, on the certificate of `B` -/
structure Link (B' B : Block) : Prop where
  parent : B'.parent = B.hash
  qch : B'.qc.hash = B.hash
  view : B'.view = B.view + 1
  ne : B.hash ≠ ""

/-- **synchronised at view `w` on block `B`** (one replica): in view `w`, voted for `B` (`lastVoted = w`),
`B` (named `P<w>`) and the block `P` certified by `B.qc` are stored, high QC and lock are older than `w`,
nothing queued or deferred, nothing can be fetched, the names of later proposals are unused (in the store
and in the voting machine); `N` bounds the size of the store (the model's event loop has finite fuel) -/
structure SyncR (w N : Nat) (B P : Block) (s : RState) : Prop where
  view : s.view = w
  lastVoted : s.lastVoted = w
  queue : s.queue = []
  wvc : s.waitingVC = []
  wprop : s.waitingProp = []
  fetch : s.chain.fetchable = []
  bhash : B.hash = pname w
  bview : B.view = w
  hasB : s.chain.blocks.lookup B.hash = some B
  hasP : s.chain.blocks.lookup B.qc.hash = some P
  pview : P.view < w
  hq : s.highQC.view < w
  lock : s.lock.view < w
  names : ∀ u, w < u → s.chain.blocks.lookup (pname u) = none ∧ s.votes.lookup (pname u) = none
  small : 2 * s.chain.blocks.length + w ≤ N

/-- the committer can walk from `Z` down to the committed block over stored parents, and `Z` is not committed yet -/
structure WalkZ (Z : Block) (s : RState) : Prop where
  walk : cmWalk (s.chain.blocks.length + 2) s.chain.blocks s.committed.view Z = true
  below : s.committed.view < Z.view

theorem syncR_with_table {w N : Nat} {B P : Block} {s : RState} (h : SyncR w N B P s) (T : List (Nat × Atom)) (nb : Nat) :
    SyncR w N B P { s with truth := T, nextBytes := nb } :=
  ⟨h.view, h.lastVoted, h.queue, h.wvc, h.wprop, h.fetch, h.bhash, h.bview, h.hasB, h.hasP, h.pview, h.hq, h.lock, h.names, h.small⟩

theorem walkZ_with_table {Z : Block} {s : RState} (h : WalkZ Z s) (T : List (Nat × Atom)) (nb : Nat) :
    WalkZ Z { s with truth := T, nextBytes := nb } := ⟨h.walk, h.below⟩

theorem tcL_congr (c : RCfg) (b : Block) (s s' : RState) (h1 : s'.chain = s.chain) (h2 : s'.lock = s.lock)
    (h3 : s'.committed = s.committed) :
    (tcL c b s').chain = (tcL c b s).chain ∧ (tcL c b s').lock = (tcL c b s).lock ∧
    (tcL c b s').committed = (tcL c b s).committed := by
  unfold tcL
  simp only [h1, h2, h3]
  split
  · exact ⟨rfl, rfl, rfl⟩
  · split <;> exact ⟨rfl, rfl, rfl⟩

/-- **a replica that is not the leader receives the next proposal of the chain**: it verifies the
certificate of `B`, enters view `w + 1` on it, reports to the leader, stores `B'`, runs the committer, votes -/
theorem nl_step (k : Keys) (c : RCfg) (L w N : Nat) (B P B' : Block) (sgq : Sig) (s : RState)
    (hs : c.scheme ≠ .bls12) (ha : c.agg = false) (hr : c.rules = .chained ∨ c.rules = .simple)
    (hlead : ∀ v, c.leader v = L) (hne : c.id ≠ L)
    (hcore : SyncR w N B P s) (hf : FreshS s) (hN : N + 12 ≤ 99999)
    (hb1 : B'.hash = pname (w + 1)) (hb2 : B'.parent = B.hash) (hb3 : B'.view = w + 1)
    (hb4 : B'.qc = ⟨some sgq, B.view, B.hash⟩)
    (hv1 : verify (fun b => s.truth.lookup b) c.cfg sgq (blkMsg B.hash) = true) (hv2 : c.cfg.quorum ≤ sgq.len) :
    SyncR (w + 1) (N + 3) B' B (step k c s (.propose L B' none)).1 ∧
    FreshS (step k c s (.propose L B' none)).1 ∧ Ext s (step k c s (.propose L B' none)).1 ∧
    (step k c s (.propose L B' none)).1.highQC = B'.qc ∧
    (step k c s (.propose L B' none)).1.votes = s.votes ∧
    (step k c s (.propose L B' none)).1.lastProposed = s.lastProposed ∧
    (∃ bytes, (step k c s (.propose L B' none)).1.truth.lookup bytes = some ⟨c.id, blkMsg B'.hash⟩ ∧
      ∀ C : SysCfg, route C c.id (step k c s (.propose L B' none)).2 =
        [(L, Ev.newview c.id { qc := some B'.qc }),
         (L, Ev.vote c.id (some (.multi c.scheme [⟨c.id, bytes⟩])) B'.hash false)]) ∧
    (∀ Z : Block, WalkZ Z s →
      (w ≤ Z.view + 1 → WalkZ Z (step k c s (.propose L B' none)).1) ∧
      (Link B P → Link P Z → s.chain.blocks.lookup Z.hash = some Z →
        (step k c s (.propose L B' none)).1.committed = Z ∧
        Out.commit Z ∈ (step k c s (.propose L B' none)).2 ∧ Out.exec Z ∈ (step k c s (.propose L B' none)).2)) := by
  let q : QC := B'.qc
  let s0 : RState := { s with out := [], queue := s.queue ++ [.propose L B' none] }
  let sA : RState := { s0 with queue := [] }
  have hgen : B.hash ≠ genesisHash := by rw [hcore.bhash]; exact pname_ne_genesis _
  have hqh : q.hash = B.hash := by show B'.qc.hash = _; rw [hb4]
  have hqv : q.view = w := by show B'.qc.view = _; rw [hb4]; exact hcore.bview
  have hlkB : sA.chain.blocks.lookup q.hash = some B := by rw [hqh]; exact hcore.hasB
  have hverA : ∀ s' : RState, s'.chain = s.chain → s'.truth = s.truth → verifyQC (env k c s') q = true := by
    intro s' h1 h2
    have := verifyQC_of_votes k c s' B.hash B sgq (by rw [h1]; exact hcore.hasB) rfl hgen (by rw [h2]; exact hv1) hv2
    show verifyQC _ B'.qc = true
    rw [hb4]; exact this
  -- advanceView
  let s1 : RState := { sA with highQC := q, view := w + 1, lastTimeout := none
                               ghost := sA.ghost ++ [.adv sA.view q.view false], queue := [.viewChange (w + 1) false]
                               out := [.sendNewView L { qc := some q }] }
  have hadv : (advanceView k c { qc := some q }).run sA = pure ((), s1) := by
    rw [advanceView_move k c sA q B ha (hverA sA rfl rfl) hlkB (by show s.view = q.view; rw [hcore.view, hqv])]
    have hnl : ¬ c.leader (sA.view + 1) = c.id := by rw [hlead]; exact fun e => hne e.symm
    rw [if_neg hnl]
    have hhq : ¬ B.view ≤ s.highQC.view := by rw [hcore.bview]; have := hcore.hq; omega
    have hv : s.view = w := hcore.view
    simp [emit, movedS, updHighQC, hhq, hv, hlead, sA, s0, s1]
  have hl1 : s1.chain.blocks.lookup B'.qc.hash = some B := hlkB
  -- the vote rule
  have hrule : (voteRule c B'.view B' none).run s1 = pure (true, s1) := by
    have h2 : B.qc.hash = "" ∨ ∃ gb, s1.chain.blocks.lookup B.qc.hash = some gb := Or.inr ⟨P, hcore.hasP⟩
    rcases hr with hr | hr
    · exact voteRule_chained_above c hr s1 B' B _ hl1 h2 (by show s.lock.view < B.view; rw [hcore.bview]; exact hcore.lock)
    · exact voteRule_simple_ok c hr s1 B' B _ (Nat.le_refl _) hl1 h2
        (by show s.lock.view ≤ B.view; rw [hcore.bview]; exact Nat.le_of_lt hcore.lock)
  have hon : (onPropose k c L B' none).run sA = pure ((), votedS c B' L s1) :=
    onPropose_run_after k c sA s1 L B' hs hadv hb3 (by show s.lastVoted < B'.view; rw [hcore.lastVoted, hb3]; omega)
      (hlead _).symm (by rw [hb2, hb4]) (by rw [hb3]; show q.view < _; rw [hqv]; omega)
      (hverA s1 rfl rfl) hrule (by rw [hlead]; exact fun e => hne e.symm)
  -- tryCommit
  have hfe1 : s1.chain.fetchable = [] := hcore.fetch
  have htc : tcS c B' s1 = tcL c B' s1 := tcS_eq_tcL c (by rcases hr with h | h <;> rw [h] <;> decide) B' s1 hfe1
  have hnewB : s1.chain.blocks.lookup B'.hash = none := by rw [hb1]; exact (hcore.names (w + 1) (by omega)).1
  obtain ⟨t1, t2, t3, evs, t4, t5, t6, t7⟩ := tcL_core c hr B' B P w N s1 hfe1 hnewB hl1 (Nat.le_of_eq hcore.bview)
    (by show s.chain.blocks.lookup B.qc.hash = some P; exact hcore.hasP) hcore.pview hcore.lock hcore.small
  rw [← htc] at t1 t2 t3 t4 t7
  let A : RState := votedS c B' L s1
  obtain ⟨hA1, hA2, hA3, hA4, hA5, hA10, _, hA11, _, _, hA12⟩ := votedS_tcp c B' L s1
  obtain ⟨hA6, hA7, hA8, hA9⟩ := votedS_tc c B' L s1
  let qq : List Ev := [Ev.viewChange (w + 1) false] ++ evs
  have hAq : A.queue = qq := by
    show (votedS c B' L s1).queue = _
    rw [hA9, t4]
  have hAw : A.waitingProp = [] := by
    show (votedS c B' L s1).waitingProp = _
    rw [hA3]; exact hcore.wprop
  have hquiet : ∀ e ∈ qq, e.quiet = true := by
    intro e he
    simp only [qq, List.mem_append, List.mem_singleton] at he
    rcases he with rfl | he
    · rfl
    · exact quiet_of_passive e (t5 e he)
  have hqlen : qq.length < 99999 := by
    simp only [qq, List.length_append, List.length_singleton]; omega
  have htick := tick_propose k c s0 A L B' none [] (by show s.queue ++ _ = _; rw [hcore.queue]; rfl) hon
  have hX : ({ A with waitingProp := [], queue := A.queue ++ A.waitingProp } : RState) =
      { ({ A with waitingProp := [] } : RState) with queue := qq } := by
    simp only [hAw, hAq, List.append_nil]
  rw [hX] at htick
  have hrest := runLoop_quiet k c qq 99999 { A with waitingProp := [] } hquiet
    (by show (votedS c B' L s1).waitingVC = []; rw [hA4]; exact hcore.wvc) hqlen
  have hstep : step k c s (.propose L B' none) =
      ({ A with waitingProp := [], queue := [], out := [] }, A.out ++ qq.map Ev.toOut) := by
    rw [step_run_eq k c s _ (99999 + 1) rfl, runLoop_succ k c _ s0 _ htick, hrest]
    rfl
  have hfA : FreshS s1 := hf
  have hft := tcS_fresh c B' s1 hfA
  obtain ⟨ho3, hl3, hf3, hc3⟩ := voteS_facts c B' L (tcS c B' s1) hft
  have hAout : A.out = [Out.sendNewView L { qc := some q }, .sign (blkMsg B'.hash),
      .sendVote L (voteSig c B' (tcS c B' s1)) B'.hash] := by
    show (voteS c B' L (tcS c B' s1)).out ++ _ = _
    rw [ho3, tcS_out, hlead]
    rfl
  have hAchain : A.chain = (tcS c B' s1).chain := hA8
  have hblocks : A.chain.blocks = (B'.hash, B') :: s.chain.blocks := by rw [hAchain]; exact t1
  have hle : StoreLe s.chain.blocks A.chain.blocks := by
    rw [hblocks]; exact storeLe_cons _ _ hnewB
  rw [hstep]
  refine ⟨⟨?_, ?_, rfl, ?_, rfl, ?_, hb1, hb3, ?_, ?_, ?_, ?_, ?_, ?_, ?_⟩, hf3, ?_, ?_, hA10, hA11,
    ⟨signBytes c (blkMsg B'.hash) (tcS c B' s1), hl3, ?_⟩, ?_⟩
  · show A.view = _; rw [show A.view = s1.view from hA1]
  · show A.lastVoted = _; rw [show A.lastVoted = B'.view from hA5, hb3]
  · show A.waitingVC = _; rw [show A.waitingVC = s1.waitingVC from hA4]; exact hcore.wvc
  · show A.chain.fetchable = _; rw [hAchain]; exact t2
  · show A.chain.blocks.lookup B'.hash = _; rw [hblocks]; simp
  · show A.chain.blocks.lookup B'.qc.hash = _; exact hle _ _ hl1
  · rw [hcore.bview]; omega
  · show A.highQC.view < _; rw [show A.highQC = s1.highQC from hA2]; show q.view < _; rw [hqv]; omega
  · show A.lock.view < _; rw [show A.lock = (tcS c B' s1).lock from hA6]; omega
  · intro u hu
    refine ⟨?_, ?_⟩
    · show A.chain.blocks.lookup (pname u) = none
      rw [hblocks, List.lookup_cons]
      have : (pname u == B'.hash) = false := by
        rw [beq_eq_false_iff_ne, hb1]; intro e; have := pname_inj e; omega
      rw [this]; exact (hcore.names u (by omega)).1
    · show A.votes.lookup (pname u) = none
      rw [show A.votes = s1.votes from hA10]; exact (hcore.names u (by omega)).2
  · show 2 * A.chain.blocks.length + (w + 1) ≤ N + 3
    rw [hblocks]; have := hcore.small; simp only [List.length_cons]; omega
  · have e1 : Ext s s1 := ext_of_eq s s1 hf.2 rfl rfl rfl
    have e2 := tcS_ext c B' s1 hfA.2
    have e3 := voteS_ext c B' L (tcS c B' s1) hs hft.2
    have e4 : Ext (voteS c B' L (tcS c B' s1)) { A with waitingProp := [], queue := [], out := [] } :=
      ext_of_eq _ _ hf3.2 rfl rfl rfl
    exact ((e1.trans e2).trans e3).trans e4
  · show A.highQC = _; rw [show A.highQC = s1.highQC from hA2]
  · intro C
    rw [route_append, hAout]
    rw [route_silent C c.id (qq.map Ev.toOut) (by
      intro o ho
      obtain ⟨e, he, rfl⟩ := List.mem_map.mp ho
      exact toOut_silent e (hquiet e he))]
    simp [route, voteSig]; rfl
  · intro Z hZ
    obtain ⟨z1, z2⟩ := t7 Z hZ.walk hZ.below
    refine ⟨?_, ?_⟩
    · intro hwz
      obtain ⟨y1, y2⟩ := z1 hwz
      refine ⟨?_, ?_⟩
      · show cmWalk (A.chain.blocks.length + 2) A.chain.blocks A.committed.view Z = true
        rw [hblocks, show A.committed = (tcS c B' s1).committed from hA7]
        simp only [List.length_cons]; exact y1
      · show A.committed.view < _; rw [show A.committed = (tcS c B' s1).committed from hA7]; exact y2
    · intro lk1 lk2 hZs
      obtain ⟨y1, y2, y3⟩ := z2 (by rw [hb4]; show B.hash ≠ ""; rw [hcore.bhash]; exact pname_ne_empty _)
        (by rw [lk1.qch]; exact lk1.ne)
        (by rw [lk2.qch]; exact lk2.ne) lk1.parent lk1.view (by rw [lk2.qch]; exact hZs) lk2.parent lk2.view
      refine ⟨?_, ?_, ?_⟩
      · show A.committed = Z; rw [show A.committed = (tcS c B' s1).committed from hA7]; exact y1
      · exact List.mem_append_right _ (List.mem_map.mpr ⟨_, List.mem_append_right _ y2, rfl⟩)
      · exact List.mem_append_right _ (List.mem_map.mpr ⟨_, List.mem_append_right _ y3, rfl⟩)



/-! ## the leader collects the votes -/

theorem lookup_filter_key {β} (f : Hash → Bool) (l : List (Hash × β)) (h : Hash) :
    (l.filter (fun p => f p.1)).lookup h = if f h then l.lookup h else none := by
  induction l with
  | nil => simp
  | cons p rest ih =>
    obtain ⟨k', v⟩ := p
    by_cases hk : f k' = true
    · rw [List.filter_cons_of_pos (by simpa using hk), List.lookup_cons, List.lookup_cons, ih]
      by_cases he : (h == k') = true
      · have : h = k' := by simpa using he
        subst this; simp [hk]
      · have he' : (h == k') = false := by simpa using he
        simp [he']
    · rw [List.filter_cons_of_neg (by simpa using hk), ih, List.lookup_cons]
      by_cases he : (h == k') = true
      · have : h = k' := by simpa using he
        subst this
        have : f h = false := by simpa using hk
        simp [this]
      · have he' : (h == k') = false := by simpa using he
        simp [he']

/-- the predicate of `votesCleanup` on the key -/
def voteKept (s : RState) (h : Hash) : Bool :=
  match s.chain.localGet h with
  | some b => !(b.view ≤ s.highQC.view)
  | none => false

theorem cleanVotes_eq (s : RState) (l : List (Hash × List (Nat × Sig))) :
    cleanVotes s l = l.filter (fun p => voteKept s p.1) := rfl

/-- the vote table after a vote for `hash` has been kept -/
theorem addVotes_lookup (s : RState) (hash : Hash) (blk : Block) (vs' : List (Nat × Sig))
    (hblk : s.chain.blocks.lookup hash = some blk) (hhi : s.highQC.view < blk.view) :
    (cleanVotes s ((hash, vs') :: s.votes.filter (fun p => p.1 != hash))).lookup hash = some vs' ∧
    ∀ h', h' ≠ hash → s.votes.lookup h' = none →
      (cleanVotes s ((hash, vs') :: s.votes.filter (fun p => p.1 != hash))).lookup h' = none := by
  rw [cleanVotes_eq]
  refine ⟨?_, ?_⟩
  · rw [lookup_filter_key]
    have : voteKept s hash = true := by
      unfold voteKept RChain.localGet; rw [hblk]; simp; omega
    rw [this]; simp
  · intro h' hne hn
    rw [lookup_filter_key]
    split
    · rw [List.lookup_cons]
      have : (h' == hash) = false := by simpa using hne
      rw [this]
      have := lookup_filter_key (β := List (Nat × Sig)) (fun x => x != hash) s.votes h'
      rw [this, hn]; simp
    · rfl

/-- the fixed leader synchronised at `(w, B)`: it proposed `B` and holds the valid votes `vs` for it -/
structure SyncL (c : RCfg) (w N : Nat) (B P : Block) (vs : List (Nat × Sig)) (s : RState) : Prop where
  core : SyncR w N B P s
  lastProposed : s.lastProposed = w
  votes : s.votes.lookup B.hash = some vs
  valid : ∀ x ∈ vs, c.cfg.has x.1 = true ∧ HonestSig (fun b => s.truth.lookup b) c.cfg x.1 (blkMsg B.hash) x.2
  nodup : (vs.map (·.1)).Nodup
  hqge : P.view ≤ s.highQC.view

theorem honestSig_mono {T T' : Truth} {cfg : Cfg} {i : Nat} {m : Msg} {sg : Sig} (hT : TruthLe T T')
    (h : HonestSig T cfg i m sg) : HonestSig T' cfg i m sg := by
  rcases h with ⟨h1, b, h2, h3⟩ | h
  · exact Or.inl ⟨h1, b, h2, hT _ _ h3⟩
  · exact Or.inr h

theorem syncL_with_table {c : RCfg} {w N : Nat} {B P : Block} {vs : List (Nat × Sig)} {s : RState}
    (h : SyncL c w N B P vs s) (T : List (Nat × Atom)) (nb : Nat)
    (hT : ∀ b a, s.truth.lookup b = some a → T.lookup b = some a) :
    SyncL c w N B P vs { s with truth := T, nextBytes := nb } :=
  ⟨syncR_with_table h.core T nb, h.lastProposed, h.votes,
    fun x hx => ⟨(h.valid x hx).1, honestSig_mono (fun b a hb => hT b a hb) (h.valid x hx).2⟩, h.nodup, h.hqge⟩

/-- **the leader keeps a vote that does not complete the quorum** -/
theorem ld_vote_add (k : Keys) (c : RCfg) (w N i id bytes : Nat) (B P : Block) (vs : List (Nat × Sig)) (s : RState)
    (hs : c.scheme ≠ .bls12) (hld : SyncL c w N B P vs s) (hi : c.cfg.has i = true)
    (hbytes : s.truth.lookup bytes = some ⟨i, blkMsg B.hash⟩)
    (hnew : ∀ v ∈ vs, v.1 ≠ i) (hlen : vs.length + 1 < c.cfg.quorum) :
    ∃ V, step k c s (.vote id (some (.multi c.scheme [⟨i, bytes⟩])) B.hash false) = ({ s with votes := V, out := [] }, []) ∧
      SyncL c w N B P (vs ++ [(i, .multi c.scheme [⟨i, bytes⟩])]) { s with votes := V, out := [] } := by
  let sg1 : Sig := .multi c.scheme [⟨i, bytes⟩]
  let s0 : RState := { s with out := [], queue := s.queue ++ [.vote id (some sg1) B.hash false] }
  let sA : RState := { s0 with queue := [] }
  have hc := hld.core
  have hl : sA.chain.blocks.lookup B.hash = some B := hc.hasB
  have hvl : (sA.votes.lookup B.hash).getD [] = vs := by
    show (s.votes.lookup B.hash).getD [] = vs
    rw [hld.votes]; rfl
  have hhi : sA.highQC.view < B.view := by show s.highQC.view < _; rw [hc.bview]; exact hc.hq
  have hcv := collectVote_add_run k c sA id i bytes B.hash B false hl rfl hhi
    (verify_single _ c.cfg i bytes _ hs hi hbytes) (by rw [hvl]; exact hnew) (by rw [hvl]; exact hlen)
  let sB : RState := addVoteS sA B.hash i sg1
  have hsBq : sB.queue = [] := rfl
  have ht := tick_vote k c s0 sB id _ _ false [] (by show s.queue ++ _ = _; rw [hc.queue]; rfl) hcv
  have hstep : step k c s (.vote id (some sg1) B.hash false) = ({ sB with out := [] }, []) := by
    rw [step_run_eq k c s _ (99998 + 1 + 1) rfl, runLoop_succ k c _ s0 sB ht, runLoop_idle k c sB 99998 hsBq]
    rfl
  obtain ⟨a1, a2⟩ := addVotes_lookup sA B.hash B (vs ++ [(i, sg1)]) hl hhi
  refine ⟨sB.votes, ?_, ⟨?_, hld.lastProposed, ?_, ?_, ?_, hld.hqge⟩⟩
  · rw [hstep]
    show (({ s with out := [], queue := [], votes := sB.votes } : RState), ([] : List Out)) = _
    rw [← hc.queue]
  · refine ⟨hc.view, hc.lastVoted, hc.queue, hc.wvc, hc.wprop, hc.fetch, hc.bhash, hc.bview, hc.hasB, hc.hasP, hc.pview,
      hc.hq, hc.lock, ?_, hc.small⟩
    intro u hu
    refine ⟨(hc.names u hu).1, ?_⟩
    show (cleanVotes sA _).lookup (pname u) = none
    rw [hvl]
    exact a2 (pname u) (by rw [hc.bhash]; intro e; have := pname_inj e; omega) (hc.names u hu).2
  · show (cleanVotes sA _).lookup B.hash = _
    rw [hvl]; exact a1
  · intro x hx
    simp only [List.mem_append, List.mem_singleton] at hx
    rcases hx with hx | rfl
    · exact hld.valid x hx
    · exact ⟨hi, Or.inl ⟨hs, bytes, rfl, hbytes⟩⟩
  · simp only [List.map_append, List.map_cons, List.map_nil]
    rw [List.nodup_append]
    refine ⟨hld.nodup, by simp, ?_⟩
    intro a ha b hb
    simp at hb; subst hb
    obtain ⟨x, hx, hxe⟩ := List.mem_map.mp ha
    intro e; exact hnew x hx (by rw [hxe, e])

/-- **a vote for a block that is certified already changes nothing** -/
theorem vote_late_noop (k : Keys) (c : RCfg) (s : RState) (id i bytes : Nat) (hash : Hash) (blk : Block)
    (hq : s.queue = []) (hblk : s.chain.blocks.lookup hash = some blk) (hhi : blk.view ≤ s.highQC.view) :
    step k c s (.vote id (some (.multi c.scheme [⟨i, bytes⟩])) hash false) = ({ s with out := [] }, []) := by
  let s0 : RState := { s with out := [], queue := s.queue ++ [.vote id (some (.multi c.scheme [⟨i, bytes⟩])) hash false] }
  let sA : RState := { s0 with queue := [] }
  have hcv := collectVote_late_run k c sA id i bytes hash blk hblk hhi
  have ht := tick_vote k c s0 sA id _ _ false [] (by show s.queue ++ _ = _; rw [hq]; rfl) hcv
  rw [step_run_eq k c s _ (99998 + 1 + 1) rfl, runLoop_succ k c _ s0 sA ht, runLoop_idle k c sA 99998 rfl]
  show (({ s with out := [], queue := [] } : RState), ([] : List Out)) = _
  rw [← hq]

/-- **a new-view message with a certificate that is not newer than the high QC, for an earlier view, changes nothing** -/
theorem newview_old_noop (k : Keys) (c : RCfg) (s : RState) (i : Nat) (q : QC) (nb : Block) (ha : c.agg = false)
    (hq : s.queue = []) (hver : verifyQC (env k c s) q = true) (hnb : s.chain.blocks.lookup q.hash = some nb)
    (hv : q.view < s.view) (hhi : nb.view ≤ s.highQC.view) :
    step k c s (.newview i { qc := some q }) = ({ s with out := [] }, []) := by
  let s0 : RState := { s with out := [], queue := s.queue ++ [.newview i { qc := some q }] }
  let sA : RState := { s0 with queue := [] }
  have hadv := advanceView_stay k c sA q nb ha hver hnb hv
  have hsame : updHighQC sA q nb = sA := by
    unfold updHighQC
    rw [if_pos (by exact hhi)]
  rw [hsame] at hadv
  have ht := tick_newview k c s0 sA i _ [] (by show s.queue ++ _ = _; rw [hq]; rfl) hadv
  rw [step_run_eq k c s _ (99998 + 1 + 1) rfl, runLoop_succ k c _ s0 sA ht, runLoop_idle k c sA 99998 rfl]
  show (({ s with out := [], queue := [] } : RState), ([] : List Out)) = _
  rw [← hq]



/-- **the vote that completes the quorum**: the leader certifies `B`, enters view `w + 1`, proposes `B'` on
the certificate, runs the committer on it and keeps its own vote for it -/
theorem ld_vote_quorum (k : Keys) (c : RCfg) (w N i id bytes : Nat) (B P : Block) (vs : List (Nat × Sig)) (s : RState)
    (hs : c.scheme ≠ .bls12) (ha : c.agg = false) (hr : c.rules = .chained ∨ c.rules = .simple)
    (hid : c.cfg.has c.id = true) (hlead : ∀ v, c.leader v = c.id) (hq2 : 2 ≤ c.cfg.quorum)
    (hld : SyncL c w N B P vs s) (hf : FreshS s) (hN : N + 12 ≤ 99999)
    (hi : c.cfg.has i = true) (hbytes : s.truth.lookup bytes = some ⟨i, blkMsg B.hash⟩)
    (hnew : ∀ v ∈ vs, v.1 ≠ i) (hlen : c.cfg.quorum ≤ vs.length + 1) :
    ∃ (sgq : Sig) (bytes' : Nat) (B' : Block),
      B'.hash = pname (w + 1) ∧ B'.parent = B.hash ∧ B'.view = w + 1 ∧ B'.qc = ⟨some sgq, B.view, B.hash⟩ ∧
      verify (fun b => (step k c s (.vote id (some (.multi c.scheme [⟨i, bytes⟩])) B.hash false)).1.truth.lookup b)
        c.cfg sgq (blkMsg B.hash) = true ∧ c.cfg.quorum ≤ sgq.len ∧
      SyncL c (w + 1) (N + 3) B' B [(c.id, .multi c.scheme [⟨c.id, bytes'⟩])]
        (step k c s (.vote id (some (.multi c.scheme [⟨i, bytes⟩])) B.hash false)).1 ∧
      (step k c s (.vote id (some (.multi c.scheme [⟨i, bytes⟩])) B.hash false)).1.highQC = B'.qc ∧
      FreshS (step k c s (.vote id (some (.multi c.scheme [⟨i, bytes⟩])) B.hash false)).1 ∧
      Ext s (step k c s (.vote id (some (.multi c.scheme [⟨i, bytes⟩])) B.hash false)).1 ∧
      (∀ C : SysCfg, route C c.id (step k c s (.vote id (some (.multi c.scheme [⟨i, bytes⟩])) B.hash false)).2 =
        (C.honest.filter (· != c.id)).map (fun x => (x, Ev.propose c.id B' none))) ∧
      (∀ Z : Block, WalkZ Z s →
        (w ≤ Z.view + 1 → WalkZ Z (step k c s (.vote id (some (.multi c.scheme [⟨i, bytes⟩])) B.hash false)).1) ∧
        (Link B P → Link P Z → s.chain.blocks.lookup Z.hash = some Z →
          (step k c s (.vote id (some (.multi c.scheme [⟨i, bytes⟩])) B.hash false)).1.committed = Z ∧
          Out.commit Z ∈ (step k c s (.vote id (some (.multi c.scheme [⟨i, bytes⟩])) B.hash false)).2 ∧
          Out.exec Z ∈ (step k c s (.vote id (some (.multi c.scheme [⟨i, bytes⟩])) B.hash false)).2)) := by
  let sg1 : Sig := .multi c.scheme [⟨i, bytes⟩]
  let hash := B.hash
  have hc := hld.core
  have hgen : hash ≠ genesisHash := by show B.hash ≠ _; rw [hc.bhash]; exact pname_ne_genesis _
  have hsgv : verify (fun b => s.truth.lookup b) c.cfg sg1 (blkMsg hash) = true :=
    verify_single _ c.cfg i bytes _ hs hi hbytes
  obtain ⟨sgq, hcomb, hverq, hlenq⟩ := combine_votes_verifies (fun b => s.truth.lookup b) c.cfg (blkMsg hash)
    (vs ++ [(i, sg1)])
    (by simp only [List.map_append, List.map_cons, List.map_nil]
        rw [List.nodup_append]
        refine ⟨hld.nodup, by simp, ?_⟩
        intro a ha' b hb'
        simp at hb'; subst hb'
        obtain ⟨x, hx, hxe⟩ := List.mem_map.mp ha'
        intro e; exact hnew x hx (by rw [hxe, e]))
    (by simp; omega)
    (by intro v hv
        simp only [List.mem_append, List.mem_singleton] at hv
        rcases hv with hv | rfl
        · exact hld.valid v hv
        · exact ⟨hi, Or.inl ⟨hs, bytes, rfl, hbytes⟩⟩)
  have hcomb' : combine c.cfg (vs.map (fun x => x.2) ++ [sg1]) = .ok sgq := by simpa using hcomb
  have hqlen : c.cfg.quorum ≤ sgq.len := by rw [hlenq]; simpa using hlen
  let qc : QC := ⟨some sgq, B.view, hash⟩
  let s0 : RState := { s with out := [], queue := s.queue ++ [.vote id (some sg1) hash false] }
  let sA : RState := { s0 with queue := [] }
  have hblk : sA.chain.blocks.lookup hash = some B := hc.hasB
  have hvl : (sA.votes.lookup hash).getD [] = vs := by
    show (s.votes.lookup B.hash).getD [] = vs
    rw [hld.votes]; rfl
  have hhi : sA.highQC.view < B.view := by show s.highQC.view < _; rw [hc.bview]; exact hc.hq
  have hcv : (collectVote k c id (some sg1) hash false).run sA = pure ((), qcFormedS c sA hash qc) :=
    collectVote_quorum_run k c sA id i bytes hash B false sgq hblk rfl hgen hhi hsgv (by rw [hvl]; exact hnew)
      (by rw [hvl]; exact hlen) (by rw [hvl]; exact hcomb')
  let sB : RState := qcFormedS c sA hash qc
  have ht1 : (tick k c).run s0 = pure (true, sB) :=
    tick_vote k c s0 sB id (some sg1) hash false [] (by show s.queue ++ _ = _; rw [hc.queue]; rfl) hcv
  let sC : RState := { sB with queue := [] }
  have hverAll : ∀ s' : RState, s'.chain = s.chain → s'.truth = s.truth → verifyQC (env k c s') qc = true := by
    intro s' h1 h2
    exact verifyQC_of_votes k c s' hash B sgq (by rw [h1]; exact hc.hasB) rfl hgen (by rw [h2]; exact hverq) hqlen
  have hsCview : sC.view = w := hc.view
  let m : RState := movedS sC qc B
  have hmhq : (updHighQC sC qc B).highQC = qc := by
    unfold updHighQC
    rw [if_neg (by show ¬ B.view ≤ s.highQC.view; have : s.highQC.view < B.view := hhi; omega)]
  have hmview : m.view = w + 1 := by show sC.view + 1 = _; rw [hsCview]
  let b' : Block := newBlock c m qc
  have hb'hash : b'.hash = pname (w + 1) := by
    show (mkBlock c m.view m.nextCmd qc).hash = _; rw [mkBlock_hash, hmview]
  have hb'view : b'.view = w + 1 := hmview
  have hmark : (markProposed (m.chain.fuel + 1) B).run m = pure (true, m) :=
    markProposed_walk _ _ m (by
      unfold markWalk
      have : ¬ B.view > m.lastProposed := by
        show ¬ B.view > s.lastProposed; rw [hld.lastProposed, hc.bview]; omega
      rw [if_neg this])
  have hrule : ∀ s' : RState, s'.chain = m.chain → s'.lock = m.lock →
      (voteRule c m.view b' none).run s' = pure (true, s') := by
    intro s' hc' hl'
    have hl1 : s'.chain.blocks.lookup b'.qc.hash = some B := by rw [hc']; exact hc.hasB
    have h2 : B.qc.hash = "" ∨ ∃ gb, s'.chain.blocks.lookup B.qc.hash = some gb := Or.inr ⟨P, by rw [hc']; exact hc.hasP⟩
    have hlk : s'.lock.view < B.view := by rw [hl']; show s.lock.view < _; rw [hc.bview]; exact hc.lock
    rcases hr with hr | hr
    · exact voteRule_chained_above c hr s' b' B _ hl1 h2 hlk
    · exact voteRule_simple_ok c hr s' b' B _ (Nat.le_refl _) hl1 h2 (Nat.le_of_lt hlk)
  have hrun := createAndPropose_run k c m qc B none hs (by rcases hr with h | h <;> rw [h] <;> decide)
    (by show m.chain.blocks.lookup (updHighQC sC qc B).highQC.hash = _; rw [hmhq]; exact hc.hasB) hmark
    (by rw [hmview]; show s.lastVoted < _; rw [hc.lastVoted]; omega) hrule (hverAll m rfl rfl)
    (by rw [hmview]; show B.view < _; rw [hc.bview]; omega) (hlead _).symm
  let v3 := voteS c b' c.id (propS m)
  have hfm : FreshS (propS m) := hf
  obtain ⟨ho3, hl3, hf3, hc3⟩ := voteS_facts c b' c.id (propS m) hfm
  obtain ⟨w1, w2, w3, w4, w5, w6, w7, w8, w9, w10, w11⟩ := voteS_fields c b' c.id (propS m)
  have hv3chain : v3.chain = s.chain := hc3
  have hfe3 : v3.chain.fetchable = [] := by rw [hv3chain]; exact hc.fetch
  have htc : tcS c b' v3 = tcL c b' v3 := tcS_eq_tcL c (by rcases hr with h | h <;> rw [h] <;> decide) b' v3 hfe3
  have hnewB : v3.chain.blocks.lookup b'.hash = none := by rw [hv3chain, hb'hash]; exact (hc.names (w + 1) (by omega)).1
  obtain ⟨t1, t2, t3, evs, t4, t5, t6, t7⟩ := tcL_core c hr b' B P w N v3 hfe3 hnewB
    (by rw [hv3chain]; exact hc.hasB) (Nat.le_of_eq hc.bview) (by rw [hv3chain]; exact hc.hasP) hc.pview
    (by rw [show v3.lock = (propS m).lock from w5]; exact hc.lock) (by rw [hv3chain]; exact hc.small)
  rw [← htc] at t1 t2 t3 t4 t7
  rw [hv3chain] at t1 t7
  rw [show v3.committed = s.committed from w6] at t7
  let s6 : RState := { tcS c b' v3 with out := (tcS c b' v3).out ++ [.sendPropose b' none] }
  have hft := tcS_fresh c b' v3 hf3
  have htcp := tcS_tcp c b' v3
  simp only [TCP, Prod.mk.injEq] at htcp
  obtain ⟨p1, p2, p3, p4, p5, p6, p7, p8, p9, p10, p11, p12, p13, p14, p15⟩ := htcp
  have hs6truth : s6.truth = v3.truth := p12
  have hs6hq : s6.highQC = qc := by
    show (tcS c b' v3).highQC = _; rw [p2]; show v3.highQC = _; rw [show v3.highQC = (propS m).highQC from w2]; exact hmhq
  have hs6votes : s6.votes = sC.votes := by
    show (tcS c b' v3).votes = _; rw [p8]; exact w7
  have hsCvn : ∀ u, w < u → sC.votes.lookup (pname u) = none := by
    intro u hu
    show (cleanVotes sA (sA.votes.filter (fun p => p.1 != hash))).lookup (pname u) = none
    rw [cleanVotes_eq, lookup_filter_key]
    split
    · have := lookup_filter_key (β := List (Nat × Sig)) (fun x => x != hash) sA.votes (pname u)
      rw [this]
      have : sA.votes.lookup (pname u) = none := (hc.names u hu).2
      rw [this]; simp
    · rfl
  have hs6lk : s6.chain.blocks.lookup b'.hash = some b' := by
    show (tcS c b' v3).chain.blocks.lookup _ = _; rw [t1]; simp
  have hs6vl : (s6.votes.lookup b'.hash).getD [] = [] := by
    rw [hs6votes, hb'hash, hsCvn (w + 1) (by omega)]; rfl
  have hcv2 := collectVote_add_run k c s6 c.id c.id (signBytes c (blkMsg b'.hash) (propS m)) b'.hash b' false
    hs6lk rfl (by rw [hs6hq, hb'view]; show B.view < _; rw [hc.bview]; omega)
    (verify_single _ c.cfg c.id _ _ hs hid (by rw [hs6truth]; exact hl3))
    (by rw [hs6vl]; simp) (by rw [hs6vl]; simp; omega)
  let F : RState := addVoteS s6 b'.hash c.id (voteSig c b' (propS m))
  have hadv : (advanceView k c { qc := some qc }).run sC = pure ((), F) := by
    rw [advanceView_move k c sC qc B ha (hverAll sC rfl rfl) hc.hasB (by rw [hsCview]; show w = B.view; rw [hc.bview])]
    rw [if_pos (hlead _), hmhq, hrun, aggregateVote_self k c b' _ _ (by rw [hlead])]
    exact hcv2
  have ht2 : (tick k c).run sB = pure (true, F) :=
    tick_newview k c sB F c.id { qc := some qc } [] rfl hadv
  let qq : List Ev := [Ev.viewChange (w + 1) false] ++ evs
  have hFq : F.queue = qq := by
    show (tcS c b' v3).queue = _
    rw [t4, show v3.queue = (propS m).queue from w8]
    show (sC.queue ++ [Ev.viewChange (sC.view + 1) false]) ++ evs = _
    rw [hsCview]; rfl
  have hquiet : ∀ e ∈ qq, e.quiet = true := by
    intro e he
    simp only [qq, List.mem_append, List.mem_singleton] at he
    rcases he with rfl | he
    · rfl
    · exact quiet_of_passive e (t5 e he)
  have hFwvc : F.waitingVC = [] := by
    show (tcS c b' v3).waitingVC = _; rw [p9, show v3.waitingVC = (propS m).waitingVC from w10]; exact hc.wvc
  have hrest := runLoop_quiet k c qq 99998 F hquiet hFwvc
    (by simp only [qq, List.length_append, List.length_singleton]; omega)
  have hFF : F = { F with queue := qq } := by rw [← hFq]
  have hstep : step k c s (.vote id (some sg1) hash false) =
      ({ F with queue := [], out := [] }, F.out ++ qq.map Ev.toOut) := by
    rw [step_run_eq k c s _ (99998 + 1 + 1) rfl, runLoop_succ k c _ s0 sB ht1, runLoop_succ k c _ sB F ht2, hFF, hrest]
    rfl
  have hFout : F.out = [.sign (blkMsg b'.hash), .sendPropose b' none] := by
    show (tcS c b' v3).out ++ _ = _
    rw [tcS_out, show v3.out = _ from ho3]; rfl
  have hFblocks : F.chain.blocks = (b'.hash, b') :: s.chain.blocks := t1
  have hle : StoreLe s.chain.blocks F.chain.blocks := by
    rw [hFblocks]; exact storeLe_cons _ _ (by rw [← hv3chain]; exact hnewB)
  have hextF : Ext s { F with queue := [], out := [] } := by
    have e1 : Ext s (propS m) := ext_of_eq s _ hf.2 rfl rfl rfl
    have e2 := voteS_ext c b' c.id (propS m) hs hfm.2
    have e3 := tcS_ext c b' v3 hf3.2
    have e4 : Ext (tcS c b' v3) { F with queue := [], out := [] } := ext_of_eq _ _ hft.2 rfl rfl rfl
    exact ((e1.trans e2).trans e3).trans e4
  obtain ⟨a1, a2⟩ := addVotes_lookup s6 b'.hash b' ([] ++ [(c.id, voteSig c b' (propS m))]) hs6lk
    (by rw [hs6hq, hb'view]; show B.view < _; rw [hc.bview]; omega)
  refine ⟨sgq, signBytes c (blkMsg b'.hash) (propS m), b', hb'hash, rfl, hb'view, rfl, ?_, hqlen, ?_, ?_, ?_, ?_, ?_, ?_⟩
  · show verify (fun b => (step k c s (.vote id (some sg1) hash false)).1.truth.lookup b) _ _ _ = true
    rw [hstep]
    exact verify_mono _ _ _ _ _ (fun b a hb' => hextF.truth b a hb') hverq
  · show SyncL c (w + 1) (N + 3) b' B _ (step k c s (.vote id (some sg1) hash false)).1
    rw [hstep]
    refine ⟨⟨?_, ?_, rfl, hFwvc, ?_, t2, hb'hash, hb'view, ?_, ?_, ?_, ?_, ?_, ?_, ?_⟩, ?_, ?_, ?_, by simp, ?_⟩
    · show (tcS c b' v3).view = _; rw [p1, show v3.view = (propS m).view from w1]; exact hmview
    · show (tcS c b' v3).lastVoted = _; rw [p4, show v3.lastVoted = b'.view from w11]; exact hb'view
    · show (tcS c b' v3).waitingProp = _; rw [p10, show v3.waitingProp = (propS m).waitingProp from w9]; exact hc.wprop
    · show F.chain.blocks.lookup b'.hash = _; rw [hFblocks]; simp
    · show F.chain.blocks.lookup b'.qc.hash = _; exact hle _ _ hc.hasB
    · rw [hc.bview]; omega
    · show s6.highQC.view < _; rw [hs6hq]; show B.view < _; rw [hc.bview]; omega
    · show (tcS c b' v3).lock.view < _; omega
    · intro u hu
      refine ⟨?_, ?_⟩
      · show F.chain.blocks.lookup (pname u) = none
        rw [hFblocks, List.lookup_cons]
        have : (pname u == b'.hash) = false := by
          rw [beq_eq_false_iff_ne, hb'hash]; intro e; have := pname_inj e; omega
        rw [this]; exact (hc.names u (by omega)).1
      · show (cleanVotes s6 _).lookup (pname u) = none
        rw [hs6vl]
        exact a2 (pname u) (by rw [hb'hash]; intro e; have := pname_inj e; omega) (by rw [hs6votes]; exact hsCvn u (by omega))
    · show 2 * F.chain.blocks.length + (w + 1) ≤ N + 3
      rw [hFblocks]; have := hc.small; simp only [List.length_cons]; omega
    · show (tcS c b' v3).lastProposed = _; rw [p5, show v3.lastProposed = (propS m).lastProposed from w3]; exact hmview
    · show (cleanVotes s6 _).lookup b'.hash = _
      rw [hs6vl]; exact a1
    · intro x hx
      simp only [List.mem_singleton] at hx
      subst hx
      refine ⟨hid, Or.inl ⟨hs, _, rfl, ?_⟩⟩
      show s6.truth.lookup _ = _
      rw [hs6truth]; exact hl3
    · show B.view ≤ s6.highQC.view; rw [hs6hq]; exact Nat.le_refl _
  · show (step k c s (.vote id (some sg1) hash false)).1.highQC = _
    rw [hstep]; exact hs6hq
  · show FreshS (step k c s (.vote id (some sg1) hash false)).1
    rw [hstep]; exact hft
  · show Ext s (step k c s (.vote id (some sg1) hash false)).1
    rw [hstep]; exact hextF
  · intro C
    show route C c.id (step k c s (.vote id (some sg1) hash false)).2 = _
    rw [hstep]
    show route C c.id (F.out ++ qq.map Ev.toOut) = _
    rw [route_append, hFout, route_silent C c.id (qq.map Ev.toOut) (by
      intro o ho
      obtain ⟨e, he, rfl⟩ := List.mem_map.mp ho
      exact toOut_silent e (hquiet e he))]
    simp [route]
  · intro Z hZ
    show (_ → WalkZ Z (step k c s (.vote id (some sg1) hash false)).1) ∧ (_ → _ → _ →
      (step k c s (.vote id (some sg1) hash false)).1.committed = Z ∧
      Out.commit Z ∈ (step k c s (.vote id (some sg1) hash false)).2 ∧ Out.exec Z ∈ (step k c s (.vote id (some sg1) hash false)).2)
    rw [hstep]
    obtain ⟨z1, z2⟩ := t7 Z hZ.walk hZ.below
    refine ⟨?_, ?_⟩
    · intro hwz
      obtain ⟨y1, y2⟩ := z1 hwz
      refine ⟨?_, y2⟩
      show cmWalk (F.chain.blocks.length + 2) F.chain.blocks (tcS c b' v3).committed.view Z = true
      rw [hFblocks]
      simp only [List.length_cons]; exact y1
    · intro lk1 lk2 hZs
      obtain ⟨y1, y2, y3⟩ := z2 (by show B.hash ≠ ""; rw [hc.bhash]; exact pname_ne_empty _)
        (by rw [lk1.qch]; exact lk1.ne)
        (by rw [lk2.qch]; exact lk2.ne) lk1.parent lk1.view (by rw [lk2.qch]; exact hZs) lk2.parent lk2.view
      refine ⟨y1, ?_, ?_⟩
      · exact List.mem_append_right _ (List.mem_map.mpr ⟨_, List.mem_append_right _ y2, rfl⟩)
      · exact List.mem_append_right _ (List.mem_map.mpr ⟨_, List.mem_append_right _ y3, rfl⟩)




/-! ## the system: votes round and proposal round, fixed leader -/

/-- the fields `SyncR` / `SyncL` / `WalkZ` read -/
@[reducible] def SProj (s : RState) :=
  (s.view, s.lastVoted, s.queue, s.waitingVC, s.waitingProp, s.chain, s.highQC, s.lock, s.votes, s.lastProposed,
   s.truth, s.committed)

theorem syncR_proj {w N : Nat} {B P : Block} {s s' : RState} (hp : SProj s' = SProj s) (h : SyncR w N B P s) :
    SyncR w N B P s' := by
  simp only [SProj, Prod.mk.injEq] at hp
  obtain ⟨p1, p2, p3, p4, p5, p6, p7, p8, p9, p10, p11, p12⟩ := hp
  exact ⟨p1 ▸ h.view, p2 ▸ h.lastVoted, p3 ▸ h.queue, p4 ▸ h.wvc, p5 ▸ h.wprop, p6 ▸ h.fetch, h.bhash, h.bview, p6 ▸ h.hasB,
    p6 ▸ h.hasP, h.pview, p7 ▸ h.hq, p8 ▸ h.lock, fun u hu => ⟨p6 ▸ (h.names u hu).1, p9 ▸ (h.names u hu).2⟩, p6 ▸ h.small⟩

theorem syncL_proj {c : RCfg} {w N : Nat} {B P : Block} {vs : List (Nat × Sig)} {s s' : RState} (hp : SProj s' = SProj s)
    (h : SyncL c w N B P vs s) : SyncL c w N B P vs s' := by
  have hc := syncR_proj hp h.core
  simp only [SProj, Prod.mk.injEq] at hp
  obtain ⟨p1, p2, p3, p4, p5, p6, p7, p8, p9, p10, p11, p12⟩ := hp
  exact ⟨hc, p10 ▸ h.lastProposed, p9 ▸ h.votes, p11 ▸ h.valid, h.nodup, p7 ▸ h.hqge⟩

theorem walkZ_proj {Z : Block} {s s' : RState} (hp : SProj s' = SProj s) (h : WalkZ Z s) : WalkZ Z s' := by
  simp only [SProj, Prod.mk.injEq] at hp
  obtain ⟨p1, p2, p3, p4, p5, p6, p7, p8, p9, p10, p11, p12⟩ := hp
  exact ⟨p6 ▸ p12 ▸ h.walk, p12 ▸ h.below⟩

/-- the vote of replica `j` (signature bytes `bt j`) for the block named `h`, on its way to the leader -/
def voteMsg (C : SysCfg) (L : Nat) (h : Hash) (bt : Nat → Nat) (j : Nat) : Nat × Ev :=
  (L, Ev.vote j (some (.multi C.scheme [⟨j, bt j⟩])) h false)

/-- the proposal `B'` of leader `L` on its way to replica `j` -/
def propMsg (L : Nat) (B' : Block) (j : Nat) : Nat × Ev := (j, Ev.propose L B' none)

/-- **phase A at `(w, B)`** (the states): every replica is synchronised at view `w` on block `B` (`SyncR`); the
leader `L` proposed `B` and holds its own vote; the signature `bt j` of every other replica `j` over `B` is
in the global table -/
structure PhaseA (C : SysCfg) (L w N : Nat) (B P : Block) (bt : Nat → Nat) (σ : SysState) : Prop where
  fresh : FreshL σ.truth σ.nextBytes
  keys : σ.reps.map (·.1) = C.honest
  others : ∀ j ∈ C.honest, j ≠ L → ∃ s, σ.reps.lookup j = some s ∧ SyncR w N B P s
  leader : ∃ sL sgL, σ.reps.lookup L = some sL ∧
    SyncL (C.rcfg L) w N B P [(L, sgL)] { sL with truth := σ.truth, nextBytes := σ.nextBytes }
  bytes : ∀ j ∈ C.honest, j ≠ L → σ.truth.lookup (bt j) = some ⟨j, blkMsg B.hash⟩

/-- **phase B at `(w + 1, B')`** (the states): the leader has certified `B`, is synchronised at view `w + 1` on
its proposal `B'` (parent `B`, certificate `QC(B)`, which verifies against the global table) and holds its
own vote for it; everybody else is still synchronised at `(w, B)` -/
structure PhaseB (C : SysCfg) (L w N : Nat) (B' B P : Block) (σ : SysState) : Prop where
  fresh : FreshL σ.truth σ.nextBytes
  keys : σ.reps.map (·.1) = C.honest
  others : ∀ j ∈ C.honest, j ≠ L → ∃ s, σ.reps.lookup j = some s ∧ SyncR w N B P s
  leader : ∃ sL sgL, σ.reps.lookup L = some sL ∧
    SyncL (C.rcfg L) (w + 1) (N + 3) B' B [(L, sgL)] { sL with truth := σ.truth, nextBytes := σ.nextBytes }
  blk : B'.hash = pname (w + 1) ∧ B'.parent = B.hash ∧ B'.view = w + 1
  qc : ∃ sgq, B'.qc = ⟨some sgq, B.view, B.hash⟩ ∧
    verify (fun b => σ.truth.lookup b) (C.rcfg L).cfg sgq (blkMsg B.hash) = true ∧ (C.rcfg L).cfg.quorum ≤ sgq.len

/-- what a view of the chain does to a replica's committer, relative to its state `s0` before: the store
grows; a walk to an uncommitted block `Z` stays possible (while `w ≤ Z.view + 1`); and if `B ← P ← Z` are
consecutive certified views, `Z` is committed -/
structure CommitStep (w : Nat) (B P : Block) (s0 s : RState) : Prop where
  store : StoreLe s0.chain.blocks s.chain.blocks
  walk : ∀ Z : Block, WalkZ Z s0 → w ≤ Z.view + 1 → WalkZ Z s
  commit : ∀ Z : Block, WalkZ Z s0 → Link B P → Link P Z → s0.chain.blocks.lookup Z.hash = some Z → s.committed = Z

/-- the votes round after the votes of `done` have reached the leader -/
structure ABInv (C : SysCfg) (L w N : Nat) (B P : Block) (σ0 : SysState) (sL0 : RState) (done : List Nat)
    (x : SysState × Msgs) : Prop where
  fresh : FreshL x.1.truth x.1.nextBytes
  keys : x.1.reps.map (·.1) = C.honest
  table : ∀ b a, σ0.truth.lookup b = some a → x.1.truth.lookup b = some a
  others : ∀ j, j ≠ L → x.1.reps.lookup j = σ0.reps.lookup j
  coll : done.length + 1 < (C.rcfg L).cfg.quorum → x.2 = [] ∧ ∃ sL vs, x.1.reps.lookup L = some sL ∧
    SyncL (C.rcfg L) w N B P vs { sL with truth := x.1.truth, nextBytes := x.1.nextBytes } ∧
    vs.map (·.1) = L :: done ∧ sL.chain = sL0.chain ∧ sL.committed = sL0.committed
  moved : (C.rcfg L).cfg.quorum ≤ done.length + 1 → ∃ (B' : Block) (sL : RState) (sgL : Sig) (sgq : Sig),
    x.1.reps.lookup L = some sL ∧
    SyncL (C.rcfg L) (w + 1) (N + 3) B' B [(L, sgL)] { sL with truth := x.1.truth, nextBytes := x.1.nextBytes } ∧
    B'.hash = pname (w + 1) ∧ B'.parent = B.hash ∧ B'.view = w + 1 ∧ B'.qc = ⟨some sgq, B.view, B.hash⟩ ∧
    verify (fun b => x.1.truth.lookup b) (C.rcfg L).cfg sgq (blkMsg B.hash) = true ∧ (C.rcfg L).cfg.quorum ≤ sgq.len ∧
    x.2 = (othersOf C L).map (propMsg L B') ∧ CommitStep w B P sL0 sL

theorem rcfg_id (C : SysCfg) (j : Nat) : (C.rcfg j).id = j := rfl

/-- **one vote reaches the leader** -/
theorem ab_step (k : Keys) (C : SysCfg) (L w N : Nat) (hC : HappyCfg C L) (B P : Block) (bt : Nat → Nat)
    (σ0 : SysState) (sL0 : RState) (hN : N + 12 ≤ 99999)
    (hbt : ∀ j ∈ C.honest, j ≠ L → σ0.truth.lookup (bt j) = some ⟨j, blkMsg B.hash⟩)
    (done : List Nat) (σ : SysState) (acc : Msgs) (j : Nat)
    (hinv : ABInv C L w N B P σ0 sL0 done (σ, acc)) (hj : j ∈ C.honest) (hjL : j ≠ L) (hnew : j ∉ done) :
    ABInv C L w N B P σ0 sL0 (done ++ [j]) (deliverAll k C (σ, acc) [voteMsg C L B.hash bt j]) := by
  have hq := hC.quorum L
  have hLmem := hC.leader
  have hbj : σ.truth.lookup (bt j) = some ⟨j, blkMsg B.hash⟩ := hinv.table _ _ (hbt j hj hjL)
  have hhasj : (C.rcfg L).cfg.has j = true := hC.has j L hj
  have hsch : (C.rcfg L).scheme = C.scheme := rfl
  by_cases hlt : done.length + 1 < (C.rcfg L).cfg.quorum
  · obtain ⟨hacc, sL, vs, hl, hS, hvs, hch, hcm⟩ := hinv.coll hlt
    obtain ⟨σ', hd, r1, r2, r3⟩ := deliver_effect k C σ acc L (Ev.vote j (some (.multi C.scheme [⟨j, bt j⟩])) B.hash false) sL hl
    have hvlen : vs.length = done.length + 1 := by
      have := congrArg List.length hvs; simpa using this
    have hnewv : ∀ v ∈ vs, v.1 ≠ j := by
      intro v hv e
      have : v.1 ∈ vs.map (·.1) := List.mem_map_of_mem hv
      rw [hvs, e] at this
      simp only [List.mem_cons] at this
      rcases this with h | h
      · exact hjL h
      · exact hnew h
    show ABInv C L w N B P σ0 sL0 (done ++ [j]) (deliverAll k C (σ, acc) [(L, _)])
    rw [hd]
    by_cases hlt2 : done.length + 2 < (C.rcfg L).cfg.quorum
    · -- the vote is kept
      obtain ⟨V, hstep, hS'⟩ := ld_vote_add k (C.rcfg L) w N j j (bt j) B P vs
        { sL with truth := σ.truth, nextBytes := σ.nextBytes } hC.scheme hS hhasj hbj hnewv (by rw [hvlen]; exact hlt2)
      rw [hsch] at hstep
      rw [hstep] at r1 r2 r3 ⊢
      dsimp only at r1 r2 r3 ⊢
      have hacc' : acc = [] := hacc
      refine ⟨by rw [r2, r3]; exact hinv.fresh, by rw [r1, keys_setKV _ _ _ (by rw [hinv.keys]; exact hLmem)]; exact hinv.keys,
        by rw [r2]; exact hinv.table, ?_, ?_, ?_⟩
      · intro i hi
        rw [r1, lookup_setKV_other _ _ _ _ hi]; exact hinv.others i hi
      · intro _
        refine ⟨by simp [route, hacc'], ({ sL with truth := σ.truth, nextBytes := σ.nextBytes, votes := V, out := [] } : RState),
          vs ++ [(j, Sig.multi C.scheme [⟨j, bt j⟩])],
          by rw [r1]; exact lookup_setKV_same _ _ _, ?_, ?_, hch, hcm⟩
        · rw [r2, r3]; exact syncL_proj rfl hS'
        · simp [hvs]
      · intro hge
        simp only [List.length_append, List.length_singleton] at hge
        omega
    · -- the quorum
      obtain ⟨sgq, bytes', B', q1, q2, q3, q4, q5, q6, q7, q8, q9, q10, q11, q12⟩ := ld_vote_quorum k (C.rcfg L) w N j j (bt j) B P vs
        { sL with truth := σ.truth, nextBytes := σ.nextBytes } hC.scheme hC.agg hC.rules (hC.has L L hLmem)
        (fun v => hC.lead L v) hq.1 hS hinv.fresh hN hhasj hbj hnewv (by rw [hvlen]; omega)
      rw [hsch] at q5 q7 q8 q9 q10 q11 q12
      refine ⟨by rw [r2, r3]; exact q9, by rw [r1, keys_setKV _ _ _ (by rw [hinv.keys]; exact hLmem)]; exact hinv.keys,
        ?_, ?_, ?_, ?_⟩
      · intro b a hb
        rw [r2]; exact q10.truth b a (hinv.table b a hb)
      · intro i hi
        rw [r1, lookup_setKV_other _ _ _ _ hi]; exact hinv.others i hi
      · intro hlt'
        simp only [List.length_append, List.length_singleton] at hlt'
        omega
      · intro _
        refine ⟨B', _, Sig.multi C.scheme [⟨L, bytes'⟩], sgq, by rw [r1]; exact lookup_setKV_same _ _ _, ?_, q1, q2, q3, q4, by rw [r2]; exact q5, q6, ?_, ?_⟩
        · rw [r2, r3]; exact syncL_proj rfl q7
        · have hacc' : acc = [] := hacc
          rw [hacc']
          have := q11 C
          rw [rcfg_id] at this
          rw [List.nil_append, this]; rfl
        · have hZ' : ∀ Z, WalkZ Z sL0 → WalkZ Z { sL with truth := σ.truth, nextBytes := σ.nextBytes } := fun Z hZ =>
            ⟨by show cmWalk (sL.chain.blocks.length + 2) sL.chain.blocks sL.committed.view Z = true
                rw [hch, hcm]; exact hZ.walk,
             by show sL.committed.view < _; rw [hcm]; exact hZ.below⟩
          refine ⟨?_, fun Z hZ => (q12 Z (hZ' Z hZ)).1, fun Z hZ l1 l2 l3 =>
            ((q12 Z (hZ' Z hZ)).2 l1 l2 (by show sL.chain.blocks.lookup _ = _; rw [hch]; exact l3)).1⟩
          intro h b hb
          exact q10.store h b (by show sL.chain.blocks.lookup h = some b; rw [hch]; exact hb)
  · -- the leader has moved on: the vote is late
    obtain ⟨B', sL, sgL, sgq, hl, hS, b1, b2, b3, b4, b5, b6, hacc, hcs⟩ := hinv.moved (by omega)
    obtain ⟨σ', hd, r1, r2, r3⟩ := deliver_effect k C σ acc L (Ev.vote j (some (.multi C.scheme [⟨j, bt j⟩])) B.hash false) sL hl
    have hlate := vote_late_noop k (C.rcfg L) { sL with truth := σ.truth, nextBytes := σ.nextBytes } j j (bt j) B.hash B
      hS.core.queue (by have := hS.core.hasP; rw [b4] at this; exact this) hS.hqge
    rw [hsch] at hlate
    show ABInv C L w N B P σ0 sL0 (done ++ [j]) (deliverAll k C (σ, acc) [(L, _)])
    rw [hd, hlate]
    rw [hlate] at r1 r2 r3
    dsimp only at r1 r2 r3 ⊢
    have hacc' : acc = [] ∨ True := Or.inr trivial
    refine ⟨by rw [r2, r3]; exact hinv.fresh, by rw [r1, keys_setKV _ _ _ (by rw [hinv.keys]; exact hLmem)]; exact hinv.keys,
      by rw [r2]; exact hinv.table, ?_, ?_, ?_⟩
    · intro i hi
      rw [r1, lookup_setKV_other _ _ _ _ hi]; exact hinv.others i hi
    · intro hlt'
      simp only [List.length_append, List.length_singleton] at hlt'
      omega
    · intro _
      refine ⟨B', ({ sL with truth := σ.truth, nextBytes := σ.nextBytes, out := [] } : RState), sgL, sgq,
        by rw [r1]; exact lookup_setKV_same _ _ _, ?_, b1, b2, b3, b4, by rw [r2]; exact b5, b6,
        by simp [route]; exact hacc, ?_⟩
      · rw [r2, r3]; refine syncL_proj ?_ hS; rfl
      · exact ⟨hcs.store, fun Z hZ h => ⟨(hcs.walk Z hZ h).walk, (hcs.walk Z hZ h).below⟩, hcs.commit⟩



/-- **the votes of `ord` reach the leader one after the other** (any order) -/
theorem ab_deliver (k : Keys) (C : SysCfg) (L w N : Nat) (hC : HappyCfg C L) (B P : Block) (bt : Nat → Nat)
    (σ0 : SysState) (sL0 : RState) (hN : N + 12 ≤ 99999)
    (hbt : ∀ j ∈ C.honest, j ≠ L → σ0.truth.lookup (bt j) = some ⟨j, blkMsg B.hash⟩) :
    ∀ (ord done : List Nat) (x : SysState × Msgs), ABInv C L w N B P σ0 sL0 done x → ord.Nodup →
      (∀ j ∈ ord, j ∈ C.honest ∧ j ≠ L ∧ j ∉ done) →
      ABInv C L w N B P σ0 sL0 (done ++ ord) (deliverAll k C x (ord.map (voteMsg C L B.hash bt))) := by
  intro ord
  induction ord with
  | nil => intro done x h _ _; rw [List.append_nil]; exact h
  | cons j rest ih =>
    intro done x h hnd hall
    obtain ⟨σ, acc⟩ := x
    obtain ⟨h1, h2, h3⟩ := hall j (by simp)
    have hstep := ab_step k C L w N hC B P bt σ0 sL0 hN hbt done σ acc j h h1 h2 h3
    simp only [List.map_cons]
    rw [show (voteMsg C L B.hash bt j :: rest.map (voteMsg C L B.hash bt)) =
      [voteMsg C L B.hash bt j] ++ rest.map (voteMsg C L B.hash bt) from rfl, deliverAll_append]
    have := ih (done ++ [j]) _ hstep (List.nodup_cons.mp hnd).2 (by
      intro i hi
      obtain ⟨q1, q2, q3⟩ := hall i (by simp [hi])
      refine ⟨q1, q2, ?_⟩
      simp only [List.mem_append, List.mem_singleton, not_or]
      exact ⟨q3, fun e => (List.nodup_cons.mp hnd).1 (e ▸ hi)⟩)
    rw [List.append_assoc] at this
    exact this

/-- **Round A ⟶ B**: from phase A at `(w, B)`, deliver the votes of the replicas `ord` — pairwise different
replicas other than the leader, enough of them to complete a quorum with the leader's own vote — in ANY
order.  Then the leader has certified `B`, entered view `w + 1` and proposed `B'` (phase B), the proposals to
all other replicas are exactly the messages in flight, nobody else has changed, and the leader's committer
has made its step (`CommitStep`). -/
theorem chain_round_AB (k : Keys) (C : SysCfg) (L w N : Nat) (hC : HappyCfg C L) (B P : Block) (bt : Nat → Nat)
    (σ : SysState) (hN : N + 12 ≤ 99999) (hA : PhaseA C L w N B P bt σ)
    (ord : List Nat) (hnd : ord.Nodup) (hord : ∀ j ∈ ord, j ∈ C.honest ∧ j ≠ L)
    (hlen : (C.rcfg L).cfg.quorum ≤ ord.length + 1) :
    ∃ B' : Block,
      PhaseB C L w N B' B P (deliverAll k C (σ, []) (ord.map (voteMsg C L B.hash bt))).1 ∧
      (deliverAll k C (σ, []) (ord.map (voteMsg C L B.hash bt))).2 = (othersOf C L).map (propMsg L B') ∧
      (∀ j, j ≠ L → (deliverAll k C (σ, []) (ord.map (voteMsg C L B.hash bt))).1.reps.lookup j = σ.reps.lookup j) ∧
      (∀ b a, σ.truth.lookup b = some a →
        (deliverAll k C (σ, []) (ord.map (voteMsg C L B.hash bt))).1.truth.lookup b = some a) ∧
      ∃ sL0 sL, σ.reps.lookup L = some sL0 ∧
        (deliverAll k C (σ, []) (ord.map (voteMsg C L B.hash bt))).1.reps.lookup L = some sL ∧
        CommitStep w B P sL0 sL := by
  obtain ⟨sL0, sgL, hl0, hS0⟩ := hA.leader
  have hinit : ABInv C L w N B P σ sL0 [] (σ, []) := by
    refine ⟨hA.fresh, hA.keys, fun _ _ h => h, fun _ _ => rfl, ?_, ?_⟩
    · intro _
      exact ⟨rfl, sL0, [(L, sgL)], hl0, hS0, rfl, rfl, rfl⟩
    · intro h
      have := (hC.quorum L).1
      simp at h; omega
  have hfin := ab_deliver k C L w N hC B P bt σ sL0 hN hA.bytes ord [] (σ, []) hinit hnd
    (fun j hj => ⟨(hord j hj).1, (hord j hj).2, by simp⟩)
  rw [List.nil_append] at hfin
  obtain ⟨B', sL, sgL', sgq, m1, m2, m3, m4, m5, m6, m7, m8, m9, m10⟩ := hfin.moved hlen
  refine ⟨B', ⟨hfin.fresh, hfin.keys, ?_, ⟨sL, sgL', m1, m2⟩, ⟨m3, m4, m5⟩, ⟨sgq, m6, m7, m8⟩⟩, m9, hfin.others, hfin.table,
    sL0, sL, hl0, m1, m10⟩
  intro j hj hjL
  rw [hfin.others j hjL]
  exact hA.others j hj hjL



/-- what replica `j` sends to the leader after the proposal `B'`: its new view and its vote -/
def ackMsgs (C : SysCfg) (L : Nat) (B' : Block) (bt : Nat → Nat) (j : Nat) : Msgs :=
  [(L, Ev.newview j { qc := some B'.qc }), voteMsg C L B'.hash bt j]

/-- the proposal round after the proposal has reached the replicas `done` -/
structure BAInv (C : SysCfg) (L w N : Nat) (B' B P : Block) (σ0 : SysState) (bt' : Nat → Nat) (done : List Nat)
    (x : SysState × Msgs) : Prop where
  fresh : FreshL x.1.truth x.1.nextBytes
  keys : x.1.reps.map (·.1) = C.honest
  table : ∀ b a, σ0.truth.lookup b = some a → x.1.truth.lookup b = some a
  leader : x.1.reps.lookup L = σ0.reps.lookup L
  undone : ∀ j, j ≠ L → j ∉ done → x.1.reps.lookup j = σ0.reps.lookup j
  did : ∀ j ∈ done, ∃ s0 s, σ0.reps.lookup j = some s0 ∧ x.1.reps.lookup j = some s ∧ SyncR (w + 1) (N + 3) B' B s ∧
    x.1.truth.lookup (bt' j) = some ⟨j, blkMsg B'.hash⟩ ∧ CommitStep w B P s0 s
  pool : x.2 = done.flatMap (ackMsgs C L B' bt')

/-- **the proposal reaches one more replica** -/
theorem ba_step (k : Keys) (C : SysCfg) (L w N : Nat) (hC : HappyCfg C L) (B' B P : Block) (σ0 : SysState)
    (hN : N + 12 ≤ 99999) (hB : PhaseB C L w N B' B P σ0)
    (bt' : Nat → Nat) (done : List Nat) (σ : SysState) (acc : Msgs) (j : Nat)
    (hinv : BAInv C L w N B' B P σ0 bt' done (σ, acc)) (hj : j ∈ C.honest) (hjL : j ≠ L) (hnew : j ∉ done) :
    ∃ bt'', BAInv C L w N B' B P σ0 bt'' (done ++ [j]) (deliverAll k C (σ, acc) [propMsg L B' j]) := by
  obtain ⟨s0, hl0, hS0⟩ := hB.others j hj hjL
  have hl : σ.reps.lookup j = some s0 := by rw [hinv.undone j hjL hnew]; exact hl0
  obtain ⟨sgq, g1, g2, g3⟩ := hB.qc
  obtain ⟨σ', hd, r1, r2, r3⟩ := deliver_effect k C σ acc j (Ev.propose L B' none) s0 hl
  obtain ⟨n1, n2, n3, n4, n5, n6, ⟨bytes, n7, n8⟩, n9⟩ := nl_step k (C.rcfg j) L w N B P B' sgq
    { s0 with truth := σ.truth, nextBytes := σ.nextBytes } hC.scheme hC.agg hC.rules (fun v => hC.lead j v) hjL
    (syncR_with_table hS0 _ _) hinv.fresh hN hB.blk.1 hB.blk.2.1 hB.blk.2.2 g1
    (verify_mono _ _ _ _ _ (fun b a hb => hinv.table b a hb) g2) g3
  have hjmem : j ∈ σ.reps.map (·.1) := by rw [hinv.keys]; exact hj
  show ∃ bt'', BAInv C L w N B' B P σ0 bt'' (done ++ [j]) (deliverAll k C (σ, acc) [(j, Ev.propose L B' none)])
  rw [hd]
  refine ⟨fun i => if i = j then bytes else bt' i, by rw [r2, r3]; exact n2, by rw [r1, keys_setKV _ _ _ hjmem]; exact hinv.keys,
    ?_, ?_, ?_, ?_, ?_⟩
  · intro b a hb
    rw [r2]; exact n3.truth b a (hinv.table b a hb)
  · rw [r1, lookup_setKV_other _ _ _ _ (fun e => hjL e.symm)]; exact hinv.leader
  · intro i hi hin
    simp only [List.mem_append, List.mem_singleton, not_or] at hin
    rw [r1, lookup_setKV_other _ _ _ _ hin.2]; exact hinv.undone i hi hin.1
  · intro i hi
    simp only [List.mem_append, List.mem_singleton] at hi
    by_cases hij : i = j
    · subst hij
      refine ⟨s0, _, hl0, by rw [r1]; exact lookup_setKV_same _ _ _, n1, ?_, ?_⟩
      · rw [r2, if_pos rfl]; exact n7
      · exact ⟨fun h b hb => n3.store h b hb, fun Z hZ => (n9 Z (walkZ_with_table hZ _ _)).1,
          fun Z hZ l1 l2 l3 => ((n9 Z (walkZ_with_table hZ _ _)).2 l1 l2 l3).1⟩
    · rcases hi with hi | hi
      · obtain ⟨t0, t, d1, d2, d3, d4, d5⟩ := hinv.did i hi
        refine ⟨t0, t, d1, by rw [r1, lookup_setKV_other _ _ _ _ hij]; exact d2, d3, ?_, d5⟩
        rw [r2, if_neg hij]; exact n3.truth _ _ d4
      · exact absurd hi hij
  · show acc ++ route C j _ = _
    have := n8 C
    rw [rcfg_id] at this
    have hpool : acc = done.flatMap (ackMsgs C L B' bt') := hinv.pool
    rw [this, hpool, List.flatMap_append]
    congr 1
    · apply flatMap_congr'
      intro i hi
      have hij : i ≠ j := fun e => hnew (e ▸ hi)
      simp [ackMsgs, voteMsg, hij]
    · simp [ackMsgs, voteMsg]; rfl

theorem ba_deliver (k : Keys) (C : SysCfg) (L w N : Nat) (hC : HappyCfg C L) (B' B P : Block) (σ0 : SysState)
    (hN : N + 12 ≤ 99999) (hB : PhaseB C L w N B' B P σ0) :
    ∀ (ord done : List Nat) (bt' : Nat → Nat) (x : SysState × Msgs), BAInv C L w N B' B P σ0 bt' done x → ord.Nodup →
      (∀ j ∈ ord, j ∈ C.honest ∧ j ≠ L ∧ j ∉ done) →
      ∃ bt'', BAInv C L w N B' B P σ0 bt'' (done ++ ord) (deliverAll k C x (ord.map (propMsg L B'))) := by
  intro ord
  induction ord with
  | nil => intro done bt' x h _ _; exact ⟨bt', by rw [List.append_nil]; exact h⟩
  | cons j rest ih =>
    intro done bt' x h hnd hall
    obtain ⟨σ, acc⟩ := x
    obtain ⟨h1, h2, h3⟩ := hall j (by simp)
    obtain ⟨bt1, hstep⟩ := ba_step k C L w N hC B' B P σ0 hN hB bt' done σ acc j h h1 h2 h3
    simp only [List.map_cons]
    rw [show (propMsg L B' j :: rest.map (propMsg L B')) = [propMsg L B' j] ++ rest.map (propMsg L B') from rfl,
      deliverAll_append]
    obtain ⟨bt2, this⟩ := ih (done ++ [j]) bt1 _ hstep (List.nodup_cons.mp hnd).2 (by
      intro i hi
      obtain ⟨q1, q2, q3⟩ := hall i (by simp [hi])
      refine ⟨q1, q2, ?_⟩
      simp only [List.mem_append, List.mem_singleton, not_or]
      exact ⟨q3, fun e => (List.nodup_cons.mp hnd).1 (e ▸ hi)⟩)
    rw [List.append_assoc] at this
    exact ⟨bt2, this⟩

/-- **Round B ⟶ A**: from phase B at `(w + 1, B')`, deliver the proposal to every other replica, in ANY order
`ord`.  Then every replica is synchronised at `(w + 1, B')` (phase A), the messages in flight are exactly the
new-view messages and the votes for `B'` (signature bytes `bt'`), the leader has not changed, and every other
replica's committer has made its step. -/
theorem chain_round_BA (k : Keys) (C : SysCfg) (L w N : Nat) (hC : HappyCfg C L) (B' B P : Block) (σ : SysState)
    (hN : N + 12 ≤ 99999) (hB : PhaseB C L w N B' B P σ)
    (ord : List Nat) (hnd : ord.Nodup) (hord : ∀ j ∈ ord, j ∈ C.honest ∧ j ≠ L)
    (hfull : ∀ j ∈ C.honest, j ≠ L → j ∈ ord) :
    ∃ bt' : Nat → Nat,
      PhaseA C L (w + 1) (N + 3) B' B bt' (deliverAll k C (σ, []) (ord.map (propMsg L B'))).1 ∧
      (deliverAll k C (σ, []) (ord.map (propMsg L B'))).2 = ord.flatMap (ackMsgs C L B' bt') ∧
      (deliverAll k C (σ, []) (ord.map (propMsg L B'))).1.reps.lookup L = σ.reps.lookup L ∧
      (∀ b a, σ.truth.lookup b = some a →
        (deliverAll k C (σ, []) (ord.map (propMsg L B'))).1.truth.lookup b = some a) ∧
      ∀ j ∈ C.honest, j ≠ L → ∃ s0 s, σ.reps.lookup j = some s0 ∧
        (deliverAll k C (σ, []) (ord.map (propMsg L B'))).1.reps.lookup j = some s ∧ CommitStep w B P s0 s := by
  have hinit : BAInv C L w N B' B P σ (fun _ => 0) [] (σ, []) :=
    ⟨hB.fresh, hB.keys, fun _ _ h => h, rfl, fun _ _ _ => rfl, by simp, rfl⟩
  obtain ⟨bt', hfin⟩ := ba_deliver k C L w N hC B' B P σ hN hB ord [] (fun _ => 0) (σ, []) hinit hnd
    (fun j hj => ⟨(hord j hj).1, (hord j hj).2, by simp⟩)
  rw [List.nil_append] at hfin
  obtain ⟨sL, sgL, hlL, hSL⟩ := hB.leader
  refine ⟨bt', ⟨hfin.fresh, hfin.keys, ?_, ⟨sL, sgL, by rw [hfin.leader]; exact hlL, ?_⟩, ?_⟩, hfin.pool, hfin.leader,
    hfin.table, ?_⟩
  · intro j hj hjL
    obtain ⟨s0, s, d1, d2, d3, _, _⟩ := hfin.did j (hfull j hj hjL)
    exact ⟨s, d2, d3⟩
  · have := syncL_with_table hSL (deliverAll k C (σ, []) (ord.map (propMsg L B'))).1.truth
      (deliverAll k C (σ, []) (ord.map (propMsg L B'))).1.nextBytes (fun b a hb => hfin.table b a hb)
    exact this
  · intro j hj hjL
    obtain ⟨s0, s, d1, d2, d3, d4, _⟩ := hfin.did j (hfull j hj hjL)
    exact d4
  · intro j hj hjL
    obtain ⟨s0, s, d1, d2, d3, d4, d5⟩ := hfin.did j (hfull j hj hjL)
    exact ⟨s0, s, d1, d2, d5⟩


/-! ## views of the chain: the messages are taken from the pool of messages in flight -/

/-- a vote sent by replica `j` -/
def fromVote (j : Nat) (m : Nat × Ev) : Bool :=
  match m.2 with
  | .vote i _ _ _ => i == j
  | _ => false

/-- a proposal addressed to replica `j` -/
def propTo (j : Nat) (m : Nat × Ev) : Bool :=
  m.1 == j && (match m.2 with | .propose _ _ _ => true | _ => false)

/-- the votes in flight of the senders `ord`, in that order -/
def votesIn (pool : Msgs) (ord : List Nat) : Msgs := ord.filterMap (fun j => pool.find? (fromVote j))
/-- the proposals in flight to the replicas `ord`, in that order -/
def propsIn (pool : Msgs) (ord : List Nat) : Msgs := ord.filterMap (fun j => pool.find? (propTo j))

/-- **one view of the chain**: the votes in flight of the senders `ordV` reach their addressee in that order;
then the proposals in flight (what the leader sent on completing the quorum) reach the replicas `ordP` in that order -/
def chainView (k : Keys) (C : SysCfg) (ordV ordP : List Nat) (x : SysState × Msgs) : SysState × Msgs :=
  deliverAll k C ((deliverAll k C (x.1, []) (votesIn x.2 ordV)).1, [])
    (propsIn (deliverAll k C (x.1, []) (votesIn x.2 ordV)).2 ordP)

/-- the votes for `h` (bytes `bt`) of all replicas but the leader are in flight -/
def VotesFly (C : SysCfg) (L : Nat) (h : Hash) (bt : Nat → Nat) (pool : Msgs) : Prop :=
  ∀ j ∈ C.honest, j ≠ L → pool.find? (fromVote j) = some (voteMsg C L h bt j)

theorem votesIn_eq (C : SysCfg) (L : Nat) (h : Hash) (bt : Nat → Nat) (pool : Msgs) (hp : VotesFly C L h bt pool)
    (ord : List Nat) (hord : ∀ j ∈ ord, j ∈ C.honest ∧ j ≠ L) : votesIn pool ord = ord.map (voteMsg C L h bt) := by
  unfold votesIn
  induction ord with
  | nil => rfl
  | cons j rest ih =>
    rw [List.filterMap_cons, hp j (hord j (by simp)).1 (hord j (by simp)).2]
    simp only [List.map_cons]
    rw [ih (fun i hi => hord i (by simp [hi]))]

theorem votesFly_acks (C : SysCfg) (L : Nat) (B' : Block) (bt : Nat → Nat) (ord : List Nat)
    (hfull : ∀ j ∈ C.honest, j ≠ L → j ∈ ord) : VotesFly C L B'.hash bt (ord.flatMap (ackMsgs C L B' bt)) := by
  intro j hj hjL
  have hmem := hfull j hj hjL
  clear hfull
  induction ord with
  | nil => simp at hmem
  | cons i rest ih =>
    rw [List.flatMap_cons]
    by_cases hij : i = j
    · subst hij
      simp [ackMsgs, voteMsg, fromVote]
    · have : j ∈ rest := by
        simp only [List.mem_cons] at hmem
        rcases hmem with h | h
        · exact absurd h.symm hij
        · exact h
      rw [List.find?_append]
      have hnone : (ackMsgs C L B' bt i).find? (fromVote j) = none := by
        simp [ackMsgs, voteMsg, fromVote, hij]
      rw [hnone]
      exact ih this

theorem propsIn_eq (C : SysCfg) (L : Nat) (B' : Block) (ord : List Nat) (hord : ∀ j ∈ ord, j ∈ C.honest ∧ j ≠ L) :
    propsIn ((othersOf C L).map (propMsg L B')) ord = ord.map (propMsg L B') := by
  have hfind : ∀ j, j ∈ othersOf C L → ∀ l : List Nat, j ∈ l → (l.map (propMsg L B')).find? (propTo j) = some (propMsg L B' j) := by
    intro j _ l
    induction l with
    | nil => intro h; simp at h
    | cons i rest ih =>
      intro h
      by_cases hij : i = j
      · subst hij; simp [propMsg, propTo]
      · have : j ∈ rest := by
          simp only [List.mem_cons] at h
          rcases h with h | h
          · exact absurd h.symm hij
          · exact h
        simp only [List.map_cons, List.find?_cons]
        have : propTo j (propMsg L B' i) = false := by simp [propMsg, propTo, hij]
        rw [this]
        exact ih ‹j ∈ rest›
  unfold propsIn
  induction ord with
  | nil => rfl
  | cons j rest ih =>
    have hj := hord j (by simp)
    have hmem : j ∈ othersOf C L := by
      unfold othersOf
      simp only [List.mem_filter, bne_iff_ne, ne_eq]
      exact ⟨hj.1, hj.2⟩
    rw [List.filterMap_cons, hfind j hmem _ hmem]
    simp only [List.map_cons]
    rw [ih (fun i hi => hord i (by simp [hi]))]

/-- an order of the replicas other than the leader: each exactly once -/
structure OthersOrder (C : SysCfg) (L : Nat) (ord : List Nat) : Prop where
  nodup : ord.Nodup
  mem : ∀ j ∈ ord, j ∈ C.honest ∧ j ≠ L
  full : ∀ j ∈ C.honest, j ≠ L → j ∈ ord

theorem OthersOrder.quorum {C : SysCfg} {L : Nat} {ord : List Nat} (h : OthersOrder C L ord) (hC : HappyCfg C L) :
    (C.rcfg L).cfg.quorum ≤ ord.length + 1 := by
  have h1 : C.honest.length ≤ (L :: ord).length := by
    apply nodup_length_le _ _ hC.nodup
    intro x hx
    by_cases hxl : x = L
    · simp [hxl]
    · exact List.mem_cons_of_mem _ (h.full x hx hxl)
  have := (hC.quorum L).2
  have := hC.all
  simp only [List.length_cons] at h1
  omega

/-- **One view of the chain** `A(w, B) ⟶ B(w + 1, B') ⟶ A(w + 1, B')`: in phase A at `(w, B)` with the votes in
flight, the votes are delivered in ANY order `ordV`, then the leader's proposals in ANY order `ordP`.
Afterwards the system is in phase A at `(w + 1, B')` for a block `B'` that links to `B`, the votes for `B'` are in
flight, and every replica's committer has made its step. -/
theorem chain_view (k : Keys) (C : SysCfg) (L w N : Nat) (hC : HappyCfg C L) (B P : Block) (bt : Nat → Nat)
    (x : SysState × Msgs) (hN : N + 12 ≤ 99999) (hA : PhaseA C L w N B P bt x.1) (hfly : VotesFly C L B.hash bt x.2)
    (ordV ordP : List Nat) (hV : OthersOrder C L ordV) (hP : OthersOrder C L ordP) :
    ∃ (B' : Block) (bt' : Nat → Nat),
      PhaseA C L (w + 1) (N + 3) B' B bt' (chainView k C ordV ordP x).1 ∧
      VotesFly C L B'.hash bt' (chainView k C ordV ordP x).2 ∧ Link B' B ∧
      ∀ j ∈ C.honest, ∃ s0 s, x.1.reps.lookup j = some s0 ∧ (chainView k C ordV ordP x).1.reps.lookup j = some s ∧
        CommitStep w B P s0 s := by
  obtain ⟨B', a1, a2, a3, a4, sL0, sL, a5, a6, a7⟩ := chain_round_AB k C L w N hC B P bt x.1 hN hA ordV hV.nodup hV.mem
    (hV.quorum hC)
  have hvi := votesIn_eq C L B.hash bt x.2 hfly ordV hV.mem
  obtain ⟨bt', b1, b2, b3, b4, b5⟩ := chain_round_BA k C L w N hC B' B P _ hN a1 ordP hP.nodup hP.mem hP.full
  have hpi := propsIn_eq C L B' ordP hP.mem
  have hcv : chainView k C ordV ordP x =
      deliverAll k C ((deliverAll k C (x.1, []) (ordV.map (voteMsg C L B.hash bt))).1, []) (ordP.map (propMsg L B')) := by
    unfold chainView
    rw [hvi, a2, hpi]
  rw [hcv]
  obtain ⟨sgq, g1, _, _⟩ := a1.qc
  obtain ⟨sLx, _, _, hSL⟩ := hA.leader
  refine ⟨B', bt', b1, by rw [b2]; exact votesFly_acks C L B' bt' ordP hP.full,
    ⟨a1.blk.2.1, by rw [g1], by rw [a1.blk.2.2, hSL.core.bview], by rw [hSL.core.bhash]; exact pname_ne_empty _⟩, ?_⟩
  intro j hj
  by_cases hjL : j = L
  · subst hjL
    exact ⟨sL0, sL, a5, by rw [b3]; exact a6, a7⟩
  · obtain ⟨s0, s, c1, c2, c3⟩ := b5 j hj hjL
    exact ⟨s0, s, by rw [← a3 j hjL]; exact c1, c2, c3⟩


theorem PhaseA.hasB {C : SysCfg} {L w N : Nat} {B P : Block} {bt : Nat → Nat} {σ : SysState} (h : PhaseA C L w N B P bt σ)
    (j : Nat) (hj : j ∈ C.honest) (s : RState) (hl : σ.reps.lookup j = some s) :
    s.chain.blocks.lookup B.hash = some B ∧ B.view = w := by
  by_cases hjL : j = L
  · subst hjL
    obtain ⟨sL, _, h1, h2⟩ := h.leader
    rw [hl] at h1; cases h1
    exact ⟨h2.core.hasB, h2.core.bview⟩
  · obtain ⟨s', h1, h2⟩ := h.others j hj hjL
    rw [hl] at h1; cases h1
    exact ⟨h2.hasB, h2.bview⟩

/-- **From a synchronised view to a commit** (fixed leader, chained or simplified HotStuff: THREE further views —
the commit rule of either rule set commits the block three certified consecutive views below the proposal).
In phase A at `(w, B)` with the votes for `B` in flight, and with the ancestors of `B` that the committer walks
over stored at every replica (`WalkZ B`: down to the committed block, which is older than `B`), run three views
of the chain, each with the votes and the proposals delivered in ANY order.  Then the system is in phase A at
`(w + 3, B3)` for blocks `B ← B1 ← B2 ← B3` of consecutive views, and EVERY replica has committed `B`:
`committed = B`, a block newer than what it had committed before. -/
theorem synced_commits_fixed (k : Keys) (C : SysCfg) (L w N : Nat) (hC : HappyCfg C L) (B P : Block) (bt : Nat → Nat)
    (x : SysState × Msgs) (hN : N + 18 ≤ 99999) (hA : PhaseA C L w N B P bt x.1) (hfly : VotesFly C L B.hash bt x.2)
    (hwalk : ∀ j ∈ C.honest, ∃ s, x.1.reps.lookup j = some s ∧ WalkZ B s)
    (v1 p1 v2 p2 v3 p3 : List Nat) (hv1 : OthersOrder C L v1) (hp1 : OthersOrder C L p1) (hv2 : OthersOrder C L v2)
    (hp2 : OthersOrder C L p2) (hv3 : OthersOrder C L v3) (hp3 : OthersOrder C L p3) :
    ∃ (B1 B2 B3 : Block) (bt3 : Nat → Nat),
      Link B1 B ∧ Link B2 B1 ∧ Link B3 B2 ∧
      PhaseA C L (w + 3) (N + 9) B3 B2 bt3 (chainView k C v3 p3 (chainView k C v2 p2 (chainView k C v1 p1 x))).1 ∧
      VotesFly C L B3.hash bt3 (chainView k C v3 p3 (chainView k C v2 p2 (chainView k C v1 p1 x))).2 ∧
      ∀ j ∈ C.honest, ∃ s0 s, x.1.reps.lookup j = some s0 ∧
        (chainView k C v3 p3 (chainView k C v2 p2 (chainView k C v1 p1 x))).1.reps.lookup j = some s ∧
        s.committed = B ∧ s0.committed.view < s.committed.view := by
  obtain ⟨B1, bt1, a1, a2, a3, a4⟩ := chain_view k C L w N hC B P bt x (by omega) hA hfly v1 p1 hv1 hp1
  obtain ⟨B2, bt2, b1, b2, b3, b4⟩ := chain_view k C L (w + 1) (N + 3) hC B1 B bt1 _ (by omega) a1 a2 v2 p2 hv2 hp2
  obtain ⟨B3, bt3, c1, c2, c3, c4⟩ := chain_view k C L (w + 1 + 1) (N + 3 + 3) hC B2 B1 bt2 _ (by omega) b1 b2 v3 p3 hv3 hp3
  refine ⟨B1, B2, B3, bt3, a3, b3, c3, c1, c2, ?_⟩
  intro j hj
  obtain ⟨s0, s1, d1, d2, d3⟩ := a4 j hj
  obtain ⟨s1', s2, e1, e2, e3⟩ := b4 j hj
  obtain ⟨s2', s3, f1, f2, f3⟩ := c4 j hj
  rw [d2] at e1; cases e1
  rw [e2] at f1; cases f1
  obtain ⟨s0', g1, g2⟩ := hwalk j hj
  rw [d1] at g1; cases g1
  obtain ⟨hB0, hBv⟩ := hA.hasB j hj s0 d1
  have w1 := d3.walk B g2 (by omega)
  have w2 := e3.walk B w1 (by omega)
  have hB2 : s2.chain.blocks.lookup B.hash = some B := e3.store _ _ (d3.store _ _ hB0)
  have hcm := f3.commit B w2 b3 a3 hB2
  exact ⟨s0, s3, d1, f2, hcm, by rw [hcm]; exact g2.below⟩


/-! ## the recovery round and the proposal round that follows it -/

/-- the timeout messages are delivered in the order `msgs` (receiver, sender) — the round of `recovery_from_reachable` -/
def recoveryRound (k : Keys) (C : SysCfg) (D : RecData) (σ0 : SysState) (msgs : List (Nat × Nat)) : SysState × Msgs :=
  deliverAll k C (σ0, []) (msgs.map fun p => (p.1, Ev.timeout (D.tmsg C p.2)))

/-- the proposals in flight reach the replicas `ord`, in that order -/
def proposalRound (k : Keys) (C : SysCfg) (ord : List Nat) (x : SysState × Msgs) : SysState × Msgs :=
  deliverAll k C (x.1, []) (propsIn x.2 ord)


/-! ## the first proposal after a recovery round: the view was entered on a timeout certificate -/

/-- **a replica that entered view `w + 1` on a timeout certificate receives the leader's proposal `b'` of that view**,
which carries a certificate `b'.qc` of an older stored block `hb` (the highest high QC of a quorum): with the vote rule
ready (`RuleReady`: what `cover_of_reach` provides) the replica stores `b'`, runs the committer and votes — afterwards
it is synchronised at `(w + 1, b')` (`SyncR`), its vote is the only message it sends, and the committer can walk from
`b'` down to the committed block if it could from `hb`. -/
theorem nl_step_cur (k : Keys) (c : RCfg) (L w N : Nat) (hb P b' : Block) (s : RState)
    (hs : c.scheme ≠ .bls12) (ha : c.agg = false) (hr : c.rules = .chained ∨ c.rules = .simple)
    (hlead : ∀ v, c.leader v = L) (hne : c.id ≠ L)
    (hview : s.view = w + 1) (hlv : s.lastVoted ≤ w) (hq : s.queue = []) (hwvc : s.waitingVC = [])
    (hwprop : s.waitingProp = []) (hfe : s.chain.fetchable = []) (hf : FreshS s) (hN : N + 12 ≤ 99999)
    (hb1 : b'.hash = pname (w + 1)) (hb2 : b'.parent = b'.qc.hash) (hb3 : b'.view = w + 1) (hqv : b'.qc.view < w + 1)
    (hver : verifyQC (env k c s) b'.qc = true) (hhb : s.chain.blocks.lookup b'.qc.hash = some hb) (hhbv : hb.view ≤ w)
    (hP : s.chain.blocks.lookup hb.qc.hash = some P) (hPv : P.view ≤ w)
    (hready : RuleReady c s (w + 1) hb) (hhq : s.highQC.view ≤ w) (hlock : s.lock.view ≤ w) (hcm : s.committed.view ≤ w)
    (hnames : ∀ u, w < u → s.chain.blocks.lookup (pname u) = none ∧ s.votes.lookup (pname u) = none)
    (hsmall : 2 * s.chain.blocks.length + (w + 1) ≤ N)
    (hwalk : cmWalk (s.chain.blocks.length + 2) s.chain.blocks s.committed.view hb = true) :
    SyncR (w + 1) (N + 2) b' hb (step k c s (.propose L b' none)).1 ∧
    WalkZ b' (step k c s (.propose L b' none)).1 ∧
    FreshS (step k c s (.propose L b' none)).1 ∧ Ext s (step k c s (.propose L b' none)).1 ∧
    (∃ bytes, (step k c s (.propose L b' none)).1.truth.lookup bytes = some ⟨c.id, blkMsg b'.hash⟩ ∧
      ∀ C : SysCfg, route C c.id (step k c s (.propose L b' none)).2 =
        [(L, Ev.vote c.id (some (.multi c.scheme [⟨c.id, bytes⟩])) b'.hash false)]) := by
  let sA : RState := { s with out := [], queue := [] }
  let s1 : RState := updHighQC sA b'.qc hb
  obtain ⟨hpass, hstep⟩ := step_propose_exact k c s L b' hb hs ha (by rw [hb3, hview]) (by rw [hb3]; omega) (hlead _).symm hb2
    (by rw [hb3]; exact hqv) hver hhb
    (fun s' hc hl => voteRule_ready c s' b' hb _ (by rw [hb3]; exact ruleReady_congr c s s' _ hb hc hl hready)
      (by rw [hc]; exact hhb) (Nat.le_refl _) hb2)
    (by rw [hlead]; exact fun e => hne e.symm) hq hwprop
  have hfe1 : s1.chain.fetchable = [] := hfe
  have htc : tcS c b' s1 = tcL c b' s1 := tcS_eq_tcL c (by rcases hr with h | h <;> rw [h] <;> decide) b' s1 hfe1
  have hnewB : s1.chain.blocks.lookup b'.hash = none := by rw [hb1]; exact (hnames (w + 1) (by omega)).1
  obtain ⟨t1, t2, t3, evs, t4, t5, t6, t7⟩ := tcL_core c hr b' hb P (w + 1) N s1 hfe1 hnewB hhb (by omega) hP (by omega)
    (by show s.lock.view < w + 1; omega) hsmall
  rw [← htc] at t1 t2 t3 t4 t7
  let A : RState := votedS c b' L s1
  obtain ⟨hA1, hA2, hA3, hA4, hA5, hA10, _, hA11, _, _, hA12⟩ := votedS_tcp c b' L s1
  obtain ⟨hA6, hA7, hA8, hA9⟩ := votedS_tc c b' L s1
  have hAq : A.queue = evs := by
    show (votedS c b' L s1).queue = _
    rw [hA9, t4]; rfl
  have hdrop : A.queue.drop 99999 = [] := List.drop_of_length_le (by rw [hAq]; omega)
  have htake : A.queue.take 99999 = A.queue := List.take_of_length_le (by rw [hAq]; omega)
  rw [hdrop, htake] at hstep
  have hfA : FreshS s1 := hf
  have hft := tcS_fresh c b' s1 hfA
  obtain ⟨ho3, hl3, hf3, hc3⟩ := voteS_facts c b' L (tcS c b' s1) hft
  have hAout : A.out = [.sign (blkMsg b'.hash), .sendVote L (voteSig c b' (tcS c b' s1)) b'.hash] := by
    show (voteS c b' L (tcS c b' s1)).out ++ _ = _
    rw [ho3, tcS_out, hlead]
    rfl
  have hAchain : A.chain = (tcS c b' s1).chain := hA8
  have hblocks : A.chain.blocks = (b'.hash, b') :: s.chain.blocks := by rw [hAchain]; exact t1
  have hle : StoreLe s.chain.blocks A.chain.blocks := by
    rw [hblocks]; exact storeLe_cons _ _ hnewB
  -- what the committer leaves: the committed block is the old one or a block two views below `hb`
  have hcmv : s.committed.view ≤ A.committed.view ∧ A.committed.view < w + 1 := by
    rw [show A.committed = (tcS c b' s1).committed from hA7, htc]
    have hst := (store_new s1.chain b' hnewB).1
    have hl1 : (s1.chain.store b').blocks.lookup b'.qc.hash = some hb := by
      rw [hst]; exact storeLe_cons _ _ hnewB _ _ hhb
    obtain ⟨_, hcr⟩ := commitRuleL_res c.rules (s1.chain.store b').blocks s1.lock b'
    unfold tcL
    simp only
    cases hr2 : (commitRuleL c.rules (s1.chain.store b').blocks s1.lock b').2 with
    | none => exact ⟨Nat.le_refl _, by show s.committed.view < w + 1; omega⟩
    | some t =>
      simp only
      obtain ⟨x1, hx1, htv⟩ := hcr t hr2
      rw [hl1] at hx1; cases hx1
      obtain ⟨i1, i2, _, _⟩ := commitInnerL_res ((s1.chain.store b').fuel + 1) (s1.chain.store b').blocks s1.committed t
      cases hci : (commitInnerL ((s1.chain.store b').fuel + 1) (s1.chain.store b').blocks s1.committed t).1 with
      | false =>
        simp only [Bool.not_false, if_true]
        rw [i1 hci]; exact ⟨Nat.le_refl _, by show s.committed.view < w + 1; omega⟩
      | true =>
        simp only [Bool.not_true, Bool.false_eq_true, if_false]
        rcases i2 hci with ⟨h, _⟩ | ⟨h, hv⟩
        · rw [h]; exact ⟨Nat.le_refl _, by show s.committed.view < w + 1; omega⟩
        · rw [h]; exact ⟨Nat.le_of_lt hv, by omega⟩
  rw [hstep]
  refine ⟨⟨?_, ?_, rfl, ?_, rfl, ?_, hb1, hb3, ?_, ?_, by omega, ?_, ?_, ?_, ?_⟩, ⟨?_, ?_⟩, hf3, ?_,
    ⟨signBytes c (blkMsg b'.hash) (tcS c b' s1), hl3, ?_⟩⟩
  · show A.view = _; rw [show A.view = s1.view from hA1]; exact hview
  · show A.lastVoted = _; rw [show A.lastVoted = b'.view from hA5, hb3]
  · show A.waitingVC = _; rw [show A.waitingVC = s1.waitingVC from hA4]; exact hwvc
  · show A.chain.fetchable = _; rw [hAchain]; exact t2
  · show A.chain.blocks.lookup b'.hash = _; rw [hblocks]; simp
  · show A.chain.blocks.lookup b'.qc.hash = _; exact hle _ _ hhb
  · show A.highQC.view < _; rw [show A.highQC = s1.highQC from hA2]
    show (if hb.view ≤ s.highQC.view then s.highQC else b'.qc).view < _
    split <;> omega
  · show A.lock.view < _; rw [show A.lock = (tcS c b' s1).lock from hA6]; exact t3
  · intro u hu
    refine ⟨?_, ?_⟩
    · show A.chain.blocks.lookup (pname u) = none
      rw [hblocks, List.lookup_cons]
      have : (pname u == b'.hash) = false := by
        rw [beq_eq_false_iff_ne, hb1]; intro e; have := pname_inj e; omega
      rw [this]; exact (hnames u (by omega)).1
    · show A.votes.lookup (pname u) = none
      rw [show A.votes = s1.votes from hA10]; exact (hnames u (by omega)).2
  · show 2 * A.chain.blocks.length + (w + 1) ≤ N + 2
    rw [hblocks]; simp only [List.length_cons]; omega
  · -- the walk from `b'`: one step to `hb`, then the old walk
    show cmWalk (A.chain.blocks.length + 2) A.chain.blocks A.committed.view b' = true
    rw [hblocks]
    simp only [List.length_cons]
    unfold cmWalk
    rw [if_neg (by rw [hb3]; omega), hb2]
    have : ((b'.hash, b') :: s.chain.blocks).lookup b'.qc.hash = some hb := storeLe_cons _ _ hnewB _ _ hhb
    rw [this]
    exact cmWalk_mono _ _ _ _ _ _ hb (by omega) (storeLe_cons _ _ hnewB) hcmv.1 hwalk
  · show A.committed.view < b'.view; rw [hb3]; exact hcmv.2
  · have e1 : Ext s s1 := ext_of_eq s s1 hf.2 rfl rfl rfl
    have e2 := tcS_ext c b' s1 hfA.2
    have e3 := voteS_ext c b' L (tcS c b' s1) hs hft.2
    have e4 : Ext (voteS c b' L (tcS c b' s1)) { A with waitingProp := [], queue := [], out := [] } :=
      ext_of_eq _ _ hf3.2 rfl rfl rfl
    exact ((e1.trans e2).trans e3).trans e4
  · intro C
    rw [route_append, hAout]
    rw [route_silent C c.id (A.queue.map Ev.toOut) (by
      intro o ho
      obtain ⟨e, he, rfl⟩ := List.mem_map.mp ho
      exact toOut_silent e (quiet_of_passive e (hpass e he)))]
    simp [route, voteSig]

end HsVerif.Model
