import HsVerif.Proofs.ReplicaInert
/-!
Fast-HotStuff at replica level (C01, task S12): THE QC VIEWS OF THE BLOCKS A REPLICA VOTES FOR NEVER GO DOWN —
the replica model satisfies the hypothesis `LockJust` of `fast_safe_if_locked` (Proofs/FastExact.lean).

* `GRec.qcView`, `qcViews g` (the QC views of the vote records of a ghost history, in signing order),
  `QCOrd g` (pairwise `≤`, stated on the ghost history itself so that appending a record is one
  `List.pairwise_append`), `qcOrd_iff_views` (= `(qcViews g).Pairwise (· ≤ ·)`), `qcOrd_iff_voted` (= every vote
  record's QC view is at least `votedQCView` — the model's `Voter.lastVotedQCView` — of the records before it),
  `le_votedQCView` / `votedQCView_le` (`votedQCView` is the least upper bound), `qcOrd_idx` (positions `i < j`).
* `QCMono c s := c.rules = .fast → QCOrd s.ghost`; the inductive invariant is `QCInv k c s := Inv3 k c s ∧ QCMono c s`
  (`qcInv_iff`), written as ONE predicate `QCInvV k c` on `VS s = (s.ghost, s.lastVoted)` — so everything that runs
  below the handlers is covered by the `VS` frames of Proofs/ReplicaVote.lean through `frame_pres`
  (Proofs/ReplicaInv.lean), and nothing of C03's invariant is proved again (`InvV_vote`, `InvV_tmo`, `InvV_adv`).
* `voterVerify_fastq`: what a positive answer says, relative to the ghost history `g` and `lastVoted = lv` it was
  evaluated in: `lv < b.view`, `Facts` (as in C03) and `FastOK c b agg g` — under Fast-HotStuff, WITH an aggregate
  QC `votedQCView g ≤ b.qc.view` (the check of commit a77ccac), WITHOUT one `b.view = b.qc.view + 1` (the vote rule,
  `voteRule_fastq`).  `qready_of_fastOK`: with `InvV` (every earlier vote `x` has `x.qc.view < x.view ≤ lv`) both
  cases give `QReady c b (g, lv)`: no vote record of `g` has a QC view above `b.qc.view`.
* the chain `_q`: `QCInv` through every handler.  `QCW k c b id s` is the state between a positive `voterVerify`
  and `voteFor` (again a predicate on `VS`, so `tryCommit`, which `onValidPropose` runs in between, keeps it:
  `tryCommit_qw`); `voteFor_q` turns it into `QCInv` of the extended history (`QCInvV_vote`).  No hypothesis on the
  configuration: for chained / simplified HotStuff `QCMono` is vacuous and `QCInv` is `Inv3`.
* `step_q`, `start_q`, `qcInv_init`.
Technique: as in Proofs/ReplicaInv.lean, but all specs are handed to `mvcgen` by name (the `[local spec]` attributes
of the earlier chains are out of scope here); `lift_vs` generalises `lift_frame` to any predicate on `VS` and result
facts that mention the ghost history.
-/
open Std.Do
set_option mvcgen.warning false
set_option linter.unusedSimpArgs false
set_option linter.unusedVariables false
namespace HsVerif.Model
open HsVerif.Proofs

/-- view of the QC carried by a block the replica signed a vote for -/
def GRec.qcView : GRec → Option Nat
  | .vote b _ => some b.qc.view
  | _ => none

/-- QC views of the voted blocks, in signing order -/
def qcViews (g : List GRec) : List Nat := g.filterMap GRec.qcView

/-- the QC views of the vote records never go down -/
def QCOrd (g : List GRec) : Prop :=
  g.Pairwise (fun r1 r2 => ∀ v1 v2, r1.qcView = some v1 → r2.qcView = some v2 → v1 ≤ v2)

theorem qcOrd_iff_views (g : List GRec) : QCOrd g ↔ (qcViews g).Pairwise (· ≤ ·) := by
  unfold QCOrd qcViews
  rw [List.pairwise_filterMap]
  constructor
  · intro h; exact h.imp (fun h v1 hv1 v2 hv2 => h v1 v2 hv1 hv2)
  · intro h; exact h.imp (fun h v1 v2 hv1 hv2 => h v1 hv1 v2 hv2)

theorem snoc_ind {α} (P : List α → Prop) (h0 : P []) (hs : ∀ l a, P l → P (l ++ [a])) : ∀ l, P l := by
  have : ∀ n (l : List α), l.length = n → P l := by
    intro n
    induction n with
    | zero => intro l hl; rw [List.length_eq_zero_iff.mp hl]; exact h0
    | succ n ih =>
      intro l hl
      rcases List.eq_nil_or_concat l with rfl | ⟨l', a, rfl⟩
      · exact h0
      · rw [List.concat_eq_append] at hl ⊢
        exact hs l' a (ih l' (by simpa using hl))
  exact fun l => this _ l rfl

theorem votedQCView_snoc (g : List GRec) (r : GRec) :
    votedQCView (g ++ [r]) = match r with | .vote b _ => max (votedQCView g) b.qc.view | _ => votedQCView g := by
  unfold votedQCView
  rw [List.foldl_append]
  cases r <;> rfl

/-- `votedQCView` is an upper bound of the QC views of the vote records … -/
theorem le_votedQCView (g : List GRec) : ∀ r ∈ g, ∀ v, r.qcView = some v → v ≤ votedQCView g := by
  refine snoc_ind (fun g => ∀ r ∈ g, ∀ v, r.qcView = some v → v ≤ votedQCView g) ?_ ?_ g
  · intro r hr; cases hr
  · intro g a ih r hr v hv
    rw [votedQCView_snoc]
    simp only [List.mem_append, List.mem_singleton] at hr
    rcases hr with hr | rfl
    · have := ih r hr v hv
      cases a <;> simp only <;> omega
    · cases r <;> simp [GRec.qcView] at hv
      subst hv; simp only; omega

/-- … and the least one: 0 or attained -/
theorem votedQCView_le (g : List GRec) (m : Nat) (h : ∀ r ∈ g, ∀ v, r.qcView = some v → v ≤ m) :
    votedQCView g ≤ m := by
  revert h
  refine snoc_ind (fun g => (∀ r ∈ g, ∀ v, r.qcView = some v → v ≤ m) → votedQCView g ≤ m) ?_ ?_ g
  · intro _; simp [votedQCView]
  · intro g a ih h
    rw [votedQCView_snoc]
    have h1 := ih (fun r hr v hv => h r (List.mem_append_left _ hr) v hv)
    cases a with
    | vote b id =>
      have := h (.vote b id) (by simp) b.qc.view rfl
      simp only; omega
    | tmo _ => exact h1
    | adv _ _ _ => exact h1

theorem qcOrd_nil : QCOrd [] := List.Pairwise.nil

theorem qcOrd_snoc (g : List GRec) (r : GRec) (h : QCOrd g)
    (hr : ∀ w, r.qcView = some w → ∀ x ∈ g, ∀ v, x.qcView = some v → v ≤ w) : QCOrd (g ++ [r]) := by
  unfold QCOrd
  rw [List.pairwise_append]
  refine ⟨h, by simp, ?_⟩
  intro a ha b hb v1 v2 h1 h2
  simp only [List.mem_singleton] at hb; subst hb
  exact hr v2 h2 a ha v1 h1

/-- the formulation with `Voter.lastVotedQCView`: every vote record's QC view is at least `votedQCView`
of the records before it -/
theorem qcOrd_iff_voted (g : List GRec) :
    QCOrd g ↔ ∀ pre w id post, g = pre ++ GRec.vote w id :: post → votedQCView pre ≤ w.qc.view := by
  constructor
  · intro h pre w id post he
    subst he
    unfold QCOrd at h
    rw [List.pairwise_append] at h
    apply votedQCView_le
    intro r hr v hv
    exact h.2.2 r hr (.vote w id) (by simp) v w.qc.view hv rfl
  · intro h
    revert h
    refine snoc_ind (fun g => (∀ pre w id post, g = pre ++ GRec.vote w id :: post → votedQCView pre ≤ w.qc.view) → QCOrd g) ?_ ?_ g
    · intro _; exact qcOrd_nil
    · intro g a ih h
      refine qcOrd_snoc g a (ih ?_) ?_
      · intro pre w id post he
        exact h pre w id (post ++ [a]) (by rw [he]; simp)
      · intro w hw x hx v hv
        cases a with
        | vote b id =>
          simp [GRec.qcView] at hw; subst hw
          have := h g b id [] rfl
          have := le_votedQCView g x hx v hv
          omega
        | tmo _ => simp [GRec.qcView] at hw
        | adv _ _ _ => simp [GRec.qcView] at hw

/-! ### the invariant, as a predicate on `VS s = (ghost history, lastVotedView)` -/

/-- for Fast-HotStuff, the QC views of the vote records of `s.ghost` never go down -/
def QCMono (c : RCfg) (s : RState) : Prop := c.rules = .fast → QCOrd s.ghost

/-- C03's vote-discipline invariant together with the QC order -/
def QCInvV (k : Keys) (c : RCfg) (x : List GRec × Nat) : Prop := InvV k c x ∧ (c.rules = .fast → QCOrd x.1)

/-- the inductive invariant: `Inv3 k c s ∧ QCMono c s` -/
def QCInv (k : Keys) (c : RCfg) (s : RState) : Prop := QCInvV k c (VS s)

theorem qcInv_iff (k : Keys) (c : RCfg) (s : RState) : QCInv k c s ↔ Inv3 k c s ∧ QCMono c s := Iff.rfl

/-- what a positive `voterVerify` answer for `b` (with aggregate QC `agg`) says under Fast-HotStuff,
relative to the ghost history `g` it was evaluated in -/
def FastOK (c : RCfg) (b : Block) (agg : Option AggQC) (g : List GRec) : Prop :=
  c.rules = .fast → (agg.isSome = true → votedQCView g ≤ b.qc.view) ∧ (agg = none → b.view = b.qc.view + 1)

/-- `b` may be appended as a vote: no earlier vote has a higher QC view -/
def QReady (c : RCfg) (b : Block) (x : List GRec × Nat) : Prop :=
  c.rules = .fast → ∀ r ∈ x.1, ∀ v, r.qcView = some v → v ≤ b.qc.view

theorem qready_of_fastOK (k : Keys) (c : RCfg) (b : Block) (agg : Option AggQC) (g : List GRec) (lv : Nat)
    (hi : InvV k c (g, lv)) (hlv : lv < b.view) (hf : FastOK c b agg g) : QReady c b (g, lv) := by
  intro hc r hr v hv
  obtain ⟨h1, h2⟩ := hf hc
  cases agg with
  | some a =>
    have := le_votedQCView g r hr v hv
    have := h1 rfl
    omega
  | none =>
    have hb := h2 rfl
    cases r with
    | vote x id =>
      simp [GRec.qcView] at hv; subst hv
      have hx := (hi.2.2 x id hr).2.2.1
      have := hi.1 (.vote x id) hr x.view rfl
      simp only at this
      omega
    | tmo _ => simp [GRec.qcView] at hv
    | adv _ _ _ => simp [GRec.qcView] at hv

theorem QCInvV_init (k : Keys) (c : RCfg) : QCInvV k c ([], 0) := ⟨InvV_init k c, fun _ => qcOrd_nil⟩

theorem QCInvV_vote (k : Keys) (c : RCfg) (g : List GRec) (lv : Nat) (b : Block) (id : Nat)
    (h : QCInvV k c (g, lv)) (hv : lv < b.view) (hf : Facts k c b id) (hr : QReady c b (g, lv)) :
    QCInvV k c (g ++ [.vote b id], b.view) := by
  refine ⟨InvV_vote k c g lv b id h.1 hv hf, fun hc => qcOrd_snoc g _ (h.2 hc) ?_⟩
  intro w hw x hx v hxv
  simp [GRec.qcView] at hw; subst hw
  exact hr hc x hx v hxv

theorem QCInvV_tmo (k : Keys) (c : RCfg) (g : List GRec) (lv v : Nat)
    (h : QCInvV k c (g, lv)) : QCInvV k c (g ++ [.tmo v], if lv < v then v else lv) :=
  ⟨InvV_tmo k c g lv v h.1, fun hc => qcOrd_snoc g _ (h.2 hc) (by intro w hw; simp [GRec.qcView] at hw)⟩

theorem QCInvV_adv (k : Keys) (c : RCfg) (g : List GRec) (lv a b' : Nat) (t : Bool)
    (h : QCInvV k c (g, lv)) : QCInvV k c (g ++ [.adv a b' t], lv) :=
  ⟨InvV_adv k c g lv a b' t h.1, fun hc => qcOrd_snoc g _ (h.2 hc) (by intro w hw; simp [GRec.qcView] at hw)⟩

/-! ### what `voterVerify` answers -/

/-- Fast-HotStuff's vote rule without aggregate QC: the block is one view above its QC -/
theorem voteRule_fastq (c : RCfg) (v : Nat) (b : Block) (agg : Option AggQC) (x) :
    ⦃fun s => ⌜VS s = x⌝⦄ voteRule c v b agg
    ⦃⇓ r s => ⌜VS s = x ∧ (r = true → c.rules = .fast → agg = none → b.view = b.qc.view + 1)⌝⦄ := by
  mvcgen [voteRule, getBlock_frame, extendsM_frame] <;> simp_all +zetaDelta

theorem voterVerify_fastq (k : Keys) (c : RCfg) (id : Nat) (b : Block) (agg : Option AggQC) (g lv) :
    ⦃fun s => ⌜VS s = (g, lv)⌝⦄ voterVerify k c id b agg
    ⦃⇓ r s => ⌜VS s = (g, lv) ∧ (r = .ok () → lv < b.view ∧ Facts k c b id ∧ FastOK c b agg g)⌝⦄ := by
  mvcgen [voterVerify, voteRule_fastq, verifyAnyM_spec] <;> simp_all +zetaDelta [Facts, FastOK]

/-! ### the chain -/

/-- a computation that leaves `VS` alone preserves every predicate on `VS`; facts `R` about the result,
relative to `VS`, are kept -/
theorem lift_vs {α} (P : List GRec × Nat → Prop) (f : M α) (R : α → List GRec × Nat → Prop)
    (hf : ∀ x, ⦃fun s => ⌜VS s = x⌝⦄ f ⦃⇓ r s => ⌜VS s = x ∧ R r x⌝⦄) :
    ⦃fun s => ⌜P (VS s)⌝⦄ f ⦃⇓ r s => ⌜P (VS s) ∧ R r (VS s)⌝⦄ := by
  apply triple_of_forall (proj := VS)
  intro x
  by_cases hx : P x
  · apply Triple.entails_wp_of_pre_post (hf x)
    · intro s h; exact h.1
    · refine ⟨?_, by simp⟩
      intro a s h
      have h' : VS s = x ∧ R a x := h
      show P (VS s) ∧ R a (VS s)
      rw [h'.1]; exact ⟨hx, h'.2⟩
  · intro s h
    exact absurd (by have := h.2; rw [h.1] at this; exact this) hx

section QChain
variable (k : Keys) (c : RCfg)

theorem emit_q (o : Out) : ⦃fun s => ⌜QCInv k c s⌝⦄ emit o ⦃⇓ _ s => ⌜QCInv k c s⌝⦄ := frame_pres (QCInvV k c) _ (emit_frame o)
theorem addEvent_q (e : Ev) : ⦃fun s => ⌜QCInv k c s⌝⦄ addEvent e ⦃⇓ _ s => ⌜QCInv k c s⌝⦄ := frame_pres (QCInvV k c) _ (addEvent_frame e)
theorem getBlock_q (h : Hash) : ⦃fun s => ⌜QCInv k c s⌝⦄ getBlock h ⦃⇓ _ s => ⌜QCInv k c s⌝⦄ := frame_pres (QCInvV k c) _ (getBlock_frame h)
theorem signMsg_q (m : Msg) : ⦃fun s => ⌜QCInv k c s⌝⦄ signMsg c m ⦃⇓ _ s => ⌜QCInv k c s⌝⦄ := frame_pres (QCInvV k c) _ (signMsg_frame c m)
theorem tryCommit_q (b : Block) : ⦃fun s => ⌜QCInv k c s⌝⦄ tryCommit c b ⦃⇓ _ s => ⌜QCInv k c s⌝⦄ := frame_pres (QCInvV k c) _ (tryCommit_frame c b)
theorem collectVote_q (id : Nat) (sig : Option Sig) (h : Hash) (d : Bool) :
    ⦃fun s => ⌜QCInv k c s⌝⦄ collectVote k c id sig h d ⦃⇓ _ s => ⌜QCInv k c s⌝⦄ := frame_pres (QCInvV k c) _ (collectVote_frame k c id sig h d)
theorem aggregateVote_q (b : Block) (sg : Sig) :
    ⦃fun s => ⌜QCInv k c s⌝⦄ aggregateVote k c b sg ⦃⇓ _ s => ⌜QCInv k c s⌝⦄ := frame_pres (QCInvV k c) _ (aggregateVote_frame k c b sg)
theorem markProposed_q (fuel : Nat) (b : Block) :
    ⦃fun s => ⌜QCInv k c s⌝⦄ markProposed fuel b ⦃⇓ _ s => ⌜QCInv k c s⌝⦄ := frame_pres (QCInvV k c) _ (markProposed_frame fuel b)
theorem verifySyncInfo_q (si : SyncInfo) :
    ⦃fun s => ⌜QCInv k c s⌝⦄ verifySyncInfo k c si ⦃⇓ _ s => ⌜QCInv k c s⌝⦄ := frame_pres (QCInvV k c) _ (verifySyncInfo_frame k c si)

/-- after a positive `voterVerify` for `b` from `id`: `b` may be voted for -/
def QCW (k : Keys) (c : RCfg) (b : Block) (id : Nat) (s : RState) : Prop :=
  QCInv k c s ∧ s.lastVoted < b.view ∧ Facts k c b id ∧ QReady c b (VS s)

theorem voterVerify_q (id : Nat) (b : Block) (agg : Option AggQC) :
    ⦃fun s => ⌜QCInv k c s⌝⦄ voterVerify k c id b agg
    ⦃⇓ r s => ⌜QCInv k c s ∧ (r = .ok () → QCW k c b id s)⌝⦄ := by
  have h := lift_vs (QCInvV k c) (voterVerify k c id b agg)
    (fun r x => r = VRes.ok () → x.2 < b.view ∧ Facts k c b id ∧ FastOK c b agg x.1)
    (fun x => voterVerify_fastq k c id b agg x.1 x.2)
  apply Triple.entails_wp_of_pre_post h
  · exact SPred.entails.refl _
  · refine ⟨?_, by simp⟩
    intro r s hh
    obtain ⟨h1, h2⟩ : QCInvV k c (VS s) ∧ (r = VRes.ok () → (VS s).2 < b.view ∧ Facts k c b id ∧ FastOK c b agg (VS s).1) := hh
    refine ⟨h1, fun hr => ?_⟩
    obtain ⟨h3, h4, h5⟩ := h2 hr
    exact ⟨h1, h3, h4, qready_of_fastOK k c b agg s.ghost s.lastVoted h1.1 h3 h5⟩

theorem voteFor_q (b : Block) (id : Nat) :
    ⦃fun s => ⌜QCW k c b id s⌝⦄ voteFor c b id ⦃⇓ _ s => ⌜QCInv k c s⌝⦄ := by
  apply triple_of_forall (proj := VS)
  intro x
  by_cases hx : QCInvV k c x ∧ x.2 < b.view ∧ Facts k c b id ∧ QReady c b x
  · apply Triple.entails_wp_of_pre_post (voteFor_vs c b id x.1 x.2)
    · intro s h; exact h.1
    · refine ⟨?_, by simp⟩
      intro a s h
      have h' : VS s = (x.1 ++ [.vote b id], b.view) := h
      show QCInvV k c (VS s)
      rw [h']
      exact QCInvV_vote k c x.1 x.2 b id hx.1 hx.2.1 hx.2.2.1 hx.2.2.2
  · intro s h
    refine absurd ?_ hx
    obtain ⟨h1, h2⟩ := h
    rw [← h1]; exact h2

/-- `tryCommit` (which runs between `voterVerify` and `voteFor` in `onValidPropose`) touches neither the
ghost history nor `lastVoted` -/
theorem tryCommit_qw (b b' : Block) (id : Nat) :
    ⦃fun s => ⌜QCW k c b' id s⌝⦄ tryCommit c b ⦃⇓ _ s => ⌜QCW k c b' id s⌝⦄ :=
  frame_pres (fun x => QCInvV k c x ∧ x.2 < b'.view ∧ Facts k c b' id ∧ QReady c b' x) _ (tryCommit_frame c b)

theorem onValidPropose_q (id : Nat) (b : Block) :
    ⦃fun s => ⌜QCW k c b id s⌝⦄ onValidPropose k c id b ⦃⇓ _ s => ⌜QCInv k c s⌝⦄ := by
  mvcgen [onValidPropose, tryCommit_qw, voteFor_q, aggregateVote_q]

/-- closes the verification conditions of the chain: the state differs from one satisfying the
invariant in fields outside `VS`, or a `.adv` / `.tmo` record was appended -/
macro "q_finish" : tactic => `(tactic| (
  (try intros)
  (try simp only [and_true, true_and, and_self, implies_true] at *)
  (first
    | done
    | assumption
    | (exact QCInvV_adv _ _ _ _ _ _ _ (by assumption))
    | (exact QCInvV_tmo _ _ _ _ _ (by assumption))
    | (simp_all +zetaDelta [QCInv]; done)
    | skip)))

theorem createAndPropose_q (si : SyncInfo) :
    ⦃fun s => ⌜QCInv k c s⌝⦄ createAndPropose k c si ⦃⇓ _ s => ⌜QCInv k c s⌝⦄ := by
  mvcgen [createAndPropose, getBlock_q, markProposed_q, voterVerify_q, voteFor_q, tryCommit_q, emit_q, aggregateVote_q]
  all_goals q_finish

theorem advanceView_q (si : SyncInfo) :
    ⦃fun s => ⌜QCInv k c s⌝⦄ advanceView k c si ⦃⇓ _ s => ⌜QCInv k c s⌝⦄ := by
  mvcgen [advanceView, verifySyncInfo_q, getBlock_q, addEvent_q, createAndPropose_q, emit_q]
  all_goals q_finish

theorem onRemoteTimeout_q (t : TimeoutMsg) :
    ⦃fun s => ⌜QCInv k c s⌝⦄ onRemoteTimeout k c t ⦃⇓ _ s => ⌜QCInv k c s⌝⦄ := by
  mvcgen [onRemoteTimeout, advanceView_q]
  all_goals q_finish

theorem onLocalTimeout_q :
    ⦃fun s => ⌜QCInv k c s⌝⦄ onLocalTimeout k c ⦃⇓ _ s => ⌜QCInv k c s⌝⦄ := by
  mvcgen [onLocalTimeout, onRemoteTimeout_q, signMsg_q, emit_q]
  all_goals q_finish

theorem onPropose_q (id : Nat) (b : Block) (agg : Option AggQC) :
    ⦃fun s => ⌜QCInv k c s⌝⦄ onPropose k c id b agg ⦃⇓ _ s => ⌜QCInv k c s⌝⦄ := by
  mvcgen [onPropose, advanceView_q, voterVerify_q, onValidPropose_q, emit_q]
  all_goals q_finish

theorem tick_q :
    ⦃fun s => ⌜QCInv k c s⌝⦄ tick k c ⦃⇓ _ s => ⌜QCInv k c s⌝⦄ := by
  mvcgen [tick, onPropose_q, onRemoteTimeout_q, onLocalTimeout_q, advanceView_q, collectVote_q, emit_q]
  all_goals q_finish

theorem runLoop_q (fuel : Nat) :
    ⦃fun s => ⌜QCInv k c s⌝⦄ runLoop k c fuel ⦃⇓ _ s => ⌜QCInv k c s⌝⦄ := by
  induction fuel with
  | zero => mvcgen [runLoop]
  | succ n ih => mvcgen [runLoop, tick_q, ih]

end QChain
/-! ### one delivered event, and `Start` -/

theorem step_q (k : Keys) (c : RCfg) (s : RState) (e : Ev) (h : QCInv k c s) : QCInv k c (step k c s e).1 := by
  unfold step
  have h0 : QCInv k c { s with out := [], queue := s.queue ++ [e] } := h
  exact run_res_of_triple (runLoop k c 100000) _ (fun _ s => QCInv k c s) (runLoop_q k c 100000) _ h0

theorem start_q (k : Keys) (c : RCfg) (s : RState) (h : QCInv k c s) : QCInv k c (start k c s).1 := by
  unfold start
  have h0 : QCInv k c { s with out := [] } := h
  have h1 := createAndPropose_q k c
  have h2 := runLoop_q k c
  have spec : ⦃fun s' => ⌜QCInv k c s'⌝⦄ (do
      let s ← get
      if s.view == 1 && c.leader 1 == c.id then
        createAndPropose k c { qc := some s.highQC, tc := some s.highTC }
      runLoop k c 100000 : M Unit) ⦃⇓ _ s' => ⌜QCInv k c s'⌝⦄ := by
    mvcgen [h1, h2]
  exact run_res_of_triple _ _ (fun _ s => QCInv k c s) spec _ h0

theorem qcInv_init (k : Keys) (c : RCfg) : QCInv k c {} := QCInvV_init k c

/-- the pairwise consequence, by positions in the ghost history -/
theorem qcOrd_idx (g : List GRec) (h : QCOrd g) (i j : Nat) (hij : i < j) (x w : Block) (idx id : Nat)
    (hx : g[i]? = some (GRec.vote x idx)) (hw : g[j]? = some (GRec.vote w id)) : x.qc.view ≤ w.qc.view := by
  have he := split_at_index g j _ hw
  have hm := mem_take_of_index g i j _ hij hx
  unfold QCOrd at h
  rw [he, List.pairwise_append] at h
  exact h.2.2 _ hm (GRec.vote w id) (by simp) x.qc.view w.qc.view rfl rfl

end HsVerif.Model
