import HsVerif.Proofs.ReplicaViewFrames
/-! View advancement (C07): the view only moves forward, to the view after a verified certificate of a
view at least the current one (`EnterViewAfter`), and each move is recorded / signalled. -/
open Std.Do
set_option mvcgen.warning false
set_option linter.unusedSimpArgs false
namespace HsVerif.Model

/-- the timeout messages an aggregate QC attests, as `VerifyAggregateQC` reconstructs them -/
def aggMessages (k : Keys) (a : AggQC) : List (Nat × Msg) := a.qcs.map (fun p => (p.1, k.tmo p.1 a.view (some p.2)))

/-- a certificate for view `v` passed the replica's verifier (in some state `s0` of its store) -/
def Evidence (k : Keys) (c : RCfg) (v : Nat) : Prop :=
  ∃ s0 : RState,
    (∃ q : QC, verifyQC (env k c s0) q = true ∧ q.view = v) ∨
    (∃ t : TC, verifyTC (env k c s0) t = true ∧ t.view = v) ∨
    (∃ (a : AggQC) (sg : Sig), a.sig = some sg ∧ c.cfg.quorum ≤ sg.len ∧
      batchVerify (env k c s0).T c.cfg sg (aggMessages k a) = true ∧ a.view = v)

theorem verifyQCM_ev (k : Keys) (c : RCfg) (q : QC) (x) :
    ⦃fun s => ⌜AP s = x⌝⦄ verifyQCM k c q ⦃⇓ r s => ⌜AP s = x ∧ (r = true → Evidence k c q.view)⌝⦄ := by
  mvcgen [verifyQCM, fetchFor_ap]
  all_goals simp_all +zetaDelta
  all_goals (first | exact (fun h => ⟨_, Or.inl ⟨q, h, rfl⟩⟩) | skip)

theorem verifyTCM_ev (k : Keys) (c : RCfg) (t : TC) (x) :
    ⦃fun s => ⌜AP s = x⌝⦄ verifyTCM k c t ⦃⇓ r s => ⌜AP s = x ∧ (r = true → Evidence k c t.view)⌝⦄ := by
  mvcgen [verifyTCM]
  all_goals simp_all +zetaDelta
  all_goals (first | exact (fun h => ⟨_, Or.inr (Or.inl ⟨t, h, rfl⟩)⟩) | skip)

theorem verifyAggM_ev (k : Keys) (c : RCfg) (a : AggQC) (x) :
    ⦃fun s => ⌜AP s = x⌝⦄ verifyAggM k c a
    ⦃⇓ r s => ⌜AP s = x ∧ (∀ high, r = .ok high → Evidence k c a.view)⌝⦄ := by
  mvcgen [verifyAggM, verifyAggM_go_ap]
  all_goals simp_all +zetaDelta
  rename_i sg hsig s1 _ _ r s hq _ hb
  intro _ high _
  exact ⟨s1, Or.inr (Or.inr ⟨a, sg, hsig, hq, hb, rfl⟩)⟩

theorem verifySyncInfo_ev (k : Keys) (c : RCfg) (si : SyncInfo) (x) :
    ⦃fun s => ⌜AP s = x⌝⦄ verifySyncInfo k c si
    ⦃⇓ r s => ⌜AP s = x ∧ (∀ qc view t, r = .ok (qc, view, t) → view = 0 ∨ Evidence k c view)⌝⦄ := by
  mvcgen [verifySyncInfo, verifyTCM_ev, verifyQCM_ev, verifyAggM_ev]
  all_goals simp_all +zetaDelta
  all_goals skip

/-- lift a specification that fixes a projection of the state to one that preserves any
predicate of that projection, keeping state-independent result facts -/
theorem lift_proj {α X} (proj : RState → X) (P : X → Prop) (f : M α) (R : α → Prop)
    (hf : ∀ x, ⦃fun s => ⌜proj s = x⌝⦄ f ⦃⇓ r s => ⌜proj s = x ∧ R r⌝⦄) :
    ⦃fun s => ⌜P (proj s)⌝⦄ f ⦃⇓ r s => ⌜P (proj s) ∧ R r⌝⦄ := by
  apply triple_of_forall (proj := proj)
  intro x
  by_cases hx : P x
  · apply Triple.entails_wp_of_pre_post (hf x)
    · intro s h; exact h.1
    · refine ⟨?_, by simp⟩
      intro a s h
      have h' : proj s = x ∧ R a := h
      show P (proj s) ∧ R a
      rw [h'.1]; exact ⟨hx, h'.2⟩
  · intro s h
    exact absurd (by have := h.2; rw [h.1] at this; exact this) hx

theorem lift_proj' {α X} (proj : RState → X) (P : X → Prop) (f : M α)
    (hf : ∀ x, ⦃fun s => ⌜proj s = x⌝⦄ f ⦃⇓ _ s => ⌜proj s = x⌝⦄) :
    ⦃fun s => ⌜P (proj s)⌝⦄ f ⦃⇓ _ s => ⌜P (proj s)⌝⦄ := by
  have := lift_proj proj P f (fun _ => True) (fun x => by
    apply Triple.entails_wp_of_pre_post (hf x)
    · exact SPred.entails.refl _
    · refine ⟨?_, by simp⟩
      intro a s h; exact ⟨h, trivial⟩)
  apply Triple.entails_wp_of_pre_post this
  · exact SPred.entails.refl _
  · refine ⟨?_, by simp⟩
    intro a s h; exact h.1

def GRec.advFrom : GRec → Nat
  | .adv f _ _ => f
  | _ => 0

/-- the view entered by an advancement: the one after the certificate's (`EnterViewAfter`) -/
def GRec.advTo : GRec → Nat
  | .adv _ cv _ => cv + 1
  | _ => 0

/-- invariant on (advancement records, current view, high QC): the advancement records form a chain
from view 1 to the current view (the first one left view 1, each next one left the view the previous one
entered, the last one entered the current view; the view entered is the certified view + 1), and each was
backed by a verified certificate of a view at least the one that was left -/
def InvA (k : Keys) (c : RCfg) (x : List GRec × Nat × QC) : Prop :=
  1 ≤ x.2.1 ∧ x.1.map GRec.advFrom ++ [x.2.1] = 1 :: x.1.map GRec.advTo ∧
  ∀ f cv t, GRec.adv f cv t ∈ x.1 → f ≤ cv ∧ Evidence k c cv

theorem InvA_init (k : Keys) (c : RCfg) : InvA k c ([], 1, genesisQC) := by
  simp [InvA]

theorem InvA_adv (k : Keys) (c : RCfg) (g : List GRec) (v cv : Nat) (t : Bool) (q q' : QC)
    (h : InvA k c (g, v, q)) (hle : v ≤ cv) (he : Evidence k c cv) :
    InvA k c (g ++ [.adv v cv t], cv + 1, q') := by
  obtain ⟨h1, h2, h3⟩ := h
  simp only at h1 h2 h3
  refine ⟨by simp, ?_, ?_⟩
  · simp only [List.map_append, List.map_cons, GRec.advFrom, GRec.advTo, List.map_nil]
    rw [h2]; simp
  · intro f cv' t' hm
    simp only [List.mem_append, List.mem_singleton] at hm
    rcases hm with hm | hm
    · exact h3 f cv' t' hm
    · cases hm; exact ⟨hle, he⟩

theorem InvA_hqc (k : Keys) (c : RCfg) (g : List GRec) (v : Nat) (q q' : QC)
    (h : InvA k c (g, v, q)) : InvA k c (g, v, q') := h

theorem InvA_step (k : Keys) (c : RCfg) (g : List GRec) (v : Nat) (q q' : QC) (view : Nat) (t : Bool)
    (h : InvA k c (g.filter GRec.isAdv, v, q)) (hle : v ≤ view) (he : view = 0 ∨ Evidence k c view) :
    InvA k c ((g ++ [GRec.adv v view t]).filter GRec.isAdv, view + 1, q') := by
  have h1 : 1 ≤ v := h.1
  have he' : Evidence k c view := by
    rcases he with he | he
    · omega
    · exact he
  have : (g ++ [GRec.adv v view t]).filter GRec.isAdv = g.filter GRec.isAdv ++ [GRec.adv v view t] := by
    simp [List.filter_append, GRec.isAdv]
  rw [this]
  exact InvA_adv k c _ v view t q q' h hle he'

/-- like `lift_proj`, for result facts that mention the final state -/
theorem lift_projS {α X} (proj : RState → X) (P : X → Prop) (f : M α) (R : α → RState → Prop)
    (hf : ∀ x, ⦃fun s => ⌜proj s = x⌝⦄ f ⦃⇓ r s => ⌜proj s = x ∧ R r s⌝⦄) :
    ⦃fun s => ⌜P (proj s)⌝⦄ f ⦃⇓ r s => ⌜P (proj s) ∧ R r s⌝⦄ := by
  apply triple_of_forall (proj := proj)
  intro x
  by_cases hx : P x
  · apply Triple.entails_wp_of_pre_post (hf x)
    · intro s h; exact h.1
    · refine ⟨?_, by simp⟩
      intro a s h
      have h' : proj s = x ∧ R a s := h
      show P (proj s) ∧ R a s
      rw [h'.1]; exact ⟨hx, h'.2⟩
  · intro s h
    exact absurd (by have := h.2; rw [h.1] at this; exact this) hx

/-- the QC names a stored block of exactly the QC's view (or is the genesis QC) -/
def QCBlockView (q : QC) (s : RState) : Prop :=
  (q.hash = genesisHash ∧ q.view = 0) ∨ ∃ b, s.chain.blocks.lookup q.hash = some b ∧ b.view = q.view

theorem verifyQC_blockView (k : Keys) (c : RCfg) (s : RState) (q : QC) (h : verifyQC (env k c s) q = true) :
    QCBlockView q s := by
  unfold verifyQC at h
  split at h
  · left; rename_i hg; exact ⟨by simpa using hg, by simpa using h⟩
  · right
    split at h
    · simp at h
    · split at h
      · simp at h
      · split at h
        · simp at h
        · rename_i b hb
          split at h
          · simp at h
          · rename_i hv
            exact ⟨b, hb, by simp at hv; exact hv.symm⟩

theorem verifyQCM_bv (k : Keys) (c : RCfg) (q : QC) (x) :
    ⦃fun s => ⌜AP s = x⌝⦄ verifyQCM k c q ⦃⇓ r s => ⌜AP s = x ∧ (r = true → QCBlockView q s)⌝⦄ := by
  mvcgen [verifyQCM, fetchFor_ap]
  all_goals simp_all +zetaDelta
  all_goals (first | exact verifyQC_blockView k c _ q | skip)

theorem verifyAggM_go_bv (k : Keys) (c : RCfg) (l : List QC) (x) :
    ⦃fun s => ⌜AP s = x⌝⦄ verifyAggM.go k c l ⦃⇓ r s => ⌜AP s = x ∧ (∀ q, r = .ok q → QCBlockView q s)⌝⦄ := by
  induction l with
  | nil => mvcgen [verifyAggM.go] <;> simp_all +zetaDelta
  | cons q rest ih => mvcgen [verifyAggM.go, verifyQCM_bv, ih] <;> simp_all +zetaDelta

theorem verifyAggM_bv (k : Keys) (c : RCfg) (a : AggQC) (x) :
    ⦃fun s => ⌜AP s = x⌝⦄ verifyAggM k c a ⦃⇓ r s => ⌜AP s = x ∧ (∀ q, r = .ok q → QCBlockView q s)⌝⦄ := by
  mvcgen [verifyAggM, verifyAggM_go_bv] <;> simp_all +zetaDelta

theorem verifySyncInfo_bv (k : Keys) (c : RCfg) (si : SyncInfo) (x) :
    ⦃fun s => ⌜AP s = x⌝⦄ verifySyncInfo k c si
    ⦃⇓ r s => ⌜AP s = x ∧ (∀ q view t, r = .ok (some q, view, t) → QCBlockView q s)⌝⦄ := by
  mvcgen [verifySyncInfo, verifyTCM_ap, verifyQCM_bv, verifyAggM_bv] <;> simp_all +zetaDelta

section InvAChain
variable (k : Keys) (c : RCfg)

local notation "IA" => (fun (s : RState) => InvA k c (AP s))

theorem emit_ia (o : Out) : ⦃fun s => ⌜InvA k c (AP s)⌝⦄ emit o ⦃⇓ _ s => ⌜InvA k c (AP s)⌝⦄ := lift_proj' AP _ _ (emit_ap o)
theorem addEvent_ia (e : Ev) : ⦃fun s => ⌜InvA k c (AP s)⌝⦄ addEvent e ⦃⇓ _ s => ⌜InvA k c (AP s)⌝⦄ := lift_proj' AP _ _ (addEvent_ap e)
theorem getBlock_ia (h : Hash) : ⦃fun s => ⌜InvA k c (AP s)⌝⦄ getBlock h ⦃⇓ _ s => ⌜InvA k c (AP s)⌝⦄ := lift_proj' AP _ _ (getBlock_ap h)
theorem signMsg_ia (m : Msg) : ⦃fun s => ⌜InvA k c (AP s)⌝⦄ signMsg c m ⦃⇓ _ s => ⌜InvA k c (AP s)⌝⦄ := lift_proj' AP _ _ (signMsg_ap c m)
theorem collectVote_ia (id : Nat) (sig : Option Sig) (h : Hash) (d : Bool) :
    ⦃fun s => ⌜InvA k c (AP s)⌝⦄ collectVote k c id sig h d ⦃⇓ _ s => ⌜InvA k c (AP s)⌝⦄ := lift_proj' AP _ _ (collectVote_ap k c id sig h d)
theorem voterVerify_ia (id : Nat) (b : Block) (agg : Option AggQC) :
    ⦃fun s => ⌜InvA k c (AP s)⌝⦄ voterVerify k c id b agg ⦃⇓ _ s => ⌜InvA k c (AP s)⌝⦄ := lift_proj' AP _ _ (voterVerify_ap k c id b agg)
theorem onValidPropose_ia (id : Nat) (b : Block) :
    ⦃fun s => ⌜InvA k c (AP s)⌝⦄ onValidPropose k c id b ⦃⇓ _ s => ⌜InvA k c (AP s)⌝⦄ := lift_proj' AP _ _ (onValidPropose_ap k c id b)
theorem createAndPropose_ia (si : SyncInfo) :
    ⦃fun s => ⌜InvA k c (AP s)⌝⦄ createAndPropose k c si ⦃⇓ _ s => ⌜InvA k c (AP s)⌝⦄ := lift_proj' AP _ _ (createAndPropose_ap k c si)
theorem verifySyncInfo_ia (si : SyncInfo) :
    ⦃fun s => ⌜InvA k c (AP s)⌝⦄ verifySyncInfo k c si
    ⦃⇓ r s => ⌜InvA k c (AP s) ∧ (∀ qc view t, r = .ok (qc, view, t) → view = 0 ∨ Evidence k c view)⌝⦄ :=
  lift_proj AP _ _ (fun r => ∀ qc view t, r = VRes.ok (qc, view, t) → view = 0 ∨ Evidence k c view) (verifySyncInfo_ev k c si)

theorem advanceView_ia (si : SyncInfo) :
    ⦃fun s => ⌜InvA k c (AP s)⌝⦄ advanceView k c si ⦃⇓ _ s => ⌜InvA k c (AP s)⌝⦄ := by
  mvcgen [advanceView, verifySyncInfo_ia, getBlock_ia, addEvent_ia, createAndPropose_ia, emit_ia]
  all_goals simp_all +zetaDelta
  all_goals (first
    | exact InvA_step k c _ _ _ _ _ _ ‹InvA k c (AP _)› ‹_ ≤ _› (And.right ‹_ ∧ _›)
    | exact InvA_step k c _ _ _ _ _ _ (And.left ‹_ ∧ _›) ‹_ ≤ _› (And.right ‹_ ∧ _›))

theorem onRemoteTimeout_ia (t : TimeoutMsg) :
    ⦃fun s => ⌜InvA k c (AP s)⌝⦄ onRemoteTimeout k c t ⦃⇓ _ s => ⌜InvA k c (AP s)⌝⦄ := by
  mvcgen [onRemoteTimeout, advanceView_ia]
  all_goals simp_all +zetaDelta

theorem onLocalTimeout_ia :
    ⦃fun s => ⌜InvA k c (AP s)⌝⦄ onLocalTimeout k c ⦃⇓ _ s => ⌜InvA k c (AP s)⌝⦄ := by
  mvcgen [onLocalTimeout, onRemoteTimeout_ia, emit_ia, signMsg_ia]
  all_goals simp_all +zetaDelta [AP, List.filter_append, GRec.isAdv]

theorem onPropose_ia (id : Nat) (b : Block) (agg : Option AggQC) :
    ⦃fun s => ⌜InvA k c (AP s)⌝⦄ onPropose k c id b agg ⦃⇓ _ s => ⌜InvA k c (AP s)⌝⦄ := by
  mvcgen [onPropose, advanceView_ia, voterVerify_ia, onValidPropose_ia, emit_ia]
  all_goals simp_all +zetaDelta

theorem tick_ia :
    ⦃fun s => ⌜InvA k c (AP s)⌝⦄ tick k c ⦃⇓ _ s => ⌜InvA k c (AP s)⌝⦄ := by
  mvcgen [tick, onPropose_ia, onRemoteTimeout_ia, onLocalTimeout_ia, advanceView_ia, collectVote_ia, emit_ia]
  all_goals simp_all +zetaDelta

theorem runLoop_ia (fuel : Nat) :
    ⦃fun s => ⌜InvA k c (AP s)⌝⦄ runLoop k c fuel ⦃⇓ _ s => ⌜InvA k c (AP s)⌝⦄ := by
  induction fuel with
  | zero => mvcgen [runLoop]
  | succ n ih => mvcgen [runLoop, tick_ia, ih]

end InvAChain
end HsVerif.Model
