import HsVerif.Proofs.SysRotateGlue
/-!
ROTATING LEADERS, task S12f: the LAST leader of a chain of views — only the destination of the last votes — need not be a participant.
`ba_step_rot'` / `ba_deliver_rot'` (the unused hypothesis `c2 ∈ C.honest` dropped), `chain_view_rot_last` (the last view: concludes
only `Link` and `CommitStep`), `synced_commits_rot'`, `commit_after_recovery_rot_core'`.  Scripted copies of the originals.
-/
open Std.Do
set_option mvcgen.warning false
set_option linter.unusedSimpArgs false
set_option linter.unusedVariables false
namespace HsVerif.Model
open HsVerif.Proofs HsVerif.Props.C08 HsVerif.Props.C01Sys HsVerif.Props.C01SysWF HsVerif.Props.C03 HsVerif.SysSafety
open HsVerif.Props.C05Cover

theorem ba_step_rot' (k : Keys) (C : SysCfg) (c c2 w N : Nat) (hC : RotCfg C) (hc1 : ldr C (w + 1) = c)
    (hc2 : ldr C (w + 1 + 1) = c2) (B' B P : Block) (sgq : Sig) (y1 : SysState)
    (hN : N + 12 ≤ 99999)
    (hpre : ∀ j ∈ C.honest, j ≠ c → ∃ s, y1.reps.lookup j = some s ∧ SyncM w N B P s)
    (hb1 : B'.hash = pname (w + 1)) (hb2 : B'.parent = B.hash) (hb3 : B'.view = w + 1)
    (hb4 : B'.qc = ⟨some sgq, B.view, B.hash⟩)
    (hv1 : verify (fun b => y1.truth.lookup b) (C.rcfg c).cfg sgq (blkMsg B.hash) = true) (hv2 : (C.rcfg c).cfg.quorum ≤ sgq.len)
    (bt' : Nat → Nat) (done : List Nat) (σ : SysState) (acc : Msgs) (j : Nat)
    (hinv : BAInvR C c c2 w N B' B P y1 bt' done (σ, acc)) (hj : j ∈ C.honest) (hjL : j ≠ c) (hnew : j ∉ done) :
    ∃ bt'', BAInvR C c c2 w N B' B P y1 bt'' (done ++ [j]) (deliverAll k C (σ, acc) [propMsg c B' j]) := by
  obtain ⟨s0, hl0, hS0⟩ := hpre j hj hjL
  have hl : σ.reps.lookup j = some s0 := by rw [hinv.undone j hjL hnew]; exact hl0
  obtain ⟨σ', hd, r1, r2, r3⟩ := deliver_effect k C σ acc j (Ev.propose c B' none) s0 hl
  have hjmem : j ∈ σ.reps.map (·.1) := by rw [hinv.keys]; exact hj
  have hver : verify (fun b => σ.truth.lookup b) (C.rcfg j).cfg sgq (blkMsg B.hash) = true :=
    verify_mono _ _ _ _ _ (fun b a hb => hinv.table b a hb) hv1
  let sT : RState := { s0 with truth := σ.truth, nextBytes := σ.nextBytes }
  have hnewB : sT.chain.blocks.lookup B'.hash = none := by rw [hb1]; exact (hS0.core.names (w + 1) (by omega)).1
  have hqB : sT.chain.blocks.lookup B'.qc.hash = some B := by rw [hb4]; exact hS0.core.hasB
  show ∃ bt'', BAInvR C c c2 w N B' B P y1 bt'' (done ++ [j]) (deliverAll k C (σ, acc) [(j, Ev.propose c B' none)])
  rw [hd]
  have hnotV : ¬ VotedR c c2 done j := by
    rintro (⟨e, _⟩ | ⟨e, _⟩)
    · exact hjL e
    · exact hnew e
  by_cases hjc2 : j = c2
  · -- the next collector
    subst hjc2
    obtain ⟨n1, n2, n3, n4, n6, n7, ⟨bytes, n8, n9, n10⟩, n11⟩ := nl_step_coll k (C.rcfg j) c w N B P B' sgq sT
      hC.scheme hC.agg hC.rules hc1 hjL hc2 (hC.has j j hj) (hC.quorum j).1
      (syncR_with_table hS0.core _ _) hinv.fresh hN hb1 hb2 hb3 hb4 hver hv2
    have hM : SyncM (w + 1) (N + 3) B' B (step k (C.rcfg j) sT (.propose c B' none)).1 :=
      ⟨n1, mark_step sT _ B B' n7 hS0.core.fetch n1.fetch n6 hnewB hqB hS0.mark, by rw [n4, hb4]; exact Nat.le_refl _⟩
    have hroute := n10 C
    rw [rcfg_id] at hroute
    refine ⟨bt', by rw [r2, r3]; exact n2, by rw [r1, keys_setKV _ _ _ hjmem]; exact hinv.keys, ?_, ?_, ?_, ?_, ?_, ?_, ?_⟩
    · intro b a hb
      rw [r2]; exact n3.truth b a (hinv.table b a hb)
    · rw [r1, lookup_setKV_other _ _ _ _ (fun e => hjL e.symm)]; exact hinv.coll
    · intro i hi hin
      simp only [List.mem_append, List.mem_singleton, not_or] at hin
      rw [r1, lookup_setKV_other _ _ _ _ hin.2]; exact hinv.undone i hi hin.1
    · intro i hi
      simp only [List.mem_append, List.mem_singleton] at hi
      by_cases hij : i = j
      · subst hij
        refine ⟨s0, _, hl0, by rw [r1]; exact lookup_setKV_same _ _ _, hM, ?_, fun h => absurd rfl h, ?_⟩
        · exact ⟨fun h b hb => n3.store h b hb, fun Z hZ => (n11 Z (walkZ_with_table hZ _ _)).1,
            fun Z hZ l1 l2 l3 => ((n11 Z (walkZ_with_table hZ _ _)).2 l1 l2 l3).1⟩
        · intro _
          refine ⟨Sig.multi C.scheme [⟨i, bytes⟩], n9, Or.inl ⟨hC.scheme, bytes, rfl, ?_⟩⟩
          rw [r2]; exact n8
      · rcases hi with hi | hi
        · obtain ⟨t0, t, d1, d2, d3, d4, d5, d6⟩ := hinv.did i hi
          refine ⟨t0, t, d1, by rw [r1, lookup_setKV_other _ _ _ _ hij]; exact d2, d3, d4, ?_, ?_⟩
          · intro h; rw [r2]; exact n3.truth _ _ (d5 h)
          · intro h
            obtain ⟨sg, e1, e2⟩ := d6 h
            exact ⟨sg, e1, honestSig_mono (fun b a hb => by rw [r2]; exact n3.truth b a hb) e2⟩
        · exact absurd hi hij
    · intro h; rw [r2]; exact n3.truth _ _ (hinv.btc h)
    · intro i hi
      have hi' : VotedR c j done i := by
        rcases hi with h | ⟨h1, h2⟩
        · exact Or.inl h
        · simp only [List.mem_append, List.mem_singleton] at h1
          rcases h1 with h1 | h1
          · exact Or.inr ⟨h1, h2⟩
          · exact absurd h1 h2
      show (acc ++ route C j _).find? (fromVote i) = _
      rw [List.find?_append, hinv.flyd i hi']; rfl
    · intro i hi
      have hi' : ¬ VotedR c j done i := by
        intro h; apply hi
        rcases h with h | ⟨h1, h2⟩
        · exact Or.inl h
        · exact Or.inr ⟨by simp [h1], h2⟩
      show (acc ++ route C j _).find? (fromVote i) = _
      rw [List.find?_append, hinv.flyn i hi', hroute]
      simp [fromVote]
  · -- an ordinary replica: its vote goes to `c2`
    obtain ⟨n1, n2, n3, n4, n5, n6, n7, ⟨bytes, n8, n10⟩, n11⟩ := nl_step_rot k (C.rcfg j) c c2 w N B P B' sgq sT
      hC.scheme hC.agg hC.rules hc1 hjL hc2 hjc2
      (syncR_with_table hS0.core _ _) hinv.fresh hN hb1 hb2 hb3 hb4 hver hv2
    have hM : SyncM (w + 1) (N + 3) B' B (step k (C.rcfg j) sT (.propose c B' none)).1 :=
      ⟨n1, mark_step sT _ B B' n7 hS0.core.fetch n1.fetch n6 hnewB hqB hS0.mark, by rw [n4, hb4]; exact Nat.le_refl _⟩
    have hroute := n10 C
    rw [rcfg_id] at hroute
    let bt'' : Nat → Nat := fun i => if i = j then bytes else bt' i
    have hvm : ∀ i, i ≠ j → voteMsg C c2 B'.hash bt'' i = voteMsg C c2 B'.hash bt' i := by
      intro i hi; simp [voteMsg, bt'', hi]
    refine ⟨bt'', by rw [r2, r3]; exact n2, by rw [r1, keys_setKV _ _ _ hjmem]; exact hinv.keys, ?_, ?_, ?_, ?_, ?_, ?_, ?_⟩
    · intro b a hb
      rw [r2]; exact n3.truth b a (hinv.table b a hb)
    · rw [r1, lookup_setKV_other _ _ _ _ (fun e => hjL e.symm)]; exact hinv.coll
    · intro i hi hin
      simp only [List.mem_append, List.mem_singleton, not_or] at hin
      rw [r1, lookup_setKV_other _ _ _ _ hin.2]; exact hinv.undone i hi hin.1
    · intro i hi
      simp only [List.mem_append, List.mem_singleton] at hi
      by_cases hij : i = j
      · subst hij
        refine ⟨s0, _, hl0, by rw [r1]; exact lookup_setKV_same _ _ _, hM, ?_, ?_, fun h => absurd h hjc2⟩
        · exact ⟨fun h b hb => n3.store h b hb, fun Z hZ => (n11 Z (walkZ_with_table hZ _ _)).1,
            fun Z hZ l1 l2 l3 => ((n11 Z (walkZ_with_table hZ _ _)).2 l1 l2 l3).1⟩
        · intro _
          show σ'.truth.lookup (if i = i then bytes else bt' i) = _
          rw [r2, if_pos rfl]; exact n8
      · rcases hi with hi | hi
        · obtain ⟨t0, t, d1, d2, d3, d4, d5, d6⟩ := hinv.did i hi
          refine ⟨t0, t, d1, by rw [r1, lookup_setKV_other _ _ _ _ hij]; exact d2, d3, d4, ?_, ?_⟩
          · intro h
            show σ'.truth.lookup (if i = j then bytes else bt' i) = _
            rw [r2, if_neg hij]; exact n3.truth _ _ (d5 h)
          · intro h
            obtain ⟨sg, e1, e2⟩ := d6 h
            exact ⟨sg, e1, honestSig_mono (fun b a hb => by rw [r2]; exact n3.truth b a hb) e2⟩
        · exact absurd hi hij
    · intro h
      show σ'.truth.lookup (if c = j then bytes else bt' c) = _
      rw [r2, if_neg (fun e => hjL e.symm)]; exact n3.truth _ _ (hinv.btc h)
    · intro i hi
      show (acc ++ route C j _).find? (fromVote i) = _
      by_cases hij : i = j
      · subst hij
        rw [List.find?_append, hinv.flyn i hnotV, hroute]
        simp [fromVote, voteMsg, bt'']; rfl
      · have hi' : VotedR c c2 done i := by
          rcases hi with h | ⟨h1, h2⟩
          · exact Or.inl h
          · simp only [List.mem_append, List.mem_singleton] at h1
            rcases h1 with h1 | h1
            · exact Or.inr ⟨h1, h2⟩
            · exact absurd h1 hij
        rw [List.find?_append, hinv.flyd i hi', hvm i hij]; rfl
    · intro i hi
      have hij : i ≠ j := fun e => hi (Or.inr ⟨by simp [e], e ▸ hjc2⟩)
      have hi' : ¬ VotedR c c2 done i := by
        intro h; apply hi
        rcases h with h | ⟨h1, h2⟩
        · exact Or.inl h
        · exact Or.inr ⟨by simp [h1], h2⟩
      show (acc ++ route C j _).find? (fromVote i) = _
      rw [List.find?_append, hinv.flyn i hi', hroute]
      have : (j == i) = false := by simpa using fun e => hij e.symm
      simp [fromVote, this]

theorem ba_deliver_rot' (k : Keys) (C : SysCfg) (c c2 w N : Nat) (hC : RotCfg C) (hc1 : ldr C (w + 1) = c)
    (hc2 : ldr C (w + 1 + 1) = c2) (B' B P : Block) (sgq : Sig) (y1 : SysState)
    (hN : N + 12 ≤ 99999)
    (hpre : ∀ j ∈ C.honest, j ≠ c → ∃ s, y1.reps.lookup j = some s ∧ SyncM w N B P s)
    (hb1 : B'.hash = pname (w + 1)) (hb2 : B'.parent = B.hash) (hb3 : B'.view = w + 1)
    (hb4 : B'.qc = ⟨some sgq, B.view, B.hash⟩)
    (hv1 : verify (fun b => y1.truth.lookup b) (C.rcfg c).cfg sgq (blkMsg B.hash) = true) (hv2 : (C.rcfg c).cfg.quorum ≤ sgq.len) :
    ∀ (ord done : List Nat) (bt' : Nat → Nat) (x : SysState × Msgs), BAInvR C c c2 w N B' B P y1 bt' done x → ord.Nodup →
      (∀ j ∈ ord, j ∈ C.honest ∧ j ≠ c ∧ j ∉ done) →
      ∃ bt'', BAInvR C c c2 w N B' B P y1 bt'' (done ++ ord) (deliverAll k C x (ord.map (propMsg c B'))) := by
  intro ord
  induction ord with
  | nil => intro done bt' x h _ _; exact ⟨bt', by rw [List.append_nil]; exact h⟩
  | cons j rest ih =>
    intro done bt' x h hnd hall
    obtain ⟨σ, acc⟩ := x
    obtain ⟨h1, h2, h3⟩ := hall j (by simp)
    obtain ⟨bt1, hstep⟩ := ba_step_rot' k C c c2 w N hC hc1 hc2 B' B P sgq y1 hN hpre hb1 hb2 hb3 hb4 hv1 hv2 bt' done σ acc j
      h h1 h2 h3
    simp only [List.map_cons]
    rw [show (propMsg c B' j :: rest.map (propMsg c B')) = [propMsg c B' j] ++ rest.map (propMsg c B') from rfl,
      deliverAll_append]
    obtain ⟨bt2, this⟩ := ih (done ++ [j]) bt1 _ hstep (List.nodup_cons.mp hnd).2 (by
      intro i hi
      obtain ⟨q1, q2, q3⟩ := hall i (by simp [hi])
      refine ⟨q1, q2, ?_⟩
      simp only [List.mem_append, List.mem_singleton, not_or]
      exact ⟨q3, fun e => (List.nodup_cons.mp hnd).1 (e ▸ hi)⟩)
    rw [List.append_assoc] at this
    exact ⟨bt2, this⟩

/-- **The LAST view of a chain, rotating leaders**: as `chain_view_rot`, but the leader of view `w + 2` — only the destination of the
votes for `B'` — need NOT be a participant (it may be silent); concluded is only what the committers have done.  Original docstring:
`A(w, B) ⟶ A(w + 1, B')`: phase A at `(w, B)` with the votes in flight to the
collector `leader (w + 1)`; the leaders of views `w + 1` and `w + 2` are participants.  The votes are delivered in ANY order
`ordV`, then the proposals of `B'` in ANY order `ordP` (orders of the participants other than `leader (w + 1)`).  Afterwards: phase
A at `(w + 1, B')` — collector `leader (w + 2)` —, the votes for `B'` are in flight to it (the proposer's own vote included), and
every participant's committer has made its step. -/
theorem chain_view_rot_last (k : Keys) (C : SysCfg) (w N : Nat) (hC : RotCfg C) (B P : Block) (bt : Nat → Nat)
    (x : SysState × Msgs) (hN : N + 12 ≤ 99999) (hA : PhaseARot C w N B P bt x.1)
    (hfly : VotesFly C (ldr C (w + 1)) B.hash bt x.2)
    (ordV ordP : List Nat) (hV : OthersOrder C (ldr C (w + 1)) ordV) (hP : OthersOrder C (ldr C (w + 1)) ordP) :
    ∃ (B' : Block), Link B' B ∧
      ∀ j ∈ C.honest, ∃ s0 s, x.1.reps.lookup j = some s0 ∧ (chainViewRot k C ordV ordP x).1.reps.lookup j = some s ∧
        CommitStep w B P s0 s := by
  have hqlen : (C.rcfg 0).cfg.quorum ≤ ordV.length + 1 := by
    have h1 : C.honest.length ≤ (ldr C (w + 1) :: ordV).length := by
      apply nodup_length_le _ _ hC.nodup
      intro z hz
      by_cases hzl : z = ldr C (w + 1)
      · simp [hzl]
      · exact List.mem_cons_of_mem _ (hV.full z hz hzl)
    have := hC.qh
    simp only [List.length_cons] at h1
    omega
  obtain ⟨sc0, hl0, hfin⟩ := chain_round_AB_rot k C w N hC B P bt x.1 hN hA ordV hV.nodup hV.mem hqlen
  have hvi := votesIn_eq C (ldr C (w + 1)) B.hash bt x.2 hfly ordV hV.mem
  obtain ⟨B', sc, sgq, m1, m2, m3, m4, m5, m6, m7, m8, m9, m10, m11⟩ := hfin.moved hqlen
  let y := deliverAll k C (x.1, []) (ordV.map (voteMsg C (ldr C (w + 1)) B.hash bt))
  have hBv : B.view = w := by obtain ⟨s, _, hs⟩ := hA.reps _ hA.cmem; exact hs.core.bview
  have hBh : B.hash = pname w := by obtain ⟨s, _, hs⟩ := hA.reps _ hA.cmem; exact hs.core.bhash
  -- the pool after the votes round: the proposals, and the proposer's own vote if it goes elsewhere
  have hprops : ∀ mm ∈ y.2, isProp mm = true → ∃ j, mm = propMsg (ldr C (w + 1)) B' j := by
    intro mm hm hp
    by_cases hcc : ldr C (w + 1 + 1) = ldr C (w + 1)
    · rw [(m10 hcc).1] at hm
      obtain ⟨j, _, rfl⟩ := List.mem_map.mp hm
      exact ⟨j, rfl⟩
    · obtain ⟨bytes', _, e2⟩ := m11 hcc
      rw [e2] at hm
      simp only [List.mem_append, List.mem_singleton] at hm
      rcases hm with hm | rfl
      · obtain ⟨j, _, rfl⟩ := List.mem_map.mp hm
        exact ⟨j, rfl⟩
      · simp [ownVoteMsg, isProp] at hp
  have hpmem : ∀ j ∈ ordP, propMsg (ldr C (w + 1)) B' j ∈ y.2 := by
    intro j hj
    have hjo : j ∈ othersOf C (ldr C (w + 1)) := by
      unfold othersOf
      simp only [List.mem_filter, bne_iff_ne, ne_eq]
      exact ⟨(hP.mem j hj).1, (hP.mem j hj).2⟩
    by_cases hcc : ldr C (w + 1 + 1) = ldr C (w + 1)
    · rw [(m10 hcc).1]; exact List.mem_map_of_mem hjo
    · obtain ⟨bytes', _, e2⟩ := m11 hcc
      rw [e2]; exact List.mem_append_left _ (List.mem_map_of_mem hjo)
  have hpi := propsIn_of_pool (ldr C (w + 1)) B' y.2 ordP hprops hpmem
  -- the initial invariant of the proposal round
  have hpre : ∀ j ∈ C.honest, j ≠ ldr C (w + 1) → ∃ s, y.1.reps.lookup j = some s ∧ SyncM w N B P s := by
    intro j hj hjc
    obtain ⟨s, h1, h2⟩ := hA.reps j hj
    exact ⟨s, by rw [hfin.others j hjc]; exact h1, h2⟩
  obtain ⟨bt0, hinit⟩ : ∃ bt0, BAInvR C (ldr C (w + 1)) (ldr C (w + 1 + 1)) w N B' B P y.1 bt0 [] (y.1, y.2.filter isVoteEv) := by
    by_cases hcc : ldr C (w + 1 + 1) = ldr C (w + 1)
    · have hf : y.2.filter isVoteEv = [] := by rw [(m10 hcc).1]; exact filter_vote_props _ _ _
      refine ⟨fun _ => 0, hfin.fresh, hfin.keys, fun _ _ h => h, rfl, fun _ _ _ => rfl, by simp, fun h => absurd hcc h, ?_, ?_⟩
      · rintro j (⟨_, h⟩ | ⟨h, _⟩)
        · exact absurd hcc.symm h
        · simp at h
      · intro j _; rw [hf]; rfl
    · obtain ⟨bytes', e1, e2⟩ := m11 hcc
      have hf : y.2.filter isVoteEv = [ownVoteMsg C (ldr C (w + 1 + 1)) (ldr C (w + 1)) B'.hash bytes'] := by
        rw [e2, List.filter_append, filter_vote_props]; rfl
      refine ⟨fun _ => bytes', hfin.fresh, hfin.keys, fun _ _ h => h, rfl, fun _ _ _ => rfl, by simp, fun _ => e1, ?_, ?_⟩
      · rintro j (⟨h, _⟩ | ⟨h, _⟩)
        · subst h; rw [hf]; simp [ownVoteMsg, fromVote, voteMsg]
        · simp at h
      · intro j hj
        have hjc : j ≠ ldr C (w + 1) := fun e => hj (Or.inl ⟨e, fun e' => hcc e'.symm⟩)
        rw [hf]
        have : (ldr C (w + 1) == j) = false := by simpa using fun e => hjc e.symm
        simp [ownVoteMsg, fromVote, this]
  obtain ⟨bt', hz⟩ := ba_deliver_rot' k C _ _ w N hC rfl rfl B' B P sgq y.1 hN hpre m3 m4 m5 m6 m7 m8 ordP [] bt0 _ hinit hP.nodup
    (fun j hj => ⟨(hP.mem j hj).1, (hP.mem j hj).2, by simp⟩)
  rw [List.nil_append] at hz
  have hcv : chainViewRot k C ordV ordP x = deliverAll k C (y.1, y.2.filter isVoteEv) (ordP.map (propMsg (ldr C (w + 1)) B')) := by
    unfold chainViewRot
    rw [hvi, hpi]
  rw [hcv]
  have hlk : (deliverAll k C (y.1, y.2.filter isVoteEv) (ordP.map (propMsg (ldr C (w + 1)) B'))).1.reps.lookup (ldr C (w + 1)) = some sc := by
    rw [hz.coll]; exact m1
  refine ⟨B', ⟨m4, by rw [m6], by rw [m5, hBv], by rw [hBh]; exact pname_ne_empty _⟩, ?_⟩
  · intro j hj
    by_cases hjc : j = ldr C (w + 1)
    · subst hjc
      exact ⟨sc0, sc, hl0, hlk, m9⟩
    · obtain ⟨s0, s, d1, d2, _, d4, _, _⟩ := hz.did j (hP.full j hj hjc)
      exact ⟨s0, s, by rw [← hfin.others j hjc]; exact d1, d2, d4⟩

/-- **From a synchronised view to a commit with ROTATING leaders** (and a silent minority): the leaders of the views `w + 1 … w + 4`
are participants (`∈ C.honest`) — possibly four different replicas.  PRIMED VERSION: the leader of view `w + 4`, only the destination of
the last votes, need NOT be a participant.  In phase A at `(w, B)` (collector: the leader of `w + 1`) with
the votes in flight and the committer's walk from `B` possible at every participant, run three views of the chain (votes, then
proposals, each in any order; the orders range over the participants other than the collector of that view).  Then EVERY
participant has committed `B`. -/
theorem synced_commits_rot' (k : Keys) (C : SysCfg) (w N : Nat) (hC : RotCfg C) (B P : Block) (bt : Nat → Nat)
    (x : SysState × Msgs) (hN : N + 18 ≤ 99999) (hA : PhaseARot C w N B P bt x.1)
    (hfly : VotesFly C (ldr C (w + 1)) B.hash bt x.2)
    (hwalk : ∀ j ∈ C.honest, ∃ s, x.1.reps.lookup j = some s ∧ WalkZ B s)
    (hl2 : ldr C (w + 2) ∈ C.honest) (hl3 : ldr C (w + 3) ∈ C.honest)
    (v1 p1 v2 p2 v3 p3 : List Nat)
    (hv1 : OthersOrder C (ldr C (w + 1)) v1) (hp1 : OthersOrder C (ldr C (w + 1)) p1)
    (hv2 : OthersOrder C (ldr C (w + 2)) v2) (hp2 : OthersOrder C (ldr C (w + 2)) p2)
    (hv3 : OthersOrder C (ldr C (w + 3)) v3) (hp3 : OthersOrder C (ldr C (w + 3)) p3) :
    ∃ (B1 B2 B3 : Block),
      Link B1 B ∧ Link B2 B1 ∧ Link B3 B2 ∧
      ∀ j ∈ C.honest, ∃ s0 s, x.1.reps.lookup j = some s0 ∧
        (chainViewRot k C v3 p3 (chainViewRot k C v2 p2 (chainViewRot k C v1 p1 x))).1.reps.lookup j = some s ∧
        s.committed = B ∧ s0.committed.view < s.committed.view := by
  obtain ⟨B1, bt1, a1, a2, a3, a4⟩ := chain_view_rot k C w N hC B P bt x (by omega) hA hfly hl2 v1 p1 hv1 hp1
  obtain ⟨B2, bt2, b1, b2, b3, b4⟩ := chain_view_rot k C (w + 1) (N + 3) hC B1 B bt1 _ (by omega) a1 a2 hl3 v2 p2 hv2 hp2
  obtain ⟨B3, c3, c4⟩ := chain_view_rot_last k C (w + 1 + 1) (N + 3 + 3) hC B2 B1 bt2 _ (by omega) b1 b2 v3 p3 hv3 hp3
  refine ⟨B1, B2, B3, a3, b3, c3, ?_⟩
  intro j hj
  obtain ⟨s0, s1, d1, d2, d3⟩ := a4 j hj
  obtain ⟨s1', s2, e1, e2, e3⟩ := b4 j hj
  obtain ⟨s2', s3, f1, f2, f3⟩ := c4 j hj
  rw [d2] at e1; cases e1
  rw [e2] at f1; cases f1
  obtain ⟨s0', g1, g2⟩ := hwalk j hj
  rw [d1] at g1; cases g1
  obtain ⟨hB0, hBv⟩ := hA.hasB j hj s0 d1
  have w1 := d3.walk B g2 (by omega)
  have w2 := e3.walk B w1 (by omega)
  have hB2 : s2.chain.blocks.lookup B.hash = some B := e3.store _ _ (d3.store _ _ hB0)
  have hcm := f3.commit B w2 b3 a3 hB2
  exact ⟨s0, s3, d1, f2, hcm, by rw [hcm]; exact g2.below⟩

/-- **Commit after recovery with rotating leaders** (and a silent minority): the leaders of the views `v + 1 … v + 5` are
participants; PRIMED VERSION: the leader of `v + 5`, which only receives votes, need NOT be a participant, the leaders of `v + 1` and `v + 2` differ.  From any reachable state that satisfies
`RecPreLive` (leader `ldr C (v + 1)`), `RecStart`, `CA'`, `KeysOK`, `SyncPreRot`: timeout messages (any order), proposals (any order),
three views of the chain (any orders) — every participant has committed the block `b'` of view `v + 1` proposed after the recovery. -/
theorem commit_after_recovery_rot_core' (k : Keys) (C : SysCfg) (hC : RotCfg C) (D : RecData) (s0 : Nat → RState)
    (σ0 : SysState) (blk : Hash → Block) (hk : KeysOK k) (hr : Reach k C σ0) (hca : CA' σ0 blk)
    (hne12 : ldr C (D.v + 1) ≠ ldr C (D.v + 1 + 1))
    (hl2 : ldr C (D.v + 1 + 1) ∈ C.honest) (hl3 : ldr C (D.v + 1 + 2) ∈ C.honest) (hl4 : ldr C (D.v + 1 + 3) ∈ C.honest)
    (hP : RecPreLive k C D s0 (ldr C (D.v + 1)) σ0.truth) (h0 : RecStart C s0 σ0.truth σ0)
    (msgs : List (Nat × Nat)) (hm : FullOrder C msgs) (N : Nat) (hY : SyncPreRot C D s0 N)
    (ordP v1 p1 v2 p2 v3 p3 : List Nat) (hordP : OthersOrder C (ldr C (D.v + 1)) ordP)
    (hv1 : OthersOrder C (ldr C (D.v + 1 + 1)) v1) (hp1 : OthersOrder C (ldr C (D.v + 1 + 1)) p1)
    (hv2 : OthersOrder C (ldr C (D.v + 1 + 2)) v2) (hp2 : OthersOrder C (ldr C (D.v + 1 + 2)) p2)
    (hv3 : OthersOrder C (ldr C (D.v + 1 + 3)) v3) (hp3 : OthersOrder C (ldr C (D.v + 1 + 3)) p3) :
    ∃ (i : Nat) (b' : Block), i ∈ C.honest ∧ Top C D i ∧ b'.view = D.v + 1 ∧ b'.qc = D.hq i ∧ b'.proposer = ldr C (D.v + 1) ∧
      ∀ j ∈ C.honest, ∃ s,
        (chainViewRot k C v3 p3 (chainViewRot k C v2 p2 (chainViewRot k C v1 p1
          (proposalRoundR k C ordP (recoveryRound k C D σ0 msgs))))).1.reps.lookup j = some s ∧
        s.committed = b' ∧ s.committed.view = D.v + 1 ∧ (s0 j).committed.view < s.committed.view := by
  obtain ⟨i, b', bt, r1, r2, r3, r4, r5, a1, a2, a3⟩ := recovery_reaches_phaseA_rot k C _ _ hC D s0 σ0 blk hk hr hca rfl rfl hne12 hl2
    hP h0 msgs hm N hY ordP hordP
  obtain ⟨B1, B2, B3, _, _, _, c6⟩ := synced_commits_rot' k C (D.v + 1) (N + 2) hC b' (D.hb i) bt _
    (by have := hY.pre.bound; omega) a1 a2 a3 hl3 hl4 v1 p1 v2 p2 v3 p3 hv1 hp1 hv2 hp2 hv3 hp3
  refine ⟨i, b', r1, r2, r3, r4, r5, ?_⟩
  intro j hj
  obtain ⟨_, s, _, d2, d3, _⟩ := c6 j hj
  have hv : s.committed.view = D.v + 1 := by rw [d3]; exact r3
  exact ⟨s, d2, d3, hv, by rw [hv]; have := hY.pre.committed j hj; omega⟩


end HsVerif.Model
