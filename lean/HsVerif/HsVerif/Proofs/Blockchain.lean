import HsVerif.Model.Blockchain
/-! Helper lemmas for C13 (block store, ancestry, pruning). -/
set_option linter.unusedVariables false
namespace HsVerif.Model.Chain

/-! ### association-list maps -/

theorem mget_mset (m : BMap) (k k' : Nat) (b : Block) :
    mget (mset m k b) k' = if k' = k then some b else mget m k' := by
  unfold mget mset
  simp only [List.lookup_cons]
  by_cases h : k' = k
  · subst h; simp
  · have : (k' == k) = false := by simp [h]
    simp [this, h]

theorem mget_mdel (m : BMap) (k k' : Nat) :
    mget (mdel m k) k' = if k' = k then none else mget m k' := by
  unfold mget mdel
  induction m with
  | nil => simp
  | cons e m ih =>
    obtain ⟨a, b⟩ := e
    by_cases ha : a = k
    · subst ha
      simp only [List.filter_cons, bne_self_eq_false, Bool.false_eq_true, ↓reduceIte, ih, List.lookup_cons]
      by_cases h : k' = a
      · simp [h]
      · have : (k' == a) = false := by simp [h]
        simp [h, this]
    · have hne : (a != k) = true := by simp [ha]
      simp only [List.filter_cons, hne, ↓reduceIte, List.lookup_cons, ih]
      by_cases h : k' = a
      · subst h; simp [ha]
      · have : (k' == a) = false := by simp [h]
        simp [this]

/-! ### ancestry through a lookup function -/

/-- `OnChain look b t`: `t` is `b` itself or lies on `b`'s parent chain, where a parent link can
only be followed if `look` knows the parent hash (a chain stops at a missing block). -/
inductive OnChain (look : Nat → Option Block) : Block → Block → Prop
  | refl (b : Block) : OnChain look b b
  | step {b p t : Block} : look b.parent = some p → OnChain look p t → OnChain look b t

/-- the parent of `c`, if known, has a strictly smaller view -/
def Grows (look : Nat → Option Block) (c : Block) : Prop := ∀ p, look c.parent = some p → p.view < c.view

/-- views strictly grow along every parent link between known blocks -/
def ViewsGrow (look : Nat → Option Block) : Prop := ∀ h c, look h = some c → Grows look c

theorem OnChain.view_le {look : Nat → Option Block} (hvg : ViewsGrow look) {b t : Block}
    (hb : Grows look b) (h : OnChain look b t) : t.view ≤ b.view := by
  induction h with
  | refl b => exact Nat.le_refl _
  | step hp _ ih =>
    have := hb _ hp
    have := ih (hvg _ _ hp)
    omega

theorem OnChain.trans {look : Nat → Option Block} {a b c : Block}
    (h1 : OnChain look a b) (h2 : OnChain look b c) : OnChain look a c := by
  induction h1 with
  | refl _ => exact h2
  | step hp _ ih => exact OnChain.step hp (ih h2)

/-! ### store invariants -/

/-- content addressing: the block kept under key `h` has hash `h` -/
def Consistent (s : Store) : Prop := ∀ h b, mget s.blocks h = some b → b.hash = h

/-- the per-view map points at stored blocks of that view -/
def HeightWF (s : Store) : Prop :=
  ∀ v b, mget s.atHeight v = some b → b.view = v ∧ mget s.blocks b.hash = some b

/-- what `RequestBlockQF` guarantees about a sender: a reply has the requested hash -/
def HonestNet (net : Net) : Prop := ∀ h b, (net h).reply = some b → b.hash = h

/-- the two copies of one block that can race in `Get` (stored by another goroutine while the
reply is on its way) are the same block: collision resistance, restricted to where it is used -/
def RaceInj (net : Net) : Prop :=
  ∀ h a b, (net h).arrive = some a → (net h).reply = some b → a.hash = b.hash → a = b

theorem requestBlockQF_hash (h : Nat) (replies : List Block) (b : Block)
    (hb : requestBlockQF h replies = some b) : b.hash = h ∧ b ∈ replies := by
  unfold requestBlockQF at hb
  have h1 := List.find?_some hb
  have h2 := List.mem_of_find?_eq_some hb
  exact ⟨by simpa using h1, h2⟩

theorem requestBlockQF_none (h : Nat) (replies : List Block)
    (hb : requestBlockQF h replies = none) : ∀ b ∈ replies, b.hash ≠ h := by
  unfold requestBlockQF at hb
  intro b hm
  have := List.find?_eq_none.mp hb b hm
  simpa using this

theorem init_eq : init = ⟨[(1, genesis)], [(0, genesis)], 0⟩ := by
  simp [init, store, mget, mset, genesis]

theorem consistent_init : Consistent init := by
  intro h b hb
  rw [init_eq] at hb
  simp only [mget, List.lookup_cons, List.lookup_nil] at hb
  by_cases hh : h = 1
  · subst hh; simp at hb; rw [← hb]; rfl
  · have : (h == 1) = false := by simp [hh]
    simp [this] at hb

theorem heightWF_init : HeightWF init := by
  intro v b hb
  rw [init_eq] at hb ⊢
  simp only [mget, List.lookup_cons, List.lookup_nil] at hb ⊢
  by_cases hv : v = 0
  · subst hv; simp at hb; subst hb; simp [genesis]
  · have : (v == 0) = false := by simp [hv]
    simp [this] at hb

theorem store_blocks_mono (s : Store) (b : Block) (h : Nat) (x : Block)
    (hx : mget s.blocks h = some x) : mget (store s b).blocks h = some x := by
  unfold store
  split
  · exact hx
  · rename_i hn
    simp only [mget_mset]
    split
    · rename_i e; subst e; rw [hn] at hx; cases hx
    · exact hx

theorem consistent_store (s : Store) (b : Block) (hs : Consistent s) : Consistent (store s b) := by
  unfold store
  split
  · exact hs
  · intro h x hx
    simp only [mget_mset] at hx
    split at hx
    · rename_i e; cases hx; exact e.symm
    · exact hs h x hx

theorem heightWF_store (s : Store) (b : Block) (hs : HeightWF s) : HeightWF (store s b) := by
  unfold store
  split
  · exact hs
  · rename_i hn
    intro v x hx
    simp only [mget_mset] at hx ⊢
    split at hx
    · rename_i e; cases hx; simp [e]
    · obtain ⟨h1, h2⟩ := hs v x hx
      refine ⟨h1, ?_⟩
      split
      · rename_i e; rw [e, hn] at h2; cases h2
      · exact h2

/-- storing a block whose hash is present changes nothing -/
theorem store_present (s : Store) (b x : Block) (h : mget s.blocks b.hash = some x) : store s b = s := by
  unfold store; rw [h]

theorem store_get_self (s : Store) (b : Block) (hs : Consistent s) :
    ∃ x, mget (store s b).blocks b.hash = some x ∧ x.hash = b.hash := by
  unfold store
  split
  · rename_i x hx; exact ⟨x, hx, hs _ _ hx⟩
  · exact ⟨b, by simp [mget_mset], rfl⟩

/-! ### Get -/

theorem consistent_arrived (s : Store) (f : Fetch) (hs : Consistent s) : Consistent (arrived s f) := by
  unfold arrived; split
  · exact consistent_store _ _ hs
  · exact hs

theorem heightWF_arrived (s : Store) (f : Fetch) (hs : HeightWF s) : HeightWF (arrived s f) := by
  unfold arrived; split
  · exact heightWF_store _ _ hs
  · exact hs

theorem arrived_blocks_mono (s : Store) (f : Fetch) (k : Nat) (x : Block)
    (hx : mget s.blocks k = some x) : mget (arrived s f).blocks k = some x := by
  unfold arrived; split
  · exact store_blocks_mono _ _ _ _ hx
  · exact hx

theorem get_result_hash (s : Store) (net : Net) (h : Nat) (b : Block) (hs : Consistent s)
    (hn : HonestNet net) (hg : (get s net h).2 = some b) : b.hash = h := by
  unfold get at hg
  split at hg
  · rename_i x hx; simp at hg; subst hg; exact hs _ _ hx
  · have hs1 := consistent_arrived s (net h) hs
    cases hr : (net h).reply with
    | none => rw [hr] at hg; exact hs1 _ _ hg
    | some r => rw [hr] at hg; simp [fetched] at hg; subst hg; exact hn _ _ hr

theorem consistent_get (s : Store) (net : Net) (h : Nat) (hs : Consistent s) (hn : HonestNet net) :
    Consistent (get s net h).1 := by
  unfold get
  split
  · exact hs
  · have hs1 := consistent_arrived s (net h) hs
    cases hr : (net h).reply with
    | none => exact hs1
    | some r =>
      intro k x hx
      simp only [fetched, mget_mset] at hx
      split at hx
      · rename_i e; cases hx; rw [e]; exact hn _ _ hr
      · exact hs1 _ _ hx

theorem get_blocks_mono (s : Store) (net : Net) (h k : Nat) (x : Block)
    (hx : mget s.blocks k = some x) : ∃ y, mget (get s net h).1.blocks k = some y := by
  unfold get
  split
  · exact ⟨x, hx⟩
  · have h1 := arrived_blocks_mono s (net h) k x hx
    cases hr : (net h).reply with
    | none => exact ⟨x, h1⟩
    | some r =>
      simp only [fetched, mget_mset]
      split
      · exact ⟨_, rfl⟩
      · exact ⟨x, h1⟩

theorem heightWF_get (s : Store) (net : Net) (h : Nat) (hs : Consistent s) (hw : HeightWF s)
    (hn : HonestNet net) (hr : RaceInj net) : HeightWF (get s net h).1 := by
  unfold get
  split
  · exact hw
  · rename_i hnone
    have hs1 := consistent_arrived s (net h) hs
    have hw1 := heightWF_arrived s (net h) hw
    cases hrep : (net h).reply with
    | none => exact hw1
    | some r =>
      have hrh : r.hash = h := hn _ _ hrep
      intro v x hx
      simp only [fetched, mget_mset] at hx ⊢
      split at hx
      · rename_i e; cases hx; simp [e, hrh]
      · obtain ⟨h1, h2⟩ := hw1 v x hx
        refine ⟨h1, ?_⟩
        split
        · rename_i e
          -- x is stored under the requested hash although the local lookup failed: it arrived
          -- during the fetch, so it is the block that was replied
          rw [e] at h2
          unfold arrived at h2
          cases harr : (net h).arrive with
          | none =>
            simp only [harr] at h2
            rw [hnone] at h2; cases h2
          | some a =>
            simp only [harr] at h2
            unfold store at h2
            split at h2
            · rw [hnone] at h2; cases h2
            · simp only [mget_mset] at h2
              split at h2
              · cases h2
                have := hr h x r harr hrep (by rw [e, hrh])
                rw [this]
              · rw [hnone] at h2; cases h2
        · exact h2

/-! ### Extends over a sender without concurrent arrivals -/

/-- what `Get` can find: the local map first, then the sender -/
def lookF (s : Store) (f : Nat → Option Block) (h : Nat) : Option Block :=
  match mget s.blocks h with
  | some b => some b
  | none => f h

theorem get_pure (s : Store) (f : Nat → Option Block) (h : Nat) :
    (get s (pureNet f) h).2 = lookF s f h ∧ lookF (get s (pureNet f) h).1 f = lookF s f := by
  unfold get lookF
  cases hm : mget s.blocks h with
  | some b => simp
  | none =>
    simp only [pureNet, arrived]
    cases hf : f h with
    | none => simp [fetched, hm]
    | some r =>
      refine ⟨by simp [fetched], ?_⟩
      funext k
      simp only [fetched, mget_mset]
      by_cases hk : k = h
      · subst hk; simp [hm, hf]
      · simp [hk]

theorem extendsAux_look (f : Nat → Option Block) (t : Block) (fuel : Nat) (s : Store) (b : Block) :
    lookF (extendsAux (pureNet f) t fuel s b).1 f = lookF s f := by
  induction fuel generalizing s b with
  | zero => rfl
  | succ n ih =>
    unfold extendsAux
    split
    · obtain ⟨h1, h2⟩ := get_pure s f b.parent
      cases hg : get s (pureNet f) b.parent with
      | mk s' r =>
        rw [hg] at h1 h2
        cases r with
        | none => simpa using h2
        | some p => simp only; rw [ih]; exact h2
    · rfl

theorem extendsAux_complete (f : Nat → Option Block) (t : Block) (fuel : Nat) (s : Store) (b : Block)
    (hvg : ViewsGrow (lookF s f)) (hb : Grows (lookF s f) b) (hc : OnChain (lookF s f) b t)
    (hfuel : b.view < fuel) : (extendsAux (pureNet f) t fuel s b).2 = true := by
  induction fuel generalizing s b with
  | zero => omega
  | succ n ih =>
    unfold extendsAux
    cases hc with
    | refl => simp
    | step hp hrest =>
      rename_i p
      have h1 : p.view < b.view := hb _ hp
      have h2 : t.view ≤ p.view := OnChain.view_le hvg (hvg _ _ hp) hrest
      have h3 : t.view < b.view := by omega
      simp only [h3, ↓reduceIte]
      obtain ⟨g1, g2⟩ := get_pure s f b.parent
      cases hg : get s (pureNet f) b.parent with
      | mk s' r =>
        rw [hg] at g1 g2
        simp only at g1 g2
        rw [hp] at g1
        subst g1
        simp only
        apply ih
        · rw [g2]; exact hvg
        · rw [g2]; exact hvg _ _ hp
        · rw [g2]; exact hrest
        · omega

theorem extendsAux_sound (f : Nat → Option Block) (t : Block) (fuel : Nat) (s : Store) (b : Block)
    (h : (extendsAux (pureNet f) t fuel s b).2 = true) :
    ∃ c, OnChain (lookF s f) b c ∧ c.hash = t.hash ∧ c.view ≤ t.view := by
  induction fuel generalizing s b with
  | zero => simp [extendsAux] at h
  | succ n ih =>
    unfold extendsAux at h
    split at h
    · obtain ⟨g1, g2⟩ := get_pure s f b.parent
      cases hg : get s (pureNet f) b.parent with
      | mk s' r =>
        rw [hg] at g1 g2 h
        simp only at g1 g2
        cases r with
        | none => simp at h
        | some p =>
          simp only at h
          obtain ⟨c, hc1, hc2, hc3⟩ := ih s' p h
          rw [g2] at hc1
          exact ⟨c, OnChain.step g1.symm hc1, hc2, hc3⟩
    · rename_i hv
      exact ⟨b, OnChain.refl b, by simpa using h, by omega⟩

/-- with no sender at all the store is not touched -/
theorem extendsAux_local_store (t : Block) (fuel : Nat) (s : Store) (b : Block) :
    (extendsAux (pureNet fun _ => none) t fuel s b).1 = s := by
  induction fuel generalizing b with
  | zero => rfl
  | succ n ih =>
    unfold extendsAux
    split
    · have : get s (pureNet fun _ => none) b.parent = (s, mget s.blocks b.parent) := by
        unfold get
        cases hm : mget s.blocks b.parent <;> simp [pureNet, arrived, fetched, hm]
      rw [this]
      cases mget s.blocks b.parent with
      | none => rfl
      | some p => exact ih p
    · rfl

theorem lookF_none (s : Store) : lookF s (fun _ => none) = mget s.blocks := by
  funext h; unfold lookF; cases mget s.blocks h <;> rfl

/-! ### PruneToHeight (repaired) -/

theorem markChain_acc (s : Store) (fuel : Nat) (block : Block) (acc : List Nat) (x : Nat)
    (hx : x ∈ acc) : x ∈ markChain s fuel block acc := by
  induction fuel generalizing block acc with
  | zero => exact hx
  | succ n ih =>
    unfold markChain
    split
    · exact hx
    · split
      · exact hx
      · exact ih _ _ (List.mem_cons_of_mem _ hx)

/-- every block of the committed branch that is not below the prune height gets marked -/
theorem markChain_complete (s : Store) (fuel : Nat) (block r : Block) (acc : List Nat)
    (hvg : ViewsGrow (mget s.blocks)) (hb : Grows (mget s.blocks) block)
    (hc : OnChain (mget s.blocks) block r) (hr : s.pruneHeight ≤ r.view)
    (hfuel : block.view < fuel) (hacc : block.hash ∈ acc) : r.hash ∈ markChain s fuel block acc := by
  induction fuel generalizing block acc with
  | zero => omega
  | succ n ih =>
    cases hc with
    | refl => exact markChain_acc _ _ _ _ _ hacc
    | step hp hrest =>
      rename_i p
      have h1 : p.view < block.view := hb _ hp
      have h2 : r.view ≤ p.view := OnChain.view_le hvg (hvg _ _ hp) hrest
      unfold markChain
      rw [hp]
      have : ¬ p.view < s.pruneHeight := by omega
      simp only [this, ↓reduceIte]
      exact ih p _ (hvg _ _ hp) hrest (by omega) (List.mem_cons_self ..)

theorem sweep_mem (marked : List Nat) (n h : Nat) (m : BMap) (r : Block) (hn : n ≤ h)
    (hr : r ∈ (sweep marked h n m).1) :
    ∃ v, h - n < v ∧ v ≤ h ∧ mget m v = some r ∧ marked.contains r.hash = false := by
  induction n generalizing h m with
  | zero => simp [sweep] at hr
  | succ k ih =>
    unfold sweep at hr
    simp only [List.mem_append] at hr
    rcases hr with hr | hr
    · cases hm : mget m h with
      | none => rw [hm] at hr; simp at hr
      | some b =>
        rw [hm] at hr
        simp only at hr
        split at hr
        · simp at hr
        · rename_i hc
          simp at hr; subst hr
          exact ⟨h, by omega, Nat.le_refl _, hm, by simpa using hc⟩
    · obtain ⟨v, h1, h2, h3, h4⟩ := ih (h - 1) (mdel m h) (by omega) hr
      rw [mget_mdel] at h3
      split at h3
      · cases h3
      · exact ⟨v, by omega, by omega, h3, h4⟩

theorem sweep_map (marked : List Nat) (n h : Nat) (m : BMap) (v : Nat) (hn : n ≤ h) :
    mget (sweep marked h n m).2 v = if h - n < v ∧ v ≤ h then none else mget m v := by
  induction n generalizing h m with
  | zero =>
    simp only [sweep]
    have : ¬ (h - 0 < v ∧ v ≤ h) := by omega
    rw [if_neg this]
  | succ k ih =>
    unfold sweep
    simp only
    rw [ih (h - 1) (mdel m h) (by omega), mget_mdel]
    by_cases hv : v = h
    · subst hv
      have h1 : ¬ (v - 1 - k < v ∧ v ≤ v - 1) := by omega
      have h2 : (v - (k + 1) < v ∧ v ≤ v) := by omega
      simp [h1, h2]
    · simp only [hv, ↓reduceIte]
      by_cases hc : h - 1 - k < v ∧ v ≤ h - 1
      · have : h - (k + 1) < v ∧ v ≤ h := by omega
        simp [hc, this]
      · have : ¬ (h - (k + 1) < v ∧ v ≤ h) := by omega
        simp [hc, this]

/-- reported blocks come out in strictly decreasing view order -/
theorem sweep_pairwise (marked : List Nat) (n h : Nat) (m : BMap) (hn : n ≤ h)
    (hm : ∀ v b, mget m v = some b → b.view = v) :
    (sweep marked h n m).1.Pairwise (fun a b => b.view < a.view) := by
  induction n generalizing h m with
  | zero => simp [sweep]
  | succ k ih =>
    unfold sweep
    simp only
    have hm' : ∀ v b, mget (mdel m h) v = some b → b.view = v := by
      intro v b hb
      rw [mget_mdel] at hb
      split at hb
      · cases hb
      · exact hm v b hb
    rw [List.pairwise_append]
    refine ⟨?_, ih (h - 1) (mdel m h) (by omega) hm', ?_⟩
    · cases mget m h with
      | none => simp
      | some b => simp only; split <;> simp
    · intro a ha b hb
      obtain ⟨v, h1, h2, h3, _⟩ := sweep_mem marked k (h - 1) (mdel m h) b (by omega) hb
      have hbv := hm' v b h3
      have hav : a.view = h := by
        cases hmh : mget m h with
        | none => rw [hmh] at ha; simp at ha
        | some x =>
          rw [hmh] at ha
          simp only at ha
          split at ha
          · simp at ha
          · simp at ha; subst ha; exact hm _ _ hmh
      omega

theorem prune_forked_spec (fuel : Nat) (s : Store) (c : Block) (height : Nat) (r : Block)
    (hr : r ∈ (pruneToHeight fuel s c height).2) :
    ∃ v, s.pruneHeight < v ∧ v ≤ height ∧ mget s.atHeight v = some r ∧
      r.hash ∉ markChain s fuel c [c.hash] := by
  unfold pruneToHeight at hr
  simp only at hr
  obtain ⟨v, h1, h2, h3, h4⟩ := sweep_mem _ _ _ _ r (Nat.sub_le _ _) hr
  refine ⟨v, by omega, h2, h3, ?_⟩
  intro hin
  have : (markChain s fuel c [c.hash]).contains r.hash = true := by simpa using hin
  rw [this] at h4; cases h4

theorem prune_only_forks (fuel : Nat) (s : Store) (c : Block) (height : Nat) (r : Block)
    (hw : HeightWF s) (hvg : ViewsGrow (mget s.blocks)) (hc : Grows (mget s.blocks) c)
    (hfuel : c.view < fuel) (hr : r ∈ (pruneToHeight fuel s c height).2) :
    ¬ OnChain (mget s.blocks) c r := by
  intro hon
  obtain ⟨v, h1, h2, h3, h4⟩ := prune_forked_spec fuel s c height r hr
  have hv := (hw v r h3).1
  exact h4 (markChain_complete s fuel c r _ hvg hc hon (by omega) hfuel (List.mem_cons_self ..))

theorem prune_blocks (fuel : Nat) (s : Store) (c : Block) (height : Nat) :
    (pruneToHeight fuel s c height).1.blocks = s.blocks := rfl

theorem prune_atHeight (fuel : Nat) (s : Store) (c : Block) (height : Nat) (v : Nat) :
    mget (pruneToHeight fuel s c height).1.atHeight v =
      if s.pruneHeight < v ∧ v ≤ height then none else mget s.atHeight v := by
  unfold pruneToHeight
  simp only
  rw [sweep_map _ _ _ _ _ (Nat.sub_le _ _)]
  by_cases h : s.pruneHeight < v ∧ v ≤ height
  · have : height - (height - s.pruneHeight) < v ∧ v ≤ height := by omega
    simp [h, this]
  · have : ¬ (height - (height - s.pruneHeight) < v ∧ v ≤ height) := by omega
    simp [h, this]

theorem heightWF_prune (fuel : Nat) (s : Store) (c : Block) (height : Nat) (hw : HeightWF s) :
    HeightWF (pruneToHeight fuel s c height).1 := by
  intro v b hb
  rw [prune_atHeight] at hb
  split at hb
  · cases hb
  · exact hw v b hb

/-! ### reports over a whole run -/

/-- hashes reported so far: still stored, and gone from the per-view map for good -/
def Reported (s : Store) (R : List Nat) : Prop :=
  ∀ h ∈ R, (∃ x, mget s.blocks h = some x) ∧ ∀ v b, mget s.atHeight v = some b → b.hash ≠ h

structure Inv (s : Store) (R : List Nat) : Prop where
  cons : Consistent s
  wf : HeightWF s
  rep : Reported s R

theorem inv_store (s : Store) (R : List Nat) (b : Block) (hi : Inv s R) : Inv (store s b) R := by
  refine ⟨consistent_store _ _ hi.cons, heightWF_store _ _ hi.wf, ?_⟩
  intro h hh
  obtain ⟨⟨x, hx⟩, h2⟩ := hi.rep h hh
  refine ⟨⟨x, store_blocks_mono _ _ _ _ hx⟩, ?_⟩
  unfold store
  split
  · exact h2
  · rename_i hn
    intro v y hy
    simp only [mget_mset] at hy
    split at hy
    · cases hy
      intro e
      rw [e, hx] at hn; cases hn
    · exact h2 v y hy

theorem inv_get (s : Store) (R : List Nat) (net : Net) (h : Nat) (hn : HonestNet net)
    (hr : RaceInj net) (hi : Inv s R) : Inv (get s net h).1 R := by
  refine ⟨consistent_get _ _ _ hi.cons hn, heightWF_get _ _ _ hi.cons hi.wf hn hr, ?_⟩
  unfold get
  split
  · exact hi.rep
  · rename_i hnone
    have h1 : Inv (arrived s (net h)) R := by
      unfold arrived; split
      · exact inv_store _ _ _ hi
      · exact hi
    cases hrep : (net h).reply with
    | none => exact h1.rep
    | some r =>
      intro k hk
      obtain ⟨⟨x, hx⟩, h2⟩ := h1.rep k hk
      have hkh : k ≠ h := by
        intro e
        obtain ⟨⟨y, hy⟩, _⟩ := hi.rep k hk
        rw [e, hnone] at hy; cases hy
      refine ⟨⟨x, by simp only [fetched, mget_mset, hkh, ↓reduceIte]; exact hx⟩, ?_⟩
      intro v y hy
      simp only [fetched, mget_mset] at hy
      split at hy
      · cases hy
        rw [hn _ _ hrep]; exact fun e => hkh e.symm
      · exact h2 v y hy

theorem inv_extendsAux (R : List Nat) (net : Net) (t : Block) (fuel : Nat) (s : Store) (b : Block)
    (hn : HonestNet net) (hr : RaceInj net) (hi : Inv s R) : Inv (extendsAux net t fuel s b).1 R := by
  induction fuel generalizing s b with
  | zero => exact hi
  | succ n ih =>
    unfold extendsAux
    split
    · have := inv_get s R net b.parent hn hr hi
      cases hg : get s net b.parent with
      | mk s' r =>
        rw [hg] at this
        cases r with
        | none => exact this
        | some p => exact ih s' p this
    · exact hi

theorem inv_commitInner (R : List Nat) (net : Net) (c : Block) (fuel : Nat) (s : Store) (b : Block)
    (hn : HonestNet net) (hr : RaceInj net) (hi : Inv s R) : Inv (commitInner net c fuel s b).1 R := by
  induction fuel generalizing s b with
  | zero => exact hi
  | succ n ih =>
    unfold commitInner
    split
    · exact hi
    · have := inv_get s R net b.parent hn hr hi
      cases hg : get s net b.parent with
      | mk s' r =>
        rw [hg] at this
        cases r with
        | none => exact this
        | some p =>
          have h2 := ih s' p this
          simp only
          cases hc : commitInner net c n s' p with
          | mk s2 o =>
            rw [hc] at h2
            cases o <;> exact h2

theorem inv_prune (R : List Nat) (fuel : Nat) (s : Store) (c : Block) (height : Nat) (hi : Inv s R)
    (hnd : R.Nodup) :
    Inv (pruneToHeight fuel s c height).1 (((pruneToHeight fuel s c height).2.map (·.hash)) ++ R) ∧
    (((pruneToHeight fuel s c height).2.map (·.hash)) ++ R).Nodup := by
  have hspec := prune_forked_spec fuel s c height
  constructor
  · refine ⟨hi.cons, heightWF_prune _ _ _ _ hi.wf, ?_⟩
    intro h hh
    rw [List.mem_append] at hh
    rcases hh with hh | hh
    · obtain ⟨r, hr, rfl⟩ := List.mem_map.mp hh
      obtain ⟨v, h1, h2, h3, _⟩ := hspec r hr
      obtain ⟨hv, hb⟩ := hi.wf v r h3
      refine ⟨⟨r, hb⟩, ?_⟩
      intro v' y hy e
      rw [prune_atHeight] at hy
      split at hy
      · cases hy
      · rename_i hnot
        obtain ⟨hv', hb'⟩ := hi.wf v' y hy
        rw [e, hb] at hb'
        cases hb'
        omega
    · obtain ⟨hx, h2⟩ := hi.rep h hh
      refine ⟨hx, ?_⟩
      intro v y hy
      rw [prune_atHeight] at hy
      split at hy
      · cases hy
      · exact h2 v y hy
  · rw [List.nodup_append]
    refine ⟨?_, hnd, ?_⟩
    · have hp : (pruneToHeight fuel s c height).2.Pairwise (fun a b => b.view < a.view) := by
        unfold pruneToHeight
        exact sweep_pairwise _ _ _ _ (Nat.sub_le _ _) (fun v b hb => (hi.wf v b hb).1)
      rw [List.nodup_iff_pairwise_ne, List.pairwise_map]
      refine List.Pairwise.imp_of_mem ?_ hp
      intro a b ha hb hlt e
      obtain ⟨va, _, _, ha3, _⟩ := hspec a ha
      obtain ⟨vb, _, _, hb3, _⟩ := hspec b hb
      have h1 := (hi.wf va a ha3).2
      have h2 := (hi.wf vb b hb3).2
      rw [e, h2] at h1
      cases h1
      omega
    · intro x hx y hy e
      obtain ⟨r, hr, rfl⟩ := List.mem_map.mp hx
      obtain ⟨v, _, _, h3, _⟩ := hspec r hr
      exact (hi.rep y hy).2 v r h3 e

/-! ### operation sequences -/

/-- the atomic operations of the store and of the committer, each with the network behaviour it
meets (`ext` = `Extends`) -/
inductive Op
  | store (b : Block)
  | get (net : Net) (h : Nat)
  | ext (net : Net) (b t : Block)
  | prune (c : Block) (height : Nat)
  | tryCommit (net : Net) (b : Block) (target : Option Block)

/-- replies have passed `RequestBlockQF`; racing copies of one block are one block -/
def GoodNet (net : Net) : Prop := HonestNet net ∧ RaceInj net

def Op.good : Op → Prop
  | .get net _ => GoodNet net
  | .ext net _ _ => GoodNet net
  | .tryCommit net _ _ => GoodNet net
  | _ => True

/-- one operation; second component: the blocks it reported as forked -/
def stepOp (fuel : Nat) (cs : CState) : Op → CState × List Block
  | .store b => ({ cs with store := store cs.store b }, [])
  | .get net h => ({ cs with store := (get cs.store net h).1 }, [])
  | .ext net b t => ({ cs with store := (extendsAux net t fuel cs.store b).1 }, [])
  | .prune c height => ({ cs with store := (pruneToHeight fuel cs.store c height).1 },
      (pruneToHeight fuel cs.store c height).2)
  | .tryCommit net b target =>
    match tryCommit fuel net cs b target with
    | (cs', .ok _ ab) => (cs', ab)
    | (cs', _) => (cs', [])

/-- state and all hashes reported so far (newest first) -/
def runFrom (fuel : Nat) : CState × List Nat → List Op → CState × List Nat
  | st, [] => st
  | (cs, R), op :: ops => runFrom fuel ((stepOp fuel cs op).1, (stepOp fuel cs op).2.map (·.hash) ++ R) ops

def run (fuel : Nat) (ops : List Op) : CState × List Nat := runFrom fuel (cinit, []) ops

theorem inv_commit (R : List Nat) (fuel : Nat) (net : Net) (cs : CState) (b : Block)
    (hg : GoodNet net) (hi : Inv cs.store R) (hnd : R.Nodup) :
    (∀ cs' ex ab, commit fuel net cs b = (cs', .ok ex ab) →
        Inv cs'.store (ab.map (·.hash) ++ R) ∧ (ab.map (·.hash) ++ R).Nodup) ∧
    (∀ cs', commit fuel net cs b = (cs', .error) → Inv cs'.store R) ∧
    (∀ cs', commit fuel net cs b ≠ (cs', .nothing)) := by
  have h1 := inv_commitInner R net cs.committed fuel cs.store b hg.1 hg.2 hi
  unfold commit
  cases hc : commitInner net cs.committed fuel cs.store b with
  | mk s1 o =>
    rw [hc] at h1
    cases o with
    | none =>
      refine ⟨?_, ?_, ?_⟩
      · intro cs' ex ab h; simp at h
      · intro cs' h; simp at h; rw [← h]; exact h1
      · intro cs' h; simp at h
    | some ex =>
      refine ⟨?_, ?_, ?_⟩
      · intro cs' ex' ab h
        simp only [Prod.mk.injEq, CommitResult.ok.injEq] at h
        obtain ⟨h2, _, h4⟩ := h
        rw [← h2, ← h4]
        exact inv_prune R fuel s1 _ _ h1 hnd
      · intro cs' h; simp at h
      · intro cs' h; simp at h

theorem inv_stepOp (R : List Nat) (fuel : Nat) (cs : CState) (op : Op) (hg : op.good)
    (hi : Inv cs.store R) (hnd : R.Nodup) :
    Inv (stepOp fuel cs op).1.store ((stepOp fuel cs op).2.map (·.hash) ++ R) ∧
    ((stepOp fuel cs op).2.map (·.hash) ++ R).Nodup := by
  cases op with
  | store b => exact ⟨inv_store _ _ _ hi, hnd⟩
  | get net h => exact ⟨inv_get _ _ _ _ hg.1 hg.2 hi, hnd⟩
  | ext net b t => exact ⟨inv_extendsAux _ _ _ _ _ _ hg.1 hg.2 hi, hnd⟩
  | prune c height => exact inv_prune R fuel cs.store c height hi hnd
  | tryCommit net b target =>
    have h0 : Inv (store cs.store b) R := inv_store _ _ _ hi
    unfold stepOp tryCommit
    cases target with
    | none => exact ⟨h0, hnd⟩
    | some t =>
      simp only
      obtain ⟨k1, k2, k3⟩ := inv_commit R fuel net { cs with store := store cs.store b } t hg h0 hnd
      cases hc : commit fuel net { cs with store := store cs.store b } t with
      | mk cs' res =>
        cases res with
        | nothing => exact absurd hc (k3 cs')
        | error => exact ⟨k2 cs' hc, hnd⟩
        | ok ex ab => exact k1 cs' ex ab hc

theorem inv_runFrom (fuel : Nat) (ops : List Op) (cs : CState) (R : List Nat)
    (hg : ∀ op ∈ ops, op.good) (hi : Inv cs.store R) (hnd : R.Nodup) :
    Inv (runFrom fuel (cs, R) ops).1.store (runFrom fuel (cs, R) ops).2 ∧
    (runFrom fuel (cs, R) ops).2.Nodup := by
  induction ops generalizing cs R with
  | nil => exact ⟨hi, hnd⟩
  | cons op ops ih =>
    unfold runFrom
    obtain ⟨h1, h2⟩ := inv_stepOp R fuel cs op (hg op (List.mem_cons_self ..)) hi hnd
    exact ih _ _ (fun o ho => hg o (List.mem_cons_of_mem _ ho)) h1 h2

theorem inv_cinit : Inv cinit.store [] :=
  ⟨consistent_init, heightWF_init, fun _ h => by cases h⟩

/-! ### a decidable check of `ViewsGrow` for concrete maps -/

def growsCheck (m : BMap) : Bool :=
  m.all fun e => match mget m e.2.parent with
    | some p => decide (p.view < e.2.view)
    | none => true

theorem mem_of_mget (m : BMap) (h : Nat) (c : Block) (hc : mget m h = some c) : (h, c) ∈ m := by
  unfold mget at hc
  induction m with
  | nil => simp at hc
  | cons e m ih =>
    obtain ⟨k, v⟩ := e
    simp only [List.lookup_cons] at hc
    split at hc
    · rename_i he
      cases hc
      have : h = k := by simpa using he
      subst this
      exact List.mem_cons_self ..
    · exact List.mem_cons_of_mem _ (ih hc)

theorem viewsGrow_of_check (m : BMap) (h : growsCheck m = true) : ViewsGrow (mget m) := by
  intro k c hc p hp
  have hm := mem_of_mget m k c hc
  unfold growsCheck at h
  have := List.all_eq_true.mp h (k, c) hm
  simp only [hp] at this
  simpa using this

/-! ### what the committer executes -/

theorem get_blocks_stable (s : Store) (net : Net) (h k : Nat) (x : Block)
    (hx : mget s.blocks k = some x) : mget (get s net h).1.blocks k = some x := by
  unfold get
  split
  · exact hx
  · rename_i hnone
    have h1 := arrived_blocks_mono s (net h) k x hx
    cases hr : (net h).reply with
    | none => exact h1
    | some r =>
      simp only [fetched, mget_mset]
      split
      · rename_i e; rw [e, hnone] at hx; cases hx
      · exact h1

theorem get_result_stored (s : Store) (net : Net) (h : Nat) (b : Block)
    (hg : (get s net h).2 = some b) : mget (get s net h).1.blocks h = some b := by
  unfold get at hg ⊢
  split
  · rename_i x hx; rw [hx] at hg; simp at hg; subst hg; simpa using hx
  · rename_i hnone
    rw [hnone] at hg
    simp only at hg
    cases hr : (net h).reply with
    | none => rw [hr] at hg; exact hg
    | some r => rw [hr] at hg; simp [fetched] at hg; subst hg; simp [fetched, mget_mset]

theorem commitInner_stable (net : Net) (c : Block) (fuel : Nat) (s : Store) (b : Block) (k : Nat)
    (x : Block) (hx : mget s.blocks k = some x) :
    mget (commitInner net c fuel s b).1.blocks k = some x := by
  induction fuel generalizing s b with
  | zero => exact hx
  | succ n ih =>
    unfold commitInner
    split
    · exact hx
    · have h1 := get_blocks_stable s net b.parent k x hx
      cases hg : get s net b.parent with
      | mk s1 r =>
        rw [hg] at h1
        cases r with
        | none => exact h1
        | some p =>
          have h2 := ih s1 p h1
          simp only
          cases hc : commitInner net c n s1 p with
          | mk s2 o =>
            rw [hc] at h2
            cases o <;> exact h2

theorem commitInner_chain (net : Net) (c : Block) (fuel : Nat) (s s2 : Store) (b : Block)
    (ex : List Block) (h : commitInner net c fuel s b = (s2, some ex)) :
    (∀ x ∈ ex, OnChain (mget s2.blocks) b x) ∧ (ex = [] ∨ ex.getLast? = some b) := by
  induction fuel generalizing s b ex with
  | zero => simp [commitInner] at h
  | succ n ih =>
    unfold commitInner at h
    split at h
    · simp at h; obtain ⟨_, h2⟩ := h; subst h2; simp
    · have hst := get_result_stored s net b.parent
      cases hg : get s net b.parent with
      | mk s1 r =>
        rw [hg] at h hst
        cases r with
        | none => simp at h
        | some p =>
          simp only at h
          have hp : mget s1.blocks b.parent = some p := hst p rfl
          have hstab := commitInner_stable net c n s1 p b.parent p hp
          cases hc : commitInner net c n s1 p with
          | mk s3 o =>
            rw [hc] at h hstab
            cases o with
            | none => simp at h
            | some ex' =>
              simp only [Prod.mk.injEq, Option.some.injEq] at h
              obtain ⟨h1, h2⟩ := h
              subst h1 h2
              obtain ⟨i1, _⟩ := ih s1 p ex' hc
              refine ⟨?_, Or.inr (by simp)⟩
              intro x hx
              rw [List.mem_append] at hx
              rcases hx with hx | hx
              · exact OnChain.step hstab (i1 x hx)
              · simp at hx; subst hx; exact OnChain.refl _

theorem commit_exec_chain (fuel : Nat) (net : Net) (cs cs' : CState) (block : Block)
    (ex ab : List Block) (h : commit fuel net cs block = (cs', .ok ex ab)) :
    ∀ x ∈ ex, OnChain (mget cs'.store.blocks) cs'.committed x := by
  unfold commit at h
  cases hci : commitInner net cs.committed fuel cs.store block with
  | mk s1 o =>
    rw [hci] at h
    cases o with
    | none => simp at h
    | some ex' =>
      simp only [Prod.mk.injEq, CommitResult.ok.injEq] at h
      obtain ⟨h2, h3, _⟩ := h
      subst h2 h3
      obtain ⟨i1, i2⟩ := commitInner_chain net cs.committed fuel cs.store s1 block ex' hci
      intro x hx
      rcases i2 with i2 | i2
      · subst i2; cases hx
      · simp only [i2, Option.getD_some, prune_blocks]
        exact i1 x hx

end HsVerif.Model.Chain
