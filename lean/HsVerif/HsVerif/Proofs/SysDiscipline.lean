import HsVerif.Proofs.ReplicaPair
import HsVerif.Proofs.Safety
import HsVerif.Props.C01Sys
import HsVerif.Props.C03Cur
/-!
C01, system layer, continued: the SYSTEM of replica models (Model/Sys.lean) as an instance of the
abstract safety argument (Proofs/Safety.lean).

1. The system invariant of Proofs/SysInv.lean extended by the per-replica invariants of
   Proofs/ReplicaCur.lean (`SysCur`, by induction over `Reach`): every honest replica satisfies
   `Cur` (the certificate of every block it voted for verifies against ITS current table and
   store) and `Stored` (every block voted for is stored under its hash), and its signature table is
   contained in the global one (a replica's copy is an earlier global table; the global table only
   grows because byte ids are fresh, `reach_fresh`).
2. The abstraction `SysAbs` (blocks = `Block`, parent through a function `blk : Hash → Block`,
   votes = ghost vote records, quorums = `quorumSize n` distinct ids `1..n`) and the content
   addressing hypothesis `CA`, with the helpers the property theorems of Props/C01SysWF.lean and
   their non-vacuity examples need.
-/
namespace HsVerif.Model
open HsVerif.Props HsVerif.Props.C03Cur

/-- what the extended system invariant says of honest replica `i` in state `s` -/
structure RepCur (k : Keys) (C : SysCfg) (σ : SysState) (i : Nat) (s : RState) : Prop where
  cur : Cur k (C.rcfg i) s
  stored : Stored s
  sub : ∀ b a, s.truth.lookup b = some a → σ.truth.lookup b = some a

def SysCur (k : Keys) (C : SysCfg) (σ : SysState) : Prop :=
  ∀ i s, σ.reps.lookup i = some s → RepCur k C σ i s

theorem sysInit_cur (k : Keys) (C : SysCfg) : SysCur k C (sysInit k C) := by
  intro i s h
  simp only [sysInit, lookup_init] at h
  split at h
  · cases h
    exact ⟨cur_init k _, fun b id hm => (by cases hm), fun b a hb => (by cases hb)⟩
  · cases h

theorem sys_set_cur (k : Keys) (C : SysCfg) (σ : SysState) (i : Nat) (s' : RState) (t' : List (Nat × Atom)) (nb : Nat)
    (h : SysCur k C σ)
    (hc : Cur k (C.rcfg i) s') (hs : Stored s') (hsub : ∀ b a, s'.truth.lookup b = some a → t'.lookup b = some a)
    (ht : ∀ b a, σ.truth.lookup b = some a → t'.lookup b = some a) :
    SysCur k C { reps := setKV i s' σ.reps, truth := t', nextBytes := nb } := by
  intro j sj hj
  by_cases hji : j = i
  · subst hji
    simp only [lookup_setKV_self] at hj
    cases hj
    exact ⟨hc, hs, hsub⟩
  · simp only [lookup_setKV_ne _ _ _ _ hji] at hj
    obtain ⟨h1, h2, h3⟩ := h j sj hj
    exact ⟨h1, h2, fun b a hb => ht b a (h3 b a hb)⟩

theorem sys_run_cur (k : Keys) (C : SysCfg) (σ : SysState) (i : Nat) (f : RState → RState × List Out)
    (hcur : ∀ s, Cur k (C.rcfg i) s → Cur k (C.rcfg i) (f s).1)
    (hst : ∀ s, Stored s → Stored (f s).1)
    (hext : ∀ s, Fresh s → TGrows s.truth (f s).1)
    (hf : FreshL σ.truth σ.nextBytes)
    (h : SysCur k C σ) : SysCur k C (σ.run i f) := by
  unfold SysState.run
  split
  · exact h
  · rename_i s hl
    obtain ⟨h1, h2, h3⟩ := h i s hl
    have hfr : Fresh { s with truth := σ.truth, nextBytes := σ.nextBytes } := hf.2
    have hc0 : Cur k (C.rcfg i) { s with truth := σ.truth, nextBytes := σ.nextBytes } :=
      external_extension_cur k _ s _ rfl hfr (fun _ _ hb => hb) h3 h1
    have hs0 : Stored { s with truth := σ.truth, nextBytes := σ.nextBytes } := h2
    exact sys_set_cur k C σ i _ _ _ h (hcur _ hc0) (hst _ hs0) (fun _ _ hb => hb) (hext _ hfr)

theorem sysStep_cur (k : Keys) (C : SysCfg) (σ : SysState) (a : SysAct)
    (hf : FreshL σ.truth σ.nextBytes) (h : SysCur k C σ) : SysCur k C (sysStep k C σ a) := by
  cases a with
  | start i =>
    exact sys_run_cur k C σ i _ (fun s => start_cur k _ s) (fun s => start_stored k _ s)
      (fun s hs => (start_ext k _ s hs).truth) hf h
  | deliver i e =>
    exact sys_run_cur k C σ i _ (fun s => step_cur k _ s e) (fun s => step_stored_partial k _ s e)
      (fun s hs => (step_ext k _ s e hs).truth) hf h
  | fetchable i l =>
    simp only [sysStep]
    split
    · exact h
    · rename_i s hl
      obtain ⟨h1, h2, h3⟩ := h i s hl
      exact sys_set_cur k C σ i _ σ.truth σ.nextBytes h h1 h2 h3 (fun _ _ hb => hb)
  | forge a =>
    simp only [sysStep]
    split
    · exact h
    · intro i s hl
      obtain ⟨h1, h2, h3⟩ := h i s hl
      refine ⟨h1, h2, ?_⟩
      intro b a' hb
      have hb' := h3 b a' hb
      show ((σ.nextBytes, a) :: σ.truth).lookup b = some a'
      rw [List.lookup_cons]
      split
      · rename_i heq
        have : b = σ.nextBytes := by simpa using heq
        rw [this, lookup_none_of_fresh σ.truth σ.nextBytes hf.2] at hb'
        cases hb'
      · exact hb'

theorem reach_cur (k : Keys) (C : SysCfg) (σ : SysState) (h : Reach k C σ) : SysCur k C σ := by
  induction h with
  | init => exact sysInit_cur k C
  | step σ a hr ih => exact sysStep_cur k C σ a (reach_fresh k C σ hr) ih

end HsVerif.Model

namespace HsVerif.Props.C01SysWF
open HsVerif.Model HsVerif.Props.C01Sys

/-- The system state `σ` as a system of the abstract safety argument: blocks are the model's
blocks, "the block with that hash" is `blk`, the parent of a non-genesis block is the block with
its parent hash (genesis is its own parent), replica `r` voted for `b` when its ghost history has
the vote record, a quorum is a set containing `quorumSize n` distinct ids `1..n`. -/
abbrev SysAbs (C : SysCfg) (σ : SysState) (blk : Hash → Block) : HsVerif.Safety.Sys :=
  { Blk := Block, Rep := Nat, gen := genesisBlock, view := Block.view,
    par := fun b => if b = genesisBlock then genesisBlock else blk b.parent,
    honest := fun r => r ∈ C.honest,
    voted := fun r b => ∃ s id, σ.reps.lookup r = some s ∧ GRec.vote b id ∈ s.ghost,
    Quorum := fun Q => ∃ S : List Nat, S.Nodup ∧ quorumSize C.n ≤ S.length ∧ ∀ i ∈ S, 1 ≤ i ∧ i ≤ C.n ∧ Q i }

/-- Content addressing, as a hypothesis on the state looked at: `blk h` is THE block of hash `h` —
the genesis block for the genesis hash, and every block an honest replica stores under `h`
(received, fetched or own) or voted for is `blk` of that hash.  (Stores are keyed by the REQUESTED
hash when a block is fetched, and `Store` leaves existing entries alone, so the model alone does
not give this: it is collision freedom of the hash function plus peers serving what was asked for.) -/
def CA (σ : SysState) (blk : Hash → Block) : Prop :=
  blk genesisHash = genesisBlock ∧
  ∀ i s, σ.reps.lookup i = some s →
    (∀ h b, s.chain.blocks.lookup h = some b → b = blk h ∧ b.hash = h) ∧
    (∀ b id, GRec.vote b id ∈ s.ghost → b = blk b.hash)

/-- the parent function of `SysAbs`, unfolded -/
theorem sysAbs_par (C : SysCfg) (σ : SysState) (blk : Hash → Block) (b : Block) :
    (SysAbs C σ blk).par b = if b = genesisBlock then genesisBlock else blk b.parent := rfl

/-! decision procedures for the non-vacuity examples -/

theorem mem_of_lookup_hash {α} (l : List (Hash × α)) (h : Hash) (v : α) (hl : l.lookup h = some v) : (h, v) ∈ l := by
  induction l with
  | nil => simp at hl
  | cons a l ih =>
    obtain ⟨j, w⟩ := a
    simp only [List.lookup] at hl
    split at hl
    · rename_i heq
      have : h = j := by simpa using heq
      cases hl; subst this; simp
    · exact List.mem_cons_of_mem _ (ih hl)

/-- `CA`, checked over all entries of all stores and all vote records -/
def caCheck (σ : SysState) (blk : Hash → Block) : Bool :=
  blk genesisHash == genesisBlock &&
  σ.reps.all (fun p =>
    p.2.chain.blocks.all (fun e => e.2 == blk e.1 && e.2.hash == e.1) &&
    p.2.ghost.all (fun r => match r with | .vote b _ => b == blk b.hash | _ => true))

theorem ca_of_caCheck (σ : SysState) (blk : Hash → Block) (h : caCheck σ blk = true) : CA σ blk := by
  simp only [caCheck, Bool.and_eq_true, beq_iff_eq] at h
  refine ⟨h.1, ?_⟩
  intro i s hl
  have hp := List.all_eq_true.mp h.2 _ (mem_of_lookup _ _ _ hl)
  simp only [Bool.and_eq_true] at hp
  refine ⟨?_, ?_⟩
  · intro x b hb
    have := List.all_eq_true.mp hp.1 _ (mem_of_lookup_hash _ _ _ hb)
    simpa using this
  · intro b id hm
    have := List.all_eq_true.mp hp.2 _ hm
    simpa using this

/-- replica `r` has the vote record `.vote w id` -/
def votedCheck (σ : SysState) (r : Nat) (w : Block) (id : Nat) : Bool :=
  match σ.reps.lookup r with
  | some s => s.ghost.any (fun g => match g with | .vote b i => b == w && i == id | _ => false)
  | none => false

theorem voted_of_votedCheck (C : SysCfg) (σ : SysState) (blk : Hash → Block) (r : Nat) (w : Block) (id : Nat)
    (h : votedCheck σ r w id = true) : (SysAbs C σ blk).voted r w := by
  unfold votedCheck at h
  split at h
  · rename_i s hl
    refine ⟨s, id, hl, ?_⟩
    obtain ⟨g, hg, hm⟩ := List.any_eq_true.mp h
    cases g with
    | vote b i =>
      simp only [Bool.and_eq_true, beq_iff_eq] at hm
      rw [← hm.1, ← hm.2]; exact hg
    | tmo v => cases hm
    | adv a b c => cases hm
  · cases h

end HsVerif.Props.C01SysWF
