import HsVerif.Proofs.ReplicaVM
/-! The voting machine under asynchronous verification (C09): the two pieces of `collectVote`,
`collectVotePre` (on the event loop) and `verifyCertM` (`verifyCert`, later and in any state). -/
open Std.Do
set_option mvcgen.warning false
set_option linter.unusedVariables false
set_option linter.unusedSimpArgs false
namespace HsVerif.Model

/-- `verifyCert` keeps the invariant of the vote store, from ANY state and for ANY captured block -/
theorem verifyCertM_vm (k : Keys) (c : RCfg) (sig : Option Sig) (hash : Hash) (b : Block)
    (hq : 2 ≤ c.cfg.quorum) (hw : ∀ sg, sig = some sg → sg.WF) (hl : ∀ sg, sig = some sg → sg.len = 1) :
    ⦃fun s => ⌜VMI k c s⌝⦄ verifyCertM k c sig hash b ⦃⇓ _ s => ⌜VMI k c s⌝⦄ := by
  mvcgen [verifyCertM, votesCleanup_vm, addEvent]
  all_goals simp_all +zetaDelta
  any_goals (exact vmi_filter k c _ _ ‹VMI k c _›)
  · exact vmi_insert k c _ hash _ ‹VMI k c _› (voteOK_of_verify k c _ hash _ hw hl (by assumption)) hq (by assumption) (by assumption)
  · exfalso
    rename_i hnone
    obtain ⟨sg', hsg'⟩ := combine_votes_ok k c _ hash (_, _) ‹VMI k c _› (voteOK_of_verify k c _ hash _ hw hl (by assumption)) hq
      (by assumption) (by assumption)
    simp only [List.map_append, List.map_cons, List.map_nil] at hsg'
    rw [hsg'] at hnone
    split at hnone <;> simp at hnone

theorem verifyCertM_queue (k : Keys) (c : RCfg) (sig : Option Sig) (hash : Hash) (b : Block) (q0 : List Ev)
    (hq : 2 ≤ c.cfg.quorum) (hw : ∀ sg, sig = some sg → sg.WF) (hl : ∀ sg, sig = some sg → sg.len = 1) :
    ⦃fun s => ⌜VMI k c s ∧ s.queue = q0⌝⦄ verifyCertM k c sig hash b
    ⦃⇓ _ s => ⌜s.queue = q0 ∨ ∃ qc, s.queue = q0 ++ [.newview c.id { qc := some qc }] ∧ QCFromVotes k c hash qc⌝⦄ := by
  mvcgen [verifyCertM, votesCleanup_queue, addEvent]
  all_goals simp_all +zetaDelta
  all_goals (
    intro _
    exact qc_from_votes k c _ hash _ _ _ (And.left ‹VMI k c _ ∧ _›) hq
      (voteOK_of_verify k c _ hash _ hw hl (by assumption)) (by assumption) (by assumption) (by assumption))

theorem collectVotePre_frame (id : Nat) (sig : Option Sig) (hash : Hash) (d : Bool) (v0 : List (Hash × List (Nat × Sig))) (q0 : List Ev) :
    ⦃fun s => ⌜s.votes = v0 ∧ s.queue = q0⌝⦄ collectVotePre id sig hash d
    ⦃⇓ r s => ⌜s.votes = v0 ∧ s.queue = q0 ∧ ∀ b, r = some b → ∃ sg, sig = some sg ∧ sg.len = 1⌝⦄ := by
  mvcgen [collectVotePre, getBlock]
  all_goals simp_all +zetaDelta

end HsVerif.Model
