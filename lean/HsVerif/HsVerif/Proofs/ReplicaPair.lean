import HsVerif.Proofs.ReplicaRule
/-!
The lock rule as an invariant over the whole vote history of one replica (C01 layer B, task S3C).

`vote_respects_lock` (ReplicaRule.lean) is a one-step statement; one `step` can append several votes,
so it does not say against WHICH lock each of them was checked relative to the votes before it.  Here:

* `PairInv c s`: for every vote record `GRec.vote w id` in the ghost history, with `pre` the records
  before it, there is a block `L` (the lock the replica held when it evaluated the vote rule for `w`)
  such that `L` is genesis or the stored certificate-grandparent of a vote in `pre` (`ProvIn`), every
  vote in `pre` is covered by `L.view` (`CoveredBy`), and the vote rule held for `w` against `L`
  (`RuleHolds`).  All three facts mention stored lookups and the ghost prefix only — NOT the current
  lock — so they survive everything that lets the block map grow and appends to the ghost history.
* `Ready c b s`: the same witness for a block `b` that is about to be voted for, against the whole
  current ghost history.  `voterVerify` establishes it from the lock invariant `LInv` of that moment
  (`ready_of_linv`: `L :=` the current lock); `tryCommit` — which moves the lock — keeps it
  (`tryCommit_ready`); `voteFor` turns it into `PairInv` of the extended history (`voteFor_pair`).
* the chain `_lp` carries `LP = LInv ∧ PairInv` through every handler, with the temporary variants
  `LPW` (after a positive `voterVerify`), `LPBut` (`onValidPropose`: between `tryCommit` and `voteFor`)
  and `LPPend` (`createAndPropose`: between `voteFor` and `tryCommit`), on top of `LInvBut` / `LPend`.
-/
open Std.Do
set_option mvcgen.warning false
set_option linter.unusedSimpArgs false
set_option linter.unusedVariables false
namespace HsVerif.Model
open HsVerif.Proofs

/-- `L` is the stored certificate-grandparent of `x`, reached the way `commitRule` walks (`GP` with the
lock replaced by `L`) -/
def GPof (c : RCfg) (s : RState) (x L : Block) : Prop := GPst c s.chain.blocks L x

/-- `x` is covered by a lock of view `lv`: as the second half of `LockCoversW`, with the lock's view as a parameter -/
def CoveredBy (c : RCfg) (s : RState) (x : Block) (lv : Nat) : Prop :=
  (c.rules = .chained ∧ x.qc.hash = "") ∨
  ∃ p, sget s x.qc.hash = some p ∧ (p.qc.hash = "" ∨ ∃ g, sget s p.qc.hash = some g ∧ g.view ≤ lv)

/-- `L` is genesis or the stored certificate-grandparent of a vote among `votes` -/
def ProvIn (c : RCfg) (s : RState) (votes : List GRec) (L : Block) : Prop :=
  L = genesisBlock ∨ ∃ x id, GRec.vote x id ∈ votes ∧ GPof c s x L

/-- the history invariant -/
def PairInv (c : RCfg) (s : RState) : Prop :=
  ∀ pre w id post, s.ghost = pre ++ GRec.vote w id :: post →
    ∃ L, ProvIn c s pre L ∧ (∀ x idx, GRec.vote x idx ∈ pre → CoveredBy c s x L.view) ∧ RuleHolds c s w L

/-- the witness `PairInv` asks for, for a vote for `w` cast after the records `pre` -/
def Wit (c : RCfg) (s : RState) (pre : List GRec) (w : Block) : Prop :=
  ∃ L, ProvIn c s pre L ∧ (∀ x idx, GRec.vote x idx ∈ pre → CoveredBy c s x L.view) ∧ RuleHolds c s w L

theorem gpof_lock (c : RCfg) (s : RState) (x : Block) : GP c s x ↔ GPof c s x s.lock := Iff.rfl

theorem gpof_grows {s s' : RState} (hg : Grows s.chain.blocks s') (c : RCfg) (x L : Block)
    (h : GPof c s x L) : GPof c s' x L := by
  obtain ⟨p, hp, hh, h2⟩ := h
  exact ⟨p, hg _ _ hp, hh, hg _ _ h2⟩

theorem coveredBy_grows {s s' : RState} (hg : Grows s.chain.blocks s') (c : RCfg) (x : Block) (lv : Nat)
    (h : CoveredBy c s x lv) : CoveredBy c s' x lv := by
  rcases h with h | ⟨p, hp, h2⟩
  · exact Or.inl h
  · refine Or.inr ⟨p, hg _ _ hp, ?_⟩
    rcases h2 with h2 | ⟨g, hg', hv⟩
    · exact Or.inl h2
    · exact Or.inr ⟨g, hg _ _ hg', hv⟩

theorem provIn_grows {s s' : RState} (hg : Grows s.chain.blocks s') (c : RCfg) (vs : List GRec) (L : Block)
    (h : ProvIn c s vs L) : ProvIn c s' vs L := by
  rcases h with h | ⟨x, id, hm, hgp⟩
  · exact Or.inl h
  · exact Or.inr ⟨x, id, hm, gpof_grows hg c x L hgp⟩

theorem wit_grows {s s' : RState} (hg : Grows s.chain.blocks s') (c : RCfg) (pre : List GRec) (w : Block)
    (h : Wit c s pre w) : Wit c s' pre w := by
  obtain ⟨L, h1, h2, h3⟩ := h
  exact ⟨L, provIn_grows hg c pre L h1, fun x idx hm => coveredBy_grows hg c x _ (h2 x idx hm),
    ruleHolds_grows c s s' w L hg h3⟩

/-- `PairInv` reads the ghost history and stored lookups only (not the lock) -/
theorem pair_grows {s s' : RState} (hg : Grows s.chain.blocks s') (hgh : s'.ghost = s.ghost) (c : RCfg)
    (h : PairInv c s) : PairInv c s' := by
  intro pre w id post he
  exact wit_grows hg c pre w (h pre w id post (hgh ▸ he))

theorem snoc_split {α} (l pre post : List α) (r a : α) (h : l ++ [r] = pre ++ a :: post) :
    (post = [] ∧ l = pre ∧ r = a) ∨ ∃ post', post = post' ++ [r] ∧ l = pre ++ a :: post' := by
  rcases List.eq_nil_or_concat post with rfl | ⟨L, b, rfl⟩
  · left
    have := List.append_inj' h rfl
    exact ⟨rfl, this.1, by simpa using this.2⟩
  · right
    have h' : l ++ [r] = (pre ++ a :: L) ++ [b] := by simpa using h
    have := List.append_inj' h' rfl
    have hb : r = b := by simpa using this.2
    exact ⟨L, by simp [hb], this.1⟩

/-- the vote rule held for `b` against a block `L0` that stems from the current ghost history and
covers every vote in it: `b` may be voted for -/
def Ready (c : RCfg) (b : Block) (s : RState) : Prop := Wit c s s.ghost b

theorem ready_grows {s s' : RState} (hg : Grows s.chain.blocks s') (hgh : s'.ghost = s.ghost) (c : RCfg) (b : Block)
    (h : Ready c b s) : Ready c b s' := by
  unfold Ready; rw [hgh]; exact wit_grows hg c _ b h

/-- appending one record: a vote needs a witness against the history so far -/
theorem pair_snoc {s s' : RState} (hg : Grows s.chain.blocks s') (r : GRec) (hgh : s'.ghost = s.ghost ++ [r])
    (c : RCfg) (h : PairInv c s) (hr : ∀ b id, r = .vote b id → Ready c b s) : PairInv c s' := by
  intro pre w id post he
  rw [hgh] at he
  rcases snoc_split _ _ _ _ _ he with ⟨_, hpre, hra⟩ | ⟨post', _, hl⟩
  · subst hpre
    exact wit_grows hg c _ w (hr w id hra)
  · exact wit_grows hg c pre w (h pre w id post' hl)

/-- at a state satisfying the lock invariant, the current lock is a witness for every block for which
the vote rule holds against it -/
theorem ready_of_linv_lock (c : RCfg) (b : Block) (s : RState) (hi : LInv c s) (hr : RH c b s) :
    ProvIn c s s.ghost s.lock ∧ (∀ x idx, GRec.vote x idx ∈ s.ghost → CoveredBy c s x s.lock.view) ∧
    RuleHolds c s b s.lock := by
  refine ⟨?_, ?_, hr⟩
  · rcases hi.2.2 with h | ⟨x, id, hm, hgp⟩
    · exact Or.inl h
    · exact Or.inr ⟨x, id, hm, hgp⟩
  · intro x idx hm
    exact (hi.2.1 x idx hm).2

theorem ready_of_linv (c : RCfg) (b : Block) (s : RState) (hi : LInv c s) (hr : RH c b s) : Ready c b s :=
  ⟨s.lock, ready_of_linv_lock c b s hi hr⟩

/-! ### the chain -/

/-- lock invariant and history invariant together -/
def LP (c : RCfg) (s : RState) : Prop := LInv c s ∧ PairInv c s

/-- after a positive `voterVerify` for `b`: both certificate links of `b` stored, `b` ready -/
def LPW (c : RCfg) (b : Block) (s : RState) : Prop := (LInv c s ∧ Walk2 s b) ∧ PairInv c s ∧ Ready c b s

/-- between `tryCommit c b` and `voteFor c b` (`onValidPropose`) -/
def LPBut (c : RCfg) (b : Block) (s : RState) : Prop := LInvBut c b s ∧ PairInv c s ∧ Ready c b s

/-- between `voteFor c b` and `tryCommit c b` (`createAndPropose`) -/
def LPPend (c : RCfg) (b : Block) (s : RState) : Prop := LPend c b s ∧ PairInv c s

theorem lp_same (c : RCfg) (s s' : RState) (h : Same s s') (hi : LP c s) : LP c s' :=
  ⟨linv_same h c hi.1, pair_grows h.store h.ghost c hi.2⟩

theorem lp_congr (c : RCfg) (s s' : RState) (h : LP c s) (hg : s'.ghost = s.ghost) (hc : s'.chain = s.chain)
    (hl : s'.lock = s.lock) : LP c s' :=
  lp_same c s s' (same_of_eq s s' (by rw [hc]) hl hg) h

theorem lp_append (c : RCfg) (s s' : RState) (r : GRec) (h : LP c s)
    (hg : s'.ghost = s.ghost ++ [r]) (hc : s'.chain = s.chain) (hl : s'.lock = s.lock) (hr : ∀ b id, r ≠ .vote b id) : LP c s' :=
  ⟨linv_append c s s' r hr hg hc hl h.1,
    pair_snoc (grows_of_blocks_eq s s' (by rw [hc])) r hg c h.2 (fun b id he => absurd he (hr b id))⟩

section LPChain
variable (k : Keys) (c : RCfg)

theorem emit_lp (o : Out) : ⦃fun s => ⌜LP c s⌝⦄ emit o ⦃⇓ _ s => ⌜LP c s⌝⦄ :=
  same_frame _ (lp_same c) _ (emit_frame o) (emit_gr o) (emit_le o)
theorem addEvent_lp (e : Ev) : ⦃fun s => ⌜LP c s⌝⦄ addEvent e ⦃⇓ _ s => ⌜LP c s⌝⦄ :=
  same_frame _ (lp_same c) _ (addEvent_frame e) (addEvent_gr e) (addEvent_le e)
theorem getBlock_lp (h : Hash) : ⦃fun s => ⌜LP c s⌝⦄ getBlock h ⦃⇓ _ s => ⌜LP c s⌝⦄ :=
  same_frame _ (lp_same c) _ (getBlock_frame h) (getBlock_gr h) (getBlock_le h)
theorem signMsg_lp (m : Msg) : ⦃fun s => ⌜LP c s⌝⦄ signMsg c m ⦃⇓ _ s => ⌜LP c s⌝⦄ :=
  same_frame _ (lp_same c) _ (signMsg_frame c m) (signMsg_gr c m) (signMsg_le c m)
theorem verifySyncInfo_lp (si : SyncInfo) : ⦃fun s => ⌜LP c s⌝⦄ verifySyncInfo k c si ⦃⇓ _ s => ⌜LP c s⌝⦄ :=
  same_frame _ (lp_same c) _ (verifySyncInfo_frame k c si) (verifySyncInfo_gr k c si) (verifySyncInfo_le k c si)
theorem collectVote_lp (id : Nat) (sig : Option Sig) (h : Hash) (d : Bool) :
    ⦃fun s => ⌜LP c s⌝⦄ collectVote k c id sig h d ⦃⇓ _ s => ⌜LP c s⌝⦄ :=
  same_frame _ (lp_same c) _ (collectVote_frame k c id sig h d) (collectVote_gr k c id sig h d) (collectVote_le k c id sig h d)
theorem aggregateVote_lp (b : Block) (sg : Sig) :
    ⦃fun s => ⌜LP c s⌝⦄ aggregateVote k c b sg ⦃⇓ _ s => ⌜LP c s⌝⦄ :=
  same_frame _ (lp_same c) _ (aggregateVote_frame k c b sg) (aggregateVote_gr k c b sg) (aggregateVote_le k c b sg)
theorem markProposed_lp (fuel : Nat) (b : Block) :
    ⦃fun s => ⌜LP c s⌝⦄ markProposed fuel b ⦃⇓ _ s => ⌜LP c s⌝⦄ :=
  same_frame _ (lp_same c) _ (markProposed_frame fuel b) (markProposed_gr fuel b) (markProposed_le fuel b)

/-- recording the vote for a ready block -/
theorem voteFor_pair (b : Block) (id : Nat) (s : RState) (hp : PairInv c s) (hr : Ready c b s) :
    PairInv c ((voteFor c b id).run s).2 := by
  refine pair_snoc (grows_run _ (voteFor_gr c b id) s) (.vote b id) ?_ c hp ?_
  · have hv := run_res_of_triple _ (fun s' => VS s' = (s.ghost, s.lastVoted)) _ (voteFor_vs c b id s.ghost s.lastVoted) s rfl
    have := congrArg (fun x => x.1) hv
    simpa [VS] using this
  · intro b' id' he; cases he; exact hr

/-- `tryCommit` leaves the ghost history alone and lets the store grow: the lock it moves is not read -/
theorem tryCommit_pair (b : Block) (s : RState) (hp : PairInv c s) : PairInv c ((tryCommit c b).run s).2 :=
  pair_grows (grows_run _ (tryCommit_gr c b) s) (ghost_of_vs _ (tryCommit_frame c b) s) c hp

theorem tryCommit_ready (b b' : Block) (s : RState) (hr : Ready c b' s) : Ready c b' ((tryCommit c b).run s).2 :=
  ready_grows (grows_run _ (tryCommit_gr c b) s) (ghost_of_vs _ (tryCommit_frame c b) s) c b' hr

theorem voteFor_lpi (b : Block) (id : Nat) :
    ⦃fun s => ⌜LPBut c b s⌝⦄ voteFor c b id ⦃⇓ _ s => ⌜LP c s⌝⦄ := by
  apply triple_of_run
  intro s ⟨hb, hp, hr⟩
  exact ⟨run_res_of_triple _ _ _ (voteFor_i c b id) s hb, voteFor_pair c b id s hp hr⟩

theorem voteFor_lpii (b : Block) (id : Nat) :
    ⦃fun s => ⌜LPW c b s⌝⦄ voteFor c b id ⦃⇓ _ s => ⌜LPPend c b s⌝⦄ := by
  apply triple_of_run
  intro s ⟨hb, hp, hr⟩
  exact ⟨run_res_of_triple _ _ _ (voteFor_ii c b id) s hb, voteFor_pair c b id s hp hr⟩

variable (hc : c.rules ≠ .fast)
include hc

theorem voterVerify_lp (id : Nat) (b : Block) (agg : Option AggQC) :
    ⦃fun s => ⌜LP c s⌝⦄ voterVerify k c id b agg ⦃⇓ r s => ⌜LP c s ∧ (r = .ok () → LPW c b s)⌝⦄ := by
  apply triple_of_run
  intro s hi
  have hsame := same_run _ (voterVerify_vs k c id b agg) (voterVerify_gr k c id b agg) (voterVerify_le k c id b agg) s
  have hlp := lp_same c _ _ hsame hi
  refine ⟨hlp, fun hr => ⟨⟨hlp.1, run_res_of_triple _ _ _ (voterVerify_walk k c id b agg hc) s hi.1.1 hr⟩, hlp.2, ?_⟩⟩
  exact ready_of_linv c b _ hlp.1 (run_res_of_triple _ (fun _ => True) _ (voterVerify_rh k c id b agg) s trivial hr)

theorem tryCommit_lpi (b : Block) :
    ⦃fun s => ⌜LPW c b s⌝⦄ tryCommit c b ⦃⇓ _ s => ⌜LPBut c b s⌝⦄ := by
  apply triple_of_run
  intro s ⟨hb, hp, hr⟩
  exact ⟨run_res_of_triple _ _ _ (tryCommit_i c b hc) s hb, tryCommit_pair c b s hp, tryCommit_ready c b b s hr⟩

theorem tryCommit_lpii (b : Block) :
    ⦃fun s => ⌜LPPend c b s⌝⦄ tryCommit c b ⦃⇓ _ s => ⌜LP c s⌝⦄ := by
  apply triple_of_run
  intro s ⟨hb, hp⟩
  exact ⟨run_res_of_triple _ _ _ (tryCommit_ii c b hc) s hb, tryCommit_pair c b s hp⟩

/-- closes the verification conditions of the `LP` chain -/
macro "lp_finish" : tactic => `(tactic| (
  (try intros)
  (try simp only [and_true, true_and, and_self, implies_true] at *)
  (first
    | done
    | assumption
    | (apply lp_congr <;> first | assumption | rfl)
    | (apply lp_append <;> first | assumption | rfl | (intro _ _ h; cases h))
    | (simp_all; done)
    | skip)))

theorem onValidPropose_lp (id : Nat) (b : Block) :
    ⦃fun s => ⌜LPW c b s⌝⦄ onValidPropose k c id b ⦃⇓ _ s => ⌜LP c s⌝⦄ := by
  mvcgen [onValidPropose, tryCommit_lpi, voteFor_lpi, aggregateVote_lp]

theorem createAndPropose_lp (si : SyncInfo) :
    ⦃fun s => ⌜LP c s⌝⦄ createAndPropose k c si ⦃⇓ _ s => ⌜LP c s⌝⦄ := by
  mvcgen [createAndPropose, getBlock_lp, markProposed_lp, voterVerify_lp, voteFor_lpii, tryCommit_lpii, emit_lp,
    aggregateVote_lp]
  all_goals lp_finish

theorem advanceView_lp (si : SyncInfo) :
    ⦃fun s => ⌜LP c s⌝⦄ advanceView k c si ⦃⇓ _ s => ⌜LP c s⌝⦄ := by
  mvcgen [advanceView, verifySyncInfo_lp, getBlock_lp, addEvent_lp, createAndPropose_lp, emit_lp]
  all_goals lp_finish

theorem onRemoteTimeout_lp (t : TimeoutMsg) :
    ⦃fun s => ⌜LP c s⌝⦄ onRemoteTimeout k c t ⦃⇓ _ s => ⌜LP c s⌝⦄ := by
  mvcgen [onRemoteTimeout, advanceView_lp]
  all_goals lp_finish

theorem onLocalTimeout_lp :
    ⦃fun s => ⌜LP c s⌝⦄ onLocalTimeout k c ⦃⇓ _ s => ⌜LP c s⌝⦄ := by
  mvcgen [onLocalTimeout, onRemoteTimeout_lp, signMsg_lp, emit_lp]
  all_goals lp_finish

theorem onPropose_lp (id : Nat) (b : Block) (agg : Option AggQC) :
    ⦃fun s => ⌜LP c s⌝⦄ onPropose k c id b agg ⦃⇓ _ s => ⌜LP c s⌝⦄ := by
  mvcgen [onPropose, advanceView_lp, voterVerify_lp, onValidPropose_lp, emit_lp]
  all_goals lp_finish

theorem tick_lp :
    ⦃fun s => ⌜LP c s⌝⦄ tick k c ⦃⇓ _ s => ⌜LP c s⌝⦄ := by
  mvcgen [tick, onPropose_lp, onRemoteTimeout_lp, onLocalTimeout_lp, advanceView_lp, collectVote_lp, emit_lp]
  all_goals lp_finish

theorem runLoop_lp (fuel : Nat) :
    ⦃fun s => ⌜LP c s⌝⦄ runLoop k c fuel ⦃⇓ _ s => ⌜LP c s⌝⦄ := by
  induction fuel with
  | zero => mvcgen [runLoop]
  | succ n ih => mvcgen [runLoop, tick_lp, ih]

end LPChain

/-! ### one delivered event, and `Start` -/

theorem step_lp (k : Keys) (c : RCfg) (hc : c.rules ≠ .fast) (s : RState) (e : Ev) (h : LP c s) :
    LP c (step k c s e).1 := by
  unfold step
  have h0 : LP c { s with out := [], queue := s.queue ++ [e] } := lp_congr c s _ h rfl rfl rfl
  have := run_res_of_triple (runLoop k c 100000) _ _ (runLoop_lp k c hc 100000) _ h0
  exact lp_congr c _ _ this rfl rfl rfl

theorem start_lp (k : Keys) (c : RCfg) (hc : c.rules ≠ .fast) (s : RState) (h : LP c s) :
    LP c (start k c s).1 := by
  unfold start
  have h0 : LP c { s with out := [] } := lp_congr c s _ h rfl rfl rfl
  have h1 := createAndPropose_lp k c hc
  have h2 := runLoop_lp k c hc
  have spec : ⦃fun s' => ⌜LP c s'⌝⦄ (do
      let s ← get
      if s.view == 1 && c.leader 1 == c.id then
        createAndPropose k c { qc := some s.highQC, tc := some s.highTC }
      runLoop k c 100000 : M Unit) ⦃⇓ _ s' => ⌜LP c s'⌝⦄ := by
    mvcgen [h1, h2]
  have := run_res_of_triple _ _ _ spec _ h0
  exact lp_congr c _ _ this rfl rfl rfl

theorem pair_init (c : RCfg) : PairInv c {} := by
  intro pre w id post he
  have : ([] : List GRec).length = (pre ++ GRec.vote w id :: post).length := congrArg List.length he
  simp at this

/-- the pairwise consequence of `PairInv` -/
theorem pair_history (c : RCfg) (s : RState) (h : PairInv c s) (pre post : List GRec) (w x : Block) (id idx : Nat)
    (he : s.ghost = pre ++ GRec.vote w id :: post) (hx : GRec.vote x idx ∈ pre) :
    ∃ L, ProvIn c s pre L ∧ CoveredBy c s x L.view ∧ RuleHolds c s w L := by
  obtain ⟨L, h1, h2, h3⟩ := h pre w id post he
  exact ⟨L, h1, h2 x idx hx, h3⟩

theorem split_at_index {α} (l : List α) (j : Nat) (a : α) (h : l[j]? = some a) :
    l = l.take j ++ a :: l.drop (j + 1) := by
  obtain ⟨hj, ha⟩ := List.getElem?_eq_some_iff.mp h
  rw [← ha, ← List.drop_eq_getElem_cons hj, List.take_append_drop]

theorem mem_take_of_index {α} (l : List α) (i j : Nat) (a : α) (hij : i < j) (h : l[i]? = some a) :
    a ∈ l.take j := by
  have : (l.take j)[i]? = some a := by rw [List.getElem?_take_of_lt hij]; exact h
  exact List.mem_of_getElem? this

end HsVerif.Model
